(* ScrubCoverProofs.v — COVERAGE: the replaced span contains the whole delimited address.

   Generic in a full pattern of the shape
        (^ | L')  ( group 1:  ( group g2: V | B | ( group g3: D1 | D2 | N ) )  P )  R
   (V dotted quad, B bracketed, D1/D2 the IPv6 alternatives with a dotted tail, N those without, P the
   optional port, R the right delimiter).  All side conditions are decidable and are discharged by
   computation on the GENERATED pattern in Proofs/C07CoverProofs.v.

   Why the alternation order matters: for a bare IPv6 address with a dotted tail such as ::ffff:1.2.3.4
   the alternatives N also match the prefix "::ffff" (port ":1", delimiter "."); Go's leftmost-first
   semantics prefers D1/D2, which can only end at or after the end of the address.  That is the only
   place where priority (rather than the languages of the parts) is needed, besides "^ before L'". *)
From Coq Require Import List NArith Bool Arith Lia.
From Snow Require Import Lib.Wire Model.Regex Model.RegexIncl Model.RegexDisj Model.Scrub.
From Snow Require Import Proofs.RegexProofs Proofs.MatcherProofs Proofs.RegexDisjProofs Proofs.ScrubProofs.
Import ListNotations.
Open Scope nat_scope.

Definition anyc (c : re) : re := Star (Cls (ranges c)).
(* a word of x, then a delimiter byte, then any symbols that occur in words of c *)
Definition after (x c : re) : re := Seq x (Seq delim_spec (anyc c)).

Definition is_digit (c : N) : bool := in_cls c [(48, 57)]%N.

(* the occurrence of w continues a dotted run: w is a dotted quad (with or without port) and the text
   before it ends with a decimal digit and '.' *)
Definition dotted_run (pre w : bytes) : Prop :=
  matches v4forms w /\ exists pre' d, pre = pre' ++ [d; 46%N] /\ is_digit d = true.

(* the exception to full coverage: the address ends with ':' and whitespace follows *)
Definition colon_ws (w post : bytes) : Prop :=
  (exists w', w = w' ++ [58%N]) /\ exists z post', post = z :: post' /\ is_ws z = true.

(* ---------------------------------------------------------------- lists *)

Lemma app_eq_len_le : forall (a b c d : bytes), a ++ b = c ++ d -> length a <= length c ->
  exists u, c = a ++ u /\ b = u ++ d.
Proof.
  induction a as [|x a IH]; intros b c d H Hl; simpl in *.
  - exists c; auto.
  - destruct c as [|y c]; simpl in *; [lia|].
    inversion H; subst. destruct (IH b c d H2) as (u & E1 & E2); [lia|].
    exists u; subst; auto.
Qed.

Lemma after_intro : forall x c v d v2,
  matches x v -> is_delim d = true -> matches c (v ++ d :: v2) -> matches (after x c) (v ++ d :: v2).
Proof.
  intros x c v d v2 Hx Hd Hc. unfold after. constructor; auto.
  change (d :: v2) with ([d] ++ v2). constructor.
  - constructor. exact Hd.
  - apply star_any. intros e He. eapply matches_in_ranges; eauto.
    apply in_or_app; right; right; auto.
Qed.

(* ---------------------------------------------------------------- byte classes *)

Ltac cls_arith :=
  cbn [in_cls] in *; rewrite ?orb_false_r in *;
  repeat rewrite orb_true_iff in *; repeat rewrite andb_true_iff in *;
  repeat rewrite N.leb_le in *; lia.

Lemma delim_nodot : forall e, is_delim e = true -> e <> 46%N -> in_cls e delim_nodot_cls = true.
Proof.
  intros e H Hne. unfold is_delim, delim_cls, delim_nodot_cls in *. cls_arith.
Qed.

Lemma nondigit_cls_ok : forall e, is_digit e = false -> (e <= 255)%N -> in_cls e nondigit_cls = true.
Proof.
  intros e H Hb. unfold is_digit, nondigit_cls in *. cbn [in_cls] in H. rewrite orb_false_r in H.
  apply andb_false_iff in H. rewrite !N.leb_gt in H. cls_arith.
Qed.

Lemma in_bounded_cls : forall e rs, forallb (fun rg : N * N => (snd rg <=? 255)%N) rs = true ->
  in_cls e rs = true -> (e <= 255)%N.
Proof.
  intros e rs Hb He. destruct (in_cls_exists _ _ He) as ([lo hi] & Hin & Hr).
  rewrite forallb_forall in Hb. specialize (Hb _ Hin). unfold in_rng in Hr. simpl in *.
  apply andb_true_iff in Hr. destruct Hr as [_ Hr]. apply N.leb_le in Hr, Hb. lia.
Qed.

Lemma dot_cls_ok : in_cls 46%N dot_cls = true.
Proof. reflexivity. Qed.

Lemma is_ws_cases : forall z, is_ws z = true -> In z [9; 10; 12; 13; 32]%N.
Proof.
  intros z H. unfold is_ws, ws_cls in H. simpl. cls_arith.
Qed.

Lemma matches_cls_inv : forall rs w, matches (Cls rs) w -> exists c, w = [c] /\ in_cls c rs = true.
Proof. intros rs w H; inversion H; subst; eauto. Qed.

Lemma right_spec_inv : forall x, matches right_spec x ->
  (exists d, x = [d] /\ is_delim d = true) \/ (exists z, x = [58%N; z] /\ is_ws z = true).
Proof.
  intros x H. unfold right_spec in H. apply matches_alt_inv in H. destruct H as [H|H].
  - left. apply matches_cls_inv in H. destruct H as (d & E & Hd). exists d; split; auto.
  - right. apply matches_seq_inv in H. destruct H as (w1 & w2 & E & H1 & H2).
    apply matches_cls_inv in H1. destruct H1 as (c & E1 & Hc).
    apply matches_cls_inv in H2. destruct H2 as (z & E2 & Hz). subst.
    assert (c = 58%N) by cls_arith. subst.
    exists z; split; auto.
Qed.

(* ---------------------------------------------------------------- unfolding bt *)

Lemma bt_seq : forall a b s p c k, bt (Seq a b) s p c k = bt a s p c (fun s' p' c' => bt b s' p' c' k).
Proof. reflexivity. Qed.
Lemma bt_grp : forall g a s p c k,
  bt (Grp g a) s p c k = bt a s p c (fun s' p' c' => k s' p' ((g, (p, p')) :: c')).
Proof. reflexivity. Qed.
Lemma bt_alt_inv : forall a b s p c k res, bt (Alt a b) s p c k = Some res ->
  bt a s p c k = Some res \/ (bt a s p c k = None /\ bt b s p c k = Some res).
Proof. intros a b s p c k res H. cbn [bt] in H. destruct (bt a s p c k); auto. Qed.
Lemma bt_bol_0 : forall b s c k,
  bt (Alt Bol b) s 0 c k = match k s 0 c with Some x => Some x | None => bt b s 0 c k end.
Proof. reflexivity. Qed.
Lemma bt_bol_S : forall b s p c k, bt (Alt Bol b) s (S p) c k = bt b s (S p) c k.
Proof. reflexivity. Qed.

Section Cover.
  Variables L' V B D1 D2 Nn P R : re.
  Variables g2 g3 : nat.
  Definition cL : re := Alt Bol L'.
  Definition cA : re := Seq (Grp g2 (Alt V (Alt B (Grp g3 (Alt D1 (Alt D2 Nn)))))) P.
  Definition cAdot : re := Seq (Alt V (Alt B (Alt D1 D2))) P.
  Definition cfull : re := Seq cL (Seq (Grp 1 cA) R).

  Hypothesis HsfL : star_free cL = true.
  Hypothesis HsfA : star_free cA = true.
  Hypothesis HsfR : star_free R = true.
  Hypothesis HlenL : maxlen cL <= 1.
  Hypothesis HnullA : nullable cA = false.
  Hypothesis HafA : anchor_free cA = true.
  Hypothesis HgR : has_grp 1 R = false.
  Hypothesis HeolR : ne R = true.
  Hypothesis HdelimL : forall d, is_delim d = true -> matches cL [d].
  Hypothesis HdelimR : forall d, is_delim d = true -> matches R [d].
  Hypothesis HinclA : forall w, matches addr_spec w -> matches cA w.
  Hypothesis Hminlen : forall w, matches addr_spec w -> 2 <= length w.

  Hypothesis HbyteA : forallb (fun rg : N * N => (snd rg <=? 255)%N) (ranges cA) = true.
  Hypothesis HnullP : nullable P = true.
  Hypothesis HafRs : anchor_free (strip_top_eol R) = true.
  Hypothesis HinclR : RegexIncl.incl (strip_top_eol R) right_spec = true.
  Hypothesis Hws : forallb (fun z => sym_free z addr_spec) [9; 10; 12; 13; 32]%N = true.
  Hypothesis Hsplit1 : RegexIncl.incl addr_spec (Alt rest_spec bare_v4tail) = true.
  Hypothesis Hsplit2 : RegexIncl.incl addr_spec (Alt v4forms nonv4_spec) = true.
  Hypothesis K2 : disj rest_spec (after cA rest_spec) = true.
  Hypothesis K3 : RegexIncl.incl bare_v4tail (Alt D1 D2) = true.
  Hypothesis K4 : disj bare_v4tail (after cAdot bare_v4tail) = true.
  Hypothesis K5 : disj addr_spec (after (nonnull (tail_after delim_nodot_cls cA)) addr_spec) = true.
  Hypothesis K6 : disj nonv4_spec (after (nonnull (tail_after dot_cls cA)) nonv4_spec) = true.
  Hypothesis K7a : disj v4forms (after (deriv 46%N cA) v4forms) = true.
  Hypothesis K7b : disj v4forms (after (deriv 46%N (tail_after nondigit_cls cA)) v4forms) = true.

  Lemma HbolL : nb cL = true.
  Proof. reflexivity. Qed.

  Lemma sfL' : star_free L' = true.
  Proof. exact HsfL. Qed.

  Lemma lenL' : maxlen L' <= 1.
  Proof. exact HlenL. Qed.

  (* ---- the continuations along the path to the alternatives *)
  Definition kA (pa : nat) : cont := fun s' p' c' => bt R s' p' ((1, (pa, p')) :: c') kdone.
  Definition kP (pa : nat) : cont := fun s' p' c' => bt P s' p' c' (kA pa).
  Definition kG (pa : nat) : cont := fun s' p' c' => kP pa s' p' ((g2, (pa, p')) :: c').
  Definition kS (pa : nat) : cont := fun s' p' c' => kG pa s' p' ((g3, (pa, p')) :: c').

  (* the right delimiter can be matched on this rest, at any position *)
  Definition POK (s2 : bytes) : Prop := forall p c, exists s3 p3 c3, ms R s2 p c s3 p3 c3.

  Lemma right_ok_POK : forall post, right_ok post -> POK post.
  Proof.
    intros post [Hp|(e & post' & Hp & He)] p c; subst.
    - destruct (ne_ms R HeolR p c) as [c3 M3]; eauto.
    - destruct (matches_ms R [e] (HdelimR e He) post' p c) as [c3 M3]. simpl in M3; eauto.
  Qed.

  Lemma sf_parts : star_free P = true /\ star_free V = true /\ star_free B = true /\
                   star_free D1 = true /\ star_free D2 = true /\ star_free Nn = true.
  Proof.
    pose proof HsfA as H. unfold cA in H. simpl in H.
    repeat (apply andb_true_iff in H; destruct H as [? H]).
    repeat match goal with H : _ && _ = true |- _ => apply andb_true_iff in H; destruct H end.
    repeat split; auto.
  Qed.

  Lemma af_parts : anchor_free P = true /\ anchor_free V = true /\ anchor_free B = true /\
                   anchor_free D1 = true /\ anchor_free D2 = true /\ anchor_free Nn = true.
  Proof.
    pose proof HafA as H. unfold cA in H. simpl in H.
    repeat (apply andb_true_iff in H; destruct H as [? H]).
    repeat match goal with H : _ && _ = true |- _ => apply andb_true_iff in H; destruct H end.
    repeat split; auto.
  Qed.

  Lemma kA_complete : forall pa s2 p2 c2, POK s2 -> kA pa s2 p2 c2 <> None.
  Proof.
    intros pa s2 p2 c2 Hok. unfold kA.
    destruct (Hok p2 ((1, (pa, p2)) :: c2)) as (s3 & p3 & c3 & M).
    eapply bt_complete; eauto. unfold kdone; discriminate.
  Qed.

  Lemma kP_complete : forall pa s2 p2 c2, POK s2 -> kP pa s2 p2 c2 <> None.
  Proof.
    intros pa s2 p2 c2 Hok. unfold kP.
    assert (Hm : matches P []) by (apply nullable_correct; exact HnullP).
    destruct (matches_ms P [] Hm s2 p2 c2) as [c1 M]. simpl in M.
    eapply bt_complete; [exact M|apply sf_parts|]. apply kA_complete; auto.
  Qed.

  Lemma bt_A_complete : forall w post p c, matches cA w -> POK post -> bt cA (w ++ post) p c (kA p) <> None.
  Proof.
    intros w post p c Hw Hok.
    destruct (matches_ms cA w Hw post p c) as [c1 M].
    eapply bt_complete; [exact M|exact HsfA|]. apply kA_complete; auto.
  Qed.

  (* what follows a successful alternative: the optional port, then the right delimiter *)
  Lemma kP_sound : forall pa s2 p2 c2 en cs,
    kP pa s2 p2 c2 = Some (en, cs) ->
    exists wP sb cx s3 c3,
      s2 = wP ++ sb /\ matches P wP /\
      ms R sb (p2 + length wP) cx s3 en c3 /\
      cap_lookup 1 cs = Some (pa, p2 + length wP).
  Proof.
    intros pa s2 p2 c2 en cs H. unfold kP in H.
    apply bt_sound in H. destruct H as (sb & pb & cp & MP & Hk).
    unfold kA in Hk. apply bt_sound in Hk. destruct Hk as (s3 & p3 & c3 & MR & Hd).
    unfold kdone in Hd. inversion Hd; subst.
    destruct af_parts as (HafP & _).
    destruct (ms_matches _ _ _ _ _ _ _ MP HafP) as (wP & E & Ep & MwP). subst.
    exists wP, sb, ((1, (pa, p2 + length wP)) :: cp), s3, cs. repeat split; auto.
    rewrite (ms_no_grp 1 _ _ _ _ _ _ _ MR HgR). simpl. reflexivity.
  Qed.

  (* ---- the shape of a successful attempt at position k, with the two priority facts *)
  Lemma cover_shape : forall s0 k en cs,
    match_here cfull s0 k = Some (en, cs) ->
    exists wL wA sb cx s3 c3,
      s0 = wL ++ wA ++ sb /\ length wL <= 1 /\ wA <> [] /\ matches cA wA /\
      cap_lookup 1 cs = Some (k + length wL, k + length wL + length wA) /\
      ms R sb (k + length wL + length wA) cx s3 en c3 /\
      (k = 0 -> bt cA s0 0 [] (kA 0) <> None -> wL = []) /\
      (matches cAdot wA \/
       forall wD rest, matches (Alt D1 D2) wD -> wA ++ sb = wD ++ rest -> POK rest -> False).
  Proof.
    intros s0 k en cs H. unfold match_here, cfull in H. rewrite bt_seq in H.
    set (k1 := fun (s' : bytes) (p' : nat) (c' : caps) => bt (Seq (Grp 1 cA) R) s' p' c' kdone) in H.
    assert (Hk1 : forall s' p' c', k1 s' p' c' = bt cA s' p' c' (kA p')) by reflexivity.
    (* the left delimiter *)
    assert (HL : exists wL sa ca, s0 = wL ++ sa /\ length wL <= 1 /\
                   bt cA sa (k + length wL) ca (kA (k + length wL)) = Some (en, cs) /\
                   (k = 0 -> bt cA s0 0 [] (kA 0) <> None -> wL = [])).
    { assert (Hgen : bt L' s0 k [] k1 = Some (en, cs) ->
                     (k = 0 -> bt cA s0 0 [] (kA 0) <> None -> False) ->
                     exists wL sa ca, s0 = wL ++ sa /\ length wL <= 1 /\
                       bt cA sa (k + length wL) ca (kA (k + length wL)) = Some (en, cs) /\
                       (k = 0 -> bt cA s0 0 [] (kA 0) <> None -> wL = [])).
      { intros HbL Hno. apply bt_sound in HbL. destruct HbL as (sa & pa & ca & ML & Hk).
        destruct (ms_suffix _ _ _ _ _ _ _ ML) as (wL & E & Ep). subst.
        pose proof (ms_maxlen _ _ _ _ _ _ _ ML sfL') as Hmax.
        pose proof lenL' as HlenL'.
        exists wL, sa, ca. rewrite Hk1 in Hk.
        split; [reflexivity|]. split; [clear - Hmax HlenL'; lia|]. split; [exact Hk|].
        intros Hk0 Hne. exfalso; auto. }
      unfold cL in H. destruct k as [|k'].
      - rewrite bt_bol_0 in H. destruct (k1 s0 0 []) as [res|] eqn:E.
        + inversion H; subst. rewrite Hk1 in E.
          exists [], s0, []. simpl. repeat split; auto.
        + apply Hgen; [exact H|]. intros _ Hne. rewrite Hk1 in E. contradiction.
      - rewrite bt_bol_S in H. apply Hgen; [exact H|]. intros Hk0; discriminate. }
    destruct HL as (wL & sa & ca & Es0 & HwL & HA & HprioL).
    set (pa := k + length wL) in *.
    (* the alternatives *)
    unfold cA in HA. rewrite bt_seq, bt_grp in HA.
    change (bt (Alt V (Alt B (Grp g3 (Alt D1 (Alt D2 Nn))))) sa pa ca (kG pa) = Some (en, cs)) in HA.
    destruct af_parts as (HafP & HafV & HafB & HafD1 & HafD2 & HafN).
    destruct sf_parts as (HsfP & HsfV & HsfB & HsfD1 & HsfD2 & HsfN).
    assert (Hfin : forall X wX s2 c2,
              sa = wX ++ s2 -> matches X wX ->
              kP pa s2 (pa + length wX) c2 = Some (en, cs) ->
              (forall w, matches X w -> matches (Alt V (Alt B (Grp g3 (Alt D1 (Alt D2 Nn))))) w) ->
              (matches (Alt V (Alt B (Alt D1 D2))) wX \/
               forall wD rest, matches (Alt D1 D2) wD -> sa = wD ++ rest -> POK rest -> False) ->
              exists wL wA sb cx s3 c3,
                s0 = wL ++ wA ++ sb /\ length wL <= 1 /\ wA <> [] /\ matches cA wA /\
                cap_lookup 1 cs = Some (k + length wL, k + length wL + length wA) /\
                ms R sb (k + length wL + length wA) cx s3 en c3 /\
                (k = 0 -> bt cA s0 0 [] (kA 0) <> None -> wL = []) /\
                (matches cAdot wA \/
                 forall wD rest, matches (Alt D1 D2) wD -> wA ++ sb = wD ++ rest -> POK rest -> False)).
    { intros X wX s2 c2 Esa MX HkP Hin Hprio.
      destruct (kP_sound _ _ _ _ _ _ HkP) as (wP & sb & cx & s3 & c3 & Es2 & MP & MR & Hcap).
      assert (MA : matches cA (wX ++ wP)).
      { unfold cA. constructor; auto. constructor. apply Hin; auto. }
      exists wL, (wX ++ wP), sb, cx, s3, c3. subst s2 sa.
      rewrite app_length. fold pa. rewrite <- app_assoc.
      rewrite (Nat.add_assoc pa (length wX) (length wP)).
      split; [exact Es0|]. split; [exact HwL|].
      split. { intros Hnil. rewrite Hnil in MA. apply nullable_correct in MA.
               pose proof HnullA as Hn. rewrite MA in Hn. discriminate Hn. }
      split; [exact MA|]. split; [exact Hcap|]. split; [exact MR|]. split; [exact HprioL|].
      destruct Hprio as [Hd|Hn].
      - left. unfold cAdot. constructor; auto.
      - right. intros wD rest HD E Hok. apply (Hn wD rest HD); auto. }
    apply bt_alt_inv in HA. destruct HA as [HV|[_ HA]].
    { (* dotted quad *)
      apply bt_sound in HV. destruct HV as (s2 & p2 & c2 & M & Hk).
      destruct (ms_matches _ _ _ _ _ _ _ M HafV) as (wX & E & Ep & MX). subst p2.
      unfold kG in Hk. eapply (Hfin V wX); eauto.
      - intros w Hw. apply MAltL; auto.
      - left. apply MAltL; auto. }
    apply bt_alt_inv in HA. destruct HA as [HB|[_ HA]].
    { apply bt_sound in HB. destruct HB as (s2 & p2 & c2 & M & Hk).
      destruct (ms_matches _ _ _ _ _ _ _ M HafB) as (wX & E & Ep & MX). subst p2.
      unfold kG in Hk. eapply (Hfin B wX); eauto.
      - intros w Hw. apply MAltR, MAltL; auto.
      - left. apply MAltR, MAltL; auto. }
    rewrite bt_grp in HA.
    change (bt (Alt D1 (Alt D2 Nn)) sa pa ca (kS pa) = Some (en, cs)) in HA.
    apply bt_alt_inv in HA. destruct HA as [HD1|[HnoD1 HA]].
    { apply bt_sound in HD1. destruct HD1 as (s2 & p2 & c2 & M & Hk).
      destruct (ms_matches _ _ _ _ _ _ _ M HafD1) as (wX & E & Ep & MX). subst p2.
      unfold kS, kG in Hk. eapply (Hfin D1 wX); eauto.
      - intros w Hw. apply MAltR, MAltR. constructor. apply MAltL; auto.
      - left. apply MAltR, MAltR, MAltL; auto. }
    apply bt_alt_inv in HA. destruct HA as [HD2|[HnoD2 HA]].
    { apply bt_sound in HD2. destruct HD2 as (s2 & p2 & c2 & M & Hk).
      destruct (ms_matches _ _ _ _ _ _ _ M HafD2) as (wX & E & Ep & MX). subst p2.
      unfold kS, kG in Hk. eapply (Hfin D2 wX); eauto.
      - intros w Hw. apply MAltR, MAltR. constructor. apply MAltR, MAltL; auto.
      - left. apply MAltR, MAltR, MAltR; auto. }
    (* the alternatives without a dotted tail: D1 and D2 have failed with this continuation *)
    apply bt_sound in HA. destruct HA as (s2 & p2 & c2 & M & Hk).
    destruct (ms_matches _ _ _ _ _ _ _ M HafN) as (wX & E & Ep & MX). subst p2.
    unfold kS, kG in Hk. eapply (Hfin Nn wX); eauto.
    - intros w Hw. apply MAltR, MAltR. constructor. apply MAltR, MAltR; auto.
    - right. intros wD rest HD Esa Hok.
      assert (Hfail : forall D, star_free D = true -> matches D wD -> bt D sa pa ca (kS pa) = None -> False).
      { intros D HsfD HmD Hnone.
        destruct (matches_ms D wD HmD rest pa ca) as [c1 M1]. rewrite <- Esa in M1.
        revert Hnone. eapply bt_complete; eauto.
        unfold kS, kG. apply kP_complete; auto. }
      apply matches_alt_inv in HD. destruct HD as [HD|HD]; eauto.
  Qed.

  (* the right delimiter on a non-empty rest: one delimiter byte, or ':' and whitespace *)
  Lemma r_head : forall sb pb cx s3 en c3,
    ms R sb pb cx s3 en c3 -> sb <> [] ->
    exists x, sb = x ++ s3 /\ matches right_spec x.
  Proof.
    intros sb pb cx s3 en c3 M Hne.
    apply ms_strip_eol in M; auto.
    destruct (ms_matches _ _ _ _ _ _ _ M HafRs) as (x & E & _ & Mx).
    exists x; split; [exact E|]. exact (incl_sound _ _ HinclR _ Mx).
  Qed.

  Lemma no_ws_in_addr : forall w z, matches addr_spec w -> is_ws z = true -> ~ In z w.
  Proof.
    intros w z Hw Hz. apply is_ws_cases in Hz.
    rewrite forallb_forall in Hws. eapply matches_sym_free; eauto.
  Qed.

  (* ---- no match covers only a part of a delimited address (up to the colon exception) *)
  Lemma no_partial : forall X u v v' post wA sb cx s3 en c3 pb,
    (* the text is  X ++ u ++ (v ++ v') ++ post ; the address part of the match is wA = u ++ v *)
    matches addr_spec (v ++ v') -> v <> [] -> v' <> [] ->
    left_ok (X ++ u) -> right_ok post -> ~ dotted_run (X ++ u) (v ++ v') ->
    wA = u ++ v -> sb = v' ++ post -> matches cA wA ->
    ms R sb pb cx s3 en c3 ->
    (matches cAdot wA \/
       forall wD rest, matches (Alt D1 D2) wD -> wA ++ sb = wD ++ rest -> POK rest -> False) ->
    v' = [58%N] /\ exists z post', post = z :: post' /\ is_ws z = true.
  Proof.
    intros X u v v' post wA sb cx s3 en c3 pb Hw Hv Hv' Hl Hr Hnd EwA Esb MA MR Hprio.
    assert (Hsbne : sb <> []) by (subst sb; destruct v'; [contradiction|discriminate]).
    destruct (r_head _ _ _ _ _ _ MR Hsbne) as (x & Ex & Mx).
    destruct (right_spec_inv _ Mx) as [(d & Exd & Hd)|(z & Exz & Hz)]; subst x.
    - (* a delimiter byte inside the address: impossible *)
      exfalso. destruct v' as [|d' v2]; [contradiction|].
      subst sb. simpl in Ex. inversion Ex; subst d'. clear Ex.
      destruct u as [|e0 u0] using rev_ind.
      + (* the match starts where the address starts *)
        simpl in EwA. subst wA.
        pose proof (incl_sound _ _ Hsplit1 _ Hw) as Hc. apply matches_alt_inv in Hc.
        destruct Hc as [Hc|Hc].
        * eapply (disj_sound _ _ K2); [exact Hc|]. apply after_intro; auto.
        * destruct Hprio as [Hdot|Hno].
          -- eapply (disj_sound _ _ K4); [exact Hc|]. apply after_intro; auto.
          -- apply (Hno (v ++ d :: v2) post).
             ++ exact (incl_sound _ _ K3 _ Hc).
             ++ rewrite <- app_assoc. reflexivity.
             ++ apply right_ok_POK; auto.
      + (* the match starts before the address and runs across the delimiter e0 *)
        clear IHu0.
        assert (He0 : is_delim e0 = true).
        { destruct Hl as [Hn|(pre' & d0 & Ep & Hd0)].
          - destruct X; destruct u0; discriminate.
          - rewrite app_assoc in Ep. apply app_inj_tail in Ep. destruct Ep as [_ Ee]. subst; auto. }
        assert (MA' : matches cA (u0 ++ e0 :: v)).
        { subst wA. rewrite <- app_assoc in MA. exact MA. }
        destruct (N.eq_dec e0 46%N) as [Edot|Edot].
        * subst e0.
          pose proof (incl_sound _ _ Hsplit2 _ Hw) as Hc. apply matches_alt_inv in Hc.
          destruct Hc as [Hc|Hc].
          -- (* dotted quad after "." *)
             destruct u0 as [|e1 u1] using rev_ind.
             ++ simpl in MA'. apply deriv_correct in MA'.
                eapply (disj_sound _ _ K7a); [exact Hc|]. apply after_intro; auto.
             ++ clear IHu1. destruct (is_digit e1) eqn:Edig.
                ** apply Hnd. split; auto. exists (X ++ u1), e1. split; auto.
                   rewrite <- !app_assoc. reflexivity.
                ** rewrite <- app_assoc in MA'. simpl in MA'.
                   assert (Hb1 : (e1 <= 255)%N).
                   { eapply in_bounded_cls; [exact HbyteA|]. eapply matches_in_ranges; [exact MA'|].
                     apply in_or_app; right; left; auto. }
                   pose proof (tail_after_sound nondigit_cls _ _ MA' u1 e1 (46%N :: v) eq_refl
                                 (nondigit_cls_ok _ Edig Hb1)) as Ht.
                   apply deriv_correct in Ht.
                   eapply (disj_sound _ _ K7b); [exact Hc|]. apply after_intro; auto.
          -- pose proof (tail_after_sound dot_cls _ _ MA' u0 46%N v eq_refl dot_cls_ok) as Ht.
             apply nonnull_sound in Ht; auto.
             eapply (disj_sound _ _ K6); [exact Hc|]. apply after_intro; auto.
        * pose proof (tail_after_sound delim_nodot_cls _ _ MA' u0 e0 v eq_refl (delim_nodot _ He0 Edot)) as Ht.
          apply nonnull_sound in Ht; auto.
          eapply (disj_sound _ _ K5); [exact Hw|]. apply after_intro; auto.
    - (* ':' and whitespace: the whitespace is not inside the address, so ':' is its last byte *)
      destruct v' as [|c1 v2]; [contradiction|]. subst sb. simpl in Ex. inversion Ex; subst c1.
      destruct v2 as [|c2 v3].
      + simpl in H1. split; auto. destruct post as [|z' post']; [discriminate|].
        inversion H1; subst. eauto.
      + exfalso. simpl in H1. inversion H1; subst c2.
        apply (no_ws_in_addr _ z Hw Hz). apply in_or_app; right; right; left; auto.
  Qed.

  (* ---- the scrub loop *)
  Lemma dotted_run_skipn : forall n pre w, dotted_run (skipn n pre) w -> dotted_run pre w.
  Proof.
    intros n pre w (Hv & pre' & d & E & Hd). split; auto.
    exists (firstn n pre ++ pre'), d. split; auto.
    rewrite <- app_assoc, <- E. symmetry; apply firstn_skipn.
  Qed.

  Lemma loop_covers : forall fuel pre w post off,
    length (pre ++ w ++ post) < fuel ->
    matches addr_spec w -> left_ok pre -> right_ok post -> ~ dotted_run pre w ->
    exists a b, In (a, b) (spans fuel cfull (pre ++ w ++ post) off) /\
                a <= off + length pre /\
                (off + length pre + length w <= b \/
                 (b + 1 = off + length pre + length w /\ colon_ws w post)).
  Proof.
    induction fuel as [|f IH]; intros pre w post off Hfuel Hw Hl Hr Hnd; [lia|].
    pose proof (HinclA _ Hw) as HwA. pose proof (Hminlen _ Hw) as Hlen.
    set (s := pre ++ w ++ post) in *.
    assert (Hex : exists k0, k0 <= length pre /\ length pre <= k0 + 1 /\ k0 <= length s /\
                             (pre = [] -> k0 = 0) /\ (pre <> [] -> k0 + 1 = length pre) /\
                             match_here cfull (skipn k0 s) (0 + k0) <> None).
    { destruct Hl as [Hp|(pre' & d & Hp & Hd)].
      - exists 0. subst pre. unfold s; simpl. repeat split; try lia; auto; try congruence.
        apply (match_here_bol cL cA R HsfL HsfA HsfR HbolL HeolR HdelimR w post); auto.
      - exists (length pre'). subst pre. unfold s. rewrite !app_length; simpl.
        repeat split; try lia.
        + intros E. destruct pre'; discriminate.
        + rewrite <- !app_assoc. rewrite skipn_app, skipn_all, Nat.sub_diag; simpl.
          apply (match_here_delim cL cA R HsfL HsfA HsfR HeolR HdelimL HdelimR); auto. }
    destruct Hex as (k0 & Hk1 & Hk2 & Hk3 & Hk0nil & Hk0ne & Hm).
    destruct (search_complete cfull k0 s 0 Hk3 Hm) as (k' & en & cs & Hs & Hk' & Hm').
    simpl in Hs, Hm'.
    destruct (cover_shape _ _ _ _ Hm') as (wL & wA & sb & cx & s3 & c3 & Es0 & HwL & HwAne & MA & Hcap & MR & HprioL & HprioA).
    assert (HwAlen : 1 <= length wA) by (destruct wA; [contradiction|simpl; lia]).
    set (gs := k' + length wL) in *. set (ge := gs + length wA) in *.
    (* the whole slice, cut at the match *)
    assert (Es : s = (firstn k' s ++ wL) ++ wA ++ sb).
    { rewrite <- app_assoc, <- Es0. symmetry; apply firstn_skipn. }
    assert (HX : length (firstn k' s ++ wL) = gs).
    { rewrite app_length, firstn_length_le; [reflexivity|lia]. }
    (* the address part of the match does not start after the occurrence *)
    assert (Hgs : gs <= length pre).
    { destruct pre as [|p0 pre0] eqn:Epre.
      - assert (k0 = 0) by auto. assert (k' = 0) by lia. subst k'.
        assert (wL = []); [|subst wL; unfold gs; simpl; lia].
        apply HprioL; auto. unfold s. simpl.
        apply bt_A_complete; auto. apply right_ok_POK; auto.
      - assert (k0 + 1 = length (p0 :: pre0)) by (apply Hk0ne; discriminate). unfold gs. lia. }
    simpl. rewrite Hs, Hcap. fold gs ge. destruct ge as [|ge'] eqn:Ege; [unfold ge in Ege; lia|].
    rewrite <- Ege in *.
    destruct (Nat.le_gt_cases ge (length pre)) as [Hbefore|Hover].
    - (* the replaced span ends before the occurrence: go on in the rest of the slice *)
      assert (Hskip : skipn ge s = skipn ge pre ++ w ++ post).
      { unfold s. rewrite skipn_app. replace (ge - length pre) with 0 by lia. reflexivity. }
      rewrite Hskip.
      destruct (IH (skipn ge pre) w post (off + ge)) as (a & b & Hin & Ha & Hb); auto.
      + unfold s in Hfuel. rewrite !app_length in *. rewrite skipn_length. lia.
      + destruct Hl as [Hp|(pre' & d & Hp & Hd)].
        * subst pre; simpl in Hbefore; lia.
        * subst pre. rewrite app_length in Hbefore; simpl in Hbefore.
          destruct (Nat.eq_dec ge (length pre' + 1)) as [E|E].
          -- left. rewrite skipn_all2; auto. rewrite app_length; simpl; lia.
          -- right. exists (skipn ge pre'), d. split; auto.
             rewrite skipn_app. replace (ge - length pre') with 0 by lia. reflexivity.
      + intros Hd. apply Hnd. eapply dotted_run_skipn; eauto.
      + exists a, b. split; [right; exact Hin|]. rewrite skipn_length in *.
        split; [lia|]. destruct Hb as [Hb|[Hb Hc]]; [left; lia|right; split; [lia|exact Hc]].
    - (* the replaced span reaches into the occurrence: it contains all of it *)
      exists (off + gs), (off + ge). split; [left; reflexivity|]. split; [lia|].
      destruct (Nat.le_gt_cases (length pre + length w) ge) as [Hall|Hpart]; [left; lia|].
      right.
      (* pre = X ++ u, wA = u ++ v, w = v ++ v', sb = v' ++ post *)
      assert (E1 : (firstn k' s ++ wL) ++ wA ++ sb = pre ++ w ++ post) by (rewrite <- Es; reflexivity).
      destruct (app_eq_len_le _ _ _ _ E1) as (u & Epre & E2); [lia|].
      symmetry in E2.
      assert (Hu : length u + gs = length pre) by (rewrite Epre, app_length; lia).
      destruct (app_eq_len_le _ _ _ _ E2) as (v & EwA & E3); [unfold ge in Hover; lia|].
      assert (Hv : length wA = length u + length v) by (rewrite EwA, app_length; lia).
      symmetry in E3.
      destruct (app_eq_len_le _ _ _ _ E3) as (v' & Ew & E4); [unfold ge in Hpart; lia|].
      assert (Hvne : v <> []) by (intros E; subst v; simpl in Hv; unfold ge in Hover; lia).
      assert (Hv'ne : v' <> []).
      { intros E; subst v'. rewrite app_nil_r in Ew. subst w. unfold ge in Hpart. lia. }
      rewrite Epre in Hl, Hnd. rewrite Ew in Hw, Hnd.
      destruct (no_partial (firstn k' s ++ wL) u v v' post wA sb cx s3 en c3 _ Hw Hvne Hv'ne Hl Hr Hnd EwA E4 MA MR HprioA)
        as (Ev' & z & post' & Epost & Hz).
      subst v'. split.
      + rewrite Ew, app_length. simpl. unfold ge. lia.
      + split; [exists v; exact Ew|exists z, post'; auto].
  Qed.

  Theorem scrub1_covers : forall pre w post,
    matches addr_spec w -> left_ok pre -> right_ok post -> ~ dotted_run pre w ->
    exists a b, In (a, b) (spans (S (length (pre ++ w ++ post))) cfull (pre ++ w ++ post) 0) /\
                a <= length pre /\
                (length pre + length w <= b \/ (b + 1 = length pre + length w /\ colon_ws w post)).
  Proof.
    intros pre w post Hw Hl Hr Hnd.
    destruct (loop_covers (S (length (pre ++ w ++ post))) pre w post 0) as (a & b & Hin & Ha & Hb); auto.
    exists a, b; auto.
  Qed.
End Cover.

(* ---------------------------------------------------------------- the output around a replaced span *)

Lemma wf_spans_app_lb : forall sp1 off n a b sp2,
  wf_spans off n (sp1 ++ (a, b) :: sp2) -> off <= a /\ a < b.
Proof.
  induction sp1 as [|[a1 b1] sp1 IH]; intros off n a b sp2 H; simpl in H; inversion H; subst; auto.
  match goal with Hw : wf_spans b1 n _ |- _ => apply IH in Hw; lia end.
Qed.

Lemma skipn_skipn' : forall (l : bytes) a b, skipn a (skipn b l) = skipn (b + a) l.
Proof.
  intros l a b; revert l. induction b as [|b IH]; intros l; simpl; auto.
  destruct l; simpl; auto. destruct a; reflexivity.
Qed.

(* the text before the span and the text after it are rendered independently *)
Lemma render_split : forall sp1 s off a b sp2,
  wf_spans off (off + length s) (sp1 ++ (a, b) :: sp2) ->
  render s off (sp1 ++ (a, b) :: sp2) =
    render (firstn (a - off) s) off sp1 ++ scrubbed ++ render (skipn (b - off) s) b sp2.
Proof.
  induction sp1 as [|[a1 b1] sp1 IH]; intros s off a b sp2 H; simpl.
  - reflexivity.
  - inversion H; subst.
    match goal with Hw : wf_spans b1 _ _ |- _ => rename Hw into Hrest end.
    destruct (wf_spans_app_lb _ _ _ _ _ _ Hrest) as [Hb1a Hab].
    rewrite (IH (skipn (b1 - off) s) b1 a b sp2).
    + rewrite firstn_firstn. replace (Nat.min (a1 - off) (a - off)) with (a1 - off) by lia.
      rewrite skipn_firstn_comm. replace (a - off - (b1 - off)) with (a - b1) by lia.
      rewrite skipn_skipn'. replace (b1 - off + (b - b1)) with (b - off) by lia.
      rewrite <- !app_assoc. reflexivity.
    + rewrite skipn_length. replace (b1 + (length s - (b1 - off))) with (off + length s) by lia. exact Hrest.
Qed.
