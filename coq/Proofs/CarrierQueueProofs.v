(* CarrierQueueProofs.v — Model/CarrierTimed.v, part 2: the outgoing side with retention.

   (1) C17's client-map operations seen from an address (ClientID key): SendQueue keeps the queue and its identity when
       the record exists and makes a queue with a NEVER-USED identity otherwise; a receive on a queue identity touches
       only the record that owns it; the sweeper keeps exactly the records seen within the timeout.
   (2) ownership: every queue identity is tied to ONE key for ever — the key WriteTo put packets into it for, the key
       of every carrier whose write loop ever held it, the key of every carrier a packet taken from it was written
       to: downstream packets of a session reach only carriers that presented the same ClientID, with or without
       expiries in between.
   (3) a session whose record is never idle for the timeout at a sweep (every gap shorter than the retention) has ONE
       queue for its whole life, no packet accepted for it is lost, and across all its carriers — sequential,
       overlapping, after idle gaps — the packets taken are exactly a prefix, in order, of the packets accepted;
       no carrier of it is ever closed by an expiry.
   (4) beyond the retention: a sweep that finds the record idle for the timeout removes it and closes the queue; what
       was queued is lost (unless a write loop still holding the closed queue drains it); the next touch makes a new
       queue whose identity was never used before. *)
From Coq Require Import List NArith ZArith Bool Arith Lia Permutation.
From Snow Require Import Lib.Wire Model.Encap Proofs.EncapSweep Proofs.EncapProofs Model.CarrierLayer
  Proofs.CarrierProofs Proofs.CarrierOnceProofs Proofs.CarrierFragProofs
  Model.GoHeap Model.ClientMap Model.QueueConn Proofs.GoHeapProofs Proofs.ClientMapProofs Proofs.QueueOutProofs
  Model.CarrierTimed.
Import ListNotations.

(* ================================================================ (1) the client map, by address *)

Lemma crec_eta r : r = mkrec (c_addr r) (c_seen r) (c_qid r) (c_q r).
Proof. destruct r; reflexivity. Qed.

Lemma rec_of_none_amap c a : cm_inv c -> amap_get a (byAddr c) = None -> rec_of c a = None.
Proof.
  intros (_ & Hidx & _) G. destruct (rec_of c a) as [r|] eqn:E; [|reflexivity]. exfalso.
  apply rec_of_some in E. destruct E as [Hin Ha]. apply In_nth_error in Hin. destruct Hin as [k Hk].
  assert (amap_get a (byAddr c) = Some k) by (apply Hidx; unfold addr_at; rewrite Hk; cbn; congruence).
  congruence.
Qed.

Lemma send_queue_rec a now c : cm_inv c ->
  cm_inv (fst (send_queue a now c)) /\ dead (fst (send_queue a now c)) = dead c /\
  (forall b, b <> a -> rec_of (fst (send_queue a now c)) b = rec_of c b) /\
  match rec_of c a with
  | Some r => snd (send_queue a now c) = c_qid r /\ rec_of (fst (send_queue a now c)) a = Some (set_seen r now) /\
              next_qid (fst (send_queue a now c)) = next_qid c
  | None => snd (send_queue a now c) = next_qid c /\
            rec_of (fst (send_queue a now c)) a = Some (mkrec a now (next_qid c) []) /\
            next_qid (fst (send_queue a now c)) = S (next_qid c)
  end.
Proof.
  intros Hinv. pose proof (send_queue_out_aux a now c Hinv) as (I1 & (r' & Hr' & Hq' & Hs' & Hc') & Hoth & Hdead).
  split; [exact I1|]. split; [exact Hdead|]. split; [exact Hoth|].
  pose proof (rec_of_some _ _ _ Hr') as [_ Ha'].
  pose proof (cm_inv_R c Hinv) as HR. pose proof Hinv as (Hh & Hidx & Hks & Hlen & Hnd & Hb).
  unfold send_queue in *. destruct (amap_get a (byAddr c)) as [i|] eqn:G.
  - assert (Ha: addr_at (byAge c) i = Some a) by (apply Hidx; auto).
    unfold addr_at in Ha. destruct (nth_error (byAge c) i) as [r|] eqn:Hr; [|discriminate].
    cbn in Ha. injection Ha as Ha. cbn [fst snd] in *.
    assert (Hrec : rec_of c a = Some r) by (rewrite <- Ha; apply rec_of_in; [exact Hinv | eapply nth_error_In; eauto]).
    rewrite Hrec. split; [reflexivity|]. split.
    + rewrite Hr'. f_equal. rewrite (crec_eta r'). unfold set_seen. rewrite Ha', Hs', Hq', Hc'.
      unfold out_q. rewrite Hrec, Ha. reflexivity.
    + set (l1 := set_nth i (set_seen r now) (byAge c)).
      assert (Hi: (i < length (byAge c))%nat) by (eapply nth_error_lt; eauto).
      assert (HR1: cmR (next_qid c) (dead c) (set_byAge c l1) l1).
      { destruct HR as (_ & H2 & H3 & H4 & H5 & H6). unfold cmR, set_byAge; cbn.
        split; auto. split; [| split; [auto | split; [| auto]]].
        - intros b k. unfold l1. rewrite (addr_at_set_nth_same (byAge c) i (set_seen r now) r k Hr eq_refl). apply H2.
        - unfold l1. rewrite cm_set_nth_length. auto. }
      assert (Hi1: (i < length l1)%nat) by (unfold l1; rewrite cm_set_nth_length; auto).
      destruct (cm_fix_sim _ _ _ _ i HR1 Hi1) as (_ & _ & _ & _ & E5 & _). exact E5.
  - cbn [fst snd] in *. rewrite (rec_of_none_amap c a Hinv G). split; [reflexivity|]. split.
    + rewrite Hr'. f_equal. rewrite (crec_eta r'). rewrite Ha', Hs', Hq', Hc'.
      unfold out_q. rewrite (rec_of_none_amap c a Hinv G). reflexivity.
    + set (s1 := mkcm (byAge c) (byAddr c) (S (next_qid c)) (dead c)).
      assert (HR1: cmR (S (next_qid c)) (dead c) s1 (byAge c)).
      { destruct HR as (_ & H2 & H3 & H4 & H5 & H6). unfold cmR, s1; cbn. auto 10. }
      destruct (cm_push_sim _ _ _ _ (mkrec a now (next_qid c) []) HR1 G) as (_ & _ & _ & _ & E5 & _). exact E5.
Qed.

Lemma qid_lt c a r : cm_inv c -> rec_of c a = Some r -> (c_qid r < next_qid c)%nat.
Proof. intros (_ & _ & _ & _ & _ & Hb) H. apply Hb. apply (rec_of_some _ _ _ H). Qed.

Lemma qid_unique c a b ra rb : cm_inv c -> rec_of c a = Some ra -> rec_of c b = Some rb -> c_qid ra = c_qid rb -> a = b.
Proof.
  intros Hinv Ha Hb E. pose proof Hinv as (_ & _ & _ & _ & Hnd & _).
  destruct (rec_of_some _ _ _ Ha) as [Ia Aa]. destruct (rec_of_some _ _ _ Hb) as [Ib Ab].
  assert (ra = rb); [|subst; congruence].
  clear - Hnd Ia Ib E. induction (byAge c) as [|x l IH]; [destruct Ia|]. cbn in Hnd. inversion Hnd as [|? ? Hn Hnd']; subst.
  destruct Ia as [<-|Ia], Ib as [<-|Ib]; auto.
  - exfalso. apply Hn. rewrite E. apply in_map. exact Ib.
  - exfalso. apply Hn. rewrite <- E. apply in_map. exact Ia.
Qed.

Lemma q_send_rec cap p c a r : cm_inv c -> rec_of c a = Some r ->
  let ok := (length (c_q r) <? cap)%nat in
  cm_inv (fst (q_send cap (c_qid r) p c)) /\ snd (q_send cap (c_qid r) p c) = ok /\
  dead (fst (q_send cap (c_qid r) p c)) = dead c /\ next_qid (fst (q_send cap (c_qid r) p c)) = next_qid c /\
  rec_of (fst (q_send cap (c_qid r) p c)) a = Some (set_q r (if ok then c_q r ++ [p] else c_q r)) /\
  (forall b, b <> a -> rec_of (fst (q_send cap (c_qid r) p c)) b = rec_of c b).
Proof.
  intros Hinv Hrec. destruct (rec_of_locate c a r Hinv Hrec) as (i & Hi & Hf & Ha).
  cbn zeta. unfold q_send. rewrite Hf, Hi. destruct (length (c_q r) <? cap)%nat eqn:L; cbn [fst snd].
  - split; [apply cm_inv_set_q; auto|]. split; [reflexivity|]. split; [reflexivity|]. split; [reflexivity|]. split.
    + rewrite rec_of_set_q by auto. rewrite Ha, N.eqb_refl. reflexivity.
    + intros b Hb. rewrite rec_of_set_q by auto. rewrite Ha. destruct (N.eqb_spec a b); [congruence | reflexivity].
  - split; [exact Hinv|]. split; [reflexivity|]. split; [reflexivity|]. split; [reflexivity|]. split; [|auto].
    rewrite Hrec. f_equal. destruct r; reflexivity.
Qed.

Lemma q_recv_rec q c : cm_inv c ->
  cm_inv (fst (q_recv q c)) /\ next_qid (fst (q_recv q c)) = next_qid c /\
  (forall b, (forall r, rec_of c b = Some r -> c_qid r <> q) -> rec_of (fst (q_recv q c)) b = rec_of c b) /\
  (forall b r, rec_of c b = Some r -> c_qid r = q ->
     snd (q_recv q c) = (match c_q r with [] => RcvEmpty | p :: _ => RcvPkt p end) /\
     rec_of (fst (q_recv q c)) b = Some (set_q r (tl (c_q r))) /\ dead (fst (q_recv q c)) = dead c).
Proof.
  intros Hinv. split; [apply q_recv_inv; exact Hinv|].
  pose proof Hinv as (_ & _ & _ & _ & Hnd & _).
  unfold q_recv. destruct (find_qid q (byAge c)) as [i|] eqn:Hf.
  - destruct (find_qid_some _ _ _ Hf) as [r0 [Hi Hq0]]. rewrite Hi.
    assert (Hrec0 : rec_of c (c_addr r0) = Some r0) by (apply rec_of_in; [exact Hinv | eapply nth_error_In; eauto]).
    destruct (c_q r0) as [|p q'] eqn:Eq; cbn [fst snd].
    + split; [reflexivity|]. split; [reflexivity|]. intros b r Hr Hqr.
      assert (b = c_addr r0) by (eapply qid_unique; eauto; congruence). subst b.
      rewrite Hrec0 in Hr. injection Hr as <-. rewrite Eq. split; [reflexivity|]. split; [|reflexivity].
      rewrite Hrec0. f_equal. destruct r0; cbn in *; subst; reflexivity.
    + split; [reflexivity|]. split.
      * intros b Hb. rewrite rec_of_set_q by auto. destruct (N.eqb_spec (c_addr r0) b) as [<-|]; [|reflexivity].
        exfalso. apply (Hb r0 Hrec0 Hq0).
      * intros b r Hr Hqr.
        assert (b = c_addr r0) by (eapply qid_unique; eauto; congruence). subst b.
        rewrite Hrec0 in Hr. injection Hr as <-. rewrite Eq. split; [reflexivity|]. split; [|reflexivity].
        rewrite rec_of_set_q by auto. rewrite N.eqb_refl. reflexivity.
  - destruct (dead_take q (dead c)) as [d o]. cbn [fst snd]. split; [reflexivity|]. split; [reflexivity|].
    intros b r Hr Hqr. exfalso.
    destruct (rec_of_locate c b r Hinv Hr) as (i & _ & Hf' & _). rewrite Hqr in Hf'. congruence.
Qed.

(* a receive never invents a record and never changes an identity *)
Lemma q_recv_rec_back q c b r' : cm_inv c -> rec_of (fst (q_recv q c)) b = Some r' ->
  exists r, rec_of c b = Some r /\ c_qid r' = c_qid r /\ c_seen r' = c_seen r.
Proof.
  intros Hinv H. destruct (q_recv_rec q c Hinv) as (_ & _ & Hoth & Hsame).
  destruct (rec_of c b) as [r|] eqn:Er.
  - destruct (Nat.eq_dec (c_qid r) q) as [E|Ne].
    + destruct (Hsame b r Er E) as (_ & H2 & _). rewrite H2 in H. injection H as <-. exists r. repeat split.
    + rewrite Hoth in H by (intros r0 H0; congruence). rewrite Er in H. injection H as <-. exists r. repeat split.
  - rewrite Hoth in H by (intros r0 H0; congruence). congruence.
Qed.

Lemma sweep_rec now timeout c : cm_inv c ->
  let c' := remove_expired now timeout c in
  cm_inv c' /\ next_qid c' = next_qid c /\
  (forall b r, rec_of c b = Some r -> expired now timeout r = false -> rec_of c' b = Some r) /\
  (forall b r, rec_of c' b = Some r -> rec_of c b = Some r /\ expired now timeout r = false) /\
  (forall b r, rec_of c b = Some r -> expired now timeout r = true ->
     rec_of c' b = None /\ In (c_qid r, c_q r) (dead c')).
Proof.
  intros Hinv. cbn zeta.
  pose proof (remove_expired_aux_spec (length (byAge c)) now timeout c Hinv (Nat.le_refl _)) as (I1 & I2 & I3 & I4 & I5 & I6 & I7).
  fold (remove_expired now timeout c) in *. set (c' := remove_expired now timeout c) in *.
  split; [exact I1|]. split; [exact I2|]. split; [|split].
  - intros b r Hr Hex. destruct (rec_of_some _ _ _ Hr) as [Hin Ha]. destruct (I4 r Hin) as [Hk|[Hx _]]; [|congruence].
    rewrite <- Ha. apply rec_of_in; assumption.
  - intros b r Hr. destruct (rec_of_some _ _ _ Hr) as [Hin Ha]. split; [|apply I3; exact Hin].
    rewrite <- Ha. apply rec_of_in; [exact Hinv | apply I5; exact Hin].
  - intros b r Hr Hex. destruct (rec_of_some _ _ _ Hr) as [Hin Ha]. destruct (I4 r Hin) as [Hk|[_ Hd]].
    + apply I3 in Hk. congruence.
    + split; [|exact Hd]. destruct (rec_of c' b) as [r2|] eqn:E2; [|reflexivity]. exfalso.
      destruct (rec_of_some _ _ _ E2) as [Hin2 Ha2]. pose proof (I3 r2 Hin2) as Hne.
      assert (rec_of c b = Some r2) by (rewrite <- Ha2; apply rec_of_in; [exact Hinv | apply I5; exact Hin2]).
      congruence.
Qed.

(* ---- the live (identity, address) pairs of a client map *)
Definition live (c : cmap) (q : nat) (b : N) : Prop := exists r, rec_of c b = Some r /\ c_qid r = q.

Lemma live_unique c q b b' : cm_inv c -> live c q b -> live c q b' -> b = b'.
Proof. intros Hinv [r [Hr Hq]] [r' [Hr' Hq']]. eapply qid_unique; eauto. congruence. Qed.

Lemma live_lt c q b : cm_inv c -> live c q b -> (q < next_qid c)%nat.
Proof. intros Hinv [r [Hr <-]]. eapply qid_lt; eauto. Qed.

(* SendQueue(a): the pairs afterwards are the pairs before plus (returned identity, a); the returned identity is a's
   live one, or — when a has no record — the never-used next_qid *)
Lemma live_send_queue a now c : cm_inv c ->
  let c' := fst (send_queue a now c) in let qn := snd (send_queue a now c) in
  cm_inv c' /\ dead c' = dead c /\
  (forall q b, live c' q b <-> (live c q b \/ (q = qn /\ b = a))) /\
  ((live c qn a /\ next_qid c' = next_qid c) \/
   (qn = next_qid c /\ (forall q, ~ live c q a) /\ next_qid c' = S (next_qid c))) /\
  (exists r, rec_of c' a = Some r /\ c_qid r = qn /\ c_seen r = now /\ c_q r = out_q c a).
Proof.
  intros Hinv. cbn zeta. destruct (send_queue_rec a now c Hinv) as (I1 & Hd & Hoth & Hcase).
  split; [exact I1|]. split; [exact Hd|].
  destruct (rec_of c a) as [r|] eqn:Er.
  - destruct Hcase as (Hq & Hr' & Hn). split; [|split].
    + intros q b. split.
      * intros [r' [Hb Hq']]. destruct (N.eq_dec b a) as [->|Hne].
        -- rewrite Hr' in Hb. injection Hb as <-. cbn in Hq'. left. exists r. split; [exact Er | exact Hq'].
        -- left. exists r'. rewrite <- (Hoth b Hne). split; assumption.
      * intros [[r' [Hb Hq']]|[-> ->]].
        -- destruct (N.eq_dec b a) as [->|Hne].
           ++ rewrite Er in Hb. injection Hb as <-. exists (set_seen r now). split; [exact Hr' | exact Hq'].
           ++ exists r'. rewrite (Hoth b Hne). split; assumption.
        -- exists (set_seen r now). split; [exact Hr' | cbn; congruence].
    + left. split; [exists r; split; [exact Er | congruence] | exact Hn].
    + exists (set_seen r now). split; [exact Hr'|]. cbn. split; [congruence|]. split; [reflexivity|].
      unfold out_q. rewrite Er. reflexivity.
  - destruct Hcase as (Hq & Hr' & Hn). split; [|split].
    + intros q b. split.
      * intros [r' [Hb Hq']]. destruct (N.eq_dec b a) as [->|Hne].
        -- rewrite Hr' in Hb. injection Hb as <-. cbn in Hq'. right. split; congruence.
        -- left. exists r'. rewrite <- (Hoth b Hne). split; assumption.
      * intros [[r' [Hb Hq']]|[-> ->]].
        -- destruct (N.eq_dec b a) as [->|Hne]; [congruence|]. exists r'. rewrite (Hoth b Hne). split; assumption.
        -- eexists. split; [exact Hr' | cbn; congruence].
    + right. split; [exact Hq|]. split; [|exact Hn]. intros q [r' [Hb _]]. congruence.
    + eexists. split; [exact Hr'|]. cbn. split; [congruence|]. split; [reflexivity|].
      unfold out_q. rewrite Er. reflexivity.
Qed.

Lemma live_q_send cap q p c : cm_inv c ->
  cm_inv (fst (q_send cap q p c)) /\ next_qid (fst (q_send cap q p c)) = next_qid c /\
  dead (fst (q_send cap q p c)) = dead c /\
  (forall q' b, live (fst (q_send cap q p c)) q' b <-> live c q' b).
Proof.
  intros Hinv. split; [apply q_send_inv; exact Hinv|]. unfold q_send.
  destruct (find_qid q (byAge c)) as [i|] eqn:Hf; [|repeat split; tauto].
  destruct (nth_error (byAge c) i) as [r|] eqn:Hi; [|repeat split; tauto].
  destruct (length (c_q r) <? cap)%nat; [|repeat split; tauto]. cbn [fst].
  split; [reflexivity|]. split; [reflexivity|]. intros q' b. unfold live. rewrite rec_of_set_q by auto.
  destruct (N.eqb_spec (c_addr r) b) as [<-|Hne]; [|tauto].
  assert (Hrec : rec_of c (c_addr r) = Some r) by (apply rec_of_in; [exact Hinv | eapply nth_error_In; eauto]).
  split.
  - intros [r' [H1 H2]]. injection H1 as <-. exists r. split; [exact Hrec | exact H2].
  - intros [r' [H1 H2]]. rewrite Hrec in H1. injection H1 as <-. eexists. split; [reflexivity | exact H2].
Qed.

Lemma live_q_recv q c : cm_inv c ->
  cm_inv (fst (q_recv q c)) /\ next_qid (fst (q_recv q c)) = next_qid c /\
  (forall q' b, live (fst (q_recv q c)) q' b <-> live c q' b).
Proof.
  intros Hinv. destruct (q_recv_rec q c Hinv) as (I1 & Hn & Hoth & Hsame).
  split; [exact I1|]. split; [exact Hn|]. intros q' b. split.
  - intros [r' [H1 H2]]. destruct (q_recv_rec_back q c b r' Hinv H1) as [r [Hr [Hq _]]]. exists r. split; [exact Hr | congruence].
  - intros [r [Hr Hq']]. destruct (Nat.eq_dec (c_qid r) q) as [E|Ne].
    + destruct (Hsame b r Hr E) as (_ & H2 & _). eexists. split; [exact H2 | exact Hq'].
    + exists r. rewrite Hoth by (intros r0 H0; congruence). split; assumption.
Qed.

(* ================================================================ (2) ownership of queue identities *)

Definition key_of (k : carrier) : N := cid_key (k_cid k).

Definition tied (t : tstate) (q : nat) (b : N) : Prop :=
  (exists p, In (b, q, p) (tacc t)) \/
  (exists o p, In (o, b, q, p) (tcons t)) \/
  (exists i k, nth_error (tcar t) i = Some k /\ nth_error (theld t) i = Some (Some q) /\ key_of k = b) \/
  live (tcm t) q b.

Record GInv (t : tstate) : Prop := {
  g_cm : cm_inv (tcm t);
  g_len : length (theld t) = length (tcar t);
  g_lt : forall q b, tied t q b -> (q < next_qid (tcm t))%nat;
  g_own : forall q b b', tied t q b -> tied t q b' -> b = b';
  g_pre : forall i k q, nth_error (tcar t) i = Some k -> pre_open k -> nth_error (theld t) i <> Some (Some q)
}.

Lemma ginv_init : GInv tinit.
Proof.
  constructor; cbn.
  - apply cm_inv_empty.
  - reflexivity.
  - intros q b [[p []]|[[o [p []]]|[[i [k [H _]]]|[r [H _]]]]]; [destruct i|]; discriminate.
  - intros q b b' [[p []]|[[o [p []]]|[[i [k [H _]]]|[r [H _]]]]]; [destruct i|]; discriminate.
  - intros [|i] k q H; discriminate.
Qed.

(* one step: no tie is lost to another key, at most one new tie (qn, kn) appears, and it is either an existing tie or
   uses the never-used identity *)
(* what one step does to the ties: none appears except with the never-used identity, live afterwards *)
Definition step_sum (t t' : tstate) : Prop :=
  forall q b, tied t' q b -> tied t q b \/ (q = next_qid (tcm t) /\ live (tcm t') q b).

Lemma ginv_extend t t' qn kn :
  GInv t -> cm_inv (tcm t') -> length (theld t') = length (tcar t') ->
  (forall q b, tied t' q b -> tied t q b \/ (q = qn /\ b = kn)) ->
  ((tied t qn kn /\ next_qid (tcm t') = next_qid (tcm t)) \/
   (qn = next_qid (tcm t) /\ next_qid (tcm t') = S (next_qid (tcm t)))) ->
  (forall i k q, nth_error (tcar t') i = Some k -> pre_open k -> nth_error (theld t') i <> Some (Some q)) ->
  live (tcm t') qn kn ->
  GInv t' /\ step_sum t t'.
Proof.
  intros [Gc Gl Glt Gown Gpre] Hc Hl Hsub Hnew Hpre Hlive. split.
  - constructor; try assumption.
    + intros q b H. destruct (Hsub q b H) as [H0|[-> ->]].
      * specialize (Glt q b H0). destruct Hnew as [[_ ->]|[_ ->]]; lia.
      * destruct Hnew as [[H0 ->]|[-> ->]]; [apply (Glt _ _ H0) | lia].
    + intros q b b' H H'. pose proof (Hsub q b H) as A. pose proof (Hsub q b' H') as B.
      destruct A as [H0|[E1 E2]], B as [H0'|[E1' E2']].
      * apply (Gown q b b' H0 H0').
      * subst q b'. destruct Hnew as [[Hn _]|[-> _]]; [apply (Gown qn b kn H0 Hn)|]. specialize (Glt _ _ H0). lia.
      * subst q b. destruct Hnew as [[Hn _]|[-> _]]; [apply (Gown qn kn b' Hn H0')|]. specialize (Glt _ _ H0'). lia.
      * congruence.
  - intros q b H. destruct (Hsub q b H) as [H0|[-> ->]]; [left; exact H0|].
    destruct Hnew as [[Hn _]|[E _]]; [left; exact Hn | right; split; [exact E | exact Hlive]].
Qed.

Lemma ginv_subset t t' :
  GInv t -> cm_inv (tcm t') -> length (theld t') = length (tcar t') ->
  (forall q b, tied t' q b -> tied t q b) -> next_qid (tcm t') = next_qid (tcm t) ->
  (forall i k q, nth_error (tcar t') i = Some k -> pre_open k -> nth_error (theld t') i <> Some (Some q)) ->
  GInv t' /\ step_sum t t'.
Proof.
  intros [Gc Gl Glt Gown Gpre] Hc Hl Hsub Hn Hpre. split.
  - constructor; try assumption.
    + intros q b H. rewrite Hn. apply (Glt q b (Hsub q b H)).
    + intros q b b' H H'. apply (Gown q b b' (Hsub _ _ H) (Hsub _ _ H')).
  - intros q b H. left. apply Hsub. exact H.
Qed.

Lemma both_same t : GInv t -> GInv t /\ step_sum t t.
Proof. intros G. split; [exact G | intros q b H; left; exact H]. Qed.

Lemma set_nth_get {A} (l : list A) i j x y : nth_error (set_nth i x l) j = Some y ->
  (j = i /\ y = x) \/ (j <> i /\ nth_error l j = Some y) \/ (j = i /\ nth_error l j = None).
Proof.
  intros H. destruct (Nat.eq_dec j i) as [->|Hne].
  - destruct (Nat.lt_ge_cases i (length l)) as [Hlt|Hge].
    + rewrite set_nth_eq in H by exact Hlt. injection H as <-. left. split; reflexivity.
    + exfalso. assert (Hl : (length (set_nth i x l) <= i)%nat) by (rewrite cm_set_nth_length; exact Hge).
      apply nth_error_None in Hl. congruence.
  - right. left. split; [exact Hne|]. rewrite set_nth_neq in H by exact Hne. exact H.
Qed.

Lemma key_kill k : key_of (kill k) = key_of k.
Proof. reflexivity. Qed.

Lemma pre_open_dec k : {pre_open k} + {~ pre_open k}.
Proof. unfold pre_open. destruct (k_state k); [left; left | left; right | right | right]; try reflexivity; intros [H|H]; discriminate. Qed.

Section Steps.
  Variable timeout : Z.

  (* the receive step, projected *)
  Lemma trecv_view t i b now k : nth_error (tcar t) i = Some k -> k_state k <> K_Dead ->
    let kp := pump (S (S (S (length (k_buf k) + length b)))) (with_buf (k_buf k ++ b) k) in
    let started := (pre_openb k && entered (fst kp))%bool in
    let sq := send_queue (key_of (fst kp)) now (tcm t) in
    let t' := tstep timeout t (T_Recv i b now) in
    tcar t' = kupd i (fun _ => fst kp) (tcar t) /\
    theld t' = (if started then set_nth i (Some (snd sq)) (theld t) else theld t) /\
    tcm t' = (if started then fst sq else tcm t) /\ tacc t' = tacc t /\ tcons t' = tcons t.
  Proof.
    intros Hk Hal. cbn zeta. cbn [tstep]. rewrite Hk. unfold key_of.
    destruct (pump (S (S (S (length (k_buf k) + length b)))) (with_buf (k_buf k ++ b) k)) as [k' ps]. cbn [fst snd].
    destruct (k_state k); try congruence;
      (destruct (pre_openb k && entered k')%bool;
       [destruct (send_queue (cid_key (k_cid k')) now (tcm t)) as [cm' q] | ]; cbn; repeat split).
  Qed.

  Lemma pre_openb_iff k : pre_openb k = true <-> pre_open k.
  Proof.
    unfold pre_openb, pre_open. destruct (k_state k); split; intros H; try reflexivity; try discriminate;
      try (left; reflexivity); try (right; reflexivity); destruct H; discriminate.
  Qed.

  Lemma entered_not_pre k : entered k = true -> ~ pre_open k.
  Proof. unfold entered, pre_open. destruct (k_state k); intros H [E|E]; discriminate. Qed.

  Theorem tstep_both t o : GInv t -> GInv (tstep timeout t o) /\ step_sum t (tstep timeout t o).
  Proof.
    intros G. pose proof G as [Gc Gl Glt Gown Gpre]. destruct o.
    - (* new *) apply (ginv_subset t); cbn [tstep tcm tcar theld]; try assumption; try reflexivity.
      + rewrite !app_length, Gl. reflexivity.
      + intros q b [H|[H|[[i [k [Hk [Hh Hkey]]]]|H]]]; [left; exact H | right; left; exact H | | right; right; right; exact H].
        cbn [tcar theld] in Hk, Hh. destruct (nth_app_new _ _ _ _ Hh) as [Ho|[_ Hx]]; [|discriminate].
        assert (Hlt : (i < length (tcar t))%nat) by (rewrite <- Gl; apply nth_error_Some; congruence).
        rewrite nth_error_app1 in Hk by exact Hlt. right. right. left. exists i, k. repeat split; assumption.
      + intros i k q Hk Hpre Hh. cbn [tcar theld] in Hk, Hh.
        destruct (nth_app_new _ _ _ _ Hh) as [Ho|[_ Hx]]; [|discriminate].
        assert (Hlt : (i < length (tcar t))%nat) by (rewrite <- Gl; apply nth_error_Some; congruence).
        rewrite nth_error_app1 in Hk by exact Hlt. apply (Gpre i k q Hk Hpre Ho).
    - (* recv *) destruct (nth_error (tcar t) i) as [k|] eqn:Hk; [|cbn [tstep]; rewrite Hk; apply both_same; exact G].
      destruct (k_state k) eqn:Es; [| | |cbn [tstep]; rewrite Hk, Es; apply both_same; exact G].
      all: assert (Hal : k_state k <> K_Dead) by congruence;
           destruct (trecv_view t i b now k Hk Hal) as (V1 & V2 & V3 & V4 & V5); cbn zeta in *;
           destruct (pump_spec (S (S (S (length (k_buf k) + length b)))) (with_buf (k_buf k ++ b) k)) as [k' [ps [Hp Hok]]];
           rewrite Hp in *; cbn [fst snd] in *; destruct Hok as [_ _ _ Pcid Ppre _]; cbn in Pcid, Ppre;
           set (t' := tstep timeout t (T_Recv i b now)) in *;
           destruct (pre_openb k && entered k')%bool eqn:Est.
      (* six cases: (token | clientid | open) x (started | not) *)
      all: try (apply andb_prop in Est; destruct Est as [Est1 Est2]).
      all: try (unfold pre_openb in Est1; rewrite Es in Est1; discriminate).
      (* started, from a pre-open state *)
      1,3: (destruct (live_send_queue (key_of k') now (tcm t) Gc) as (L1 & L2 & L3 & L4 & L5); cbn zeta in *;
            apply (ginv_extend t t' (snd (send_queue (key_of k') now (tcm t))) (key_of k') G);
            [ rewrite V3; exact L1
            | rewrite V1, V2, kupd_length, cm_set_nth_length; exact Gl
            | intros q b0 [[p H]|[[o [p H]]|[[j [kj [Hj [Hh Hkey]]]]|H]]];
              [ left; left; exists p; rewrite V4 in H; exact H
              | left; right; left; exists o, p; rewrite V5 in H; exact H
              | rewrite V1 in Hj; rewrite V2 in Hh;
                destruct (knth_upd_inv _ _ _ _ _ Hj) as [[<- [x [Hx ->]]]|[Hne Hj']];
                [ destruct (set_nth_get _ _ _ _ _ Hh) as [[_ E]|[[Hc _]|[_ Hn]]];
                  [ injection E as <-; right; split; [reflexivity | symmetry; exact Hkey]
                  | congruence
                  | exfalso; assert ((length (theld t) <= i)%nat) by (apply nth_error_None; exact Hn);
                    assert ((i < length (tcar t))%nat) by (apply nth_error_Some; congruence); lia ]
                | rewrite set_nth_neq in Hh by congruence; left; right; right; left; exists j, kj; repeat split; assumption ]
              | rewrite V3 in H; apply L3 in H; destruct H as [H|H]; [left; right; right; right; exact H | right; exact H] ]
            | rewrite V3; destruct L4 as [[La Lb]|[La [_ Lb]]]; [left; split; [right; right; right; exact La | exact Lb] | right; split; assumption]
            | intros j kj q Hj Hpre Hh; rewrite V1 in Hj; rewrite V2 in Hh;
              destruct (knth_upd_inv _ _ _ _ _ Hj) as [[<- [x [Hx ->]]]|[Hne Hj']];
              [ apply (entered_not_pre _ Est2 Hpre)
              | rewrite set_nth_neq in Hh by congruence; apply (Gpre j kj q Hj' Hpre Hh) ]
            | rewrite V3; apply L3; right; split; reflexivity ]).
      (* not started *)
      all: (apply (ginv_subset t t' G);
            [ rewrite V3; exact Gc
            | rewrite V1, V2, kupd_length; exact Gl
            | intros q b0 [[p H]|[[o [p H]]|[[j [kj [Hj [Hh Hkey]]]]|H]]];
              [ left; exists p; rewrite V4 in H; exact H
              | right; left; exists o, p; rewrite V5 in H; exact H
              | rewrite V1 in Hj; rewrite V2 in Hh;
                destruct (knth_upd_inv _ _ _ _ _ Hj) as [[<- [x [Hx ->]]]|[Hne Hj']];
                [ right; right; left; exists i, k; split; [exact Hk|]; split; [exact Hh|];
                  rewrite <- Hkey; unfold key_of; f_equal; symmetry; apply Pcid;
                  destruct (pre_open_dec k) as [Hpk|Hnp]; [exfalso; apply (Gpre i k q Hk Hpk Hh)|];
                  unfold pre_open in Hnp; destruct (k_state k); tauto
                | right; right; left; exists j, kj; repeat split; assumption ]
              | right; right; right; rewrite V3 in H; exact H ]
            | rewrite V3; reflexivity
            | intros j kj q Hj Hpre Hh; rewrite V1 in Hj; rewrite V2 in Hh;
              destruct (knth_upd_inv _ _ _ _ _ Hj) as [[<- [x [Hx ->]]]|[Hne Hj']];
              [ destruct (Ppre Hpre) as [_ Hpk]; apply (Gpre i k q Hk Hpk Hh)
              | apply (Gpre j kj q Hj' Hpre Hh) ] ]).
    - (* close *) apply (ginv_subset t); cbn [tstep tcm tcar theld]; try assumption; try reflexivity.
      + rewrite kupd_length. exact Gl.
      + intros q b [H|[H|[[j [kj [Hj [Hh Hkey]]]]|H]]]; [left; exact H | right; left; exact H | | right; right; right; exact H].
        cbn [tcar theld] in Hj, Hh. right. right. left.
        destruct (knth_upd_inv _ _ _ _ _ Hj) as [[<- [x [Hx ->]]]|[Hne Hj']];
          [exists i, x | exists j, kj]; repeat split; assumption.
      + intros j kj q Hj Hpre Hh. cbn [tcar theld] in Hj, Hh.
        destruct (knth_upd_inv _ _ _ _ _ Hj) as [[<- [x [Hx ->]]]|[Hne Hj']].
        * unfold pre_open in Hpre. cbn in Hpre. destruct Hpre; discriminate.
        * apply (Gpre j kj q Hj' Hpre Hh).
    - (* writeto *) cbn [tstep].
      destruct (live_send_queue (cid_key cid) now (tcm t) Gc) as (L1 & L2 & L3 & L4 & L5). cbn zeta in *.
      destruct (send_queue (cid_key cid) now (tcm t)) as [c1 q] eqn:Esq. cbn [fst snd] in *.
      destruct (live_q_send QUEUE_SIZE q p c1 L1) as (S1 & S2 & S3 & S4).
      destruct (q_send QUEUE_SIZE q p c1) as [c2 ok] eqn:Eqs. cbn [fst snd] in *.
      apply (ginv_extend t _ q (cid_key cid) G); cbn [tcm tcar theld tacc tcons]; try assumption.
      + intros q0 b [[p0 H]|[[o [p0 H]]|[[j [kj [Hj [Hh Hkey]]]]|H]]]; cbn [tacc tcons tcar theld tcm] in *.
        * destruct ok; [|left; left; exists p0; exact H]. apply in_app_or in H. destruct H as [H|[H|[]]].
          -- left. left. exists p0. exact H.
          -- injection H as <- <- <-. right. split; reflexivity.
        * left. right. left. exists o, p0. exact H.
        * left. right. right. left. exists j, kj. repeat split; assumption.
        * apply S4 in H. apply L3 in H. destruct H as [H|H]; [left; right; right; right; exact H | right; exact H].
      + rewrite S2. destruct L4 as [[La Lb]|[La [_ Lb]]]; [left; split; [right; right; right; exact La | exact Lb] | right; split; assumption].
      + apply S4. apply L3. right. split; reflexivity.
    - (* send *) cbn [tstep].
      destruct (nth_error (tcar t) i) as [k|] eqn:Hk; [|apply both_same; exact G].
      destruct (nth_error (theld t) i) as [[q|]|] eqn:Hh; try (apply both_same; exact G).
      destruct (k_state k) eqn:Es; try (apply both_same; exact G).
      destruct (live_q_recv q (tcm t) Gc) as (R1 & R2 & R3).
      destruct (q_recv q (tcm t)) as [c1 r] eqn:Eqr. cbn [fst snd] in *.
      assert (Htq : tied t q (key_of k)) by (right; right; left; exists i, k; repeat split; assumption).
      assert (Hnp : ~ pre_open k) by (unfold pre_open; rewrite Es; intros [H|H]; discriminate).
      destruct r as [p| |].
      + destruct (write_data p) as [w|].
        * destruct (live_send_queue (key_of k) now c1 R1) as (L1 & L2 & L3 & L4 & L5). cbn zeta in *.
          unfold key_of in *. destruct (send_queue (cid_key (k_cid k)) now c1) as [c2 q'] eqn:Esq. cbn [fst snd] in *.
          apply (ginv_extend t _ q' (cid_key (k_cid k)) G); cbn [tcm tcar theld tacc tcons]; try assumption.
          -- rewrite kupd_length, cm_set_nth_length. exact Gl.
          -- intros q0 b [[p0 H]|[[o [p0 H]]|[[j [kj [Hj [Hhj Hkey]]]]|H]]]; cbn [tacc tcons tcar theld tcm] in *.
             ++ left. left. exists p0. exact H.
             ++ apply in_app_or in H. destruct H as [H|[H|[]]]; [left; right; left; exists o, p0; exact H|].
                injection H as _ <- <- _. left. exact Htq.
             ++ destruct (knth_upd_inv _ _ _ _ _ Hj) as [[<- [x [Hx ->]]]|[Hne Hj']].
                ** rewrite Hk in Hx. injection Hx as <-. cbn in Hkey.
                   destruct (set_nth_get _ _ _ _ _ Hhj) as [[_ E]|[[Hc _]|[_ Hn]]]; [|congruence|congruence].
                   injection E as <-. right. split; [reflexivity | symmetry; exact Hkey].
                ** rewrite set_nth_neq in Hhj by congruence. left. right. right. left. exists j, kj. repeat split; assumption.
             ++ apply L3 in H. destruct H as [H|H]; [left; right; right; right; apply R3; exact H | right; exact H].
          -- rewrite <- R2. destruct L4 as [[La Lb]|[La [_ Lb]]]; [left; split; [right; right; right; apply R3; exact La | exact Lb] | right; split; assumption].
          -- intros j kj q0 Hj Hpre Hhj. destruct (knth_upd_inv _ _ _ _ _ Hj) as [[<- [x [Hx ->]]]|[Hne Hj']].
             ++ unfold pre_open in Hpre. cbn in Hpre. destruct Hpre; discriminate.
             ++ rewrite set_nth_neq in Hhj by congruence. apply (Gpre j kj q0 Hj' Hpre Hhj).
          -- apply L3. right. split; reflexivity.
        * apply (ginv_subset t); cbn [tcm tcar theld tacc tcons]; try assumption.
          -- rewrite kupd_length. exact Gl.
          -- intros q0 b [[p0 H]|[[o [p0 H]]|[[j [kj [Hj [Hhj Hkey]]]]|H]]]; cbn [tacc tcons tcar theld tcm] in *.
             ++ left. exists p0. exact H.
             ++ apply in_app_or in H. destruct H as [H|[H|[]]]; [right; left; exists o, p0; exact H|].
                injection H as _ <- <- _. exact Htq.
             ++ right. right. left. destruct (knth_upd_inv _ _ _ _ _ Hj) as [[<- [x [Hx ->]]]|[Hne Hj']];
                  [exists i, x | exists j, kj]; repeat split; assumption.
             ++ right. right. right. apply R3. exact H.
          -- intros j kj q0 Hj Hpre Hhj. destruct (knth_upd_inv _ _ _ _ _ Hj) as [[<- [x [Hx ->]]]|[Hne Hj']].
             ++ unfold pre_open in Hpre. cbn in Hpre. destruct Hpre; discriminate.
             ++ apply (Gpre j kj q0 Hj' Hpre Hhj).
      + apply both_same; exact G.
      + apply (ginv_subset t); cbn [tcm tcar theld tacc tcons]; try assumption.
        * rewrite kupd_length. exact Gl.
        * intros q0 b [[p0 H]|[[o [p0 H]]|[[j [kj [Hj [Hhj Hkey]]]]|H]]]; cbn [tacc tcons tcar theld tcm] in *.
          -- left. exists p0. exact H.
          -- right. left. exists o, p0. exact H.
          -- right. right. left. destruct (knth_upd_inv _ _ _ _ _ Hj) as [[<- [x [Hx ->]]]|[Hne Hj']];
               [exists i, x | exists j, kj]; repeat split; assumption.
          -- right. right. right. apply R3. exact H.
        * intros j kj q0 Hj Hpre Hhj. destruct (knth_upd_inv _ _ _ _ _ Hj) as [[<- [x [Hx ->]]]|[Hne Hj']].
          -- unfold pre_open in Hpre. cbn in Hpre. destruct Hpre; discriminate.
          -- apply (Gpre j kj q0 Hj' Hpre Hhj).
    - (* readfrom *) cbn [tstep]. destruct (trecvq t); [apply both_same; exact G|].
      apply (ginv_subset t); cbn [tcm tcar theld]; try assumption; try reflexivity. intros q b H. exact H.
    - (* sweep *) cbn [tstep]. destruct (sweep_rec now timeout (tcm t) Gc) as (W1 & W2 & W3 & W4 & W5). cbn zeta in *.
      apply (ginv_subset t); cbn [tcm tcar theld tacc tcons]; try assumption.
      intros q b [H|[H|[H|[r [Hr Hq]]]]]; [left; exact H | right; left; exact H | right; right; left; exact H|].
      right. right. right. exists r. split; [apply (W4 b r Hr) | exact Hq].
  Qed.

  Theorem tstep_ginv t o : GInv t -> GInv (tstep timeout t o).
  Proof. intros G. apply (tstep_both t o G). Qed.

  Theorem trun_ginv : forall ops, GInv (trun timeout ops).
  Proof.
    intros ops. unfold trun. assert (H : forall t, GInv t -> GInv (fold_left (tstep timeout) ops t)).
    { induction ops as [|o ops IH]; intros t G; cbn [fold_left]; [exact G|]. apply IH. apply tstep_ginv. exact G. }
    apply H. apply ginv_init.
  Qed.
End Steps.

(* ================================================================ (3) a session within the retention: one queue, no loss *)

Definition acc_key (a : N) (l : list (N * nat * bytes)) : list bytes :=
  map snd (filter (fun x => N.eqb (fst (fst x)) a) l).
Definition cons_key (a : N) (l : list (option nat * N * nat * bytes)) : list bytes :=
  map snd (filter (fun x => N.eqb (snd (fst (fst x))) a) l).

Lemma acc_key_snoc a l b q p : acc_key a (l ++ [(b, q, p)]) = acc_key a l ++ (if N.eqb b a then [p] else []).
Proof. unfold acc_key. rewrite filter_app, map_app. cbn. destruct (N.eqb b a); reflexivity. Qed.
Lemma cons_key_snoc a l o b q p : cons_key a (l ++ [(o, b, q, p)]) = cons_key a l ++ (if N.eqb b a then [p] else []).
Proof. unfold cons_key. rewrite filter_app, map_app. cbn. destruct (N.eqb b a); reflexivity. Qed.

Lemma out_q_send_queue a' now c a : cm_inv c -> out_q (fst (send_queue a' now c)) a = out_q c a.
Proof.
  intros Hinv. pose proof (send_queue_out_aux a' now c Hinv) as (_ & (r & Hr & _ & _ & Hq) & Hoth & _).
  destruct (N.eq_dec a a') as [->|Hne].
  - unfold out_q at 1. rewrite Hr. exact Hq.
  - unfold out_q. rewrite (Hoth a Hne). reflexivity.
Qed.

Lemma out_q_recv_other q c a : cm_inv c -> (forall r, rec_of c a = Some r -> c_qid r <> q) ->
  out_q (fst (q_recv q c)) a = out_q c a.
Proof. intros Hinv H. destruct (q_recv_rec q c Hinv) as (_ & _ & Hoth & _). unfold out_q. rewrite (Hoth a H). reflexivity. Qed.

Section Key.
  Variable timeout : Z.
  Variable a : N.     (* the session's key *)

  (* the sweep [o] finds the session's record idle for the timeout *)
  Definition stale (t : tstate) (o : top) : Prop :=
    match o with
    | T_Sweep now => exists r, rec_of (tcm t) a = Some r /\ expired now timeout r = true
    | _ => False
    end.

  Fixpoint fresh_from (t : tstate) (ops : list top) : Prop :=
    match ops with
    | [] => True
    | o :: r => ~ stale t o /\ fresh_from (tstep timeout t o) r
    end.

  Record KInv (t : tstate) : Prop := {
    k_one : forall q, tied t q a -> live (tcm t) q a;
    k_fifo : acc_key a (tacc t) = cons_key a (tcons t) ++ out_q (tcm t) a
  }.

  Lemma kinv_init : KInv tinit.
  Proof.
    constructor.
    - intros q [[p []]|[[o [p []]]|[[i [k [H _]]]|[r [H _]]]]]; [destruct i|]; discriminate.
    - reflexivity.
  Qed.

  Lemma live_forward t o q b : GInv t -> live (tcm t) q b ->
    (forall now r, o = T_Sweep now -> rec_of (tcm t) b = Some r -> expired now timeout r = false) ->
    live (tcm (tstep timeout t o)) q b.
  Proof.
    intros G H Hf. pose proof G as [Gc Gl Glt Gown Gpre]. destruct o.
    - exact H.
    - destruct (nth_error (tcar t) i) as [k|] eqn:Hk; [|cbn [tstep]; rewrite Hk; exact H].
      destruct (k_state k) eqn:Es; [| | |cbn [tstep]; rewrite Hk, Es; exact H].
      all: assert (Hal : k_state k <> K_Dead) by congruence;
           destruct (trecv_view timeout t i b0 now k Hk Hal) as (_ & _ & V3 & _ & _); cbn zeta in V3; rewrite V3;
           match goal with |- context [if ?c then _ else _] => destruct c end; try exact H;
           match goal with |- live (fst (send_queue ?kk _ _)) _ _ =>
             destruct (live_send_queue kk now (tcm t) Gc) as (_ & _ & L3 & _); apply L3; left; exact H end.
    - exact H.
    - cbn [tstep]. destruct (live_send_queue (cid_key cid) now (tcm t) Gc) as (L1 & _ & L3 & _). cbn zeta in *.
      destruct (send_queue (cid_key cid) now (tcm t)) as [c1 q0]. cbn [fst snd] in *.
      destruct (live_q_send QUEUE_SIZE q0 p c1 L1) as (_ & _ & _ & S4).
      destruct (q_send QUEUE_SIZE q0 p c1) as [c2 ok]. cbn [fst tcm] in *. apply S4. apply L3. left. exact H.
    - cbn [tstep]. destruct (nth_error (tcar t) i) as [k|]; [|exact H].
      destruct (nth_error (theld t) i) as [[q0|]|]; try exact H. destruct (k_state k); try exact H.
      destruct (live_q_recv q0 (tcm t) Gc) as (R1 & _ & R3). destruct (q_recv q0 (tcm t)) as [c1 r]. cbn [fst] in *.
      destruct r as [p| |]; [|exact H | cbn [tcm]; apply R3; exact H].
      destruct (write_data p); [|cbn [tcm]; apply R3; exact H].
      destruct (live_send_queue (cid_key (k_cid k)) now c1 R1) as (_ & _ & L3 & _). cbn zeta in *.
      destruct (send_queue (cid_key (k_cid k)) now c1) as [c2 q']. cbn [fst tcm] in *. apply L3. left. apply R3. exact H.
    - cbn [tstep]. destruct (trecvq t); exact H.
    - cbn [tstep tcm]. destruct (sweep_rec now timeout (tcm t) Gc) as (_ & _ & W3 & _). cbn zeta in W3.
      destruct H as [r [Hr Hq]]. exists r. split; [|exact Hq]. apply W3; [exact Hr|]. apply (Hf now r eq_refl Hr).
  Qed.

  Lemma not_stale_fresh t now : ~ stale t (T_Sweep now) ->
    forall r, rec_of (tcm t) a = Some r -> expired now timeout r = false.
  Proof.
    intros Hns r Hr. destruct (expired now timeout r) eqn:E; [|reflexivity]. exfalso. apply Hns. exists r. split; assumption.
  Qed.

  Theorem tstep_kinv t o : GInv t -> KInv t -> ~ stale t o -> KInv (tstep timeout t o).
  Proof.
    intros G [K1 K2] Hns. pose proof G as [Gc Gl Glt Gown Gpre].
    destruct (tstep_both timeout t o G) as [G' Hsum]. constructor.
    - (* one incarnation *)
      intros q Ht. destruct (Hsum q a Ht) as [H0|[_ Hl]]; [|exact Hl].
      apply live_forward; [exact G | apply K1; exact H0|].
      intros now r -> Hr. apply (not_stale_fresh t now Hns r Hr).
    - (* nothing accepted is lost, order kept *)
      destruct o.
      + exact K2.
      + destruct (nth_error (tcar t) i) as [k|] eqn:Hk; [|cbn [tstep]; rewrite Hk; exact K2].
        destruct (k_state k) eqn:Es; [| | |cbn [tstep]; rewrite Hk, Es; exact K2].
        all: assert (Hal : k_state k <> K_Dead) by congruence;
             destruct (trecv_view timeout t i b now k Hk Hal) as (_ & _ & V3 & V4 & V5); cbn zeta in V3; rewrite V3, V4, V5;
             match goal with |- context [if ?c then _ else _] => destruct c end; try exact K2;
             rewrite out_q_send_queue by exact Gc; exact K2.
      + exact K2.
      + cbn [tstep]. pose proof (send_queue_rec (cid_key cid) now (tcm t) Gc) as (L1 & _ & Loth & _).
        destruct (live_send_queue (cid_key cid) now (tcm t) Gc) as (_ & _ & _ & _ & (r & Hr & Hq & _ & Hcq)). cbn zeta in *.
        pose proof (out_q_send_queue (cid_key cid) now (tcm t) a Gc) as Ho.
        destruct (send_queue (cid_key cid) now (tcm t)) as [c1 q0]. cbn [fst snd] in *. subst q0.
        pose proof (q_send_out QUEUE_SIZE p c1 (cid_key cid) r L1 Hr) as Hs.
        destruct (q_send QUEUE_SIZE (c_qid r) p c1) as [c2 ok]. destruct Hs as (_ & Hok & _ & Hqa & Hqo).
        cbn [tacc tcons tcm]. destruct (N.eqb_spec (cid_key cid) a) as [E|Ne].
        * rewrite E in *. rewrite Hqa. rewrite Hcq in *. subst ok.
          destruct (length (out_q (tcm t) a) <? QUEUE_SIZE)%nat.
          -- rewrite acc_key_snoc, N.eqb_refl, K2, <- app_assoc. reflexivity.
          -- exact K2.
        * rewrite Hqo by congruence. rewrite Ho.
          destruct ok; [|exact K2]. rewrite acc_key_snoc. destruct (N.eqb_spec (cid_key cid) a); [congruence|].
          rewrite app_nil_r. exact K2.
      + cbn [tstep]. destruct (nth_error (tcar t) i) as [k|] eqn:Hk; [|exact K2].
        destruct (nth_error (theld t) i) as [[q|]|] eqn:Hh; try exact K2. destruct (k_state k) eqn:Es; try exact K2.
        assert (Htq : tied t q (key_of k)) by (right; right; left; exists i, k; repeat split; assumption).
        destruct (q_recv_rec q (tcm t) Gc) as (R1 & _ & Roth & Rsame).
        destruct (N.eqb_spec (key_of k) a) as [E|Ne].
        * (* a carrier of the session: it holds the session's one live queue *)
          rewrite E in Htq. destruct (K1 q Htq) as [r [Hr Hq]].
          destruct (Rsame a r Hr Hq) as (Ho & Hr' & _).
          assert (Hout : out_q (tcm t) a = c_q r) by (unfold out_q; rewrite Hr; reflexivity).
          destruct (q_recv q (tcm t)) as [c1 o]. cbn [fst snd] in *. subst o.
          assert (Hout1 : out_q c1 a = tl (c_q r)) by (unfold out_q; rewrite Hr'; reflexivity).
          destruct (c_q r) as [|p q'] eqn:Ecq; [exact K2|].
          unfold key_of in E. destruct (write_data p) as [w|].
          -- pose proof (out_q_send_queue (cid_key (k_cid k)) now c1 a R1) as Ho.
             destruct (send_queue (cid_key (k_cid k)) now c1) as [c2 q2]. cbn [fst tacc tcons tcm] in *.
             rewrite cons_key_snoc, E, N.eqb_refl, Ho, Hout1, K2, Hout, <- app_assoc. reflexivity.
          -- cbn [tacc tcons tcm]. rewrite cons_key_snoc, E, N.eqb_refl, Hout1, K2, Hout, <- app_assoc. reflexivity.
        * (* a carrier of another session never touches this session's queue *)
          assert (Hnq : forall r, rec_of (tcm t) a = Some r -> c_qid r <> q).
          { intros r Hr Hq. apply Ne. apply (Gown q (key_of k) a Htq). right. right. right. exists r. split; assumption. }
          pose proof (out_q_recv_other q (tcm t) a Gc Hnq) as Ho1.
          destruct (q_recv q (tcm t)) as [c1 o]. cbn [fst] in *. unfold key_of in Ne.
          destruct o as [p| |]; [|exact K2 | cbn [tacc tcons tcm]; rewrite Ho1; exact K2].
          destruct (write_data p) as [w|].
          -- pose proof (out_q_send_queue (cid_key (k_cid k)) now c1 a R1) as Ho.
             destruct (send_queue (cid_key (k_cid k)) now c1) as [c2 q2]. cbn [fst tacc tcons tcm] in *.
             rewrite cons_key_snoc. destruct (N.eqb_spec (cid_key (k_cid k)) a); [congruence|].
             rewrite app_nil_r, Ho, Ho1. exact K2.
          -- cbn [tacc tcons tcm]. rewrite cons_key_snoc. destruct (N.eqb_spec (cid_key (k_cid k)) a); [congruence|].
             rewrite app_nil_r, Ho1. exact K2.
      + cbn [tstep]. destruct (trecvq t); exact K2.
      + cbn [tstep tacc tcons tcm]. rewrite K2. f_equal.
        destruct (sweep_rec now timeout (tcm t) Gc) as (_ & _ & W3 & W4 & _). cbn zeta in *.
        unfold out_q. destruct (rec_of (tcm t) a) as [r|] eqn:Er.
        * rewrite (W3 a r Er (not_stale_fresh t now Hns r Er)). reflexivity.
        * destruct (rec_of (remove_expired now timeout (tcm t)) a) as [r'|] eqn:Er'; [|reflexivity].
          destruct (W4 a r' Er') as [H _]. congruence.
  Qed.

  Theorem trun_kinv : forall ops, fresh_from tinit ops -> KInv (trun timeout ops).
  Proof.
    intros ops. unfold trun.
    assert (H : forall t, GInv t -> KInv t -> fresh_from t ops -> KInv (fold_left (tstep timeout) ops t)).
    { induction ops as [|o ops IH]; intros t G K Hf; cbn [fold_left]; [exact K|]. destruct Hf as [Hns Hf].
      apply IH; [apply tstep_ginv; exact G | apply tstep_kinv; assumption | exact Hf]. }
    apply H; [apply ginv_init | apply kinv_init].
  Qed.

  (* all the identities ever tied to the session are ONE identity *)
  Corollary one_queue t q q' : GInv t -> KInv t -> tied t q a -> tied t q' a -> q = q'.
  Proof.
    intros G K H H'. destruct (k_one t K q H) as [r [Hr Hq]]. destruct (k_one t K q' H') as [r' [Hr' Hq']]. congruence.
  Qed.

  (* no carrier of the session is closed by an expiry: a receive on the queue it holds never reports "closed" *)
  Corollary never_closed_under_carrier t i k q : GInv t -> KInv t ->
    nth_error (tcar t) i = Some k -> nth_error (theld t) i = Some (Some q) -> key_of k = a ->
    snd (q_recv q (tcm t)) <> RcvClosed.
  Proof.
    intros G K Hk Hh Hkey. pose proof (g_cm t G) as Gc.
    assert (Ht : tied t q a) by (right; right; left; exists i, k; repeat split; assumption).
    destruct (k_one t K q Ht) as [r [Hr Hq]]. destruct (q_recv_rec q (tcm t) Gc) as (_ & _ & _ & Rsame).
    destruct (Rsame a r Hr Hq) as (Ho & _). rewrite Ho. destruct (c_q r); discriminate.
  Qed.
End Key.

(* ================================================================ (4) at and beyond the retention *)

Section Expiry.
  Variable timeout : Z.

  (* the sweeper's decision for one record: kept iff seen less than the timeout ago (the code's comparison
     now.Sub(LastSeen) >= timeout); removed records' queues are closed with what was left in them *)
  Theorem sweep_boundary t now a r : GInv t -> rec_of (tcm t) a = Some r ->
    let t' := tstep timeout t (T_Sweep now) in
    ((now - c_seen r < timeout)%Z -> rec_of (tcm t') a = Some r) /\
    ((now - c_seen r >= timeout)%Z -> rec_of (tcm t') a = None /\ In (c_qid r, c_q r) (dead (tcm t'))).
  Proof.
    intros G Hr. cbn zeta. cbn [tstep tcm]. destruct (sweep_rec now timeout (tcm t) (g_cm t G)) as (_ & _ & W3 & _ & W5).
    cbn zeta in *. split; intros H.
    - apply W3; [exact Hr|]. unfold expired. rewrite Z.geb_leb. apply Z.leb_gt. lia.
    - apply W5; [exact Hr|]. unfold expired. rewrite Z.geb_leb. apply Z.leb_le. lia.
  Qed.

  (* every touch refreshes last-seen: after WriteTo the record of the key was seen [now] *)
  Theorem writeto_touches t cid p now : GInv t ->
    exists r, rec_of (tcm (tstep timeout t (T_WriteTo cid p now))) (cid_key cid) = Some r /\ c_seen r = now.
  Proof.
    intros G. cbn [tstep]. pose proof (g_cm t G) as Gc.
    destruct (live_send_queue (cid_key cid) now (tcm t) Gc) as (L1 & _ & _ & _ & (r & Hr & Hq & Hs & _)). cbn zeta in *.
    destruct (send_queue (cid_key cid) now (tcm t)) as [c1 q0]. cbn [fst snd] in *. subst q0.
    destruct (q_send_rec QUEUE_SIZE p c1 (cid_key cid) r L1 Hr) as (_ & _ & _ & _ & Hr2 & _). cbn zeta in Hr2.
    destruct (q_send QUEUE_SIZE (c_qid r) p c1) as [c2 ok]. cbn [fst tcm] in *.
    eexists. split; [exact Hr2|]. cbn. exact Hs.
  Qed.

  (* after an expiry the next packet for the session goes into a NEW queue: an identity no queue, no carrier and no
     log entry ever had; it starts with exactly that packet *)
  Theorem new_incarnation t cid p now : GInv t -> rec_of (tcm t) (cid_key cid) = None ->
    let t' := tstep timeout t (T_WriteTo cid p now) in
    exists r, rec_of (tcm t') (cid_key cid) = Some r /\ c_qid r = next_qid (tcm t) /\ c_seen r = now /\ c_q r = [p] /\
              (forall q b, tied t q b -> (q < c_qid r)%nat) /\
              tacc t' = tacc t ++ [(cid_key cid, c_qid r, p)].
  Proof.
    intros G Hnone. cbn zeta. cbn [tstep]. pose proof (g_cm t G) as Gc.
    pose proof (send_queue_rec (cid_key cid) now (tcm t) Gc) as (L1 & _ & _ & Hcase). rewrite Hnone in Hcase.
    destruct Hcase as (Hq & Hr & _).
    destruct (send_queue (cid_key cid) now (tcm t)) as [c1 q0]. cbn [fst snd] in *. subst q0.
    pose proof (q_send_rec QUEUE_SIZE p c1 (cid_key cid) _ L1 Hr) as (_ & Hok & _ & _ & Hr2 & _). cbn zeta in *.
    cbn [c_qid c_q length] in *. change (0 <? QUEUE_SIZE)%nat with true in *.
    destruct (q_send QUEUE_SIZE (next_qid (tcm t)) p c1) as [c2 ok]. cbn [fst snd tcm tacc] in *. subst ok.
    eexists. split; [exact Hr2|]. cbn. repeat split. intros q b H. apply (g_lt t G q b H).
  Qed.
End Expiry.

(* a decidable form of the freshness condition, for concrete schedules *)
Section FreshB.
  Variable timeout : Z.
  Variable a : N.
  Definition staleb (t : tstate) (o : top) : bool :=
    match o with
    | T_Sweep now => match rec_of (tcm t) a with Some r => expired now timeout r | None => false end
    | _ => false
    end.
  Fixpoint fresh_fromb (t : tstate) (ops : list top) : bool :=
    match ops with
    | [] => true
    | o :: r => (negb (staleb t o) && fresh_fromb (tstep timeout t o) r)%bool
    end.
  Lemma staleb_false t o : staleb t o = false -> ~ stale timeout a t o.
  Proof.
    unfold staleb, stale. destruct o; try (intros _ H0; exact H0). intros Hb [r [Hr He]]. rewrite Hr in Hb. congruence.
  Qed.
  Lemma fresh_fromb_ok : forall ops t, fresh_fromb t ops = true -> fresh_from timeout a t ops.
  Proof.
    induction ops as [|o ops IH]; intros t H; cbn in *; [exact I|]. apply andb_prop in H. destruct H as [H1 H2].
    split; [apply staleb_false; apply negb_true_iff; exact H1 | apply IH; exact H2].
  Qed.
End FreshB.

(* ================================================================ (2b) where a downstream packet comes from *)

(* every packet in a queue (live or closed), every packet taken off a queue and every packet a carrier was written
   was accepted by WriteTo for the queue it sits in / came from — together with the ownership of queue identities:
   for the ClientID (key) the carrier presented *)

Lemma dead_take_spec k : forall d,
  (forall q l', In (q, l') (fst (dead_take k d)) -> exists l, In (q, l) d /\ incl l' l) /\
  (forall p, snd (dead_take k d) = RcvPkt p -> exists l, In (k, l) d /\ In p l).
Proof.
  induction d as [|[k' q] t IH]; cbn [dead_take].
  - split; [intros q l' [] | intros p H; discriminate].
  - destruct (Nat.eqb_spec k' k) as [->|Hne].
    + destruct q as [|p0 q']; cbn [fst snd].
      * split; [|intros p H; discriminate]. intros q l' H. exists l'. split; [exact H | apply incl_refl].
      * split.
        -- intros q l' [H|H].
           ++ injection H as <- <-. exists (p0 :: q'). split; [left; reflexivity | apply incl_tl, incl_refl].
           ++ exists l'. split; [right; exact H | apply incl_refl].
        -- intros p H. injection H as <-. exists (p0 :: q'). split; left; reflexivity.
    + destruct (dead_take k t) as [t' r] eqn:E. cbn [fst snd] in *. destruct IH as [IH1 IH2]. split.
      * intros q0 l' [H|H].
        -- injection H as <- <-. exists q. split; [left; reflexivity | apply incl_refl].
        -- destruct (IH1 q0 l' H) as [l [Hl Hi]]. exists l. split; [right; exact Hl | exact Hi].
      * intros p H. destruct (IH2 p H) as [l [Hl Hp]]. exists l. split; [right; exact Hl | exact Hp].
Qed.

Lemma q_recv_src q c : cm_inv c ->
  (forall b r', rec_of (fst (q_recv q c)) b = Some r' ->
     exists r, rec_of c b = Some r /\ c_qid r' = c_qid r /\ incl (c_q r') (c_q r)) /\
  (forall q0 l', In (q0, l') (dead (fst (q_recv q c))) -> exists l, In (q0, l) (dead c) /\ incl l' l) /\
  (forall p, snd (q_recv q c) = RcvPkt p ->
     (exists b r, rec_of c b = Some r /\ c_qid r = q /\ In p (c_q r)) \/ (exists l, In (q, l) (dead c) /\ In p l)).
Proof.
  intros Hinv. pose proof (q_recv_rec q c Hinv) as (_ & _ & Hoth & Hsame).
  assert (Hrecs : forall b r', rec_of (fst (q_recv q c)) b = Some r' ->
            exists r, rec_of c b = Some r /\ c_qid r' = c_qid r /\ incl (c_q r') (c_q r)).
  { intros b r' H. destruct (rec_of c b) as [r|] eqn:Er.
    - destruct (Nat.eq_dec (c_qid r) q) as [E|Ne].
      + destruct (Hsame b r Er E) as (_ & H2 & _). rewrite H2 in H. injection H as <-. exists r. split; [reflexivity|].
        split; [reflexivity|]. cbn. destruct (c_q r); [apply incl_refl | apply incl_tl, incl_refl].
      + rewrite Hoth in H by (intros r0 H0; congruence). rewrite Er in H. injection H as <-. exists r.
        split; [reflexivity|]. split; [reflexivity | apply incl_refl].
    - rewrite Hoth in H by (intros r0 H0; congruence). congruence. }
  split; [exact Hrecs|]. unfold q_recv. destruct (find_qid q (byAge c)) as [i|] eqn:Hf.
  - destruct (find_qid_some _ _ _ Hf) as [r0 [Hi Hq0]]. rewrite Hi.
    assert (Hrec0 : rec_of c (c_addr r0) = Some r0) by (apply rec_of_in; [exact Hinv | eapply nth_error_In; eauto]).
    destruct (c_q r0) as [|p0 q'] eqn:Eq; cbn [fst snd].
    + split; [intros q0 l' H; exists l'; split; [exact H | apply incl_refl] | intros p H; discriminate].
    + split; [intros q0 l' H; exists l'; split; [exact H | apply incl_refl]|].
      intros p H. injection H as <-. left. exists (c_addr r0), r0. rewrite Eq. repeat split; [exact Hrec0 | exact Hq0 | left; reflexivity].
  - pose proof (dead_take_spec q (dead c)) as [D1 D2]. destruct (dead_take q (dead c)) as [d o]. cbn [fst snd dead] in *.
    split; [exact D1|]. intros p H. right. apply D2. exact H.
Qed.

Section Src.
  Variable timeout : Z.

  Record SrcInv (t : tstate) : Prop := {
    s_live : forall b r p, rec_of (tcm t) b = Some r -> In p (c_q r) -> In (b, c_qid r, p) (tacc t);
    s_dead : forall q l p, In (q, l) (dead (tcm t)) -> In p l -> exists b, In (b, q, p) (tacc t);
    s_cons : forall o b q p, In (o, b, q, p) (tcons t) -> In (b, q, p) (tacc t);
    s_down : forall i k p, nth_error (tcar t) i = Some k -> In p (k_down k) -> exists q, In (Some i, key_of k, q, p) (tcons t);
    s_pre : forall i k, nth_error (tcar t) i = Some k -> pre_open k -> k_down k = []
  }.

  Lemma srcinv_init : SrcInv tinit.
  Proof.
    constructor; cbn.
    - intros b r p H. discriminate.
    - intros q l p [].
    - intros o b q p [].
    - intros [|i] k p H; discriminate.
    - intros [|i] k H; discriminate.
  Qed.

  (* SendQueue changes no queue content and no closed queue *)
  Lemma send_queue_src a now c : cm_inv c ->
    (forall b r', rec_of (fst (send_queue a now c)) b = Some r' ->
       c_q r' = [] \/ exists r, rec_of c b = Some r /\ c_qid r' = c_qid r /\ c_q r' = c_q r) /\
    dead (fst (send_queue a now c)) = dead c.
  Proof.
    intros Hinv. destruct (send_queue_rec a now c Hinv) as (_ & Hd & Hoth & Hcase). split; [|exact Hd].
    intros b r' H. destruct (N.eq_dec b a) as [->|Hne].
    - destruct (rec_of c a) as [r|] eqn:Er.
      + destruct Hcase as (_ & Hr' & _). rewrite Hr' in H. injection H as <-. right. exists r. repeat split.
      + destruct Hcase as (_ & Hr' & _). rewrite Hr' in H. injection H as <-. left. reflexivity.
    - rewrite (Hoth b Hne) in H. right. exists r'. repeat split. exact H.
  Qed.

  Theorem tstep_srcinv t o : GInv t -> SrcInv t -> SrcInv (tstep timeout t o).
  Proof.
    intros G [Sl Sd Sc Sw Sp]. pose proof G as [Gc Gl Glt Gown Gpre]. destruct o.
    - (* new *) constructor; cbn [tstep tcm tacc tcons tcar]; try assumption.
      + intros i k p H Hin. destruct (nth_app_new _ _ _ _ H) as [Ho|[_ ->]]; [apply (Sw i k p Ho Hin) | destruct Hin].
      + intros i k H Hpre. destruct (nth_app_new _ _ _ _ H) as [Ho|[_ ->]]; [apply (Sp i k Ho Hpre) | reflexivity].
    - (* recv *) destruct (nth_error (tcar t) i) as [k|] eqn:Hk; [|cbn [tstep]; rewrite Hk; constructor; assumption].
      destruct (k_state k) eqn:Es; [| | |cbn [tstep]; rewrite Hk, Es; constructor; assumption].
      all: assert (Hal : k_state k <> K_Dead) by congruence;
           destruct (trecv_view timeout t i b now k Hk Hal) as (V1 & _ & V3 & V4 & V5); cbn zeta in *;
           destruct (pump_spec (S (S (S (length (k_buf k) + length b)))) (with_buf (k_buf k ++ b) k)) as [k' [ps [Hp Hok]]];
           rewrite Hp in *; cbn [fst snd] in *; destruct Hok as [Pdown _ _ Pcid Ppre _]; cbn in Pdown, Pcid, Ppre;
           pose proof (send_queue_src (key_of k') now (tcm t) Gc) as [Q1 Q2];
           constructor; rewrite ?V1, ?V3, ?V4, ?V5.
      all: try (intros b0 r p H Hin; match type of H with context [if ?c then _ else _] => destruct c end;
                [ destruct (Q1 b0 r H) as [E|[r0 [H0 [E1 E2]]]]; [rewrite E in Hin; destruct Hin | rewrite E1; apply (Sl b0 r0 p H0); rewrite <- E2; exact Hin]
                | apply (Sl b0 r p H Hin) ]).
      all: try (intros q l p H Hin; match type of H with context [if ?c then _ else _] => destruct c end;
                [ rewrite Q2 in H; apply (Sd q l p H Hin) | apply (Sd q l p H Hin) ]).
      all: try exact Sc.
      all: try (intros j kj p Hj Hin; destruct (knth_upd_inv _ _ _ _ _ Hj) as [[<- [x [Hx ->]]]|[Hne Hj']]; [|apply (Sw j kj p Hj' Hin)];
            rewrite Pdown in Hin; destruct (Sw i k p Hk Hin) as [q Hq]; exists q;
            assert (Hcid : k_cid k' = k_cid k \/ k_down k = []);
            [ destruct (pre_open_dec k) as [Hpk|Hnp]; [right; apply (Sp i k Hk Hpk) | left; apply Pcid; unfold pre_open in Hnp; destruct (k_state k); tauto] | ];
            destruct Hcid as [Hc|Hn]; [unfold key_of; rewrite Hc; exact Hq | rewrite Hn in Hin; destruct Hin]).
      all: (intros j kj Hj Hpre; destruct (knth_upd_inv _ _ _ _ _ Hj) as [[<- [x [Hx ->]]]|[Hne Hj']]; [|apply (Sp j kj Hj' Hpre)];
            rewrite Pdown; destruct (Ppre Hpre) as [_ Hpk]; apply (Sp i k Hk Hpk)).
    - (* close *) constructor; cbn [tstep tcm tacc tcons tcar]; try assumption.
      + intros j kj p Hj Hin. destruct (knth_upd_inv _ _ _ _ _ Hj) as [[<- [x [Hx ->]]]|[Hne Hj']]; [apply (Sw i x p Hx Hin) | apply (Sw j kj p Hj' Hin)].
      + intros j kj Hj Hpre. destruct (knth_upd_inv _ _ _ _ _ Hj) as [[<- [x [Hx ->]]]|[Hne Hj']]; [|apply (Sp j kj Hj' Hpre)].
        unfold pre_open in Hpre. cbn in Hpre. destruct Hpre; discriminate.
    - (* writeto *) cbn [tstep].
      destruct (send_queue_src (cid_key cid) now (tcm t) Gc) as [Q1 Q2].
      destruct (live_send_queue (cid_key cid) now (tcm t) Gc) as (L1 & _ & _ & _ & (r & Hr & Hq & _ & _)). cbn zeta in *.
      destruct (send_queue (cid_key cid) now (tcm t)) as [c1 q0]. cbn [fst snd] in *. subst q0.
      destruct (q_send_rec QUEUE_SIZE p c1 (cid_key cid) r L1 Hr) as (_ & Hok & Hd2 & _ & Hr2 & Hoth2). cbn zeta in *.
      destruct (q_send QUEUE_SIZE (c_qid r) p c1) as [c2 ok]. cbn [fst snd] in *. subst ok.
      assert (Hold : forall b0 r0 p0, rec_of c1 b0 = Some r0 -> In p0 (c_q r0) -> In (b0, c_qid r0, p0) (tacc t)).
      { intros b0 r0 p0 H Hin. destruct (Q1 b0 r0 H) as [E|[r1 [H1 [E1 E2]]]]; [rewrite E in Hin; destruct Hin|].
        rewrite E1. apply (Sl b0 r1 p0 H1). rewrite <- E2. exact Hin. }
      constructor; cbn [tcm tacc tcons tcar].
      + intros b0 r0 p0 H Hin. destruct (N.eq_dec b0 (cid_key cid)) as [->|Hne].
        * rewrite Hr2 in H. injection H as <-. cbn [c_qid c_q set_q] in *.
          destruct (length (c_q r) <? QUEUE_SIZE)%nat.
          -- apply in_app_or in Hin. apply in_or_app. destruct Hin as [Hin|[<-|[]]]; [left; apply (Hold _ r p0 Hr Hin) | right; left; reflexivity].
          -- apply (Hold _ r p0 Hr Hin).
        * rewrite (Hoth2 b0 Hne) in H. destruct (length (c_q r) <? QUEUE_SIZE)%nat; [apply in_or_app; left|]; apply (Hold b0 r0 p0 H Hin).
      + intros q l p0 H Hin. rewrite Hd2, Q2 in H. destruct (Sd q l p0 H Hin) as [b0 Hb]. exists b0.
        destruct (length (c_q r) <? QUEUE_SIZE)%nat; [apply in_or_app; left|]; exact Hb.
      + intros o b0 q p0 H. destruct (length (c_q r) <? QUEUE_SIZE)%nat; [apply in_or_app; left|]; apply (Sc o b0 q p0 H).
      + exact Sw.
      + exact Sp.
    - (* send *) cbn [tstep].
      destruct (nth_error (tcar t) i) as [k|] eqn:Hk; [|constructor; assumption].
      destruct (nth_error (theld t) i) as [[q|]|] eqn:Hh; try (constructor; assumption).
      destruct (k_state k) eqn:Es; try (constructor; assumption).
      assert (Htq : tied t q (key_of k)) by (right; right; left; exists i, k; repeat split; assumption).
      destruct (q_recv_src q (tcm t) Gc) as (R1 & R2 & R3). pose proof (q_recv_inv q (tcm t) Gc) as Rinv.
      destruct (q_recv q (tcm t)) as [c1 r] eqn:Eqr. cbn [fst snd] in *.
      assert (Hlive1 : forall b0 r0 p0, rec_of c1 b0 = Some r0 -> In p0 (c_q r0) -> In (b0, c_qid r0, p0) (tacc t)).
      { intros b0 r0 p0 H Hin. destruct (R1 b0 r0 H) as [r1 [H1 [E1 E2]]]. rewrite E1. apply (Sl b0 r1 p0 H1). apply E2. exact Hin. }
      assert (Hdead1 : forall q0 l p0, In (q0, l) (dead c1) -> In p0 l -> exists b0, In (b0, q0, p0) (tacc t)).
      { intros q0 l p0 H Hin. destruct (R2 q0 l H) as [l0 [H0 Hi]]. apply (Sd q0 l0 p0 H0). apply Hi. exact Hin. }
      destruct r as [p| |].
      + (* the packet was accepted for the carrier's own key *)
        assert (Hsrc : In (key_of k, q, p) (tacc t)).
        { destruct (R3 p eq_refl) as [[b0 [r0 [H0 [Hq0 Hin]]]]|[l [Hl Hin]]].
          - assert (b0 = key_of k); [|subst b0; rewrite <- Hq0; apply (Sl _ r0 p H0 Hin)].
            apply (Gown q b0 (key_of k)); [|exact Htq]. right. right. right. exists r0. split; assumption.
          - destruct (Sd q l p Hl Hin) as [b0 Hb]. assert (b0 = key_of k); [|subst b0; exact Hb].
            apply (Gown q b0 (key_of k)); [|exact Htq]. left. exists p. exact Hb. }
        destruct (write_data p) as [w|].
        * destruct (send_queue_src (cid_key (k_cid k)) now c1 Rinv) as [Q1 Q2].
          destruct (send_queue (cid_key (k_cid k)) now c1) as [c2 q'] eqn:Esq. cbn [fst] in *.
          constructor; cbn [tcm tacc tcons tcar].
          -- intros b0 r0 p0 H Hin. destruct (Q1 b0 r0 H) as [E|[r1 [H1 [E1 E2]]]]; [rewrite E in Hin; destruct Hin|].
             rewrite E1. apply (Hlive1 b0 r1 p0 H1). rewrite <- E2. exact Hin.
          -- intros q0 l p0 H Hin. rewrite Q2 in H. apply (Hdead1 q0 l p0 H Hin).
          -- intros o b0 q0 p0 H. apply in_app_or in H. destruct H as [H|[H|[]]]; [apply (Sc o b0 q0 p0 H)|].
             injection H as _ <- <- <-. exact Hsrc.
          -- intros j kj p0 Hj Hin. destruct (knth_upd_inv _ _ _ _ _ Hj) as [[<- [x [Hx ->]]]|[Hne Hj']].
             ++ rewrite Hk in Hx. injection Hx as <-. cbn [open_carrier k_down] in Hin. unfold key_of. cbn [open_carrier k_cid].
                apply in_app_or in Hin. destruct Hin as [Hin|[<-|[]]].
                ** destruct (Sw i k p0 Hk Hin) as [q0 Hq0]. exists q0. apply in_or_app. left. exact Hq0.
                ** exists q. apply in_or_app. right. left. reflexivity.
             ++ destruct (Sw j kj p0 Hj' Hin) as [q0 Hq0]. exists q0. apply in_or_app. left. exact Hq0.
          -- intros j kj Hj Hpre. destruct (knth_upd_inv _ _ _ _ _ Hj) as [[<- [x [Hx ->]]]|[Hne Hj']]; [|apply (Sp j kj Hj' Hpre)].
             unfold pre_open in Hpre. cbn in Hpre. destruct Hpre; discriminate.
        * constructor; cbn [tcm tacc tcons tcar]; try assumption.
          -- intros o b0 q0 p0 H. apply in_app_or in H. destruct H as [H|[H|[]]]; [apply (Sc o b0 q0 p0 H)|].
             injection H as _ <- <- <-. exact Hsrc.
          -- intros j kj p0 Hj Hin. destruct (knth_upd_inv _ _ _ _ _ Hj) as [[<- [x [Hx ->]]]|[Hne Hj']].
             ++ cbn [kill k_down] in Hin. destruct (Sw i x p0 Hx Hin) as [q0 Hq0]. exists q0. apply in_or_app. left. exact Hq0.
             ++ destruct (Sw j kj p0 Hj' Hin) as [q0 Hq0]. exists q0. apply in_or_app. left. exact Hq0.
          -- intros j kj Hj Hpre. destruct (knth_upd_inv _ _ _ _ _ Hj) as [[<- [x [Hx ->]]]|[Hne Hj']]; [|apply (Sp j kj Hj' Hpre)].
             unfold pre_open in Hpre. cbn in Hpre. destruct Hpre; discriminate.
      + constructor; assumption.
      + constructor; cbn [tcm tacc tcons tcar]; try assumption.
        * intros j kj p0 Hj Hin. destruct (knth_upd_inv _ _ _ _ _ Hj) as [[<- [x [Hx ->]]]|[Hne Hj']]; [apply (Sw i x p0 Hx Hin) | apply (Sw j kj p0 Hj' Hin)].
        * intros j kj Hj Hpre. destruct (knth_upd_inv _ _ _ _ _ Hj) as [[<- [x [Hx ->]]]|[Hne Hj']]; [|apply (Sp j kj Hj' Hpre)].
          unfold pre_open in Hpre. cbn in Hpre. destruct Hpre; discriminate.
    - (* readfrom *) cbn [tstep]. destruct (trecvq t); constructor; assumption.
    - (* sweep *) cbn [tstep].
      pose proof (remove_expired_aux_spec (length (byAge (tcm t))) now timeout (tcm t) Gc (Nat.le_refl _)) as (_ & _ & _ & _ & _ & _ & I7).
      fold (remove_expired now timeout (tcm t)) in I7.
      destruct (sweep_rec now timeout (tcm t) Gc) as (_ & _ & _ & W4 & _). cbn zeta in W4.
      constructor; cbn [tcm tacc tcons tcar]; try assumption.
      + intros b r p H Hin. destruct (W4 b r H) as [H0 _]. apply (Sl b r p H0 Hin).
      + intros q l p H Hin. destruct (I7 (q, l) H) as [H0|[r [Hr [E _]]]]; [apply (Sd q l p H0 Hin)|].
        injection E as -> ->. exists (c_addr r). apply (Sl (c_addr r) r p); [apply rec_of_in; assumption | exact Hin].
  Qed.

  Theorem trun_srcinv : forall ops, SrcInv (trun timeout ops).
  Proof.
    intros ops. unfold trun.
    assert (H : forall t, GInv t -> SrcInv t -> SrcInv (fold_left (tstep timeout) ops t)).
    { induction ops as [|o ops IH]; intros t G S0; cbn [fold_left]; [exact S0|].
      apply IH; [apply tstep_ginv; exact G | apply tstep_srcinv; assumption]. }
    apply H; [apply ginv_init | apply srcinv_init].
  Qed.

  (* Downstream isolation with retention, for every timed schedule: whatever carrier i was written was accepted by
     WriteTo for the very ClientID (key) carrier i presented. *)
  Theorem timed_downstream_only_same_id : forall ops i k p,
    nth_error (tcar (trun timeout ops)) i = Some k -> In p (k_down k) ->
    exists q, In (key_of k, q, p) (tacc (trun timeout ops)).
  Proof.
    intros ops i k p Hk Hin. destruct (trun_srcinv ops) as [_ _ Sc Sw _].
    destruct (Sw i k p Hk Hin) as [q Hq]. exists q. apply (Sc _ _ _ _ Hq).
  Qed.
End Src.

(* ================================================================ a schedule-level sufficient condition *)

(* all clock readings of the schedule lie in a window shorter than the retention: [t0, t0 + timeout) — whatever the
   carriers do inside it (sequential, overlapping, idle gaps), no record can be idle for the timeout at any sweep *)
Section Span.
  Variable timeout : Z.
  Variable t0 : Z.

  Definition op_time (o : top) : option Z :=
    match o with
    | T_Recv _ _ now | T_WriteTo _ _ now | T_Send _ now | T_Sweep now => Some now
    | _ => None
    end.
  Definition in_window (o : top) : Prop :=
    match op_time o with Some now => (t0 <= now < t0 + timeout)%Z | None => True end.

  Definition seen_late (c : cmap) : Prop := forall b r, rec_of c b = Some r -> (t0 <= c_seen r)%Z.

  Lemma seen_send_queue a now c : cm_inv c -> (t0 <= now)%Z -> seen_late c -> seen_late (fst (send_queue a now c)).
  Proof.
    intros Hinv Hn Hs b r H. destruct (send_queue_rec a now c Hinv) as (_ & _ & Hoth & Hcase).
    destruct (N.eq_dec b a) as [->|Hne]; [|rewrite (Hoth b Hne) in H; apply (Hs b r H)].
    destruct (rec_of c a) as [r0|]; destruct Hcase as (_ & Hr & _); rewrite Hr in H; injection H as <-; cbn; exact Hn.
  Qed.

  Lemma seen_q_send cap q p c : cm_inv c -> seen_late c -> seen_late (fst (q_send cap q p c)).
  Proof.
    intros Hinv Hs b r H. unfold q_send in H.
    destruct (find_qid q (byAge c)) as [i|]; [|apply (Hs b r H)].
    destruct (nth_error (byAge c) i) as [r0|] eqn:Hi; [|apply (Hs b r H)].
    destruct (length (c_q r0) <? cap)%nat; [|apply (Hs b r H)]. cbn [fst] in H.
    rewrite rec_of_set_q in H by auto. destruct (N.eqb_spec (c_addr r0) b) as [<-|Hne]; [|apply (Hs b r H)].
    injection H as <-. cbn. apply (Hs (c_addr r0) r0). apply rec_of_in; [exact Hinv | eapply nth_error_In; eauto].
  Qed.

  Lemma seen_q_recv q c : cm_inv c -> seen_late c -> seen_late (fst (q_recv q c)).
  Proof.
    intros Hinv Hs b r H. destruct (q_recv_rec_back q c b r Hinv H) as [r0 [H0 [_ E]]]. rewrite E. apply (Hs b r0 H0).
  Qed.

  Lemma tstep_seen t o : GInv t -> in_window o -> seen_late (tcm t) -> seen_late (tcm (tstep timeout t o)).
  Proof.
    intros G Hw Hs. pose proof (g_cm t G) as Gc. destruct o; cbn [in_window op_time] in Hw.
    - exact Hs.
    - destruct (nth_error (tcar t) i) as [k|] eqn:Hk; [|cbn [tstep]; rewrite Hk; exact Hs].
      destruct (k_state k) eqn:Es; [| | |cbn [tstep]; rewrite Hk, Es; exact Hs].
      all: assert (Hal : k_state k <> K_Dead) by congruence;
           destruct (trecv_view timeout t i b now k Hk Hal) as (_ & _ & V3 & _ & _); cbn zeta in V3; rewrite V3;
           match goal with |- context [if ?c then _ else _] => destruct c end; try exact Hs;
           apply seen_send_queue; [exact Gc | lia | exact Hs].
    - exact Hs.
    - cbn [tstep]. pose proof (send_queue_inv (cid_key cid) now (tcm t) Gc) as L1.
      pose proof (seen_send_queue (cid_key cid) now (tcm t) Gc ltac:(lia) Hs) as H1.
      destruct (send_queue (cid_key cid) now (tcm t)) as [c1 q0]. cbn [fst] in *.
      pose proof (seen_q_send QUEUE_SIZE q0 p c1 L1 H1) as H2.
      destruct (q_send QUEUE_SIZE q0 p c1) as [c2 ok]. exact H2.
    - cbn [tstep]. destruct (nth_error (tcar t) i) as [k|]; [|exact Hs].
      destruct (nth_error (theld t) i) as [[q0|]|]; try exact Hs. destruct (k_state k); try exact Hs.
      pose proof (q_recv_inv q0 (tcm t) Gc) as R1. pose proof (seen_q_recv q0 (tcm t) Gc Hs) as H1.
      destruct (q_recv q0 (tcm t)) as [c1 r]. cbn [fst] in *.
      destruct r as [p| |]; [|exact Hs | exact H1].
      destruct (write_data p); [|exact H1].
      pose proof (seen_send_queue (cid_key (k_cid k)) now c1 R1 ltac:(lia) H1) as H2.
      destruct (send_queue (cid_key (k_cid k)) now c1) as [c2 q']. exact H2.
    - cbn [tstep]. destruct (trecvq t); exact Hs.
    - cbn [tstep tcm]. intros b r H. destruct (sweep_rec now timeout (tcm t) Gc) as (_ & _ & _ & W4 & _). cbn zeta in W4.
      destruct (W4 b r H) as [H0 _]. apply (Hs b r H0).
  Qed.

  Theorem window_is_fresh a : forall ops t, GInv t -> seen_late (tcm t) -> Forall in_window ops ->
    fresh_from timeout a t ops.
  Proof.
    induction ops as [|o ops IH]; intros t G Hs Hf; cbn [fresh_from]; [exact I|].
    inversion Hf as [|? ? Hw Hf']; subst. split.
    - destruct o; cbn [stale]; try (intros H0; exact H0). intros [r [Hr He]]. cbn [in_window op_time] in Hw.
      specialize (Hs a r Hr). unfold expired in He. rewrite Z.geb_leb in He. apply Z.leb_le in He. lia.
    - apply IH; [apply tstep_ginv; exact G | apply tstep_seen; assumption | exact Hf'].
  Qed.

  Corollary window_is_fresh_from_start a ops : Forall in_window ops -> fresh_from timeout a tinit ops.
  Proof. intros H. apply window_is_fresh; [apply ginv_init | intros b r Hr; discriminate | exact H]. Qed.
End Span.
