(* RendezvousProofs.v — proofs about Model/Rendezvous.v (C11: fronting, limits, AMP = POST). *)
From Coq Require Import List NArith ZArith Lia Bool Arith String.
From Coq Require Import ZifyN ZifyNat ZifyBool.
From Snow Require Import Lib.Wire Lib.AmpPathUtil Model.B64Url Model.AmpPath Model.CacheURL Model.Rendezvous.
From Snow Require Import Proofs.AmpPathProofs Proofs.CacheURLProofs Proofs.RendezvousPathProofs.
Import ListNotations.
Open Scope N_scope.
Notation length := List.length.

(* ---------- the bounded read ---------- *)

Lemma limited_read_ok : forall limit body d,
  limited_read limit body = Some d -> d = body /\ N.of_nat (length body) <= limit.
Proof.
  intros limit body d. unfold limited_read.
  destruct (N.of_nat (length (firstn (N.to_nat (limit + 1)) body)) =? limit + 1) eqn:E; [discriminate|].
  intros H. inversion H; subst. apply N.eqb_neq in E. rewrite firstn_length in E.
  assert (L : (length body < N.to_nat (limit + 1))%nat) by lia.
  split; [apply firstn_all2; lia|lia].
Qed.

Lemma limited_read_complete : forall limit body,
  N.of_nat (length body) <= limit -> limited_read limit body = Some body.
Proof.
  intros limit body H. unfold limited_read. rewrite firstn_all2 by lia.
  destruct (N.of_nat (length body) =? limit + 1) eqn:E; [apply N.eqb_eq in E; lia|reflexivity].
Qed.

Lemma limited_read_over : forall limit body,
  limit < N.of_nat (length body) -> limited_read limit body = None.
Proof.
  intros limit body H. destruct (limited_read limit body) eqn:E; [|reflexivity].
  apply limited_read_ok in E. lia.
Qed.

Lemma http_response_ok : forall limit status body d,
  http_response limit status body = Some d ->
  status = 200 /\ d = body /\ N.of_nat (length body) <= limit.
Proof.
  intros limit status body d. unfold http_response. destruct (status =? 200) eqn:E; [|discriminate].
  apply N.eqb_eq in E. intros H. apply limited_read_ok in H. tauto.
Qed.

Lemma http_response_non200 : forall limit status body, status <> 200 -> http_response limit status body = None.
Proof. intros. unfold http_response. destruct (status =? 200) eqn:E; [apply N.eqb_eq in E; congruence|reflexivity]. Qed.

Lemma http_response_complete : forall limit body,
  N.of_nat (length body) <= limit -> http_response limit 200 body = Some body.
Proof. intros. unfold http_response. cbn. apply limited_read_complete. assumption. Qed.

Section AmpRead.
  Variable armor_decode : bytes -> option bytes.

  Lemma amp_read_ok : forall limit body d,
    amp_read armor_decode limit body = Some d ->
    armor_decode body = Some d /\ N.of_nat (length body) <= limit.
  Proof.
    intros limit body d. unfold amp_read.
    destruct (armor_decode (firstn (N.to_nat (limit + 1)) body)) eqn:Ed; [|discriminate].
    destruct (N.of_nat (length (firstn (N.to_nat (limit + 1)) body)) =? limit + 1) eqn:E; [discriminate|].
    intros H. inversion H; subst. apply N.eqb_neq in E. rewrite firstn_length in E.
    assert (L : (length body < N.to_nat (limit + 1))%nat) by lia.
    rewrite firstn_all2 in Ed by lia. split; [assumption|lia].
  Qed.

  Lemma amp_read_complete : forall limit body d,
    armor_decode body = Some d -> N.of_nat (length body) <= limit ->
    amp_read armor_decode limit body = Some d.
  Proof.
    intros limit body d Hd Hl. unfold amp_read. rewrite firstn_all2 by lia. rewrite Hd.
    destruct (N.of_nat (length body) =? limit + 1) eqn:E; [apply N.eqb_eq in E; lia|reflexivity].
  Qed.

  Lemma amp_response_ok : forall limit status loc body d,
    amp_response armor_decode limit status loc body = Some d ->
    status = 200 /\ loc = false /\ armor_decode body = Some d /\ N.of_nat (length body) <= limit.
  Proof.
    intros limit status loc body d. unfold amp_response.
    destruct (status =? 200) eqn:E; cbn [negb]; [|discriminate]. apply N.eqb_eq in E.
    destruct loc; [discriminate|]. intros H. apply amp_read_ok in H. tauto.
  Qed.

  Lemma amp_response_non200 : forall limit status loc body,
    status <> 200 -> amp_response armor_decode limit status loc body = None.
  Proof.
    intros. unfold amp_response. destruct (status =? 200) eqn:E; [apply N.eqb_eq in E; congruence|reflexivity].
  Qed.

End AmpRead.

(* ---------- fronting ---------- *)

Section Fronting.

  Lemma with_front_set : forall front q, front <> [] ->
    q_connect_host (with_front front q) = front /\
    q_host_header (with_front front q) = q_connect_host q /\
    q_method (with_front front q) = q_method q /\ q_scheme (with_front front q) = q_scheme q /\
    q_path (with_front front q) = q_path q /\ q_rawquery (with_front front q) = q_rawquery q /\
    q_body (with_front front q) = q_body q.
  Proof. intros front q H. unfold with_front. rewrite beq_nil_false by assumption. cbn. repeat split. Qed.

  Lemma with_front_none : forall q, with_front [] q = q.
  Proof. reflexivity. Qed.

  Definition set_host (b : broker_url) (h : bytes) : broker_url :=
    {| b_scheme := b_scheme b; b_user := b_user b; b_host := h; b_hostname := b_hostname b;
       b_port := b_port b; b_epath := b_epath b |}.
  Definition erase_host_header (q : request) : request :=
    {| q_method := q_method q; q_scheme := q_scheme q; q_connect_host := q_connect_host q;
       q_host_header := []; q_path := q_path q; q_rawquery := q_rawquery q; q_body := q_body q |}.

  Lemma http_fronting : forall b front body, front <> [] ->
    let q := http_request b front body in
    q_connect_host q = front /\ q_host_header q = b_host b /\
    q_method q = bs "POST"%string /\ q_body q = Some body /\
    (* the broker's host appears nowhere but in the Host header *)
    (forall h, erase_host_header (http_request (set_host b h) front body) = erase_host_header q).
  Proof.
    intros b front body H q. subst q. unfold http_request, with_front.
    rewrite beq_nil_false by assumption. cbn. repeat split.
  Qed.

  Lemma http_no_front : forall b body,
    let q := http_request b [] body in
    q_connect_host q = b_host b /\ q_host_header q = b_host b.
  Proof. intros. split; reflexivity. Qed.

End Fronting.

Section Amp.
  Variable to_unicode : bytes -> option bytes.
  Variable to_ascii : bytes -> option bytes.
  Variable sha256 : bytes -> bytes.
  Variable h34 : bytes -> bool.

  Lemma amp_fronting : forall b cache front cb data q, front <> [] ->
    amp_request to_unicode to_ascii sha256 h34 b cache front cb data = Some q ->
    q_connect_host q = front /\ q_method q = bs "GET"%string /\ q_body q = None /\
    match cache with
    | None => q_host_header q = b_host b
    | Some cu =>
        exists r, cache_url to_unicode to_ascii sha256 h34 (amp_pub_url b cb data) cu (bs "c"%string) = Some r /\
                  q_host_header q = r_host r
    end.
  Proof.
    intros b cache front cb data q Hf. unfold amp_request. destruct cache as [cu|].
    - destruct (cache_url to_unicode to_ascii sha256 h34 (amp_pub_url b cb data) cu (bs "c"%string)) as [r|] eqn:E; [|discriminate].
      intros H. inversion H; subst. unfold with_front. rewrite beq_nil_false by assumption. cbn.
      repeat split. exists r. split; reflexivity.
    - intros H. inversion H; subst. unfold with_front. rewrite beq_nil_false by assumption. cbn. repeat split.
  Qed.

  (* without a cache the broker host is named only in the Host header, as for HTTP rendezvous *)
  Lemma amp_fronting_nocache_only_host_header : forall b front cb data h, front <> [] ->
    option_map erase_host_header (amp_request to_unicode to_ascii sha256 h34 (set_host b h) None front cb data) =
    option_map erase_host_header (amp_request to_unicode to_ascii sha256 h34 b None front cb data).
  Proof.
    intros. unfold amp_request, with_front. rewrite beq_nil_false by assumption. reflexivity.
  Qed.

  (* the request line carries the poll: path = <dir of broker path>amp/client/0<pad>/<base64url> *)
  Lemma amp_path_nocache : forall b front cb data q,
    amp_request to_unicode to_ascii sha256 h34 b None front cb data = Some q ->
    q_path q = resolve_path (b_epath b) (AMP_PREFIX ++ encode_path cb data).
  Proof.
    intros b front cb data q H. unfold amp_request in H. inversion H; subst.
    unfold with_front. destruct (beq front []); reflexivity.
  Qed.
End Amp.

(* ---------- broker: AMP endpoint = armored POST endpoint ---------- *)

Section Broker.
  Variable client_offers : bytes -> option bytes.
  Variable legacy_post : bytes -> http_reply.
  Variable armor : bytes -> bytes.
  Variable decode_error_response : option bytes.

  Lemma strip_prefix_app : forall pre s, strip_prefix pre (pre ++ s) = Some s.
  Proof. induction pre as [|a pre IH]; intros s; cbn; [reflexivity|]. rewrite N.eqb_refl. apply IH. Qed.

  Definition not_legacy (body : bytes) : Prop := match body with 123 :: _ => False | _ => True end.

  Lemma amp_equals_post : forall p body,
    decode_path p = POk body ->
    not_legacy body ->
    N.of_nat (length body) <= BROKER_READ_LIMIT ->
    let post := post_handler client_offers legacy_post body in
    let ampr := amp_handler client_offers armor decode_error_response (AMP_ROUTE ++ p) in
    (h_status post = 200 /\ ampr = {| h_status := 200; h_body := armor (h_body post) |}) \/
    (h_status post = 500 /\ ampr = {| h_status := 500; h_body := [] |}).
  Proof.
    intros p body Hd Hl Hn post ampr. subst post ampr. unfold amp_handler, post_handler.
    rewrite strip_prefix_app. rewrite Hd.
    destruct (BROKER_READ_LIMIT <? N.of_nat (length body)) eqn:E; [apply N.ltb_lt in E; lia|].
    destruct body as [|c body'].
    - destruct (client_offers []); [left|right]; split; reflexivity.
    - assert (Hc : c <> 123) by (intros X; subst; exact Hl).
      destruct c as [|pc]; [destruct (client_offers (0 :: body')); [left|right]; split; reflexivity|].
      destruct (N.eq_dec (N.pos pc) 123) as [X|X]; [congruence|].
      assert (G : forall A (x y : A), match N.pos pc with 123 => x | _ => y end = y).
      { intros. do 7 (destruct pc as [pc|pc|]; try reflexivity). congruence. }
      cbn [hd]. change (match N.pos pc :: body' with
                        | 123 :: _ => legacy_post (N.pos pc :: body')
                        | _ => match client_offers (N.pos pc :: body') with
                               | Some resp => {| h_status := 200; h_body := resp |}
                               | None => {| h_status := 500; h_body := [] |}
                               end
                        end)
        with (match N.pos pc with
              | 123 => legacy_post (N.pos pc :: body')
              | _ => match client_offers (N.pos pc :: body') with
                     | Some resp => {| h_status := 200; h_body := resp |}
                     | None => {| h_status := 500; h_body := [] |}
                     end
              end).
      rewrite G. destruct (client_offers (N.pos pc :: body')); [left|right]; split; reflexivity.
  Qed.

  (* end to end with the client's encoder: whatever the padding *)
  Lemma amp_equals_post_encoded : forall pad body,
    wf_bytes body -> not_legacy body -> N.of_nat (length body) <= BROKER_READ_LIMIT ->
    let post := post_handler client_offers legacy_post body in
    let ampr := amp_handler client_offers armor decode_error_response (AMP_ROUTE ++ encode_path_with_pad pad body) in
    (h_status post = 200 /\ ampr = {| h_status := 200; h_body := armor (h_body post) |}) \/
    (h_status post = 500 /\ ampr = {| h_status := 500; h_body := [] |}).
  Proof. intros. apply amp_equals_post; auto. apply path_roundtrip. assumption. Qed.

  (* every case of the two endpoints for one poll, without side conditions: the AMP endpoint never looks at the size
     or the first byte; the POST endpoint refuses bodies over the limit and sends '{'-leading bodies to the legacy shim *)
  Definition is_legacy_b (body : bytes) : bool := match body with 123 :: _ => true | _ => false end.

  Lemma not_legacy_match : forall A (body : bytes) (x y : A), is_legacy_b body = false ->
    match body with 123 :: _ => x | _ => y end = y.
  Proof.
    intros A body x y H. destruct body as [|c body']; [reflexivity|]. destruct c as [|pc]; [reflexivity|].
    do 7 (destruct pc as [pc|pc|]; try reflexivity). discriminate.
  Qed.

  Lemma legacy_match : forall A (body : bytes) (x y : A), is_legacy_b body = true ->
    match body with 123 :: _ => x | _ => y end = x.
  Proof.
    intros A body x y H. destruct body as [|c body']; [discriminate|]. destruct c as [|pc]; [discriminate|].
    do 7 (destruct pc as [pc|pc|]; try discriminate). reflexivity.
  Qed.

  Lemma amp_post_cases : forall p body,
    decode_path p = POk body ->
    let post := post_handler client_offers legacy_post body in
    let ampr := amp_handler client_offers armor decode_error_response (AMP_ROUTE ++ p) in
    ampr = match client_offers body with
           | Some r => {| h_status := 200; h_body := armor r |}
           | None => {| h_status := 500; h_body := [] |}
           end /\
    (BROKER_READ_LIMIT < N.of_nat (length body) -> post = {| h_status := 400; h_body := [] |}) /\
    (N.of_nat (length body) <= BROKER_READ_LIMIT -> is_legacy_b body = true -> post = legacy_post body) /\
    (N.of_nat (length body) <= BROKER_READ_LIMIT -> is_legacy_b body = false ->
       post = match client_offers body with
              | Some r => {| h_status := 200; h_body := r |}
              | None => {| h_status := 500; h_body := [] |}
              end).
  Proof.
    intros p body Hd post ampr. subst post ampr. unfold amp_handler, post_handler. rewrite strip_prefix_app, Hd.
    split; [destruct (client_offers body); reflexivity|]. split; [|split].
    - intros H. apply N.ltb_lt in H. rewrite H. reflexivity.
    - intros H L. replace (BROKER_READ_LIMIT <? N.of_nat (length body)) with false by (symmetry; apply N.ltb_ge; exact H).
      apply legacy_match. exact L.
    - intros H L. replace (BROKER_READ_LIMIT <? N.of_nat (length body)) with false by (symmetry; apply N.ltb_ge; exact H).
      apply not_legacy_match. exact L.
  Qed.

  (* an undecodable path is answered with the armored error response, status 200 *)
  Lemma amp_undecodable : forall p e r,
    decode_path p = PErr e -> decode_error_response = Some r ->
    amp_handler client_offers armor decode_error_response (AMP_ROUTE ++ p) = {| h_status := 200; h_body := armor r |}.
  Proof. intros p e r Hd Hr. unfold amp_handler. rewrite strip_prefix_app, Hd, Hr. reflexivity. Qed.
End Broker.

(* ---------- end to end: client -> AMP cache URL -> broker's AMP route ---------- *)

Section EndToEnd.
  Variable to_unicode : bytes -> option bytes.
  Variable to_ascii : bytes -> option bytes.
  Variable sha256 : bytes -> bytes.
  Variable h34 : bytes -> bool.

  Lemma upto_last_snoc : forall sep l, upto_last sep (l ++ [sep]) = l ++ [sep].
  Proof.
    intros sep. induction l as [|c l IH]; cbn [app upto_last].
    - rewrite N.eqb_refl. reflexivity.
    - rewrite IH. destruct (l ++ [sep]) eqn:E; [destruct l; discriminate|reflexivity].
  Qed.

  Lemma u_encode_nonempty : forall d, d <> [] -> u_encode d <> [].
  Proof. intros [|a [|b [|c r]]] H; try congruence; cbn [u_encode]; discriminate. Qed.

  Lemma dot_not_in_alphabet : ~ in_alphabet DOTC.
  Proof. unfold in_alphabet. vm_compute. congruence. Qed.

  Lemma alphabet_seg_normal : forall s, s <> [] -> Forall in_alphabet s -> normal_seg s.
  Proof.
    intros s Hne F. rewrite Forall_forall in F. repeat split; auto.
    - intros H. apply (slash_not_in_alphabet (F _ H)).
    - intros E. subst. apply dot_not_in_alphabet. apply F. left. reflexivity.
    - intros E. subst. apply dot_not_in_alphabet. apply F. left. reflexivity.
  Qed.

  (* the two segments of an encoded path *)
  Definition enc_seg1 (cb : bytes) : bytes := ZERO_CH :: u_encode cb.

  Lemma enc_seg1_normal : forall cb, normal_seg (enc_seg1 cb).
  Proof.
    intros cb. apply alphabet_seg_normal; [discriminate|].
    apply Forall_cons; [unfold in_alphabet; vm_compute; congruence|apply u_encode_alphabet].
  Qed.

  Lemma encode_path_segments : forall cb data,
    SLASHC :: encode_path cb data = abs_path [enc_seg1 cb; u_encode data].
  Proof.
    intros. unfold encode_path, encode_path_with_pad, abs_path, enc_seg1. cbn [flat_map app].
    rewrite app_nil_r. reflexivity.
  Qed.

  Definition amp_segs (cb data : bytes) : list bytes :=
    [bs "amp"%string; bs "client"%string; enc_seg1 cb; u_encode data].

  Lemma amp_segs_normal : forall cb data, data <> [] -> Forall normal_seg (amp_segs cb data).
  Proof.
    intros cb data H. unfold amp_segs.
    apply Forall_cons; [repeat split; try discriminate; vm_compute; intuition discriminate|].
    apply Forall_cons; [repeat split; try discriminate; vm_compute; intuition discriminate|].
    apply Forall_cons; [apply enc_seg1_normal|].
    apply Forall_cons; [|apply Forall_nil].
    apply alphabet_seg_normal; [apply u_encode_nonempty; assumption|apply u_encode_alphabet].
  Qed.

  Lemma abs_amp_segs : forall cb data, abs_path (amp_segs cb data) = AMP_ROUTE ++ encode_path cb data.
  Proof.
    intros. unfold abs_path, amp_segs, enc_seg1, encode_path, encode_path_with_pad. cbn [flat_map]. rewrite app_nil_r.
    reflexivity.
  Qed.

  Lemma normal_nodot : forall s, normal_seg s -> nodot s.
  Proof. intros s [_ [_ [H1 H2]]]. split; [unfold is_dot|unfold is_dotdot]; apply beq_neq; assumption. Qed.

  Lemma alphabet_nodot : forall s, Forall in_alphabet s -> nodot s.
  Proof.
    intros s F. rewrite Forall_forall in F. split.
    - unfold is_dot. apply beq_neq. intros E. subst. apply dot_not_in_alphabet. apply F. left. reflexivity.
    - unfold is_dotdot. apply beq_neq. intros E. subst. apply dot_not_in_alphabet. apply F. left. reflexivity.
  Qed.

  Lemma alphabet_noslash : forall s, Forall in_alphabet s -> ~ In SLASHC s.
  Proof. intros s F H. rewrite Forall_forall in F. apply (slash_not_in_alphabet (F _ H)). Qed.

  (* the relative reference of the AMP rendezvous, segment by segment (the last one is empty for an empty poll) *)
  Lemma split_amp_ref : forall cb data, split_on SLASHC (AMP_PREFIX ++ encode_path cb data) = amp_segs cb data.
  Proof.
    intros. unfold amp_segs.
    change (AMP_PREFIX ++ encode_path cb data)
      with (bs "amp"%string ++ SLASHC :: (bs "client"%string ++ SLASHC :: (enc_seg1 cb ++ SLASHC :: u_encode data))).
    rewrite !split_on_app.
    rewrite (split_on_nosep SLASHC (bs "amp"%string)) by (vm_compute; intuition discriminate).
    rewrite (split_on_nosep SLASHC (bs "client"%string)) by (vm_compute; intuition discriminate).
    rewrite (split_on_nosep SLASHC (enc_seg1 cb)) by (apply enc_seg1_normal).
    rewrite (split_on_nosep SLASHC (u_encode data)) by (apply alphabet_noslash, u_encode_alphabet).
    reflexivity.
  Qed.

  Lemma amp_segs_nodot : forall cb data, Forall nodot (amp_segs cb data).
  Proof.
    intros. unfold amp_segs.
    apply Forall_cons; [split; reflexivity|]. apply Forall_cons; [split; reflexivity|].
    apply Forall_cons; [apply normal_nodot, enc_seg1_normal|]. apply Forall_cons; [apply alphabet_nodot, u_encode_alphabet|apply Forall_nil].
  Qed.

  (* broker base path "/b1/…/bk/" (k >= 0) without dot segments: the AMP endpoint URL's path *)
  Lemma amp_pub_path : forall b bsegs cb data,
    Forall normal_seg bsegs ->
    b_epath b = abs_path bsegs ++ [SLASHC] ->
    p_epath (amp_pub_url b cb data) = abs_path (bsegs ++ amp_segs cb data).
  Proof.
    intros b bsegs cb data Fb Hb. unfold amp_pub_url. cbn [p_epath].
    change (AMP_PREFIX ++ encode_path cb data) with (97 :: (tl AMP_PREFIX ++ encode_path cb data)).
    rewrite resolve_path_nodots.
    - change (97 :: (tl AMP_PREFIX ++ encode_path cb data)) with (AMP_PREFIX ++ encode_path cb data).
      unfold resolve_rel. rewrite Hb. rewrite upto_last_snoc.
      assert (E : (abs_path bsegs ++ [SLASHC]) ++ AMP_PREFIX ++ encode_path cb data = abs_path (bsegs ++ amp_segs cb data)).
      { unfold abs_path. rewrite flat_map_app. rewrite <- app_assoc. f_equal.
        unfold amp_segs, enc_seg1, encode_path, encode_path_with_pad. cbn [flat_map]. rewrite app_nil_r.
        reflexivity. }
      rewrite E. unfold lead_slash. destruct bsegs; reflexivity.
    - unfold SLASHC. discriminate.
    - change (97 :: (tl AMP_PREFIX ++ encode_path cb data)) with (AMP_PREFIX ++ encode_path cb data).
      rewrite Hb, upto_last_snoc. rewrite <- app_assoc. cbn [app].
      change (abs_path bsegs ++ SLASHC :: AMP_PREFIX ++ encode_path cb data)
        with ([] ++ abs_path bsegs ++ SLASHC :: (AMP_PREFIX ++ encode_path cb data)).
      rewrite split_abs_normal by assumption. rewrite split_amp_ref.
      apply Forall_app. split; [apply Forall_cons; [apply nodot_nil|apply Forall_nil]|].
      apply Forall_app. split; [|apply amp_segs_nodot].
      eapply Forall_impl; [|exact Fb]. apply normal_nodot.
  Qed.

  (* Through an AMP cache: the request path is
       /<cache path>/c[/s]/<broker host>/<broker path>/amp/client/0<pad>/<base64url(poll)>
     and what follows the broker's /amp/client/ route decodes to the poll. *)
  Lemma amp_cache_end_to_end : forall b cu csegs bsegs (trailing : bool) front cb data q,
    wf_bytes data -> data <> [] ->
    Forall normal_seg csegs -> Forall normal_seg bsegs ->
    c_epath cu = abs_path csegs ++ (if trailing then [SLASHC] else []) ->
    b_epath b = abs_path bsegs ++ [SLASHC] ->
    b_hostname b <> [DOTC] -> b_hostname b <> [DOTC; DOTC] ->
    amp_request to_unicode to_ascii sha256 h34 b (Some cu) front cb data = Some q ->
    q_path q = abs_path (csegs ++ middle (amp_pub_url b cb data) ++ bsegs ++ amp_segs cb data) /\
    (exists pre, q_path q = pre ++ AMP_ROUTE ++ encode_path cb data) /\
    decode_path (encode_path cb data) = POk data.
  Proof.
    intros b cu csegs bsegs trailing front cb data q W Hne Fc Fb Hc Hb Hd1 Hd2 Hq.
    unfold amp_request in Hq.
    destruct (cache_url to_unicode to_ascii sha256 h34 (amp_pub_url b cb data) cu (bs "c"%string)) as [r|] eqn:E; [|discriminate].
    apply cache_url_some in E. destruct E as [_ [_ [_ [_ [Hh [_ [_ [_ Er]]]]]]]].
    assert (Fp : Forall normal_seg (bsegs ++ amp_segs cb data)).
    { apply Forall_app. split; [assumption|apply amp_segs_normal; assumption]. }
    pose proof (amp_pub_path b bsegs cb data Fb Hb) as Hp.
    destruct (cache_path_shape (amp_pub_url b cb data) cu csegs (bsegs ++ amp_segs cb data) trailing Fc Fp Hc Hp Hh Hd1 Hd2)
      as [S1 S2].
    assert (QP : q_path q = lead_slash (r_rawpath r)).
    { inversion Hq. unfold with_front. destruct (beq front []); reflexivity. }
    assert (P : q_path q = abs_path (csegs ++ middle (amp_pub_url b cb data) ++ bsegs ++ amp_segs cb data)).
    { rewrite QP. subst r. cbn [r_rawpath]. destruct (c_epath cu) as [|c0 cp] eqn:Ecp.
      - specialize (S2 eq_refl).
        assert (csegs = []).
        { destruct csegs as [|s ss]; [reflexivity|]. cbn in Hc. destruct trailing; discriminate. }
        subst csegs. cbn [app]. rewrite <- S2.
        assert (NS : forall x, SLASHC :: x = abs_path (middle (amp_pub_url b cb data) ++ bsegs ++ amp_segs cb data) ->
                     lead_slash x = SLASHC :: x).
        { intros x Hx. unfold middle in Hx. cbn in Hx. inversion Hx as [Hx']. reflexivity. }
        apply NS. assumption.
      - assert (Hn : c0 :: cp <> []) by discriminate. specialize (S1 Hn). rewrite S1.
        destruct csegs as [|s ss]; [unfold middle|]; reflexivity. }
    split; [exact P|]. split.
    - rewrite P. exists (abs_path (csegs ++ middle (amp_pub_url b cb data) ++ bsegs)).
      rewrite <- abs_amp_segs. unfold abs_path. rewrite <- flat_map_app. rewrite <- !app_assoc. reflexivity.
    - apply path_roundtrip_encoder. assumption.
  Qed.
  (* ---- the same for ANY broker path and ANY rooted (or empty) cache path: dot segments, empty segments, no trailing slash ---- *)

  Lemma filter_nonempty_amp_segs : forall cb data, data <> [] -> filter nonempty (amp_segs cb data) = amp_segs cb data.
  Proof.
    intros cb data H. pose proof (amp_segs_normal cb data H) as F. induction F as [|s l Hs F IH]; [reflexivity|].
    cbn [filter]. rewrite nonempty_normal by assumption. rewrite IH. reflexivity.
  Qed.

  Lemma amp_request_cache_path : forall b cu front cb data q,
    (c_epath cu = [] \/ exists cp, c_epath cu = SLASHC :: cp) ->
    b_hostname b <> [DOTC] -> b_hostname b <> [DOTC; DOTC] ->
    amp_request to_unicode to_ascii sha256 h34 b (Some cu) front cb data = Some q ->
    exists pre0,
      p_epath (amp_pub_url b cb data) = pre0 ++ SLASHC :: AMP_PREFIX ++ encode_path cb data /\
      q_path q = abs_path (clean_segs true (split_on SLASHC (c_epath cu)) [] ++ middle (amp_pub_url b cb data) ++
                           filter nonempty (split_on SLASHC pre0) ++ filter nonempty (amp_segs cb data)).
  Proof.
    intros b cu front cb data q Hc Hd1 Hd2 Hq. unfold amp_request in Hq.
    destruct (cache_url to_unicode to_ascii sha256 h34 (amp_pub_url b cb data) cu (bs "c"%string)) as [r|] eqn:E; [|discriminate].
    apply cache_url_some in E. destruct E as [_ [_ [_ [_ [Hh [_ [_ [_ Er]]]]]]]].
    assert (QP : q_path q = lead_slash (r_rawpath r)).
    { inversion Hq. unfold with_front. destruct (beq front []); reflexivity. }
    pose proof (resolve_path_dotfree (b_epath b) (AMP_PREFIX ++ encode_path cb data)) as DF.
    assert (Fdd : Forall (fun s => is_dotdot s = false) (split_on SLASHC (p_epath (amp_pub_url b cb data)))).
    { cbn [amp_pub_url p_epath]. eapply Forall_impl; [|exact DF]. intros a [_ H]. exact H. }
    pose proof (cache_path_general (amp_pub_url b cb data) cu Hc Hh Hd1 Hd2 Fdd) as G.
    rewrite nodot_keep_nonempty in G by exact DF.
    destruct (resolve_path_keeps_ref (b_epath b) 97 (tl AMP_PREFIX ++ encode_path cb data)) as [pre0 Hp].
    { unfold SLASHC. discriminate. }
    { change (97 :: (tl AMP_PREFIX ++ encode_path cb data)) with (AMP_PREFIX ++ encode_path cb data).
      rewrite split_amp_ref. apply amp_segs_nodot. }
    change (97 :: (tl AMP_PREFIX ++ encode_path cb data)) with (AMP_PREFIX ++ encode_path cb data) in Hp.
    exists pre0. split; [exact Hp|].
    rewrite QP. subst r. cbn [r_rawpath]. rewrite G. cbn [amp_pub_url p_epath]. rewrite Hp.
    rewrite split_on_app, filter_app, split_amp_ref. reflexivity.
  Qed.

  (* no input loses the poll: whatever the broker URL's path and the cache URL's path, the request path ends in the
     broker's AMP route followed by the encoded poll; of the broker's own path only empty segments disappear
     (ResolveReference has already resolved its dot segments), of the cache's path what path.Clean removes *)
  Lemma amp_cache_end_to_end_general : forall b cu front cb data q,
    wf_bytes data -> data <> [] ->
    (c_epath cu = [] \/ exists cp, c_epath cu = SLASHC :: cp) ->
    b_hostname b <> [DOTC] -> b_hostname b <> [DOTC; DOTC] ->
    amp_request to_unicode to_ascii sha256 h34 b (Some cu) front cb data = Some q ->
    q_path q = abs_path (clean_segs true (split_on SLASHC (c_epath cu)) [] ++ middle (amp_pub_url b cb data) ++
                         filter nonempty (split_on SLASHC (p_epath (amp_pub_url b cb data)))) /\
    Forall nodot (split_on SLASHC (p_epath (amp_pub_url b cb data))) /\
    (exists pre, q_path q = pre ++ AMP_ROUTE ++ encode_path cb data) /\
    decode_path (encode_path cb data) = POk data.
  Proof.
    intros b cu front cb data q W Hne Hc Hd1 Hd2 Hq.
    destruct (amp_request_cache_path b cu front cb data q Hc Hd1 Hd2 Hq) as [pre0 [Hp P]].
    split; [|split; [apply resolve_path_dotfree|split]].
    - rewrite P, Hp. rewrite split_on_app, filter_app, split_amp_ref. reflexivity.
    - rewrite P. rewrite filter_nonempty_amp_segs by assumption.
      exists (abs_path (clean_segs true (split_on SLASHC (c_epath cu)) [] ++ middle (amp_pub_url b cb data) ++ filter nonempty (split_on SLASHC pre0))).
      rewrite <- abs_amp_segs. unfold abs_path. rewrite <- flat_map_app. rewrite <- !app_assoc. reflexivity.
    - apply path_roundtrip_encoder. assumption.
  Qed.

  (* the one input whose encoded path does not survive an AMP cache: the empty poll. Its path ends in "/", the empty last
     segment is removed by path.Join inside CacheURL, and what is left after the broker's route has no slash at all:
     the broker answers "missing data". (By design - see cache_test.go; a client poll is never empty.) *)
  Lemma amp_cache_empty_poll : forall b cu front cb q,
    (c_epath cu = [] \/ exists cp, c_epath cu = SLASHC :: cp) ->
    b_hostname b <> [DOTC] -> b_hostname b <> [DOTC; DOTC] ->
    amp_request to_unicode to_ascii sha256 h34 b (Some cu) front cb [] = Some q ->
    (exists pre, q_path q = pre ++ AMP_ROUTE ++ enc_seg1 cb) /\ decode_path (enc_seg1 cb) = PErr MissingData /\
    decode_path (encode_path cb []) = POk [].
  Proof.
    intros b cu front cb q Hc Hd1 Hd2 Hq.
    destruct (amp_request_cache_path b cu front cb [] q Hc Hd1 Hd2 Hq) as [pre0 [Hp P]].
    split; [|split].
    - rewrite P.
      assert (F : filter nonempty (amp_segs cb []) = [bs "amp"%string; bs "client"%string; enc_seg1 cb]).
      { unfold amp_segs. cbn [filter u_encode]. change (nonempty (bs "amp"%string)) with true. change (nonempty (bs "client"%string)) with true.
        change (nonempty []) with false. unfold enc_seg1. change (nonempty (ZERO_CH :: u_encode cb)) with true. reflexivity. }
      rewrite F.
      exists (abs_path (clean_segs true (split_on SLASHC (c_epath cu)) [] ++ middle (amp_pub_url b cb []) ++ filter nonempty (split_on SLASHC pre0))).
      unfold abs_path. rewrite !flat_map_app. cbn [flat_map]. rewrite app_nil_r. rewrite <- !app_assoc. reflexivity.
    - apply path_outcomes. exists (u_encode cb). split; [reflexivity|]. apply alphabet_noslash, u_encode_alphabet.
    - apply path_roundtrip_encoder. apply Forall_nil.
  Qed.
End EndToEnd.

