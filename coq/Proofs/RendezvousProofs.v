(* RendezvousProofs.v — proofs about Model/Rendezvous.v (C11: fronting, limits, AMP = POST). *)
From Coq Require Import List NArith ZArith Lia Bool Arith String.
From Coq Require Import ZifyN ZifyNat ZifyBool.
From Snow Require Import Lib.Wire Lib.AmpPathUtil Model.B64Url Model.AmpPath Model.CacheURL Model.Rendezvous.
From Snow Require Import Proofs.AmpPathProofs.
Import ListNotations.
Open Scope N_scope.
Notation length := List.length.

(* ---------- the bounded read ---------- *)

Lemma limited_read_ok : forall limit body d,
  limited_read limit body = Some d -> d = body /\ N.of_nat (length body) <= limit.
Proof.
  intros limit body d. unfold limited_read.
  destruct (N.of_nat (length (firstn (N.to_nat (limit + 1)) body)) =? limit + 1) eqn:E; [discriminate|].
  intros H. inversion H; subst. apply N.eqb_neq in E. rewrite firstn_length in E.
  assert (L : (length body < N.to_nat (limit + 1))%nat) by lia.
  split; [apply firstn_all2; lia|lia].
Qed.

Lemma limited_read_complete : forall limit body,
  N.of_nat (length body) <= limit -> limited_read limit body = Some body.
Proof.
  intros limit body H. unfold limited_read. rewrite firstn_all2 by lia.
  destruct (N.of_nat (length body) =? limit + 1) eqn:E; [apply N.eqb_eq in E; lia|reflexivity].
Qed.

Lemma limited_read_over : forall limit body,
  limit < N.of_nat (length body) -> limited_read limit body = None.
Proof.
  intros limit body H. destruct (limited_read limit body) eqn:E; [|reflexivity].
  apply limited_read_ok in E. lia.
Qed.

Lemma http_response_ok : forall limit status body d,
  http_response limit status body = Some d ->
  status = 200 /\ d = body /\ N.of_nat (length body) <= limit.
Proof.
  intros limit status body d. unfold http_response. destruct (status =? 200) eqn:E; [|discriminate].
  apply N.eqb_eq in E. intros H. apply limited_read_ok in H. tauto.
Qed.

Lemma http_response_non200 : forall limit status body, status <> 200 -> http_response limit status body = None.
Proof. intros. unfold http_response. destruct (status =? 200) eqn:E; [apply N.eqb_eq in E; congruence|reflexivity]. Qed.

Lemma http_response_complete : forall limit body,
  N.of_nat (length body) <= limit -> http_response limit 200 body = Some body.
Proof. intros. unfold http_response. cbn. apply limited_read_complete. assumption. Qed.

Section AmpRead.
  Variable armor_decode : bytes -> option bytes.

  Lemma amp_read_ok : forall limit body d,
    amp_read armor_decode limit body = Some d ->
    armor_decode body = Some d /\ N.of_nat (length body) <= limit.
  Proof.
    intros limit body d. unfold amp_read.
    destruct (armor_decode (firstn (N.to_nat (limit + 1)) body)) eqn:Ed; [|discriminate].
    destruct (N.of_nat (length (firstn (N.to_nat (limit + 1)) body)) =? limit + 1) eqn:E; [discriminate|].
    intros H. inversion H; subst. apply N.eqb_neq in E. rewrite firstn_length in E.
    assert (L : (length body < N.to_nat (limit + 1))%nat) by lia.
    rewrite firstn_all2 in Ed by lia. split; [assumption|lia].
  Qed.

  Lemma amp_read_complete : forall limit body d,
    armor_decode body = Some d -> N.of_nat (length body) <= limit ->
    amp_read armor_decode limit body = Some d.
  Proof.
    intros limit body d Hd Hl. unfold amp_read. rewrite firstn_all2 by lia. rewrite Hd.
    destruct (N.of_nat (length body) =? limit + 1) eqn:E; [apply N.eqb_eq in E; lia|reflexivity].
  Qed.

  Lemma amp_response_ok : forall limit status loc body d,
    amp_response armor_decode limit status loc body = Some d ->
    status = 200 /\ loc = false /\ armor_decode body = Some d /\ N.of_nat (length body) <= limit.
  Proof.
    intros limit status loc body d. unfold amp_response.
    destruct (status =? 200) eqn:E; cbn [negb]; [|discriminate]. apply N.eqb_eq in E.
    destruct loc; [discriminate|]. intros H. apply amp_read_ok in H. tauto.
  Qed.

  Lemma amp_response_non200 : forall limit status loc body,
    status <> 200 -> amp_response armor_decode limit status loc body = None.
  Proof.
    intros. unfold amp_response. destruct (status =? 200) eqn:E; [apply N.eqb_eq in E; congruence|reflexivity].
  Qed.

End AmpRead.

(* ---------- fronting ---------- *)

Section Fronting.

  Lemma with_front_set : forall front q, front <> [] ->
    q_connect_host (with_front front q) = front /\
    q_host_header (with_front front q) = q_connect_host q /\
    q_method (with_front front q) = q_method q /\ q_scheme (with_front front q) = q_scheme q /\
    q_path (with_front front q) = q_path q /\ q_rawquery (with_front front q) = q_rawquery q /\
    q_body (with_front front q) = q_body q.
  Proof. intros front q H. unfold with_front. rewrite beq_nil_false by assumption. cbn. repeat split. Qed.

  Lemma with_front_none : forall q, with_front [] q = q.
  Proof. reflexivity. Qed.

  Definition set_host (b : broker_url) (h : bytes) : broker_url :=
    {| b_scheme := b_scheme b; b_user := b_user b; b_host := h; b_hostname := b_hostname b;
       b_port := b_port b; b_epath := b_epath b |}.
  Definition erase_host_header (q : request) : request :=
    {| q_method := q_method q; q_scheme := q_scheme q; q_connect_host := q_connect_host q;
       q_host_header := []; q_path := q_path q; q_rawquery := q_rawquery q; q_body := q_body q |}.

  Lemma http_fronting : forall b front body, front <> [] ->
    let q := http_request b front body in
    q_connect_host q = front /\ q_host_header q = b_host b /\
    q_method q = bs "POST"%string /\ q_body q = Some body /\
    (* the broker's host appears nowhere but in the Host header *)
    (forall h, erase_host_header (http_request (set_host b h) front body) = erase_host_header q).
  Proof.
    intros b front body H q. subst q. unfold http_request, with_front.
    rewrite beq_nil_false by assumption. cbn. repeat split.
  Qed.

  Lemma http_no_front : forall b body,
    let q := http_request b [] body in
    q_connect_host q = b_host b /\ q_host_header q = b_host b.
  Proof. intros. split; reflexivity. Qed.

End Fronting.

Section Amp.
  Variable to_unicode : bytes -> option bytes.
  Variable to_ascii : bytes -> option bytes.
  Variable sha256 : bytes -> bytes.
  Variable h34 : bytes -> bool.

  Lemma amp_fronting : forall b cache front cb data q, front <> [] ->
    amp_request to_unicode to_ascii sha256 h34 b cache front cb data = Some q ->
    q_connect_host q = front /\ q_method q = bs "GET"%string /\ q_body q = None /\
    match cache with
    | None => q_host_header q = b_host b
    | Some cu =>
        exists r, cache_url to_unicode to_ascii sha256 h34 (amp_pub_url b cb data) cu (bs "c"%string) = Some r /\
                  q_host_header q = r_host r
    end.
  Proof.
    intros b cache front cb data q Hf. unfold amp_request. destruct cache as [cu|].
    - destruct (cache_url to_unicode to_ascii sha256 h34 (amp_pub_url b cb data) cu (bs "c"%string)) as [r|] eqn:E; [|discriminate].
      intros H. inversion H; subst. unfold with_front. rewrite beq_nil_false by assumption. cbn.
      repeat split. exists r. split; reflexivity.
    - intros H. inversion H; subst. unfold with_front. rewrite beq_nil_false by assumption. cbn. repeat split.
  Qed.

  (* without a cache the broker host is named only in the Host header, as for HTTP rendezvous *)
  Lemma amp_fronting_nocache_only_host_header : forall b front cb data h, front <> [] ->
    option_map erase_host_header (amp_request to_unicode to_ascii sha256 h34 (set_host b h) None front cb data) =
    option_map erase_host_header (amp_request to_unicode to_ascii sha256 h34 b None front cb data).
  Proof.
    intros. unfold amp_request, with_front. rewrite beq_nil_false by assumption. reflexivity.
  Qed.

  (* the request line carries the poll: path = <dir of broker path>amp/client/0<pad>/<base64url> *)
  Lemma amp_path_nocache : forall b front cb data q,
    amp_request to_unicode to_ascii sha256 h34 b None front cb data = Some q ->
    q_path q = resolve_rel (b_epath b) (AMP_PREFIX ++ encode_path cb data).
  Proof.
    intros b front cb data q H. unfold amp_request in H. inversion H; subst.
    unfold with_front. destruct (beq front []); reflexivity.
  Qed.
End Amp.

(* ---------- broker: AMP endpoint = armored POST endpoint ---------- *)

Section Broker.
  Variable client_offers : bytes -> option bytes.
  Variable legacy_post : bytes -> http_reply.
  Variable armor : bytes -> bytes.
  Variable decode_error_response : option bytes.

  Lemma strip_prefix_app : forall pre s, strip_prefix pre (pre ++ s) = Some s.
  Proof. induction pre as [|a pre IH]; intros s; cbn; [reflexivity|]. rewrite N.eqb_refl. apply IH. Qed.

  Definition not_legacy (body : bytes) : Prop := match body with 123 :: _ => False | _ => True end.

  Lemma amp_equals_post : forall p body,
    decode_path p = POk body ->
    not_legacy body ->
    N.of_nat (length body) <= BROKER_READ_LIMIT ->
    let post := post_handler client_offers legacy_post body in
    let ampr := amp_handler client_offers armor decode_error_response (AMP_ROUTE ++ p) in
    (h_status post = 200 /\ ampr = {| h_status := 200; h_body := armor (h_body post) |}) \/
    (h_status post = 500 /\ ampr = {| h_status := 500; h_body := [] |}).
  Proof.
    intros p body Hd Hl Hn post ampr. subst post ampr. unfold amp_handler, post_handler.
    rewrite strip_prefix_app. rewrite Hd.
    destruct (BROKER_READ_LIMIT <? N.of_nat (length body)) eqn:E; [apply N.ltb_lt in E; lia|].
    destruct body as [|c body'].
    - destruct (client_offers []); [left|right]; split; reflexivity.
    - assert (Hc : c <> 123) by (intros X; subst; exact Hl).
      destruct c as [|pc]; [destruct (client_offers (0 :: body')); [left|right]; split; reflexivity|].
      destruct (N.eq_dec (N.pos pc) 123) as [X|X]; [congruence|].
      assert (G : forall A (x y : A), match N.pos pc with 123 => x | _ => y end = y).
      { intros. do 7 (destruct pc as [pc|pc|]; try reflexivity). congruence. }
      cbn [hd]. change (match N.pos pc :: body' with
                        | 123 :: _ => legacy_post (N.pos pc :: body')
                        | _ => match client_offers (N.pos pc :: body') with
                               | Some resp => {| h_status := 200; h_body := resp |}
                               | None => {| h_status := 500; h_body := [] |}
                               end
                        end)
        with (match N.pos pc with
              | 123 => legacy_post (N.pos pc :: body')
              | _ => match client_offers (N.pos pc :: body') with
                     | Some resp => {| h_status := 200; h_body := resp |}
                     | None => {| h_status := 500; h_body := [] |}
                     end
              end).
      rewrite G. destruct (client_offers (N.pos pc :: body')); [left|right]; split; reflexivity.
  Qed.

  (* end to end with the client's encoder: whatever the padding *)
  Lemma amp_equals_post_encoded : forall pad body,
    wf_bytes body -> not_legacy body -> N.of_nat (length body) <= BROKER_READ_LIMIT ->
    let post := post_handler client_offers legacy_post body in
    let ampr := amp_handler client_offers armor decode_error_response (AMP_ROUTE ++ encode_path_with_pad pad body) in
    (h_status post = 200 /\ ampr = {| h_status := 200; h_body := armor (h_body post) |}) \/
    (h_status post = 500 /\ ampr = {| h_status := 500; h_body := [] |}).
  Proof. intros. apply amp_equals_post; auto. apply path_roundtrip. assumption. Qed.

  (* an undecodable path is answered with the armored error response, status 200 *)
  Lemma amp_undecodable : forall p e r,
    decode_path p = PErr e -> decode_error_response = Some r ->
    amp_handler client_offers armor decode_error_response (AMP_ROUTE ++ p) = {| h_status := 200; h_body := armor r |}.
  Proof. intros p e r Hd Hr. unfold amp_handler. rewrite strip_prefix_app, Hd, Hr. reflexivity. Qed.
End Broker.
