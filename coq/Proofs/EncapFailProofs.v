(* EncapFailProofs.v — a failing reader changes only the label of the final error (Model/EncapFail.v). *)
From Coq Require Import List NArith Bool Arith Lia.
From Snow Require Import Lib.Wire Model.Encap Model.EncapFail Proofs.EncapProofs.
Import ListNotations.
Open Scope N_scope.

Definition rrel (r : rres) : rresx :=
  match r with ROk a b c => ROkX a b c | RErr _ => RErrX end.

Lemma read_full_x_rel : forall sc n acc rem, read_full_x sc n acc rem = rrel (read_full sc n acc rem).
Proof.
  induction sc as [|[m fl] sc IH]; intros n acc rem.
  - destruct n as [|n]; [reflexivity|]. destruct rem as [|b rem]; [reflexivity|].
    cbn [read_full read_full_x]. cbv zeta.
    destruct (length (firstn (S n) (b :: rem)) <? S n)%nat; reflexivity.
  - destruct n as [|n]; [reflexivity|]. destruct rem as [|b rem]; [reflexivity|].
    cbn [read_full read_full_x]. cbv zeta.
    destruct (S n - length (firstn (Nat.min m (S n)) (b :: rem)))%nat as [|n'] eqn:En; [reflexivity|].
    destruct (skipn (Nat.min m (S n)) (b :: rem)) as [|b' rem'] eqn:Es.
    + destruct fl; [reflexivity | apply IH].
    + apply IH.
Qed.

Lemma read_full_err_kind : forall sc n acc rem e, read_full sc n acc rem = RErr e -> e <> TooLong.
Proof.
  induction sc as [|[m fl] sc IH]; intros n acc rem e.
  - destruct n as [|n]; [discriminate|]. destruct rem as [|b rem].
    + cbn [read_full]. intros H; inversion H. destruct acc; discriminate.
    + cbn [read_full]. cbv zeta.
      destruct (length (firstn (S n) (b :: rem)) <? S n)%nat; intros H; inversion H; discriminate.
  - destruct n as [|n]; [discriminate|]. destruct rem as [|b rem].
    + cbn [read_full]. intros H; inversion H. destruct acc; discriminate.
    + cbn [read_full]. cbv zeta.
      destruct (S n - length (firstn (Nat.min m (S n)) (b :: rem)))%nat as [|n'] eqn:En; [discriminate|].
      destruct (skipn (Nat.min m (S n)) (b :: rem)) as [|b' rem'] eqn:Es.
      * destruct fl; [|apply IH]. intros H; inversion H.
        destruct (acc ++ firstn (Nat.min m (S n)) (b :: rem)); discriminate.
      * apply IH.
Qed.

Definition lrel (r : option (N * bytes * script) + rerr) : option (N * bytes * script) + xerr :=
  match r with inl v => inl v | inr e => inr (match e with TooLong => XTooLong | _ => XIo end) end.

Lemma map_eof_never_eof e : map_eof e <> EOF.
Proof. destruct e; discriminate. Qed.

Lemma read_len_x_rel : forall k i more n rem sc,
  read_len_x k i more n rem sc = lrel (read_len k i more n rem sc).
Proof.
  induction k as [|k IH]; intros i more n rem sc.
  - destruct more; reflexivity.
  - destruct more; [|reflexivity]. cbn [read_len read_len_x].
    destruct (2 <=? i)%nat; [reflexivity|].
    rewrite read_full_x_rel.
    destruct (read_full sc 1 [] rem) as [got rest sc'|e] eqn:Hrf; cbn [rrel].
    + destruct got as [|b [|b2 got]]; try reflexivity. apply IH.
    + cbn [lrel]. pose proof (read_full_err_kind _ _ _ _ _ Hrf) as Hk. destruct e; [reflexivity | reflexivity | congruence].
Qed.

Definition drel (r : dres) : dresx :=
  match r with DChunk d rest sc => DChunkX d rest sc | DErr e => DErrX (xmap e) end.

Lemma read_data_x_rel : forall fuel rem sc, read_data_x fuel rem sc = drel (read_data fuel rem sc).
Proof.
  induction fuel as [|f IH]; intros rem sc; [reflexivity|].
  cbn [read_data read_data_x]. rewrite read_full_x_rel.
  destruct (read_full sc 1 [] rem) as [got rest sc1|e] eqn:Hrf; cbn [rrel].
  - destruct got as [|b [|b2 got]]; try reflexivity.
    cbv zeta. rewrite read_len_x_rel.
    destruct (read_len 3 0 (negb (N.land b 64 =? 0)) (N.land b 63) rest sc1) as [[[[n rem2] sc2]|]|e]; cbn [lrel].
    + rewrite read_full_x_rel.
      destruct (read_full sc2 (N.to_nat n) [] rem2) as [p rem3 sc3|e] eqn:Hrf2; cbn [rrel].
      * destruct (negb (N.land b 128 =? 0)); [reflexivity | apply IH].
      * cbn [drel]. pose proof (read_full_err_kind _ _ _ _ _ Hrf2) as Hk. destruct e; [reflexivity | reflexivity | congruence].
    + reflexivity.
    + cbn [drel]. destruct e; reflexivity.
  - cbn [drel]. pose proof (read_full_err_kind _ _ _ _ _ Hrf) as Hk. destruct e; [reflexivity | reflexivity | congruence].
Qed.

Lemma read_all_x_rel : forall fuel rem sc,
  read_all_x fuel rem sc = (fst (read_all fuel rem sc), xmap (snd (read_all fuel rem sc))).
Proof.
  induction fuel as [|f IH]; intros rem sc; [reflexivity|].
  cbn [read_all read_all_x]. rewrite read_data_x_rel.
  destruct (read_data (S (length rem)) rem sc) as [d rem' sc'|e]; cbn [drel].
  - rewrite IH. destruct (read_all f rem' sc') as [ds e]. reflexivity.
  - reflexivity.
Qed.

(* the failing reader's result is the script-free decoding of the delivered bytes with the final error relabelled *)
Theorem read_stream_x_spec : forall s sc,
  read_stream_x s sc = (fst (decode_stream s), xmap (snd (decode_stream s))).
Proof.
  intros s sc. unfold read_stream_x. rewrite read_all_x_rel.
  fold (read_stream s sc). rewrite read_stream_independent. reflexivity.
Qed.
