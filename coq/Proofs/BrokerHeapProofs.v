(* BrokerHeapProofs.v — the broker's SnowflakeHeap (Model/BrokerHeap.v: container/heap over a slice ordered by
   the self-reported client count, elements carrying their `index` field).
   1. list level ([hstep]): after any sequence of pushes, guarded pops, guarded removals and fixes the slice is
      heap ordered, so heap.Pop returns a proxy with the smallest client count, and the contents change only by
      the pushed / popped / removed element;
   2. pointer level ([xstep], the definition run against broker/snowflake-heap.go): it simulates the list
      level, every element's `index` equals its position after any operation sequence, and every element that
      left the heap holds index -1.
   (3. Proofs/BrokerImplProofs.v: the matching machine over two such heaps refines Model/Broker.v.) *)
From Coq Require Import List NArith ZArith Bool Arith Lia Permutation.
From Snow Require Import Model.GoHeap Proofs.GoHeapProofs.
From Snow Require Export Model.BrokerHeap.
Import ListNotations.
Open Scope N_scope.

Lemma sf_irrefl a : sf_less a a = false.
Proof. unfold sf_less. apply N.ltb_irrefl. Qed.
Lemma sf_trans a b c : sf_less a b = true -> sf_less b c = true -> sf_less a c = true.
Proof. unfold sf_less. intros H1 H2. apply N.ltb_lt in H1, H2. apply N.ltb_lt. lia. Qed.
Lemma sf_negtrans a b c : sf_less a b = false -> sf_less b c = false -> sf_less a c = false.
Proof. unfold sf_less. intros H1 H2. apply N.ltb_ge in H1, H2. apply N.ltb_ge. lia. Qed.

Lemma heap_ok_nil : heap_ok sf sf_less [].
Proof. intros p c a b _ H. destruct p; discriminate. Qed.

Theorem hstep_ok l o : heap_ok sf sf_less l -> heap_ok sf sf_less (hstep l o).
Proof.
  intros H. destruct o as [x| |i|i c]; cbn [hstep].
  - apply (lpush_heap_ok sf sf_less sf_irrefl sf_trans sf_negtrans). exact H.
  - destruct l as [|m l']; [exact H|].
    destruct (lpop_spec sf sf_less sf_irrefl sf_trans sf_negtrans (m :: l') m H eq_refl) as [l2 [Hp [Hok _]]].
    rewrite Hp. exact Hok.
  - destruct (Nat.ltb_spec i (length l)) as [Hi|Hi]; [|exact H].
    destruct (nth_error l i) as [x|] eqn:Hx; [|apply nth_error_None in Hx; lia].
    destruct (lremove_spec sf sf_less sf_irrefl sf_trans sf_negtrans l i x H Hx) as [l2 [Hp [Hok _]]].
    rewrite Hp. exact Hok.
  - destruct (nth_error l i) as [x|] eqn:Hx; [|exact H].
    assert (Hi : (i < length l)%nat) by (apply nth_error_Some; congruence).
    apply (lfix_spec sf sf_less sf_irrefl sf_trans sf_negtrans l i (fst x, c) H Hi).
Qed.

Lemma fold_hstep_ok : forall ops l, heap_ok sf sf_less l -> heap_ok sf sf_less (fold_left hstep ops l).
Proof. induction ops as [|o ops IH]; intros l H; cbn [fold_left]; [exact H|]. apply IH. apply hstep_ok. exact H. Qed.

Theorem heap_ops_ok : forall ops, heap_ok sf sf_less (fold_left hstep ops []).
Proof. intros ops. apply fold_hstep_ok. apply heap_ok_nil. Qed.

(* what matchSnowflake gets *)
Theorem pop_least_loaded : forall ops m,
  let l := fold_left hstep ops [] in
  nth_error l 0 = Some m ->
  exists l', lpop sf_less l = (l', Some m) /\ heap_ok sf sf_less l' /\ Permutation l (m :: l') /\
             (forall y, In y l -> snd m <= snd y).
Proof.
  intros ops m l Hm.
  destruct (lpop_spec sf sf_less sf_irrefl sf_trans sf_negtrans l m (heap_ops_ok ops) Hm) as [l' [Hp [Hok [Hperm Hmin]]]].
  exists l'. repeat split; try assumption.
  intros y Hy. specialize (Hmin y Hy). unfold sf_less in Hmin. apply N.ltb_ge in Hmin. exact Hmin.
Qed.

Theorem push_contents l x : heap_ok sf sf_less l -> Permutation (lpush sf_less x l) (x :: l).
Proof. intros _. apply lpush_perm. Qed.

Theorem remove_contents l i x : heap_ok sf sf_less l -> nth_error l i = Some x ->
  exists l', lremove sf_less l i = (l', Some x) /\ Permutation l (x :: l').
Proof.
  intros H Hx. destruct (lremove_spec sf sf_less sf_irrefl sf_trans sf_negtrans l i x H Hx) as [l' [Hp [_ Hperm]]].
  exists l'. split; assumption.
Qed.

(* ------------------------------------------------------------------ *)
(* 2. the slice of pointers simulates the list; `index` = position       *)

Definition idx_ok (s : list sfx) : Prop := forall i x, nth_error s i = Some x -> x_idx x = Z.of_nat i.
Definition xR (s : list sfx) (l : list sf) : Prop := map x_el s = l /\ idx_ok s.

Lemma map_set_nth : forall (s : list sfx) i x, map x_el (set_nth i x s) = set_nth i (x_el x) (map x_el s).
Proof. induction s as [|a s IH]; intros [|i] x; cbn [set_nth map]; try reflexivity. rewrite IH. reflexivity. Qed.

Lemma map_removelast : forall (s : list sfx), map x_el (removelast s) = removelast (map x_el s).
Proof.
  induction s as [|a s IH]; [reflexivity|]. destruct s as [|b s]; [reflexivity|].
  change (removelast (a :: b :: s)) with (a :: removelast (b :: s)).
  change (map x_el (a :: b :: s)) with (x_el a :: map x_el (b :: s)).
  cbn [map]. rewrite IH. reflexivity.
Qed.

Lemma xR_len s l : xR s l -> length s = length l.
Proof. intros [<- _]. symmetry. apply map_length. Qed.

Lemma xR_less s l i j : xR s l -> (i < length l)%nat -> (j < length l)%nat ->
  sx_less s i j = lless sf_less l i j.
Proof.
  intros [<- _] _ _. unfold sx_less, lless. rewrite !nth_error_map.
  destruct (nth_error s i); [|reflexivity]. destruct (nth_error s j); reflexivity.
Qed.

Lemma xR_swap s l i j : xR s l -> (i < length l)%nat -> (j < length l)%nat ->
  xR (sx_swap s i j) (lswap l i j).
Proof.
  intros [<- Hidx] Hi Hj. rewrite map_length in Hi, Hj.
  destruct (nth_error s i) as [a|] eqn:Ha; [|apply nth_error_None in Ha; lia].
  destruct (nth_error s j) as [b|] eqn:Hb; [|apply nth_error_None in Hb; lia].
  unfold sx_swap, lswap. rewrite !nth_error_map, Ha, Hb. cbn [option_map]. split.
  - rewrite !map_set_nth. reflexivity.
  - intros k x Hk. destruct (Nat.eq_dec k j) as [->|Hkj].
    + rewrite nth_error_set_nth_eq in Hk by (rewrite set_nth_length; exact Hj). injection Hk as <-. reflexivity.
    + rewrite nth_error_set_nth_neq in Hk by exact Hkj. destruct (Nat.eq_dec k i) as [->|Hki].
      * rewrite nth_error_set_nth_eq in Hk by exact Hi. injection Hk as <-. reflexivity.
      * rewrite nth_error_set_nth_neq in Hk by exact Hki. apply Hidx. exact Hk.
Qed.

Lemma xR_push_method s l x : xR s l -> xR (sx_push_method x s) (l ++ [x]).
Proof.
  intros [<- Hidx]. unfold sx_push_method. split; [rewrite map_app; reflexivity|].
  intros k y Hk. destruct (Nat.lt_ge_cases k (length s)) as [Hlt|Hge].
  - rewrite nth_error_app1 in Hk by exact Hlt. apply Hidx. exact Hk.
  - rewrite nth_error_app2 in Hk by exact Hge. destruct (k - length s)%nat as [|d] eqn:Ed.
    + cbn in Hk. injection Hk as <-. cbn. f_equal. lia.
    + destruct d; discriminate.
Qed.

Lemma xpush_sim s l x : xR s l -> xR (xpush x s) (lpush sf_less x l).
Proof.
  intros HR. pose proof (xR_push_method s l x HR) as H1.
  unfold xpush, lpush, heap_push, lpush_method.
  rewrite (xR_len _ _ H1).
  apply (sim_up (list sfx) sx_less sx_swap sf sf_less xR xR_less xR_swap); [exact H1|].
  rewrite app_length. cbn. lia.
Qed.

Lemma xR_pop_method s l : xR s l -> l <> [] ->
  exists r e, nth_error l (length l - 1) = Some r /\ lpop_method l = (removelast l, Some r) /\
    sx_pop_method s = (removelast s, Some e) /\ x_el e = r /\ x_idx e = (-1)%Z /\ xR (removelast s) (removelast l).
Proof.
  intros [<- Hidx] Hne.
  assert (Hpos : (0 < length s)%nat) by (destruct s; [elim Hne; reflexivity | cbn; lia]).
  destruct (nth_error s (length s - 1)) as [e0|] eqn:He; [|apply nth_error_None in He; lia].
  exists (x_el e0), (with_idx e0 (-1)%Z).
  rewrite map_length. unfold lpop_method, sx_pop_method. rewrite map_length, nth_error_map, He. cbn [option_map].
  repeat split.
  - apply map_removelast.
  - intros k y Hk. apply nth_error_removelast in Hk. destruct Hk as [Hk _]. apply Hidx. exact Hk.
Qed.

Lemma xpop_sim s l : xR s l -> l <> [] ->
  exists r e s' l', lpop sf_less l = (l', Some r) /\ xpop s = (s', Some e) /\
    x_el e = r /\ x_idx e = (-1)%Z /\ xR s' l'.
Proof.
  intros HR Hne.
  assert (Hpos : (0 < length l)%nat) by (destruct l; [elim Hne; reflexivity | cbn; lia]).
  unfold xpop, lpop, heap_pop. rewrite (xR_len _ _ HR).
  set (n := (length l - 1)%nat).
  assert (H1 : xR (sx_swap s 0 n) (lswap l 0 n)) by (apply xR_swap; [exact HR | lia | unfold n; lia]).
  assert (Hn : (n <= length (lswap l 0 n))%nat) by (rewrite lswap_length; unfold n; lia).
  destruct (sim_down (list sfx) sx_less sx_swap sf sf_less xR xR_less xR_swap _ _ 0%nat n H1 Hn) as [H2 _].
  set (s2 := fst (down (list sfx) sx_less sx_swap (sx_swap s 0 n) 0 n)) in *.
  set (l2 := fst (ldown sf_less (lswap l 0 n) 0 n)) in *.
  assert (Hl2 : length l2 = length l) by (unfold l2; rewrite ldown_length, lswap_length; reflexivity).
  destruct (xR_pop_method s2 l2 H2) as (r & e & _ & Hp & Hs & He & Hi & HR3).
  { intro E. rewrite E in Hl2. cbn in Hl2. lia. }
  exists r, e, (removelast s2), (removelast l2). unfold ldown in l2. fold l2. rewrite Hp, Hs. repeat (split; [first [reflexivity | assumption]|]). assumption.
Qed.

Lemma xremove_sim s l i : xR s l -> (i < length l)%nat ->
  exists r e s' l', lremove sf_less l i = (l', Some r) /\ xremove s i = (s', Some e) /\
    x_el e = r /\ x_idx e = (-1)%Z /\ xR s' l'.
Proof.
  intros HR Hi.
  assert (Hne : l <> []) by (destruct l; [cbn in Hi; lia | discriminate]).
  unfold xremove, lremove, heap_remove. rewrite (xR_len _ _ HR).
  set (n := (length l - 1)%nat).
  destruct (n =? i)%nat eqn:E.
  - destruct (xR_pop_method s l HR Hne) as (r & e & _ & Hp & Hs & He & Hx & HR3).
    exists r, e, (removelast s), (removelast l). rewrite Hp, Hs. repeat (split; [first [reflexivity | assumption]|]). assumption.
  - apply Nat.eqb_neq in E.
    assert (H1 : xR (sx_swap s i n) (lswap l i n)) by (apply xR_swap; [exact HR | lia | unfold n; lia]).
    assert (Hn : (n <= length (lswap l i n))%nat) by (rewrite lswap_length; unfold n; lia).
    destruct (sim_down (list sfx) sx_less sx_swap sf sf_less xR xR_less xR_swap _ _ i n H1 Hn) as [H2 H2i].
    unfold ldown in H2, H2i.
    pose proof (ldown_length sf sf_less (lswap l i n) i n) as HL. unfold ldown in HL. rewrite lswap_length in HL.
    destruct (down (list sfx) sx_less sx_swap (sx_swap s i n) i n) as [s2 i1].
    destruct (down (list sf) (lless sf_less) lswap (lswap l i n) i n) as [l2 i2].
    cbn [fst snd] in *. subst i2.
    assert (H3 : xR (if (i <? i1)%nat then s2 else up (list sfx) sx_less sx_swap s2 i)
                    (if (i <? i1)%nat then l2 else up (list sf) (lless sf_less) lswap l2 i)).
    { destruct (i <? i1)%nat; [exact H2|].
      apply (sim_up (list sfx) sx_less sx_swap sf sf_less xR xR_less xR_swap); [exact H2 | lia]. }
    set (s3 := if (i <? i1)%nat then s2 else up (list sfx) sx_less sx_swap s2 i) in *.
    set (l3 := if (i <? i1)%nat then l2 else up (list sf) (lless sf_less) lswap l2 i) in *.
    assert (Hl3 : length l3 = length l).
    { unfold l3. destruct (i <? i1)%nat; [exact HL|]. fold (lup sf_less l2 i). rewrite lup_length. exact HL. }
    destruct (xR_pop_method s3 l3 H3) as (r & e & _ & Hp & Hs & He & Hx & HR3).
    { intro E3. rewrite E3 in Hl3. cbn in Hl3. lia. }
    exists r, e, (removelast s3), (removelast l3). rewrite Hp, Hs. repeat (split; [first [reflexivity | assumption]|]). assumption.
Qed.

Lemma xfix_sim s l i : xR s l -> (i < length l)%nat -> xR (xfix s i) (lfix sf_less l i).
Proof.
  intros HR Hi. unfold xfix, lfix.
  apply (sim_fix (list sfx) (@length sfx) sx_less sx_swap sf sf_less xR); try assumption.
  - exact xR_len.
  - exact xR_less.
  - exact xR_swap.
Qed.

Lemma xR_set_clients s l i x c : xR s l -> nth_error s i = Some x ->
  xR (set_nth i (mkx (fst (x_el x), c) (x_idx x)) s) (set_nth i (fst (x_el x), c) l).
Proof.
  intros [<- Hidx] Hx. assert (Hi : (i < length s)%nat) by (apply nth_error_Some; congruence).
  split; [apply map_set_nth|].
  intros k y Hk. destruct (Nat.eq_dec k i) as [->|Hne].
  - rewrite nth_error_set_nth_eq in Hk by exact Hi. injection Hk as <-. cbn. apply Hidx. exact Hx.
  - rewrite nth_error_set_nth_neq in Hk by exact Hne. apply Hidx. exact Hk.
Qed.

(* one scripted operation: the array part follows [hstep], what is handed back is the element the list level
   hands back, it holds index -1, and it is appended to the elements that left *)
Definition popped (l : list sf) (o : hop) : option sf :=
  match o with
  | HPush _ | HFix _ _ => None
  | HPop => match l with [] => None | _ => snd (lpop sf_less l) end
  | HRemove i => if (i <? length l)%nat then snd (lremove sf_less l i) else None
  end.

Theorem xstep_sim h l o : xR (h_arr h) l ->
  xR (h_arr (fst (xstep h o))) (hstep l o) /\
  option_map x_el (snd (xstep h o)) = popped l o /\
  (forall e, snd (xstep h o) = Some e -> x_idx e = (-1)%Z) /\
  h_out (fst (xstep h o)) = out_add (h_out h) (snd (xstep h o)).
Proof.
  intros HR. destruct o as [x| |i|i c]; cbn [xstep hstep popped].
  - cbn [fst snd h_arr h_out option_map out_add]. split; [apply xpush_sim; exact HR|]. repeat split. discriminate.
  - destruct (h_arr h) as [|a s] eqn:Ea.
    + destruct HR as [Hm _]. cbn in Hm. subst l. cbn [fst snd option_map out_add]. rewrite Ea.
      split; [split; [reflexivity | intros i x Hx; destruct i; discriminate]|]. repeat split. discriminate.
    + assert (Hne : l <> []) by (destruct HR as [<- _]; discriminate).
      destruct (xpop_sim _ _ HR Hne) as (r & e & s' & l' & Hp & Hs & He & Hx & HR').
      rewrite Hs. destruct l as [|b l0]; [elim Hne; reflexivity|]. rewrite Hp.
      cbn [fst snd h_arr h_out option_map]. split; [exact HR'|]. split; [f_equal; exact He|].
      split; [intros e0 H0; injection H0 as <-; exact Hx | reflexivity].
  - rewrite (xR_len _ _ HR). destruct (Nat.ltb_spec i (length l)) as [Hi|Hi].
    + destruct (xremove_sim _ _ i HR Hi) as (r & e & s' & l' & Hp & Hs & He & Hx & HR').
      rewrite Hs, Hp. cbn [fst snd h_arr h_out option_map]. split; [exact HR'|]. split; [f_equal; exact He|].
      split; [intros e0 H0; injection H0 as <-; exact Hx | reflexivity].
    + cbn [fst snd option_map out_add]. split; [exact HR|]. repeat split. discriminate.
  - destruct HR as [Hm Hidx]. assert (HR : xR (h_arr h) l) by (split; assumption).
    rewrite <- Hm, nth_error_map. destruct (nth_error (h_arr h) i) as [x|] eqn:Hx; cbn [option_map fst snd h_arr h_out out_add].
    + rewrite Hm. split; [|repeat split; discriminate].
      assert (Hi : (i < length l)%nat) by (rewrite <- (xR_len _ _ HR); apply nth_error_Some; congruence).
      apply xfix_sim; [apply xR_set_clients; assumption | rewrite set_nth_length; exact Hi].
    + rewrite Hm. split; [exact HR|]. repeat split. discriminate.
Qed.

(* ---- the index-consistency invariant of SnowflakeHeap, for every operation sequence ---- *)

Definition sheap_ok (h : sheap) : Prop :=
  idx_ok (h_arr h) /\ (forall e, In e (h_out h) -> x_idx e = (-1)%Z) /\ heap_ok sf sf_less (map x_el (h_arr h)).

Lemma sheap_ok_empty : sheap_ok sheap_empty.
Proof.
  split; [|split].
  - intros i x H. destruct i; discriminate.
  - intros e [].
  - apply heap_ok_nil.
Qed.

Lemma xstep_ok h o : sheap_ok h -> sheap_ok (fst (xstep h o)).
Proof.
  intros [Hi [Ho Hh]].
  destruct (xstep_sim h (map x_el (h_arr h)) o (conj eq_refl Hi)) as [[Hm Hi'] [_ [Hx Hout]]].
  split; [exact Hi'|]. split.
  - rewrite Hout. intros e He. destruct (snd (xstep h o)) as [y|] eqn:Ey; cbn [out_add] in He.
    + apply in_app_or in He. destruct He as [He|[<-|[]]]; [apply Ho; exact He | apply Hx; reflexivity].
    + apply Ho. exact He.
  - rewrite Hm. apply hstep_ok. exact Hh.
Qed.

Lemma xrun_ok : forall ops h, sheap_ok h -> sheap_ok (xrun ops h).
Proof.
  induction ops as [|o ops IH]; intros h H; cbn [xrun fold_left]; [exact H|].
  apply IH. apply xstep_ok. exact H.
Qed.

Theorem index_consistent : forall ops,
  let h := xrun ops sheap_empty in
  (forall i x, nth_error (h_arr h) i = Some x -> x_idx x = Z.of_nat i) /\
  (forall e, In e (h_out h) -> x_idx e = (-1)%Z).
Proof. intros ops h. destruct (xrun_ok ops sheap_empty sheap_ok_empty) as [A [B _]]. split; assumption. Qed.

(* the pointer-level heap IS the list-level heap: same contents in the same order after every sequence *)
Lemma xrun_sim : forall ops h l, xR (h_arr h) l -> xR (h_arr (xrun ops h)) (fold_left hstep ops l).
Proof.
  induction ops as [|o ops IH]; intros h l HR; cbn [xrun fold_left]; [exact HR|].
  apply IH. apply (xstep_sim h l o HR).
Qed.

Theorem array_is_list_heap : forall ops,
  map x_el (h_arr (xrun ops sheap_empty)) = fold_left hstep ops [].
Proof.
  intros ops. apply (xrun_sim ops sheap_empty []). split; [reflexivity|]. intros i x H. destruct i; discriminate.
Qed.

(* a guarded Pop hands back a least-loaded element, marked -1, and only it leaves the slice *)
Theorem xpop_least_loaded : forall h, sheap_ok h -> h_arr h <> [] ->
  exists e s', xpop (h_arr h) = (s', Some e) /\ x_idx e = (-1)%Z /\
    Permutation (map x_el (h_arr h)) (x_el e :: map x_el s') /\
    (forall y, In y (h_arr h) -> snd (x_el e) <= snd (x_el y)) /\
    sheap_ok (mkh s' (h_out h ++ [e])).
Proof.
  intros h [Hi [Ho Hh]] Hne.
  remember (map x_el (h_arr h)) as l eqn:El.
  assert (HR : xR (h_arr h) l) by (split; [symmetry; exact El | exact Hi]).
  assert (Hl : l <> []) by (subst l; destruct (h_arr h); [elim Hne; reflexivity | discriminate]).
  destruct (xpop_sim _ _ HR Hl) as (r & e & s' & l' & Hp & Hs & He & Hx & [Hm' Hi']).
  destruct l as [|m l0]; [elim Hl; reflexivity|].
  destruct (lpop_spec sf sf_less sf_irrefl sf_trans sf_negtrans (m :: l0) m Hh eq_refl) as [l2 [Hp2 [Hok2 [Hperm Hmin]]]].
  rewrite Hp in Hp2. injection Hp2 as <- <-.
  exists e, s'. split; [exact Hs|]. split; [exact Hx|]. split; [rewrite Hm', He; exact Hperm|]. split.
  - intros y Hy. rewrite He. assert (Hin : In (x_el y) (r :: l0)) by (rewrite El; apply in_map; exact Hy).
    specialize (Hmin _ Hin). unfold sf_less in Hmin. apply N.ltb_ge in Hmin. exact Hmin.
  - split; [exact Hi'|]. split.
    + intros e0 H0. apply in_app_or in H0. destruct H0 as [H0|[<-|[]]]; [apply Ho; exact H0 | exact Hx].
    + cbn [h_arr]. rewrite Hm'. exact Hok2.
Qed.

(* ---- order embedding of Go's signed loads into the model's N loads ---- *)
Lemma emb_order : forall a b, int64_range a = true -> int64_range b = true ->
  sf_less (0%nat, emb a) (1%nat, emb b) = (a <? b)%Z.
Proof.
  intros a b Ha Hb. unfold int64_range in *. apply andb_prop in Ha, Hb.
  destruct Ha as [Ha _], Hb as [Hb _]. apply Z.leb_le in Ha, Hb.
  unfold sf_less, emb. simpl.
  destruct (a <? b)%Z eqn:E.
  - apply Z.ltb_lt in E. apply N.ltb_lt. apply Z2N.inj_lt; lia.
  - apply Z.ltb_ge in E. apply N.ltb_ge. apply Z2N.inj_le; lia.
Qed.

Lemma unemb_emb : forall a, int64_range a = true -> unemb (emb a) = a.
Proof.
  intros a Ha. unfold int64_range in Ha. apply andb_prop in Ha. destruct Ha as [Ha _]. apply Z.leb_le in Ha.
  unfold unemb, emb. rewrite Z2N.id by lia. lia.
Qed.
