(* BrokerHeapProofs.v — the broker's SnowflakeHeap (container/heap over a slice ordered by the
   self-reported client count) refines the relational pool of Model/Broker.v: after any sequence of
   AddSnowflake pushes, matchSnowflake pops (guarded by Len() > 0) and timeout removals (guarded by a valid
   index) the slice is heap ordered, so heap.Pop returns a proxy with the smallest client count, and the
   contents change only by the pushed / popped / removed element. *)
From Coq Require Import List NArith Bool Arith Lia Permutation.
From Snow Require Import Model.GoHeap Proofs.GoHeapProofs.
Import ListNotations.
Open Scope N_scope.

(* a heap element: (poll id, client count) ; Less compares client counts only *)
Definition sf := (nat * N)%type.
Definition sf_less (a b : sf) : bool := snd a <? snd b.

Lemma sf_irrefl a : sf_less a a = false.
Proof. unfold sf_less. apply N.ltb_irrefl. Qed.
Lemma sf_trans a b c : sf_less a b = true -> sf_less b c = true -> sf_less a c = true.
Proof. unfold sf_less. intros H1 H2. apply N.ltb_lt in H1, H2. apply N.ltb_lt. lia. Qed.
Lemma sf_negtrans a b c : sf_less a b = false -> sf_less b c = false -> sf_less a c = false.
Proof. unfold sf_less. intros H1 H2. apply N.ltb_ge in H1, H2. apply N.ltb_ge. lia. Qed.

Inductive hop := HPush (x : sf) | HPop | HRemove (i : nat).

Definition hstep (l : list sf) (o : hop) : list sf :=
  match o with
  | HPush x => lpush sf_less x l
  | HPop => match l with [] => l | _ => fst (lpop sf_less l) end
  | HRemove i => if (i <? length l)%nat then fst (lremove sf_less l i) else l
  end.

Lemma heap_ok_nil : heap_ok sf sf_less [].
Proof. intros p c a b _ H. destruct p; discriminate. Qed.

Theorem hstep_ok l o : heap_ok sf sf_less l -> heap_ok sf sf_less (hstep l o).
Proof.
  intros H. destruct o as [x| |i]; cbn [hstep].
  - apply (lpush_heap_ok sf sf_less sf_irrefl sf_trans sf_negtrans). exact H.
  - destruct l as [|m l']; [exact H|].
    destruct (lpop_spec sf sf_less sf_irrefl sf_trans sf_negtrans (m :: l') m H eq_refl) as [l2 [Hp [Hok _]]].
    rewrite Hp. exact Hok.
  - destruct (Nat.ltb_spec i (length l)) as [Hi|Hi]; [|exact H].
    destruct (nth_error l i) as [x|] eqn:Hx; [|apply nth_error_None in Hx; lia].
    destruct (lremove_spec sf sf_less sf_irrefl sf_trans sf_negtrans l i x H Hx) as [l2 [Hp [Hok _]]].
    rewrite Hp. exact Hok.
Qed.

Theorem heap_ops_ok : forall ops, heap_ok sf sf_less (fold_left hstep ops []).
Proof.
  intros ops. assert (G : forall l, heap_ok sf sf_less l -> heap_ok sf sf_less (fold_left hstep ops l)).
  { induction ops as [|o ops IH]; intros l H; cbn [fold_left]; [exact H|]. apply IH. apply hstep_ok. exact H. }
  apply G. apply heap_ok_nil.
Qed.

(* what matchSnowflake gets *)
Theorem pop_least_loaded : forall ops m,
  let l := fold_left hstep ops [] in
  nth_error l 0 = Some m ->
  exists l', lpop sf_less l = (l', Some m) /\ heap_ok sf sf_less l' /\ Permutation l (m :: l') /\
             (forall y, In y l -> snd m <= snd y).
Proof.
  intros ops m l Hm.
  destruct (lpop_spec sf sf_less sf_irrefl sf_trans sf_negtrans l m (heap_ops_ok ops) Hm) as [l' [Hp [Hok [Hperm Hmin]]]].
  exists l'. repeat split; try assumption.
  intros y Hy. specialize (Hmin y Hy). unfold sf_less in Hmin. apply N.ltb_ge in Hmin. exact Hmin.
Qed.

Theorem push_contents l x : heap_ok sf sf_less l -> Permutation (lpush sf_less x l) (x :: l).
Proof. intros _. apply lpush_perm. Qed.

Theorem remove_contents l i x : heap_ok sf sf_less l -> nth_error l i = Some x ->
  exists l', lremove sf_less l i = (l', Some x) /\ Permutation l (x :: l').
Proof.
  intros H Hx. destruct (lremove_spec sf sf_less sf_irrefl sf_trans sf_negtrans l i x H Hx) as [l' [Hp [_ Hperm]]].
  exists l'. split; assumption.
Qed.
