(* Base64Proofs.v — round trip of the std base64 model, streaming encoder = whole encoder. *)
From Coq Require Import List NArith ZArith Lia Bool Arith.
From Coq Require Import ZifyN ZifyNat ZifyBool.
From Snow Require Import Lib.Wire Model.Base64.
Import ListNotations.
Open Scope N_scope.
Ltac Zify.zify_post_hook ::= Z.div_mod_to_equations.

Lemma dec6_enc6 : forall n, n < 64 -> dec6 (enc6 n) = Some n.
Proof.
  intros n H. unfold enc6, dec6.
  destruct (n <? 26) eqn:E1.
  { destruct ((65 <=? 65 + n) && (65 + n <=? 90)) eqn:E2; [f_equal; lia | lia]. }
  destruct (n <? 52) eqn:E3.
  { destruct ((65 <=? 97 + (n - 26)) && (97 + (n - 26) <=? 90)) eqn:E4; [lia|].
    destruct ((97 <=? 97 + (n - 26)) && (97 + (n - 26) <=? 122)) eqn:E5; [f_equal; lia | lia]. }
  destruct (n <? 62) eqn:E6.
  { destruct ((65 <=? 48 + (n - 52)) && (48 + (n - 52) <=? 90)) eqn:E4; [lia|].
    destruct ((97 <=? 48 + (n - 52)) && (48 + (n - 52) <=? 122)) eqn:E5; [lia|].
    destruct ((48 <=? 48 + (n - 52)) && (48 + (n - 52) <=? 57)) eqn:E7; [f_equal; lia | lia]. }
  destruct (n =? 62) eqn:E8.
  { cbn. f_equal. lia. }
  cbn. f_equal. lia.
Qed.

(* every output character of the encoder, for ANY input value, is an alphabet character:
   not '=' , not ASCII whitespace, not '<' *)
Lemma enc6_range : forall n, let c := enc6 n in
  (65 <= c <= 90) \/ (97 <= c <= 122) \/ (48 <= c <= 57) \/ c = 43 \/ c = 47.
Proof.
  intros n. unfold enc6. cbv zeta.
  destruct (n <? 26) eqn:E1; [lia|].
  destruct (n <? 52) eqn:E2; [lia|].
  destruct (n <? 62) eqn:E3; [lia|].
  destruct (n =? 62) eqn:E4; lia.
Qed.

Lemma dec6_pad : dec6 PAD = None.
Proof. reflexivity. Qed.

Lemma quantum3 : forall a b c, a < 256 -> b < 256 -> c < 256 ->
  a / 4 < 64 /\ (a mod 4) * 16 + b / 16 < 64 /\ (b mod 16) * 4 + c / 64 < 64 /\ c mod 64 < 64 /\
  dec4 (a / 4) ((a mod 4) * 16 + b / 16) ((b mod 16) * 4 + c / 64) (c mod 64) = [a; b; c].
Proof.
  intros a b c Ha Hb Hc. unfold dec4. repeat split; try lia.
  f_equal; [lia|]. f_equal; [lia|]. f_equal. lia.
Qed.

Lemma list_ind3 {A} (P : list A -> Prop) :
  P [] -> (forall a, P [a]) -> (forall a b, P [a; b]) ->
  (forall a b c r, P r -> P (a :: b :: c :: r)) -> forall l, P l.
Proof.
  intros H0 H1 H2 H3.
  assert (forall l, P l /\ (forall a, P (a :: l)) /\ (forall a b, P (a :: b :: l))) as H.
  { induction l as [|x l IH]; [auto|].
    destruct IH as (Ha & Hb & Hc). split; [apply Hb|]. split; [intros; apply Hc|].
    intros a b. apply H3. exact Ha. }
  intros l. apply H.
Qed.

Lemma b64_roundtrip_seq : forall p, bytes_ok p = true -> b64_decode_seq (b64_encode p) = (p, B64Clean).
Proof.
  intros p. induction p as [ | a | a b | a b c p IHp] using list_ind3; intros Hok.
  - reflexivity.
  - unfold bytes_ok in Hok; cbn [forallb] in Hok; unfold byte_ok in Hok.
    assert (Ha : a < 256) by lia.
    cbn [b64_encode enc_tail b64_decode_seq].
    rewrite !dec6_enc6 by lia. rewrite dec6_pad. rewrite !N.eqb_refl. cbn [andb].
    f_equal. f_equal. lia.
  - unfold bytes_ok in Hok; cbn [forallb] in Hok; unfold byte_ok in Hok.
    assert (Ha : a < 256) by lia. assert (Hb : b < 256) by lia.
    cbn [b64_encode enc_tail b64_decode_seq].
    rewrite !dec6_enc6 by lia. rewrite dec6_pad. rewrite !N.eqb_refl. cbn [andb].
    f_equal. f_equal; [lia|]. f_equal. lia.
  - unfold bytes_ok in Hok; cbn [forallb] in Hok.
    apply andb_true_iff in Hok as [Ha Hok]. apply andb_true_iff in Hok as [Hb Hok].
    apply andb_true_iff in Hok as [Hc Hr]. unfold byte_ok in Ha, Hb, Hc.
    apply N.ltb_lt in Ha, Hb, Hc. fold (bytes_ok p) in Hr.
    destruct (quantum3 a b c Ha Hb Hc) as (Q0 & Q1 & Q2 & Q3 & Q4).
    cbn [b64_encode enc3 app b64_decode_seq].
    rewrite !dec6_enc6 by assumption.
    rewrite (IHp Hr). rewrite Q4. reflexivity.
Qed.

Lemma b64_roundtrip : forall p, bytes_ok p = true -> b64_decode (b64_encode p) = Some p.
Proof. intros p H. unfold b64_decode. rewrite (b64_roundtrip_seq p H). reflexivity. Qed.

(* ---- streaming encoder ---- *)

Lemma enc_full_encode : forall l, b64_encode l = fst (enc_full l) ++ enc_tail (snd (enc_full l)).
Proof.
  intros l. induction l as [ | a | a b | a b c l IHl] using list_ind3; try reflexivity.
  cbn [b64_encode enc_full]. destruct (enc_full l) as [o r] eqn:E. cbn [fst snd] in *.
  rewrite IHl. rewrite app_assoc. reflexivity.
Qed.

Lemma enc_full_rem_short : forall l, (List.length (snd (enc_full l)) < 3)%nat.
Proof.
  intros l. induction l as [ | a | a b | a b c l IHl] using list_ind3; cbn; try lia.
  destruct (enc_full l) as [o r]. cbn in *. lia.
Qed.

(* feeding the remainder of x followed by y continues the encoding of x ++ y *)
Lemma enc_full_app : forall x y,
  enc_full (x ++ y) = (fst (enc_full x) ++ fst (enc_full (snd (enc_full x) ++ y)),
                       snd (enc_full (snd (enc_full x) ++ y))).
Proof.
  intros x. induction x as [ | a | a b | a b c x IHx] using list_ind3; intros y.
  - cbn. destruct (enc_full y); reflexivity.
  - change (enc_full [a]) with (@nil N, [a]). cbn [fst snd app].
    destruct (enc_full (a :: y)); reflexivity.
  - change (enc_full [a; b]) with (@nil N, [a; b]). cbn [fst snd app].
    destruct (enc_full (a :: b :: y)); reflexivity.
  - cbn [app enc_full]. rewrite IHx.
    destruct (enc_full x) as [o r]. cbn [fst snd].
    destruct (enc_full (r ++ y)) as [o2 r2]. cbn [fst snd].
    rewrite app_assoc. reflexivity.
Qed.
