(* RegexDisjProofs.v — soundness of Model/RegexDisj.v:
     disj_sound        : disj r1 r2 = true -> no word is in both languages
     tail_after_sound  : x ++ e :: y in L(r), e in the class P  ->  y in L(tail_after P r)
     nonnull_sound     : w in L(r), w <> []  ->  w in L(nonnull r)
     ms_strip_eol      : on a non-empty rest, r behaves like strip_top_eol r
   and two small facts about the symbols of a word of a language. *)
From Coq Require Import List NArith Bool Arith Lia.
From Snow Require Import Lib.Wire Model.Regex Model.RegexIncl Model.RegexDisj.
From Snow Require Import Proofs.RegexProofs Proofs.MatcherProofs.
Import ListNotations.
Open Scope N_scope.

(* ---------------------------------------------------------------- the closure check *)

Section DClosed.
  Variable rs : cls.
  Variable reps : list N.
  Variable V : list pair.
  Hypothesis Hcover : forall c, exists d, In d reps /\ same_sig rs c d.
  Hypothesis Hclosed : dclosed reps V = true.

  Lemma dclosed_sound : forall w a b,
    In (a, b) V -> respects rs a -> respects rs b -> matches a w -> matches b w -> False.
  Proof.
    induction w as [|c w IH]; intros a b Hin Ra Rb Hma Hmb.
    - unfold dclosed in Hclosed. rewrite forallb_forall in Hclosed.
      specialize (Hclosed _ Hin). unfold dstep_ok in Hclosed; simpl in Hclosed.
      apply andb_true_iff in Hclosed; destruct Hclosed as [Hn _].
      apply nullable_correct in Hma. apply nullable_correct in Hmb.
      rewrite Hma, Hmb in Hn. discriminate.
    - destruct (Hcover c) as [d [Hd Hs]].
      apply deriv_correct in Hma. rewrite (agree_deriv_eq a c d (Ra c d Hs)) in Hma.
      apply deriv_correct in Hmb. rewrite (agree_deriv_eq b c d (Rb c d Hs)) in Hmb.
      unfold dclosed in Hclosed. rewrite forallb_forall in Hclosed.
      specialize (Hclosed _ Hin). unfold dstep_ok in Hclosed; simpl in Hclosed.
      apply andb_true_iff in Hclosed; destruct Hclosed as [_ Hst].
      rewrite forallb_forall in Hst. specialize (Hst d Hd). simpl in Hst.
      apply orb_true_iff in Hst; destruct Hst as [Hst|Hp].
      + apply orb_true_iff in Hst; destruct Hst as [He|He]; apply is_emp_true in He.
        * rewrite He in Hma. eapply matches_emp; eauto.
        * rewrite He in Hmb. eapply matches_emp; eauto.
      + apply pmem_In in Hp.
        eapply IH; eauto; apply respects_deriv; auto.
  Qed.
End DClosed.

Lemma rng_eqb_eq : forall a b, rng_eqb a b = true -> a = b.
Proof.
  intros [a1 a2] [b1 b2] H. unfold rng_eqb in H; simpl in H.
  apply andb_true_iff in H; destruct H as [H1 H2].
  apply N.eqb_eq in H1; apply N.eqb_eq in H2; subst; reflexivity.
Qed.

Lemma uniq_rngs_incl : forall rs acc x, In x acc \/ In x rs -> In x (uniq_rngs acc rs).
Proof.
  induction rs as [|y rs IH]; intros acc x H; simpl.
  - destruct H as [H|[]]; auto.
  - destruct (existsb (rng_eqb y) acc) eqn:E.
    + apply IH. destruct H as [H|[H|H]]; auto.
      subst. left. apply existsb_exists in E. destruct E as (z & Hz & Hq).
      apply rng_eqb_eq in Hq; subst; auto.
    + apply IH. destruct H as [H|[H|H]]; [left; right; auto|left; left; auto|right; auto].
Qed.

Local Opaque explore_fuel.

Theorem disj_sound : forall r1 r2,
  disj r1 r2 = true -> forall w, matches r1 w -> matches r2 w -> False.
Proof.
  intros r1 r2 H w Hm1 Hm2. unfold disj, disj_with, disj_reps in H.
  set (rs := uniq_rngs [] (ranges r1 ++ ranges r2)) in *.
  remember (dexplore explore_fuel (representatives rs) [(r1, r2, [])] []) as X eqn:HX; clear HX.
  destruct X as [V| |]; try discriminate.
  apply andb_true_iff in H; destruct H as [Hstart Hcl].
  apply orb_true_iff in Hstart; destruct Hstart as [He|Hp].
  - apply orb_true_iff in He; destruct He as [He|He]; apply is_emp_true in He; subst;
      eapply matches_emp; eauto.
  - apply pmem_In in Hp.
    eapply (dclosed_sound rs (representatives rs) V (representatives_cover rs) Hcl); eauto.
    + intros c d Hs; eapply same_sig_agree; eauto.
      intros x Hx. apply uniq_rngs_incl. right. apply in_or_app; auto.
    + intros c d Hs; eapply same_sig_agree; eauto.
      intros x Hx. apply uniq_rngs_incl. right. apply in_or_app; auto.
Qed.

(* ---------------------------------------------------------------- bounded repetition *)

Lemma rep_min0 : forall a n m w, matches (Rep a m n) w -> matches (Rep a 0 n) w.
Proof.
  intros a n; induction n as [|n IH]; intros m w H; inversion H; subst; try (constructor; fail).
  apply (MRepS a 0 n); auto. simpl. eapply IH; eauto.
Qed.

Lemma rep_max_S : forall a n w, matches (Rep a 0 n) w -> matches (Rep a 0 (S n)) w.
Proof.
  intros a n; induction n as [|n IH]; intros w H; inversion H; subst; try (constructor; fail).
  apply (MRepS a 0 (S n)); auto.
Qed.

(* ---------------------------------------------------------------- tails *)

Lemma in_rng_overlap : forall e a b, in_rng e a = true -> in_rng e b = true -> rng_overlap a b = true.
Proof.
  intros e [a1 a2] [b1 b2] Ha Hb. unfold in_rng, rng_overlap in *; simpl in *.
  apply andb_true_iff in Ha; destruct Ha as [A1 A2].
  apply andb_true_iff in Hb; destruct Hb as [B1 B2].
  apply N.leb_le in A1, A2, B1, B2. apply N.leb_le. lia.
Qed.

Lemma in_cls_exists : forall e rs, in_cls e rs = true -> exists rg, In rg rs /\ in_rng e rg = true.
Proof.
  induction rs as [|[lo hi] rs IH]; simpl; intros H; [discriminate|].
  apply orb_true_iff in H; destruct H as [H|H].
  - exists (lo, hi); split; auto.
  - destruct (IH H) as (rg & Hi & Hr). exists rg; split; auto.
Qed.

Lemma cls_overlap_true : forall rs P e,
  in_cls e rs = true -> in_cls e P = true -> cls_overlap rs P = true.
Proof.
  intros rs P e H1 H2.
  destruct (in_cls_exists _ _ H1) as (a & Ha & Ra).
  destruct (in_cls_exists _ _ H2) as (b & Hb & Rb).
  unfold cls_overlap. apply existsb_exists. exists a; split; auto.
  apply existsb_exists. exists b; split; auto. eapply in_rng_overlap; eauto.
Qed.

Lemma app_split : forall (w1 w2 x : bytes) e y, w1 ++ w2 = x ++ e :: y ->
  (exists y1, w1 = x ++ e :: y1 /\ y = y1 ++ w2) \/ (exists x2, x = w1 ++ x2 /\ w2 = x2 ++ e :: y).
Proof.
  induction w1 as [|c w1 IH]; intros w2 x e y H; simpl in H.
  - right. exists x; auto.
  - destruct x as [|d x]; simpl in H.
    + inversion H; subst. left. exists w1; auto.
    + inversion H; subst. destruct (IH _ _ _ _ H2) as [(y1 & E1 & E2)|(x2 & E1 & E2)].
      * left. exists y1; subst; auto.
      * right. exists x2; subst; auto.
Qed.

Lemma tail_after_sound : forall P r w, matches r w ->
  forall x e y, w = x ++ e :: y -> in_cls e P = true -> matches (tail_after P r) y.
Proof.
  intros P r w H; induction H; intros x e y E He; simpl.
  - destruct x; discriminate.
  - destruct x as [|d x]; simpl in E; [|destruct x; discriminate].
    inversion E; subst. rewrite (cls_overlap_true rs P e); auto. constructor.
  - destruct (app_split _ _ _ _ _ E) as [(y1 & E1 & E2)|(x2 & E1 & E2)]; subst.
    + apply MAltL. constructor; auto. eapply IHmatches1; eauto.
    + apply MAltR. eapply IHmatches2; eauto.
  - apply MAltL; eapply IHmatches; eauto.
  - apply MAltR; eapply IHmatches; eauto.
  - destruct x; discriminate.
  - destruct (app_split _ _ _ _ _ E) as [(y1 & E1 & E2)|(x2 & E1 & E2)]; subst.
    + constructor; auto. eapply IHmatches1; eauto.
    + eapply IHmatches2; eauto.
  - destruct x; discriminate.
  - destruct (app_split _ _ _ _ _ E) as [(y1 & E1 & E2)|(x2 & E1 & E2)]; subst.
    + constructor; [eapply IHmatches1; eauto|]. eapply rep_min0; eauto.
    + specialize (IHmatches2 _ _ _ eq_refl He). simpl in IHmatches2.
      destruct n as [|n']; [inversion IHmatches2|].
      inversion IHmatches2; subst. constructor; auto. apply rep_max_S; auto.
  - eapply IHmatches; eauto.
Qed.

(* ---------------------------------------------------------------- non-empty part *)

Lemma nonnull_sound : forall r w, matches r w -> w <> [] -> matches (nonnull r) w.
Proof.
  intros r w H; induction H; intros Hne; simpl.
  - contradiction.
  - constructor; auto.
  - destruct w1 as [|c w1].
    + simpl in *. apply MAltR. change w2 with ([] ++ w2). constructor; auto.
    + apply MAltL. constructor; auto. apply IHmatches1; discriminate.
  - apply MAltL; auto.
  - apply MAltR; auto.
  - contradiction.
  - destruct w1 as [|c w1].
    + simpl in *. apply IHmatches2; auto.
    + constructor; auto. apply IHmatches1; discriminate.
  - contradiction.
  - destruct w1 as [|c w1].
    + simpl in *. specialize (IHmatches2 Hne). destruct n as [|n']; simpl in IHmatches2; [inversion IHmatches2|].
      inversion IHmatches2; subst. constructor; auto. apply rep_max_S; auto.
    + constructor; [apply IHmatches1; discriminate|]. eapply rep_min0; eauto.
  - auto.
Qed.

(* ---------------------------------------------------------------- end-of-text alternatives *)

Lemma ms_strip_eol : forall r s p c s1 p1 c1,
  ms r s p c s1 p1 c1 -> s <> [] -> ms (strip_top_eol r) s p c s1 p1 c1.
Proof.
  induction 1; intros Hne; simpl; try contradiction;
    try (apply SAltL; auto; fail); try (apply SAltR; auto; fail); econstructor; eauto.
Qed.

(* ---------------------------------------------------------------- the symbols of a word *)

Lemma in_cls_app : forall c a b, in_cls c (a ++ b) = in_cls c a || in_cls c b.
Proof.
  induction a as [|[lo hi] a IH]; intros b; simpl; auto.
  rewrite IH, orb_assoc; reflexivity.
Qed.

Lemma matches_in_ranges : forall r w, matches r w -> forall c, In c w -> in_cls c (ranges r) = true.
Proof.
  induction 1; intros x Hin; simpl in *; try contradiction; auto.
  - destruct Hin as [Hin|[]]; subst; auto.
  - rewrite in_cls_app. apply in_app_or in Hin; destruct Hin as [Hi|Hi];
      [rewrite (IHmatches1 _ Hi)|rewrite (IHmatches2 _ Hi)]; auto using orb_true_r.
  - rewrite in_cls_app, (IHmatches _ Hin); auto.
  - rewrite in_cls_app, (IHmatches _ Hin); auto using orb_true_r.
  - apply in_app_or in Hin; destruct Hin as [Hi|Hi]; auto.
  - apply in_app_or in Hin; destruct Hin as [Hi|Hi]; auto.
Qed.

Lemma star_any : forall rs w, (forall c, In c w -> in_cls c rs = true) -> matches (Star (Cls rs)) w.
Proof.
  induction w as [|c w IH]; intros H; [constructor|].
  change (c :: w) with ([c] ++ w). constructor.
  - constructor. apply H; left; auto.
  - apply IH. intros d Hd; apply H; right; auto.
Qed.
