(* RelayMultiProofs.v — C01 with the proxy's relay IN THE LOOP of the multi-carrier composition.

   Proofs/PacketPathMultiProofs.v proves the stream theorems over the server's carrier layer [srun] for every schedule,
   under the schedule-level hypothesis [honest_carriers]: the bytes the server was sent on every carrier that presented
   the ClientID ([sent_on i ops]) are a prefix of an honest sender's carrier stream.  Proofs/CopyLoopProofs.v proves, for
   ONE relay run [cl_run] (the proxy's copyLoop), that what the relay wrote towards the server is a prefix of what the
   client side handed it ([relay_prefix_of]) — and used it only for a single fresh [pump] ([upstream_via_relay]).
   Nothing connected the two.  Here:

   - [relayed_carriers ops cid sent]: for every carrier i of the schedule that presented [cid] there is a relay run
     (ANY read/write scripts of its two conns, ANY schedule of its copiers, closes and shutdown) whose client-side read
     script hands out (at most) an honest carrier stream of packets of [sent], and the bytes the server was sent on
     carrier i so far are a prefix of what that relay has written to its server side (the WebSocket; the server may not
     have been handed all of it yet);
   - [relayed_carriers_honest]: then [honest_carriers ops cid sent] holds — the hypothesis is DERIVED from the relay model;
   - the upstream stream theorems restated with [relayed_carriers] in place of [honest_carriers];
   - downstream the same way: what a client reads from the bytes a relay wrote to ITS side (any relay run whose
     server-side read script hands out at most what the server wrote on a carrier of [cid]) is a prefix-decoding of that
     carrier's wire, so the existing multi-carrier theorem applies. *)
From Coq Require Import List NArith Bool Arith Lia.
From Snow Require Import Lib.Wire Model.Encap Proofs.EncapProofs Model.CarrierLayer Proofs.CarrierProofs
  Proofs.CarrierOnceProofs Proofs.CarrierFragProofs Proofs.CarrierMultiProofs Proofs.PacketPathProofs
  Proofs.PacketPathMultiProofs Model.CopyLoop Proofs.CopyLoopProofs.
Import ListNotations.
Open Scope N_scope.

Lemma is_prefix_trans {A} (a b c : list A) : is_prefix a b -> is_prefix b c -> is_prefix a c.
Proof. intros [x ->] [y ->]. exists (x ++ y). rewrite app_assoc. reflexivity. Qed.

Lemma firstn_is_prefix {A} n (l : list A) : is_prefix (firstn n l) l.
Proof. exists (skipn n l). symmetry. apply firstn_skipn. Qed.

(* what a relay run has written to its server side (side 1 = the WebSocket) / to its client side (side 0 = WebRTC) *)
Definition relay_to_server (r0 : list cl_ritem) (w0 : list cl_witem) (r1 : list cl_ritem) (w1 : list cl_witem)
  (sched : list cl_step) : bytes := s_in (side1 (cl_run sched (cl_init r0 w0 r1 w1))).
Definition relay_to_client (r0 : list cl_ritem) (w0 : list cl_witem) (r1 : list cl_ritem) (w1 : list cl_witem)
  (sched : list cl_step) : bytes := s_in (side0 (cl_run sched (cl_init r0 w0 r1 w1))).

(* one carrier, through a relay: the bytes are a prefix of the honest stream *)
Lemma relayed_prefix : forall r0 w0 r1 w1 sched str got,
  is_prefix (script_data r0) str -> is_prefix got (relay_to_server r0 w0 r1 w1 sched) -> is_prefix got str.
Proof.
  intros r0 w0 r1 w1 sched str got Hs Hg.
  destruct (relay_prefix_of r0 r1 w0 w1 sched false str Hs) as [k Hk]. cbn [negb get_side] in Hk.
  unfold relay_to_server in Hg. rewrite Hk in Hg. eapply is_prefix_trans; [exact Hg | apply firstn_is_prefix].
Qed.

Definition relayed_carriers (ops : list sop) (cid : bytes) (sent : list bytes) : Prop :=
  forall i k, nth_error (carriers (srun ops)) i = Some k -> k_cid k = cid -> ~ pre_open k ->
    exists ps w r0 w0 r1 w1 sched,
      wire_of ps = Some w /\ (forall p, In p ps -> In p sent) /\
      is_prefix (script_data r0) (carrier_stream cid w) /\
      is_prefix (sent_on i ops) (relay_to_server r0 w0 r1 w1 sched).

(* THE COMPOSITION: the schedule-level hypothesis of the multi-carrier theorems follows from the relay model *)
Theorem relayed_carriers_honest : forall ops cid sent,
  relayed_carriers ops cid sent -> honest_carriers ops cid sent.
Proof.
  intros ops cid sent H i k Hk Hcid Hnp.
  destruct (H i k Hk Hcid Hnp) as (ps & w & r0 & w0 & r1 & w1 & sched & Hw & Hsub & Hscr & Hgot).
  exists ps, w. split; [exact Hw|]. split; [exact Hsub|].
  exact (relayed_prefix r0 w0 r1 w1 sched _ _ Hscr Hgot).
Qed.

Theorem session_packets_are_senders_via_relay : forall ops cid sent p,
  length cid = 8%nat -> relayed_carriers ops cid sent ->
  In (p, cid) (surfaced (srun ops)) -> In p sent.
Proof.
  intros ops cid sent p Hc Hr. apply session_packets_are_senders; [exact Hc | apply relayed_carriers_honest; exact Hr].
Qed.

(* downstream, one client read through a relay: a relay whose server-side read script hands out (at most) the wire [wk]
   of a carrier has written to the client a cut of [wk]; the client's reader, under any reader behaviour, reads from it
   what [read_from wk cut sc] says *)
Lemma relayed_read_from : forall r0 w0 r1 w1 sched wk sc,
  is_prefix (script_data r1) wk ->
  exists cut, fst (read_stream (relay_to_client r0 w0 r1 w1 sched) sc) = read_from wk cut sc.
Proof.
  intros r0 w0 r1 w1 sched wk sc Hs.
  destruct (relay_prefix_of r0 r1 w0 w1 sched true wk Hs) as [k Hk]. cbn [negb get_side] in Hk.
  exists k. unfold relay_to_client, read_from. rewrite Hk. reflexivity.
Qed.

Section ArqBoundaryRelay.
  Variable packets_of : bytes -> list bytes -> Prop.
  Variable stream_of : list bytes -> bytes.
  Hypothesis arq_safe : forall written sent recv,
    packets_of written sent -> (forall p, In p recv -> In p sent) -> is_prefix (stream_of recv) written.

  Theorem upstream_stream_prefix_multi_via_relay : forall written sent cid ops recv,
    length cid = 8%nat -> packets_of written sent -> relayed_carriers ops cid sent ->
    (forall p, In p recv -> In (p, cid) (surfaced (srun ops))) ->
    is_prefix (stream_of recv) written.
  Proof.
    intros written sent cid ops recv Hc Hpk Hr Hrecv.
    apply (upstream_stream_prefix_multi packets_of stream_of arq_safe written sent cid ops recv Hc Hpk); [|exact Hrecv].
    apply relayed_carriers_honest. exact Hr.
  Qed.

  Theorem downstream_stream_prefix_multi_via_relay : forall written sent cid ops recv,
    packets_of written sent ->
    (forall p, In (cid, p) (accepted (srun ops)) -> In p sent) ->
    (forall p, In p recv -> exists i k r0 w0 r1 w1 sched sc,
        nth_error (carriers (srun ops)) i = Some k /\ k_cid k = cid /\
        is_prefix (script_data r1) (k_wire k) /\
        In p (fst (read_stream (relay_to_client r0 w0 r1 w1 sched) sc))) ->
    is_prefix (stream_of recv) written.
  Proof.
    intros written sent cid ops recv Hpk Hacc Hrecv.
    apply (downstream_stream_prefix_multi packets_of stream_of arq_safe written sent cid ops recv Hpk Hacc).
    intros p Hin. destruct (Hrecv p Hin) as (i & k & r0 & w0 & r1 & w1 & sched & sc & Hk & Hcid & Hs & Hp).
    destruct (relayed_read_from r0 w0 r1 w1 sched (k_wire k) sc Hs) as [cut Hcut]. rewrite Hcut in Hp.
    exists i, k, cut, sc. auto.
  Qed.
End ArqBoundaryRelay.
