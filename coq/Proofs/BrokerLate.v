(* BrokerLate.v — what survives a finished exchange, and polls under a repeated session id.
   (1) C02: an answer that was accepted for a poll whose exchange is over (the client has left its select, or the
       poll expired unmatched) is never taken out of that poll's answer channel by anybody: the record, its channels
       and their contents die with the exchange; and a client only ever receives an answer whose request resolved,
       when it was made, to the very poll holding this client - so an answer accepted late for one poll cannot show
       up at the client of a later poll.
   (2) C04: a proxy poll is registered as a NEW entry with a waiter of its own whatever the id map holds - also under
       a session id that is still registered; the earlier poll's entry is not touched (only the id map now resolves the
       id to the newer poll), so the per-request bounds of Proofs/BrokerBounds.v apply to both. *)
From Coq Require Import List NArith ZArith Bool Arith Lia.
From Snow Require Import Model.Broker Proofs.BrokerProofs Proofs.BrokerSteps Proofs.BrokerThms Proofs.BrokerHist
                         Proofs.BrokerBounds.
Import ListNotations.
Open Scope N_scope.

(* ---- (1) ---- *)

(* the exchange of this poll is over: it is in no heap, and either its client has left the select on the answer
   channel (response chosen, or already returned), or it has no client and its handler returned "no match" *)
Definition finished (e : entry) : bool :=
  negb (e_inheap e) &&
  match e_cl e with
  | Some c => match c_pc c with C_Cleanup _ | C_Done _ => true | _ => false end
  | None => match e_w e with W_Done PNoMatch => true | _ => false end
  end.

(* what its client was told (if it had one) *)
Definition told (e : entry) : option cresp :=
  match e_cl e with
  | Some c => match c_pc c with C_Cleanup r | C_Done r => Some r | _ => None end
  | None => None
  end.

Lemma finished_upd (es : list entry) p0 f p e :
  nth_error es p = Some e -> finished e = true ->
  (forall x, finished x = true -> finished (f x) = true /\ told (f x) = told x) ->
  exists e', nth_error (upd p0 f es) p = Some e' /\ finished e' = true /\ told e' = told e.
Proof.
  intros Hp Hf Hpres. destruct (Nat.eq_dec p0 p) as [->|Hne].
  - exists (f e). split; [apply nth_upd_eq; exact Hp | apply Hpres; exact Hf].
  - exists e. split; [rewrite nth_upd_neq by exact Hne; exact Hp | split; [exact Hf | reflexivity]].
Qed.

(* a step that targets another entry, or whose guard a finished entry fails *)
Ltac fin_other H Hp Hf :=
  injection H as <-; cbn [entries with_entries];
  apply (finished_upd _ _ _ _ _ Hp Hf); intros x Hx; split; [exact Hx | reflexivity].

Lemma fin_cl_none e : finished e = true -> e_cl e = None -> e_w e = W_Done PNoMatch /\ e_inheap e = false.
Proof.
  unfold finished. intros H Hc. rewrite Hc in H. apply andb_prop in H. destruct H as [Hh Hw].
  split; [|destruct (e_inheap e); [discriminate | reflexivity]].
  destruct (e_w e) as [| | | | |r]; try discriminate. destruct r; try discriminate. reflexivity.
Qed.

Lemma fin_inheap e : finished e = true -> e_inheap e = false.
Proof. unfold finished. intros H. apply andb_prop in H. destruct H as [H _]. destruct (e_inheap e); [discriminate|reflexivity]. Qed.

Lemma fin_cl_some e c : finished e = true -> e_cl e = Some c -> exists r, c_pc c = C_Cleanup r \/ c_pc c = C_Done r.
Proof.
  unfold finished. intros H Hc. rewrite Hc in H. apply andb_prop in H. destruct H as [_ H].
  destruct (c_pc c) as [| |r|r]; try discriminate; exists r; [left|right]; reflexivity.
Qed.

(* one step: a finished entry stays finished, its client's response stays what it is, and the step is not a receive
   from this entry's answer channel *)
Ltac fin_neq Hgen Hne H := injection H as <-; cbn [entries with_entries]; apply Hgen; exact Hne.

Ltac fin_eq Hp :=
  eexists; split; [apply nth_upd_eq; exact Hp | unfold finished, told in *; cbn in *].

Theorem finished_step v s l s' p e :
  step v s l = Some s' -> nth_error (entries s) p = Some e -> finished e = true ->
  l <> L_CTakeAnswer p /\ l <> L_RvAnswer p /\
  exists e', nth_error (entries s') p = Some e' /\ finished e' = true /\ told e' = told e.
Proof.
  intros H Hp Hf.
  assert (Hgen : forall (f : entry -> entry) p0, p0 <> p ->
            exists e', nth_error (upd p0 f (entries s)) p = Some e' /\ finished e' = true /\ told e' = told e).
  { intros f p0 Hne. exists e. split; [rewrite nth_upd_neq by exact Hne; exact Hp | split; [exact Hf | reflexivity]]. }
  pose proof (fin_inheap e Hf) as Hheap.
  destruct l; cbn [step] in H.
  - (* Poll *) split; [discriminate|]. split; [discriminate|]. injection H as <-. cbn [entries].
    exists e. split; [apply nth_app_old; exact Hp | split; [exact Hf | reflexivity]].
  - (* FireW *) split; [discriminate|]. split; [discriminate|].
    destruct (nth_error (entries s) p0) as [e0|] eqn:H0; [|discriminate].
    destruct (e_w e0) eqn:Hw; try discriminate. destruct (e_wfired e0); [discriminate|].
    destruct (Nat.eq_dec p0 p) as [->|Hne]; [|fin_neq Hgen Hne H].
    rewrite Hp in H0. injection H0 as <-. injection H as <-. cbn [entries with_entries]. fin_eq Hp.
    rewrite Hw in Hf. destruct (e_cl e) as [c|]; [|rewrite andb_false_r in Hf; discriminate]. split; [exact Hf | reflexivity].
  - (* WTake *) split; [discriminate|]. split; [discriminate|].
    destruct (nth_error (entries s) p0) as [e0|] eqn:H0; [|discriminate].
    destruct (e_w e0) eqn:Hw; try discriminate. destruct (e_wfired e0); [|discriminate].
    destruct (Nat.eq_dec p0 p) as [->|Hne]; [|fin_neq Hgen Hne H].
    rewrite Hp in H0. injection H0 as <-. injection H as <-. cbn [entries with_entries]. fin_eq Hp.
    rewrite Hw in Hf. destruct (e_cl e) as [c|]; [|rewrite andb_false_r in Hf; discriminate]. split; [exact Hf | reflexivity].
  - (* WTimeoutCS *) split; [discriminate|]. split; [discriminate|].
    destruct (nth_error (entries s) p0) as [e0|] eqn:H0; [|discriminate].
    destruct (e_w e0) eqn:Hw; try discriminate.
    destruct (Nat.eq_dec p0 p) as [->|Hne].
    + rewrite Hp in H0. injection H0 as <-. rewrite Hheap in H. injection H as <-. cbn [entries with_entries]. fin_eq Hp.
      rewrite Hw in Hf. destruct (e_cl e) as [c|]; [|rewrite andb_false_r in Hf; discriminate].
      destruct v; cbn; (split; [exact Hf | reflexivity]).
    + destruct (e_inheap e0); fin_neq Hgen Hne H.
  - (* Client *) split; [discriminate|]. split; [discriminate|].
    destruct (lookup (fp_of ofp) (bridges s)).
    + destruct choice as [p0|].
      * destruct (nth_error (entries s) p0) as [e0|] eqn:H0; [|discriminate].
        destruct (eligible n e0 && is_min n (entries s) e0) eqn:Hel; [|discriminate].
        destruct (Nat.eq_dec p0 p) as [->|Hne]; [|fin_neq Hgen Hne H].
        exfalso. rewrite Hp in H0. injection H0 as <-. apply andb_prop in Hel. destruct Hel as [Hel _].
        destruct (eligible_inheap n e Hel) as [Hh _]. congruence.
      * destruct (pool_empty n (entries s)); [|discriminate]. injection H as <-. cbn [entries].
        exists e. split; [exact Hp | split; [exact Hf | reflexivity]].
    + destruct choice; [discriminate|]. injection H as <-. cbn [entries].
      exists e. split; [exact Hp | split; [exact Hf | reflexivity]].
  - (* RvOffer *) split; [discriminate|]. split; [discriminate|].
    destruct (nth_error (entries s) p0) as [e0|] eqn:H0; [|discriminate].
    destruct (e_cl e0) as [c|] eqn:Hc; [|discriminate]. destruct (c_pc c) eqn:Hpc; try discriminate.
    destruct (match e_w e0 with W_Select | W_Late => true | _ => false end); [|discriminate].
    destruct (Nat.eq_dec p0 p) as [->|Hne]; [|fin_neq Hgen Hne H].
    exfalso. rewrite Hp in H0. injection H0 as <-. destruct (fin_cl_some e c Hf Hc) as [r [Hr|Hr]]; congruence.
  - (* RvForward *) split; [discriminate|]. split; [discriminate|].
    destruct (nth_error (entries s) p0) as [e0|] eqn:H0; [|discriminate].
    destruct (e_w e0) eqn:Hw; try discriminate.
    destruct (Nat.eq_dec p0 p) as [->|Hne]; [|fin_neq Hgen Hne H].
    rewrite Hp in H0. injection H0 as <-. injection H as <-. cbn [entries with_entries]. fin_eq Hp.
    rewrite Hw in Hf. destruct (e_cl e) as [c|]; [|rewrite andb_false_r in Hf; discriminate]. split; [exact Hf | reflexivity].
  - (* FireC *) split; [discriminate|]. split; [discriminate|].
    destruct (nth_error (entries s) p0) as [e0|] eqn:H0; [|discriminate].
    destruct (e_cl e0) as [c|] eqn:Hc; [|discriminate]. destruct (c_pc c) eqn:Hpc; try discriminate.
    destruct (c_fired c); [discriminate|].
    destruct (Nat.eq_dec p0 p) as [->|Hne]; [|fin_neq Hgen Hne H].
    exfalso. rewrite Hp in H0. injection H0 as <-. destruct (fin_cl_some e c Hf Hc) as [r [Hr|Hr]]; congruence.
  - (* CTake *) split; [discriminate|]. split; [discriminate|].
    destruct (nth_error (entries s) p0) as [e0|] eqn:H0; [|discriminate].
    destruct (e_cl e0) as [c|] eqn:Hc; [|discriminate]. destruct (c_pc c) eqn:Hpc; try discriminate.
    destruct (c_fired c); [|discriminate].
    destruct (Nat.eq_dec p0 p) as [->|Hne]; [|fin_neq Hgen Hne H].
    exfalso. rewrite Hp in H0. injection H0 as <-. destruct (fin_cl_some e c Hf Hc) as [r [Hr|Hr]]; congruence.
  - (* CCleanup: the response chosen is the response returned *) split; [discriminate|]. split; [discriminate|].
    destruct (nth_error (entries s) p0) as [e0|] eqn:H0; [|discriminate].
    destruct (e_cl e0) as [c|] eqn:Hc; [|discriminate]. destruct (c_pc c) eqn:Hpc; try discriminate.
    destruct (Nat.eq_dec p0 p) as [->|Hne]; [|fin_neq Hgen Hne H].
    rewrite Hp in H0. injection H0 as <-. injection H as <-. cbn [entries]. fin_eq Hp.
    rewrite Hc, Hpc in *. rewrite Hheap. split; reflexivity.
  - (* Answer: a lookup may still resolve to it (the late answer); it only joins the senders *)
    split; [discriminate|]. split; [discriminate|].
    destruct (lookup s0 (idmap s)) as [p0|].
    + destruct (Nat.eq_dec p0 p) as [->|Hne]; [|fin_neq Hgen Hne H].
      injection H as <-. cbn [entries]. fin_eq Hp. split; [exact Hf | reflexivity].
    + injection H as <-. cbn [entries]. exists e. split; [exact Hp | split; [exact Hf | reflexivity]].
  - (* RvAnswer (V0): needs the client in its select *)
    destruct v; [|discriminate]. destruct (nth_error (entries s) p0) as [e0|] eqn:H0; [|discriminate].
    destruct (e_senders e0) as [|[aid a0] rest]; [discriminate|].
    destruct (e_cl e0) as [c|] eqn:Hc; [|discriminate]. destruct (c_pc c) eqn:Hpc; try discriminate.
    destruct (Nat.eq_dec p0 p) as [->|Hne].
    + exfalso. rewrite Hp in H0. injection H0 as <-. destruct (fin_cl_some e c Hf Hc) as [r [Hr|Hr]]; congruence.
    + split; [discriminate|]. split; [intros E; injection E as E; contradiction|]. fin_neq Hgen Hne H.
  - (* AnswerPut: the late answer may be ACCEPTED into the channel of a finished entry *)
    split; [discriminate|]. split; [discriminate|].
    destruct v; [discriminate|]. destruct (nth_error (entries s) p0) as [e0|] eqn:H0; [|discriminate].
    destruct (e_senders e0) as [|[aid a0] rest]; [discriminate|].
    destruct (Nat.eq_dec p0 p) as [->|Hne]; [|fin_neq Hgen Hne H].
    rewrite Hp in H0. injection H0 as <-. injection H as <-. cbn [entries]. fin_eq Hp.
    destruct (e_buf e); cbn; (split; [exact Hf | reflexivity]).
  - (* CTakeAnswer: needs the client in its select *)
    destruct v; [discriminate|]. destruct (nth_error (entries s) p0) as [e0|] eqn:H0; [|discriminate].
    destruct (e_buf e0); [|discriminate]. destruct (e_cl e0) as [c|] eqn:Hc; [|discriminate].
    destruct (c_pc c) eqn:Hpc; try discriminate.
    destruct (Nat.eq_dec p0 p) as [->|Hne].
    + exfalso. rewrite Hp in H0. injection H0 as <-. destruct (fin_cl_some e c Hf Hc) as [r [Hr|Hr]]; congruence.
    + split; [intros E; injection E as E; contradiction|]. split; [discriminate|]. fin_neq Hgen Hne H.
  - (* Install *) split; [discriminate|]. split; [discriminate|]. injection H as <-. cbn [entries].
    exists e. split; [exact Hp | split; [exact Hf | reflexivity]].
Qed.

(* along any run from a state in which the exchange of poll p is over: nobody ever receives from p's answer channel
   again (neither label occurs), the entry stays finished, and what its client was told never changes *)
Theorem finished_forever v : forall ls s s' p e,
  run v s ls = Some s' -> nth_error (entries s) p = Some e -> finished e = true ->
  ~ In (L_CTakeAnswer p) ls /\ ~ In (L_RvAnswer p) ls /\
  exists e', nth_error (entries s') p = Some e' /\ finished e' = true /\ told e' = told e.
Proof.
  induction ls as [|l ls IH]; intros s s' p e H Hp Hf; cbn [run] in H.
  - injection H as <-. split; [intros []|]. split; [intros []|]. exists e. repeat split; assumption.
  - destruct (step v s l) as [s1|] eqn:Hs; [|discriminate].
    destruct (finished_step v s l s1 p e Hs Hp Hf) as [N1 [N2 [e1 [Hp1 [Hf1 Ht1]]]]].
    destruct (IH s1 s' p e1 H Hp1 Hf1) as [M1 [M2 [e' [Hp' [Hf' Ht']]]]].
    split; [intros [E|I]; [exact (N1 E) | exact (M1 I)]|].
    split; [intros [E|I]; [exact (N2 E) | exact (M2 I)]|].
    exists e'. split; [exact Hp'|]. split; [exact Hf'|]. rewrite Ht'. exact Ht1.
Qed.

(* in reachable states: a client that has left its select (timed out or answered), and a poll that expired unmatched,
   are finished in this sense *)
Lemma reachable_client_left_finished v br s p e c r :
  reachable v br s -> nth_error (entries s) p = Some e -> e_cl e = Some c ->
  (c_pc c = C_Cleanup r \/ c_pc c = C_Done r) -> finished e = true /\ told e = Some r.
Proof.
  intros R Hp Hc Hpc. unfold finished, told. rewrite Hc.
  assert (Hh : e_inheap e = false).
  { destruct (e_inheap e) eqn:Hh; [|reflexivity].
    destruct (proj1 (inheap_iff_waiting v br s p e R Hp) Hh) as [Hn _]. congruence. }
  rewrite Hh. destruct Hpc as [->| ->]; split; reflexivity.
Qed.

Lemma reachable_expired_finished v br s p e :
  reachable v br s -> nth_error (entries s) p = Some e -> e_cl e = None -> e_w e = W_Done PNoMatch -> finished e = true.
Proof.
  intros R Hp Hc Hw. unfold finished. rewrite Hc, Hw.
  destruct (e_inheap e) eqn:Hh; [|reflexivity].
  destruct (proj1 (inheap_iff_waiting v br s p e R Hp) Hh) as [_ Hww]. rewrite Hw in Hww. discriminate.
Qed.

(* C02: an answer accepted for poll p after p's client timed out is never delivered - not to that client (its response
   is and stays "timed out") and, along ANY continuation with any number of further polls, clients and answers, not
   through p's channel to anybody *)
Theorem late_answer_dies_with_its_poll v br ls s s' p e c :
  reachable v br s -> nth_error (entries s) p = Some e -> e_cl e = Some c ->
  (c_pc c = C_Cleanup CTimedOut \/ c_pc c = C_Done CTimedOut) ->
  run v s ls = Some s' ->
  ~ In (L_CTakeAnswer p) ls /\ ~ In (L_RvAnswer p) ls /\
  exists e' c', nth_error (entries s') p = Some e' /\ e_cl e' = Some c' /\
                (c_pc c' = C_Cleanup CTimedOut \/ c_pc c' = C_Done CTimedOut).
Proof.
  intros R Hp Hc Hpc H.
  destruct (reachable_client_left_finished v br s p e c CTimedOut R Hp Hc Hpc) as [Hf Ht].
  destruct (finished_forever v ls s s' p e H Hp Hf) as [N1 [N2 [e' [Hp' [Hf' Ht']]]]].
  split; [exact N1|]. split; [exact N2|]. rewrite Ht in Ht'. unfold told in Ht'.
  destruct (e_cl e') as [c'|] eqn:Hc'; [|discriminate]. exists e', c'. split; [exact Hp'|]. split; [exact Hc'|].
  destruct (c_pc c') as [| |r|r]; try discriminate; injection Ht' as ->; [left|right]; reflexivity.
Qed.

(* ... and it cannot reach the client of another poll by any other way: a client (of poll q) receives an answer only if
   an answer request carrying it resolved, when it was made, to q itself. Contrapositive of
   answer_resolved_to_this_poll: if every request of the history that carried a resolved elsewhere (to the poll whose
   client had gone, say) or to nothing, no client of q is ever given a. *)
Theorem late_answer_never_delivered_later v br ls s q e c a :
  run v (init br) ls = Some s -> nth_error (entries s) q = Some e -> e_cl e = Some c ->
  (forall pre post s1 sd, ls = pre ++ L_Answer sd a :: post -> run v (init br) pre = Some s1 ->
                          lookup sd (idmap s1) <> Some q) ->
  ~ client_answered c a.
Proof.
  intros H Hq Hc Hno Ha.
  destruct (answer_resolved_to_this_poll v br ls s q e c a H Hq Hc Ha) as [pre [post [s1 [E [Hr Hl]]]]].
  exact (Hno pre post s1 (e_sid e) E Hr Hl).
Qed.

(* ---- (2) repeated session ids ---- *)

(* a proxy poll is always registered, as a new entry with its own waiter (5 own steps to go), whatever the id map holds;
   the entries registered before - also one under the same session id - are untouched; the id map resolves the id to
   the new poll from now on *)
Theorem poll_always_registers v s sd n pt cl :
  exists s', step v s (L_Poll sd n pt cl) = Some s' /\
    entries s' = entries s ++ [new_entry sd n pt cl] /\
    lookup sd (idmap s') = Some (length (entries s)) /\
    (forall p e, nth_error (entries s) p = Some e -> nth_error (entries s') p = Some e) /\
    pm s' (length (entries s)) = 5%nat.
Proof.
  eexists. split; [reflexivity|]. cbn [entries idmap]. split; [reflexivity|]. split.
  - unfold set_key. cbn [lookup]. rewrite N.eqb_refl. reflexivity.
  - split; [intros p e Hp; apply nth_app_old; exact Hp|].
    unfold pm. cbn [entries]. rewrite nth_error_app2 by apply le_n. rewrite Nat.sub_diag. reflexivity.
Qed.
