(* SdpStripProofs.v — proofs about Model/SdpStrip.v (C08; remote_ip for C13). *)
From Coq Require Import List NArith Bool Lia.
From Snow Require Import Lib.Wire Model.IpClass Model.SdpStrip Proofs.IpClassProofs.
Import ListNotations.
Open Scope N_scope.

Definition keep (a : attr) : bool := negb (bad_host a).

(* the loop of the code is the order-preserving filter *)
Lemma strip_loop_filter : forall rest attrs, strip_loop rest attrs = attrs ++ filter keep rest.
Proof.
  induction rest as [|a rest IH]; intros attrs; cbn [strip_loop filter].
  - rewrite app_nil_r. reflexivity.
  - unfold keep at 1, bad_host. destruct (a_class a) as [t addr| |].
    + destruct t; cbn [is_host negb]; try (rewrite IH, <- app_assoc; reflexivity).
      destruct addr as [ip|]; cbn [negb]; try (rewrite IH, <- app_assoc; reflexivity).
      destruct (bad_addr ip); cbn [negb]; [apply IH | rewrite IH, <- app_assoc; reflexivity].
    + cbn [negb]. rewrite IH, <- app_assoc. reflexivity.
    + cbn [negb]. rewrite IH, <- app_assoc. reflexivity.
Qed.

Lemma strip_media_filter : forall m, strip_media m = filter keep m.
Proof. intros m. unfold strip_media. rewrite strip_loop_filter. reflexivity. Qed.

Lemma strip_filter : forall d, strip d = map (filter keep) d.
Proof. intros d. unfold strip. apply map_ext. apply strip_media_filter. Qed.

(* what is dropped, spelled out *)
Lemma bad_host_spec : forall a,
  bad_host a = true <-> exists ip, a_class a = Cand Host (Some ip) /\ bad_addr ip = true.
Proof.
  intros a. unfold bad_host. split.
  - destruct (a_class a) as [t addr| |]; try discriminate. destruct t; try discriminate.
    destruct addr as [ip|]; try discriminate. intro H. exists ip. split; [reflexivity|exact H].
  - intros [ip [E H]]. rewrite E. exact H.
Qed.

(* ---------------------------------------------------------------- nothing local is left *)

Lemma no_local_host_left : forall d m a ip,
  In m (strip d) -> In a m -> a_class a = Cand Host (Some ip) ->
  is_local ip = false /\ is_unspecified ip = false /\ is_loopback ip = false.
Proof.
  intros d m a ip Hm Ha Hc. rewrite strip_filter in Hm. apply in_map_iff in Hm.
  destruct Hm as [m0 [Em _]]. subst m. apply filter_In in Ha. destruct Ha as [_ Hk].
  unfold keep, bad_host in Hk. rewrite Hc in Hk. apply negb_true_iff in Hk.
  unfold bad_addr in Hk. apply orb_false_iff in Hk. destruct Hk as [Hk Hl]. apply orb_false_iff in Hk.
  destruct Hk as [H1 H2]. auto.
Qed.

Lemma bad_addr_false_of : forall ip,
  is_local ip = false -> is_unspecified ip = false -> is_loopback ip = false -> bad_addr ip = false.
Proof. intros ip H1 H2 H3. unfold bad_addr. rewrite H1, H2, H3. reflexivity. Qed.

(* … in numbers: the 16-byte address net.ParseIP produced lies in none of the ranges *)
Lemma no_local_host_left_num : forall d m a ip,
  In m (strip d) -> In a m -> a_class a = Cand Host (Some ip) -> wf ip ->
  (List.length ip = 16%nat -> ~ bad16 (be_num ip))
  /\ (forall x y z w, ip = [x; y; z; w] -> ~ bad4 (v4num x y z w)).
Proof.
  intros d m a ip Hm Ha Hc Hwf.
  destruct (no_local_host_left d m a ip Hm Ha Hc) as [H1 [H2 H3]].
  pose proof (bad_addr_false_of ip H1 H2 H3) as Hb.
  split.
  - intros Hlen Hbad. apply (bad_addr_16 ip Hwf Hlen) in Hbad. congruence.
  - intros x y z w E Hbad. subst ip. apply (bad_addr_4 x y z w Hwf) in Hbad. congruence.
Qed.

(* ---------------------------------------------------------------- everything else is kept, in order *)

(* order-preserving sub-sequence *)
Inductive Sublist {A} : list A -> list A -> Prop :=
| sl_nil : Sublist [] []
| sl_skip : forall x l1 l2, Sublist l1 l2 -> Sublist l1 (x :: l2)
| sl_keep : forall x l1 l2, Sublist l1 l2 -> Sublist (x :: l1) (x :: l2).

Lemma filter_sublist : forall {A} (f : A -> bool) l, Sublist (filter f l) l.
Proof.
  intros A f l. induction l as [|x l IH]; cbn [filter]; [constructor|].
  destruct (f x); constructor; exact IH.
Qed.

Lemma sublist_len_filter : forall {A} (f : A -> bool) l s,
  Sublist s l -> Forall (fun x => f x = true) s -> (List.length s <= List.length (filter f l))%nat.
Proof.
  intros A f l s H. induction H as [|y a b H IH|y a b H IH]; intros Hall; cbn [filter List.length].
  - lia.
  - specialize (IH Hall). destruct (f y); cbn [List.length]; lia.
  - inversion Hall as [|? ? Hy Hr]; subst. rewrite Hy. cbn [List.length]. specialize (IH Hr). lia.
Qed.

(* a sub-sequence that holds only elements satisfying f and as many as the filter IS the filter:
   so the clauses of [rest_preserved] determine the output completely *)
Lemma sublist_filter_unique : forall {A} (f : A -> bool) l s,
  Sublist s l -> Forall (fun x => f x = true) s -> List.length s = List.length (filter f l) -> s = filter f l.
Proof.
  intros A f l s H. induction H as [|x l1 l2 H IH|x l1 l2 H IH]; intros Hall Hlen; cbn [filter] in *.
  - reflexivity.
  - destruct (f x) eqn:E.
    + exfalso. cbn [List.length] in Hlen. pose proof (sublist_len_filter f l2 l1 H Hall). lia.
    + apply IH; assumption.
  - inversion Hall as [|? ? Hx Hr]; subst. rewrite Hx in *. cbn [List.length] in Hlen. f_equal. apply IH; [assumption|lia].
Qed.

Lemma rest_preserved : forall d,
  List.length (strip d) = List.length d
  /\ Forall2 (fun m_in m_out =>
                m_out = filter keep m_in
                /\ Sublist m_out m_in
                /\ (forall a, In a m_out <-> In a m_in /\ bad_host a = false))
             d (strip d).
Proof.
  intros d. rewrite strip_filter. split; [apply map_length|].
  induction d as [|m d IH]; cbn [map]; constructor; [|exact IH].
  split; [reflexivity|]. split; [apply filter_sublist|].
  intros a. rewrite filter_In. unfold keep. rewrite negb_true_iff. tauto.
Qed.

Lemma strip_identity : forall d,
  (forall m a, In m d -> In a m -> bad_host a = false) -> strip d = d.
Proof.
  intros d H. rewrite strip_filter. induction d as [|m d IH]; cbn [map]; [reflexivity|]. f_equal.
  - assert (Hm : forall a, In a m -> bad_host a = false) by (intros a Ha; apply (H m a); [left; reflexivity|exact Ha]).
    clear -Hm. induction m as [|a m IHm]; cbn [filter]; [reflexivity|].
    unfold keep at 1. rewrite (Hm a (or_introl eq_refl)). cbn [negb]. f_equal. apply IHm.
    intros b Hb. apply Hm. right. exact Hb.
  - apply IH. intros m0 a Hm0 Ha. apply (H m0 a); [right; exact Hm0|exact Ha].
Qed.

Lemma strip_idempotent : forall d, strip (strip d) = strip d.
Proof.
  intros d. apply strip_identity. intros m a Hm Ha.
  rewrite strip_filter in Hm. apply in_map_iff in Hm. destruct Hm as [m0 [E _]]. subst m.
  apply filter_In in Ha. destruct Ha as [_ Hk]. unfold keep in Hk. apply negb_true_iff in Hk. exact Hk.
Qed.

(* the text-level wrapper never fails: unparsable input is returned unchanged *)
Lemma strip_text_total : forall mok p, strip_text mok p = Unchanged \/ exists d, strip_text mok p = Stripped d.
Proof. intros [|] [d|]; try (left; reflexivity). right; exists (strip d); reflexivity. Qed.

(* the input comes back as it was exactly when one of the two library calls failed *)
Lemma strip_text_unchanged_iff : forall mok p, strip_text mok p = Unchanged <-> p = None \/ mok = false.
Proof.
  intros [|] [d|]; cbn [strip_text]; split; intros H; try reflexivity; try discriminate; auto.
  destruct H; discriminate.
Qed.

Lemma strip_text_stripped : forall mok p d', strip_text mok p = Stripped d' -> mok = true /\ exists d, p = Some d /\ d' = strip d.
Proof.
  intros [|] [d|] d' H; cbn [strip_text] in H; try discriminate. inversion H. split; [reflexivity|]. exists d. split; reflexivity.
Qed.

(* ---------------------------------------------------------------- remoteIPFromSDP (C13) *)

Lemma first_remote_sound : forall l ip, first_remote l = Some ip ->
  bad_addr ip = false /\ exists a t, In a l /\ a_class a = Cand t (Some ip).
Proof.
  induction l as [|a l IH]; intros ip H; cbn [first_remote] in H; [discriminate|].
  destruct (a_class a) as [t addr| |] eqn:Ec.
  - destruct addr as [q|].
    + destruct (bad_addr q) eqn:Eb; cbn [negb] in H.
      * destruct (IH ip H) as [Hb [a' [t' [Hin Hc]]]]. split; [exact Hb|]. exists a', t'. split; [right; exact Hin|exact Hc].
      * inversion H; subst. split; [exact Eb|]. exists a, t. split; [left; reflexivity|exact Ec].
    + destruct (IH ip H) as [Hb [a' [t' [Hin Hc]]]]. split; [exact Hb|]. exists a', t'. split; [right; exact Hin|exact Hc].
  - destruct (IH ip H) as [Hb [a' [t' [Hin Hc]]]]. split; [exact Hb|]. exists a', t'. split; [right; exact Hin|exact Hc].
  - destruct (IH ip H) as [Hb [a' [t' [Hin Hc]]]]. split; [exact Hb|]. exists a', t'. split; [right; exact Hin|exact Hc].
Qed.

Lemma first_remote_none : forall l, first_remote l = None ->
  forall a t ip, In a l -> a_class a = Cand t (Some ip) -> bad_addr ip = true.
Proof.
  induction l as [|a l IH]; intros H a' t ip Hin Hc; [destruct Hin|].
  cbn [first_remote] in H. destruct Hin as [E|Hin].
  - subst a'. rewrite Hc in H. destruct (bad_addr ip); [reflexivity|discriminate].
  - destruct (a_class a) as [t0 addr| |].
    + destruct addr as [q|]; [destruct (negb (bad_addr q)); [discriminate|]|]; apply (IH H a' t ip Hin Hc).
    + apply (IH H a' t ip Hin Hc).
    + apply (IH H a' t ip Hin Hc).
Qed.

Lemma first_remote_pattern_sound : forall caps ip, first_remote_pattern caps = Some ip ->
  bad_addr ip = false /\ In (Some ip) caps.
Proof.
  induction caps as [|c caps IH]; intros ip H; cbn [first_remote_pattern] in H; [discriminate|].
  destruct c as [q|].
  - destruct (bad_addr q) eqn:Eb; cbn [negb] in H.
    + destruct (IH ip H) as [Hb Hin]. split; [exact Hb|right; exact Hin].
    + inversion H; subst. split; [exact Eb|left; reflexivity].
  - destruct (IH ip H) as [Hb Hin]. split; [exact Hb|right; exact Hin].
Qed.

Lemma remote_ip_sound : forall p caps ip, remote_ip p caps = Some ip ->
  is_local ip = false /\ is_unspecified ip = false /\ is_loopback ip = false.
Proof.
  intros p caps ip H. assert (Hb : bad_addr ip = false).
  { unfold remote_ip in H. destruct p as [d|]; [|discriminate].
    destruct (first_remote (concat d)) as [q|] eqn:E.
    - inversion H; subst. apply (first_remote_sound _ _ E).
    - apply (first_remote_pattern_sound _ _ H). }
  unfold bad_addr in Hb. apply orb_false_iff in Hb. destruct Hb as [Hb H3]. apply orb_false_iff in Hb. tauto.
Qed.

Lemma remote_ip_total : forall p caps,
  remote_ip p caps = None
  \/ exists ip, remote_ip p caps = Some ip /\ is_local ip = false /\ is_unspecified ip = false /\ is_loopback ip = false.
Proof.
  intros p caps. destruct (remote_ip p caps) as [ip|] eqn:E; [right|left; reflexivity].
  exists ip. split; [reflexivity|]. apply (remote_ip_sound p caps ip E).
Qed.
