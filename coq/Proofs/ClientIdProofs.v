(* ClientIdProofs.v — proofs about Model/ClientIdRing.v, ClientAddr.v, ServerCarrier.v (C18). *)
From Coq Require Import List NArith Bool Arith Lia.
From Snow Require Import Lib.Wire Model.ClientIdRing Model.ClientAddr Model.ServerCarrier.
Import ListNotations.
Open Scope nat_scope.

(* ------------------------------------------------------------------ arithmetic of slots *)

(* index of the slot holding the j-th most recent Set (j = 0 is the newest), for a ring of n
   slots whose next victim is o *)
Definition slot (n o j : nat) : nat := if j <? o then o - 1 - j else o + n - 1 - j.

Ltac brk :=
  repeat match goal with
         | |- context [?a <? ?b] => destruct (Nat.ltb_spec a b)
         | |- context [?a =? ?b] => destruct (Nat.eqb_spec a b)
         | H : context [?a <? ?b] |- _ => destruct (Nat.ltb_spec a b)
         | H : context [?a =? ?b] |- _ => destruct (Nat.eqb_spec a b)
         end.

Lemma succ_mod : forall o n, o < n -> (o + 1) mod n = if o + 1 =? n then 0 else o + 1.
Proof.
  intros o n Ho. destruct (Nat.eqb_spec (o + 1) n) as [E | E].
  - rewrite E. apply Nat.mod_same. lia.
  - apply Nat.mod_small. lia.
Qed.

Definition nxt (n o : nat) : nat := if o + 1 =? n then 0 else o + 1.

Lemma nxt_lt : forall n o, o < n -> nxt n o < n.
Proof. intros n o H. unfold nxt. brk; lia. Qed.

Lemma slot_nxt_0 : forall n o, o < n -> slot n (nxt n o) 0 = o.
Proof. intros n o H. unfold slot, nxt. brk; lia. Qed.

Lemma slot_nxt_S : forall n o j, o < n -> S j < n -> slot n (nxt n o) (S j) = slot n o j.
Proof. intros n o j H Hj. unfold slot, nxt. brk; lia. Qed.

Lemma slot_eq_oldest : forall n o j, o < n -> j < n -> (slot n o j = o <-> j = n - 1).
Proof. intros n o j H Hj. unfold slot. brk; lia. Qed.

Lemma slot_lt : forall n o j, o < n -> j < n -> slot n o j < n.
Proof. intros n o j H Hj. unfold slot. brk; lia. Qed.

(* ------------------------------------------------------------------ lists *)

Lemma beq_eq : forall a b, beq a b = true <-> a = b.
Proof.
  induction a as [| x a IH]; destruct b as [| y b]; cbn [beq]; split; intro H; try reflexivity; try discriminate.
  - apply andb_true_iff in H. destruct H as [H1 H2]. apply N.eqb_eq in H1. apply IH in H2. congruence.
  - inversion H; subst. apply andb_true_iff. split; [apply N.eqb_refl | apply IH; reflexivity].
Qed.

Section RingProofs.
  Variable A : Type.
  Variable nilA : A.

  Notation ringA := (ring A).
  Notation d := (0%N, nilA).
  Notation cur_get := (cur_get).
  Notation new := (new A nilA).
  Notation set := (set A nilA).
  Notation get := (get A nilA).
  Notation exec := (exec A nilA).
  Notation outputs := (outputs A nilA).
  Notation assoc := (assoc A).
  Notation sets_rev_aux := (sets_rev_aux A).
  Notation sets_rev := (sets_rev A).
  Notation spec_get := (spec_get A).
  Notation spec_outputs := (spec_outputs A).

  Lemma upd_length : forall {B} i (x : B) l, length (upd i x l) = length l.
  Proof. induction i; destruct l; cbn [upd length]; auto. Qed.

  Lemma nth_upd : forall {B} (l : list B) o i x dd, o < length l ->
    nth i (upd o x l) dd = if i =? o then x else nth i l dd.
  Proof.
    induction l as [| y l IH]; intros o i x dd Ho; cbn [length] in Ho; [lia |].
    destruct o as [| o]; destruct i as [| i]; cbn [upd nth Nat.eqb]; try reflexivity.
    apply IH. lia.
  Qed.

  (* ---------- the map current ---------- *)

  Lemma cur_get_del_same : forall k m, cur_get k (cur_del k m) = None.
  Proof.
    induction m as [| [k' i] m IH]; [reflexivity |]. unfold cur_del in *. cbn [filter fst].
    destruct (N.eqb_spec k' k) as [E | E]; cbn [negb]; [exact IH |].
    cbn [ClientIdRing.cur_get]. destruct (N.eqb_spec k' k); [contradiction | exact IH].
  Qed.

  Lemma cur_get_del_other : forall k k' m, k' <> k -> cur_get k' (cur_del k m) = cur_get k' m.
  Proof.
    intros k k' m Hne. induction m as [| [k0 i] m IH]; [reflexivity |]. unfold cur_del in *. cbn [filter fst].
    destruct (N.eqb_spec k0 k) as [E | E]; cbn [negb ClientIdRing.cur_get].
    - subst k0. destruct (N.eqb_spec k k'); [congruence | exact IH].
    - destruct (N.eqb_spec k0 k'); [reflexivity | exact IH].
  Qed.

  Lemma cur_get_put : forall k i m k',
    cur_get k' (cur_put k i m) = if N.eqb k k' then Some i else cur_get k' m.
  Proof.
    intros k i m k'. unfold cur_put. cbn [ClientIdRing.cur_get].
    destruct (N.eqb_spec k k') as [E | E]; [reflexivity |]. apply cur_get_del_other. congruence.
  Qed.

  Lemma keys_del_incl : forall k m x, In x (map fst (cur_del k m)) -> In x (map fst m).
  Proof.
    intros k m x H. apply in_map_iff in H. destruct H as [p [Hp Hin]]. unfold cur_del in Hin.
    apply filter_In in Hin. apply in_map_iff. exists p. tauto.
  Qed.

  Lemma keys_del_notin : forall k m, ~ In k (map fst (cur_del k m)).
  Proof.
    intros k m H. apply in_map_iff in H. destruct H as [p [Hp Hin]]. unfold cur_del in Hin.
    apply filter_In in Hin. destruct Hin as [_ Hf]. rewrite Hp in Hf. rewrite N.eqb_refl in Hf. discriminate.
  Qed.

  Lemma nodup_del : forall k m, NoDup (map fst m) -> NoDup (map fst (cur_del k m)).
  Proof.
    intros k m. induction m as [| [k0 i] m IH]; intro H; [constructor |].
    cbn [map fst] in H. inversion H as [| ? ? Hnin Hnd]; subst. unfold cur_del in *. cbn [filter fst].
    destruct (N.eqb k0 k); cbn [negb]; [apply IH; exact Hnd |].
    cbn [map fst]. constructor; [| apply IH; exact Hnd].
    intro Hin. apply Hnin. eapply keys_del_incl. exact Hin.
  Qed.

  Lemma nodup_put : forall k i m, NoDup (map fst m) -> NoDup (map fst (cur_put k i m)).
  Proof.
    intros k i m H. unfold cur_put. cbn [map fst]. constructor; [apply keys_del_notin | apply nodup_del; exact H].
  Qed.

  Lemma key_in_get : forall k m, In k (map fst m) -> cur_get k m <> None.
  Proof.
    intros k m. induction m as [| [k0 i] m IH]; cbn [map fst In ClientIdRing.cur_get]; [tauto |].
    intros [E | Hin]; destruct (N.eqb_spec k0 k); try discriminate; try congruence. apply IH; exact Hin.
  Qed.

  (* ---------- histories: index of the most recent Set of an id ---------- *)

  Fixpoint fidx (k : N) (l : list (N * A)) : option nat :=
    match l with
    | [] => None
    | (k', _) :: l' => if N.eqb k' k then Some 0 else option_map S (fidx k l')
    end.

  Lemma fidx_lt : forall k l j, fidx k l = Some j -> j < length l.
  Proof.
    intros k l. induction l as [| [k' a] l IH]; intros j H; cbn [fidx] in H; [discriminate |].
    destruct (N.eqb k' k).
    - inversion H. cbn [length]. lia.
    - destruct (fidx k l) as [j0 |]; cbn [option_map] in H; [| discriminate].
      inversion H. cbn [length]. specialize (IH j0 eq_refl). lia.
  Qed.

  Lemma fidx_nth : forall k l j, fidx k l = Some j -> fst (nth j l d) = k.
  Proof.
    intros k l. induction l as [| [k' a] l IH]; intros j H; cbn [fidx] in H; [discriminate |].
    destruct (N.eqb_spec k' k) as [E | E].
    - inversion H. cbn [nth fst]. exact E.
    - destruct (fidx k l) as [j0 |]; cbn [option_map] in H; [| discriminate].
      inversion H. cbn [nth]. apply IH. reflexivity.
  Qed.

  Lemma assoc_firstn : forall k l n,
    assoc k (firstn n l) =
    match fidx k l with
    | Some j => if j <? n then Some (snd (nth j l d)) else None
    | None => None
    end.
  Proof.
    intros k l. induction l as [| [k' a] l IH]; intros n.
    - rewrite firstn_nil. reflexivity.
    - destruct n as [| n].
      + cbn [firstn ClientIdRing.assoc fidx]. destruct (N.eqb k' k); [reflexivity |].
        destruct (fidx k l); reflexivity.
      + cbn [firstn ClientIdRing.assoc fidx]. destruct (N.eqb k' k); [reflexivity |].
        rewrite IH. destruct (fidx k l) as [j |]; cbn [option_map]; [| reflexivity].
        cbn [nth]. change (S j <? S n) with (j <? n). reflexivity.
  Qed.

  Lemma fidx_in_firstn : forall k l j n, fidx k l = Some j -> j < n -> In k (map fst (firstn n l)).
  Proof.
    intros k l. induction l as [| [k' a] l IH]; intros j n H Hj; cbn [fidx] in H; [discriminate |].
    destruct n as [| n]; [lia |]. cbn [firstn map fst In].
    destruct (N.eqb_spec k' k) as [E | E]; [left; exact E |].
    destruct (fidx k l) as [j0 |]; cbn [option_map] in H; [| discriminate].
    inversion H; subst. right. apply (IH j0); [reflexivity | lia].
  Qed.

  (* ---------- the invariant tying the ring to the history of Sets (most recent first) ---------- *)

  Record inv (r : ringA) (h : list (N * A)) : Prop := {
    inv_old : oldest r < length (entries r);
    inv_ent : forall j, j < length (entries r) -> j < length h ->
              nth (slot (length (entries r)) (oldest r) j) (entries r) d = nth j h d;
    inv_cur : forall k, cur_get k (current r) =
              match fidx k h with
              | Some j => if j <? length (entries r) then Some (slot (length (entries r)) (oldest r) j) else None
              | None => None
              end;
    inv_nodup : NoDup (map fst (current r))
  }.

  Lemma inv_new : forall c, inv (new (S c)) [].
  Proof.
    intro c. constructor; cbn [new entries oldest current ClientIdRing.new].
    - rewrite repeat_length. lia.
    - intros j _ H. cbn [length] in H. lia.
    - intro k. reflexivity.
    - constructor.
  Qed.

  Lemma set_unfold : forall r k a, 0 < length (entries r) ->
    set r k a =
    let o := oldest r in
    let ek := fst (nth o (entries r) d) in
    let cur1 :=
      match cur_get ek (current r) with
      | Some i => if Nat.eqb i o then cur_del ek (current r) else current r
      | None => current r
      end in
    mkRing A (upd o (k, a) (entries r)) ((o + 1) mod length (entries r)) (cur_put k o cur1).
  Proof.
    intros r k a H. unfold ClientIdRing.set. destruct (length (entries r)) eqn:E; [lia | reflexivity].
  Qed.

  Lemma inv_set : forall r h k a, inv r h -> inv (set r k a) ((k, a) :: h).
  Proof.
    intros r h k a I. destruct I as [Iold Ient Icur Ind].
    assert (Hpos : 0 < length (entries r)) by lia.
    rewrite (set_unfold r k a Hpos). cbv zeta.
    set (n := length (entries r)) in *. set (o := oldest r) in *.
    set (ek := fst (nth o (entries r) d)).
    set (cur1 := match cur_get ek (current r) with
                 | Some i => if Nat.eqb i o then cur_del ek (current r) else current r
                 | None => current r end).
    assert (Emod : (o + 1) mod n = nxt n o) by (apply succ_mod; exact Iold).
    (* how cur1 answers, for ids other than the one being set *)
    assert (Hcur1 : forall k', cur_get k' cur1 =
              match fidx k' h with
              | Some j => if S j <? n then Some (slot n o j) else None
              | None => None
              end).
    { intro k'. pose proof (Icur k') as Ck'. pose proof (Icur ek) as Cek.
      (* the slot about to be overwritten holds h[n-1] when the ring is full *)
      assert (Hev : forall j, fidx k' h = Some j -> j = n - 1 -> ek = k' /\ cur_get k' (current r) = Some o).
      { intros j Hf Hj. pose proof (fidx_lt _ _ _ Hf) as Hlt. pose proof (fidx_nth _ _ _ Hf) as Hn.
        assert (Hs : slot n o j = o) by (apply slot_eq_oldest; lia).
        split.
        - unfold ek. rewrite <- Hs. rewrite Ient by lia. exact Hn.
        - rewrite Ck', Hf. destruct (Nat.ltb_spec j n); [rewrite Hs; reflexivity | lia]. }
      unfold cur1. destruct (cur_get ek (current r)) as [i |] eqn:Eg.
      - destruct (Nat.eqb_spec i o) as [Eio | Eio].
        + (* the victim slot is the current entry of ek: ek is deleted *)
          subst i. destruct (N.eq_dec k' ek) as [Ek | Ek].
          * subst k'. rewrite cur_get_del_same.
            destruct (fidx ek h) as [j |] eqn:Ef; [| reflexivity].
            destruct (Nat.ltb_spec j n) as [Hjn | Hjn]; [| discriminate].
            inversion Cek as [Hs]. symmetry in Hs. apply slot_eq_oldest in Hs; [| lia | lia].
            destruct (Nat.ltb_spec (S j) n); [lia | reflexivity].
          * rewrite cur_get_del_other by exact Ek. rewrite Ck'.
            destruct (fidx k' h) as [j |] eqn:Ef; [| reflexivity].
            destruct (Nat.ltb_spec j n) as [Hjn | Hjn]; destruct (Nat.ltb_spec (S j) n) as [Hsn | Hsn];
              try reflexivity; try lia.
            exfalso. destruct (Hev j eq_refl) as [E1 _]; [lia | congruence].
        + (* the current entry of ek is elsewhere: nothing is deleted *)
          rewrite Ck'. destruct (fidx k' h) as [j |] eqn:Ef; [| reflexivity].
          destruct (Nat.ltb_spec j n) as [Hjn | Hjn]; destruct (Nat.ltb_spec (S j) n) as [Hsn | Hsn];
            try reflexivity; try lia.
          exfalso. destruct (Hev j eq_refl) as [E1 E2]; [lia |]. subst k'. rewrite Eg in E2. congruence.
      - rewrite Ck'. destruct (fidx k' h) as [j |] eqn:Ef; [| reflexivity].
        destruct (Nat.ltb_spec j n) as [Hjn | Hjn]; destruct (Nat.ltb_spec (S j) n) as [Hsn | Hsn];
          try reflexivity; try lia.
        exfalso. destruct (Hev j eq_refl) as [E1 E2]; [lia |]. subst k'. rewrite Eg in E2. discriminate. }
    assert (Hnd1 : NoDup (map fst cur1)).
    { unfold cur1. destruct (cur_get ek (current r)) as [i |]; [| exact Ind].
      destruct (Nat.eqb i o); [apply nodup_del; exact Ind | exact Ind]. }
    constructor; cbn [entries oldest current]; rewrite ?upd_length; fold n; rewrite ?Emod.
    - apply nxt_lt. exact Iold.
    - intros j Hj Hjh. destruct j as [| j].
      + rewrite slot_nxt_0 by exact Iold. rewrite nth_upd by exact Iold. rewrite Nat.eqb_refl. reflexivity.
      + rewrite slot_nxt_S by lia. rewrite nth_upd by exact Iold.
        destruct (Nat.eqb_spec (slot n o j) o) as [E | E].
        * apply slot_eq_oldest in E; lia.
        * cbn [nth]. apply Ient; [lia |]. cbn [length] in Hjh. lia.
    - intro k'. rewrite cur_get_put. cbn [fidx].
      destruct (N.eqb_spec k k') as [E | E].
      + destruct (Nat.ltb_spec 0 n); [| lia]. rewrite slot_nxt_0 by exact Iold. reflexivity.
      + rewrite Hcur1. destruct (fidx k' h) as [j |]; cbn [option_map]; [| reflexivity].
        destruct (Nat.ltb_spec (S j) n) as [Hsn | Hsn]; [| reflexivity].
        rewrite slot_nxt_S by lia. reflexivity.
    - apply nodup_put. exact Hnd1.
  Qed.

  Lemma set_length : forall r k a, length (entries (set r k a)) = length (entries r).
  Proof.
    intros r k a. unfold ClientIdRing.set. destruct (length (entries r)) eqn:E; [exact E |].
    cbn [entries]. rewrite upd_length. exact E.
  Qed.

  Lemma inv_get : forall r h k, inv r h -> get r k = spec_get (length (entries r)) h k.
  Proof.
    intros r h k I. destruct I as [Iold Ient Icur Ind].
    unfold ClientIdRing.get, ClientIdRing.spec_get, window. rewrite assoc_firstn. rewrite Icur.
    destruct (fidx k h) as [j |] eqn:Ef; [| reflexivity].
    destruct (Nat.ltb_spec j (length (entries r))) as [Hj | Hj]; [| reflexivity].
    rewrite Ient; [reflexivity | exact Hj | eapply fidx_lt; exact Ef].
  Qed.

  (* ---------- the relation used for whole histories, capacity 0 included ---------- *)

  Definition rel (cap : nat) (r : ringA) (h : list (N * A)) : Prop :=
    match cap with
    | O => r = new 0
    | S _ => length (entries r) = cap /\ inv r h
    end.

  Lemma rel_new : forall cap, rel cap (new cap) [].
  Proof.
    intros [| c]; cbn [rel]; [reflexivity |]. split; [| apply inv_new].
    cbn [ClientIdRing.new entries]. apply repeat_length.
  Qed.

  Lemma rel_set : forall cap r h k a, rel cap r h -> rel cap (set r k a) ((k, a) :: h).
  Proof.
    intros [| c] r h k a; cbn [rel].
    - intro E. subst r. reflexivity.
    - intros [El I]. split; [rewrite set_length; exact El | apply inv_set; exact I].
  Qed.

  Lemma rel_get : forall cap r h k, rel cap r h -> get r k = spec_get cap h k.
  Proof.
    intros [| c] r h k; cbn [rel].
    - intro E. subst r. reflexivity.
    - intros [El I]. rewrite <- El. apply inv_get. exact I.
  Qed.

  Lemma rel_exec : forall cap ops r h, rel cap r h -> rel cap (exec r ops) (sets_rev_aux h ops).
  Proof.
    intros cap ops. induction ops as [| [k a | k] ops IH]; intros r h R.
    - exact R.
    - cbn [ClientIdRing.exec fold_left step ClientIdRing.sets_rev_aux]. apply IH. apply rel_set. exact R.
    - cbn [ClientIdRing.exec fold_left step ClientIdRing.sets_rev_aux]. apply IH. exact R.
  Qed.

  Theorem ring_refines_window : forall cap ops k,
    get (exec (new cap) ops) k = spec_get cap (sets_rev ops) k.
  Proof.
    intros cap ops k. apply rel_get. unfold ClientIdRing.sets_rev. apply rel_exec. apply rel_new.
  Qed.

  Lemma rel_outputs : forall cap ops r h, rel cap r h -> outputs r ops = spec_outputs cap h ops.
  Proof.
    intros cap ops. induction ops as [| [k a | k] ops IH]; intros r h R.
    - reflexivity.
    - cbn [ClientIdRing.outputs ClientIdRing.spec_outputs]. apply IH. apply rel_set. exact R.
    - cbn [ClientIdRing.outputs ClientIdRing.spec_outputs]. f_equal; [apply rel_get; exact R | apply IH; exact R].
  Qed.

  Theorem ring_trace_refines_window : forall cap ops,
    outputs (new cap) ops = spec_outputs cap [] ops.
  Proof. intros cap ops. apply rel_outputs. apply rel_new. Qed.

  Lemma rel_bounded : forall cap r h, rel cap r h ->
    length (entries r) = cap /\ length (current r) <= cap /\ NoDup (map fst (current r)) /\
    (cap <> 0 -> oldest r < cap).
  Proof.
    intros [| c] r h; cbn [rel].
    - intro E. subst r. cbn. repeat split; try lia. constructor.
    - intros [El I]. destruct I as [Iold Ient Icur Ind]. repeat split; try assumption; try lia.
      rewrite <- (map_length fst).
      transitivity (length (map fst (firstn (S c) h))).
      + apply NoDup_incl_length; [exact Ind |]. intros k Hin.
        pose proof (key_in_get _ _ Hin) as Hne. rewrite Icur in Hne.
        destruct (fidx k h) as [j |] eqn:Ef; [| congruence].
        rewrite El in Hne. destruct (Nat.ltb_spec j (S c)) as [Hj | Hj]; [| congruence].
        eapply fidx_in_firstn; eassumption.
      + rewrite map_length. apply firstn_le_length.
  Qed.

  Theorem ring_bounded : forall cap ops,
    let r := exec (new cap) ops in
    length (entries r) = cap /\ length (current r) <= cap /\ NoDup (map fst (current r)) /\
    (cap <> 0 -> oldest r < cap).
  Proof. intros cap ops. cbv zeta. eapply rel_bounded. apply rel_exec. apply rel_new. Qed.

  (* the indices used by Set and Get are inside the slots: the defaults of [nth] in the model are
     never what is read *)
  Lemma rel_indices : forall cap r h k i, rel cap r h -> cur_get k (current r) = Some i -> i < cap.
  Proof.
    intros [| c] r h k i; cbn [rel].
    - intro E. subst r. cbn. discriminate.
    - intros [El I] Hg. destruct I as [Iold Ient Icur Ind]. rewrite Icur in Hg.
      destruct (fidx k h) as [j |]; [| discriminate]. rewrite El in Hg.
      destruct (Nat.ltb_spec j (S c)) as [Hj | Hj]; [| discriminate].
      inversion Hg. apply slot_lt; lia.
  Qed.

  Theorem ring_indices_in_range : forall cap ops k i,
    cur_get k (current (exec (new cap) ops)) = Some i -> i < length (entries (exec (new cap) ops)).
  Proof.
    intros cap ops k i H. pose proof (rel_exec cap ops (new cap) [] (rel_new cap)) as R.
    destruct (rel_bounded cap _ _ R) as [El _]. rewrite El. eapply rel_indices; eassumption.
  Qed.

  Theorem ring_cap0 : forall ops k, exec (new 0) ops = new 0 /\ get (exec (new 0) ops) k = None.
  Proof.
    intros ops k. pose proof (rel_exec 0 ops (new 0) [] (rel_new 0)) as R. cbn [rel] in R.
    rewrite R. split; reflexivity.
  Qed.

  (* an id read back is one that was Set, with the address of that Set *)
  Lemma assoc_in : forall k l a, assoc k l = Some a -> In (k, a) l.
  Proof.
    intros k l a. induction l as [| [k' a'] l IH]; cbn [ClientIdRing.assoc]; [discriminate |].
    destruct (N.eqb_spec k' k) as [E | E]; intro H.
    - inversion H; subst. left. reflexivity.
    - right. apply IH. exact H.
  Qed.
End RingProofs.

(* ------------------------------------------------------------------ the sanitiser *)

Lemma join_host_port_suffix : forall h p, exists pre, join_host_port h p = pre ++ [COLON] ++ p.
Proof.
  intros h p. unfold join_host_port. destruct (existsb (N.eqb COLON) h).
  - exists ([91%N] ++ h ++ [93%N]). rewrite <- !app_assoc. reflexivity.
  - exists h. reflexivity.
Qed.

Lemma join_host_port_nonempty : forall h p, join_host_port h p <> [].
Proof.
  intros h p. destruct (join_host_port_suffix h p) as [pre E]. rewrite E.
  intro H. apply app_eq_nil in H. destruct H as [_ H]. discriminate.
Qed.

Lemma unspecified_iff : forall ip, unspecified ip = true <-> ip = v4zero \/ ip = zero16.
Proof.
  intro ip. unfold unspecified. rewrite orb_true_iff, !beq_eq. tauto.
Qed.

Theorem sanitise_spec : forall p,
  (sanitise p = [] <-> p = Absent \/ p = Unparsable \/ exists ip, p = Parsed ip /\ (ip = v4zero \/ ip = zero16)) /\
  (forall ip, p = Parsed ip -> ip <> v4zero -> ip <> zero16 ->
     sanitise p = join_host_port (ip_string ip) stub_port /\
     exists pre, sanitise p = pre ++ [COLON; 49%N]).
Proof.
  intro p. split.
  - destruct p as [| | ip]; cbn [sanitise].
    + split; [intros _; left; reflexivity | reflexivity].
    + split; [intros _; right; left; reflexivity | reflexivity].
    + destruct (unspecified ip) eqn:U.
      * split; [| reflexivity]. intros _. right. right. exists ip. split; [reflexivity |].
        apply unspecified_iff. exact U.
      * split.
        -- intro H. exfalso. eapply join_host_port_nonempty. exact H.
        -- intros [H | [H | [ip' [E Hu]]]]; try discriminate. inversion E; subst ip'.
           apply unspecified_iff in Hu. congruence.
  - intros ip E H1 H2. subst p. cbn [sanitise].
    destruct (unspecified ip) eqn:U.
    + apply unspecified_iff in U. tauto.
    + split; [reflexivity |]. destruct (join_host_port_suffix (ip_string ip) stub_port) as [pre Ep].
      exists pre. exact Ep.
Qed.

(* ------------------------------------------------------------------ carriers and sessions *)

Definition lift (cs : list (N * param)) : list (N * addr) := map (fun c => (fst c, AStr (sanitise (snd c)))) cs.

Lemma assoc_lift : forall k cs,
  assoc addr k (lift cs) = option_map (fun p => AStr (sanitise p)) (assoc param k cs).
Proof.
  intros k cs. induction cs as [| [k' p] cs IH]; [reflexivity |].
  cbn [lift map fst snd assoc]. destruct (N.eqb k' k); [reflexivity | exact IH].
Qed.

Lemma firstn_lift : forall n cs, firstn n (lift cs) = lift (firstn n cs).
Proof. intros n cs. unfold lift. apply firstn_map. Qed.

Lemma rel_accept : forall cap r cs cid, rel addr ANil cap r (lift cs) -> accept r cid = spec_attr cap cs cid.
Proof.
  intros cap r cs cid R. unfold accept, spec_attr. rewrite (rel_get addr ANil cap r (lift cs) cid R).
  unfold spec_get, window. rewrite firstn_lift, assoc_lift.
  destruct (assoc param cid (firstn cap cs)); reflexivity.
Qed.

Lemma rel_state : forall cap pre r cs, rel addr ANil cap r (lift cs) ->
  rel addr ANil cap (fold_left ev_step pre r) (lift (carriers_rev_aux cs pre)).
Proof.
  intros cap pre. induction pre as [| [cid p | cid | k] pre IH]; intros r cs R.
  - exact R.
  - cbn [fold_left ev_step carriers_rev_aux]. apply IH. unfold carrier_step.
    change (lift ((cid, p) :: cs)) with ((cid, AStr (sanitise p)) :: lift cs). apply rel_set. exact R.
  - cbn [fold_left ev_step carriers_rev_aux]. apply IH. exact R.
  - cbn [fold_left ev_step carriers_rev_aux]. apply IH. exact R.
Qed.

Theorem attribution_spec : forall cap pre cid,
  accept (state_after cap pre) cid = spec_attr cap (carriers_rev pre) cid.
Proof.
  intros cap pre cid. apply rel_accept. unfold state_after, carriers_rev.
  apply (rel_state cap pre (new addr ANil cap) []). apply rel_new.
Qed.

Lemma attributions_spec_gen : forall cap evs r cs, rel addr ANil cap r (lift cs) ->
  attributions accept r evs = spec_attributions cap cs evs.
Proof.
  intros cap evs. induction evs as [| [cid p | cid | k] evs IH]; intros r cs R.
  - reflexivity.
  - cbn [attributions spec_attributions]. apply IH. unfold carrier_step.
    change (lift ((cid, p) :: cs)) with ((cid, AStr (sanitise p)) :: lift cs). apply rel_set. exact R.
  - cbn [attributions spec_attributions]. f_equal; [eapply rel_accept; exact R | apply IH; exact R].
  - cbn [attributions spec_attributions]. apply IH. exact R.
Qed.

Theorem run_is_spec : forall cap evs, run cap evs = spec_attributions cap [] evs.
Proof. intros cap evs. unfold run. apply attributions_spec_gen. apply rel_new. Qed.

(* run hands the session established after the events pre exactly accept (state_after cap pre) *)
Lemma attributions_app : forall acc pre r cid post,
  attributions acc r (pre ++ Accept cid :: post) =
  attributions acc r pre ++ acc (fold_left ev_step pre r) cid :: attributions acc (fold_left ev_step pre r) post.
Proof.
  intros acc pre. induction pre as [| [c p | c | k] pre IH]; intros r cid post.
  - reflexivity.
  - cbn [app attributions fold_left ev_step]. apply IH.
  - cbn [app attributions fold_left ev_step]. rewrite IH. reflexivity.
  - cbn [app attributions fold_left ev_step]. apply IH.
Qed.

Theorem run_nth : forall cap pre cid post dflt,
  nth (length (run cap pre)) (run cap (pre ++ Accept cid :: post)) dflt = accept (state_after cap pre) cid.
Proof.
  intros cap pre cid post dflt. unfold run. rewrite attributions_app.
  rewrite app_nth2 by lia. rewrite Nat.sub_diag. reflexivity.
Qed.

Lemma carriers_rev_aux_in : forall pre cs c p,
  In (c, p) (carriers_rev_aux cs pre) -> In (c, p) cs \/ In (Carrier c p) pre.
Proof.
  induction pre as [| [c0 p0 | c0 | k0] pre IH]; intros cs c p H; cbn [carriers_rev_aux] in H.
  - left. exact H.
  - apply IH in H. destruct H as [[E | H] | H].
    + inversion E; subst. right. left. reflexivity.
    + left. exact H.
    + right. right. exact H.
  - apply IH in H. destruct H as [H | H]; [left; exact H | right; right; exact H].
  - apply IH in H. destruct H as [H | H]; [left; exact H | right; right; exact H].
Qed.

Lemma in_firstn : forall {B} n (l : list B) x, In x (firstn n l) -> In x l.
Proof.
  intros B n. induction n as [| n IH]; intros l x H; [destruct H |].
  destruct l as [| y l]; [destruct H |]. cbn [firstn In] in *. destruct H as [H | H]; [left; exact H | right; apply IH; exact H].
Qed.

Theorem never_foreign : forall cap pre cid,
  accept (state_after cap pre) cid = AStr [] \/
  exists p, In (Carrier cid p) pre /\ accept (state_after cap pre) cid = AStr (sanitise p).
Proof.
  intros cap pre cid. rewrite attribution_spec. unfold spec_attr.
  destruct (assoc param cid (firstn cap (carriers_rev pre))) as [p |] eqn:E; [| left; reflexivity].
  right. exists p. split; [| reflexivity].
  apply assoc_in in E. apply in_firstn in E. unfold carriers_rev in E.
  apply carriers_rev_aux_in in E. destruct E as [[] | E]. exact E.
Qed.

Theorem useraddr_defined : forall cap pre cid, exists s, useraddr (accept (state_after cap pre) cid) = Some s.
Proof.
  intros cap pre cid. rewrite attribution_spec. unfold spec_attr.
  destruct (assoc param cid (firstn cap (carriers_rev pre))); eexists; reflexivity.
Qed.

(* ---------- every connection of a session carries the address looked up when the session was
   established, whatever carriers / evictions / other sessions come later ---------- *)

Lemma conns_in_sessions : forall acc evs r sess k a,
  In (k, a) (conns acc r sess evs) -> nth_error (sess ++ attributions acc r evs) k = Some a.
Proof.
  intros acc evs. induction evs as [| [cid p | cid | j] evs IH]; intros r sess k a H.
  - destruct H.
  - cbn [conns attributions] in *. apply IH. exact H.
  - cbn [conns attributions] in *. destruct H as [E | H].
    + inversion E; subst. rewrite nth_error_app2 by lia. rewrite Nat.sub_diag. reflexivity.
    + apply IH in H. rewrite <- app_assoc in H. exact H.
  - cbn [conns attributions] in *. destruct (nth_error sess j) as [a0 |] eqn:E.
    + destruct H as [E' | H]; [| apply IH; exact H].
      inversion E'; subst. rewrite nth_error_app1; [exact E |].
      apply nth_error_Some. rewrite E. discriminate.
    + apply IH. exact H.
Qed.

Theorem conns_session_fixed : forall cap evs k a,
  In (k, a) (run_conns cap evs) -> nth_error (run cap evs) k = Some a.
Proof. intros cap evs k a H. unfold run_conns in H. apply conns_in_sessions in H. exact H. Qed.

Theorem conns_address_of_establishment : forall cap pre cid post a,
  In (length (run cap pre), a) (run_conns cap (pre ++ Accept cid :: post)) ->
  a = accept (state_after cap pre) cid /\ a = spec_attr cap (carriers_rev pre) cid.
Proof.
  intros cap pre cid post a H. apply conns_session_fixed in H.
  unfold run in H. rewrite attributions_app in H.
  rewrite nth_error_app2 in H by lia. rewrite Nat.sub_diag in H. cbn [nth_error] in H.
  inversion H. split; [reflexivity | apply attribution_spec].
Qed.

(* the connections are exactly: one per Accept, one per Stream naming an established session *)
Lemma conns_app : forall acc pre r sess post,
  conns acc r sess (pre ++ post) =
  conns acc r sess pre ++ conns acc (fold_left ev_step pre r) (sess ++ attributions acc r pre) post.
Proof.
  intros acc pre. induction pre as [| [cid p | cid | j] pre IH]; intros r sess post.
  - cbn [app conns attributions fold_left]. rewrite app_nil_r. reflexivity.
  - cbn [app conns attributions fold_left ev_step]. apply IH.
  - cbn [app conns attributions fold_left ev_step]. rewrite IH. rewrite <- app_assoc. reflexivity.
  - cbn [app conns attributions fold_left ev_step]. destruct (nth_error sess j); rewrite IH; reflexivity.
Qed.

Theorem conns_first_stream : forall cap pre cid post,
  In (length (run cap pre), accept (state_after cap pre) cid) (run_conns cap (pre ++ Accept cid :: post)).
Proof.
  intros cap pre cid post. unfold run_conns. rewrite conns_app. apply in_or_app. right.
  cbn [conns app]. left. reflexivity.
Qed.

Theorem conns_later_stream : forall cap pre post k,
  k < length (run cap pre) ->
  exists a, nth_error (run cap pre) k = Some a /\ In (k, a) (run_conns cap (pre ++ Stream k :: post)).
Proof.
  intros cap pre post k Hk. destruct (nth_error (run cap pre) k) as [a |] eqn:E.
  - exists a. split; [reflexivity |]. unfold run_conns. rewrite conns_app. apply in_or_app. right.
    cbn [conns app]. unfold run in E. rewrite E. left. reflexivity.
  - apply nth_error_None in E. lia.
Qed.

(* ---------- the pinned acceptStreams: a ClientID that a carrier did present, but that cap later
   carriers pushed out of the map, gets a nil address ---------- *)

Definition flood (cap : nat) : list event :=
  Carrier 1%N (Parsed (repeat 0%N 10 ++ [255; 255; 1; 2; 3; 4]%N)) :: repeat (Carrier 2%N Absent) cap.

Lemma assoc_repeat_other : forall A k k' (a : A) n, k' <> k -> assoc A k (repeat (k', a) n) = None.
Proof.
  intros A k k' a n Hne. induction n as [| n IH]; [reflexivity |].
  cbn [repeat assoc]. destruct (N.eqb_spec k' k); [contradiction | exact IH].
Qed.

Lemma carriers_rev_aux_repeat : forall n c p cs,
  carriers_rev_aux cs (repeat (Carrier c p) n) = repeat (c, p) n ++ cs.
Proof.
  induction n as [| n IH]; intros c p cs; [reflexivity |].
  cbn [repeat carriers_rev_aux]. rewrite IH.
  change ((c, p) :: cs) with ([(c, p)] ++ cs). rewrite app_assoc. f_equal.
  change ((c, p) :: repeat (c, p) n) with (repeat (c, p) (S n)).
  rewrite <- repeat_cons. reflexivity.
Qed.

Lemma v0_get_none : forall cap pre cid,
  get addr ANil (state_after cap pre) cid = None -> accept_v0 (state_after cap pre) cid = ANil.
Proof. intros cap pre cid H. unfold accept_v0. rewrite H. reflexivity. Qed.

Theorem v0_forgotten_nil_flood : forall cap,
  In (Carrier 1%N (Parsed (repeat 0%N 10 ++ [255; 255; 1; 2; 3; 4]%N))) (flood cap) /\
  useraddr (accept_v0 (state_after cap (flood cap)) 1%N) = None.
Proof.
  intro cap. split; [left; reflexivity |].
  rewrite v0_get_none; [reflexivity |].
  pose proof (rel_state cap (flood cap) (new addr ANil cap) [] (rel_new addr ANil cap)) as R.
  unfold state_after. rewrite (rel_get addr ANil cap _ _ 1%N R). unfold spec_get, window.
  rewrite firstn_lift, assoc_lift. unfold flood. cbn [carriers_rev_aux].
  rewrite carriers_rev_aux_repeat. rewrite firstn_app. rewrite repeat_length, Nat.sub_diag.
  cbn [firstn]. rewrite app_nil_r. rewrite firstn_all2 by (rewrite repeat_length; lia).
  rewrite assoc_repeat_other by discriminate. reflexivity.
Qed.

Theorem v0_forgotten_nil : forall cap, exists pre cid p,
  In (Carrier cid p) pre /\ useraddr (accept_v0 (state_after cap pre) cid) = None.
Proof.
  intro cap. exists (flood cap), 1%N, (Parsed (repeat 0%N 10 ++ [255; 255; 1; 2; 3; 4]%N)).
  apply v0_forgotten_nil_flood.
Qed.

(* ------------------------------------------------------------------ carrier END events (Model/ServerCarrier.v) *)

Lemma conns_h_strip : forall acc hevs r sess,
  conns_h acc r sess hevs = conns acc r sess (strip_ends hevs).
Proof.
  intros acc hevs. induction hevs as [|h t IH]; intros r sess; [reflexivity|].
  destruct h as [[cid p|cid|k]|k]; cbn [conns_h strip_ends conns].
  - apply IH.
  - f_equal. apply IH.
  - destruct (nth_error sess k); [f_equal|]; apply IH.
  - apply IH.
Qed.

Lemma run_conns_h_strip : forall cap hevs, run_conns_h cap hevs = run_conns cap (strip_ends hevs).
Proof. intros. unfold run_conns_h, run_conns. apply conns_h_strip. Qed.

Lemma hstate_after_strip_gen : forall hevs r, fold_left hev_step hevs r = fold_left ev_step (strip_ends hevs) r.
Proof.
  induction hevs as [|h t IH]; intros r; [reflexivity|].
  destruct h as [e|k]; cbn [fold_left strip_ends hev_step]; apply IH.
Qed.

Lemma hstate_after_strip : forall cap hevs, hstate_after cap hevs = state_after cap (strip_ends hevs).
Proof. intros. unfold hstate_after, state_after. apply hstate_after_strip_gen. Qed.

(* inserting end events anywhere into a history changes no connection's address *)
Lemma ends_anywhere : forall cap h1 h2, strip_ends h1 = strip_ends h2 -> run_conns_h cap h1 = run_conns_h cap h2.
Proof. intros cap h1 h2 H. rewrite !run_conns_h_strip, H. reflexivity. Qed.
