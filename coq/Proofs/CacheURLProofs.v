(* CacheURLProofs.v — proofs about Model/CacheURL.v (C11: domain prefix, cache URL). *)
From Coq Require Import List NArith ZArith Lia Bool Arith String.
From Coq Require Import ZifyN ZifyNat ZifyBool.
From Snow Require Import Lib.Wire Lib.AmpPathUtil Model.CacheURL.
Import ListNotations.
Open Scope N_scope.
Notation length := List.length.
Ltac Zify.zify_post_hook ::= Z.div_mod_to_equations.

(* ---------- steps 2-4 never leave a dot ---------- *)

Lemma replace_byte_not_in : forall old new s, ~ In old new -> ~ In old (replace_byte old new s).
Proof.
  intros old new s Hn H. unfold replace_byte in H. apply in_flat_map in H. destruct H as [c [_ Hc]].
  destruct (c =? old) eqn:E; [auto|]. apply N.eqb_neq in E. destruct Hc as [Hc|[]]. congruence.
Qed.

Lemma steps234_dotfree : forall h34 u, ~ In DOTC (steps234 h34 u).
Proof.
  intros h34 u. unfold steps234.
  set (p := replace_byte DOTC [HYPHEN] (replace_byte HYPHEN [HYPHEN; HYPHEN] u)).
  assert (Hp : ~ In DOTC p).
  { apply replace_byte_not_in. intros [H|[]]. discriminate. }
  destruct (h34 p); [|assumption].
  intros H. cbn in H. destruct H as [H|[H|H]]; try discriminate.
  apply in_app_or in H. destruct H as [H|H]; [auto|].
  destruct H as [H|[H|[]]]; discriminate.
Qed.

(* ---------- the fallback: 52 characters of a-z2-7 ---------- *)

Definition b32_alpha (c : N) : Prop := (97 <= c /\ c <= 122) \/ (50 <= c /\ c <= 55).

Lemma b32_char_alpha : forall v, b32_alpha (b32_char v).
Proof.
  intros v. unfold b32_char, b32_alpha. cbv zeta.
  assert (H : v mod 32 < 32) by lia.
  destruct (v mod 32 <? 26) eqn:E; lia.
Qed.

Lemma b32_of_32_bytes : forall h, length h = 32%nat ->
  length (b32_encode h) = 52%nat /\ Forall b32_alpha (b32_encode h).
Proof.
  intros h H.
  do 32 (destruct h as [|? h]; [discriminate H|]).
  destruct h; [|discriminate H].
  cbn [b32_encode]. split; [reflexivity|].
  repeat (apply Forall_cons; [apply b32_char_alpha|]). apply Forall_nil.
Qed.

(* ---------- domain prefix: a single dot-free label of at most 63 bytes ---------- *)

Section PrefixLabel.
  Variable to_unicode : bytes -> option bytes.
  Variable to_ascii : bytes -> option bytes.
  Variable sha256 : bytes -> bytes.
  Variable h34 : bytes -> bool.
  (* what is assumed of the libraries *)
  Hypothesis to_ascii_dotfree : forall s r, to_ascii s = Some r -> ~ In DOTC s -> ~ In DOTC r.
  Hypothesis sha256_len : forall d, length (sha256 d) = 32%nat.

  Lemma fallback_label : forall d,
    length (domain_prefix_fallback sha256 d) = 52%nat /\ Forall b32_alpha (domain_prefix_fallback sha256 d).
  Proof. intros d. apply b32_of_32_bytes. apply sha256_len. Qed.

  Lemma b32_alpha_not_dot : forall l, Forall b32_alpha l -> ~ In DOTC l.
  Proof.
    intros l F H. rewrite Forall_forall in F. apply F in H. unfold b32_alpha, DOTC in H. lia.
  Qed.

  Lemma prefix_label : forall d,
    let p := domain_prefix to_unicode to_ascii sha256 h34 d in
    ~ In DOTC p /\ (length p <= 63)%nat /\
    (domain_prefix_basic to_unicode to_ascii h34 d = Some p \/
     (p = domain_prefix_fallback sha256 d /\ length p = 52%nat /\ Forall b32_alpha p /\
      (domain_prefix_basic to_unicode to_ascii h34 d = None \/
       exists q, domain_prefix_basic to_unicode to_ascii h34 d = Some q /\ (63 < length q)%nat))).
  Proof.
    intros d p. subst p. unfold domain_prefix.
    destruct (fallback_label d) as [FL FA].
    destruct (domain_prefix_basic to_unicode to_ascii h34 d) as [q|] eqn:E.
    - destruct (length q <=? 63)%nat eqn:L.
      + apply Nat.leb_le in L. repeat split; auto.
        unfold domain_prefix_basic in E. destruct (to_unicode d) as [u|]; [|discriminate].
        eapply to_ascii_dotfree; [exact E|apply steps234_dotfree].
      + apply Nat.leb_gt in L. split; [apply b32_alpha_not_dot; assumption|]. split; [lia|].
        right. repeat split; auto. right. exists q. split; auto.
    - split; [apply b32_alpha_not_dot; assumption|]. split; [lia|]. right. repeat split; auto.
  Qed.
End PrefixLabel.

(* ---------- UTF-8: Go's rune decoding inverts the encoding of scalar values ---------- *)

Lemma rune_len_utf8_cp : forall c rest, valid_cp c = true ->
  rune_len (utf8_cp c ++ rest) = length (utf8_cp c).
Proof.
  intros c rest V. unfold valid_cp in V. unfold utf8_cp.
  destruct (c <? 128) eqn:E1.
  { cbn [app rune_len]. rewrite E1. reflexivity. }
  destruct (c <? 2048) eqn:E2.
  { cbn [app rune_len length]. unfold in_rng, is_cont.
    repeat match goal with |- context[if ?b then _ else _] => let E := fresh "E" in destruct b eqn:E end;
      try reflexivity; exfalso; lia. }
  destruct (c <? 65536) eqn:E3.
  { cbn [app rune_len length]. unfold in_rng, is_cont. cbv zeta.
    destruct (224 + c / 4096 =? 224) eqn:X1; destruct (224 + c / 4096 =? 237) eqn:X2;
    repeat match goal with |- context[if ?b then _ else _] => let E := fresh "E" in destruct b eqn:E end;
      try reflexivity; exfalso; lia. }
  cbn [app rune_len length]. unfold in_rng, is_cont. cbv zeta.
  destruct (240 + c / 262144 =? 240) eqn:X1; destruct (240 + c / 262144 =? 244) eqn:X2;
  repeat match goal with |- context[if ?b then _ else _] => let E := fresh "E" in destruct b eqn:E end;
    try reflexivity; exfalso; lia.
Qed.

Lemma utf8_cp_nonempty_len : forall c, (1 <= length (utf8_cp c))%nat.
Proof. intros c. unfold utf8_cp. repeat match goal with |- context[if ?b then _ else _] => destruct b end; cbn; lia. Qed.

Lemma drop_rune_utf8 : forall c rest, valid_cp c = true -> drop_rune (utf8_cp c ++ rest) = rest.
Proof.
  intros c rest V. unfold drop_rune. rewrite rune_len_utf8_cp by assumption.
  rewrite skipn_app. rewrite skipn_all. rewrite Nat.sub_diag. reflexivity.
Qed.

Lemma utf8_cp_ascii : forall c, c < 128 -> utf8_cp c = [c].
Proof. intros c H. unfold utf8_cp. destruct (c <? 128) eqn:E; [reflexivity|lia]. Qed.

Lemma utf8_cp_high : forall c, 128 <= c -> Forall (fun b => 128 <= b) (utf8_cp c).
Proof.
  intros c H. unfold utf8_cp.
  repeat match goal with |- context[if ?b then _ else _] => let E := fresh "E" in destruct b eqn:E end;
    repeat constructor; lia.
Qed.

Lemma utf8_encode_app : forall a b, utf8_encode (a ++ b) = utf8_encode a ++ utf8_encode b.
Proof. intros. unfold utf8_encode. apply flat_map_app. Qed.

Lemma utf8_encode_ascii : forall l, Forall (fun c => c < 128) l -> utf8_encode l = l.
Proof.
  induction l as [|c l IH]; intros F; [reflexivity|]. inversion F; subst.
  unfold utf8_encode in *. cbn [flat_map]. rewrite utf8_cp_ascii by assumption. cbn. f_equal. auto.
Qed.

Lemma replace_byte_app : forall old new a b,
  replace_byte old new (a ++ b) = replace_byte old new a ++ replace_byte old new b.
Proof. intros. unfold replace_byte. apply flat_map_app. Qed.

Lemma replace_byte_id : forall old new l, Forall (fun b => b <> old) l -> replace_byte old new l = l.
Proof.
  induction l as [|c l IH]; intros F; [reflexivity|]. inversion F; subst.
  unfold replace_byte in *. cbn [flat_map]. destruct (c =? old) eqn:E; [apply N.eqb_eq in E; congruence|].
  cbn. f_equal. auto.
Qed.

(* replacing an ASCII character by ASCII characters commutes with UTF-8 encoding:
   strings.Replace on the bytes of a Go string is a replacement of characters *)
Lemma replace_utf8 : forall old new cps, old < 128 -> Forall (fun c => c < 128) new ->
  replace_byte old new (utf8_encode cps) = utf8_encode (replace_byte old new cps).
Proof.
  intros old new cps Ho Hn. induction cps as [|c cps IH]; [reflexivity|].
  change (utf8_encode (c :: cps)) with (utf8_cp c ++ utf8_encode cps).
  rewrite replace_byte_app, IH.
  change (replace_byte old new (c :: cps)) with ((if c =? old then new else [c]) ++ replace_byte old new cps).
  rewrite utf8_encode_app. f_equal.
  destruct (c =? old) eqn:E.
  - apply N.eqb_eq in E. subst c. rewrite utf8_cp_ascii by assumption.
    rewrite utf8_encode_ascii by assumption. unfold replace_byte. cbn. rewrite N.eqb_refl. apply app_nil_r.
  - apply N.eqb_neq in E. change (utf8_encode [c]) with (utf8_cp c ++ []). rewrite app_nil_r.
    destruct (c <? 128) eqn:Ec.
    + rewrite utf8_cp_ascii by lia. unfold replace_byte. cbn. apply N.eqb_neq in E. rewrite E. reflexivity.
    + apply replace_byte_id. eapply Forall_impl; [|apply utf8_cp_high; lia]. cbn. intros. lia.
Qed.

Definition valid_str (cps : list N) : Prop := Forall (fun c => valid_cp c = true) cps.

Lemma replace_valid : forall old new cps, valid_str new -> valid_str cps -> valid_str (replace_byte old new cps).
Proof.
  intros old new cps Vn V. unfold valid_str, replace_byte in *. rewrite Forall_forall in *. intros x Hx.
  apply in_flat_map in Hx. destruct Hx as [c [Hc Hx]]. destruct (c =? old); [auto|].
  destruct Hx as [Hx|[]]. subst. auto.
Qed.

Definition hd_hyphen (l : list N) : bool := match l with b :: _ => b =? HYPHEN | [] => false end.

Lemma hd_hyphen_utf8 : forall cps, hd_hyphen (utf8_encode cps) = hd_hyphen cps.
Proof.
  intros [|c cps]; [reflexivity|]. change (utf8_encode (c :: cps)) with (utf8_cp c ++ utf8_encode cps).
  unfold utf8_cp, hd_hyphen, HYPHEN.
  repeat match goal with |- context[if ?b then _ else _] => let E := fresh "E" in destruct b eqn:E end;
    cbn [app]; try reflexivity; lia.
Qed.

Lemma tl_utf8_hyphen : forall cps, hd_hyphen cps = true -> tl (utf8_encode cps) = utf8_encode (tl cps).
Proof.
  intros [|c cps] H; [discriminate|]. cbn in H. apply N.eqb_eq in H. subst c. reflexivity.
Qed.

Lemma h34_as_hd : forall l : list N,
  match l with c2 :: c3 :: _ => (c2 =? HYPHEN) && (c3 =? HYPHEN) | _ => false end
  = hd_hyphen l && hd_hyphen (tl l).
Proof.
  intros [|a [|b l]]; cbn; try reflexivity. rewrite andb_false_r. reflexivity.
Qed.

(* the rune-indexed test on the UTF-8 bytes is the specification's test on characters *)
Lemma h34_runes_is_spec : forall cps, valid_str cps -> h34_runes (utf8_encode cps) = h34_spec cps.
Proof.
  intros cps V. unfold h34_runes, h34_spec.
  destruct cps as [|a [|b rest]].
  - reflexivity.
  - change (utf8_encode [a]) with (utf8_cp a ++ []). inversion V; subst.
    rewrite drop_rune_utf8 by assumption. reflexivity.
  - change (utf8_encode (a :: b :: rest)) with (utf8_cp a ++ utf8_cp b ++ utf8_encode rest).
    inversion V as [|? ? Va V']; subst. inversion V' as [|? ? Vb V'']; subst.
    rewrite drop_rune_utf8 by assumption. rewrite drop_rune_utf8 by assumption.
    rewrite h34_as_hd. rewrite (h34_as_hd rest). rewrite hd_hyphen_utf8.
    destruct (hd_hyphen rest) eqn:E; [|reflexivity]. cbn [andb].
    rewrite tl_utf8_hyphen by assumption. apply hd_hyphen_utf8.
Qed.

(* steps 2-4 with the rune-indexed test = the specification's steps on characters *)
Lemma steps234_runes_is_spec : forall cps, valid_str cps ->
  steps234 h34_runes (utf8_encode cps) = utf8_encode (steps234_spec cps).
Proof.
  intros cps V. unfold steps234, steps234_spec.
  assert (A1 : HYPHEN < 128) by (unfold HYPHEN; lia).
  assert (A2 : DOTC < 128) by (unfold DOTC; lia).
  assert (F1 : Forall (fun c => c < 128) [HYPHEN; HYPHEN]) by (repeat constructor; unfold HYPHEN; lia).
  assert (F2 : Forall (fun c => c < 128) [HYPHEN]) by (repeat constructor; unfold HYPHEN; lia).
  rewrite (replace_utf8 HYPHEN [HYPHEN; HYPHEN] cps A1 F1).
  rewrite (replace_utf8 DOTC [HYPHEN] _ A2 F2).
  set (p := replace_byte DOTC [HYPHEN] (replace_byte HYPHEN [HYPHEN; HYPHEN] cps)).
  assert (Vp : valid_str p).
  { apply replace_valid; [repeat constructor|]. apply replace_valid; [repeat constructor|assumption]. }
  rewrite h34_runes_is_spec by assumption.
  destruct (h34_spec p); [|reflexivity].
  rewrite !utf8_encode_app. reflexivity.
Qed.

(* for ASCII strings the byte-indexed test of the pinned code is the specification's too *)
Lemma steps234_bytes_is_spec_ascii : forall cps, Forall (fun c => c < 128) cps ->
  steps234 h34_bytes (utf8_encode cps) = utf8_encode (steps234_spec cps).
Proof.
  intros cps F. rewrite utf8_encode_ascii by assumption.
  assert (G : Forall (fun c => c < 128) (steps234_spec cps)).
  { unfold steps234_spec.
    set (p := replace_byte DOTC [HYPHEN] (replace_byte HYPHEN [HYPHEN; HYPHEN] cps)).
    assert (Fp : Forall (fun c => c < 128) p).
    { subst p. unfold replace_byte. rewrite Forall_forall in *. intros x Hx.
      apply in_flat_map in Hx. destruct Hx as [c [Hc Hx]].
      apply in_flat_map in Hc. destruct Hc as [c0 [Hc0 Hc]].
      assert (c < 128).
      { destruct (c0 =? HYPHEN); [destruct Hc as [Hc|[Hc|[]]]; subst; unfold HYPHEN; lia|].
        destruct Hc as [Hc|[]]. subst. auto. }
      destruct (c =? DOTC); [destruct Hx as [Hx|[]]; subst; unfold HYPHEN; lia|].
      destruct Hx as [Hx|[]]. subst. assumption. }
    destruct (h34_spec p); [|assumption].
    apply Forall_app. split; [repeat constructor; unfold HYPHEN; lia|].
    apply Forall_app. split; [assumption|repeat constructor; unfold HYPHEN; lia]. }
  rewrite utf8_encode_ascii by assumption. reflexivity.
Qed.

(* ... and differs from it for internationalised names, in both directions *)
Lemma steps234_bytes_refuted :
  (* "é-c.com": the pinned code adds 0-...-0, the specification does not *)
  (let cps := [233; 45; 99; 46; 99; 111; 109] in
   valid_str cps /\ h34_bytes (replace_byte DOTC [HYPHEN] (replace_byte HYPHEN [HYPHEN; HYPHEN] (utf8_encode cps))) = true /\
   h34_spec (replace_byte DOTC [HYPHEN] (replace_byte HYPHEN [HYPHEN; HYPHEN] cps)) = false /\
   steps234 h34_bytes (utf8_encode cps) <> utf8_encode (steps234_spec cps)) /\
  (* "éa-b.com": the specification adds 0-...-0, the pinned code does not *)
  (let cps := [233; 97; 45; 98; 46; 99; 111; 109] in
   valid_str cps /\ h34_bytes (replace_byte DOTC [HYPHEN] (replace_byte HYPHEN [HYPHEN; HYPHEN] (utf8_encode cps))) = false /\
   h34_spec (replace_byte DOTC [HYPHEN] (replace_byte HYPHEN [HYPHEN; HYPHEN] cps)) = true /\
   steps234 h34_bytes (utf8_encode cps) <> utf8_encode (steps234_spec cps)).
Proof.
  split; cbv zeta; (split; [repeat constructor|]); (split; [vm_compute; reflexivity|]);
    (split; [vm_compute; reflexivity|]); vm_compute; discriminate.
Qed.

(* the full basic algorithm: with the rune-indexed test it is the specification's, given
   ToUnicode's answer as a string of characters *)
Section BasicIsSpec.
  Variable to_unicode : bytes -> option bytes.
  Variable to_ascii : bytes -> option bytes.

  Lemma basic_is_spec : forall d cps,
    to_unicode d = Some (utf8_encode cps) -> valid_str cps ->
    domain_prefix_basic to_unicode to_ascii h34_runes d = to_ascii (utf8_encode (steps234_spec cps)).
  Proof.
    intros d cps Hu V. unfold domain_prefix_basic. rewrite Hu. rewrite steps234_runes_is_spec by assumption. reflexivity.
  Qed.

  Lemma basic_v0_is_spec_ascii : forall d cps,
    to_unicode d = Some (utf8_encode cps) -> Forall (fun c => c < 128) cps ->
    domain_prefix_basic to_unicode to_ascii h34_bytes d = to_ascii (utf8_encode (steps234_spec cps)).
  Proof.
    intros d cps Hu V. unfold domain_prefix_basic. rewrite Hu. rewrite steps234_bytes_is_spec_ascii by assumption. reflexivity.
  Qed.
End BasicIsSpec.

(* ---------- CacheURL: when it succeeds and what it returns ---------- *)

Section CacheUrlShape.
  Variable to_unicode : bytes -> option bytes.
  Variable to_ascii : bytes -> option bytes.
  Variable sha256 : bytes -> bytes.
  Variable h34 : bytes -> bool.

  Definition port_default (pu : pub_url) : Prop :=
    p_port pu = [] \/ (p_scheme pu = S_HTTP /\ p_port pu = bs "80"%string) \/
    (p_scheme pu = S_HTTPS /\ p_port pu = bs "443"%string).

  Lemma port_ok_iff : forall pu, port_ok pu = true <-> port_default pu.
  Proof.
    intros pu. unfold port_ok, port_default. rewrite !orb_true_iff, !andb_true_iff, !beq_eq. tauto.
  Qed.

  Definition result_host (pu : pub_url) (cu : cache_url_t) : bytes :=
    let h := domain_prefix to_unicode to_ascii sha256 h34 (p_hostname pu) ++ DOTC :: c_hostname cu in
    if beq (c_port cu) [] then h else join_host_port h (c_port cu).

  Lemma cache_url_some : forall pu cu ct r,
    cache_url to_unicode to_ascii sha256 h34 pu cu ct = Some r <->
    ct <> [] /\ (p_scheme pu = S_HTTP \/ p_scheme pu = S_HTTPS) /\ p_user pu = false /\
    port_default pu /\ p_hostname pu <> [] /\
    valid_escapes (path_join (path_components pu cu ct)) = true /\
    c_rawquery cu = [] /\ c_fragment cu = [] /\
    r = {| r_scheme := c_scheme cu; r_user := c_user cu; r_host := result_host pu cu;
           r_rawpath := path_join (path_components pu cu ct);
           r_rawquery := p_rawquery pu; r_fragment := p_fragment pu |}.
  Proof.
    intros pu cu ct r. unfold cache_url. fold (result_host pu cu).
    destruct (beq ct []) eqn:E1.
    { apply beq_eq in E1. split; [discriminate|]. intros [H _]. congruence. }
    apply beq_neq in E1.
    destruct (beq (p_scheme pu) S_HTTP || beq (p_scheme pu) S_HTTPS) eqn:E2; cbn [negb].
    2:{ split; [discriminate|]. intros [_ [[H|H] _]]; apply beq_eq in H; rewrite H in E2;
        [discriminate|rewrite orb_true_r in E2; discriminate]. }
    apply orb_true_iff in E2. rewrite !beq_eq in E2.
    destruct (p_user pu) eqn:E3.
    { split; [discriminate|]. intros [_ [_ [H _]]]. discriminate. }
    destruct (port_ok pu) eqn:E4; cbn [negb].
    2:{ split; [discriminate|]. intros [_ [_ [_ [H _]]]]. apply port_ok_iff in H. congruence. }
    apply port_ok_iff in E4.
    destruct (beq (p_hostname pu) []) eqn:E5.
    { apply beq_eq in E5. split; [discriminate|]. intros [_ [_ [_ [_ [H _]]]]]. congruence. }
    apply beq_neq in E5.
    destruct (valid_escapes (path_join (path_components pu cu ct))) eqn:E6; cbn [negb].
    2:{ split; [discriminate|]. intros [_ [_ [_ [_ [_ [H _]]]]]]. discriminate. }
    destruct (beq (c_rawquery cu) []) eqn:E7; cbn [negb].
    2:{ apply beq_neq in E7. split; [discriminate|]. intros [_ [_ [_ [_ [_ [_ [H _]]]]]]]. congruence. }
    apply beq_eq in E7.
    destruct (beq (c_fragment cu) []) eqn:E8; cbn [negb].
    2:{ apply beq_neq in E8. split; [discriminate|]. intros [_ [_ [_ [_ [_ [_ [_ [H _]]]]]]]]. congruence. }
    apply beq_eq in E8.
    split.
    - intros H. inversion H; subst. repeat split; auto.
    - intros [_ [_ [_ [_ [_ [_ [_ [_ H]]]]]]]]. subst. reflexivity.
  Qed.
End CacheUrlShape.

(* ---------- path.Join / path.Clean on paths without dot segments ---------- *)

Definition nonempty (s : bytes) : bool := negb (beq s []).
Definition segs (p : bytes) : list bytes := filter nonempty (split_on SLASHC p).
Definition normal_seg (s : bytes) : Prop :=
  s <> [] /\ ~ In SLASHC s /\ s <> [DOTC] /\ s <> [DOTC; DOTC].
(* "/s1/s2/.../sn", the empty string for no segments *)
Definition abs_path (ss : list bytes) : bytes := flat_map (fun s => SLASHC :: s) ss.

Lemma split_on_aux_app : forall sep a b cur,
  split_on_aux sep (a ++ sep :: b) cur = split_on_aux sep a cur ++ split_on_aux sep b [].
Proof.
  intros sep. induction a as [|c a IH]; intros b cur.
  - cbn. rewrite N.eqb_refl. reflexivity.
  - cbn [app split_on_aux]. destruct (c =? sep); [rewrite IH; reflexivity|apply IH].
Qed.

Lemma split_on_app : forall sep a b, split_on sep (a ++ sep :: b) = split_on sep a ++ split_on sep b.
Proof. intros. unfold split_on. apply split_on_aux_app. Qed.

Lemma split_on_aux_nosep : forall sep s cur, ~ In sep s -> split_on_aux sep s cur = [rev cur ++ s].
Proof.
  intros sep. induction s as [|c s IH]; intros cur H.
  - cbn. rewrite app_nil_r. unfold rev'. rewrite <- rev_alt. reflexivity.
  - cbn [split_on_aux]. destruct (c =? sep) eqn:E.
    + apply N.eqb_eq in E. subst. exfalso. apply H. left. reflexivity.
    + rewrite IH by (intros X; apply H; right; exact X). cbn [rev]. rewrite <- app_assoc. reflexivity.
Qed.

Lemma split_on_nosep : forall sep s, ~ In sep s -> split_on sep s = [s].
Proof. intros. unfold split_on. rewrite split_on_aux_nosep by assumption. reflexivity. Qed.

Lemma segs_app : forall a b, segs (a ++ SLASHC :: b) = segs a ++ segs b.
Proof. intros. unfold segs. rewrite split_on_app. apply filter_app. Qed.

Lemma segs_nil : segs [] = [].
Proof. reflexivity. Qed.

Lemma nonempty_normal : forall s, normal_seg s -> nonempty s = true.
Proof. intros s [H _]. unfold nonempty. rewrite beq_nil_false by assumption. reflexivity. Qed.

(* a slash-free non-empty piece followed by "/s1/s2..." *)
Lemma segs_piece : forall m ms, normal_seg m -> Forall normal_seg ms -> segs (m ++ abs_path ms) = m :: ms.
Proof.
  intros m ms. revert m. induction ms as [|m' ms IH]; intros m Hm F.
  - cbn [abs_path flat_map]. rewrite app_nil_r. unfold segs. rewrite split_on_nosep by apply Hm.
    cbn [filter]. rewrite nonempty_normal by assumption. reflexivity.
  - inversion F; subst. change (abs_path (m' :: ms)) with (SLASHC :: m' ++ abs_path ms).
    rewrite segs_app. rewrite IH by assumption.
    unfold segs at 1. rewrite split_on_nosep by apply Hm. cbn [filter]. rewrite nonempty_normal by assumption.
    reflexivity.
Qed.

Lemma segs_prefix_abs : forall x ms, Forall normal_seg ms -> segs (x ++ abs_path ms) = segs x ++ ms.
Proof.
  intros x ms F. destruct ms as [|m ms].
  - cbn. rewrite !app_nil_r. reflexivity.
  - inversion F; subst. change (abs_path (m :: ms)) with (SLASHC :: m ++ abs_path ms). rewrite segs_app.
    rewrite segs_piece by assumption. reflexivity.
Qed.

Lemma segs_abs : forall ms, Forall normal_seg ms -> segs (abs_path ms) = ms.
Proof. intros ms F. change (abs_path ms) with ([] ++ abs_path ms). rewrite segs_prefix_abs by assumption. reflexivity. Qed.

Definition harmless (s : bytes) : Prop := s = [] \/ (s <> [DOTC] /\ s <> [DOTC; DOTC]).

Lemma clean_segs_harmless : forall rooted l out, Forall harmless l ->
  clean_segs rooted l out = rev out ++ filter nonempty l.
Proof.
  intros rooted. induction l as [|s l IH]; intros out F.
  - cbn. rewrite app_nil_r. reflexivity.
  - inversion F as [|? ? Hs F']; subst. cbn [clean_segs filter]. destruct Hs as [Hs|[H1 H2]].
    + subst. cbn [beq orb nonempty negb]. apply IH. assumption.
    + unfold nonempty. destruct (beq s []) eqn:E0; cbn [orb negb].
      * apply IH. assumption.
      * unfold is_dot, is_dotdot. rewrite (proj2 (beq_neq s [DOTC]) H1). rewrite (proj2 (beq_neq s [DOTC; DOTC]) H2).
        rewrite IH by assumption. cbn [rev]. rewrite <- app_assoc. reflexivity.
Qed.

Lemma split_harmless : forall p, Forall normal_seg (segs p) -> Forall harmless (split_on SLASHC p).
Proof.
  intros p F. unfold segs in F. rewrite Forall_forall in *. intros s Hs.
  destruct (beq s []) eqn:E; [apply beq_eq in E; left; assumption|].
  right. assert (X : In s (filter nonempty (split_on SLASHC p))).
  { apply filter_In. split; [assumption|]. unfold nonempty. rewrite E. reflexivity. }
  apply F in X. destruct X as [_ [_ [X1 X2]]]. split; assumption.
Qed.

Lemma slash_join_abs : forall ss, ss <> [] -> SLASHC :: join [SLASHC] ss = abs_path ss.
Proof.
  induction ss as [|s ss IH]; intros H; [congruence|].
  destruct ss as [|s' ss'].
  - cbn. rewrite app_nil_r. reflexivity.
  - change (join [SLASHC] (s :: s' :: ss')) with (s ++ [SLASHC] ++ join [SLASHC] (s' :: ss')).
    change (abs_path (s :: s' :: ss')) with (SLASHC :: s ++ abs_path (s' :: ss')).
    rewrite <- IH by discriminate. reflexivity.
Qed.

(* Clean of a rooted path without dot segments: its non-empty segments, joined *)
Lemma path_clean_rooted : forall p, Forall normal_seg (segs (SLASHC :: p)) -> segs (SLASHC :: p) <> [] ->
  path_clean (SLASHC :: p) = abs_path (segs (SLASHC :: p)).
Proof.
  intros p F Hne. unfold path_clean. rewrite N.eqb_refl.
  rewrite clean_segs_harmless by (apply split_harmless; assumption). cbn [rev app].
  fold (segs (SLASHC :: p)). apply slash_join_abs. assumption.
Qed.

Lemma path_clean_unrooted : forall c p, c <> SLASHC -> Forall normal_seg (segs (c :: p)) -> segs (c :: p) <> [] ->
  SLASHC :: path_clean (c :: p) = abs_path (segs (c :: p)).
Proof.
  intros c p Hc F Hne. unfold path_clean. apply N.eqb_neq in Hc. rewrite Hc.
  rewrite clean_segs_harmless by (apply split_harmless; assumption). cbn [rev app].
  fold (segs (c :: p)). destruct (segs (c :: p)) eqn:E; [congruence|].
  apply slash_join_abs. discriminate.
Qed.

Lemma join_buf_nonempty : forall elems buf, buf <> [] ->
  join_buf elems buf = buf ++ flat_map (fun e => SLASHC :: e) elems.
Proof.
  induction elems as [|e elems IH]; intros buf H.
  - cbn. rewrite app_nil_r. reflexivity.
  - cbn [join_buf flat_map]. destruct buf as [|b buf]; [congruence|].
    rewrite IH by (destruct buf; discriminate). rewrite <- app_assoc. reflexivity.
Qed.

(* ---------- url.PathEscape of a host name is one path segment ---------- *)

Lemma upper_hex_not_slash : forall n, upper_hex n <> SLASHC.
Proof. intros n. unfold upper_hex, SLASHC. destruct (n <? 10) eqn:E; lia. Qed.

Lemma path_escape_no_slash : forall s, ~ In SLASHC (path_escape s).
Proof.
  intros s H. unfold path_escape in H. apply in_flat_map in H. destruct H as [c [_ H]].
  destruct (seg_unescaped c) eqn:E.
  - destruct H as [H|[]]. subst c. vm_compute in E. discriminate.
  - destruct H as [H|[H|[H|[]]]]; [discriminate| |]; eapply upper_hex_not_slash; eauto.
Qed.

Lemma path_escape_nil : forall s, path_escape s = [] -> s = [].
Proof.
  intros [|c s] H; [reflexivity|]. unfold path_escape in H. cbn [flat_map] in H.
  destruct (seg_unescaped c); discriminate.
Qed.

Lemma path_escape_dot : forall s, path_escape s = [DOTC] -> s = [DOTC].
Proof.
  intros [|c s] H; [discriminate|]. unfold path_escape in H. cbn [flat_map] in H.
  destruct (seg_unescaped c); [|discriminate]. cbn in H. inversion H as [[H1 H2]].
  apply path_escape_nil in H2. subst. reflexivity.
Qed.

Lemma path_escape_dotdot : forall s, path_escape s = [DOTC; DOTC] -> s = [DOTC; DOTC].
Proof.
  intros [|c s] H; [discriminate|]. unfold path_escape in H. cbn [flat_map] in H.
  destruct (seg_unescaped c); [|discriminate]. cbn in H. inversion H as [[H1 H2]].
  fold (path_escape s) in H2. apply path_escape_dot in H2. subst. reflexivity.
Qed.

Lemma path_escape_normal : forall h, h <> [] -> h <> [DOTC] -> h <> [DOTC; DOTC] -> normal_seg (path_escape h).
Proof.
  intros h H0 H1 H2. repeat split.
  - intros X. apply path_escape_nil in X. congruence.
  - apply path_escape_no_slash.
  - intros X. apply path_escape_dot in X. congruence.
  - intros X. apply path_escape_dotdot in X. congruence.
Qed.

(* ---------- the shape of the cache URL's path ---------- *)

Lemma normal_c : normal_seg (bs "c"%string).
Proof. repeat split; try discriminate. intros [H|[]]. discriminate. Qed.
Lemma normal_s : normal_seg (bs "s"%string).
Proof. repeat split; try discriminate. intros [H|[]]. discriminate. Qed.

Lemma path_escape_c : path_escape (bs "c"%string) = bs "c"%string.
Proof. reflexivity. Qed.

(* the middle components: content type "c", "s" for https, the escaped host *)
Definition middle (pu : pub_url) : list bytes :=
  [bs "c"%string] ++ (if beq (p_scheme pu) S_HTTPS then [bs "s"%string] else []) ++ [path_escape (p_hostname pu)].

Lemma Forall_one : forall (A : Type) (P : A -> Prop) x, P x -> Forall P [x].
Proof. intros. apply Forall_cons; [assumption|apply Forall_nil]. Qed.
Lemma Forall_s_opt : forall b : bool, Forall normal_seg (if b then [bs "s"%string] else []).
Proof. intros [|]; [apply Forall_one; apply normal_s|apply Forall_nil]. Qed.

Lemma cache_path_shape : forall pu cu cs ps (trailing : bool),
  Forall normal_seg cs -> Forall normal_seg ps ->
  c_epath cu = abs_path cs ++ (if trailing then [SLASHC] else []) ->
  p_epath pu = abs_path ps ->
  p_hostname pu <> [] -> p_hostname pu <> [DOTC] -> p_hostname pu <> [DOTC; DOTC] ->
  let raw := path_join (path_components pu cu (bs "c"%string)) in
  (c_epath cu <> [] -> raw = abs_path (cs ++ middle pu ++ ps)) /\
  (c_epath cu = [] -> SLASHC :: raw = abs_path (middle pu ++ ps)).
Proof.
  intros pu cu cs ps trailing Fc Fp Hc Hp H0 H1 H2 raw.
  pose proof (path_escape_normal _ H0 H1 H2) as Nh.
  assert (Fm : Forall normal_seg (middle pu)).
  { unfold middle. apply Forall_app. split; [apply Forall_one; apply normal_c|].
    apply Forall_app. split; [apply Forall_s_opt|apply Forall_one; assumption]. }
  assert (Ftail : Forall normal_seg (middle pu ++ ps)) by (apply Forall_app; split; assumption).
  subst raw. unfold path_join, path_components. rewrite path_escape_c.
  (* not all components are empty *)
  assert (NE : forallb (fun e => beq e []) ([c_epath cu; bs "c"%string] ++
              (if beq (p_scheme pu) S_HTTPS then [bs "s"%string] else []) ++ [path_escape (p_hostname pu); p_epath pu]) = false).
  { cbn [app forallb]. change (beq (bs "c"%string) []) with false. rewrite andb_false_r. reflexivity. }
  rewrite NE.
  (* the components after the cache path, as "/"-prefixed pieces *)
  assert (TL : flat_map (fun e => SLASHC :: e)
                 ([bs "c"%string] ++ (if beq (p_scheme pu) S_HTTPS then [bs "s"%string] else []) ++
                  [path_escape (p_hostname pu); p_epath pu])
               = abs_path (middle pu) ++ SLASHC :: p_epath pu).
  { unfold middle, abs_path. rewrite !flat_map_app. cbn [flat_map]. rewrite !app_nil_r.
    rewrite <- !app_assoc. reflexivity. }
  split.
  - intros Hne. cbn [app join_buf].
    destruct (c_epath cu) as [|c0 cp] eqn:Ecp; [congruence|].
    rewrite join_buf_nonempty by discriminate.
    assert (EQ : ((c0 :: cp) ++ SLASHC :: bs "c"%string) ++
                 flat_map (fun e => SLASHC :: e)
                   ((if beq (p_scheme pu) S_HTTPS then [bs "s"%string] else []) ++ [path_escape (p_hostname pu); p_epath pu])
                 = (c0 :: cp) ++ abs_path (middle pu) ++ SLASHC :: p_epath pu).
    { unfold middle, abs_path. rewrite !flat_map_app. cbn [flat_map]. rewrite !app_nil_r.
      rewrite <- !app_assoc. reflexivity. }
    rewrite EQ. rewrite Hp.
    (* the joined buffer and its segments *)
    set (buf := (c0 :: cp) ++ abs_path (middle pu) ++ SLASHC :: abs_path ps).
    assert (Sg : segs buf = cs ++ middle pu ++ ps).
    { subst buf. rewrite app_assoc. rewrite segs_app. rewrite segs_prefix_abs by assumption.
      rewrite segs_abs by assumption. rewrite Hc. destruct trailing.
      - rewrite segs_app. rewrite segs_abs by assumption. rewrite segs_nil. rewrite app_nil_r. rewrite <- app_assoc. reflexivity.
      - rewrite app_nil_r. rewrite segs_abs by assumption. rewrite <- app_assoc. reflexivity. }
    assert (c0 = SLASHC).
    { destruct cs as [|c1 cs']; cbn in Hc; destruct trailing; cbn in Hc; inversion Hc; reflexivity. }
    subst c0. subst buf. cbn [app] in *.
    rewrite path_clean_rooted.
    + rewrite Sg. reflexivity.
    + rewrite Sg. apply Forall_app. split; assumption.
    + rewrite Sg. unfold middle. destruct cs; discriminate.
  - intros He. rewrite He. cbn [app join_buf].
    assert (join_buf ((if beq (p_scheme pu) S_HTTPS then [bs "s"%string] else []) ++ [path_escape (p_hostname pu); p_epath pu]) (bs "c"%string)
            = bs "c"%string ++ flat_map (fun e => SLASHC :: e) ((if beq (p_scheme pu) S_HTTPS then [bs "s"%string] else []) ++ [path_escape (p_hostname pu); p_epath pu])) as JB
      by (apply join_buf_nonempty; discriminate).
    change (join_buf (bs "c"%string :: (if beq (p_scheme pu) S_HTTPS then [bs "s"%string] else []) ++ [path_escape (p_hostname pu); p_epath pu]) [])
      with (join_buf ((if beq (p_scheme pu) S_HTTPS then [bs "s"%string] else []) ++ [path_escape (p_hostname pu); p_epath pu]) (bs "c"%string)).
    rewrite JB. rewrite Hp.
    set (mid' := (if beq (p_scheme pu) S_HTTPS then [bs "s"%string] else []) ++ [path_escape (p_hostname pu)]).
    assert (Fm' : Forall normal_seg mid').
    { subst mid'. apply Forall_app. split; [apply Forall_s_opt|apply Forall_one; assumption]. }
    assert (E : bs "c"%string ++ flat_map (fun e => SLASHC :: e)
                  ((if beq (p_scheme pu) S_HTTPS then [bs "s"%string] else []) ++ [path_escape (p_hostname pu); abs_path ps])
                = (bs "c"%string ++ abs_path mid') ++ SLASHC :: abs_path ps).
    { subst mid'. unfold abs_path. rewrite !flat_map_app. cbn [flat_map]. rewrite !app_nil_r. rewrite <- !app_assoc. reflexivity. }
    rewrite E.
    assert (Sg : segs ((bs "c"%string ++ abs_path mid') ++ SLASHC :: abs_path ps) = middle pu ++ ps).
    { rewrite segs_app. rewrite segs_piece by (auto using normal_c). rewrite segs_abs by assumption.
      subst mid'. unfold middle. reflexivity. }
    change ((bs "c"%string ++ abs_path mid') ++ SLASHC :: abs_path ps)
      with (99 :: (abs_path mid' ++ SLASHC :: abs_path ps)) in *.
    change (bs "c"%string) with [99]. cbv iota.
    rewrite path_clean_unrooted.
    + rewrite Sg. reflexivity.
    + unfold SLASHC. discriminate.
    + rewrite Sg. assumption.
    + rewrite Sg. unfold middle. discriminate.
Qed.
