(* CacheURLProofs.v — proofs about Model/CacheURL.v (C11: domain prefix, cache URL). *)
From Coq Require Import List NArith ZArith Lia Bool Arith String.
From Coq Require Import ZifyN ZifyNat ZifyBool.
From Snow Require Import Lib.Wire Model.CacheURL.
Import ListNotations.
Open Scope N_scope.
Notation length := List.length.
Ltac Zify.zify_post_hook ::= Z.div_mod_to_equations.

(* ---------- steps 2-4 never leave a dot ---------- *)

Lemma replace_byte_not_in : forall old new s, ~ In old new -> ~ In old (replace_byte old new s).
Proof.
  intros old new s Hn H. unfold replace_byte in H. apply in_flat_map in H. destruct H as [c [_ Hc]].
  destruct (c =? old) eqn:E; [auto|]. apply N.eqb_neq in E. destruct Hc as [Hc|[]]. congruence.
Qed.

Lemma steps234_dotfree : forall h34 u, ~ In DOTC (steps234 h34 u).
Proof.
  intros h34 u. unfold steps234.
  set (p := replace_byte DOTC [HYPHEN] (replace_byte HYPHEN [HYPHEN; HYPHEN] u)).
  assert (Hp : ~ In DOTC p).
  { apply replace_byte_not_in. intros [H|[]]. discriminate. }
  destruct (h34 p); [|assumption].
  intros H. cbn in H. destruct H as [H|[H|H]]; try discriminate.
  apply in_app_or in H. destruct H as [H|H]; [auto|].
  destruct H as [H|[H|[]]]; discriminate.
Qed.

(* ---------- the fallback: 52 characters of a-z2-7 ---------- *)

Definition b32_alpha (c : N) : Prop := (97 <= c /\ c <= 122) \/ (50 <= c /\ c <= 55).

Lemma b32_char_alpha : forall v, b32_alpha (b32_char v).
Proof.
  intros v. unfold b32_char, b32_alpha. cbv zeta.
  assert (H : v mod 32 < 32) by lia.
  destruct (v mod 32 <? 26) eqn:E; lia.
Qed.

Lemma b32_of_32_bytes : forall h, length h = 32%nat ->
  length (b32_encode h) = 52%nat /\ Forall b32_alpha (b32_encode h).
Proof.
  intros h H.
  do 32 (destruct h as [|? h]; [discriminate H|]).
  destruct h; [|discriminate H].
  cbn [b32_encode]. split; [reflexivity|].
  repeat (apply Forall_cons; [apply b32_char_alpha|]). apply Forall_nil.
Qed.

(* ---------- domain prefix: a single dot-free label of at most 63 bytes ---------- *)

Section PrefixLabel.
  Variable to_unicode : bytes -> option bytes.
  Variable to_ascii : bytes -> option bytes.
  Variable sha256 : bytes -> bytes.
  Variable h34 : bytes -> bool.
  (* what is assumed of the libraries *)
  Hypothesis to_ascii_dotfree : forall s r, to_ascii s = Some r -> ~ In DOTC s -> ~ In DOTC r.
  Hypothesis sha256_len : forall d, length (sha256 d) = 32%nat.

  Lemma fallback_label : forall d,
    length (domain_prefix_fallback sha256 d) = 52%nat /\ Forall b32_alpha (domain_prefix_fallback sha256 d).
  Proof. intros d. apply b32_of_32_bytes. apply sha256_len. Qed.

  Lemma b32_alpha_not_dot : forall l, Forall b32_alpha l -> ~ In DOTC l.
  Proof.
    intros l F H. rewrite Forall_forall in F. apply F in H. unfold b32_alpha, DOTC in H. lia.
  Qed.

  Lemma prefix_label : forall d,
    let p := domain_prefix to_unicode to_ascii sha256 h34 d in
    ~ In DOTC p /\ (length p <= 63)%nat /\
    (domain_prefix_basic to_unicode to_ascii h34 d = Some p \/
     (p = domain_prefix_fallback sha256 d /\ length p = 52%nat /\ Forall b32_alpha p /\
      (domain_prefix_basic to_unicode to_ascii h34 d = None \/
       exists q, domain_prefix_basic to_unicode to_ascii h34 d = Some q /\ (63 < length q)%nat))).
  Proof.
    intros d p. subst p. unfold domain_prefix.
    destruct (fallback_label d) as [FL FA].
    destruct (domain_prefix_basic to_unicode to_ascii h34 d) as [q|] eqn:E.
    - destruct (length q <=? 63)%nat eqn:L.
      + apply Nat.leb_le in L. repeat split; auto.
        unfold domain_prefix_basic in E. destruct (to_unicode d) as [u|]; [|discriminate].
        eapply to_ascii_dotfree; [exact E|apply steps234_dotfree].
      + apply Nat.leb_gt in L. split; [apply b32_alpha_not_dot; assumption|]. split; [lia|].
        right. repeat split; auto. right. exists q. split; auto.
    - split; [apply b32_alpha_not_dot; assumption|]. split; [lia|]. right. repeat split; auto.
  Qed.
End PrefixLabel.

(* ---------- UTF-8: Go's rune decoding inverts the encoding of scalar values ---------- *)

Lemma rune_len_utf8_cp : forall c rest, valid_cp c = true ->
  rune_len (utf8_cp c ++ rest) = length (utf8_cp c).
Proof.
  intros c rest V. unfold valid_cp in V. unfold utf8_cp.
  destruct (c <? 128) eqn:E1.
  { cbn [app rune_len]. rewrite E1. reflexivity. }
  destruct (c <? 2048) eqn:E2.
  { cbn [app rune_len length]. unfold in_rng, is_cont.
    repeat match goal with |- context[if ?b then _ else _] => let E := fresh "E" in destruct b eqn:E end;
      try reflexivity; exfalso; lia. }
  destruct (c <? 65536) eqn:E3.
  { cbn [app rune_len length]. unfold in_rng, is_cont. cbv zeta.
    destruct (224 + c / 4096 =? 224) eqn:X1; destruct (224 + c / 4096 =? 237) eqn:X2;
    repeat match goal with |- context[if ?b then _ else _] => let E := fresh "E" in destruct b eqn:E end;
      try reflexivity; exfalso; lia. }
  cbn [app rune_len length]. unfold in_rng, is_cont. cbv zeta.
  destruct (240 + c / 262144 =? 240) eqn:X1; destruct (240 + c / 262144 =? 244) eqn:X2;
  repeat match goal with |- context[if ?b then _ else _] => let E := fresh "E" in destruct b eqn:E end;
    try reflexivity; exfalso; lia.
Qed.

Lemma utf8_cp_nonempty_len : forall c, (1 <= length (utf8_cp c))%nat.
Proof. intros c. unfold utf8_cp. repeat match goal with |- context[if ?b then _ else _] => destruct b end; cbn; lia. Qed.

Lemma drop_rune_utf8 : forall c rest, valid_cp c = true -> drop_rune (utf8_cp c ++ rest) = rest.
Proof.
  intros c rest V. unfold drop_rune. rewrite rune_len_utf8_cp by assumption.
  rewrite skipn_app. rewrite skipn_all. rewrite Nat.sub_diag. reflexivity.
Qed.

Lemma utf8_cp_ascii : forall c, c < 128 -> utf8_cp c = [c].
Proof. intros c H. unfold utf8_cp. destruct (c <? 128) eqn:E; [reflexivity|lia]. Qed.

Lemma utf8_cp_high : forall c, 128 <= c -> Forall (fun b => 128 <= b) (utf8_cp c).
Proof.
  intros c H. unfold utf8_cp.
  repeat match goal with |- context[if ?b then _ else _] => let E := fresh "E" in destruct b eqn:E end;
    repeat constructor; lia.
Qed.

Lemma utf8_encode_app : forall a b, utf8_encode (a ++ b) = utf8_encode a ++ utf8_encode b.
Proof. intros. unfold utf8_encode. apply flat_map_app. Qed.

Lemma utf8_encode_ascii : forall l, Forall (fun c => c < 128) l -> utf8_encode l = l.
Proof.
  induction l as [|c l IH]; intros F; [reflexivity|]. inversion F; subst.
  unfold utf8_encode in *. cbn [flat_map]. rewrite utf8_cp_ascii by assumption. cbn. f_equal. auto.
Qed.

Lemma replace_byte_app : forall old new a b,
  replace_byte old new (a ++ b) = replace_byte old new a ++ replace_byte old new b.
Proof. intros. unfold replace_byte. apply flat_map_app. Qed.

Lemma replace_byte_id : forall old new l, Forall (fun b => b <> old) l -> replace_byte old new l = l.
Proof.
  induction l as [|c l IH]; intros F; [reflexivity|]. inversion F; subst.
  unfold replace_byte in *. cbn [flat_map]. destruct (c =? old) eqn:E; [apply N.eqb_eq in E; congruence|].
  cbn. f_equal. auto.
Qed.

(* replacing an ASCII character by ASCII characters commutes with UTF-8 encoding:
   strings.Replace on the bytes of a Go string is a replacement of characters *)
Lemma replace_utf8 : forall old new cps, old < 128 -> Forall (fun c => c < 128) new ->
  replace_byte old new (utf8_encode cps) = utf8_encode (replace_byte old new cps).
Proof.
  intros old new cps Ho Hn. induction cps as [|c cps IH]; [reflexivity|].
  change (utf8_encode (c :: cps)) with (utf8_cp c ++ utf8_encode cps).
  rewrite replace_byte_app, IH.
  change (replace_byte old new (c :: cps)) with ((if c =? old then new else [c]) ++ replace_byte old new cps).
  rewrite utf8_encode_app. f_equal.
  destruct (c =? old) eqn:E.
  - apply N.eqb_eq in E. subst c. rewrite utf8_cp_ascii by assumption.
    rewrite utf8_encode_ascii by assumption. unfold replace_byte. cbn. rewrite N.eqb_refl. apply app_nil_r.
  - apply N.eqb_neq in E. change (utf8_encode [c]) with (utf8_cp c ++ []). rewrite app_nil_r.
    destruct (c <? 128) eqn:Ec.
    + rewrite utf8_cp_ascii by lia. unfold replace_byte. cbn. apply N.eqb_neq in E. rewrite E. reflexivity.
    + apply replace_byte_id. eapply Forall_impl; [|apply utf8_cp_high; lia]. cbn. intros. lia.
Qed.

Definition valid_str (cps : list N) : Prop := Forall (fun c => valid_cp c = true) cps.

Lemma replace_valid : forall old new cps, valid_str new -> valid_str cps -> valid_str (replace_byte old new cps).
Proof.
  intros old new cps Vn V. unfold valid_str, replace_byte in *. rewrite Forall_forall in *. intros x Hx.
  apply in_flat_map in Hx. destruct Hx as [c [Hc Hx]]. destruct (c =? old); [auto|].
  destruct Hx as [Hx|[]]. subst. auto.
Qed.

Definition hd_hyphen (l : list N) : bool := match l with b :: _ => b =? HYPHEN | [] => false end.

Lemma hd_hyphen_utf8 : forall cps, hd_hyphen (utf8_encode cps) = hd_hyphen cps.
Proof.
  intros [|c cps]; [reflexivity|]. change (utf8_encode (c :: cps)) with (utf8_cp c ++ utf8_encode cps).
  unfold utf8_cp, hd_hyphen, HYPHEN.
  repeat match goal with |- context[if ?b then _ else _] => let E := fresh "E" in destruct b eqn:E end;
    cbn [app]; try reflexivity; lia.
Qed.

Lemma tl_utf8_hyphen : forall cps, hd_hyphen cps = true -> tl (utf8_encode cps) = utf8_encode (tl cps).
Proof.
  intros [|c cps] H; [discriminate|]. cbn in H. apply N.eqb_eq in H. subst c. reflexivity.
Qed.

Lemma h34_as_hd : forall l : list N,
  match l with c2 :: c3 :: _ => (c2 =? HYPHEN) && (c3 =? HYPHEN) | _ => false end
  = hd_hyphen l && hd_hyphen (tl l).
Proof.
  intros [|a [|b l]]; cbn; try reflexivity. rewrite andb_false_r. reflexivity.
Qed.

(* the rune-indexed test on the UTF-8 bytes is the specification's test on characters *)
Lemma h34_runes_is_spec : forall cps, valid_str cps -> h34_runes (utf8_encode cps) = h34_spec cps.
Proof.
  intros cps V. unfold h34_runes, h34_spec.
  destruct cps as [|a [|b rest]].
  - reflexivity.
  - change (utf8_encode [a]) with (utf8_cp a ++ []). inversion V; subst.
    rewrite drop_rune_utf8 by assumption. reflexivity.
  - change (utf8_encode (a :: b :: rest)) with (utf8_cp a ++ utf8_cp b ++ utf8_encode rest).
    inversion V as [|? ? Va V']; subst. inversion V' as [|? ? Vb V'']; subst.
    rewrite drop_rune_utf8 by assumption. rewrite drop_rune_utf8 by assumption.
    rewrite h34_as_hd. rewrite (h34_as_hd rest). rewrite hd_hyphen_utf8.
    destruct (hd_hyphen rest) eqn:E; [|reflexivity]. cbn [andb].
    rewrite tl_utf8_hyphen by assumption. apply hd_hyphen_utf8.
Qed.

(* steps 2-4 with the rune-indexed test = the specification's steps on characters *)
Lemma steps234_runes_is_spec : forall cps, valid_str cps ->
  steps234 h34_runes (utf8_encode cps) = utf8_encode (steps234_spec cps).
Proof.
  intros cps V. unfold steps234, steps234_spec.
  assert (A1 : HYPHEN < 128) by (unfold HYPHEN; lia).
  assert (A2 : DOTC < 128) by (unfold DOTC; lia).
  assert (F1 : Forall (fun c => c < 128) [HYPHEN; HYPHEN]) by (repeat constructor; unfold HYPHEN; lia).
  assert (F2 : Forall (fun c => c < 128) [HYPHEN]) by (repeat constructor; unfold HYPHEN; lia).
  rewrite (replace_utf8 HYPHEN [HYPHEN; HYPHEN] cps A1 F1).
  rewrite (replace_utf8 DOTC [HYPHEN] _ A2 F2).
  set (p := replace_byte DOTC [HYPHEN] (replace_byte HYPHEN [HYPHEN; HYPHEN] cps)).
  assert (Vp : valid_str p).
  { apply replace_valid; [repeat constructor|]. apply replace_valid; [repeat constructor|assumption]. }
  rewrite h34_runes_is_spec by assumption.
  destruct (h34_spec p); [|reflexivity].
  rewrite !utf8_encode_app. reflexivity.
Qed.

(* for ASCII strings the byte-indexed test of the pinned code is the specification's too *)
Lemma steps234_bytes_is_spec_ascii : forall cps, Forall (fun c => c < 128) cps ->
  steps234 h34_bytes (utf8_encode cps) = utf8_encode (steps234_spec cps).
Proof.
  intros cps F. rewrite utf8_encode_ascii by assumption.
  assert (G : Forall (fun c => c < 128) (steps234_spec cps)).
  { unfold steps234_spec.
    set (p := replace_byte DOTC [HYPHEN] (replace_byte HYPHEN [HYPHEN; HYPHEN] cps)).
    assert (Fp : Forall (fun c => c < 128) p).
    { subst p. unfold replace_byte. rewrite Forall_forall in *. intros x Hx.
      apply in_flat_map in Hx. destruct Hx as [c [Hc Hx]].
      apply in_flat_map in Hc. destruct Hc as [c0 [Hc0 Hc]].
      assert (c < 128).
      { destruct (c0 =? HYPHEN); [destruct Hc as [Hc|[Hc|[]]]; subst; unfold HYPHEN; lia|].
        destruct Hc as [Hc|[]]. subst. auto. }
      destruct (c =? DOTC); [destruct Hx as [Hx|[]]; subst; unfold HYPHEN; lia|].
      destruct Hx as [Hx|[]]. subst. assumption. }
    destruct (h34_spec p); [|assumption].
    apply Forall_app. split; [repeat constructor; unfold HYPHEN; lia|].
    apply Forall_app. split; [assumption|repeat constructor; unfold HYPHEN; lia]. }
  rewrite utf8_encode_ascii by assumption. reflexivity.
Qed.

(* ... and differs from it for internationalised names, in both directions *)
Lemma steps234_bytes_refuted :
  (* "é-c.com": the pinned code adds 0-...-0, the specification does not *)
  (let cps := [233; 45; 99; 46; 99; 111; 109] in
   valid_str cps /\ h34_bytes (replace_byte DOTC [HYPHEN] (replace_byte HYPHEN [HYPHEN; HYPHEN] (utf8_encode cps))) = true /\
   h34_spec (replace_byte DOTC [HYPHEN] (replace_byte HYPHEN [HYPHEN; HYPHEN] cps)) = false /\
   steps234 h34_bytes (utf8_encode cps) <> utf8_encode (steps234_spec cps)) /\
  (* "éa-b.com": the specification adds 0-...-0, the pinned code does not *)
  (let cps := [233; 97; 45; 98; 46; 99; 111; 109] in
   valid_str cps /\ h34_bytes (replace_byte DOTC [HYPHEN] (replace_byte HYPHEN [HYPHEN; HYPHEN] (utf8_encode cps))) = false /\
   h34_spec (replace_byte DOTC [HYPHEN] (replace_byte HYPHEN [HYPHEN; HYPHEN] cps)) = true /\
   steps234 h34_bytes (utf8_encode cps) <> utf8_encode (steps234_spec cps)).
Proof.
  split; cbv zeta; (split; [repeat constructor|]); (split; [vm_compute; reflexivity|]);
    (split; [vm_compute; reflexivity|]); vm_compute; discriminate.
Qed.

(* the full basic algorithm: with the rune-indexed test it is the specification's, given
   ToUnicode's answer as a string of characters *)
Section BasicIsSpec.
  Variable to_unicode : bytes -> option bytes.
  Variable to_ascii : bytes -> option bytes.

  Lemma basic_is_spec : forall d cps,
    to_unicode d = Some (utf8_encode cps) -> valid_str cps ->
    domain_prefix_basic to_unicode to_ascii h34_runes d = to_ascii (utf8_encode (steps234_spec cps)).
  Proof.
    intros d cps Hu V. unfold domain_prefix_basic. rewrite Hu. rewrite steps234_runes_is_spec by assumption. reflexivity.
  Qed.

  Lemma basic_v0_is_spec_ascii : forall d cps,
    to_unicode d = Some (utf8_encode cps) -> Forall (fun c => c < 128) cps ->
    domain_prefix_basic to_unicode to_ascii h34_bytes d = to_ascii (utf8_encode (steps234_spec cps)).
  Proof.
    intros d cps Hu V. unfold domain_prefix_basic. rewrite Hu. rewrite steps234_bytes_is_spec_ascii by assumption. reflexivity.
  Qed.
End BasicIsSpec.
