(* ProxyClientIPProofs.v — under every schedule of the handlers of one proxy, the URL a session is dialled with is
   relay_url_of (default relay) (that session): in particular its client_ip is that session's remote address, or -
   when the proxy knows none - whatever the relay URL itself carried; never another session's. *)
From Coq Require Import List NArith Bool Arith Lia.
From Snow Require Import Lib.Wire Model.ProxyClientIP.
Import ListNotations.
Open Scope nat_scope.

Lemma beq_refl_b : forall a : bytes, beq a a = true.
Proof. induction a as [|x a IH]; cbn [beq]; [reflexivity|]. rewrite N.eqb_refl, IH. reflexivity. Qed.

Lemma beq_eq_b : forall a b : bytes, beq a b = true -> a = b.
Proof.
  induction a as [|x a IH]; intros [|y b] H; cbn [beq] in H; try discriminate; [reflexivity|].
  apply andb_prop in H. destruct H as [H1 H2]. apply N.eqb_eq in H1. subst y. f_equal. apply IH. exact H2.
Qed.

(* ---------- q.Set *)
Lemma q_values_set_same k v q : q_values k (q_set k v q) = [v].
Proof.
  unfold q_values, q_set. rewrite filter_app, map_app. cbn [filter fst]. rewrite beq_refl_b. cbn [map snd].
  replace (filter (fun e => beq (fst e) k) (filter (fun e => negb (beq (fst e) k)) q)) with (@nil (bytes * bytes)); [reflexivity|].
  induction q as [|e q IH]; cbn [filter]; [reflexivity|].
  destruct (beq (fst e) k) eqn:E; cbn [negb]; [exact IH|]. cbn [filter]. rewrite E. exact IH.
Qed.

Lemma q_values_set_other k k' v q : beq k' k = false -> (forall e : bytes * bytes, beq (fst e) k' = true -> beq (fst e) k = false) ->
  q_values k' (q_set k v q) = q_values k' q.
Proof.
  intros Hk Hdis. unfold q_values, q_set. rewrite filter_app, map_app. cbn [filter fst].
  assert (Ekk : beq k k' = false).
  { destruct (beq k k') eqn:E; [|reflexivity]. exfalso. pose proof (Hdis (k, []) E) as H. cbn [fst] in H. rewrite beq_refl_b in H. discriminate. }
  rewrite Ekk. cbn [map]. rewrite app_nil_r. f_equal.
  induction q as [|e q IH]; cbn [filter]; [reflexivity|].
  destruct (beq (fst e) k) eqn:E; cbn [negb].
  - destruct (beq (fst e) k') eqn:E'; [rewrite (Hdis e E') in E; discriminate | exact IH].
  - cbn [filter]. destruct (beq (fst e) k'); [f_equal; exact IH | exact IH].
Qed.

(* ---------- hupd *)
Lemma hupd_eq h : forall l i x, nth_error l i = Some x -> nth_error (hupd i h l) i = Some h.
Proof. induction l as [|y l IH]; intros [|i] x; cbn [hupd nth_error]; try discriminate; [reflexivity | apply IH]. Qed.
Lemma hupd_neq h : forall l i j, i <> j -> nth_error (hupd i h l) j = nth_error l j.
Proof.
  induction l as [|y l IH]; intros [|i] [|j] H; cbn [hupd nth_error]; try reflexivity; try congruence. apply IH. congruence.
Qed.
Lemma hupd_length h : forall l i, length (hupd i h l) = length l.
Proof. induction l as [|y l IH]; intros [|i]; cbn [hupd length]; try reflexivity. rewrite IH. reflexivity. Qed.

(* ---------- the invariant: every handler's own URL value is a function of its own session; a dial is of its handler *)
Definition pc_ok (dflt : rurl) (s : session) (pc : hpc) : Prop :=
  match pc with
  | H_Start | H_Dialed => True
  | H_Parsed u => u = base_of dflt s
  | H_Ready u => u = relay_url_of dflt s
  end.

Record PInv (dflt : rurl) (st : pstate) : Prop := {
  pi_default : p_default st = dflt;
  pi_pc : forall i s pc, nth_error (p_handlers st) i = Some (s, pc) -> pc_ok dflt s pc;
  pi_dial : forall i u, In (i, u) (p_dials st) ->
            exists s, nth_error (p_handlers st) i = Some (s, H_Dialed) /\ u = relay_url_of dflt s;
  pi_once : NoDup (map fst (p_dials st))
}.

Lemma pinv_init dflt : PInv dflt (pinit dflt).
Proof.
  constructor; cbn.
  - reflexivity.
  - intros [|i] s pc H; discriminate.
  - intros i u [].
  - constructor.
Qed.

Lemma nth_app_one {A} (l : list A) x i y : nth_error (l ++ [x]) i = Some y ->
  nth_error l i = Some y \/ (i = length l /\ y = x).
Proof.
  intros H. destruct (Nat.lt_ge_cases i (length l)) as [Hlt|Hge].
  - left. rewrite nth_error_app1 in H by exact Hlt. exact H.
  - right. rewrite nth_error_app2 in H by exact Hge.
    destruct (i - length l) as [|j] eqn:E; cbn in H; [injection H as <-; split; [lia | reflexivity]|].
    destruct j; discriminate.
Qed.

Lemma NoDup_snoc {A} (l : list A) x : NoDup l -> ~ In x l -> NoDup (l ++ [x]).
Proof.
  induction l as [|y l IH]; intros Hn Hx; cbn.
  - constructor; [intros [] | constructor].
  - inversion Hn as [|y' l' Hy Hl]; subst. constructor.
    + intros Hin. apply in_app_or in Hin. destruct Hin as [Hin|[Hin|[]]]; [exact (Hy Hin) | apply Hx; left; symmetry; exact Hin].
    + apply IH; [exact Hl | intros Hin; apply Hx; right; exact Hin].
Qed.

(* the session of a handler never changes, whatever step is taken *)
Lemma pstep_session st l i s pc : nth_error (p_handlers st) i = Some (s, pc) ->
  exists pc', nth_error (p_handlers (pstep st l)) i = Some (s, pc').
Proof.
  intros H. destruct l as [s0|j|j|j]; cbn [pstep].
  - cbn. exists pc. rewrite nth_error_app1; [exact H|]. apply nth_error_Some. congruence.
  - destruct (nth_error (p_handlers st) j) as [[sj [|u|u|]]|] eqn:Hj; try (exists pc; exact H).
    cbn. destruct (Nat.eq_dec j i) as [->|Hne].
    + rewrite H in Hj. injection Hj as <- _. eexists. apply hupd_eq with (x := (s, pc)). exact H.
    + exists pc. rewrite hupd_neq by exact Hne. exact H.
  - destruct (nth_error (p_handlers st) j) as [[sj [|u|u|]]|] eqn:Hj; try (exists pc; exact H).
    cbn. destruct (Nat.eq_dec j i) as [->|Hne].
    + rewrite H in Hj. injection Hj as <- _. eexists. apply hupd_eq with (x := (s, pc)). exact H.
    + exists pc. rewrite hupd_neq by exact Hne. exact H.
  - destruct (nth_error (p_handlers st) j) as [[sj [|u|u|]]|] eqn:Hj; try (exists pc; exact H).
    cbn. destruct (Nat.eq_dec j i) as [->|Hne].
    + rewrite H in Hj. injection Hj as <- _. eexists. apply hupd_eq with (x := (s, pc)). exact H.
    + exists pc. rewrite hupd_neq by exact Hne. exact H.
Qed.

Lemma pstep_inv dflt st l : PInv dflt st -> PInv dflt (pstep st l).
Proof.
  intros [Id Ip Idl Io]. destruct l as [s0|j|j|j]; cbn [pstep].
  - (* spawn *) constructor; cbn.
    + exact Id.
    + intros i s pc H. destruct (nth_app_one _ _ _ _ H) as [Ho|[_ E]]; [eapply Ip; exact Ho|]. injection E as -> ->. exact I.
    + intros i u Hin. destruct (Idl i u Hin) as [s [Hs Hu]]. exists s. split; [|exact Hu].
      rewrite nth_error_app1; [exact Hs|]. apply nth_error_Some. congruence.
    + exact Io.
  - (* parse *)
    destruct (nth_error (p_handlers st) j) as [[sj [|u|u|]]|] eqn:Hj; try (constructor; assumption).
    constructor; cbn.
    + exact Id.
    + intros i s pc H. destruct (Nat.eq_dec j i) as [->|Hne].
      * rewrite (hupd_eq _ _ _ _ Hj) in H. injection H as <- <-. cbn. rewrite Id. reflexivity.
      * rewrite hupd_neq in H by exact Hne. eapply Ip; exact H.
    + intros i u Hin. destruct (Idl i u Hin) as [s [Hs Hu]]. exists s. split; [|exact Hu].
      destruct (Nat.eq_dec j i) as [->|Hne]; [rewrite Hs in Hj; discriminate | rewrite hupd_neq by exact Hne; exact Hs].
    + exact Io.
  - (* set query *)
    destruct (nth_error (p_handlers st) j) as [[sj [|u|u|]]|] eqn:Hj; try (constructor; assumption).
    pose proof (Ip j sj _ Hj) as Hu. cbn in Hu.
    constructor; cbn.
    + exact Id.
    + intros i s pc H. destruct (Nat.eq_dec j i) as [->|Hne].
      * rewrite (hupd_eq _ _ _ _ Hj) in H. injection H as <- <-. cbn. unfold relay_url_of. rewrite Hu. reflexivity.
      * rewrite hupd_neq in H by exact Hne. eapply Ip; exact H.
    + intros i u0 Hin. destruct (Idl i u0 Hin) as [s [Hs Hu0]]. exists s. split; [|exact Hu0].
      destruct (Nat.eq_dec j i) as [->|Hne]; [rewrite Hs in Hj; discriminate | rewrite hupd_neq by exact Hne; exact Hs].
    + exact Io.
  - (* dial *)
    destruct (nth_error (p_handlers st) j) as [[sj [|u|u|]]|] eqn:Hj; try (constructor; assumption).
    pose proof (Ip j sj _ Hj) as Hu. cbn in Hu.
    constructor; cbn.
    + exact Id.
    + intros i s pc H. destruct (Nat.eq_dec j i) as [->|Hne].
      * rewrite (hupd_eq _ _ _ _ Hj) in H. injection H as <- <-. exact I.
      * rewrite hupd_neq in H by exact Hne. eapply Ip; exact H.
    + intros i u0 Hin. apply in_app_or in Hin. destruct Hin as [Hin|[Hin|[]]].
      * destruct (Idl i u0 Hin) as [s [Hs Hu0]]. exists s. split; [|exact Hu0].
        destruct (Nat.eq_dec j i) as [->|Hne]; [rewrite Hs in Hj; discriminate | rewrite hupd_neq by exact Hne; exact Hs].
      * injection Hin as <- <-. exists sj. split; [apply hupd_eq with (x := (sj, H_Ready u)); exact Hj | exact Hu].
    + rewrite map_app. cbn [map fst]. apply NoDup_snoc; [exact Io|].
      intros Hin. apply in_map_iff in Hin. destruct Hin as [[i u0] [Hi Hin]]. cbn in Hi. subst i.
      destruct (Idl j u0 Hin) as [s [Hs _]]. rewrite Hs in Hj. discriminate.
Qed.

Theorem prun_inv dflt tr : PInv dflt (prun dflt tr).
Proof.
  unfold prun. assert (G : forall st, PInv dflt st -> PInv dflt (fold_left pstep tr st)).
  { induction tr as [|l tr IH]; intros st I; cbn [fold_left]; [exact I|]. apply IH. apply pstep_inv. exact I. }
  apply G. apply pinv_init.
Qed.

(* ---------- the statement *)
Theorem dial_is_of_its_session : forall dflt tr i u,
  In (i, u) (p_dials (prun dflt tr)) ->
  exists s, nth_error (p_handlers (prun dflt tr)) i = Some (s, H_Dialed) /\ u = relay_url_of dflt s.
Proof. intros dflt tr. apply (pi_dial _ _ (prun_inv dflt tr)). Qed.

Theorem one_dial_per_session : forall dflt tr, NoDup (map fst (p_dials (prun dflt tr))).
Proof. intros dflt tr. apply (pi_once _ _ (prun_inv dflt tr)). Qed.

(* the client_ip values of relay_url_of *)
Theorem client_ip_of_session : forall dflt s,
  q_values CLIENT_IP (ru_query (relay_url_of dflt s)) =
    match s_addr s with
    | Some a => [a]
    | None => q_values CLIENT_IP (ru_query (base_of dflt s))
    end.
Proof.
  intros dflt s. unfold relay_url_of. destruct (s_addr s) as [a|]; [|reflexivity].
  cbn [set_client_ip ru_query]. apply q_values_set_same.
Qed.

(* every other parameter of the relay URL goes through unchanged *)
Theorem other_params_kept : forall dflt s k, beq k CLIENT_IP = false ->
  q_values k (ru_query (relay_url_of dflt s)) = q_values k (ru_query (base_of dflt s)).
Proof.
  intros dflt s k Hk. unfold relay_url_of. destruct (s_addr s) as [a|]; [|reflexivity].
  cbn [set_client_ip ru_query]. apply q_values_set_other; [exact Hk|].
  intros e He. destruct (beq (fst e) CLIENT_IP) eqn:E; [|reflexivity].
  (* fst e = k and fst e = client_ip would make k = client_ip *)
  exfalso. apply beq_eq_b in He. apply beq_eq_b in E. rewrite <- He, E, beq_refl_b in Hk. discriminate.
Qed.

(* together: under every schedule, a dial's client_ip is the dialling session's own remote address - or, when the
   proxy knows none, what the session's relay URL carried by itself (nothing, for a relay URL without client_ip) *)
Theorem dial_client_ip : forall dflt tr i u,
  In (i, u) (p_dials (prun dflt tr)) ->
  exists s pc, nth_error (p_handlers (prun dflt tr)) i = Some (s, pc) /\ ru_base u = ru_base (base_of dflt s) /\
    q_values CLIENT_IP (ru_query u) =
      match s_addr s with Some a => [a] | None => q_values CLIENT_IP (ru_query (base_of dflt s)) end.
Proof.
  intros dflt tr i u Hin. destruct (dial_is_of_its_session dflt tr i u Hin) as [s [Hs ->]].
  exists s, H_Dialed. split; [exact Hs|]. split; [|apply client_ip_of_session].
  unfold relay_url_of. destruct (s_addr s); reflexivity.
Qed.

(* the handlers' sessions are the spawned sessions, in order, under every schedule *)
Fixpoint spawned (tr : list plabel) : list session :=
  match tr with
  | [] => []
  | L_Spawn s :: t => s :: spawned t
  | _ :: t => spawned t
  end.

Lemma hupd_fst i s pc : forall l pc0, nth_error l i = Some (s, pc0) -> map fst (hupd i (s, pc) l) = map fst l.
Proof.
  revert i. induction i as [|i IH]; intros [|[s1 pc1] l] pc0 H; cbn in *; try discriminate.
  - injection H as -> _. reflexivity.
  - f_equal. eapply IH. exact H.
Qed.

Lemma pstep_sessions st l : map fst (p_handlers (pstep st l)) =
  map fst (p_handlers st) ++ match l with L_Spawn s => [s] | _ => [] end.
Proof.
  destruct l as [s0|j|j|j]; cbn [pstep].
  - cbn. rewrite map_app. reflexivity.
  - rewrite app_nil_r. destruct (nth_error (p_handlers st) j) as [[sj [|u|u|]]|] eqn:Hj; try reflexivity. cbn. eapply hupd_fst. exact Hj.
  - rewrite app_nil_r. destruct (nth_error (p_handlers st) j) as [[sj [|u|u|]]|] eqn:Hj; try reflexivity. cbn. eapply hupd_fst. exact Hj.
  - rewrite app_nil_r. destruct (nth_error (p_handlers st) j) as [[sj [|u|u|]]|] eqn:Hj; try reflexivity. cbn. eapply hupd_fst. exact Hj.
Qed.

Theorem handlers_are_spawned : forall dflt tr, map fst (p_handlers (prun dflt tr)) = spawned tr.
Proof.
  intros dflt tr. unfold prun.
  assert (G : forall st, map fst (p_handlers (fold_left pstep tr st)) = map fst (p_handlers st) ++ spawned tr).
  { induction tr as [|l tr IH]; intros st; cbn [fold_left spawned]; [rewrite app_nil_r; reflexivity|].
    rewrite IH, pstep_sessions. rewrite <- app_assoc. destruct l; reflexivity. }
  rewrite G. reflexivity.
Qed.
