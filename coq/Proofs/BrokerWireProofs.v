(* BrokerWireProofs.v — the NAT type on the wire (common/messages, Model/Messages.v) composed with the pool
   selection of the matching machine (Model/Broker.v): absent or empty NAT means unknown on both wire
   formats, and unknown behaves like restricted at the broker. *)
From Coq Require Import List NArith Bool String.
From Snow Require Import Lib.Wire Model.JsonBoundary Model.Messages Proofs.MessagesProofs Model.Broker Proofs.BrokerProofs.
Import ListNotations.
Open Scope N_scope.

(* how the broker reads a decoded NAT string: ipc.go / broker.go compare with the constant NATUnrestricted only
   when choosing a heap; anything else goes with the restricted/unknown proxies *)
Definition natty_of (n : bytes) : natty :=
  if beq n NAT_UNRESTRICTED then NatUnrestricted
  else if beq n NAT_RESTRICTED then NatRestricted else NatUnknown.

Lemma natty_of_unknown : natty_of NAT_UNKNOWN = NatUnknown.
Proof. reflexivity. Qed.

Theorem client_absent_nat_served_from_unrestricted_proxies : forall v o n f e,
  decode_client_poll_body v = Ok (o, n, f) -> absent "nat" v ->
  natty_of n = NatUnknown /\
  eligible (natty_of n) e = e_inheap e && is_unrestricted (e_nat e).
Proof.
  intros v o n f e Hd Ha.
  destruct defaults as [_ [_ [_ [_ [_ [_ [Hc _]]]]]]].
  rewrite (Hc v o n f Hd Ha). split; reflexivity.
Qed.

Theorem proxy_absent_nat_kept_for_unrestricted_clients : forall v r sd pt cl,
  decode_proxy_poll v = Ok r -> absent "NAT" v ->
  natty_of (pq_nat r) = NatUnknown /\
  (forall cn, eligible cn (new_entry sd (natty_of (pq_nat r)) pt cl) = is_unrestricted cn).
Proof.
  intros v r sd pt cl Hd Ha.
  destruct defaults as [Hp _]. rewrite (Hp v r Hd Ha). split; [reflexivity|].
  intros cn. unfold eligible, new_entry. cbn. destruct cn; reflexivity.
Qed.

(* the default bridge on the wire: a client poll without a fingerprint field decodes to exactly what a poll naming
   the default fingerprint decodes to; Model/Broker.v's [fp_of None = default_fp] is this defaulting, with the tag
   [default_fp] standing for the string DEFAULT_FINGERPRINT *)
Theorem client_absent_fingerprint_names_default : forall v o n f,
  decode_client_poll_body v = Ok (o, n, f) -> absent "fingerprint" v -> f = DEFAULT_FINGERPRINT.
Proof.
  intros v o n f Hd Ha. destruct defaults as [_ [_ [_ [_ [_ [_ [_ Hf]]]]]]]. exact (Hf v o n f Hd Ha).
Qed.
