(* BrokerWireProofs.v — the NAT type on the wire (common/messages, Model/Messages.v) composed with the pool
   selection of the matching machine (Model/Broker.v): absent or empty NAT means unknown on both wire
   formats, and unknown behaves like restricted at the broker. *)
From Coq Require Import List NArith Bool String.
From Snow Require Import Lib.Wire Model.JsonBoundary Model.Messages Proofs.MessagesProofs Model.Broker Proofs.BrokerProofs.
Import ListNotations.
Open Scope N_scope.

(* how the broker reads a decoded NAT string: ipc.go / broker.go compare with the constant NATUnrestricted only
   when choosing a heap; anything else goes with the restricted/unknown proxies *)
Definition natty_of (n : bytes) : natty :=
  if beq n NAT_UNRESTRICTED then NatUnrestricted
  else if beq n NAT_RESTRICTED then NatRestricted else NatUnknown.

Lemma natty_of_unknown : natty_of NAT_UNKNOWN = NatUnknown.
Proof. reflexivity. Qed.

Theorem client_absent_nat_served_from_unrestricted_proxies : forall v o n f e,
  decode_client_poll_body v = Ok (o, n, f) -> absent "nat" v ->
  natty_of n = NatUnknown /\
  eligible (natty_of n) e = e_inheap e && is_unrestricted (e_nat e).
Proof.
  intros v o n f e Hd Ha.
  destruct defaults as [_ [_ [_ [_ [_ [_ [Hc _]]]]]]].
  rewrite (Hc v o n f Hd Ha). split; reflexivity.
Qed.

Theorem proxy_absent_nat_kept_for_unrestricted_clients : forall v r sd pt cl,
  decode_proxy_poll v = Ok r -> absent "NAT" v ->
  natty_of (pq_nat r) = NatUnknown /\
  (forall cn, eligible cn (new_entry sd (natty_of (pq_nat r)) pt cl) = is_unrestricted cn).
Proof.
  intros v r sd pt cl Hd Ha.
  destruct defaults as [Hp _]. rewrite (Hp v r Hd Ha). split; [reflexivity|].
  intros cn. unfold eligible, new_entry. cbn. destruct cn; reflexivity.
Qed.

(* the default bridge on the wire: a client poll without a fingerprint field decodes to exactly what a poll naming
   the default fingerprint decodes to; Model/Broker.v's [fp_of None = default_fp] is this defaulting, with the tag
   [default_fp] standing for the string DEFAULT_FINGERPRINT *)
Theorem client_absent_fingerprint_names_default : forall v o n f,
  decode_client_poll_body v = Ok (o, n, f) -> absent "fingerprint" v -> f = DEFAULT_FINGERPRINT.
Proof.
  intros v o n f Hd Ha. destruct defaults as [_ [_ [_ [_ [_ [_ [_ Hf]]]]]]]. exact (Hf v o n f Hd Ha).
Qed.

(* ---- the Version field of a proxy poll does not enter the pool decision ----
   DecodeProxyPollRequestWithRelayPrefix looks at the version only to accept or refuse the poll (major version 1:
   "1.0" ... "1.3", a bare "1", "1.10", "1.2.3" ...); everything it returns is a function of the other fields. *)

(* two polls whose fields agree except for the (accepted) version string decode alike *)
Theorem proxy_poll_version_irrelevant : forall v1 v2 sid ver1 ver2 ty nat n pat,
  unmarshal poll_req_schema v1 = Some [VStr sid; VStr ver1; VStr ty; VStr nat; VInt n; VPtr pat] ->
  unmarshal poll_req_schema v2 = Some [VStr sid; VStr ver2; VStr ty; VStr nat; VInt n; VPtr pat] ->
  major_ok ver1 = true -> major_ok ver2 = true ->
  decode_proxy_poll v1 = decode_proxy_poll v2.
Proof.
  intros v1 v2 sid ver1 ver2 ty nat n pat H1 H2 M1 M2. unfold decode_proxy_poll. rewrite H1, H2, M1, M2. reflexivity.
Qed.

(* for EVERY accepted version string: the poll is registered with exactly the NAT type it carries (empty = unknown),
   hence in the pool that NAT type belongs to - kept for the clients compatible with it and for no others *)
Theorem proxy_poll_nat_for_every_version : forall v sid ver ty nat n pat,
  unmarshal poll_req_schema v = Some [VStr sid; VStr ver; VStr ty; VStr nat; VInt n; VPtr pat] ->
  major_ok ver = true -> beq sid [] = false ->
  match norm_nat nat with
  | None => decode_proxy_poll v = Err
  | Some nat' =>
      exists r, decode_proxy_poll v = Ok r /\ pq_nat r = nat' /\ pq_sid r = sid /\ pq_type r = norm_type ty /\
                pq_clients r = n /\
                (forall cn sd pt cl, eligible cn (new_entry sd (natty_of (pq_nat r)) pt cl) = compat cn (natty_of nat'))
  end.
Proof.
  intros v sid ver ty nat n pat H M S. unfold decode_proxy_poll. rewrite H, M, S. cbn [negb].
  destruct (norm_nat nat) as [nat'|]; [|reflexivity].
  eexists. split; [reflexivity|]. cbn [pq_nat pq_sid pq_type pq_clients].
  split; [reflexivity|]. split; [reflexivity|]. split; [reflexivity|]. split; [reflexivity|].
  intros cn sd pt cl. unfold eligible, new_entry, compat. cbn. destruct cn, (natty_of nat'); reflexivity.
Qed.

Lemma norm_nat_unrestricted : norm_nat NAT_UNRESTRICTED = Some NAT_UNRESTRICTED.
Proof. reflexivity. Qed.
