(* MetricsGeoProofs.v — the NAT-type and country figures of printMetrics (Model/Metrics.v), for every history. *)
From Coq Require Import List NArith ZArith Lia Bool Arith.
From Coq Require Import ZifyN ZifyNat ZifyBool.
From Snow Require Import Lib.Wire Model.Round8 Model.Metrics Proofs.Round8Proofs Proofs.MetricsProofs.
Import ListNotations.
Open Scope N_scope.

(* ---------- what an op does to the country statistics ---------- *)
Definition accepted_poll (o : op) : option (bytes * bytes * N * N) :=
  match o with
  | ProxyPoll (Some (ad, c)) t n _ out => match out with Rejected => None | _ => Some (ad, c, t, n) end
  | _ => None
  end.

Record cstats := { cs_t : N -> list bytes; cs_r : list bytes; cs_u : list bytes; cs_k : list bytes; cs_c : list (bytes * N); cs_g : bool }.
Definition cs (s : mstate) : cstats :=
  {| cs_t := tsets s; cs_r := nat_r s; cs_u := nat_u s; cs_k := nat_k s; cs_c := ccounts s; cs_g := geo s |}.

Lemma cs_update_country_bumped : forall ad t n c s s',
  cs s' = cs s -> cs (update_country ad t n c s') = cs (update_country ad t n c s).
Proof.
  intros ad t n c s s' H. unfold cs in H. inversion H as [[H1 H2 H3 H4 H5 H6]].
  unfold update_country. rewrite H1. destruct (mem ad (tsets s (norm_type t))); [exact H|].
  rewrite H6. destruct (geo s); unfold cs; cbn [tsets nat_r nat_u nat_k ccounts geo]; rewrite ?H1, ?H2, ?H3, ?H4, ?H5, ?H6; reflexivity.
Qed.

Lemma cs_bump_ev : forall e s, cs (bump_ev e s) = cs s. Proof. reflexivity. Qed.
Lemma cs_bump_prom : forall k s, cs (bump_prom k s) = cs s. Proof. reflexivity. Qed.

Lemma apply_op_cs : forall s o,
  cs (apply_op s o) =
  match o with
  | Zero => cs (zero s)
  | Reload ok => cs (set_geo ok s)
  | _ => match accepted_poll o with
         | Some (ad, c, t, n) => cs (update_country ad t n c s)
         | None => cs s
         end
  end.
Proof.
  intros s o. destruct o as [|a t n relay out|n|n|n| | |ok]; cbn [apply_op accepted_poll]; try reflexivity.
  - destruct relay, out, a as [[ad c]|]; rewrite ?cs_bump_prom, ?cs_bump_ev; try reflexivity;
      apply cs_update_country_bumped; rewrite ?cs_bump_prom, ?cs_bump_ev; reflexivity.
  - destruct (n =? 2); reflexivity.
Qed.

Lemma poll_of_accepted : forall u a o,
  poll_of u a o = match accepted_poll o with
                  | Some (ad, c, t, n) => if (norm_type t =? u) && beq ad a then Some (n, c) else None
                  | None => None
                  end.
Proof.
  intros u a o. destruct o as [|[[ad c]|] t n relay out|n|n|n| | |ok]; cbn [poll_of accepted_poll]; try reflexivity.
  destruct out; reflexivity.
Qed.

Lemma first_poll_snoc : forall u a l o,
  first_poll u a (l ++ [o]) = match first_poll u a l with Some x => Some x | None => poll_of u a o end.
Proof.
  induction l as [|x l IH]; intro o; cbn [first_poll app].
  - destruct (poll_of u a o); reflexivity.
  - destruct (poll_of u a x); [reflexivity | apply IH].
Qed.

(* ---------- the geoip table state along a history ---------- *)
Lemma geo_after_snoc : forall g l o, geo_after g (l ++ [o]) = geo_step (geo_after g l) o.
Proof. intros. unfold geo_after. rewrite fold_left_app. reflexivity. Qed.

Lemma geo_step_not_reload : forall g o, is_reload o = false -> geo_step g o = g.
Proof. intros g o H. destruct o; try reflexivity. discriminate. Qed.

Lemma accepted_not_reload : forall o x, accepted_poll o = Some x -> is_reload o = false.
Proof. intros o x H. destruct o; try reflexivity. discriminate. Qed.

Lemma poll_of_reload : forall u a o, is_reload o = true -> poll_of u a o = None.
Proof. intros u a o H. destruct o; try discriminate. reflexivity. Qed.

Lemma first_sight_snoc : forall l g u a o,
  first_sight g u a (l ++ [o]) =
  match first_sight g u a l with
  | Some x => Some x
  | None => match poll_of u a o with Some (n, c) => Some (geo_after g l, n, c) | None => None end
  end.
Proof.
  induction l as [|x l IH]; intros g u a o; cbn [first_sight app].
  - unfold geo_after. cbn [fold_left]. destruct (poll_of u a o) as [[n c]|]; reflexivity.
  - destruct (poll_of u a x) as [[n c]|]; [reflexivity|]. rewrite IH. unfold geo_after. cbn [fold_left]. reflexivity.
Qed.

Lemma geo_track_fst : forall g ops, fst (geo_track g ops) = geo_after g ops.
Proof.
  intros g ops. unfold geo_track, geo_after. generalize g at 2 as g0. revert g.
  induction ops as [|o ops IH]; intros g g0; cbn [fold_left fst snd]; [reflexivity|]. apply IH.
Qed.

Lemma geo_track_snoc : forall g ops o,
  geo_track g (ops ++ [o]) =
  (geo_step (geo_after g ops) o, if is_zero o then geo_step (geo_after g ops) o else period_geo g ops).
Proof.
  intros g ops o. unfold period_geo. rewrite <- geo_track_fst. unfold geo_track. rewrite fold_left_app. reflexivity.
Qed.

Lemma period_geo_snoc : forall g ops o,
  period_geo g (ops ++ [o]) = if is_zero o then geo_after g ops else period_geo g ops.
Proof.
  intros g ops o. unfold period_geo at 1. rewrite geo_track_snoc. cbn [snd].
  destruct o; cbn [is_zero geo_step]; reflexivity.
Qed.

Lemma geo_exec : forall g ops, geo (exec ops (minit g)) = geo_after g ops.
Proof.
  intros g ops. induction ops as [|o ops IH] using rev_ind; [reflexivity|].
  rewrite exec_snoc, geo_after_snoc, <- IH. pose proof (apply_op_cs (exec ops (minit g)) o) as H.
  assert (E : geo (apply_op (exec ops (minit g)) o) = cs_g (cs (apply_op (exec ops (minit g)) o))) by reflexivity.
  rewrite E, H. destruct o as [|a t n relay out|n|n|n| | |ok]; cbn [accepted_poll geo_step]; try reflexivity.
  destruct a as [[ad c]|]; [|reflexivity]. destruct out; try reflexivity;
    (unfold cs; cbn [cs_g]; unfold update_country; destruct (mem ad (tsets (exec ops (minit g)) (norm_type t))); [reflexivity|];
     destruct (geo (exec ops (minit g))) eqn:Eg; cbn [geo]; rewrite ?Eg; reflexivity).
Qed.

Lemma norm_type_le : forall t, In (norm_type t) all_types.
Proof.
  intro t. unfold norm_type, all_types. destruct (t <? 4) eqn:E; cbn [In]; [|tauto].
  assert (H : t = 0 \/ t = 1 \/ t = 2 \/ t = 3) by lia. destruct H as [->|[->|[->| ->]]]; tauto.
Qed.

(* ---------- association lists ---------- *)
Lemma aupd_keys : forall (f : N -> N) k m,
  map fst (aupd 0 f k m) = if existsb (fun k' => beq k k') (map fst m) then map fst m else map fst m ++ [k].
Proof.
  intros f k m. induction m as [|[k0 v] m IH]; cbn [aupd map fst existsb app]; [reflexivity|].
  destruct (beq k k0) eqn:E; cbn [map fst orb]; [reflexivity|]. rewrite IH.
  destruct (existsb (fun k' => beq k k') (map fst m)); reflexivity.
Qed.

Lemma aupd_NoDup : forall (f : N -> N) k m, NoDup (map fst m) -> NoDup (map fst (aupd 0 f k m)).
Proof.
  intros f k m ND. rewrite aupd_keys. destruct (existsb (fun k' => beq k k') (map fst m)) eqn:E; [exact ND|].
  apply NoDup_snoc; [exact ND|]. intro H. assert (E' : existsb (fun k' => beq k k') (map fst m) = true).
  { apply existsb_exists. exists k. split; [exact H | apply beq_refl]. }
  congruence.
Qed.

Lemma aupd_positive : forall k m, (forall kv, In kv m -> 0 < snd kv) -> forall kv, In kv (aupd 0 N.succ k m) -> 0 < snd kv.
Proof.
  intros k m. induction m as [|[k0 v] m IH]; intros H kv Hin; cbn [aupd] in Hin.
  - destruct Hin as [<-|[]]. cbn. lia.
  - destruct (beq k k0).
    + destruct Hin as [<-|Hin]; [cbn; lia | apply H; right; exact Hin].
    + destruct Hin as [<-|Hin]; [apply H; left; reflexivity|]. apply IH; [|exact Hin]. intros kv' H'. apply H. right. exact H'.
Qed.

(* ---------- sums over the five type classes ---------- *)
Lemma sumN_map_bump : forall (f f' : N -> N) u0 d us,
  NoDup us -> In u0 us -> (forall u, u <> u0 -> f' u = f u) -> f' u0 = f u0 + d ->
  sumN (map f' us) = sumN (map f us) + d.
Proof.
  intros f f' u0 d us. induction us as [|u us IH]; intros ND Hin Hne Heq; [destruct Hin|].
  inversion ND as [|? ? Hnot ND']; subst. cbn [map sumN]. destruct Hin as [->|Hin].
  - rewrite Heq. assert (E : map f' us = map f us).
    { apply map_ext_in. intros x Hx. apply Hne. intro E. subst. contradiction. }
    rewrite E. lia.
  - rewrite (IH ND' Hin Hne Heq). rewrite (Hne u); [lia|]. intro E. subst. contradiction.
Qed.

Lemma sumN_map_ext : forall (f f' : N -> N) us, (forall u, In u us -> f' u = f u) -> sumN (map f' us) = sumN (map f us).
Proof. intros f f' us H. f_equal. apply map_ext_in. exact H. Qed.

Lemma all_types_NoDup : NoDup all_types.
Proof. unfold all_types. repeat constructor; cbn [In]; intros H; repeat (destruct H as [H|H]; [discriminate|]); exact H. Qed.

(* ---------- the invariant ----------
   g0 = the table state when the running period began, P = the ops of the running period *)
Record CInv (g0 : bool) (s : mstate) (P : list op) : Prop := {
  ci_geo : geo s = geo_after g0 P;
  ci_nd : forall u, NoDup (tsets s u);
  ci_in : forall u a, In a (tsets s u) <-> first_sight g0 u a P <> None;
  ci_ndr : NoDup (nat_r s); ci_ndu : NoDup (nat_u s); ci_ndk : NoDup (nat_k s);
  ci_r : forall a, In a (nat_r s) <-> exists u c, first_sight g0 u a P = Some (true, 1, c);
  ci_u : forall a, In a (nat_u s) <-> exists u c, first_sight g0 u a P = Some (true, 2, c);
  ci_k : forall a, In a (nat_k s) <-> exists u n c, first_sight g0 u a P = Some (true, n, c) /\ n <> 1 /\ n <> 2;
  ci_ndc : NoDup (map fst (ccounts s));
  ci_pos : forall kv, In kv (ccounts s) -> 0 < snd kv;
  ci_cc : forall c, aget 0 c (ccounts s) = ccsumg c g0 P (tsets s)
}.

Ltac cinv_empty :=
  constructor; cbn [minit zero geo tsets nat_r nat_u nat_k ccounts first_sight map];
  [ reflexivity
  | intros; constructor
  | intros u a; split; [intros [] | let Hx := fresh "Hx" in (intro Hx; exfalso; apply Hx; reflexivity)]
  | constructor | constructor | constructor
  | intro a; split; [intros [] | intros [u [c ?]]; discriminate]
  | intro a; split; [intros [] | intros [u [c ?]]; discriminate]
  | intro a; split; [intros [] | intros [u [n [c [? _]]]]; discriminate]
  | constructor
  | intros kv []
  | intro c; reflexivity ].

Lemma CInv_init : forall g, CInv g (minit g) [].
Proof. intro g. cinv_empty. Qed.

Lemma CInv_zero : forall s, CInv (geo s) (zero s) [].
Proof. intro s. cinv_empty. Qed.

(* the invariant looks at P only through first_sight and the table state *)
Lemma CInv_ext : forall g s P P',
  (forall u a, first_sight g u a P' = first_sight g u a P) -> geo_after g P' = geo_after g P -> CInv g s P -> CInv g s P'.
Proof.
  intros g s P P' E EG [H1 H2 H3 H4 H5 H6 H7 H8 H9 H10 H11 H12].
  constructor; auto.
  - rewrite EG. exact H1.
  - intros u a. rewrite E. apply H3.
  - intro a. rewrite H7. split; intros [u [c H]]; exists u, c; [rewrite E | rewrite <- E]; exact H.
  - intro a. rewrite H8. split; intros [u [c H]]; exists u, c; [rewrite E | rewrite <- E]; exact H.
  - intro a. rewrite H9. split; intros [u [n [c [H Hn]]]]; exists u, n, c; (split; [|exact Hn]);
      [rewrite E | rewrite <- E]; exact H.
  - intro c. rewrite H12. unfold ccsumg. apply sumN_map_ext. intros u _. f_equal. f_equal.
    apply filter_ext. intro a. unfold ccbg. rewrite E. reflexivity.
Qed.

Lemma set_add_spec : forall a l, NoDup l -> NoDup (set_add a l) /\ (forall x, In x (set_add a l) <-> In x l \/ x = a).
Proof. intros a l ND. exact (set_ins_spec l a ND). Qed.

(* transfer along equal country statistics *)
Lemma CInv_cs : forall g s s' P, cs s' = cs s -> CInv g s P -> CInv g s' P.
Proof.
  intros g s s' P H [H1 H2 H3 H4 H5 H6 H7 H8 H9 H10 H11 H12]. unfold cs in H. inversion H as [[E1 E2 E3 E4 E5 E6]].
  constructor; rewrite ?E1, ?E2, ?E3, ?E4, ?E5, ?E6; auto.
Qed.

Lemma CInv_update : forall g s P o ad c t n,
  accepted_poll o = Some (ad, c, t, n) -> CInv g s P -> CInv g (update_country ad t n c s) (P ++ [o]).
Proof.
  intros g s P o ad c t n Ho HI. set (u0 := norm_type t). set (gs := geo_after g P).
  assert (GA : geo_after g (P ++ [o]) = gs).
  { rewrite geo_after_snoc. apply geo_step_not_reload. apply (accepted_not_reload o _ Ho). }
  assert (FP : forall u a, first_sight g u a (P ++ [o]) =
                           match first_sight g u a P with Some x => Some x
                           | None => if (u0 =? u) && beq ad a then Some (gs, n, c) else None end).
  { intros u a. rewrite first_sight_snoc, poll_of_accepted, Ho. fold u0. fold gs.
    destruct (first_sight g u a P); [reflexivity|]. destruct ((u0 =? u) && beq ad a); reflexivity. }
  unfold update_country. fold u0. destruct (mem ad (tsets s u0)) eqn:Em.
  - (* already counted for this type in this period: nothing changes, and neither does any first sighting *)
    apply mem_In in Em. apply (ci_in g s P HI) in Em. apply (CInv_ext g s P); [| exact GA | exact HI].
    intros u a. rewrite FP. destruct (first_sight g u a P) eqn:E1; [reflexivity|].
    destruct ((u0 =? u) && beq ad a) eqn:E2; [|reflexivity]. exfalso.
    apply andb_true_iff in E2. destruct E2 as [E2 E3]. apply N.eqb_eq in E2. apply beq_eq in E3. subst. contradiction.
  - assert (Hnew : first_sight g u0 ad P = None).
    { destruct (first_sight g u0 ad P) eqn:E; [|reflexivity]. exfalso.
      assert (Hin : In ad (tsets s u0)) by (apply (ci_in g s P HI); congruence). apply mem_In in Hin. congruence. }
    assert (Hnotin : ~ In ad (tsets s u0)) by (intro H; apply mem_In in H; congruence).
    destruct HI as [H1 H2 H3 H4 H5 H6 H7 H8 H9 H10 H11 H12]. fold gs in H1.
    (* the per-type sets *)
    assert (T2 : forall u, NoDup (updN (tsets s) u0 (tsets s u0 ++ [ad]) u)).
    { intro u. unfold updN. destruct (u =? u0) eqn:E; [|apply H2]. apply NoDup_snoc; [apply H2 | exact Hnotin]. }
    assert (T3 : forall u a, In a (updN (tsets s) u0 (tsets s u0 ++ [ad]) u) <-> first_sight g u a (P ++ [o]) <> None).
    { intros u a. rewrite FP. unfold updN. destruct (u =? u0) eqn:E.
      - apply N.eqb_eq in E. subst u. rewrite N.eqb_refl. cbn [andb]. rewrite in_app_iff, H3. cbn [In].
        destruct (first_sight g u0 a P) eqn:E1.
        + split; [intros _; discriminate | intros _; left; discriminate].
        + destruct (beq ad a) eqn:E2.
          * apply beq_eq in E2. split; [intros _; discriminate | intros _; right; left; exact E2].
          * apply beq_neq in E2. split; [intros [H|[H|[]]]; [congruence | contradiction] | intro H; congruence].
      - rewrite H3. assert (E' : (u0 =? u) = false) by (rewrite N.eqb_sym; exact E). rewrite E'. cbn [andb].
        destruct (first_sight g u a P); split; intro H; auto; congruence. }
    assert (Keep : forall u a x, first_sight g u a P = Some x -> first_sight g u a (P ++ [o]) = Some x).
    { intros u a x H. rewrite FP, H. reflexivity. }
    assert (New : first_sight g u0 ad (P ++ [o]) = Some (gs, n, c)).
    { rewrite FP, Hnew, N.eqb_refl, beq_refl. reflexivity. }
    assert (Inv : forall u a x, first_sight g u a (P ++ [o]) = Some x ->
                                first_sight g u a P = Some x \/ (u = u0 /\ a = ad /\ x = (gs, n, c))).
    { intros u a x H. rewrite FP in H. destruct (first_sight g u a P); [left; exact H|].
      destruct ((u0 =? u) && beq ad a) eqn:E; [|discriminate]. apply andb_true_iff in E. destruct E as [E2 E3].
      apply N.eqb_eq in E2. apply beq_eq in E3. inversion H; subst. right. auto. }
    (* the country sums: only class u0 changes, by one when the new first sighting is attributed to c' *)
    assert (Same : forall c' u a, In a (tsets s u) -> ccbg c' g u (P ++ [o]) a = ccbg c' g u P a).
    { intros c' u a Hin. apply H3 in Hin. unfold ccbg. destruct (first_sight g u a P) as [x|] eqn:E; [|congruence].
      rewrite (Keep u a x E). reflexivity. }
    assert (Sum : forall c', ccsumg c' g (P ++ [o]) (updN (tsets s) u0 (tsets s u0 ++ [ad])) =
                             ccsumg c' g P (tsets s) + (if gs && beq c' c then 1 else 0)).
    { intro c'. unfold ccsumg.
      set (f := fun u => N.of_nat (List.length (filter (ccbg c' g u P) (tsets s u)))).
      set (f' := fun u => N.of_nat (List.length (filter (ccbg c' g u (P ++ [o])) (updN (tsets s) u0 (tsets s u0 ++ [ad]) u)))).
      assert (Hne : forall u, u <> u0 -> f' u = f u).
      { intros u Hu. unfold f', f, updN. apply N.eqb_neq in Hu. rewrite Hu. f_equal. f_equal.
        apply filter_ext_in. intros a Ha. apply Same. exact Ha. }
      assert (Heq : f' u0 = f u0 + (if gs && beq c' c then 1 else 0)).
      { unfold f', f, updN. rewrite N.eqb_refl, filter_app, app_length.
        rewrite (filter_ext_in _ _ _ (fun a Ha => Same c' u0 a Ha)). cbn [filter]. unfold ccbg at 2. rewrite New.
        destruct gs; cbn [andb]; [destruct (beq c' c)|]; cbn [List.length]; lia. }
      apply (sumN_map_bump f f' u0 _ all_types all_types_NoDup (norm_type_le t) Hne Heq). }
    destruct (geo s) eqn:Eg.
    + (* a geoip table is loaded *)
      assert (Egs : gs = true) by congruence.
      constructor; cbn [geo tsets nat_r nat_u nat_k ccounts]; auto.
      * rewrite GA. congruence.
      * destruct (n =? 1); [apply (set_add_spec ad _ H4) | exact H4].
      * destruct (n =? 2); [apply (set_add_spec ad _ H5) | exact H5].
      * destruct ((n =? 1) || (n =? 2)); [exact H6 | apply (set_add_spec ad _ H6)].
      * intro a. split.
        -- intro Hin.
           assert (Hc : In a (nat_r s) \/ (n = 1 /\ a = ad)).
           { destruct (n =? 1) eqn:E; [|left; exact Hin]. apply (set_add_spec ad _ H4) in Hin. apply N.eqb_eq in E. tauto. }
           destruct Hc as [Hc|[-> ->]].
           ++ apply H7 in Hc. destruct Hc as [u [c' Hc]]. exists u, c'. apply Keep. exact Hc.
           ++ exists u0, c. rewrite New, Egs. reflexivity.
        -- intros [u [c' Hf]]. apply Inv in Hf. destruct Hf as [Hf|[-> [-> Hx]]].
           ++ assert (Hold : In a (nat_r s)) by (apply H7; exists u, c'; exact Hf).
              destruct (n =? 1); [apply (set_add_spec ad _ H4); left; exact Hold | exact Hold].
           ++ inversion Hx; subst. cbn [N.eqb Pos.eqb]. apply (set_add_spec ad _ H4). right. reflexivity.
      * intro a. split.
        -- intro Hin.
           assert (Hc : In a (nat_u s) \/ (n = 2 /\ a = ad)).
           { destruct (n =? 2) eqn:E; [|left; exact Hin]. apply (set_add_spec ad _ H5) in Hin. apply N.eqb_eq in E. tauto. }
           destruct Hc as [Hc|[-> ->]].
           ++ apply H8 in Hc. destruct Hc as [u [c' Hc]]. exists u, c'. apply Keep. exact Hc.
           ++ exists u0, c. rewrite New, Egs. reflexivity.
        -- intros [u [c' Hf]]. apply Inv in Hf. destruct Hf as [Hf|[-> [-> Hx]]].
           ++ assert (Hold : In a (nat_u s)) by (apply H8; exists u, c'; exact Hf).
              destruct (n =? 2); [apply (set_add_spec ad _ H5); left; exact Hold | exact Hold].
           ++ inversion Hx; subst. cbn [N.eqb Pos.eqb]. apply (set_add_spec ad _ H5). right. reflexivity.
      * intro a. split.
        -- intro Hin.
           assert (Hc : In a (nat_k s) \/ (n <> 1 /\ n <> 2 /\ a = ad)).
           { destruct ((n =? 1) || (n =? 2)) eqn:E; [left; exact Hin|]. apply (set_add_spec ad _ H6) in Hin.
             destruct Hin as [Hin| ->]; [left; exact Hin | right; split; [lia | split; [lia | reflexivity]]]. }
           destruct Hc as [Hc|[Hn1 [Hn2 ->]]].
           ++ apply H9 in Hc. destruct Hc as [u [n' [c' [Hc Hn]]]]. exists u, n', c'. split; [apply Keep; exact Hc | exact Hn].
           ++ exists u0, n, c. split; [rewrite New, Egs; reflexivity | split; assumption].
        -- intros [u [n' [c' [Hf [Hn1 Hn2]]]]]. apply Inv in Hf. destruct Hf as [Hf|[-> [-> Hx]]].
           ++ assert (Hold : In a (nat_k s)) by (apply H9; exists u, n', c'; auto).
              destruct ((n =? 1) || (n =? 2)); [exact Hold | apply (set_add_spec ad _ H6); left; exact Hold].
           ++ inversion Hx; subst. assert (E : (n =? 1) || (n =? 2) = false) by lia. rewrite E.
              apply (set_add_spec ad _ H6). right. reflexivity.
      * apply aupd_NoDup. exact H10.
      * apply aupd_positive. exact H11.
      * intro c'. rewrite aget_aupd, H12, Sum, Egs. cbn [andb]. destruct (beq c' c); lia.
    + (* no geoip table at this moment: only the per-type set grows; the address is never attributed in this period *)
      assert (Egs : gs = false) by congruence.
      constructor; cbn [geo tsets nat_r nat_u nat_k ccounts]; auto.
      * rewrite GA. congruence.
      * intro a. rewrite H7. split; intros [u [c' Hf]].
        -- exists u, c'. apply Keep. exact Hf.
        -- apply Inv in Hf. destruct Hf as [Hf|[_ [_ Hx]]]; [exists u, c'; exact Hf|]. rewrite Egs in Hx. discriminate.
      * intro a. rewrite H8. split; intros [u [c' Hf]].
        -- exists u, c'. apply Keep. exact Hf.
        -- apply Inv in Hf. destruct Hf as [Hf|[_ [_ Hx]]]; [exists u, c'; exact Hf|]. rewrite Egs in Hx. discriminate.
      * intro a. rewrite H9. split; intros [u [n' [c' [Hf Hn]]]].
        -- exists u, n', c'. split; [apply Keep; exact Hf | exact Hn].
        -- apply Inv in Hf. destruct Hf as [Hf|[_ [_ Hx]]]; [exists u, n', c'; auto|]. rewrite Egs in Hx. discriminate.
      * intro c'. rewrite H12, Sum, Egs. cbn [andb]. lia.
Qed.

Lemma CInv_keep : forall g s P o, is_reload o = false -> (forall u a, poll_of u a o = None) -> CInv g s P -> CInv g s (P ++ [o]).
Proof.
  intros g s P o Hr Hp HI. apply (CInv_ext g s P); [| | exact HI].
  - intros u a. rewrite first_sight_snoc, Hp. destruct (first_sight g u a P); reflexivity.
  - rewrite geo_after_snoc. apply geo_step_not_reload. exact Hr.
Qed.

Lemma CInv_reload : forall g s P ok, CInv g s P -> CInv g (set_geo ok s) (P ++ [Reload ok]).
Proof.
  intros g s P ok [H1 H2 H3 H4 H5 H6 H7 H8 H9 H10 H11 H12].
  assert (E : forall u a, first_sight g u a (P ++ [Reload ok]) = first_sight g u a P).
  { intros u a. rewrite first_sight_snoc. cbn [poll_of]. destruct (first_sight g u a P); reflexivity. }
  constructor; cbn [set_geo geo tsets nat_r nat_u nat_k ccounts]; auto.
  - rewrite geo_after_snoc. reflexivity.
  - intros u a. rewrite E. apply H3.
  - intro a. rewrite H7. split; intros [u [c H]]; exists u, c; [rewrite E | rewrite <- E]; exact H.
  - intro a. rewrite H8. split; intros [u [c H]]; exists u, c; [rewrite E | rewrite <- E]; exact H.
  - intro a. rewrite H9. split; intros [u [n [c [H Hn]]]]; exists u, n, c; (split; [|exact Hn]);
      [rewrite E | rewrite <- E]; exact H.
  - intro c. rewrite H12. unfold ccsumg. apply sumN_map_ext. intros u _. f_equal. f_equal.
    apply filter_ext. intro a. unfold ccbg. rewrite E. reflexivity.
Qed.

Lemma CInv_step : forall g s P o, CInv g s P ->
  CInv (if is_zero o then geo s else g) (apply_op s o) (if is_zero o then [] else P ++ [o]).
Proof.
  intros g s P o HI. pose proof (apply_op_cs s o) as Hcs.
  destruct o as [|a t n relay out|n|n|n| | |ok] eqn:Eo; cbn [is_zero].
  1, 3, 4, 5, 6:
    (cbn [accepted_poll] in Hcs; apply (CInv_cs g s _ _ Hcs); apply CInv_keep; [reflexivity | reflexivity | exact HI]).
  - destruct (accepted_poll (ProxyPoll a t n relay out)) as [[[[ad c] t'] n']|] eqn:Ea.
    + apply (CInv_cs g _ _ _ Hcs). apply CInv_update; [exact Ea | exact HI].
    + apply (CInv_cs g s _ _ Hcs). apply CInv_keep; [reflexivity | | exact HI].
      intros u x. rewrite poll_of_accepted, Ea. reflexivity.
  - apply (CInv_cs (geo s) (zero s) _ _ Hcs). apply CInv_zero.
  - apply (CInv_cs g (set_geo ok s) _ _ Hcs). apply CInv_reload. exact HI.
Qed.

Lemma CInv_exec : forall g ops, CInv (period_geo g ops) (exec ops (minit g)) (since_zero ops).
Proof.
  intros g ops. induction ops as [|o ops IH] using rev_ind.
  - apply CInv_init.
  - rewrite exec_snoc, since_zero_snoc, period_geo_snoc, <- geo_exec. apply CInv_step. exact IH.
Qed.

(* ---------- the published figures, for every history, geoip reloads included ---------- *)
(* snowflake-ips-nat-restricted / -unrestricted / -unknown: the number of distinct addresses whose FIRST accepted
   poll of the period, under some proxy type, reported that NAT type while a geoip table was loaded (the code
   returns before the NAT sets when there is none) *)
Lemma printed_nat : forall g ops,
  let s := exec ops (minit g) in let r := print s in let P := since_zero ops in let g0 := period_geo g ops in
  (r_natr r = N.of_nat (List.length (nat_r s)) /\ NoDup (nat_r s) /\
   forall a, In a (nat_r s) <-> exists u c, first_sight g0 u a P = Some (true, 1, c)) /\
  (r_natu r = N.of_nat (List.length (nat_u s)) /\ NoDup (nat_u s) /\
   forall a, In a (nat_u s) <-> exists u c, first_sight g0 u a P = Some (true, 2, c)) /\
  (r_natk r = N.of_nat (List.length (nat_k s)) /\ NoDup (nat_k s) /\
   forall a, In a (nat_k s) <-> exists u n c, first_sight g0 u a P = Some (true, n, c) /\ n <> 1 /\ n <> 2).
Proof.
  intros g ops s r P g0. destruct (CInv_exec g ops) as [H1 H2 H3 H4 H5 H6 H7 H8 H9 H10 H11 H12].
  subst r. cbn [print r_natr r_natu r_natk]. unfold len.
  split; [|split]; (split; [reflexivity | split; assumption]).
Qed.

(* snowflake-ips CC=NUM: each country once, never with 0, and NUM = over the five type classes, the number of
   distinct addresses of the class whose first accepted poll of the period happened with a table loaded and
   resolved to CC *)
Lemma printed_countries : forall g ops,
  let s := exec ops (minit g) in let r := print s in let P := since_zero ops in let g0 := period_geo g ops in
  NoDup (map fst (r_cc r)) /\ (forall kv, In kv (r_cc r) -> 0 < snd kv) /\
  (forall u, NoDup (tsets s u) /\ forall a, In a (tsets s u) <-> In a (flat_map (polled u) P)) /\
  forall c, aget 0 c (r_cc r) = ccsumg c g0 P (tsets s).
Proof.
  intros g ops s r P g0. destruct (CInv_exec g ops) as [H1 H2 H3 H4 H5 H6 H7 H8 H9 H10 H11 H12].
  subst r. cbn [print r_cc]. split; [exact H10|]. split; [exact H11|]. split; [|exact H12].
  intro u. apply unique_sets.
Qed.

(* ---------- a reload changes no figure ---------- *)
Lemma reload_changes_no_figure : forall s ok,
  print (apply_op s (Reload ok)) = print s /\ prom (apply_op s (Reload ok)) = prom s /\
  ptotal (apply_op s (Reload ok)) = ptotal s /\ tsets (apply_op s (Reload ok)) = tsets s /\
  geo (apply_op s (Reload ok)) = ok.
Proof. intros s ok. repeat split; reflexivity. Qed.

(* ---------- histories without a reload: the table state is the initial one throughout ---------- *)
Definition no_reload (ops : list op) : bool := forallb (fun o => negb (is_reload o)) ops.

Lemma first_sight_const : forall P g u a, no_reload P = true ->
  first_sight g u a P = match first_poll u a P with Some (n, c) => Some (g, n, c) | None => None end.
Proof.
  induction P as [|o P IH]; intros g u a H; cbn [first_sight first_poll]; [reflexivity|].
  cbn [no_reload forallb] in H. apply andb_true_iff in H. destruct H as [Ho HP].
  destruct (poll_of u a o) as [[n c]|]; [reflexivity|].
  rewrite geo_step_not_reload by (destruct (is_reload o); [discriminate | reflexivity]). apply IH. exact HP.
Qed.

Lemma no_reload_app : forall a b, no_reload (a ++ b) = no_reload a && no_reload b.
Proof. intros. unfold no_reload. apply forallb_app. Qed.

Lemma no_reload_since_zero : forall ops, no_reload ops = true -> no_reload (since_zero ops) = true.
Proof.
  induction ops as [|o ops IH] using rev_ind; intro H; [reflexivity|].
  rewrite no_reload_app in H. apply andb_true_iff in H. destruct H as [H1 H2].
  rewrite since_zero_snoc. destruct (is_zero o); [reflexivity|]. rewrite no_reload_app, (IH H1). exact H2.
Qed.

Lemma no_reload_geo : forall ops g, no_reload ops = true -> geo_after g ops = g /\ period_geo g ops = g.
Proof.
  induction ops as [|o ops IH] using rev_ind; intros g H; [split; reflexivity|].
  rewrite no_reload_app in H. apply andb_true_iff in H. destruct H as [H1 H2]. destruct (IH g H1) as [E1 E2].
  cbn [no_reload forallb] in H2. rewrite andb_true_r in H2.
  rewrite geo_after_snoc, period_geo_snoc, E1, E2. split.
  - apply geo_step_not_reload. destruct (is_reload o); [discriminate | reflexivity].
  - destruct (is_zero o); reflexivity.
Qed.

Lemma ccsumg_const : forall c g P sets, no_reload P = true -> ccsumg c g P sets = if g then ccsum c P sets else 0.
Proof.
  intros c g P sets H. unfold ccsumg, ccsum.
  assert (E : forall u a, ccbg c g u P a = g && ccb c u P a).
  { intros u a. unfold ccbg, ccb. rewrite (first_sight_const P g u a H). destruct (first_poll u a P) as [[n c']|]; destruct g; reflexivity. }
  destruct g.
  - apply sumN_map_ext. intros u _. f_equal. f_equal. apply filter_ext. intro a. rewrite E. reflexivity.
  - transitivity (sumN (map (fun _ : N => 0) all_types)); [|reflexivity].
    apply sumN_map_ext. intros u _. rewrite (filter_ext _ (fun _ => false)) by (intro a; rewrite E; reflexivity).
    clear. induction (sets u) as [|x l IH]; [reflexivity | exact IH].
Qed.

(* the two figures as they read when no reload happens in the history: the table state is the constant g *)
Lemma printed_countries_no_reload : forall g ops, no_reload ops = true ->
  let s := exec ops (minit g) in let r := print s in let P := since_zero ops in
  forall c, aget 0 c (r_cc r) = if g then ccsum c P (tsets s) else 0.
Proof.
  intros g ops H s r P c. destruct (printed_countries g ops) as [_ [_ [_ Hc]]]. fold s in Hc. fold r in Hc. rewrite Hc.
  destruct (no_reload_geo ops g H) as [_ ->]. apply ccsumg_const. apply no_reload_since_zero. exact H.
Qed.

Lemma printed_nat_no_reload : forall g ops, no_reload ops = true ->
  let s := exec ops (minit g) in let P := since_zero ops in
  (forall a, In a (nat_r s) <-> g = true /\ exists u c, first_poll u a P = Some (1, c)) /\
  (forall a, In a (nat_u s) <-> g = true /\ exists u c, first_poll u a P = Some (2, c)) /\
  (forall a, In a (nat_k s) <-> g = true /\ exists u n c, first_poll u a P = Some (n, c) /\ n <> 1 /\ n <> 2).
Proof.
  intros g ops H s P. destruct (printed_nat g ops) as [[_ [_ Hr]] [[_ [_ Hu]] [_ [_ Hk]]]]. fold s in Hr, Hu, Hk.
  destruct (no_reload_geo ops g H) as [_ EP]. rewrite EP in Hr, Hu, Hk.
  pose proof (no_reload_since_zero ops H) as HP. fold P in HP, Hr, Hu, Hk.
  assert (FS : forall u a, first_sight g u a P = match first_poll u a P with Some (n, c) => Some (g, n, c) | None => None end).
  { intros u a. apply first_sight_const. exact HP. }
  split; [|split]; intro a.
  - rewrite Hr. split.
    + intros [u [c E]]. rewrite FS in E. destruct (first_poll u a P) as [[n' c']|] eqn:E1; [|discriminate].
      inversion E; subst. split; [reflexivity | exists u, c; exact E1].
    + intros [-> [u [c E]]]. exists u, c. rewrite FS, E. reflexivity.
  - rewrite Hu. split.
    + intros [u [c E]]. rewrite FS in E. destruct (first_poll u a P) as [[n' c']|] eqn:E1; [|discriminate].
      inversion E; subst. split; [reflexivity | exists u, c; exact E1].
    + intros [-> [u [c E]]]. exists u, c. rewrite FS, E. reflexivity.
  - rewrite Hk. split.
    + intros [u [n [c [E Hn]]]]. rewrite FS in E. destruct (first_poll u a P) as [[n' c']|] eqn:E1; [|discriminate].
      inversion E; subst. split; [reflexivity | exists u, n, c; split; [exact E1 | exact Hn]].
    + intros [-> [u [n [c [E Hn]]]]]. exists u, n, c. rewrite FS, E. split; [reflexivity | exact Hn].
Qed.
