(* MetricsGeoProofs.v — the NAT-type and country figures of printMetrics (Model/Metrics.v), for every history. *)
From Coq Require Import List NArith ZArith Lia Bool Arith.
From Coq Require Import ZifyN ZifyNat ZifyBool.
From Snow Require Import Lib.Wire Model.Round8 Model.Metrics Proofs.Round8Proofs Proofs.MetricsProofs.
Import ListNotations.
Open Scope N_scope.

(* ---------- what an op does to the country statistics ---------- *)
Definition accepted_poll (o : op) : option (bytes * bytes * N * N) :=
  match o with
  | ProxyPoll (Some (ad, c)) t n _ out => match out with Rejected => None | _ => Some (ad, c, t, n) end
  | _ => None
  end.

Record cstats := { cs_t : N -> list bytes; cs_r : list bytes; cs_u : list bytes; cs_k : list bytes; cs_c : list (bytes * N); cs_g : bool }.
Definition cs (s : mstate) : cstats :=
  {| cs_t := tsets s; cs_r := nat_r s; cs_u := nat_u s; cs_k := nat_k s; cs_c := ccounts s; cs_g := geo s |}.

Lemma cs_update_country_bumped : forall ad t n c s s',
  cs s' = cs s -> cs (update_country ad t n c s') = cs (update_country ad t n c s).
Proof.
  intros ad t n c s s' H. unfold cs in H. inversion H as [[H1 H2 H3 H4 H5 H6]].
  unfold update_country. rewrite H1. destruct (mem ad (tsets s (norm_type t))); [exact H|].
  rewrite H6. destruct (geo s); unfold cs; cbn [tsets nat_r nat_u nat_k ccounts geo]; rewrite ?H1, ?H2, ?H3, ?H4, ?H5, ?H6; reflexivity.
Qed.

Lemma cs_bump_ev : forall e s, cs (bump_ev e s) = cs s. Proof. reflexivity. Qed.
Lemma cs_bump_prom : forall k s, cs (bump_prom k s) = cs s. Proof. reflexivity. Qed.

Lemma apply_op_cs : forall s o,
  cs (apply_op s o) =
  match o with
  | Zero => cs (zero s)
  | _ => match accepted_poll o with
         | Some (ad, c, t, n) => cs (update_country ad t n c s)
         | None => cs s
         end
  end.
Proof.
  intros s o. destruct o as [|a t n relay out|n|n|n| |]; cbn [apply_op accepted_poll]; try reflexivity.
  - destruct relay, out, a as [[ad c]|]; rewrite ?cs_bump_prom, ?cs_bump_ev; try reflexivity;
      apply cs_update_country_bumped; rewrite ?cs_bump_prom, ?cs_bump_ev; reflexivity.
  - destruct (n =? 2); reflexivity.
Qed.

Lemma poll_of_accepted : forall u a o,
  poll_of u a o = match accepted_poll o with
                  | Some (ad, c, t, n) => if (norm_type t =? u) && beq ad a then Some (n, c) else None
                  | None => None
                  end.
Proof.
  intros u a o. destruct o as [|[[ad c]|] t n relay out|n|n|n| |]; cbn [poll_of accepted_poll]; try reflexivity.
  destruct out; reflexivity.
Qed.

Lemma first_poll_snoc : forall u a l o,
  first_poll u a (l ++ [o]) = match first_poll u a l with Some x => Some x | None => poll_of u a o end.
Proof.
  induction l as [|x l IH]; intro o; cbn [first_poll app].
  - destruct (poll_of u a o); reflexivity.
  - destruct (poll_of u a x); [reflexivity | apply IH].
Qed.

Lemma norm_type_le : forall t, In (norm_type t) all_types.
Proof.
  intro t. unfold norm_type, all_types. destruct (t <? 4) eqn:E; cbn [In]; [|tauto].
  assert (H : t = 0 \/ t = 1 \/ t = 2 \/ t = 3) by lia. destruct H as [->|[->|[->| ->]]]; tauto.
Qed.

(* ---------- association lists ---------- *)
Lemma aupd_keys : forall (f : N -> N) k m,
  map fst (aupd 0 f k m) = if existsb (fun k' => beq k k') (map fst m) then map fst m else map fst m ++ [k].
Proof.
  intros f k m. induction m as [|[k0 v] m IH]; cbn [aupd map fst existsb app]; [reflexivity|].
  destruct (beq k k0) eqn:E; cbn [map fst orb]; [reflexivity|]. rewrite IH.
  destruct (existsb (fun k' => beq k k') (map fst m)); reflexivity.
Qed.

Lemma aupd_NoDup : forall (f : N -> N) k m, NoDup (map fst m) -> NoDup (map fst (aupd 0 f k m)).
Proof.
  intros f k m ND. rewrite aupd_keys. destruct (existsb (fun k' => beq k k') (map fst m)) eqn:E; [exact ND|].
  apply NoDup_snoc; [exact ND|]. intro H. assert (E' : existsb (fun k' => beq k k') (map fst m) = true).
  { apply existsb_exists. exists k. split; [exact H | apply beq_refl]. }
  congruence.
Qed.

Lemma aupd_positive : forall k m, (forall kv, In kv m -> 0 < snd kv) -> forall kv, In kv (aupd 0 N.succ k m) -> 0 < snd kv.
Proof.
  intros k m. induction m as [|[k0 v] m IH]; intros H kv Hin; cbn [aupd] in Hin.
  - destruct Hin as [<-|[]]. cbn. lia.
  - destruct (beq k k0).
    + destruct Hin as [<-|Hin]; [cbn; lia | apply H; right; exact Hin].
    + destruct Hin as [<-|Hin]; [apply H; left; reflexivity|]. apply IH; [|exact Hin]. intros kv' H'. apply H. right. exact H'.
Qed.

(* ---------- sums over the five type classes ---------- *)
Lemma sumN_map_bump : forall (f f' : N -> N) u0 d us,
  NoDup us -> In u0 us -> (forall u, u <> u0 -> f' u = f u) -> f' u0 = f u0 + d ->
  sumN (map f' us) = sumN (map f us) + d.
Proof.
  intros f f' u0 d us. induction us as [|u us IH]; intros ND Hin Hne Heq; [destruct Hin|].
  inversion ND as [|? ? Hnot ND']; subst. cbn [map sumN]. destruct Hin as [->|Hin].
  - rewrite Heq. assert (E : map f' us = map f us).
    { apply map_ext_in. intros x Hx. apply Hne. intro E. subst. contradiction. }
    rewrite E. lia.
  - rewrite (IH ND' Hin Hne Heq). rewrite (Hne u); [lia|]. intro E. subst. contradiction.
Qed.

Lemma sumN_map_ext : forall (f f' : N -> N) us, (forall u, In u us -> f' u = f u) -> sumN (map f' us) = sumN (map f us).
Proof. intros f f' us H. f_equal. apply map_ext_in. exact H. Qed.

Lemma all_types_NoDup : NoDup all_types.
Proof. unfold all_types. repeat constructor; cbn [In]; intros H; repeat (destruct H as [H|H]; [discriminate|]); exact H. Qed.

(* ---------- the invariant ---------- *)
Definition lenf (c : bytes) (u : N) (P : list op) (l : list bytes) : N := N.of_nat (List.length (filter (ccb c u P) l)).

Record CInv (g : bool) (s : mstate) (P : list op) : Prop := {
  ci_geo : geo s = g;
  ci_nd : forall u, NoDup (tsets s u);
  ci_in : forall u a, In a (tsets s u) <-> first_poll u a P <> None;
  ci_ndr : NoDup (nat_r s); ci_ndu : NoDup (nat_u s); ci_ndk : NoDup (nat_k s);
  ci_r : forall a, In a (nat_r s) <-> g = true /\ exists u c, first_poll u a P = Some (1, c);
  ci_u : forall a, In a (nat_u s) <-> g = true /\ exists u c, first_poll u a P = Some (2, c);
  ci_k : forall a, In a (nat_k s) <-> g = true /\ exists u n c, first_poll u a P = Some (n, c) /\ n <> 1 /\ n <> 2;
  ci_ndc : NoDup (map fst (ccounts s));
  ci_pos : forall kv, In kv (ccounts s) -> 0 < snd kv;
  ci_cc : forall c, aget 0 c (ccounts s) = if g then ccsum c P (tsets s) else 0
}.

Ltac cinv_empty g :=
  constructor; cbn [minit zero geo tsets nat_r nat_u nat_k ccounts first_poll map];
  [ try reflexivity; try assumption
  | intros; constructor
  | intros u a; split; [intros [] | let Hx := fresh "Hx" in (intro Hx; exfalso; apply Hx; reflexivity)]
  | constructor | constructor | constructor
  | intro a; split; [intros [] | intros [_ [u [c ?]]]; discriminate]
  | intro a; split; [intros [] | intros [_ [u [c ?]]]; discriminate]
  | intro a; split; [intros [] | intros [_ [u [n [c [? _]]]]]; discriminate]
  | constructor
  | intros kv []
  | intro c; destruct g; reflexivity ].

Lemma CInv_init : forall g, CInv g (minit g) [].
Proof. intro g. cinv_empty g. Qed.

(* the invariant looks at P only through first_poll *)
Lemma CInv_ext : forall g s P P', (forall u a, first_poll u a P' = first_poll u a P) -> CInv g s P -> CInv g s P'.
Proof.
  intros g s P P' E [H1 H2 H3 H4 H5 H6 H7 H8 H9 H10 H11 H12].
  constructor; auto.
  - intros u a. rewrite E. apply H3.
  - intro a. rewrite H7. split; intros [Hg [u [c H]]]; (split; [exact Hg|]); exists u, c; [rewrite E | rewrite <- E]; exact H.
  - intro a. rewrite H8. split; intros [Hg [u [c H]]]; (split; [exact Hg|]); exists u, c; [rewrite E | rewrite <- E]; exact H.
  - intro a. rewrite H9. split; intros [Hg [u [n [c [H Hn]]]]]; (split; [exact Hg|]); exists u, n, c; (split; [|exact Hn]);
      [rewrite E | rewrite <- E]; exact H.
  - intro c. rewrite H12. destruct g; [|reflexivity]. unfold ccsum. apply sumN_map_ext. intros u _. f_equal. f_equal.
    apply filter_ext. intro a. unfold ccb. rewrite E. reflexivity.
Qed.

Lemma set_add_spec : forall a l, NoDup l -> NoDup (set_add a l) /\ (forall x, In x (set_add a l) <-> In x l \/ x = a).
Proof. intros a l ND. exact (set_ins_spec l a ND). Qed.

Lemma CInv_zero : forall g s (P : list op), geo s = g -> CInv g (zero s) [].
Proof. intros g s P Hg. cinv_empty g. Qed.

(* transfer along equal country statistics *)
Lemma CInv_cs : forall g s s' P, cs s' = cs s -> CInv g s P -> CInv g s' P.
Proof.
  intros g s s' P H [H1 H2 H3 H4 H5 H6 H7 H8 H9 H10 H11 H12]. unfold cs in H. inversion H as [[E1 E2 E3 E4 E5 E6]].
  constructor; rewrite ?E1, ?E2, ?E3, ?E4, ?E5, ?E6; auto.
Qed.

Lemma CInv_update : forall g s P o ad c t n,
  accepted_poll o = Some (ad, c, t, n) -> CInv g s P -> CInv g (update_country ad t n c s) (P ++ [o]).
Proof.
  intros g s P o ad c t n Ho HI. set (u0 := norm_type t).
  assert (FP : forall u a, first_poll u a (P ++ [o]) =
                           match first_poll u a P with Some x => Some x
                           | None => if (u0 =? u) && beq ad a then Some (n, c) else None end).
  { intros u a. rewrite first_poll_snoc, poll_of_accepted, Ho. reflexivity. }
  unfold update_country. fold u0. destruct (mem ad (tsets s u0)) eqn:Em.
  - (* already counted for this type in this period: nothing changes, and neither does any first poll *)
    apply mem_In in Em. apply (ci_in g s P HI) in Em. apply (CInv_ext g s P); [|exact HI].
    intros u a. rewrite FP. destruct (first_poll u a P) eqn:E1; [reflexivity|].
    destruct ((u0 =? u) && beq ad a) eqn:E2; [|reflexivity]. exfalso.
    apply andb_true_iff in E2. destruct E2 as [E2 E3]. apply N.eqb_eq in E2. apply beq_eq in E3. subst. contradiction.
  - assert (Hnew : first_poll u0 ad P = None).
    { destruct (first_poll u0 ad P) eqn:E; [|reflexivity]. exfalso.
      assert (Hin : In ad (tsets s u0)) by (apply (ci_in g s P HI); congruence). apply mem_In in Hin. congruence. }
    assert (Hnotin : ~ In ad (tsets s u0)) by (intro H; apply mem_In in H; congruence).
    destruct HI as [H1 H2 H3 H4 H5 H6 H7 H8 H9 H10 H11 H12].
    (* the per-type sets *)
    assert (T2 : forall u, NoDup (updN (tsets s) u0 (tsets s u0 ++ [ad]) u)).
    { intro u. unfold updN. destruct (u =? u0) eqn:E; [|apply H2]. apply NoDup_snoc; [apply H2 | exact Hnotin]. }
    assert (T3 : forall u a, In a (updN (tsets s) u0 (tsets s u0 ++ [ad]) u) <-> first_poll u a (P ++ [o]) <> None).
    { intros u a. rewrite FP. unfold updN. destruct (u =? u0) eqn:E.
      - apply N.eqb_eq in E. subst u. rewrite N.eqb_refl. cbn [andb]. rewrite in_app_iff, H3. cbn [In].
        destruct (first_poll u0 a P) eqn:E1.
        + split; [intros _; discriminate | intros _; left; discriminate].
        + destruct (beq ad a) eqn:E2.
          * apply beq_eq in E2. split; [intros _; discriminate | intros _; right; left; exact E2].
          * apply beq_neq in E2. split; [intros [H|[H|[]]]; [congruence | contradiction] | intro H; congruence].
      - rewrite H3. assert (E' : (u0 =? u) = false) by (rewrite N.eqb_sym; exact E). rewrite E'. cbn [andb].
        destruct (first_poll u a P); split; intro H; auto; congruence. }
    assert (Keep : forall u a x, first_poll u a P = Some x -> first_poll u a (P ++ [o]) = Some x).
    { intros u a x H. rewrite FP, H. reflexivity. }
    assert (New : first_poll u0 ad (P ++ [o]) = Some (n, c)).
    { rewrite FP, Hnew, N.eqb_refl, beq_refl. reflexivity. }
    assert (Inv : forall u a x, first_poll u a (P ++ [o]) = Some x -> first_poll u a P = Some x \/ (u = u0 /\ a = ad /\ x = (n, c))).
    { intros u a x H. rewrite FP in H. destruct (first_poll u a P); [left; exact H|].
      destruct ((u0 =? u) && beq ad a) eqn:E; [|discriminate]. apply andb_true_iff in E. destruct E as [E2 E3].
      apply N.eqb_eq in E2. apply beq_eq in E3. inversion H; subst. right. auto. }
    rewrite H1. destruct g.
    + (* a geoip database is loaded *)
      constructor; cbn [geo tsets nat_r nat_u nat_k ccounts]; auto.
      * destruct (n =? 1); [apply (set_add_spec ad _ H4) | exact H4].
      * destruct (n =? 2); [apply (set_add_spec ad _ H5) | exact H5].
      * destruct ((n =? 1) || (n =? 2)); [exact H6 | apply (set_add_spec ad _ H6)].
      * intro a. split.
        -- intro Hin. split; [reflexivity|].
           assert (Hc : In a (nat_r s) \/ (n = 1 /\ a = ad)).
           { destruct (n =? 1) eqn:E; [|left; exact Hin]. apply (set_add_spec ad _ H4) in Hin. apply N.eqb_eq in E. tauto. }
           destruct Hc as [Hc|[-> ->]].
           ++ apply H7 in Hc. destruct Hc as [_ [u [c' Hc]]]. exists u, c'. apply Keep. exact Hc.
           ++ exists u0, c. exact New.
        -- intros [_ [u [c' Hf]]]. apply Inv in Hf. destruct Hf as [Hf|[-> [-> Hx]]].
           ++ assert (Hold : In a (nat_r s)) by (apply H7; split; [reflexivity | exists u, c'; exact Hf]).
              destruct (n =? 1); [apply (set_add_spec ad _ H4); left; exact Hold | exact Hold].
           ++ inversion Hx; subst. cbn [N.eqb Pos.eqb]. apply (set_add_spec ad _ H4). right. reflexivity.
      * intro a. split.
        -- intro Hin. split; [reflexivity|].
           assert (Hc : In a (nat_u s) \/ (n = 2 /\ a = ad)).
           { destruct (n =? 2) eqn:E; [|left; exact Hin]. apply (set_add_spec ad _ H5) in Hin. apply N.eqb_eq in E. tauto. }
           destruct Hc as [Hc|[-> ->]].
           ++ apply H8 in Hc. destruct Hc as [_ [u [c' Hc]]]. exists u, c'. apply Keep. exact Hc.
           ++ exists u0, c. exact New.
        -- intros [_ [u [c' Hf]]]. apply Inv in Hf. destruct Hf as [Hf|[-> [-> Hx]]].
           ++ assert (Hold : In a (nat_u s)) by (apply H8; split; [reflexivity | exists u, c'; exact Hf]).
              destruct (n =? 2); [apply (set_add_spec ad _ H5); left; exact Hold | exact Hold].
           ++ inversion Hx; subst. cbn [N.eqb Pos.eqb]. apply (set_add_spec ad _ H5). right. reflexivity.
      * intro a. split.
        -- intro Hin. split; [reflexivity|].
           assert (Hc : In a (nat_k s) \/ (n <> 1 /\ n <> 2 /\ a = ad)).
           { destruct ((n =? 1) || (n =? 2)) eqn:E; [left; exact Hin|]. apply (set_add_spec ad _ H6) in Hin.
             destruct Hin as [Hin| ->]; [left; exact Hin | right; split; [lia | split; [lia | reflexivity]]]. }
           destruct Hc as [Hc|[Hn1 [Hn2 ->]]].
           ++ apply H9 in Hc. destruct Hc as [_ [u [n' [c' [Hc Hn]]]]]. exists u, n', c'. split; [apply Keep; exact Hc | exact Hn].
           ++ exists u0, n, c. split; [exact New | split; assumption].
        -- intros [_ [u [n' [c' [Hf [Hn1 Hn2]]]]]]. apply Inv in Hf. destruct Hf as [Hf|[-> [-> Hx]]].
           ++ assert (Hold : In a (nat_k s)) by (apply H9; split; [reflexivity | exists u, n', c'; auto]).
              destruct ((n =? 1) || (n =? 2)); [exact Hold | apply (set_add_spec ad _ H6); left; exact Hold].
           ++ inversion Hx; subst. assert (E : (n =? 1) || (n =? 2) = false) by lia. rewrite E.
              apply (set_add_spec ad _ H6). right. reflexivity.
      * apply aupd_NoDup. exact H10.
      * apply aupd_positive. exact H11.
      * intro c'. rewrite aget_aupd, H12. unfold ccsum.
        set (f := fun u => N.of_nat (List.length (filter (ccb c' u P) (tsets s u)))).
        set (f' := fun u => N.of_nat (List.length (filter (ccb c' u (P ++ [o])) (updN (tsets s) u0 (tsets s u0 ++ [ad]) u)))).
        assert (Same : forall u a, In a (tsets s u) -> ccb c' u (P ++ [o]) a = ccb c' u P a).
        { intros u a Hin. apply H3 in Hin. unfold ccb. destruct (first_poll u a P) as [x|] eqn:E; [|congruence].
          rewrite (Keep u a x E). reflexivity. }
        assert (Hne : forall u, u <> u0 -> f' u = f u).
        { intros u Hu. unfold f', f, updN. apply N.eqb_neq in Hu. rewrite Hu. f_equal. f_equal.
          apply filter_ext_in. intros a Ha. apply Same. exact Ha. }
        assert (Heq : f' u0 = f u0 + (if beq c' c then 1 else 0)).
        { unfold f', f, updN. rewrite N.eqb_refl, filter_app, app_length.
          rewrite (filter_ext_in _ _ _ (fun a Ha => Same u0 a Ha)). cbn [filter]. unfold ccb at 2. rewrite New.
          destruct (beq c' c); cbn [List.length]; lia. }
        rewrite (sumN_map_bump f f' u0 (if beq c' c then 1 else 0) all_types all_types_NoDup (norm_type_le t) Hne Heq).
        fold f. destruct (beq c' c); lia.
    + (* no geoip database: only the per-type set grows *)
      constructor; cbn [geo tsets nat_r nat_u nat_k ccounts]; auto.
      * intro a. rewrite H7. split; intros [Hf _]; discriminate.
      * intro a. rewrite H8. split; intros [Hf _]; discriminate.
      * intro a. rewrite H9. split; intros [Hf _]; discriminate.
Qed.

Lemma CInv_step : forall g s P o, CInv g s P -> CInv g (apply_op s o) (if is_zero o then [] else P ++ [o]).
Proof.
  intros g s P o HI. pose proof (apply_op_cs s o) as Hcs.
  destruct o as [|a t n relay out|n|n|n| |] eqn:Eo; cbn [is_zero].
  1, 3, 4, 5, 6:
    (cbn [accepted_poll] in Hcs; apply (CInv_cs g s _ _ Hcs); apply (CInv_ext g s P); [|exact HI];
     intros u x; rewrite first_poll_snoc; destruct (first_poll u x P); reflexivity).
  - destruct (accepted_poll (ProxyPoll a t n relay out)) as [[[[ad c] t'] n']|] eqn:Ea.
    + apply (CInv_cs g _ _ _ Hcs). apply CInv_update; [exact Ea | exact HI].
    + apply (CInv_cs g s _ _ Hcs). apply (CInv_ext g s P); [|exact HI].
      intros u x. rewrite first_poll_snoc, poll_of_accepted, Ea. destruct (first_poll u x P); reflexivity.
  - apply (CInv_cs g (zero s) _ _ Hcs). apply (CInv_zero g s P). apply (ci_geo g s P HI).
Qed.

Lemma CInv_exec : forall g ops, CInv g (exec ops (minit g)) (since_zero ops).
Proof.
  intros g ops. induction ops as [|o ops IH] using rev_ind.
  - apply CInv_init.
  - rewrite exec_snoc, since_zero_snoc. apply CInv_step. exact IH.
Qed.

(* ---------- the published figures ---------- *)
(* snowflake-ips-nat-restricted / -unrestricted / -unknown: the number of distinct addresses whose FIRST accepted
   poll of the period, under some proxy type, reported that NAT type (0 without a geoip database: the code returns
   before the NAT sets) *)
Lemma printed_nat : forall g ops,
  let s := exec ops (minit g) in let r := print s in let P := since_zero ops in
  (r_natr r = N.of_nat (List.length (nat_r s)) /\ NoDup (nat_r s) /\
   forall a, In a (nat_r s) <-> g = true /\ exists u c, first_poll u a P = Some (1, c)) /\
  (r_natu r = N.of_nat (List.length (nat_u s)) /\ NoDup (nat_u s) /\
   forall a, In a (nat_u s) <-> g = true /\ exists u c, first_poll u a P = Some (2, c)) /\
  (r_natk r = N.of_nat (List.length (nat_k s)) /\ NoDup (nat_k s) /\
   forall a, In a (nat_k s) <-> g = true /\ exists u n c, first_poll u a P = Some (n, c) /\ n <> 1 /\ n <> 2).
Proof.
  intros g ops s r P. destruct (CInv_exec g ops) as [H1 H2 H3 H4 H5 H6 H7 H8 H9 H10 H11 H12].
  subst r. cbn [print r_natr r_natu r_natk]. unfold len.
  split; [|split]; (split; [reflexivity | split; assumption]).
Qed.

(* snowflake-ips CC=NUM: each country once, never with 0, and NUM = over the five type classes, the number of
   distinct addresses of the class whose first accepted poll of the period resolved to CC *)
Lemma printed_countries : forall g ops,
  let s := exec ops (minit g) in let r := print s in let P := since_zero ops in
  NoDup (map fst (r_cc r)) /\ (forall kv, In kv (r_cc r) -> 0 < snd kv) /\
  (forall u, NoDup (tsets s u) /\ forall a, In a (tsets s u) <-> In a (flat_map (polled u) P)) /\
  forall c, aget 0 c (r_cc r) = if g then ccsum c P (tsets s) else 0.
Proof.
  intros g ops s r P. destruct (CInv_exec g ops) as [H1 H2 H3 H4 H5 H6 H7 H8 H9 H10 H11 H12].
  subst r. cbn [print r_cc]. split; [exact H10|]. split; [exact H11|]. split; [|exact H12].
  intro u. apply unique_sets.
Qed.
