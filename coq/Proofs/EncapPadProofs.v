(* EncapPadProofs.v — proofs about Model/EncapPad.v: WritePadding over any padding buffer. *)
From Coq Require Import List NArith Bool Arith Lia.
From Coq Require Import ZifyN ZifyNat ZifyBool.
From Snow Require Import Lib.Wire Model.Encap Model.EncapPad Proofs.EncapSweep Proofs.EncapProofs.
Import ListNotations.
Open Scope N_scope.

(* ------------------------------------------------------------------ *)
(* the switch of one loop turn, swept over every batch size 1..8194    *)

Definition padpre_check (m : N) : bool :=
  let p := m + 1 in
  if p <=? PADBATCH_MAX then
    match hdr_exact (fst (pad_prefix p)) with
    | Some (false, v) => (v =? snd (pad_prefix p)) && (v + blen (fst (pad_prefix p)) =? p)
    | _ => false
    end
  else true.

Lemma padpre_sweep : all_bits 14 0 padpre_check = true.
Proof. vm_compute. reflexivity. Qed.

Lemma pad_prefix_ok p : 1 <= p -> p <= PADBATCH_MAX ->
  hdr_exact (fst (pad_prefix p)) = Some (false, snd (pad_prefix p)) /\
  snd (pad_prefix p) + blen (fst (pad_prefix p)) = p.
Proof.
  intros H1 H2. unfold PADBATCH_MAX in H2.
  pose proof (all_bits_below 14 padpre_check padpre_sweep (p - 1) ltac:(cbn; lia)) as H.
  unfold padpre_check in H. replace (p - 1 + 1) with p in H by lia.
  destruct (N.leb_spec p PADBATCH_MAX) as [_|Hgt]; [|unfold PADBATCH_MAX in Hgt; lia].
  destruct (hdr_exact (fst (pad_prefix p))) as [[[|] v]|]; try discriminate.
  apply andb_prop in H. destruct H as [Hv Hs]. apply N.eqb_eq in Hv. apply N.eqb_eq in Hs.
  subst v. split; [reflexivity | exact Hs].
Qed.

(* with batches up to 8193 bytes the three-byte case of the switch (the one with the 0x3f slip) is dead code *)
Definition padshort_check (m : N) : bool :=
  let p := m + 1 in
  if p <=? 8193 then (length (fst (pad_prefix p)) <=? 2)%nat else true.

Lemma padshort_sweep : all_bits 14 0 padshort_check = true.
Proof. vm_compute. reflexivity. Qed.

Lemma pad_prefix_short p : 1 <= p -> p <= 8193 -> (1 <= length (fst (pad_prefix p)) <= 2)%nat.
Proof.
  intros H1 H2.
  pose proof (all_bits_below 14 padshort_check padshort_sweep (p - 1) ltac:(cbn; lia)) as H.
  unfold padshort_check in H. replace (p - 1 + 1) with p in H by lia.
  destruct (N.leb_spec p 8193) as [_|Hgt]; [|lia].
  apply Nat.leb_le in H. split; [|exact H].
  destruct (pad_prefix_ok p H1 ltac:(unfold PADBATCH_MAX; lia)) as [Hh _].
  destruct (fst (pad_prefix p)); [cbn in Hh; discriminate | cbn [length]; lia].
Qed.

(* the pinned code's batch size is far below: *)
Lemma pad_prefix_short_pinned p : 1 <= p -> p <= PADBUF -> (1 <= length (fst (pad_prefix p)) <= 2)%nat.
Proof. intros H1 H2. unfold PADBUF in H2. apply pad_prefix_short; lia. Qed.

(* ------------------------------------------------------------------ *)
(* one loop turn writes one well-formed padding chunk                  *)

Lemma padding_chunk_buf_ok buf p : 1 <= p -> p <= PADBATCH_MAX -> p <= blen buf ->
  exists c, chunk_wf c /\ c_isdata c = false /\ chunk_bytes c = padding_chunk_buf buf p /\
            length (padding_chunk_buf buf p) = N.to_nat p.
Proof.
  intros H1 H2 H3. destruct (pad_prefix_ok p H1 H2) as [Hh Hs].
  unfold padding_chunk_buf.
  generalize dependent (snd (pad_prefix p)). generalize dependent (fst (pad_prefix p)). intros pre k Hh Hs.
  assert (Hk : (N.to_nat k <= length buf)%nat) by (clear - Hs H3; unfold blen in *; lia).
  assert (Hb : length (firstn (N.to_nat k) buf) = N.to_nat k) by (apply firstn_length_le; exact Hk).
  exists {| c_isdata := false; c_prefix := pre; c_body := firstn (N.to_nat k) buf |}.
  unfold chunk_wf, chunk_bytes; cbn [c_isdata c_prefix c_body].
  split; [|split; [reflexivity|split; [reflexivity|]]].
  - rewrite Hh. unfold blen. rewrite Hb, N2Nat.id. reflexivity.
  - rewrite app_length, Hb. unfold blen in Hs. lia.
Qed.

Lemma div_sub_one n b : 1 <= b -> b <= n -> (n - b) / b = n / b - 1.
Proof.
  intros Hb Hn. replace n with ((n - b) + 1 * b) at 2 by lia.
  rewrite N.div_add by lia. generalize ((n - b) / b). intros q. lia.
Qed.

Lemma write_padding_buf_fuel_ok buf : 1 <= blen buf -> blen buf <= PADBATCH_MAX ->
  forall fuel n, (N.to_nat (n / blen buf) < fuel)%nat ->
  exists cs, Forall chunk_wf cs /\ Forall (fun c => c_isdata c = false) cs /\
             chunks_bytes cs = write_padding_buf_fuel buf fuel n /\
             length (write_padding_buf_fuel buf fuel n) = N.to_nat n.
Proof.
  intros HB1 HB2. remember (blen buf) as B eqn:EB.
  induction fuel as [|f IH]; intros n Hf; [exfalso; exact (Nat.nlt_0_r _ Hf)|].
  cbn [write_padding_buf_fuel]. destruct (N.eqb_spec n 0) as [->|Hnz].
  - exists []. repeat split; constructor.
  - rewrite <- EB. remember (N.min B n) as p eqn:Ep.
    assert (Hp1 : 1 <= p) by lia.
    assert (Hp2 : p <= PADBATCH_MAX) by lia.
    assert (Hp3 : p <= blen buf) by (rewrite <- EB; lia).
    destruct (padding_chunk_buf_ok buf p Hp1 Hp2 Hp3) as [c [Hwf [Hd [Hb Hl]]]].
    assert (Hrec : exists cs, Forall chunk_wf cs /\ Forall (fun c => c_isdata c = false) cs /\
             chunks_bytes cs = write_padding_buf_fuel buf f (n - p) /\
             length (write_padding_buf_fuel buf f (n - p)) = N.to_nat (n - p)).
    { destruct (N.leb_spec B n) as [Hge|Hlt].
      - apply IH. replace p with B by lia.
        rewrite (div_sub_one n B HB1 Hge).
        assert (Hq : 1 <= n / B) by (apply N.div_le_lower_bound; lia).
        revert Hf Hq. generalize (n / B). intros q Hf Hq. lia.
      - replace p with n by lia. replace (n - n) with 0 by lia.
        exists []. assert (E0 : write_padding_buf_fuel buf f 0 = []) by (destruct f; reflexivity).
        rewrite E0. repeat split; constructor. }
    destruct Hrec as [cs [Hcs [Hcd [Hcb Hcl]]]].
    exists (c :: cs). split; [constructor; assumption|]. split; [constructor; assumption|].
    split.
    + unfold chunks_bytes in *. cbn [map concat]. rewrite Hb, Hcb. reflexivity.
    + rewrite app_length, Hl, Hcl. lia.
Qed.

Theorem write_padding_buf_ok buf n : 1 <= blen buf -> blen buf <= PADBATCH_MAX ->
  exists cs, Forall chunk_wf cs /\ Forall (fun c => c_isdata c = false) cs /\
             chunks_bytes cs = write_padding_buf buf n /\ length (write_padding_buf buf n) = N.to_nat n.
Proof. intros H1 H2. unfold write_padding_buf. apply write_padding_buf_fuel_ok; [assumption|assumption|lia]. Qed.

(* ------------------------------------------------------------------ *)
(* padding is invisible whatever the batch size (<= 8194) and the fill *)

Theorem padding_buf_exact buf n : 1 <= blen buf -> blen buf <= PADBATCH_MAX ->
  length (write_padding_buf buf n) = N.to_nat n.
Proof. intros H1 H2. destruct (write_padding_buf_ok buf n H1 H2) as [cs [_ [_ [_ H]]]]. exact H. Qed.

(* ... anywhere in a stream: what follows the padding is decoded as if the padding were not there *)
Theorem padding_buf_invisible buf n rest sc : 1 <= blen buf -> blen buf <= PADBATCH_MAX ->
  read_stream (write_padding_buf buf n ++ rest) sc = read_stream rest sc.
Proof.
  intros H1 H2. destruct (write_padding_buf_ok buf n H1 H2) as [cs [Hwf [Hd [Hb _]]]].
  rewrite !read_stream_independent, <- Hb. unfold decode_stream.
  rewrite (parse_stream_chunks cs (S (length (chunks_bytes cs ++ rest))) rest Hwf) by lia.
  rewrite (chunks_datas_nodata cs Hd).
  destruct (parse_stream (S (length rest)) rest) as [ds e]. reflexivity.
Qed.

Corollary padding_buf_invisible_alone buf n sc : 1 <= blen buf -> blen buf <= PADBATCH_MAX ->
  read_stream (write_padding_buf buf n) sc = ([], EOF).
Proof.
  intros H1 H2. rewrite <- (app_nil_r (write_padding_buf buf n)).
  rewrite (padding_buf_invisible buf n [] sc H1 H2). rewrite read_stream_independent. reflexivity.
Qed.

(* ------------------------------------------------------------------ *)
(* Model/Encap.v write_padding is the instance (1024, zeros)           *)

Lemma firstn_zeros a b : a <= b -> firstn (N.to_nat a) (zeros b) = zeros a.
Proof.
  intros H. unfold zeros. revert b H. induction a as [|a IH] using N.peano_ind; intros b H.
  - reflexivity.
  - rewrite N2Nat.inj_succ. destruct (N.to_nat b) as [|b'] eqn:Eb; [lia|].
    cbn [repeat firstn]. f_equal.
    replace b' with (N.to_nat (N.of_nat b')) by apply Nat2N.id. apply IH. lia.
Qed.

Lemma padding_chunk_is_buf p b : p <= b -> padding_chunk p = padding_chunk_buf (zeros b) p.
Proof.
  intros H. unfold padding_chunk, padding_chunk_buf, pad_prefix.
  destruct (N.land (p - 1) 63 =? p - 1); cbn [fst snd].
  { rewrite firstn_zeros by lia. reflexivity. }
  destruct (N.land (N.shiftr (p - 2) 7) 63 =? N.shiftr (p - 2) 7); cbn [fst snd].
  { rewrite firstn_zeros by lia. reflexivity. }
  destruct (N.land (N.shiftr (p - 3) 14) 63 =? N.shiftr (p - 3) 14); cbn [fst snd].
  { rewrite firstn_zeros by lia. reflexivity. }
  rewrite firstn_zeros by lia. reflexivity.
Qed.

Lemma blen_zeros b : blen (zeros b) = b.
Proof. unfold blen. rewrite zeros_length. apply N2Nat.id. Qed.

Lemma write_padding_fuel_is_buf : forall fuel n,
  write_padding_fuel fuel n = write_padding_buf_fuel (zeros PADBUF) fuel n.
Proof.
  induction fuel as [|f IH]; intros n; [reflexivity|].
  cbn [write_padding_fuel write_padding_buf_fuel]. rewrite blen_zeros.
  destruct (n =? 0); [reflexivity|].
  rewrite IH. f_equal. apply padding_chunk_is_buf. lia.
Qed.

Theorem write_padding_is_buf n : write_padding n = write_padding_buf (zeros PADBUF) n.
Proof. unfold write_padding, write_padding_buf. rewrite blen_zeros. apply write_padding_fuel_is_buf. Qed.

(* ------------------------------------------------------------------ *)
(* beyond 8194: the latent slip                                         *)

(* a batch of 8195 bytes: the prefix announces 0 bytes although 8192 follow *)
Lemma pad_prefix_8195 : pad_prefix 8195 = ([64; 128; 0], 8192) /\ hdr_exact [64; 128; 0] = Some (false, 0).
Proof. split; vm_compute; reflexivity. Qed.

(* with a 16384-byte buffer one WritePadding(8195) still writes exactly 8195 bytes, but a reader sees 4096 data
   chunks in it when the fill is not harmless ... *)
Lemma padding_large_batch_refuted :
  let buf := loud_fill 16384 in
  blen buf = 16384 /\ length (write_padding_buf buf 8195) = N.to_nat 8195 /\
  N.of_nat (length (fst (read_stream (write_padding_buf buf 8195) []))) = 4096 /\
  read_stream ([129; 7] ++ write_padding_buf buf 8195 ++ [129; 9]) [] <> ([[7]; [9]], EOF).
Proof. cbv zeta. split; [vm_compute; reflexivity|]. split; [vm_compute; reflexivity|]. split; [vm_compute; reflexivity|].
  vm_compute. discriminate. Qed.

(* ... and stays invisible only by luck when the fill is all zeros (every left-over byte is an empty padding chunk) *)
Lemma padding_large_batch_zero_fill :
  read_stream (write_padding_buf (zeros 16384) 8195) [] = ([], EOF).
Proof. vm_compute. reflexivity. Qed.
