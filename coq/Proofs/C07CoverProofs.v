(* C07CoverProofs.v — coverage on the GENERATED safelog pattern: every side condition of
   Proofs/ScrubCoverProofs.v is decided by computation on Gen/SafelogPatterns.v (rewritten from the Go
   source by every run of the check); what the coverage theorem has to exclude is shown to be really
   excluded on the frozen copy Model/SafelogRound2.v of the current patterns. *)
From Coq Require Import List NArith Bool Arith Lia.
From Coq Require String.
From Snow Require Import Lib.Wire Model.Regex Model.RegexIncl Model.RegexDisj Model.Scrub Model.SafelogRound2 Gen.SafelogPatterns.
From Snow Require Import Proofs.RegexProofs Proofs.MatcherProofs Proofs.RegexDisjProofs Proofs.ScrubProofs.
From Snow Require Import Proofs.ScrubCoverProofs Proofs.C07Proofs.
Import ListNotations.
Open Scope nat_scope.

(* ---------------------------------------------------------------- the parts of the generated pattern *)

Definition pat_L' : re := match pat_L with Alt Bol l => l | _ => Emp end.
Definition pat_g2 : nat := match pat_A with Seq (Grp g _) _ => g | _ => 0 end.
Definition pat_g3 : nat := match pat_A with Seq (Grp _ (Alt _ (Alt _ (Grp g _)))) _ => g | _ => 0 end.
Definition pat_V : re := match pat_A with Seq (Grp _ (Alt v _)) _ => v | _ => Emp end.
Definition pat_B : re := match pat_A with Seq (Grp _ (Alt _ (Alt b _))) _ => b | _ => Emp end.
Definition pat_D1 : re := match pat_A with Seq (Grp _ (Alt _ (Alt _ (Grp _ (Alt d _))))) _ => d | _ => Emp end.
Definition pat_D2 : re := match pat_A with Seq (Grp _ (Alt _ (Alt _ (Grp _ (Alt _ (Alt d _)))))) _ => d | _ => Emp end.
Definition pat_N : re := match pat_A with Seq (Grp _ (Alt _ (Alt _ (Grp _ (Alt _ (Alt _ n)))))) _ => n | _ => Emp end.
Definition pat_P : re := match pat_A with Seq _ p => p | _ => Emp end.

Definition gA : re := cA pat_V pat_B pat_D1 pat_D2 pat_N pat_P pat_g2 pat_g3.
Definition gAdot : re := cAdot pat_V pat_B pat_D1 pat_D2 pat_P.
Definition gL : re := cL pat_L'.

(* the address part is  ( dotted quad | [IPv6] | ( IPv6 with dotted tail x2 | IPv6 without ) ) port?  and
   the left delimiter is  ^ | class *)
Lemma cover_shape_A : pat_A = gA.
Proof. vm_compute. reflexivity. Qed.
Lemma cover_shape_L : pat_L = gL.
Proof. vm_compute. reflexivity. Qed.

Lemma the_full_cover :
  the_full = cfull pat_L' pat_V pat_B pat_D1 pat_D2 pat_N pat_P pat_R pat_g2 pat_g3.
Proof. rewrite the_full_eq. unfold cfull. fold gL gA. rewrite <- cover_shape_A, <- cover_shape_L. reflexivity. Qed.

Lemma g_sfL : star_free gL = true. Proof. vm_compute. reflexivity. Qed.
Lemma g_sfA : star_free gA = true. Proof. vm_compute. reflexivity. Qed.
Lemma g_lenL : maxlen gL <= 1. Proof. apply Nat.leb_le. vm_compute. reflexivity. Qed.
Lemma g_nullA : nullable gA = false. Proof. vm_compute. reflexivity. Qed.
Lemma g_afA : anchor_free gA = true. Proof. vm_compute. reflexivity. Qed.
Lemma g_byteA : forallb (fun rg : N * N => (snd rg <=? 255)%N) (ranges gA) = true. Proof. vm_compute. reflexivity. Qed.
Lemma g_nullP : nullable pat_P = true. Proof. vm_compute. reflexivity. Qed.
Lemma g_afRs : anchor_free (strip_top_eol pat_R) = true. Proof. vm_compute. reflexivity. Qed.
Lemma g_inclR : RegexIncl.incl (strip_top_eol pat_R) right_spec = true. Proof. vm_compute. reflexivity. Qed.
Lemma g_ws : forallb (fun z => sym_free z addr_spec) [9; 10; 12; 13; 32]%N = true. Proof. vm_compute. reflexivity. Qed.
Lemma g_split1 : RegexIncl.incl addr_spec (Alt rest_spec bare_v4tail) = true. Proof. vm_compute. reflexivity. Qed.
Lemma g_split2 : RegexIncl.incl addr_spec (Alt v4forms nonv4_spec) = true. Proof. vm_compute. reflexivity. Qed.
(* no word of the address pattern followed by a delimiter is a proper prefix of an address ... *)
Lemma g_K2 : disj rest_spec (after gA rest_spec) = true. Proof. vm_compute. reflexivity. Qed.
(* ... for a bare IPv6 address with a dotted tail this holds for the alternatives that are tried first,
   and these match every such address *)
Lemma g_K3 : RegexIncl.incl bare_v4tail (Alt pat_D1 pat_D2) = true. Proof. vm_compute. reflexivity. Qed.
Lemma g_K4 : disj bare_v4tail (after gAdot bare_v4tail) = true. Proof. vm_compute. reflexivity. Qed.
(* no word of the address pattern runs across the delimiter before an address and ends inside it *)
Lemma g_K5 : disj addr_spec (after (nonnull (tail_after delim_nodot_cls gA)) addr_spec) = true. Proof. vm_compute. reflexivity. Qed.
Lemma g_K6 : disj nonv4_spec (after (nonnull (tail_after dot_cls gA)) nonv4_spec) = true. Proof. vm_compute. reflexivity. Qed.
Lemma g_K7a : disj v4forms (after (deriv 46%N gA) v4forms) = true. Proof. vm_compute. reflexivity. Qed.
Lemma g_K7b : disj v4forms (after (deriv 46%N (tail_after nondigit_cls gA)) v4forms) = true. Proof. vm_compute. reflexivity. Qed.

Lemma g_delimL : forall d, is_delim d = true -> matches gL [d].
Proof. rewrite <- cover_shape_L. exact (delim_matches _ c_inclL). Qed.

Lemma g_inclA : forall w, matches addr_spec w -> matches gA w.
Proof. rewrite <- cover_shape_A. exact spec_included. Qed.

Lemma g_minlen : forall w, matches addr_spec w -> 2 <= length w.
Proof. intros w Hw. pose proof (matches_minlen _ _ Hw) as H. rewrite c_minlen in H. exact H. Qed.

(* ---------------------------------------------------------------- coverage *)

Lemma covers_all : forall pre w post,
  matches addr_spec w -> left_ok pre -> right_ok post -> ~ dotted_run pre w ->
  exists a b, In (a, b) (replaced_spans (pre ++ w ++ post)) /\
              a <= length pre /\
              (length pre + length w <= b \/ (b + 1 = length pre + length w /\ colon_ws w post)).
Proof.
  intros pre w post Hw Hl Hr Hnd. unfold replaced_spans. rewrite the_full_cover.
  apply (scrub1_covers pat_L' pat_V pat_B pat_D1 pat_D2 pat_N pat_P pat_R pat_g2 pat_g3
           g_sfL g_sfA c_sfR g_lenL g_nullA g_afA c_gR c_eolR g_delimL (delim_matches _ c_inclR)
           g_inclA g_minlen g_byteA g_nullP g_afRs g_inclR g_ws g_split1 g_split2
           g_K2 g_K3 g_K4 g_K5 g_K6 g_K7a g_K7b); auto.
Qed.

(* without the colon exception *)
Lemma covers_all_strict : forall pre w post,
  matches addr_spec w -> left_ok pre -> right_ok post -> ~ dotted_run pre w -> ~ colon_ws w post ->
  exists a b, In (a, b) (replaced_spans (pre ++ w ++ post)) /\
              a <= length pre /\ length pre + length w <= b.
Proof.
  intros pre w post Hw Hl Hr Hnd Hnc.
  destruct (covers_all pre w post Hw Hl Hr Hnd) as (a & b & Hin & Ha & [Hb|[_ Hc]]); [|contradiction].
  exists a, b; auto.
Qed.

(* the output is the rendering of a prefix of [pre], the placeholder, and the rendering of a suffix of
   [post] (or of ':' ++ post in the colon case): no byte of the address takes part in it *)
Lemma address_absent : forall pre w post,
  matches addr_spec w -> left_ok pre -> right_ok post -> ~ dotted_run pre w ->
  exists a b sp1 sp2 rest,
    replaced_spans (pre ++ w ++ post) = sp1 ++ (a, b) :: sp2 /\ a <= length pre /\
    scrub full_patterns (pre ++ w ++ post) = render (firstn a pre) 0 sp1 ++ scrubbed ++ render rest b sp2 /\
    ((length pre + length w <= b /\ rest = skipn (b - (length pre + length w)) post) \/
     (b + 1 = length pre + length w /\ rest = 58%N :: post /\ colon_ws w post)).
Proof.
  intros pre w post Hw Hl Hr Hnd.
  destruct (covers_all pre w post Hw Hl Hr Hnd) as (a & b & Hin & Ha & Hb).
  destruct (in_split _ _ Hin) as (sp1 & sp2 & Esp).
  pose proof (replaced_spans_wf (pre ++ w ++ post)) as Hwf. rewrite Esp in Hwf.
  exists a, b, sp1, sp2, (skipn b (pre ++ w ++ post)).
  split; [exact Esp|]. split; [exact Ha|]. split.
  - rewrite scrub_render, Esp. rewrite (render_split sp1 (pre ++ w ++ post) 0 a b sp2 Hwf).
    rewrite !Nat.sub_0_r. rewrite firstn_app. replace (a - length pre) with 0 by lia.
    simpl firstn at 2. rewrite app_nil_r. reflexivity.
  - destruct Hb as [Hb|[Hb Hc]].
    + left. split; auto.
      rewrite skipn_app, (skipn_all2 pre) by lia. simpl.
      rewrite skipn_app, (skipn_all2 w) by lia. simpl.
      f_equal. lia.
    + right. split; auto. split; auto.
      destruct Hc as ((w' & Ew) & _). subst w. rewrite app_length in Hb. simpl in Hb.
      rewrite skipn_app, (skipn_all2 pre) by lia. simpl.
      rewrite <- app_assoc. rewrite skipn_app, (skipn_all2 w') by lia. simpl.
      replace (b - length pre - length w') with 0 by lia. reflexivity.
Qed.

(* common/event: the String() of an event that carries an error is a fixed text followed by the scrubbed error
   text, so every delimited address of the error text is replaced there too *)
Lemma event_string_covered : forall ty pre w post,
  matches addr_spec w -> left_ok pre -> right_ok post -> ~ dotted_run pre w ->
  exists a b sp1 sp2 rest,
    replaced_spans (pre ++ w ++ post) = sp1 ++ (a, b) :: sp2 /\ a <= length pre /\
    event_string full_patterns ty (pre ++ w ++ post) =
      event_prefix ty ++ render (firstn a pre) 0 sp1 ++ scrubbed ++ render rest b sp2 /\
    ((length pre + length w <= b /\ rest = skipn (b - (length pre + length w)) post) \/
     (b + 1 = length pre + length w /\ rest = 58%N :: post /\ colon_ws w post)).
Proof.
  intros ty pre w post Hw Hl Hr Hnd.
  destruct (address_absent pre w post Hw Hl Hr Hnd) as (a & b & sp1 & sp2 & rest & Esp & Ha & Eout & Hrest).
  exists a, b, sp1, sp2, rest. repeat split; auto.
  unfold event_string. rewrite Eout. reflexivity.
Qed.

(* writer and scrubber together, with coverage *)
Lemma end_to_end_covered : forall ws outs pend,
  run_writes (write (scrub full_patterns)) [] ws = (outs, pend) ->
  exists lines,
    outs = map (fun l => render l 0 (replaced_spans l)) lines /\
    Forall is_line lines /\ List.concat lines ++ pend = List.concat ws /\ no_nl pend /\
    forall l pre w post, In l lines -> l = pre ++ w ++ post ->
      matches addr_spec w -> left_ok pre -> right_ok post -> ~ dotted_run pre w ->
      exists a b, In (a, b) (replaced_spans l) /\ a <= length pre /\
                  (length pre + length w <= b \/ (b + 1 = length pre + length w /\ colon_ws w post)).
Proof.
  intros ws outs pend H.
  destruct (write_complete_lines (scrub full_patterns) ws outs pend H) as (lines & Ho & Hl & Hc & Hp).
  exists lines. repeat split; auto.
  - rewrite Ho. apply map_ext. intros l; apply scrub_render.
  - intros l pre w post _ El Hw Hlo Hro Hnd. subst l. apply covers_all; auto.
Qed.

(* ---------------------------------------------------------------- what had to be excluded is really excluded *)

Import String.
Definition sc2 : bytes -> bytes := scrub round2_full_patterns.
Notation "'B' x" := (bs x%string) (at level 9, only parsing).

(* a dotted quad that continues a dotted run: three of its four numbers survive *)
Lemma r2_dotted_run :
  exists pre w post,
    matches addr_spec w /\ left_ok pre /\ right_ok post /\ dotted_run pre w /\
    sc2 (pre ++ w ++ post) = scrubbed ++ skipn 1 w ++ post.
Proof.
  exists (B"1.2.3."), (B"4.5.6.7"), (B" x").
  split; [apply spec_word; vm_compute; reflexivity|].
  split; [right; exists (B"1.2.3"), 46%N; split; reflexivity|].
  split; [right; exists 32%N, (B"x"); split; reflexivity|].
  split.
  - split.
    + apply matchb_sound; vm_compute; reflexivity.
    + exists (B"1.2."), 51%N. split; reflexivity.
  - vm_compute. reflexivity.
Qed.

(* seven groups and "::" followed by whitespace: the last ':' stays behind the placeholder *)
Lemma r2_last_colon :
  exists w post,
    matches addr_spec w /\ right_ok post /\ colon_ws w post /\
    sc2 (w ++ post) = scrubbed ++ [58%N] ++ post.
Proof.
  exists (B"1:2:3:4:5:6:7::"), (B" x").
  split; [apply spec_word; vm_compute; reflexivity|].
  split; [right; exists 32%N, (B"x"); split; reflexivity|].
  split.
  - split; [exists (B"1:2:3:4:5:6:7:"); reflexivity|exists 32%N, (B"x"); split; reflexivity].
  - vm_compute. reflexivity.
Qed.

(* some occurrences inside the excluded class are covered all the same (the exclusion is sufficient, not exact) *)
Lemma r2_dotted_run_sometimes_covered :
  sc2 (B"a 1.2.3.4.5.6.7.8 ") = B"a [scrubbed].[scrubbed] ".
Proof. vm_compute. reflexivity. Qed.
