(* MatcherProofs.v — the backtracking matcher [bt] against a declarative small relation [ms]
   (with positions, anchors and captures):
     bt_sound     : whatever bt returns is a derivation of ms followed by the continuation;
     bt_complete  : for star-free regexes, if some ms derivation has a succeeding continuation,
                    bt does not fail (it may return another, higher-priority, match);
     search_complete / search_sound : the unanchored search returns a match at the leftmost
                    start position at which any match exists.
   Bridges between ms and the context-free language [matches] of RegexProofs.v. *)
From Coq Require Import List NArith Bool Arith Lia.
From Snow Require Import Lib.Wire Model.Regex Model.RegexIncl Proofs.RegexProofs.
Import ListNotations.
Open Scope nat_scope.

Inductive ms : re -> bytes -> nat -> caps -> bytes -> nat -> caps -> Prop :=
| SEps : forall s p c, ms Eps s p c s p c
| SCls : forall rs x s p c, in_cls x rs = true -> ms (Cls rs) (x :: s) p c s (S p) c
| SSeq : forall a b s p c s1 p1 c1 s2 p2 c2,
    ms a s p c s1 p1 c1 -> ms b s1 p1 c1 s2 p2 c2 -> ms (Seq a b) s p c s2 p2 c2
| SAltL : forall a b s p c s1 p1 c1, ms a s p c s1 p1 c1 -> ms (Alt a b) s p c s1 p1 c1
| SAltR : forall a b s p c s1 p1 c1, ms b s p c s1 p1 c1 -> ms (Alt a b) s p c s1 p1 c1
| SStar0 : forall a s p c, ms (Star a) s p c s p c
| SStarS : forall a s p c s1 p1 c1 s2 p2 c2,
    ms a s p c s1 p1 c1 -> ms (Star a) s1 p1 c1 s2 p2 c2 -> ms (Star a) s p c s2 p2 c2
| SRep0 : forall a n s p c, ms (Rep a 0 n) s p c s p c
| SRepS : forall a m n s p c s1 p1 c1 s2 p2 c2,
    ms a s p c s1 p1 c1 -> ms (Rep a (pred m) n) s1 p1 c1 s2 p2 c2 -> ms (Rep a m (S n)) s p c s2 p2 c2
| SBol : forall s c, ms Bol s 0 c s 0 c
| SEol : forall p c, ms Eol [] p c [] p c
| SGrp : forall g a s p c s1 p1 c1,
    ms a s p c s1 p1 c1 -> ms (Grp g a) s p c s1 p1 ((g, (p, p1)) :: c1).

(* ---------------------------------------------------------------- soundness of bt *)

Definition step_sound (a : re) (step : bytes -> nat -> caps -> cont -> mres) : Prop :=
  forall s p c k res, step s p c k = Some res ->
    exists s1 p1 c1, ms a s p c s1 p1 c1 /\ k s1 p1 c1 = Some res.

Lemma star_loop_sound : forall a step, step_sound a step ->
  forall k fuel s p c res, star_loop step k fuel s p c = Some res ->
    exists s1 p1 c1, ms (Star a) s p c s1 p1 c1 /\ k s1 p1 c1 = Some res.
Proof.
  intros a step Hs k fuel; induction fuel as [|f IH]; intros s p c res H; simpl in H.
  - exists s, p, c; split; [constructor|auto].
  - destruct (step s p c _) eqn:E.
    + inversion H; subst. apply Hs in E. destruct E as (s1 & p1 & c1 & Hm & Hk).
      destruct (Nat.eqb p1 p); [discriminate|].
      apply IH in Hk. destruct Hk as (s2 & p2 & c2 & Hm2 & Hk2).
      exists s2, p2, c2; split; [econstructor; eauto|auto].
    + exists s, p, c; split; [constructor|auto].
Qed.

Lemma rep_loop_sound : forall a step, step_sound a step ->
  forall k n m s p c res, rep_loop step k m n s p c = Some res ->
    exists s1 p1 c1, ms (Rep a m n) s p c s1 p1 c1 /\ k s1 p1 c1 = Some res.
Proof.
  intros a step Hs k n; induction n as [|n IH]; intros m s p c res H; simpl in H.
  - destruct m; [|discriminate]. exists s, p, c; split; [constructor|auto].
  - destruct (step s p c _) eqn:E.
    + inversion H; subst. apply Hs in E. destruct E as (s1 & p1 & c1 & Hm & Hk).
      apply IH in Hk. destruct Hk as (s2 & p2 & c2 & Hm2 & Hk2).
      exists s2, p2, c2; split; [econstructor; eauto|auto].
    + destruct m; [|discriminate]. exists s, p, c; split; [constructor|auto].
Qed.

Lemma bt_sound : forall r, step_sound r (bt r).
Proof.
  unfold step_sound. induction r; intros s p c kk res H; cbn [bt] in H.
  - discriminate.
  - exists s, p, c; split; [constructor|auto].
  - destruct s as [|x s]; [discriminate|]. destruct (in_cls x rs) eqn:E; [|discriminate].
    exists s, (S p), c; split; [constructor; auto|auto].
  - apply IHr1 in H. destruct H as (s1 & p1 & c1 & Hm & Hk).
    apply IHr2 in Hk. destruct Hk as (s2 & p2 & c2 & Hm2 & Hk2).
    exists s2, p2, c2; split; [econstructor; eauto|auto].
  - destruct (bt r1 s p c kk) eqn:E.
    + inversion H; subst. apply IHr1 in E. destruct E as (s1 & p1 & c1 & Hm & Hk).
      exists s1, p1, c1; split; [apply SAltL; auto|auto].
    + apply IHr2 in H. destruct H as (s1 & p1 & c1 & Hm & Hk).
      exists s1, p1, c1; split; [apply SAltR; auto|auto].
  - eapply star_loop_sound; eauto.
  - eapply rep_loop_sound; eauto.
  - destruct p; [|discriminate]. exists s, 0, c; split; [constructor|auto].
  - destruct s; [|discriminate]. exists [], p, c; split; [constructor|auto].
  - apply IHr in H. destruct H as (s1 & p1 & c1 & Hm & Hk).
    exists s1, p1, ((k, (p, p1)) :: c1); split; [constructor; auto|auto].
Qed.

(* ---------------------------------------------------------------- completeness of bt (star-free) *)

Fixpoint star_free (r : re) : bool :=
  match r with
  | Star _ => false
  | Seq a b => star_free a && star_free b
  | Alt a b => star_free a && star_free b
  | Rep a _ _ => star_free a
  | Grp _ a => star_free a
  | _ => true
  end.

Lemma bt_complete : forall r s p c s1 p1 c1,
  ms r s p c s1 p1 c1 -> star_free r = true ->
  forall k, k s1 p1 c1 <> None -> bt r s p c k <> None.
Proof.
  induction 1; intros Hsf k Hk; simpl in *; try discriminate; auto.
  - rewrite H; auto.
  - apply andb_true_iff in Hsf; destruct Hsf as [Ha Hb].
    apply IHms1; auto.
  - apply andb_true_iff in Hsf; destruct Hsf as [Ha Hb].
    specialize (IHms Ha k Hk). destruct (bt a s p c k); [discriminate|contradiction].
  - apply andb_true_iff in Hsf; destruct Hsf as [Ha Hb].
    destruct (bt a s p c k); [discriminate|]. apply IHms; auto.
  - destruct n; simpl; auto.
    destruct (bt a s p c _); [discriminate|auto].
  - specialize (IHms2 Hsf k Hk).
    specialize (IHms1 Hsf (fun s' p' c' => rep_loop (bt a) k (pred m) n s' p' c') IHms2).
    destruct (bt a s p c _); [discriminate|contradiction].
Qed.

(* ---------------------------------------------------------------- facts about ms *)

Lemma ms_suffix : forall r s p c s1 p1 c1, ms r s p c s1 p1 c1 ->
  exists w, s = w ++ s1 /\ p1 = p + length w.
Proof.
  induction 1.
  - exists []; auto.
  - exists [x]; simpl; split; auto; lia.
  - destruct IHms1 as (w1 & E1 & L1); destruct IHms2 as (w2 & E2 & L2); subst.
    exists (w1 ++ w2); rewrite app_assoc, app_length; split; auto; lia.
  - auto.
  - auto.
  - exists []; auto.
  - destruct IHms1 as (w1 & E1 & L1); destruct IHms2 as (w2 & E2 & L2); subst.
    exists (w1 ++ w2); rewrite app_assoc, app_length; split; auto; lia.
  - exists []; auto.
  - destruct IHms1 as (w1 & E1 & L1); destruct IHms2 as (w2 & E2 & L2); subst.
    exists (w1 ++ w2); rewrite app_assoc, app_length; split; auto; lia.
  - exists []; auto.
  - exists []; auto.
  - auto.
Qed.

Fixpoint anchor_free (r : re) : bool :=
  match r with
  | Bol => false
  | Eol => false
  | Seq a b => anchor_free a && anchor_free b
  | Alt a b => anchor_free a && anchor_free b
  | Star a => anchor_free a
  | Rep a _ _ => anchor_free a
  | Grp _ a => anchor_free a
  | _ => true
  end.

Lemma ms_matches : forall r s p c s1 p1 c1, ms r s p c s1 p1 c1 -> anchor_free r = true ->
  exists w, s = w ++ s1 /\ p1 = p + length w /\ matches r w.
Proof.
  induction 1; intros Haf; simpl in Haf; try discriminate.
  - exists []; repeat split; auto; constructor.
  - exists [x]; simpl; repeat split; auto; try lia; constructor; auto.
  - apply andb_true_iff in Haf; destruct Haf as [Ha Hb].
    destruct (IHms1 Ha) as (w1 & E1 & L1 & M1); destruct (IHms2 Hb) as (w2 & E2 & L2 & M2); subst.
    exists (w1 ++ w2); rewrite app_assoc, app_length; repeat split; auto; try lia; constructor; auto.
  - apply andb_true_iff in Haf; destruct Haf as [Ha Hb].
    destruct (IHms Ha) as (w & E & L & M); exists w; repeat split; auto; apply MAltL; auto.
  - apply andb_true_iff in Haf; destruct Haf as [Ha Hb].
    destruct (IHms Hb) as (w & E & L & M); exists w; repeat split; auto; apply MAltR; auto.
  - exists []; repeat split; auto; constructor.
  - destruct (IHms1 Haf) as (w1 & E1 & L1 & M1); destruct (IHms2 Haf) as (w2 & E2 & L2 & M2); subst.
    exists (w1 ++ w2); rewrite app_assoc, app_length; repeat split; auto; try lia; constructor; auto.
  - exists []; repeat split; auto; constructor.
  - destruct (IHms1 Haf) as (w1 & E1 & L1 & M1); destruct (IHms2 Haf) as (w2 & E2 & L2 & M2); subst.
    exists (w1 ++ w2); rewrite app_assoc, app_length; repeat split; auto; try lia; constructor; auto.
  - destruct (IHms Haf) as (w & E & L & M); exists w; repeat split; auto; constructor; auto.
Qed.

(* a word of the language can be matched in any context *)
Lemma matches_ms : forall r w, matches r w ->
  forall s p cc, exists c1, ms r (w ++ s) p cc s (p + length w) c1.
Proof.
  induction 1; intros s p cc; simpl.
  - rewrite Nat.add_0_r; eexists; constructor.
  - replace (p + 1) with (S p) by lia. eexists; constructor; auto.
  - destruct (IHmatches1 (w2 ++ s) p cc) as [c1 H1].
    destruct (IHmatches2 s (p + length w1) c1) as [c2 H2].
    rewrite <- app_assoc, app_length, Nat.add_assoc. eexists; econstructor; eauto.
  - destruct (IHmatches s p cc) as [c1 H1]; eexists; apply SAltL; eauto.
  - destruct (IHmatches s p cc) as [c1 H1]; eexists; apply SAltR; eauto.
  - rewrite Nat.add_0_r; eexists; constructor.
  - destruct (IHmatches1 (w2 ++ s) p cc) as [c1 H1].
    destruct (IHmatches2 s (p + length w1) c1) as [c2 H2].
    rewrite <- app_assoc, app_length, Nat.add_assoc. eexists; econstructor; eauto.
  - rewrite Nat.add_0_r; eexists; constructor.
  - destruct (IHmatches1 (w2 ++ s) p cc) as [c1 H1].
    destruct (IHmatches2 s (p + length w1) c1) as [c2 H2].
    rewrite <- app_assoc, app_length, Nat.add_assoc. eexists; econstructor; eauto.
  - destruct (IHmatches s p cc) as [c1 H1]; eexists; constructor; eauto.
Qed.

(* matches the empty word at the beginning of the text (treating ^ as true) *)
Fixpoint nb (r : re) : bool :=
  match r with
  | Eps => true
  | Bol => true
  | Seq a b => nb a && nb b
  | Alt a b => nb a || nb b
  | Star _ => true
  | Rep a m n => Nat.eqb m 0 || (nb a && Nat.leb m n)
  | Grp _ a => nb a
  | _ => false
  end.

Lemma nb_rep : forall a, (forall s c, exists c1, ms a s 0 c s 0 c1) ->
  forall n m s c, m <= n -> exists c1, ms (Rep a m n) s 0 c s 0 c1.
Proof.
  intros a Ha n; induction n as [|n IH]; intros m s c Hle.
  - assert (m = 0) by lia; subst; eexists; constructor.
  - destruct m as [|m]; [eexists; constructor|].
    destruct (Ha s c) as [c1 H1]. destruct (IH m s c1) as [c2 H2]; [lia|].
    eexists; econstructor; eauto.
Qed.

Lemma nb_ms : forall r, nb r = true -> forall s c, exists c1, ms r s 0 c s 0 c1.
Proof.
  induction r; simpl; intros Hn s c; try discriminate.
  - eexists; constructor.
  - apply andb_true_iff in Hn; destruct Hn as [H1 H2].
    destruct (IHr1 H1 s c) as [c1 M1]. destruct (IHr2 H2 s c1) as [c2 M2].
    eexists; econstructor; eauto.
  - apply orb_true_iff in Hn; destruct Hn as [H1|H2].
    + destruct (IHr1 H1 s c) as [c1 M1]; eexists; apply SAltL; eauto.
    + destruct (IHr2 H2 s c) as [c1 M1]; eexists; apply SAltR; eauto.
  - eexists; constructor.
  - apply orb_true_iff in Hn; destruct Hn as [H1|H2].
    + apply Nat.eqb_eq in H1; subst; eexists; constructor.
    + apply andb_true_iff in H2; destruct H2 as [Ha Hle]. apply Nat.leb_le in Hle.
      apply nb_rep; auto.
  - eexists; constructor.
  - destruct (IHr Hn s c) as [c1 M1]; eexists; constructor; eauto.
Qed.

(* matches the empty word at the end of the text (treating $ as true) *)
Fixpoint ne (r : re) : bool :=
  match r with
  | Eps => true
  | Eol => true
  | Seq a b => ne a && ne b
  | Alt a b => ne a || ne b
  | Star _ => true
  | Rep a m n => Nat.eqb m 0 || (ne a && Nat.leb m n)
  | Grp _ a => ne a
  | _ => false
  end.

Lemma ne_rep : forall a, (forall p c, exists c1, ms a [] p c [] p c1) ->
  forall n m p c, m <= n -> exists c1, ms (Rep a m n) [] p c [] p c1.
Proof.
  intros a Ha n; induction n as [|n IH]; intros m p c Hle.
  - assert (m = 0) by lia; subst; eexists; constructor.
  - destruct m as [|m]; [eexists; constructor|].
    destruct (Ha p c) as [c1 H1]. destruct (IH m p c1) as [c2 H2]; [lia|].
    eexists; econstructor; eauto.
Qed.

Lemma ne_ms : forall r, ne r = true -> forall p c, exists c1, ms r [] p c [] p c1.
Proof.
  induction r; simpl; intros Hn p c; try discriminate.
  - eexists; constructor.
  - apply andb_true_iff in Hn; destruct Hn as [H1 H2].
    destruct (IHr1 H1 p c) as [c1 M1]. destruct (IHr2 H2 p c1) as [c2 M2].
    eexists; econstructor; eauto.
  - apply orb_true_iff in Hn; destruct Hn as [H1|H2].
    + destruct (IHr1 H1 p c) as [c1 M1]; eexists; apply SAltL; eauto.
    + destruct (IHr2 H2 p c) as [c1 M1]; eexists; apply SAltR; eauto.
  - eexists; constructor.
  - apply orb_true_iff in Hn; destruct Hn as [H1|H2].
    + apply Nat.eqb_eq in H1; subst; eexists; constructor.
    + apply andb_true_iff in H2; destruct H2 as [Ha Hle]. apply Nat.leb_le in Hle.
      apply ne_rep; auto.
  - eexists; constructor.
  - destruct (IHr Hn p c) as [c1 M1]; eexists; constructor; eauto.
Qed.

(* longest word (star-free) *)
Fixpoint maxlen (r : re) : nat :=
  match r with
  | Cls _ => 1
  | Seq a b => maxlen a + maxlen b
  | Alt a b => Nat.max (maxlen a) (maxlen b)
  | Star a => 0
  | Rep a _ n => n * maxlen a
  | Grp _ a => maxlen a
  | _ => 0
  end.

Lemma ms_maxlen : forall r s p c s1 p1 c1, ms r s p c s1 p1 c1 -> star_free r = true ->
  p1 <= p + maxlen r.
Proof.
  induction 1; intros Hsf; simpl in *; try discriminate; try lia.
  - apply andb_true_iff in Hsf; destruct Hsf as [Ha Hb].
    specialize (IHms1 Ha); specialize (IHms2 Hb); lia.
  - apply andb_true_iff in Hsf; destruct Hsf as [Ha Hb]. specialize (IHms Ha); lia.
  - apply andb_true_iff in Hsf; destruct Hsf as [Ha Hb]. specialize (IHms Hb); lia.
  - specialize (IHms1 Hsf); specialize (IHms2 Hsf); lia.
  - specialize (IHms Hsf); lia.
Qed.

(* shortest word *)
Fixpoint minlen (r : re) : nat :=
  match r with
  | Cls _ => 1
  | Seq a b => minlen a + minlen b
  | Alt a b => Nat.min (minlen a) (minlen b)
  | Rep a m _ => m * minlen a
  | Grp _ a => minlen a
  | _ => 0
  end.

Lemma matches_minlen : forall r w, matches r w -> minlen r <= length w.
Proof.
  induction 1; simpl in *; try rewrite app_length; try lia.
  destruct m as [|m]; simpl in *; lia.
Qed.

Fixpoint has_grp (g : nat) (r : re) : bool :=
  match r with
  | Grp k a => Nat.eqb g k || has_grp g a
  | Seq a b => has_grp g a || has_grp g b
  | Alt a b => has_grp g a || has_grp g b
  | Star a => has_grp g a
  | Rep a _ _ => has_grp g a
  | _ => false
  end.

Lemma ms_no_grp : forall g r s p c s1 p1 c1, ms r s p c s1 p1 c1 -> has_grp g r = false ->
  cap_lookup g c1 = cap_lookup g c.
Proof.
  induction 1; intros Hg; simpl in *; auto.
  - apply orb_false_iff in Hg; destruct Hg as [Ha Hb]. rewrite IHms2, IHms1; auto.
  - apply orb_false_iff in Hg; destruct Hg as [Ha Hb]; auto.
  - apply orb_false_iff in Hg; destruct Hg as [Ha Hb]; auto.
  - rewrite IHms2, IHms1; auto.
  - rewrite IHms2, IHms1; auto.
  - apply orb_false_iff in Hg; destruct Hg as [Ha Hb]. rewrite Ha; auto.
Qed.

(* no class of r contains the symbol x *)
Fixpoint sym_free (x : N) (r : re) : bool :=
  match r with
  | Cls rs => negb (in_cls x rs)
  | Seq a b => sym_free x a && sym_free x b
  | Alt a b => sym_free x a && sym_free x b
  | Star a => sym_free x a
  | Rep a _ _ => sym_free x a
  | Grp _ a => sym_free x a
  | _ => true
  end.

Lemma matches_sym_free : forall x r w, matches r w -> sym_free x r = true -> ~ In x w.
Proof.
  induction 1; intros Hf Hin; simpl in *; auto.
  - destruct Hin as [Hin|[]]; subst. rewrite H in Hf; discriminate.
  - apply andb_true_iff in Hf; destruct Hf as [F1 F2].
    apply in_app_or in Hin; destruct Hin as [Hi|Hi]; [apply (IHmatches1 F1 Hi)|apply (IHmatches2 F2 Hi)].
  - apply andb_true_iff in Hf; destruct Hf as [F1 F2]. apply (IHmatches F1 Hin).
  - apply andb_true_iff in Hf; destruct Hf as [F1 F2]. apply (IHmatches F2 Hin).
  - apply in_app_or in Hin; destruct Hin as [Hi|Hi]; [apply (IHmatches1 Hf Hi)|apply (IHmatches2 Hf Hi)].
  - apply in_app_or in Hin; destruct Hin as [Hi|Hi]; [apply (IHmatches1 Hf Hi)|apply (IHmatches2 Hf Hi)].
  - apply (IHmatches Hf Hin).
Qed.

(* ---------------------------------------------------------------- the unanchored search *)

Lemma search_complete : forall r k s pos,
  k <= length s -> match_here r (skipn k s) (pos + k) <> None ->
  exists k' en cs, search r s pos = Some (pos + k', en, cs) /\ k' <= k /\
                   match_here r (skipn k' s) (pos + k') = Some (en, cs).
Proof.
  intros r k; induction k as [|k IH]; intros s pos Hle Hm.
  - simpl in Hm. rewrite Nat.add_0_r in Hm.
    destruct s; simpl; destruct (match_here r _ pos) as [[e c]|] eqn:E; try contradiction;
      exists 0, e, c; rewrite Nat.add_0_r; simpl; auto.
  - destruct s as [|x s]; [simpl in Hle; lia|].
    simpl. destruct (match_here r (x :: s) pos) as [[e c]|] eqn:E.
    + exists 0, e, c; rewrite Nat.add_0_r; simpl; repeat split; auto; lia.
    + simpl in Hle. destruct (IH s (S pos)) as (k' & en & cs & Hs & Hk & Hm').
      * lia.
      * simpl in Hm. replace (S pos + k) with (pos + S k) by lia; auto.
      * exists (S k'), en, cs. replace (pos + S k') with (S pos + k') by lia.
        simpl; repeat split; auto; lia.
Qed.

Lemma search_sound : forall r s pos st en cs,
  search r s pos = Some (st, en, cs) ->
  exists k, k <= length s /\ st = pos + k /\ match_here r (skipn k s) st = Some (en, cs).
Proof.
  intros r s; induction s as [|x s IH]; intros pos st en cs H; simpl in H.
  - destruct (match_here r [] pos) as [[e c]|] eqn:E; [|discriminate].
    inversion H; subst. exists 0; simpl; rewrite Nat.add_0_r; auto.
  - destruct (match_here r (x :: s) pos) as [[e c]|] eqn:E.
    + inversion H; subst. exists 0; simpl; rewrite Nat.add_0_r; repeat split; auto; lia.
    + apply IH in H. destruct H as (k & Hk & Hst & Hm).
      exists (S k); simpl; repeat split; auto; lia.
Qed.
