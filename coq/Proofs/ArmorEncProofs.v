(* ArmorEncProofs.v — the AMP armor encoder: every partition into Writes gives the
   whole-input document; shape of the document. *)
From Coq Require Import List NArith ZArith Lia Bool Arith.
From Coq Require Import ZifyN ZifyNat ZifyBool.
From Snow Require Import Lib.Wire Model.Base64 Model.Armor Proofs.Base64Proofs.
Import ListNotations.
Open Scope N_scope.

(* ------------------------------------------------------------------ group *)
Lemma group_aux_last {A} : forall n (cur : list A) x l,
  group_aux n 1 cur (x :: l) = rev (x :: cur) :: group_aux n n [] l.
Proof. reflexivity. Qed.

Lemma group_aux_more {A} : forall n k (cur : list A) x l, (2 <= k)%nat ->
  group_aux n k cur (x :: l) = group_aux n (k - 1) (x :: cur) l.
Proof.
  intros n k cur x l H. destruct k as [|[|k]]; try lia.
  cbn [group_aux]. replace (S (S k) - 1)%nat with (S k) by lia. reflexivity.
Qed.

Lemma group_aux_nil {A} : forall n k (cur : list A),
  group_aux n k cur [] = match cur with [] => [] | _ => [rev cur] end.
Proof. reflexivity. Qed.

Lemma group_aux_concat {A} : forall n l k (cur : list A), (1 <= n)%nat -> (1 <= k)%nat ->
  concat (group_aux n k cur l) = rev cur ++ l.
Proof.
  intros n l. induction l as [|x l IH]; intros k cur Hn Hk.
  - rewrite group_aux_nil. destruct cur; cbn [concat]; rewrite ?app_nil_r; reflexivity.
  - destruct (Nat.eq_dec k 1) as [->|Hne].
    + rewrite group_aux_last. cbn [concat].
      rewrite IH by lia. cbn [rev app]. rewrite <- app_assoc. reflexivity.
    + rewrite group_aux_more by lia. rewrite IH by lia. cbn [rev]. rewrite <- app_assoc. reflexivity.
Qed.

Lemma group_concat {A} : forall n (l : list A), (1 <= n)%nat -> concat (group n l) = l.
Proof. intros. unfold group. rewrite group_aux_concat by lia. reflexivity. Qed.

Lemma group_aux_sizes {A} : forall n l k (cur : list A), (1 <= n)%nat -> (1 <= k)%nat ->
  (k + length cur = n)%nat ->
  Forall (fun g => (1 <= length g <= n)%nat) (group_aux n k cur l).
Proof.
  intros n l. induction l as [|x l IH]; intros k cur Hn Hk Hsum.
  - rewrite group_aux_nil. destruct cur as [|c cur]; constructor; [|constructor].
    rewrite rev_length. cbn [length] in *. lia.
  - destruct (Nat.eq_dec k 1) as [->|Hne].
    + rewrite group_aux_last. constructor.
      * rewrite rev_length. cbn [length]. lia.
      * apply IH; cbn [length]; lia.
    + rewrite group_aux_more by lia. apply IH; cbn [length]; lia.
Qed.

Lemma group_sizes {A} : forall n (l : list A), (1 <= n)%nat ->
  Forall (fun g => (1 <= length g <= n)%nat) (group n l).
Proof. intros. unfold group. apply group_aux_sizes; cbn [length]; lia. Qed.

(* ------------------------------------------------------------------ element encoder *)
Lemma eenc_write_app : forall x y e,
  eenc_write e (x ++ y) =
  (fst (eenc_write (fst (eenc_write e x)) y), snd (eenc_write e x) ++ snd (eenc_write (fst (eenc_write e x)) y)).
Proof.
  induction x as [|b x IH]; intros y e.
  - cbn. destruct (eenc_write e y); reflexivity.
  - cbn [app eenc_write]. destruct (eenc_byte e b) as [e1 o1]. rewrite IH.
    destruct (eenc_write e1 x) as [e2 o2]. cbn [fst snd].
    destruct (eenc_write e2 y) as [e3 o3]. cbn [fst snd]. rewrite app_assoc. reflexivity.
Qed.

Definition eenc_all (s : bytes) : bytes :=
  snd (eenc_write {| cc := 0; ec := 0 |} s) ++ eenc_close (fst (eenc_write {| cc := 0; ec := 0 |} s)).

Definition pre_of (cur : bytes) (curw : list bytes) : bytes :=
  PRE_OPEN ++ concat (map word_line (rev curw)) ++ rev cur.
Definition emitted (cur : bytes) (curw : list bytes) : bytes :=
  match cur, curw with [], [] => [] | _, _ => pre_of cur curw end.

Lemma emitted_hdr : forall cur curw,
  emitted cur curw ++ (if (Nat.eqb (length curw) 0 && Nat.eqb (length cur) 0)%bool then PRE_OPEN else [])
  = pre_of cur curw.
Proof.
  intros [|c cur] [|w curw]; cbn [emitted length Nat.eqb andb]; rewrite ?app_nil_r; try reflexivity.
Qed.

Lemma eenc_spec : forall s cur curw k1 k2,
  (k1 + length cur = 32)%nat -> (1 <= k1)%nat -> (k2 + length curw = 992)%nat -> (1 <= k2)%nat ->
  emitted cur curw ++ snd (eenc_write {| cc := length cur; ec := length curw |} s)
    ++ eenc_close (fst (eenc_write {| cc := length cur; ec := length curw |} s))
  = concat (map element (group_aux 992 k2 curw (group_aux 32 k1 cur s))).
Proof.
  induction s as [|b s IH]; intros cur curw k1 k2 H1 H1' H2 H2'.
  - cbn [eenc_write fst snd app]. rewrite group_aux_nil. unfold eenc_close. cbn [cc ec].
    destruct cur as [|c cur].
    + rewrite group_aux_nil. destruct curw as [|w curw].
      * reflexivity.
      * cbn [length Nat.eqb andb emitted map concat]. unfold element, pre_of.
        cbn [rev app]. rewrite !app_nil_r. rewrite <- !app_assoc. reflexivity.
    + assert (E : group_aux 992 k2 curw [rev (c :: cur)] = [rev (rev (c :: cur) :: curw)]).
      { destruct (Nat.eq_dec k2 1) as [->|Hne]; [reflexivity|].
        rewrite group_aux_more by lia. reflexivity. }
      rewrite E. cbn [map concat]. rewrite app_nil_r.
      replace ((Nat.eqb (length curw) 0 && Nat.eqb (length (c :: cur)) 0)%bool) with false
        by (cbn [length Nat.eqb]; rewrite andb_false_r; reflexivity).
      cbn [length Nat.eqb]. cbn [emitted]. unfold element, pre_of.
      replace (match curw with [] => PRE_OPEN ++ concat (map word_line (rev curw)) ++ rev (c :: cur)
                           | _ :: _ => PRE_OPEN ++ concat (map word_line (rev curw)) ++ rev (c :: cur) end)
        with (PRE_OPEN ++ concat (map word_line (rev curw)) ++ rev (c :: cur)) by (destruct curw; reflexivity).
      cbn [rev]. rewrite map_app, concat_app. cbn [map concat]. unfold word_line.
      rewrite !app_nil_r. rewrite <- !app_assoc. reflexivity.
  - cbn [eenc_write]. unfold eenc_byte. cbn [cc ec].
    destruct (Nat.leb bytesPerChunk (S (length cur))) eqn:Ec.
    + (* the chunk is full *)
      apply Nat.leb_le in Ec. unfold bytesPerChunk in Ec.
      assert (k1 = 1)%nat by lia. subst k1.
      rewrite group_aux_last.
      destruct (Nat.leb chunksPerElement (S (length curw))) eqn:Ee.
      * apply Nat.leb_le in Ee. unfold chunksPerElement in Ee.
        assert (k2 = 1)%nat by lia. subst k2.
        rewrite group_aux_last. cbn [map concat].
        specialize (IH [] [] 32%nat 992%nat ltac:(reflexivity) ltac:(lia) ltac:(reflexivity) ltac:(lia)).
        cbn [length emitted app] in IH.
        destruct (eenc_write {| cc := 0; ec := 0 |} s) as [e2 o2]. cbn [fst snd] in *.
        rewrite <- IH.
        rewrite !app_assoc. rewrite emitted_hdr.
        unfold element, pre_of. cbn [rev]. rewrite map_app, concat_app. cbn [map concat]. unfold word_line.
        rewrite !app_nil_r. rewrite <- !app_assoc. reflexivity.
      * apply Nat.leb_gt in Ee. unfold chunksPerElement in Ee.
        rewrite group_aux_more by lia.
        specialize (IH [] (rev (b :: cur) :: curw) 32%nat (k2 - 1)%nat ltac:(reflexivity) ltac:(lia)
                       ltac:(cbn [length]; lia) ltac:(lia)).
        cbn [length] in IH.
        destruct (eenc_write {| cc := 0; ec := S (length curw) |} s) as [e2 o2]. cbn [fst snd] in *.
        etransitivity; [|exact IH]. clear IH.
        rewrite !app_assoc. rewrite emitted_hdr.
        cbn [emitted]. unfold pre_of. cbn [rev]. rewrite map_app, concat_app. cbn [map concat]. unfold word_line.
        rewrite !app_nil_r. rewrite <- !app_assoc. reflexivity.
    + apply Nat.leb_gt in Ec. unfold bytesPerChunk in Ec.
      rewrite group_aux_more by lia.
      specialize (IH (b :: cur) curw (k1 - 1)%nat k2 ltac:(cbn [length]; lia) ltac:(lia) H2 H2').
      cbn [length] in IH.
      destruct (eenc_write {| cc := S (length cur); ec := length curw |} s) as [e2 o2]. cbn [fst snd] in *.
      etransitivity; [|exact IH]. clear IH.
      rewrite !app_assoc. rewrite emitted_hdr.
      cbn [emitted]. unfold pre_of. cbn [rev]. rewrite <- !app_assoc. reflexivity.
Qed.

Lemma eenc_all_spec : forall s,
  eenc_all s = concat (map element (group chunksPerElement (group bytesPerChunk s))).
Proof.
  intros s.
  pose proof (eenc_spec s [] [] 32%nat 992%nat ltac:(reflexivity) ltac:(lia) ltac:(reflexivity) ltac:(lia)) as H.
  cbn [length emitted app] in H. exact H.
Qed.

(* ------------------------------------------------------------------ armorEncoder *)
Lemma enc_full_short : forall l, (length l < 3)%nat -> enc_full l = ([], l).
Proof. intros [|a [|b [|c l]]] H; cbn [length] in H; try lia; reflexivity. Qed.

Lemma armor_writes_spec : forall parts a, (length (a_pend a) < 3)%nat ->
  let all := a_pend a ++ concat parts in
  snd (armor_writes a parts) = snd (eenc_write (a_el a) (fst (enc_full all))) /\
  a_el (fst (armor_writes a parts)) = fst (eenc_write (a_el a) (fst (enc_full all))) /\
  a_pend (fst (armor_writes a parts)) = snd (enc_full all).
Proof.
  induction parts as [|p ps IH]; intros a Hp; cbv zeta.
  - cbn [concat armor_writes fst snd]. rewrite app_nil_r. rewrite enc_full_short by assumption.
    cbn [fst snd eenc_write]. auto.
  - cbn [armor_writes concat]. unfold armor_write, b64w_write.
    rewrite app_assoc. rewrite (enc_full_app (a_pend a ++ p) (concat ps)).
    destruct (enc_full (a_pend a ++ p)) as [o pend'] eqn:E. cbn [fst snd].
    assert (Hs : (length pend' < 3)%nat).
    { pose proof (enc_full_rem_short (a_pend a ++ p)) as Hx. rewrite E in Hx. exact Hx. }
    rewrite eenc_write_app.
    destruct (eenc_write (a_el a) o) as [e1 o1] eqn:E1. cbn [fst snd].
    specialize (IH {| a_pend := pend'; a_el := e1 |} Hs). cbv zeta in IH. cbn [a_pend a_el] in IH.
    destruct (armor_writes {| a_pend := pend'; a_el := e1 |} ps) as [a2 o2]. cbn [fst snd] in *.
    destruct IH as (I1 & I2 & I3). rewrite I1, I2, I3. auto.
Qed.

Lemma armor_stream_eq : forall parts,
  armor_stream parts = boilerplate_start ++ eenc_all (VERSION :: b64_encode (concat parts)) ++ boilerplate_end.
Proof.
  intros parts. unfold armor_stream, armor_new.
  destruct (eenc_write {| cc := 0; ec := 0 |} [VERSION]) as [e0 o0] eqn:E0.
  pose proof (armor_writes_spec parts {| a_pend := []; a_el := e0 |} ltac:(cbn; lia)) as H.
  cbv zeta in H. cbn [a_pend a_el app] in H.
  destruct (armor_writes {| a_pend := []; a_el := e0 |} parts) as [a1 o1]. cbn [fst snd] in H.
  destruct H as (H1 & H2 & H3).
  unfold armor_close, b64w_close.
  destruct (eenc_write (a_el a1) (enc_tail (a_pend a1))) as [e2 o2] eqn:E2.
  unfold eenc_all.
  rewrite (enc_full_encode (concat parts)).
  change (VERSION :: fst (enc_full (concat parts)) ++ enc_tail (snd (enc_full (concat parts))))
    with ([VERSION] ++ fst (enc_full (concat parts)) ++ enc_tail (snd (enc_full (concat parts)))).
  rewrite eenc_write_app. rewrite E0. cbn [fst snd].
  rewrite eenc_write_app. rewrite <- H2, <- H1, <- H3. rewrite E2. cbn [fst snd].
  rewrite <- !app_assoc. reflexivity.
Qed.

Lemma armor_encode_eq : forall p,
  armor_encode p = boilerplate_start ++ eenc_all (VERSION :: b64_encode p) ++ boilerplate_end.
Proof. intros p. unfold armor_encode, armor_elements, armor_words. rewrite eenc_all_spec. reflexivity. Qed.

Lemma write_chunking : forall parts, armor_stream parts = armor_encode (concat parts).
Proof. intros. rewrite armor_stream_eq, armor_encode_eq. reflexivity. Qed.
