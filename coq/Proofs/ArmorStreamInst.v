(* ArmorStreamInst.v — the streaming theorems for the armor decoder's own tokenizer model
   (Armor.tk_step / tk_fin): the generic results of ArmorStreamProofs.v / ArmorBufProofs.v instantiated,
   and restated with armor_decode / armor_scan. *)
From Coq Require Import List NArith ZArith Lia Bool Arith String.
From Coq Require Import ZifyN ZifyNat ZifyBool.
From Snow Require Import Lib.Wire Model.Base64 Model.Armor Model.ArmorStream.
From Snow Require Import Proofs.Base64Proofs Proofs.ArmorEncProofs Proofs.ArmorDecProofs Proofs.ArmorMarkupProofs
                         Proofs.ArmorStreamProofs Proofs.ArmorBufProofs.
Import ListNotations.
Open Scope N_scope.

Definition a_events (doc : bytes) : list pevent := events_of tks tk_step tk_fin false tk_init doc.

Lemma tk_fin_ends : forall t a, w_end (dw_toks a (tk_fin t)) <> None.
Proof.
  intros t a. unfold tk_fin. destruct (tmd t); try apply dw_eof_end.
  cbn. discriminate.
Qed.

(* the one automaton [run]/[finish] is decodeToWriter over the token stream *)
Lemma finish_run_toks : forall l s, halt s = None ->
  exists e, w_end (dw_toks (active s) (toks_of tks tk_step tk_fin (tkz s) l)) = Some e /\
            finish (run s l) = (rev (out_rev s) ++ w_words (dw_toks (active s) (toks_of tks tk_step tk_fin (tkz s) l)), e).
Proof.
  induction l as [|c l IH]; intros [t a o h] H; cbn [halt] in H; subst h; cbn [tkz active out_rev].
  - cbn [toks_of run fold_left]. unfold finish. cbn [halt tkz active out_rev]. unfold apply_toks. cbn [halt out_rev].
    rewrite dw_toks_app. pose proof (tk_fin_ends t a) as E.
    destruct (w_end (dw_toks a (tk_fin t))) as [e|] eqn:E1; [|congruence].
    exists e. split; [exact E1|]. rewrite !rev_append_rev, app_nil_r, rev_app_distr, rev_involutive. reflexivity.
  - cbn [toks_of]. rewrite run_cons. unfold step at 1. cbn [halt tkz active out_rev].
    destruct (tk_step t c) as [t1 ts]. rewrite dw_toks_app.
    destruct (w_end (dw_toks a ts)) as [e|] eqn:E1.
    + exists e. split; [exact E1|].
      rewrite (run_dead l _ e) by (unfold apply_toks; cbn [halt]; exact E1).
      unfold finish, apply_toks. cbn [halt out_rev]. rewrite E1.
      rewrite !rev_append_rev, app_nil_r, rev_app_distr, rev_involutive. reflexivity.
    + destruct (IH (apply_toks t1 a o ts)) as (e & I1 & I2); [unfold apply_toks; cbn [halt]; exact E1|].
      unfold apply_toks in I1, I2. cbn [tkz active out_rev] in I1, I2.
      exists e. cbn [w_end w_words]. split; [exact I1|]. unfold apply_toks. rewrite I2.
      rewrite rev_append_rev, rev_app_distr, rev_involutive, <- app_assoc. reflexivity.
Qed.

Lemma chars_evs : forall r, chars (evs_of r) = List.concat (w_words r).
Proof.
  intros r. unfold evs_of. induction (w_words r) as [|w ws IH]; cbn [map app chars List.concat].
  - destruct (w_end r); reflexivity.
  - rewrite IH. reflexivity.
Qed.
Lemma fend_evs : forall r e, w_end r = Some e -> fend (evs_of r) = e.
Proof.
  intros r e H. unfold evs_of. rewrite H. induction (w_words r) as [|w ws IH]; cbn [map app fend]; [reflexivity|exact IH].
Qed.

Lemma scan_events : forall doc, armor_scan doc = (chars (a_events doc), fend (a_events doc)).
Proof.
  intros doc. unfold armor_scan, armor_words_of, a_events, events_of.
  destruct (finish_run_toks doc dinit eq_refl) as (e & E1 & E2). cbn [active tkz out_rev dinit rev app] in *.
  rewrite E2. rewrite chars_evs. rewrite (fend_evs _ e E1). reflexivity.
Qed.

(* ------------------------------------------------------------------ gap 1: every source chunking, every read pattern *)
(* the character stream after the version byte *)
Definition body_of (doc : bytes) : bytes := tl (fst (armor_scan doc)).

Lemma stream_decode_armor : forall doc chunks sz fuel,
  List.concat chunks = doc -> (forall j, (1 <= sz j)%nat) ->
  no_ipad (body_of doc) = true -> (List.length (fst (armor_scan doc)) < fuel)%nat ->
  let r := armor_stream_decode chunks sz fuel in
  match armor_decode doc with
  | DOk d => s_data r = d /\ s_end r = Some REOF
  | DErr e => s_end r = Some (RErr e) /\ prefix (s_data r) (fst (b64_decode_seq (body_of doc)))
  end.
Proof.
  intros doc chunks sz fuel Hc Hsz Hp Hf. cbv zeta. unfold armor_decode, body_of in *. rewrite scan_events in *. cbn [fst] in *.
  pose proof (stream_decode_spec tks tk_init tk_step tk_fin chunks sz fuel Hsz) as S. cbv zeta in S.
  rewrite Hc in S. fold (a_events doc) in S. specialize (S Hp Hf). exact S.
Qed.

(* the same for the code before the fix *)
Lemma stream_decode0_armor : forall doc chunks sz fuel,
  List.concat chunks = doc -> (forall j, (1 <= sz j)%nat) ->
  no_ipad (body_of doc) = true -> (List.length (fst (armor_scan doc)) < fuel)%nat ->
  let r := armor_stream_decode0 chunks sz fuel in
  match armor_decode doc with
  | DOk d => s_data r = d /\ s_end r = Some REOF
  | DErr e => s_end r = Some (RErr e) /\ prefix (s_data r) (fst (b64_decode_seq (body_of doc)))
  end.
Proof.
  intros doc chunks sz fuel Hc Hsz Hp Hf. cbv zeta. unfold armor_decode, body_of in *. rewrite scan_events in *. cbn [fst] in *.
  pose proof (stream_decode0_spec tks tk_init tk_step tk_fin chunks sz fuel Hsz) as S. cbv zeta in S.
  rewrite Hc in S. fold (a_events doc) in S. specialize (S Hp Hf). exact S.
Qed.

(* what the encoder produces has its padding at the end *)
Lemma no_ipad_encode : forall p, bytes_ok p = true -> no_ipad (b64_encode p) = true.
Proof.
  intros p. induction p as [ | a | a b | a b c p IHp] using list_ind3; intros Hok.
  - reflexivity.
  - unfold bytes_ok in Hok; cbn [forallb] in Hok; unfold byte_ok in Hok.
    assert (Ha : a < 256) by lia.
    cbn [b64_encode enc_tail no_ipad].
    rewrite !dec6_enc6 by lia. rewrite dec6_pad. rewrite !N.eqb_refl. reflexivity.
  - unfold bytes_ok in Hok; cbn [forallb] in Hok; unfold byte_ok in Hok.
    assert (Ha : a < 256) by lia. assert (Hb : b < 256) by lia.
    cbn [b64_encode enc_tail no_ipad].
    rewrite !dec6_enc6 by lia. rewrite dec6_pad. rewrite !N.eqb_refl. reflexivity.
  - unfold bytes_ok in Hok; cbn [forallb] in Hok.
    apply andb_true_iff in Hok as [Ha Hok]. apply andb_true_iff in Hok as [Hb Hok].
    apply andb_true_iff in Hok as [Hc Hr]. unfold byte_ok in Ha, Hb, Hc.
    apply N.ltb_lt in Ha, Hb, Hc. fold (bytes_ok p) in Hr.
    destruct (quantum3 a b c Ha Hb Hc) as (Q0 & Q1 & Q2 & Q3 & Q4).
    cbn [b64_encode enc3 app no_ipad].
    rewrite !dec6_enc6 by assumption. apply IHp. exact Hr.
Qed.

Lemma scan_encode : forall p, bytes_ok p = true -> armor_scan (armor_encode p) = (VERSION :: b64_encode p, TEnd).
Proof.
  intros p Hp. rewrite armor_encode_doc.
  destruct (armor_elements_facts p) as (F & C).
  rewrite scan_doc.
  - rewrite strip_segs; [f_equal; exact C|].
    rewrite Forall_forall in *. intros ws Hws. apply (F ws Hws).
  - rewrite Forall_forall in *. intros sg Hsg. apply in_map_iff in Hsg as (ws & <- & Hws).
    destruct (F ws Hws) as (A1 & A2 & A3). apply seg_of_ok; [assumption|assumption|lia].
Qed.

(* round trip for every pattern of encoder writes, source reads and decoder reads *)
Lemma roundtrip_streaming : forall parts chunks sz fuel,
  bytes_ok (List.concat parts) = true ->
  List.concat chunks = armor_stream parts -> (forall j, (1 <= sz j)%nat) ->
  (List.length (b64_encode (List.concat parts)) + 1 < fuel)%nat ->
  let r := armor_stream_decode chunks sz fuel in
  s_data r = List.concat parts /\ s_end r = Some REOF /\ sp_stuck (s_prod r) = false.
Proof.
  intros parts chunks sz fuel Hok Hc Hsz Hf. cbv zeta.
  rewrite write_chunking in Hc.
  pose proof (stream_decode_armor (armor_encode (List.concat parts)) chunks sz fuel Hc Hsz) as S.
  unfold body_of in S. rewrite (scan_encode _ Hok) in S. cbn [fst tl List.length] in S.
  specialize (S (no_ipad_encode _ Hok) ltac:(lia)). cbv zeta in S. rewrite (roundtrip _ Hok) in S.
  destruct S as [S1 S2]. split; [exact S1|]. split; [exact S2|].
  apply (stream_decode_released tks tk_init tk_step tk_fin). unfold armor_stream_decode in S2. rewrite S2. discriminate.
Qed.

(* ------------------------------------------------------------------ gap 5: release, and the defect of the earlier code *)
Lemma armor_released : forall chunks sz fuel,
  s_end (armor_stream_decode chunks sz fuel) <> None ->
  sp_stuck (s_prod (armor_stream_decode chunks sz fuel)) = false.
Proof. exact (stream_decode_released tks tk_init tk_step tk_fin). Qed.

(* ------------------------------------------------------------------ gap 3: bounded buffering *)
Lemma armor_tinv_feed : forall t c, tk_inv t ->
  tk_inv (fst (tk_step t c)) /\ N.of_nat (text_bytes (snd (tk_step t c))) <= MAXBUF.
Proof. intros t c H. exact (tk_step_ok t c H). Qed.

Lemma armor_tinv_held : forall t, tk_inv t -> tcnt t <= MAXBUF.
Proof. intros t [H _]. lia. Qed.

Definition a_reach := reach tks tk_init tk_step tk_fin.
Definition a_held := held tks tcnt.

Lemma armor_held_bound : forall B chunks d,
  Forall (fun ch => N.of_nat (List.length ch) <= B) chunks -> a_reach chunks d ->
  a_held d <= 4 * MAXBUF + B + 1792.
Proof.
  intros B chunks d Hs R.
  exact (held_bound tks tk_init tk_step tk_fin tcnt tk_inv armor_tinv_held tk_init_inv armor_tinv_feed tk_fin_ok B chunks d Hs R).
Qed.

Lemma armor_held_bound_new : forall B chunks e p,
  Forall (fun ch => N.of_nat (List.length ch) <= B) chunks -> sdec_new chunks = NewErr tks e p ->
  tcnt (p_tk p) + N.of_nat (List.length (p_cur p)) + q_bytes (p_q p) <= 4 * MAXBUF + B.
Proof.
  intros B chunks e p Hs E.
  exact (held_bound_new tks tk_init tk_step tk_fin tcnt tk_inv armor_tinv_held tk_init_inv armor_tinv_feed tk_fin_ok B chunks e p Hs E).
Qed.

(* ------------------------------------------------------------------ no hang on arbitrary input *)
Lemma armor_total : forall doc chunks sz fuel,
  List.concat chunks = doc -> (forall j, (1 <= sz j)%nat) ->
  (List.length (fst (armor_scan doc)) < fuel)%nat ->
  s_end (armor_stream_decode chunks sz fuel) <> None /\ sp_stuck (s_prod (armor_stream_decode chunks sz fuel)) = false.
Proof.
  intros doc chunks sz fuel Hc Hsz Hf. rewrite scan_events in Hf. cbn [fst] in Hf. unfold a_events in Hf. rewrite <- Hc in Hf.
  pose proof (stream_decode_total tks tk_init tk_step tk_fin chunks sz fuel Hsz Hf) as E.
  split; [exact E|]. apply armor_released. exact E.
Qed.

(* ------------------------------------------------------------------ the runner's number of Reads is enough *)
Lemma toks_of_tk_run : forall l t, toks_of tks tk_step tk_fin t l = tk_run t l ++ [TkEOF].
Proof.
  induction l as [|c l IH]; intros t; [reflexivity|]. cbn [toks_of tk_run].
  destruct (tk_step t c) as [t' ts]. rewrite IH, app_assoc. reflexivity.
Qed.

Lemma scan_len : forall doc, (List.length (fst (armor_scan doc)) <= 3 * List.length doc)%nat.
Proof.
  intros doc. rewrite scan_events. cbn [fst]. unfold a_events, events_of. rewrite chars_evs, <- sumlen_concat.
  pose proof (dw_toks_words (toks_of tks tk_step tk_fin tk_init doc) false) as W.
  rewrite toks_of_tk_run, text_bytes_app in W. cbn [text_bytes] in W.
  pose proof (tk_run_bytes doc tk_init) as R. change (tk_acc tk_init) with O in R.
  rewrite toks_of_tk_run. lia.
Qed.

Lemma fuel_for_enough : forall doc, (List.length (fst (armor_scan doc)) < fuel_for doc)%nat.
Proof. intros doc. pose proof (scan_len doc). unfold fuel_for. lia. Qed.

Lemma stream_decode_armor_run : forall doc chunks sz,
  List.concat chunks = doc -> (forall j, (1 <= sz j)%nat) -> no_ipad (body_of doc) = true ->
  let r := armor_stream_decode chunks sz (fuel_for doc) in
  match armor_decode doc with
  | DOk d => s_data r = d /\ s_end r = Some REOF
  | DErr e => s_end r = Some (RErr e) /\ prefix (s_data r) (fst (b64_decode_seq (body_of doc)))
  end.
Proof. intros doc chunks sz Hc Hsz Hp. apply stream_decode_armor; try assumption. apply fuel_for_enough. Qed.

Lemma armor_total_run : forall doc chunks sz,
  List.concat chunks = doc -> (forall j, (1 <= sz j)%nat) ->
  s_end (armor_stream_decode chunks sz (fuel_for doc)) <> None /\
  sp_stuck (s_prod (armor_stream_decode chunks sz (fuel_for doc))) = false.
Proof. intros doc chunks sz Hc Hsz. apply (armor_total doc); try assumption. apply fuel_for_enough. Qed.
