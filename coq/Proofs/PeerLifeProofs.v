(* PeerLifeProofs.v — the WebRTCPeer life cycle (Model/PeerLife.v) over the Peers machine: what Pop hands out and what
   Count()/purgeClosedPeers drops, stated over "Close has begun" instead of the atomic closed flag. *)
From Coq Require Import List Arith Bool Lia.
From Snow Require Import Model.Peers Model.PeerLife Proofs.PeersProofs.
Import ListNotations.

Inductive lreachable (v : version) (o : close_order) (max : nat) : lstate -> Prop :=
| lreach_init : lreachable v o max (linit max)
| lreach_step : forall s l s', lreachable v o max s -> lstep v o s l = Some s' -> lreachable v o max s'.

Lemma lrun_reachable : forall v o max tr s s', lreachable v o max s -> lrun v o s tr = Some s' -> lreachable v o max s'.
Proof.
  induction tr as [|l tr IH]; simpl; intros s s' R H.
  - inversion H; subst; assumption.
  - destruct (lstep v o s l) eqn:E; [|discriminate]. eapply IH; [|exact H]. eapply lreach_step; eauto.
Qed.

Ltac lstep_inv H :=
  cbn [lstep] in H;
  repeat match type of H with
    | match ?x with _ => _ end = Some _ => destruct x eqn:?; try discriminate
    | (if ?x then _ else _) = Some _ => destruct x eqn:?; try discriminate
  end;
  inversion H; subst; clear H.

(* ---------------------------------------------------------------- projection on the Peers machine (the code's order) *)

Lemma lstep_proj : forall v s l s', lstep v FlagFirst s l = Some s' ->
  lp s' = lp s \/ exists pl, step v (lp s) pl = Some (lp s').
Proof.
  intros v s l s' H. destruct l as [pl|p|p|p|p].
  - right. exists pl. destruct pl; lstep_inv H; cbn [lp]; first [assumption|reflexivity].
  - right. exists (Peer_closes p). lstep_inv H. cbn [lp]. first [assumption|reflexivity].
  - left. lstep_inv H. reflexivity.
  - left. lstep_inv H. reflexivity.
  - left. lstep_inv H. reflexivity.
Qed.

Lemma lreach_proj : forall v max s, lreachable v FlagFirst max s -> reachable v max (lp s).
Proof.
  intros v max s R. induction R as [|s l s' R IH H].
  - apply reach_init.
  - destruct (lstep_proj _ _ _ _ H) as [E|(pl & E)].
    + rewrite E. exact IH.
    + eapply reach_step; eauto.
Qed.

(* ---------------------------------------------------------------- the flag Closed() reads = "Close has begun" *)

Lemma step_closedf_frame : forall v s l s', step v s l = Some s' ->
  (forall p, l <> Peer_closes p) -> (forall i, l <> End_closepeers i) -> closedf s' = closedf s.
Proof.
  intros v s l s' H Hp He. destruct l; step_inv H; cbn; try reflexivity.
  - exfalso. eapply Hp. reflexivity.
  - exfalso. eapply He. reflexivity.
Qed.

Definition inv_life (s : lstate) : Prop :=
  (forall p, begun s p = closedf (lp s) p) /\ (forall p, torn s p = true -> begun s p = true).

Lemma step_closepeers_closedf : forall v s i s', step v s (End_closepeers i) = Some s' ->
  closedf s' = close_all (closedf s) (active s).
Proof. intros v s i s' H. step_inv H. reflexivity. Qed.

Lemma step_peer_closes_closedf : forall v s p s', step v s (Peer_closes p) = Some s' ->
  closedf s' = close_peer (closedf s) p.
Proof. intros v s p s' H. step_inv H. reflexivity. Qed.

Lemma inv_life_step : forall v s l s', inv_life s -> lstep v FlagFirst s l = Some s' -> inv_life s'.
Proof.
  intros v s l s' [Hb Ht] H. unfold inv_life. destruct l as [pl|p|p|p|p].
  - destruct pl;
      try (lstep_inv H; cbn [lp begun torn];
           match goal with E : step _ _ _ = Some _ |- _ =>
             rewrite (step_closedf_frame _ _ _ _ E) by (intros; congruence) end;
           split; assumption).
    + (* End_closepeers *)
      lstep_inv H. cbn [lp begun torn].
      match goal with E : step _ _ _ = Some _ |- _ => rewrite (step_closepeers_closedf _ _ _ _ E) end.
      unfold end_closes. split.
      * intros p. destruct (in_dec Nat.eq_dec p (active (lp s))) as [Hi|Hi].
        -- rewrite (close_all_in _ _ _ Hi). unfold live.
           destruct (closedf (lp s) p) eqn:Ec.
           ++ apply close_all_mono. rewrite Hb. exact Ec.
           ++ apply close_all_in. apply filter_In. split; [exact Hi|]. unfold live. rewrite Ec. reflexivity.
        -- rewrite (close_all_notin _ _ _ Hi). rewrite close_all_notin; [apply Hb|].
           intros Hf. apply filter_In in Hf. tauto.
      * intros p Hp. destruct (in_dec Nat.eq_dec p (filter (live (lp s)) (active (lp s)))) as [Hi|Hi].
        -- apply close_all_in. exact Hi.
        -- rewrite close_all_notin in Hp by exact Hi. apply close_all_mono. apply Ht. exact Hp.
  - lstep_inv H. cbn [lp begun torn].
    match goal with E : step _ _ _ = Some _ |- _ => rewrite (step_peer_closes_closedf _ _ _ _ E) end.
    split.
    + intros q. unfold close_peer. rewrite Hb. reflexivity.
    + intros q Hq. apply close_peer_mono. apply Ht. exact Hq.
  - lstep_inv H. cbn [lp begun torn]. split; [exact Hb|].
    intros q Hq. unfold close_peer in Hq. destruct (Nat.eqb_spec q p) as [E0|_].
    + rewrite E0. match goal with E : _ && _ = true |- _ => apply andb_true_iff in E; destruct E as [E _]; exact E end.
    + apply Ht. exact Hq.
  - lstep_inv H. split; assumption.
  - lstep_inv H. split; assumption.
Qed.

Lemma lreach_life : forall v max s, lreachable v FlagFirst max s -> inv_life s.
Proof.
  intros v max s R. induction R as [|s l s' R IH H].
  - split; cbn; intros; [reflexivity|discriminate].
  - eapply inv_life_step; eauto.
Qed.

(* ---------------------------------------------------------------- Pop *)

(* a step other than a Peers step leaves the poppers alone *)
Lemma lstep_pops : forall v o s l s', lstep v o s l = Some s' -> (forall pl, l <> LL_P pl) -> pops (lp s') = pops (lp s).
Proof.
  intros v o s l s' H Hn. destruct l as [pl|p|p|p|p]; [exfalso; eapply Hn; reflexivity| | | |];
    destruct o; lstep_inv H; cbn [lp]; try reflexivity;
    match goal with E : step _ _ (Peer_closes _) = Some _ |- _ => step_inv E; reflexivity end.
Qed.

Lemma lstep_P_step : forall v o s pl s', lstep v o s (LL_P pl) = Some s' -> step v (lp s) pl = Some (lp s').
Proof. intros v o s pl s' H. destruct pl; lstep_inv H; cbn [lp]; first [assumption|reflexivity]. Qed.

(* whenever a Pop call comes to return a peer - by whatever step of whatever thread - nobody had begun to close that
   peer (so nothing of it had been torn down), and it is the popper's own test of Closed() that has just passed *)
Lemma pop_hands_out_untouched : forall v max s l s' i p, lreachable v FlagFirst max s -> lstep v FlagFirst s l = Some s' ->
  nth_error (pops (lp s')) i = Some (P_Ret (Some p)) -> nth_error (pops (lp s)) i <> Some (P_Ret (Some p)) ->
  l = LL_P (Pop_check i) /\ begun s p = false /\ torn s p = false /\ begun s' p = false.
Proof.
  intros v max s l s' i p R H Hr Hn.
  destruct (lreach_life _ _ _ R) as [Hb Ht].
  destruct l as [pl|q|q|q|q];
    try (exfalso; apply Hn; rewrite <- (lstep_pops _ _ _ _ _ H) by (intros; discriminate); exact Hr).
  pose proof (lstep_P_step _ _ _ _ _ H) as Hs.
  pose proof (pop_ret_only_by_check _ _ _ _ _ _ Hs Hr Hn) as ->.
  destruct (pop_returns_checked _ _ _ _ _ Hs Hr) as [_ Hc].
  assert (Hbp : begun s p = false) by (rewrite Hb; exact Hc).
  split; [reflexivity|]. split; [exact Hbp|]. split.
  - destruct (torn s p) eqn:Et; [|reflexivity]. rewrite (Ht _ Et) in Hbp. discriminate.
  - lstep_inv H. cbn [begun]. exact Hbp.
Qed.

(* ---------------------------------------------------------------- Count / purgeClosedPeers *)

(* every peer nobody has begun to close is tracked: in activePeers, or in the collector's hand between Catch and
   PushBack - however long it has been quiet *)
Lemma untouched_tracked : forall v max s p, lreachable v FlagFirst max s ->
  p < next_peer (lp s) -> begun s p = false -> In p (active (lp s)) \/ col (lp s) = C_Caught p.
Proof.
  intros v max s p R Hp Hb. destruct (lreach_life _ _ _ R) as [Hbc _].
  apply (reach_track _ _ _ (lreach_proj _ _ _ R)); [exact Hp|]. rewrite <- Hbc. exact Hb.
Qed.

(* the purge in Collect drops exactly the peers whose Close has begun *)
Lemma purge_exact : forall v max s s', lreachable v FlagFirst max s ->
  lstep v FlagFirst s (LL_P Col_check) = Some s' -> melted (lp s) = false ->
  active (lp s') = filter (untouched s) (active (lp s)) /\ begun s' = begun s /\ quiet s' = quiet s.
Proof.
  intros v max s s' R H Hm. destruct (lreach_life _ _ _ R) as [Hbc _].
  assert (Hext : filter (live (lp s)) (active (lp s)) = filter (untouched s) (active (lp s))).
  { apply filter_ext. intros p. unfold live, untouched. rewrite Hbc. reflexivity. }
  lstep_inv H. cbn [lp begun quiet].
  match goal with E : step _ _ Col_check = Some _ |- _ => step_inv E end;
    try congruence; cbn [active set_col set_active]; auto.
Qed.

(* in particular a quiet peer nobody has closed survives the purge *)
Lemma quiet_peer_kept : forall v max s s' p, lreachable v FlagFirst max s ->
  lstep v FlagFirst s (LL_P Col_check) = Some s' -> melted (lp s) = false ->
  In p (active (lp s)) -> begun s p = false -> In p (active (lp s')) /\ begun s' p = false.
Proof.
  intros v max s s' p R H Hm Hi Hb. destruct (purge_exact _ _ _ _ R H Hm) as (Ea & Eb & _).
  rewrite Ea, Eb. split; [|exact Hb]. apply filter_In. split; [exact Hi|]. unfold untouched. rewrite Hb. reflexivity.
Qed.

(* the bound, over "Close has not begun" *)
Lemma untouched_bound : forall v max s, lreachable v FlagFirst max s ->
  length (filter (untouched s) (seq 0 (next_peer (lp s)))) <= max.
Proof.
  intros v max s R. destruct (lreach_life _ _ _ R) as [Hbc _].
  pose proof (live_peers_bound _ _ _ (lreach_proj _ _ _ R)) as Hl. unfold live_peers in Hl.
  erewrite filter_ext; [exact Hl|]. intros p. unfold live, untouched. rewrite Hbc. reflexivity.
Qed.

(* once an End call has returned, Close has begun on every peer ever caught *)
Lemma end_begins_all : forall v max s i p, lreachable v FlagFirst max s ->
  nth_error (ends (lp s)) i = Some E_Done -> p < next_peer (lp s) -> begun s p = true.
Proof.
  intros v max s i p R Hd Hp. destruct (lreach_life _ _ _ R) as [Hbc _].
  destruct (end_done_facts _ _ _ _ (lreach_proj _ _ _ R) Hd) as (Ha & _). rewrite Hbc. apply Ha. exact Hp.
Qed.

(* the peers End itself closes are torn down when its step is over *)
Lemma end_tears_down : forall v o s i s' p, lstep v o s (LL_P (End_closepeers i)) = Some s' ->
  In p (active (lp s)) -> closedf (lp s) p = false -> begun s' p = true /\ torn s' p = true.
Proof.
  intros v o s i s' p H Hi Hc. lstep_inv H. cbn [begun torn].
  assert (Hin : In p (end_closes s)).
  { unfold end_closes. apply filter_In. split; [exact Hi|]. unfold live. rewrite Hc. reflexivity. }
  split; apply close_all_in; exact Hin.
Qed.

(* ---------------------------------------------------------------- the order matters *)

Definition trace_flag_last : list llabel :=
  map LL_P (collect_ok ++ collect_ok) ++ [LL_CloseBegin 0; LL_P Pop_call; LL_P (Pop_recv 0); LL_P (Pop_check 0)].

(* cleanup() before close(c.closed): Pop hands the data path the spare whose teardown is in progress *)
Lemma flag_last_pop_refuted : exists s, lrun V1 FlagLast (linit 2) trace_flag_last = Some s /\
  nth_error (pops (lp s)) 0 = Some (P_Ret (Some 0)) /\ begun s 0 = true /\ torn s 0 = false.
Proof. eexists. split; [vm_compute; reflexivity|]. vm_compute. repeat split. Qed.

(* the same schedule on the code's order: Pop skips peer 0 and returns the other spare *)
Lemma flag_first_pop_skips : exists s, lrun V1 FlagFirst (linit 2) (trace_flag_last ++ [LL_P (Pop_recv 0); LL_P (Pop_check 0)]) = Some s /\
  lreachable V1 FlagFirst 2 s /\
  nth_error (pops (lp s)) 0 = Some (P_Ret (Some 1)) /\ begun s 0 = true /\ torn s 0 = false /\ begun s 1 = false.
Proof.
  destruct (lrun V1 FlagFirst (linit 2) (trace_flag_last ++ [LL_P (Pop_recv 0); LL_P (Pop_check 0)])) as [s|] eqn:E;
    [|vm_compute in E; discriminate].
  exists s. split; [reflexivity|]. split; [eapply lrun_reachable; [apply lreach_init|exact E]|].
  vm_compute in E. inversion E; subst. vm_compute. repeat split.
Qed.

(* a quiet peer in use, Max 1: the purge keeps it and Collect is refused *)
Definition trace_quiet : list llabel :=
  map LL_P collect_ok ++ [LL_P Pop_call; LL_P (Pop_recv 0); LL_P (Pop_check 0); LL_Quiet 0; LL_P Col_lock].

Lemma quiet_example : exists s s', lrun V1 FlagFirst (linit 1) trace_quiet = Some s /\ lreachable V1 FlagFirst 1 s /\
  quiet s 0 = true /\ begun s 0 = false /\ melted (lp s) = false /\ In 0 (active (lp s)) /\
  lstep V1 FlagFirst s (LL_P Col_check) = Some s' /\ col (lp s') = C_Unlock R_AtCap.
Proof.
  destruct (lrun V1 FlagFirst (linit 1) trace_quiet) as [s|] eqn:E; [|vm_compute in E; discriminate].
  exists s. eexists. split; [reflexivity|]. split; [eapply lrun_reachable; [apply lreach_init|exact E]|].
  vm_compute in E. inversion E; subst. vm_compute. repeat split. left. reflexivity.
Qed.

(* End while somebody else's Close of peer 0 is inside its teardown: End returns without waiting for it (peer 0 is
   purged by Count()), peer 1 is closed and torn down by End itself *)
Definition trace_end_life : list llabel :=
  map LL_P (collect_ok ++ collect_ok) ++ [LL_CloseBegin 0] ++
  map LL_P [End_call; End_once 0; End_melt 0; End_lock 0; End_closechan 0; End_closepeers 0; End_unlock 0; End_finish 0].

Lemma end_life_example : exists s, lrun V1 FlagFirst (linit 2) trace_end_life = Some s /\ lreachable V1 FlagFirst 2 s /\
  nth_error (ends (lp s)) 0 = Some E_Done /\ next_peer (lp s) = 2 /\
  begun s 0 = true /\ torn s 0 = false /\ begun s 1 = true /\ torn s 1 = true.
Proof.
  destruct (lrun V1 FlagFirst (linit 2) trace_end_life) as [s|] eqn:E; [|vm_compute in E; discriminate].
  exists s. split; [reflexivity|]. split; [eapply lrun_reachable; [apply lreach_init|exact E]|].
  vm_compute in E. inversion E; subst. vm_compute. repeat split.
Qed.
