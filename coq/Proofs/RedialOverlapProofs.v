(* RedialOverlapProofs.v — "at most one carrier active", stated at the moment of a dial.

   What "closed" means in Model/Redial.v: c_nclose changes in exactly one step, LDCloseCarrier,
   which is a step of the dial loop itself, taken in DClose k (exchange has returned) and leading to
   DTop (close_is_dial_loop_step).  The dial loop is sequential: it reaches DDial, where
   dialContext can return, only through that step.  So LDCloseCarrier stands for the RETURN of
   conn.Close() in dialLoop: a Close that takes long is this step scheduled late (every other
   thread may move in between; a pending ReadFrom/WriteTo may fail at any time anyway), and the
   model's "c_closed c = true" is "Close() on the carrier has returned".  A dial loop that closes
   the finished carrier in another goroutine (`go conn.Close()`) is NOT this machine: the count
   would change by a step that is not the dial loop's.  The driver checks this reading on the code
   with carriers whose Close() blocks until the script releases it (turbotunnel redials, token K<k>). *)
From Coq Require Import List Arith Bool Lia.
From Snow Require Import Model.Redial Proofs.RedialProofs.
Import ListNotations.

Lemma dial_ok_inv : forall ecap qcap s s', step ecap qcap s LDialOk = Some s' ->
  r_d s = DDial /\ r_cs s' = r_cs s ++ [mkcar RTop WSel ch_new ch_new 0] /\ r_d s' = DExch (length (r_cs s)).
Proof.
  intros ecap qcap s s' H. unfold step in H.
  destruct (r_d s) eqn:E; try discriminate.
  inversion H; subst. simpl. auto.
Qed.

(* when dialContext hands out a carrier, every carrier obtained earlier is closed (its Close has
   returned), and afterwards the new carrier is the only one that is open *)
Theorem redial_no_open_carrier_at_dial :
  forall ecap qcap s s', reachable ecap qcap s -> step ecap qcap s LDialOk = Some s' ->
    (forall k c, nth_error (r_cs s) k = Some c -> c_closed c = true) /\
    (exists c', nth_error (r_cs s') (length (r_cs s)) = Some c' /\ c_closed c' = false) /\
    (forall k c, nth_error (r_cs s') k = Some c -> c_closed c = false -> k = length (r_cs s)).
Proof.
  intros ecap qcap s s' Hr Hs.
  destruct (dial_ok_inv _ _ _ _ Hs) as (Hd & Hcs & Hd').
  split; [|split].
  - intros k c Hn. eapply redial_done_all_closed; eauto.
  - exists (mkcar RTop WSel ch_new ch_new 0). split; [|reflexivity].
    rewrite Hcs, nth_error_app2 by lia. rewrite Nat.sub_diag. reflexivity.
  - intros k c Hn Hc.
    pose proof (reachable_step _ _ _ _ _ Hr Hs) as Hr'.
    destruct (redial_one_active_carrier _ _ _ _ _ Hr' Hn Hc) as [A|A]; rewrite Hd' in A; congruence.
Qed.

(* the close count of a carrier changes only by the dial loop's own step between exchange and the
   next iteration (no other thread, no other moment), and by one *)
Theorem redial_close_is_dial_loop_step :
  forall ecap qcap s l s' k c c', step ecap qcap s l = Some s' ->
    nth_error (r_cs s) k = Some c -> nth_error (r_cs s') k = Some c' -> c_nclose c' <> c_nclose c ->
    l = LDCloseCarrier /\ r_d s = DClose k /\ r_d s' = DTop /\ c_nclose c' = S (c_nclose c).
Proof.
  intros ecap qcap s l s' k c c' Hs Hn Hn' Hne.
  destruct s as [cl er d cs sq rq gc gd]. simpl in *.
  destruct l; step_cases Hs; simpl in Hn'.
  (* steps that leave the carrier list alone *)
  all: try (match type of Hn' with
            | nth_error (upd _ _ _) _ = Some _ => idtac
            | nth_error (_ ++ _) _ = Some _ => idtac
            | _ => rewrite Hn in Hn'; inversion Hn'; subst c'; clear Hn'; exfalso; apply Hne; reflexivity
            end; fail).
  (* a dial appends a carrier *)
  all: try (match type of Hn' with
            | nth_error (_ ++ _) _ = Some _ =>
                rewrite nth_error_app1 in Hn' by (eapply nth_error_lt; eauto);
                rewrite Hn in Hn'; inversion Hn'; subst c'; clear Hn'; exfalso; apply Hne; reflexivity
            end).
  (* steps that update one carrier *)
  all: rewrite nth_error_upd in Hn';
       match type of Hn' with context [Nat.eqb ?a ?b] => destruct (Nat.eqb_spec a b) as [Heq|Hneq] end;
       [ subst;
         match goal with Hk : nth_error ?l ?j = Some ?x, Hm : nth_error ?l ?j = Some ?y |- _ =>
           assert_fails (constr_eq x y); rewrite Hk in Hm; inversion Hm; subst; clear Hm end;
         match goal with Hk : nth_error _ _ = Some _ |- _ => rewrite Hk in Hn' end;
         inversion Hn'; subst c'; clear Hn'
       | rewrite Hn in Hn'; inversion Hn'; subst c'; clear Hn'; exfalso; apply Hne; reflexivity ];
       destruct_carriers; simpl in *;
       first [ exfalso; apply Hne; reflexivity | repeat split; auto ].
Qed.

(* consequently: between two dials the dial loop closed the carrier it served.  In a run, a
   successful dial in a state with carriers is preceded by the close step of the last carrier. *)
Corollary redial_last_carrier_closed_before_next_dial :
  forall ecap qcap s s' c, reachable ecap qcap s -> step ecap qcap s LDialOk = Some s' ->
    nth_error (r_cs s) (length (r_cs s) - 1) = Some c -> c_nclose c = 1.
Proof.
  intros ecap qcap s s' c Hr Hs Hn.
  destruct (redial_no_open_carrier_at_dial _ _ _ _ Hr Hs) as (Hall & _).
  pose proof (Hall _ _ Hn) as Hc. apply c_closed_true in Hc.
  pose proof (redial_closed_once _ _ _ _ _ Hr Hn). lia.
Qed.
