(* SessDescPeerProofs.v — proofs about Model/SessDescPeer.v (C13: remoteIPFromSDP cannot panic). *)
From Coq Require Import List NArith Bool Lia Arith.
From Snow Require Import Lib.Wire Model.IpClass Model.SdpStrip Model.SessDescPeer.
From Snow Require Import Proofs.IpClassProofs Proofs.SdpStripProofs.
Import ListNotations.
Open Scope N_scope.

Definition is_panic (r : pres) : bool := match r with PPanic _ => true | PVal _ => false end.

(* ---------------------------------------------------------------- each loop, under its contract *)

Lemma scan_attrs_safe : forall l, forallb pattr_ok l = true ->
  forall r, scan_attrs CODE l = Some r -> is_panic r = false.
Proof.
  induction l as [|a l IH]; intros Hok r H; cbn [scan_attrs] in H; [discriminate|].
  cbn [forallb] in Hok. apply andb_true_iff in Hok. destruct Hok as [Ha Hl].
  destruct a as [u|]; [|apply (IH Hl r H)].
  cbn [CODE g_err andb] in H. destruct (uc_err u) eqn:Ee; [apply (IH Hl r H)|].
  cbn [pattr_ok] in Ha. unfold ucand_ok in Ha. rewrite Ee in Ha. cbn [orb] in Ha.
  destruct (uc_c u) as [[t addr]|]; [|discriminate].
  destruct addr as [ip|]; [|apply (IH Hl r H)].
  destruct (negb (bad_addr ip)); [inversion H; reflexivity|apply (IH Hl r H)].
Qed.

Lemma scan_media_safe : forall ms, forallb pmedia_ok ms = true ->
  forall r, scan_media CODE ms = Some r -> is_panic r = false.
Proof.
  induction ms as [|m ms IH]; intros Hok r H; cbn [scan_media] in H; [discriminate|].
  cbn [forallb] in Hok. apply andb_true_iff in Hok. destruct Hok as [Hm Hms].
  destruct m as [attrs|]; [|discriminate]. cbn [pmedia_ok] in Hm.
  destruct (scan_attrs CODE attrs) as [r0|] eqn:E.
  - inversion H; subst r0. apply (scan_attrs_safe attrs Hm r E).
  - apply (IH Hms r H).
Qed.

Lemma scan_patterns_safe : forall caps, forallb submatch_ok caps = true -> is_panic (scan_patterns CODE caps) = false.
Proof.
  induction caps as [|c caps IH]; intros Hok; cbn [scan_patterns]; [reflexivity|].
  cbn [forallb] in Hok. apply andb_true_iff in Hok. destruct Hok as [Hc Hcaps].
  destruct c as [|l]; [cbn [CODE g_match]; apply (IH Hcaps)|].
  cbn [submatch_ok] in Hc. apply Nat.eqb_eq in Hc.
  destruct l as [|x0 [|x1 l']]; cbn [List.length] in Hc; try lia.
  cbn [nth_error]. destruct x1 as [ip|]; [|apply (IH Hcaps)].
  destruct (negb (bad_addr ip)); [reflexivity|apply (IH Hcaps)].
Qed.

(* Panic is unreachable for every input the libraries can produce *)
Lemma remote_ip_code_never_panics : forall parsed caps,
  lib_contract parsed caps = true -> forall w, remote_ip_code parsed caps <> PPanic w.
Proof.
  intros parsed caps Hc w H. unfold lib_contract in Hc. apply andb_true_iff in Hc. destruct Hc as [Hp Hcaps].
  unfold remote_ip_code, remote_ip_g in H. destruct parsed as [ms|]; [|discriminate].
  destruct (scan_media CODE ms) as [r|] eqn:E.
  - pose proof (scan_media_safe ms Hp r E) as Hs. subst r. discriminate.
  - pose proof (scan_patterns_safe caps Hcaps) as Hs. rewrite H in Hs. discriminate.
Qed.

(* a text pion/sdp rejects never reaches any partial operation, whatever the other libraries would do *)
Lemma remote_ip_code_unparsable : forall g caps, remote_ip_g g None caps = PVal None.
Proof. reflexivity. Qed.

(* ---------------------------------------------------------------- the checks are what makes it so:
   without either of them there is an input, allowed by the contract, on which the function panics *)

Lemma err_check_needed :
  let parsed := Some [Some [PCand (mkUcand None true)]] in
  lib_contract parsed [] = true
  /\ remote_ip_g (mkGuards false true) parsed [] = PPanic WNilCandidate
  /\ remote_ip_code parsed [] = PVal None.
Proof. repeat split; reflexivity. Qed.

Lemma match_check_needed :
  lib_contract (Some []) [SNil] = true
  /\ remote_ip_g (mkGuards true false) (Some []) [SNil] = PPanic WIndex
  /\ remote_ip_code (Some []) [SNil] = PVal None.
Proof. repeat split; reflexivity. Qed.

(* and the contract clauses are needed: these are the inputs the Go types allow and the code does
   not defend against (it relies on the libraries) *)
Lemma contract_needed :
  remote_ip_code (Some [None]) [] = PPanic WNilMedia
  /\ remote_ip_code (Some [Some [PCand (mkUcand None false)]]) [] = PPanic WNilCandidate
  /\ remote_ip_code (Some []) [SSlice [None]] = PPanic WIndex.
Proof. repeat split; reflexivity. Qed.

(* ---------------------------------------------------------------- projection onto SdpStrip.remote_ip *)

Lemma first_remote_app : forall l1 l2,
  first_remote (l1 ++ l2) = match first_remote l1 with Some ip => Some ip | None => first_remote l2 end.
Proof.
  induction l1 as [|a l1 IH]; intros l2; cbn [app first_remote]; [reflexivity|].
  destruct (a_class a) as [t addr| |]; try apply IH.
  destruct addr as [ip|]; [|apply IH]. destruct (negb (bad_addr ip)); [reflexivity|apply IH].
Qed.

Lemma scan_attrs_erase : forall l, forallb pattr_ok l = true ->
  scan_attrs CODE l = option_map (fun ip => PVal (Some ip)) (first_remote (map erase_attr l)).
Proof.
  induction l as [|a l IH]; intros Hok; cbn [scan_attrs map first_remote]; [reflexivity|].
  cbn [forallb] in Hok. apply andb_true_iff in Hok. destruct Hok as [Ha Hl]. specialize (IH Hl).
  destruct a as [[c err]|]; cbn [erase_attr a_class]; [|exact IH].
  cbn [CODE g_err andb uc_err uc_c]. destruct err.
  - destruct c as [[t addr]|]; cbn [a_class]; exact IH.
  - cbn [pattr_ok] in Ha. unfold ucand_ok in Ha. cbn [uc_err uc_c orb] in Ha.
    destruct c as [[t addr]|]; [|discriminate]. cbn [a_class].
    destruct addr as [ip|]; [|exact IH]. destruct (negb (bad_addr ip)); [reflexivity|exact IH].
Qed.

Lemma scan_media_erase : forall ms, forallb pmedia_ok ms = true ->
  scan_media CODE ms = option_map (fun ip => PVal (Some ip)) (first_remote (concat (map erase_media ms))).
Proof.
  induction ms as [|m ms IH]; intros Hok; cbn [scan_media map concat]; [reflexivity|].
  cbn [forallb] in Hok. apply andb_true_iff in Hok. destruct Hok as [Hm Hms]. specialize (IH Hms).
  destruct m as [attrs|]; [|discriminate]. cbn [pmedia_ok] in Hm. cbn [erase_media].
  rewrite first_remote_app, (scan_attrs_erase attrs Hm).
  destruct (first_remote (map erase_attr attrs)); cbn [option_map]; [reflexivity|exact IH].
Qed.

Lemma scan_patterns_erase : forall caps, forallb submatch_ok caps = true ->
  scan_patterns CODE caps = PVal (first_remote_pattern (map erase_cap caps)).
Proof.
  induction caps as [|c caps IH]; intros Hok; cbn [scan_patterns map first_remote_pattern]; [reflexivity|].
  cbn [forallb] in Hok. apply andb_true_iff in Hok. destruct Hok as [Hc Hcaps]. specialize (IH Hcaps).
  destruct c as [|l]; cbn [erase_cap]; [cbn [CODE g_match]; exact IH|].
  cbn [submatch_ok] in Hc. apply Nat.eqb_eq in Hc.
  destruct l as [|x0 [|x1 l']]; cbn [List.length] in Hc; try lia. cbn [nth_error].
  destruct x1 as [ip|]; [|exact IH]. destruct (negb (bad_addr ip)); [reflexivity|exact IH].
Qed.

(* under the contract the fine model computes exactly the coarse one *)
Lemma remote_ip_code_refines : forall parsed caps, lib_contract parsed caps = true ->
  remote_ip_code parsed caps = PVal (remote_ip (erase parsed) (map erase_cap caps)).
Proof.
  intros parsed caps Hc. unfold lib_contract in Hc. apply andb_true_iff in Hc. destruct Hc as [Hp Hcaps].
  unfold remote_ip_code, remote_ip_g, remote_ip, erase. destruct parsed as [ms|]; cbn [option_map]; [|reflexivity].
  rewrite (scan_media_erase ms Hp). destruct (first_remote (concat (map erase_media ms))); cbn [option_map]; [reflexivity|].
  apply (scan_patterns_erase caps Hcaps).
Qed.

(* value or nil, never a panic, and a returned address is never local / unspecified / loopback *)
Lemma remote_ip_code_total : forall parsed caps, lib_contract parsed caps = true ->
  remote_ip_code parsed caps = PVal None
  \/ exists ip, remote_ip_code parsed caps = PVal (Some ip)
       /\ is_local ip = false /\ is_unspecified ip = false /\ is_loopback ip = false.
Proof.
  intros parsed caps Hc. rewrite (remote_ip_code_refines parsed caps Hc).
  destruct (remote_ip_total (erase parsed) (map erase_cap caps)) as [E|[ip [E H]]]; rewrite E.
  - left. reflexivity.
  - right. exists ip. split; [reflexivity|exact H].
Qed.

(* RemoteAddr: given a remote description, no panic either *)
Lemma remote_addr_safe : forall parsed caps, lib_contract parsed caps = true ->
  exists ip, remote_addr (Some (parsed, caps)) = AVal ip.
Proof.
  intros parsed caps Hc. unfold remote_addr. destruct (remote_ip_code parsed caps) as [ip|w] eqn:E.
  - exists ip. reflexivity.
  - exfalso. apply (remote_ip_code_never_panics parsed caps Hc w E).
Qed.

Lemma remote_addr_needs_remote_description : remote_addr None = APanicNoRemote.
Proof. reflexivity. Qed.
