(* JournalConcProofs.v — the journal writer under concurrent callers (Model/JournalConc.v):
   with the mutex every schedule is a sequential run of the completed calls; without it an address is lost. *)
From Coq Require Import List ZArith NArith Lia Bool Arith.
From Coq Require Import ZifyN ZifyNat ZifyBool.
From Snow Require Import Model.Journal Model.Round8 Model.JournalConc Proofs.Round8Proofs Proofs.JournalProofs.
Import ListNotations.
Open Scope Z_scope.

Section JournalConcProofs.
  Variables addr hash : Type.
  Variable mask : addr -> hash.
  Variable heqb : hash -> hash -> bool.
  Variables t0 int : Z.

  Notation jrun := (jrun addr hash mask heqb).
  Notation add := (add addr hash mask heqb).
  Notation flush := (flush hash).
  Notation sk_add := (sk_add hash heqb).
  Notation mono := (mono addr).
  Notation op_time := (op_time addr).
  Notation cstep := (cstep addr hash mask heqb).
  Notation crun := (crun addr hash mask heqb).
  Notation cst := (cst addr hash).
  Notation jpc := (jpc addr).

  Definition last_time (h : list (jop addr)) : Z := fold_left (fun _ o => op_time o) h t0.

  Lemma mono_snoc_gen : forall h t o,
    mono t (h ++ [o]) <-> mono t h /\ fold_left (fun _ o => op_time o) h t <= op_time o.
  Proof.
    induction h as [|x h IH]; intros t o; cbn [app JournalProofs.mono fold_left].
    - tauto.
    - rewrite IH. tauto.
  Qed.
  Lemma mono_snoc : forall h o, mono t0 (h ++ [o]) <-> mono t0 h /\ last_time h <= op_time o.
  Proof. intros. apply mono_snoc_gen. Qed.
  Lemma last_time_snoc : forall h o, last_time (h ++ [o]) = op_time o.
  Proof. intros. unfold last_time. rewrite fold_left_app. reflexivity. Qed.
  Lemma jrun_snoc : forall h o w, jrun (h ++ [o]) w = japply addr hash mask heqb (jrun h w) o.
  Proof. intros. unfold Journal.jrun. rewrite fold_left_app. reflexivity. Qed.

  (* ---------- the invariant of the machine WITH the mutex ---------- *)
  Definition waiting (p : jpc) : Prop := p = JI \/ exists c, p = JWant c.

  Definition put (ip : addr) (w : writer hash) : writer hash :=
    {| w_last := w_last w; w_int := w_int w; w_cur := sk_add (w_cur w) (mask ip); w_out := w_out w |}.
  Definition written (now : Z) (w : writer hash) : writer hash :=
    {| w_last := w_last w; w_int := w_int w; w_cur := w_cur w;
       w_out := w_out w ++ [{| c_start := w_last w; c_end := now; c_sk := w_cur w |}] |}.

  (* what the thread inside the critical section has done so far, relative to the sequential writer W run on the
     completed calls *)
  Definition holder_ok (w : writer hash) (h : list (jop addr)) (clk : Z) (p : jpc) : Prop :=
    let W := jrun h (new_writer t0 int) in
    match p with
    | JI | JWant _ => False
    | JCheck _ | JU => w = W
    | JW1 None => w = W
    | JW1 (Some _) => w = W /\ w_last W + w_int W < clk
    | JW2 now k => w = written now W /\ last_time h <= now <= clk /\
                   match k with Some _ => w_last W + w_int W < now | None => True end
    | JPut now ip => put ip w = add now ip W /\ last_time h <= now <= clk
    end.

  Record CJinv (s : cst) : Prop := {
    cj_mono : mono t0 (c_hist s);
    cj_clk : last_time (c_hist s) <= c_clk s;
    cj_lock : match c_lock s with
              | None => c_w s = jrun (c_hist s) (new_writer t0 int) /\ forall j, waiting (c_pc s j)
              | Some i => (forall j, j <> i -> waiting (c_pc s j)) /\ holder_ok (c_w s) (c_hist s) (c_clk s) (c_pc s i)
              end }.

  Lemma CJinv_init : CJinv (cinit t0 int).
  Proof.
    constructor; cbn [cinit c_hist c_clk c_lock c_w c_pc JournalProofs.mono].
    - exact I.
    - unfold last_time. cbn. lia.
    - split; [reflexivity | intro j; left; reflexivity].
  Qed.

  Lemma not_waiting_holder : forall (s : cst) i, CJinv s -> ~ waiting (c_pc s i) ->
    c_lock s = Some i /\ (forall j, j <> i -> waiting (c_pc s j)) /\ holder_ok (c_w s) (c_hist s) (c_clk s) (c_pc s i).
  Proof.
    intros s i [Hm Hc Hl] Hn. destruct (c_lock s) as [h|].
    - destruct Hl as [Ho Hh]. destruct (Nat.eq_dec i h) as [->|Hne]; [auto|]. exfalso. apply Hn. apply Ho. exact Hne.
    - destruct Hl as [_ Ha]. exfalso. apply Hn. apply Ha.
  Qed.

  Lemma holder_ok_tick : forall w h clk clk' p, clk <= clk' -> holder_ok w h clk p -> holder_ok w h clk' p.
  Proof.
    intros w h clk clk' p Hle H. destruct p as [|c|ip|[ip|]|now k|now ip|]; cbn [holder_ok] in *; try exact H.
    - destruct H as [H1 H2]. split; [exact H1 | lia].
    - destruct H as [H1 [H2 H3]]. split; [exact H1 | split; [lia | exact H3]].
    - destruct H as [H1 H2]. split; [exact H1 | lia].
  Qed.

  (* the holder moves: everything else stays *)
  Lemma CJinv_holder_move : forall (s : cst) i w' h' p',
    (forall j, j <> i -> waiting (c_pc s j)) ->
    mono t0 h' -> last_time h' <= c_clk s -> holder_ok w' h' (c_clk s) p' ->
    CJinv {| c_w := w'; c_clk := c_clk s; c_lock := Some i; c_pc := upd (c_pc s) i p'; c_hist := h' |}.
  Proof.
    intros s i w' h' p' Ho Hm Hc Hh. constructor; cbn [c_hist c_clk c_lock c_w c_pc]; [exact Hm | exact Hc |].
    split.
    - intros j Hj. rewrite upd_other by exact Hj. apply Ho. exact Hj.
    - rewrite upd_same. exact Hh.
  Qed.

  Lemma waiting_dec_false : forall p : jpc, match p with JI | JWant _ => False | _ => True end -> ~ waiting p.
  Proof. intros p H [E|[c E]]; subst; exact H. Qed.

  Lemma CJinv_step : forall (s : cst) e, CJinv s -> CJinv (cstep true s e).
  Proof.
    intros s e HI. destruct e as [d|i c|i]; cbn [JournalConc.cstep].
    - (* the clock advances *)
      destruct HI as [Hm Hc Hl]. constructor; cbn [c_hist c_clk c_lock c_w c_pc]; [exact Hm | lia |].
      destruct (c_lock s) as [h|]; [|exact Hl]. destruct Hl as [Ho Hh]. split; [exact Ho|].
      apply (holder_ok_tick _ _ (c_clk s)); [lia | exact Hh].
    - (* a thread is given a call *)
      destruct (c_pc s i) eqn:Epc; try exact HI. unfold set_pc.
      destruct HI as [Hm Hc Hl]. constructor; cbn [c_hist c_clk c_lock c_w c_pc]; [exact Hm | exact Hc |].
      destruct (c_lock s) as [h|].
      + destruct Hl as [Ho Hh]. assert (Hne : i <> h).
        { intro E. subst h. rewrite Epc in Hh. exact Hh. }
        split.
        * intros j Hj. destruct (Nat.eq_dec j i) as [->|Hji]; [rewrite upd_same; right; eexists; reflexivity|].
          rewrite upd_other by exact Hji. apply Ho. exact Hj.
        * rewrite upd_other by (intro E; apply Hne; symmetry; exact E). exact Hh.
      + destruct Hl as [Hw Ha]. split; [exact Hw|]. intro j.
        destruct (Nat.eq_dec j i) as [->|Hji]; [rewrite upd_same; right; eexists; reflexivity|].
        rewrite upd_other by exact Hji. apply Ha.
    - (* a thread takes a step *)
      destruct (c_pc s i) as [|c|ip|k|now k|now ip|] eqn:Epc.
      + exact HI.
      + (* Lock() *)
        destruct (c_lock s) as [h|] eqn:El; [exact HI|].
        destruct HI as [Hm Hc Hl]. rewrite El in Hl. destruct Hl as [Hw Ha].
        apply (CJinv_holder_move s i); [intros j _; apply Ha | exact Hm | exact Hc |].
        destruct c as [ip|]; cbn [entry holder_ok]; exact Hw.
      + (* the interval test *)
        destruct (not_waiting_holder s i HI) as [El [Ho Hh]]; [rewrite Epc; apply waiting_dec_false; exact I|].
        rewrite Epc in Hh. cbn [holder_ok] in Hh. destruct HI as [Hm Hc _].
        destruct (w_last (c_w s) + w_int (c_w s) <? c_clk s) eqn:E; unfold set_pc; rewrite El.
        * apply (CJinv_holder_move s i); [exact Ho | exact Hm | exact Hc |]. cbn [holder_ok].
          split; [exact Hh | rewrite <- Hh; lia].
        * apply (CJinv_holder_move s i); [exact Ho | exact Hm | exact Hc |]. cbn [holder_ok].
          split; [|lia]. unfold Journal.add. rewrite <- Hh, E. reflexivity.
      + (* Dump and Write *)
        destruct (not_waiting_holder s i HI) as [El [Ho Hh]]; [rewrite Epc; apply waiting_dec_false; exact I|].
        rewrite Epc in Hh. destruct HI as [Hm Hc _]. rewrite El.
        apply (CJinv_holder_move s i); [exact Ho | exact Hm | exact Hc |]. cbn [holder_ok].
        destruct k as [ip|]; cbn [holder_ok] in Hh.
        * destruct Hh as [Hw Hlt]. split; [rewrite Hw; reflexivity | split; [lia | exact Hlt]].
        * split; [rewrite Hh; reflexivity | split; [lia | exact I]].
      + (* lastWriteTime = now; Reset *)
        destruct (not_waiting_holder s i HI) as [El [Ho Hh]]; [rewrite Epc; apply waiting_dec_false; exact I|].
        rewrite Epc in Hh. cbn [holder_ok] in Hh. destruct Hh as [Hw [Hn Hk]]. destruct HI as [Hm Hc _]. rewrite El.
        assert (Hfl : {| w_last := now; w_int := w_int (c_w s); w_cur := []; w_out := w_out (c_w s) |} =
                      flush now (jrun (c_hist s) (new_writer t0 int))).
        { rewrite Hw. reflexivity. }
        rewrite Hfl. destruct k as [ip|].
        * apply (CJinv_holder_move s i); [exact Ho | exact Hm | exact Hc |]. cbn [holder_ok]. split; [|exact Hn].
          unfold Journal.add. assert (E : w_last (jrun (c_hist s) (new_writer t0 int)) + w_int (jrun (c_hist s) (new_writer t0 int)) <? now = true) by lia.
          rewrite E. reflexivity.
        * apply (CJinv_holder_move s i); [exact Ho | | |].
          -- apply mono_snoc. split; [exact Hm | cbn [JournalProofs.op_time]; lia].
          -- rewrite last_time_snoc. cbn [JournalProofs.op_time]. lia.
          -- cbn [holder_ok]. rewrite jrun_snoc. reflexivity.
      + (* the sketch takes the address *)
        destruct (not_waiting_holder s i HI) as [El [Ho Hh]]; [rewrite Epc; apply waiting_dec_false; exact I|].
        rewrite Epc in Hh. cbn [holder_ok] in Hh. destruct Hh as [Hw Hn]. destruct HI as [Hm Hc _]. rewrite El.
        apply (CJinv_holder_move s i); [exact Ho | | |].
        * apply mono_snoc. split; [exact Hm | cbn [JournalProofs.op_time]; lia].
        * rewrite last_time_snoc. cbn [JournalProofs.op_time]. lia.
        * cbn [holder_ok]. rewrite jrun_snoc. cbn [Journal.japply]. exact Hw.
      + (* Unlock() *)
        destruct (not_waiting_holder s i HI) as [El [Ho Hh]]; [rewrite Epc; apply waiting_dec_false; exact I|].
        rewrite Epc in Hh. cbn [holder_ok] in Hh. destruct HI as [Hm Hc _].
        constructor; cbn [c_hist c_clk c_lock c_w c_pc]; [exact Hm | exact Hc |]. split; [exact Hh|].
        intro j. destruct (Nat.eq_dec j i) as [->|Hji]; [rewrite upd_same; left; reflexivity|].
        rewrite upd_other by exact Hji. apply Ho. exact Hji.
  Qed.

  Lemma CJinv_run : forall evs s, CJinv s -> CJinv (crun true evs s).
  Proof.
    induction evs as [|e evs IH]; intros s HI; cbn [JournalConc.crun fold_left]; [exact HI|].
    apply IH. apply CJinv_step. exact HI.
  Qed.

  Lemma CJinv_reach : forall evs, CJinv (crun true evs (cinit t0 int)).
  Proof. intro evs. apply CJinv_run. apply CJinv_init. Qed.

  (* ---------- what it gives ---------- *)
  (* Serialisability: for EVERY schedule, whenever the mutex is free the writer's state is that of the sequential
     writer run on the completed calls (in completion order = order of lock acquisitions), whose clock readings never
     go backwards; and a thread that is not waiting for the mutex holds it (so when all are outside it is free). *)
  Lemma conc_serial : forall evs,
    let s := crun true evs (cinit t0 int) in
    mono t0 (c_hist s) /\
    (c_lock s = None -> c_w s = jrun (c_hist s) (new_writer t0 int)) /\
    ((forall j, c_pc s j = JI) -> c_lock s = None).
  Proof.
    intros evs s. destruct (CJinv_reach evs) as [Hm Hc Hl]. fold s in Hm, Hc, Hl.
    split; [exact Hm|]. split.
    - intro El. rewrite El in Hl. apply Hl.
    - intro Ha. destruct (c_lock s) as [h|]; [|reflexivity]. destruct Hl as [_ Hh]. rewrite Ha in Hh. destruct Hh.
  Qed.

  (* flush is atomic w.r.t. adds: nothing of another call happens between Dump and Reset.  While a thread is between
     the two halves of WriteIPSetToDisk (JW2), every other thread is outside or waiting for the mutex, the open sketch
     still is the one that was dumped, and lastWriteTime still is the chunk's start *)
  Lemma conc_flush_undisturbed : forall evs i now k,
    let s := crun true evs (cinit t0 int) in
    c_pc s i = JW2 now k ->
    (forall j, j <> i -> c_pc s j = JI \/ exists c, c_pc s j = JWant c) /\
    exists c, w_out (c_w s) = w_out (jrun (c_hist s) (new_writer t0 int)) ++ [c] /\
              c_sk c = w_cur (c_w s) /\ c_start c = w_last (c_w s) /\ c_end c = now /\
              w_cur (c_w s) = w_cur (jrun (c_hist s) (new_writer t0 int)).
  Proof.
    intros evs i now k s Epc. pose proof (CJinv_reach evs) as HI. fold s in HI.
    destruct (not_waiting_holder s i HI) as [El [Ho Hh]]; [rewrite Epc; apply waiting_dec_false; exact I|].
    rewrite Epc in Hh. cbn [holder_ok] in Hh. destruct Hh as [Hw _]. split; [exact Ho|].
    eexists. rewrite Hw. cbn [written w_out w_cur w_last c_sk c_start c_end]. repeat split; reflexivity.
  Qed.

  (* every completed RecordIPAddress is in exactly one chunk or in the open sketch (C19_journal_partition for the
     completed calls), under every schedule *)
  Lemma conc_records_every_call : forall evs,
    let s := crun true evs (cinit t0 int) in
    c_lock s = None ->
    exists (segs : list (list (Z * addr))) (open : list (Z * addr)),
      concat segs ++ open = flat_map (op_events addr) (c_hist s) /\
      Forall2 (chunk_ok addr hash mask heqb) (w_out (c_w s)) segs /\
      w_cur (c_w s) = sk_of hash heqb (masks addr hash mask open) /\
      Forall (fun e => w_last (c_w s) <= fst e) open /\
      tiled hash t0 (w_out (c_w s)) (w_last (c_w s)).
  Proof.
    intros evs s El. destruct (conc_serial evs) as [Hm [Hw _]]. fold s in Hm, Hw.
    rewrite (Hw El). apply (partition addr hash mask heqb t0 int (c_hist s) Hm).
  Qed.
End JournalConcProofs.

(* ---------- WITHOUT the mutex: a witness ---------- *)
(* interval 2.  Thread 0 records address 1 at instant 1.  At instant 5 thread 0 records address 2: the interval has
   elapsed, it dumps and writes chunk [0,5] = {1} and is now in the disk write.  At instant 6 thread 1 records
   address 3: lastWriteTime still is 0, so it writes the same sketch again as chunk [0,6], resets, adds 3, returns.
   Thread 0 comes back from the disk: lastWriteTime = 5, Reset - address 3 is gone - then adds 2.  A final flush at 9. *)
Definition lost_sched : list (cev N) :=
  [Tick 1; Call 0 (CPoll 1%N); Step 0; Step 0; Step 0; Step 0;
   Tick 4; Call 0 (CPoll 2%N); Step 0; Step 0; Step 0;
   Tick 1; Call 1 (CPoll 3%N); Step 1; Step 1; Step 1; Step 1; Step 1; Step 1;
   Step 0; Step 0; Step 0;
   Tick 3; Call 0 CFlush; Step 0; Step 0; Step 0; Step 0]%nat.

Lemma unlocked_loses_address :
  let s := crun N N (fun x => x) N.eqb false lost_sched (cinit 0 2) in
  cquiet N N 2 s = true /\
  c_hist s = [Add 1 1%N; Add 6 3%N; Add 5 2%N; Flush 9] /\
  map (fun c => (c_start c, c_end c, c_sk c)) (w_out (c_w s)) = [(0, 5, [1%N]); (0, 6, [1%N]); (5, 9, [2%N])] /\
  w_cur (c_w s) = [] /\
  existsb (fun c => existsb (N.eqb 3%N) (c_sk c)) (w_out (c_w s)) = false /\ existsb (N.eqb 3%N) (w_cur (c_w s)) = false.
Proof. cbv zeta. repeat split; reflexivity. Qed.

(* the same schedule WITH the mutex: thread 1 waits, nothing is lost *)
Lemma locked_same_schedule :
  let s := crun N N (fun x => x) N.eqb true (lost_sched ++ [Step 1; Step 1; Step 1; Step 1; Step 1]%nat) (cinit 0 2) in
  cquiet N N 2 s = true /\ c_lock s = None /\
  c_hist s = [Add 1 1%N; Add 5 2%N; Flush 9; Add 9 3%N] /\
  map (fun c => (c_start c, c_end c, c_sk c)) (w_out (c_w s)) = [(0, 5, [1%N]); (5, 9, [2%N])] /\
  w_cur (c_w s) = [3%N].
Proof. cbv zeta. repeat split; reflexivity. Qed.
