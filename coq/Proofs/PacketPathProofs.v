(* PacketPathProofs.v — composition for C01: what reaches the receiving KCP endpoint over a Snowflake
   carrier that may be cut at any byte offset and fragmented in any way is a prefix of the packets the
   sending endpoint wrote on that carrier — in both directions. Built on C09 (EncapProofs) and C05
   (CarrierProofs). *)
From Coq Require Import List NArith Bool Arith Lia.
From Snow Require Import Lib.Wire Model.Encap Proofs.EncapSweep Proofs.EncapProofs Model.CarrierLayer Proofs.CarrierProofs.
Import ListNotations.
Open Scope N_scope.

(* the bytes an honest sender puts on one carrier *)
Definition carrier_stream (cid : bytes) (w : bytes) : bytes := TOKEN ++ cid ++ w.

(* ---------- open_pump vs the script-free decoder ---------- *)

Lemma open_pump_decode : forall fuel b, (length b < fuel)%nat ->
  fst (fst (open_pump fuel b)) = fst (parse_stream fuel b).
Proof.
  induction fuel as [|f IH]; intros b Hf; [lia|].
  rewrite open_pump_S, parse_stream_S.
  destruct (parse_one b) as [isd d rest| | |] eqn:Ep; try reflexivity.
  pose proof (parse_one_shrinks _ _ _ _ Ep) as Hsh.
  specialize (IH rest ltac:(lia)).
  destruct (open_pump f rest) as [[ps t] dd]. destruct (parse_stream f rest) as [ds e].
  cbn [fst] in *. destruct isd; cbn [fst]; congruence.
Qed.

Lemma wire_chunks : forall ps w, wire_of ps = Some w ->
  exists cs, w = chunks_bytes cs /\ Forall chunk_wf cs /\ chunks_datas cs = ps.
Proof.
  intros ps w H. pose proof (wire_of_items_ok ps w H) as Hok.
  destruct (encode_items_chunks (map Data ps) Hok) as [cs [He [Hwf Hd]]].
  rewrite <- wire_of_encode, H in He. injection He as ->.
  exists cs. split; [reflexivity|]. split; [exact Hwf|]. rewrite Hd. apply datas_map_data.
Qed.

(* a cut framed stream yields a prefix of the packets, through the carrier read loop *)
Theorem open_pump_cut : forall ps w k, wire_of ps = Some w ->
  exists j, fst (fst (open_pump (S (length (firstn k w))) (firstn k w))) = firstn j ps.
Proof.
  intros ps w k H. destruct (wire_chunks ps w H) as [cs [-> [Hwf Hd]]].
  rewrite open_pump_decode by lia.
  destruct (truncation_prefix cs k Hwf) as [j [e [Hdec _]]].
  unfold decode_stream in Hdec. rewrite Hdec. cbn [fst]. exists j. rewrite Hd. reflexivity.
Qed.

(* and through any io.Reader on the client side (downstream direction) *)
Theorem reader_cut : forall ps w k sc, wire_of ps = Some w ->
  exists j e, read_stream (firstn k w) sc = (firstn j ps, e) /\ (e = EOF \/ e = UnexpectedEOF).
Proof.
  intros ps w k sc H. destruct (wire_chunks ps w H) as [cs [-> [Hwf Hd]]].
  rewrite read_stream_independent.
  destruct (truncation_prefix cs k Hwf) as [j [e [Hdec He]]].
  exists j, e. rewrite Hdec, Hd. split; [reflexivity | exact He].
Qed.

(* ---------- upstream: one carrier, cut anywhere ---------- *)

Definition fresh (s : bytes) : carrier := with_buf s new_carrier.
Definition kc (st : kstate) (cid buf : bytes) : carrier :=
  {| k_state := st; k_cid := cid; k_buf := buf; k_up := []; k_down := []; k_wire := [] |}.

Lemma pump_token_short f s : (length s < 8)%nat -> pump (S f) (fresh s) = (fresh s, []).
Proof.
  intros H. cbn [pump fresh with_buf new_carrier k_state k_buf].
  destruct (Nat.ltb_spec (length s) 8) as [_|Hc]; [reflexivity | lia].
Qed.

Lemma pump_token_ok f s : (8 <= length s)%nat -> firstn 8 s = TOKEN ->
  pump (S f) (fresh s) = pump f (kc K_ClientID [] (skipn 8 s)).
Proof.
  intros H Ht. cbn [pump fresh with_buf new_carrier k_state k_buf k_up k_down k_wire].
  destruct (Nat.ltb_spec (length s) 8) as [Hc|_]; [lia|]. rewrite Ht. reflexivity.
Qed.

Lemma pump_cid_short f b : (length b < 8)%nat -> pump (S f) (kc K_ClientID [] b) = (kc K_ClientID [] b, []).
Proof.
  intros H. cbn [pump kc k_state k_buf].
  destruct (Nat.ltb_spec (length b) 8) as [_|Hc]; [reflexivity | lia].
Qed.

Lemma pump_cid_ok f b : (8 <= length b)%nat ->
  pump (S f) (kc K_ClientID [] b) = pump f (kc K_Open (firstn 8 b) (skipn 8 b)).
Proof.
  intros H. cbn [pump kc k_state k_buf k_up k_down k_wire].
  destruct (Nat.ltb_spec (length b) 8) as [Hc|_]; [lia | reflexivity].
Qed.

Lemma pump_open_cut f cid ps w k : wire_of ps = Some w -> (length (firstn k w) < f)%nat ->
  exists k' j, pump f (kc K_Open cid (firstn k w)) = (k', firstn j ps) /\ k_up k' = firstn j ps /\ k_cid k' = cid.
Proof.
  intros Hw Hf. set (b := firstn k w) in *.
  pose proof (pump_is_open_pump f (kc K_Open cid b) eq_refl) as Hop. cbn [kc k_buf k_cid] in Hop.
  rewrite (open_pump_fuel f (S (length b)) b) in Hop by lia.
  destruct (open_pump_cut ps w k Hw) as [j Hj]. fold b in Hj.
  destruct (open_pump (S (length b)) b) as [[ps' t] dd]. cbn [fst] in Hj. subst ps'.
  destruct Hop as [k' [Hp [_ [_ Hcid]]]].
  destruct (pump_spec f (kc K_Open cid b)) as [k3 [ps3 [Hp3 Hok]]]. rewrite Hp in Hp3. injection Hp3 as <- <-.
  destruct Hok as [_ _ Hup _ _ _]. cbn in Hup.
  exists k', j. split; [exact Hp|]. split; [exact Hup | exact Hcid].
Qed.

Lemma firstn_app3 {A} k (a b c : list A) :
  firstn k (a ++ b ++ c) =
  firstn k a ++ firstn (k - length a) b ++ firstn (k - length a - length b) c.
Proof. rewrite firstn_app. f_equal. rewrite firstn_app. reflexivity. Qed.

(* A carrier whose upstream is an honest sender's stream cut at ANY byte offset: the server queues a prefix
   of the sender's packets, all under the sender's ClientID, and nothing else. *)
Theorem upstream_cut : forall cid ps w k,
  length cid = 8%nat -> wire_of ps = Some w ->
  let s := firstn k (carrier_stream cid w) in
  exists k' j, pump (S (S (S (length s)))) (fresh s) = (k', firstn j ps) /\ k_up k' = firstn j ps /\ (j <> 0%nat -> k_cid k' = cid).
Proof.
  intros cid ps w k Hc Hw s.
  assert (Hs : s = firstn k TOKEN ++ firstn (k - 8) cid ++ firstn (k - 8 - 8) w).
  { unfold s, carrier_stream. rewrite firstn_app3, Hc. reflexivity. }
  destruct (Nat.lt_ge_cases k 8) as [Hk8|Hk8].
  { assert (Ls : (length s < 8)%nat).
    { rewrite Hs. replace (k - 8)%nat with 0%nat by lia. cbn [firstn app]. rewrite app_nil_r, firstn_length. cbn. lia. }
    rewrite pump_token_short by exact Ls. exists (fresh s), 0%nat. repeat split. congruence. }
  assert (Hpre : s = TOKEN ++ firstn (k - 8) cid ++ firstn (k - 8 - 8) w)
    by (rewrite Hs, (firstn_all2 TOKEN) by (cbn; lia); reflexivity).
  assert (Ht : firstn 8 s = TOKEN) by (rewrite Hpre; reflexivity).
  assert (Hsk : skipn 8 s = firstn (k - 8) cid ++ firstn (k - 8 - 8) w) by (rewrite Hpre; reflexivity).
  assert (Ls8 : (8 <= length s)%nat) by (rewrite Hpre, app_length; cbn; lia).
  rewrite pump_token_ok by assumption. rewrite Hsk.
  destruct (Nat.lt_ge_cases k 16) as [Hk16|Hk16].
  { replace (k - 8 - 8)%nat with 0%nat by lia. cbn [firstn]. rewrite app_nil_r.
    rewrite pump_cid_short by (rewrite firstn_length; lia).
    eexists _, 0%nat. repeat split. congruence. }
  rewrite (firstn_all2 cid) by lia.
  rewrite pump_cid_ok by (rewrite app_length; lia).
  assert (Hf8 : firstn 8 (cid ++ firstn (k - 8 - 8) w) = cid)
    by (rewrite firstn_app_le by lia; apply firstn_all2; lia).
  assert (Hs8 : skipn 8 (cid ++ firstn (k - 8 - 8) w) = firstn (k - 8 - 8) w)
    by (rewrite skipn_app, Hc, Nat.sub_diag, (skipn_all2 cid) by lia; reflexivity).
  rewrite Hf8, Hs8.
  destruct (pump_open_cut (S (length s)) cid ps w (k - 8 - 8) Hw) as [k' [j [Hp [Hup Hcid]]]].
  { rewrite Hpre, !app_length. cbn. lia. }
  exists k', j. split; [exact Hp|]. split; [exact Hup | intros _; exact Hcid].
Qed.

(* ---------- the ARQ boundary ---------- *)

Lemma In_firstn_subset {A} j : forall (l : list A) x, In x (firstn j l) -> In x l.
Proof.
  induction j as [|j IH]; intros [|y l] x H; cbn [firstn] in H; try destruct H.
  - left. assumption.
  - right. apply IH. assumption.
Qed.


Definition is_prefix {A} (a b : list A) : Prop := exists c, b = a ++ c.

(* what the server queues from one carrier fed the cut stream *)
Definition queued_from (cid w : bytes) (k : nat) : list bytes :=
  let s := firstn k (carrier_stream cid w) in snd (pump (S (S (S (length s)))) (fresh s)).

(* what the client's packet adapter reads from one carrier's cut downstream under reader script sc *)
Definition read_from (w : bytes) (k : nat) (sc : script) : list bytes := fst (read_stream (firstn k w) sc).

Lemma queued_from_sub cid ps w k p : length cid = 8%nat -> wire_of ps = Some w ->
  In p (queued_from cid w k) -> In p ps.
Proof.
  intros Hc Hw Hin. unfold queued_from in Hin.
  destruct (upstream_cut cid ps w k Hc Hw) as [k' [j [Hp _]]]. cbn zeta in Hp. rewrite Hp in Hin. cbn [snd] in Hin.
  eapply (In_firstn_subset j). exact Hin.
Qed.

Lemma read_from_sub ps w k sc p : wire_of ps = Some w -> In p (read_from w k sc) -> In p ps.
Proof.
  intros Hw Hin. unfold read_from in Hin. destruct (reader_cut ps w k sc Hw) as [j [e [Hr _]]].
  rewrite Hr in Hin. cbn [fst] in Hin. eapply (In_firstn_subset j). exact Hin.
Qed.

Section ArqBoundary.
  (* kcp-go + smux, as far as the Snowflake layers rely on them: a sending endpoint that has been written
     [written] emits packets [sent] (retransmissions included); a receiving endpoint that has been handed the
     packets [recv], in that order, delivers the byte stream [stream_of recv]. The hypothesis is the safety half
     of ARQ: as long as every packet handed to the receiver is an unmodified packet of the peer endpoint, the
     delivered stream is a prefix of what was written (no missing, duplicated, reordered or foreign byte). *)
  Variable packets_of : bytes -> list bytes -> Prop.
  Variable stream_of : list bytes -> bytes.
  Hypothesis arq_safe : forall written sent recv,
    packets_of written sent -> (forall p, In p recv -> In p sent) -> is_prefix (stream_of recv) written.

  (* one direction of one session carried over any number of carriers, each an honest sender's framed packets
     (any subset/repetition of the endpoint's packets), each cut at any byte offset *)
  Record ucarrier := { u_ps : list bytes; u_w : bytes; u_cut : nat }.

  Theorem upstream_stream_prefix : forall written sent cid (cs : list ucarrier) recv,
    length cid = 8%nat -> packets_of written sent ->
    (forall c, In c cs -> wire_of (u_ps c) = Some (u_w c) /\ forall p, In p (u_ps c) -> In p sent) ->
    (forall p, In p recv -> exists c, In c cs /\ In p (queued_from cid (u_w c) (u_cut c))) ->
    is_prefix (stream_of recv) written.
  Proof.
    intros written sent cid cs recv Hc Hpk Hcs Hrecv. apply (arq_safe written sent recv Hpk).
    intros p Hin. destruct (Hrecv p Hin) as [c [Hc_in Hq]]. destruct (Hcs c Hc_in) as [Hw Hsub].
    apply Hsub. eapply queued_from_sub; eassumption.
  Qed.

  Record dcarrier := { d_ps : list bytes; d_w : bytes; d_cut : nat; d_sc : script }.

  Theorem downstream_stream_prefix : forall written sent (cs : list dcarrier) recv,
    packets_of written sent ->
    (forall c, In c cs -> wire_of (d_ps c) = Some (d_w c) /\ forall p, In p (d_ps c) -> In p sent) ->
    (forall p, In p recv -> exists c, In c cs /\ In p (read_from (d_w c) (d_cut c) (d_sc c))) ->
    is_prefix (stream_of recv) written.
  Proof.
    intros written sent cs recv Hpk Hcs Hrecv. apply (arq_safe written sent recv Hpk).
    intros p Hin. destruct (Hrecv p Hin) as [c [Hc_in Hq]]. destruct (Hcs c Hc_in) as [Hw Hsub].
    apply Hsub. eapply read_from_sub; eassumption.
  Qed.
End ArqBoundary.
