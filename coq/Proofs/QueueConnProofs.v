(* QueueConnProofs.v — QueuePacketConn (Model/QueueConn.v): the receive queue is FIFO and
   bounded, operations never wait (a full queue drops), everything fails after Close. *)
From Coq Require Import List NArith ZArith Bool Arith Lia.
From Snow Require Import Model.GoHeap Model.ClientMap Model.QueueConn.
Import ListNotations.

Section QC.
  Variable cap : nat.
  Variable timeout : Z.

  (* ---- QueueIncoming: never waits; appended at the tail unless closed or full (then dropped) *)
  Lemma qincoming_spec : forall s p a,
    qstep cap timeout s (QIncoming p a) =
      if negb (qclosed s) && (length (recvq s) <? cap)
      then (mkqc (recvq s ++ [(p, a)]) (clients s) (qclosed s), OIncoming true)
      else (s, OIncoming false).
  Proof. intros. simpl. destruct (qclosed s); simpl; auto. Qed.

  (* ---- every operation leaves the receive queue within its bound *)
  Lemma qstep_bound : forall s o, length (recvq s) <= cap -> length (recvq (fst (qstep cap timeout s o))) <= cap.
  Proof.
    intros s o H. destruct o; simpl.
    - destruct (qclosed s); simpl; auto. destruct (length (recvq s) <? cap) eqn:E; simpl; auto.
      apply Nat.ltb_lt in E. rewrite app_length. simpl. lia.
    - destruct (qclosed s); simpl; auto. destruct (recvq s) as [|[p a] q] eqn:Eq; simpl in *; [rewrite Eq; simpl; lia | lia].
    - destruct (qclosed s); simpl; auto.
      destruct (send_queue a now (clients s)) as [c1 k]. destruct (q_send cap k p c1). simpl. auto.
    - destruct (send_queue a now (clients s)) as [c1 k]. destruct (q_recv k c1). simpl. auto.
    - destruct (q_recv k (clients s)). simpl. auto.
    - auto.
    - destruct (qclosed s); simpl; auto.
  Qed.

  Lemma qrun_bound : forall ops s, length (recvq s) <= cap -> length (recvq (fst (qrun cap timeout ops s))) <= cap.
  Proof.
    induction ops; intros s H; simpl; auto.
    pose proof (qstep_bound s a H). destruct (qstep cap timeout s a) as [s1 r]. simpl in *.
    specialize (IHops s1 H0). destruct (qrun cap timeout ops s1). simpl in *. auto.
  Qed.

  (* ---- after Close *)
  Definition fails_closed (o : qop) (r : qout) : Prop :=
    match o with
    | QIncoming _ _ => r = OIncoming false          (* silently dropped *)
    | QRead _ => r = OErrClosed
    | QWrite _ _ _ => r = OErrClosed
    | QClose => r = OErrClosed
    | QOutRecv _ _ | QHeldRecv _ | QSweep _ => True   (* the client map is not closed by Close *)
    end.

  Lemma qstep_closed : forall s o, qclosed s = true ->
    let '(s', r) := qstep cap timeout s o in
    qclosed s' = true /\ recvq s' = recvq s /\ fails_closed o r.
  Proof.
    intros s o H. destruct o; simpl; rewrite ?H; simpl; auto.
    - destruct (send_queue a now (clients s)) as [c1 k]. destruct (q_recv k c1). simpl. auto.
    - destruct (q_recv k (clients s)). simpl. auto.
  Qed.

  Lemma qrun_closed : forall ops s, qclosed s = true ->
    let '(s', rs) := qrun cap timeout ops s in
    qclosed s' = true /\ recvq s' = recvq s /\ Forall2 fails_closed ops rs.
  Proof.
    induction ops; intros s H; simpl.
    - auto.
    - pose proof (qstep_closed s a H) as H1. destruct (qstep cap timeout s a) as [s1 r].
      destruct H1 as (H1 & H2 & H3). specialize (IHops s1 H1).
      destruct (qrun cap timeout ops s1) as [s2 rs]. destruct IHops as (I1 & I2 & I3).
      split; auto. split; [congruence|]. constructor; auto.
  Qed.

  Lemma qclose_closes : forall s, qclosed (fst (qstep cap timeout s QClose)) = true.
  Proof. intros. simpl. destruct (qclosed s) eqn:E; simpl; auto. Qed.

  Theorem after_close_fail : forall pre post s,
    let '(s1, _) := qrun cap timeout (pre ++ [QClose]) s in
    let '(s2, rs) := qrun cap timeout post s1 in
    Forall2 fails_closed post rs /\ recvq s2 = recvq s1.
  Proof.
    intros pre post s.
    assert (Hc: qclosed (fst (qrun cap timeout (pre ++ [QClose]) s)) = true).
    { revert s. induction pre; intros s; simpl.
      - pose proof (qclose_closes s). simpl in H. destruct (qclosed s); simpl; auto.
      - destruct (qstep cap timeout s a) as [s1 r]. specialize (IHpre s1).
        destruct (qrun cap timeout (pre ++ [QClose]) s1). simpl in *. auto. }
    destruct (qrun cap timeout (pre ++ [QClose]) s) as [s1 r1]. simpl in Hc.
    pose proof (qrun_closed post s1 Hc). destruct (qrun cap timeout post s1) as [s2 rs]. tauto.
  Qed.

  (* ---- the receive queue is first-in-first-out *)
  Fixpoint accepted (ops : list qop) (outs : list qout) : list (payload * N) :=
    match ops, outs with
    | o :: ops', r :: outs' =>
        match o, r with
        | QIncoming p a, OIncoming true => (p, a) :: accepted ops' outs'
        | _, _ => accepted ops' outs'
        end
    | _, _ => []
    end.

  (* what ReadFrom returned, with the length of the buffer it was given *)
  Fixpoint reads (ops : list qop) (outs : list qout) : list (nat * payload * N) :=
    match ops, outs with
    | o :: ops', r :: outs' =>
        match o, r with
        | QRead n, ORead p a => (n, p, a) :: reads ops' outs'
        | _, _ => reads ops' outs'
        end
    | _, _ => []
    end.

  Definition delivered_as (d : payload * N) (r : nat * payload * N) : Prop :=
    let '(n, p, a) := r in p = firstn n (fst d) /\ a = snd d.

  Theorem recv_fifo : forall ops s,
    let '(s', outs) := qrun cap timeout ops s in
    exists delivered,
      recvq s ++ accepted ops outs = delivered ++ recvq s' /\
      Forall2 delivered_as delivered (reads ops outs).
  Proof.
    induction ops as [|o ops IH]; intros s; simpl.
    - exists []. simpl. rewrite app_nil_r. auto.
    - destruct (qstep cap timeout s o) as [s1 r] eqn:E.
      specialize (IH s1). destruct (qrun cap timeout ops s1) as [s2 outs].
      destruct IH as (d & Hd1 & Hd2).
      destruct o; simpl in E.
      + destruct (qclosed s).
        * inversion E; subst. exists d. auto.
        * destruct (length (recvq s) <? cap); inversion E; subst; simpl in *.
          -- exists d. split; auto. rewrite <- Hd1, <- app_assoc. reflexivity.
          -- exists d. auto.
      + destruct (qclosed s).
        * inversion E; subst. exists d. auto.
        * destruct (recvq s) as [|[p a] q] eqn:Eq; inversion E; subst; simpl in *.
          -- exists d. rewrite ?Eq in *. auto.
          -- exists ((p, a) :: d). simpl. split; [congruence|]. constructor; auto. simpl. auto.
      + destruct (qclosed s).
        * inversion E; subst. exists d. auto.
        * destruct (send_queue a now (clients s)) as [c1 k]. destruct (q_send cap k p c1).
          inversion E; subst; simpl in *. exists d. auto.
      + destruct (send_queue a now (clients s)) as [c1 k]. destruct (q_recv k c1).
        inversion E; subst; simpl in *. exists d. auto.
      + destruct (q_recv k (clients s)). inversion E; subst; simpl in *. exists d. auto.
      + inversion E; subst; simpl in *. exists d. auto.
      + destruct (qclosed s); inversion E; subst; simpl in *; exists d; auto.
  Qed.
End QC.
