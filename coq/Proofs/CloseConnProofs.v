(* CloseConnProofs.v — SnowflakeConn.Close over the Peers machine (coq/Model/CloseConn.v). *)
From Coq Require Import List Arith Bool Lia.
From Snow Require Import Model.Peers Model.CloseConn Proofs.PeersProofs.
Import ListNotations.

Inductive creachable (kv : kversion) (v : version) (max : nat) : kstate -> Prop :=
| creach_init : creachable kv v max (kinit max)
| creach_step : forall c l c', creachable kv v max c -> cstep kv v c l = Some c' -> creachable kv v max c'.

Lemma crun_reachable : forall kv v max tr c c', creachable kv v max c -> crun kv v c tr = Some c' ->
  creachable kv v max c'.
Proof.
  induction tr as [|l tr IH]; simpl; intros c c' R H.
  - inversion H; subst; assumption.
  - destruct (cstep kv v c l) eqn:E; [|discriminate]. eapply IH; [|exact H]. eapply creach_step; eauto.
Qed.

Lemma crun_app : forall kv v t1 t2 c c1 c2, crun kv v c t1 = Some c1 -> crun kv v c1 t2 = Some c2 ->
  crun kv v c (t1 ++ t2) = Some c2.
Proof.
  induction t1 as [|l t1 IH]; simpl; intros t2 c c1 c2 H1 H2.
  - inversion H1; subst; assumption.
  - destruct (cstep kv v c l); [|discriminate]. eapply IH; eauto.
Qed.

Ltac cstep_inv H :=
  unfold cstep in H;
  repeat match type of H with
    | match ?x with _ => _ end = Some _ => destruct x eqn:?; try discriminate
    | (if ?x then _ else _) = Some _ => destruct x eqn:?; try discriminate
  end;
  inversion H; subst; clear H.

(* ---------------------------------------------------------------- projection onto the Peers machine *)

Lemma cstep_proj : forall kv v c l c', cstep kv v c l = Some c' ->
  ps c' = ps c \/ exists pl, step v (ps c) pl = Some (ps c').
Proof.
  intros kv v c l c' H. destruct l; cstep_inv H; cbn; eauto.
Qed.

Lemma creach_proj : forall kv v max c, creachable kv v max c -> reachable v max (ps c).
Proof.
  intros kv v max c R. induction R as [|c l c' R IH H].
  - apply reach_init.
  - destruct (cstep_proj _ _ _ _ _ H) as [E|(pl & E)].
    + rewrite E. assumption.
    + eapply reach_step; eauto.
Qed.

(* ---------------------------------------------------------------- facts of the Peers machine used here *)

Lemma ends_length_mono : forall v s l s', step v s l = Some s' -> length (ends s) <= length (ends s').
Proof.
  intros v s l s' H. destruct l; step_inv H; cbn; unfold set_end; cbn;
    rewrite ?length_set_nth, ?app_length; simpl; lia.
Qed.

Lemma end_done_stable : forall v s l s' i, step v s l = Some s' ->
  nth_error (ends s) i = Some E_Done -> nth_error (ends s') i = Some E_Done.
Proof.
  intros v s l s' i H Hd.
  destruct l; step_inv H; cbn; unfold set_end; cbn; try assumption;
    try (rewrite nth_error_app1; [assumption|apply nth_error_Some; congruence]);
    rewrite nth_error_set_nth;
    match goal with |- (if Nat.eqb ?j ?k then _ else _) = _ => destruct (Nat.eqb_spec j k); [subst; congruence|assumption] end.
Qed.

Definition some_end_done (s : state) : Prop := exists i, nth_error (ends s) i = Some E_Done.

Lemma some_end_done_stable : forall v s l s', step v s l = Some s' -> some_end_done s -> some_end_done s'.
Proof. intros v s l s' H (i & Hd). exists i. eapply end_done_stable; eauto. Qed.

(* ---------------------------------------------------------------- invariant of the closers *)

Definition closer_ok (kv : kversion) (s : state) (pc : close_pc) : Prop :=
  match pc with
  | K_InEnd i => i < length (ends s)
  | K_Pconn | K_Sess | K_Done true => some_end_done s
  | K_Done false => kv = K_early
  | _ => True
  end.

Definition inv_close (kv : kversion) (c : kstate) : Prop :=
  forall k pc, nth_error (closers c) k = Some pc -> closer_ok kv (ps c) pc.

Lemma closer_ok_step : forall kv v s l s' pc, step v s l = Some s' -> closer_ok kv s pc -> closer_ok kv s' pc.
Proof.
  intros kv v s l s' pc H Hok. destruct pc as [| |i| | |[|]]; simpl in *; auto;
    try (eapply some_end_done_stable; eauto).
  pose proof (ends_length_mono _ _ _ _ H). lia.
Qed.

Lemma inv_close_set : forall kv c k pc s' sd sc pcl,
  inv_close kv c -> (forall q, closer_ok kv (ps c) q -> closer_ok kv s' q) -> closer_ok kv s' pc ->
  inv_close kv (mkCS s' sd sc pcl (set_nth k pc (closers c))).
Proof.
  intros kv c k pc s' sd sc pcl I Hmono Hpc j q Hj. cbn in *.
  rewrite nth_error_set_nth in Hj. destruct (Nat.eqb_spec j k).
  - destruct (nth_error (closers c) k); inversion Hj; subst. assumption.
  - apply Hmono. eapply I; eauto.
Qed.

Lemma inv_close_step : forall kv v c l c', inv_close kv c -> cstep kv v c l = Some c' -> inv_close kv c'.
Proof.
  intros kv v c l c' I H. destruct l.
  - (* L_P *) cstep_inv H. intros k pc Hk. cbn in *. eapply closer_ok_step; eauto.
  - cstep_inv H. exact I.
  - (* L_Close *) cstep_inv H. intros k pc Hk. cbn in *.
    apply nth_error_snoc in Hk. destruct Hk as [Hk|[_ ->]]; [eapply I; eauto|exact Logic.I].
  - (* L_Stream *) cstep_inv H. apply inv_close_set; [assumption|auto|].
    destruct kv; [exact Logic.I|]. destruct (stream_close_fails c); simpl; auto.
  - (* L_CallEnd *) cstep_inv H. apply inv_close_set; [assumption| |].
    + intros q. eapply closer_ok_step; eauto.
    + simpl. match goal with E : step _ _ End_call = Some _ |- _ => step_inv E end.
      cbn. rewrite app_length. simpl. lia.
  - (* L_EndRet *) cstep_inv H. unfold set_closer. apply inv_close_set; [assumption|auto|].
    simpl. eexists; eauto.
  - (* L_Pconn *) cstep_inv H. apply inv_close_set; [assumption|auto|].
    match goal with E : nth_error (closers c) _ = Some K_Pconn |- _ => exact (I _ _ E) end.
  - (* L_Sess *) cstep_inv H. apply inv_close_set; [assumption|auto|].
    match goal with E : nth_error (closers c) _ = Some K_Sess |- _ => exact (I _ _ E) end.
  - cstep_inv H. exact I.
Qed.

Lemma creach_inv_close : forall kv v max c, creachable kv v max c -> inv_close kv c.
Proof.
  intros kv v max c R. induction R as [|c l c' R IH H].
  - intros k pc Hk. destruct k; discriminate.
  - eapply inv_close_step; eauto.
Qed.

(* ---------------------------------------------------------------- what holds once Close is past End *)

Lemma close_after_end_facts : forall kv v max c k pc, creachable kv v max c ->
  nth_error (closers c) k = Some pc -> after_end pc = true ->
  all_closed (ps c) /\ live_peers (ps c) = [] /\ melted (ps c) = true /\ chan_closed (ps c) = true /\
  col_hasconn (col (ps c)) = false.
Proof.
  intros kv v max c k pc R Hk Ha.
  pose proof (creach_inv_close _ _ _ _ R _ _ Hk) as Hok.
  assert (Hd : some_end_done (ps c)) by (destruct pc as [| | | | |[|]]; simpl in *; try discriminate; assumption).
  destruct Hd as (i & Hd). eapply end_done_facts; eauto using creach_proj.
Qed.

(* the pinned Close never returns without having gone through End *)
Lemma close_returned_ended : forall v max c k pc, creachable K_pinned v max c ->
  nth_error (closers c) k = Some pc -> returned pc = true -> after_end pc = true.
Proof.
  intros v max c k pc R Hk Hr. pose proof (creach_inv_close _ _ _ _ R _ _ Hk) as Hok.
  destruct pc as [| | | | |[|]]; simpl in *; try discriminate; reflexivity.
Qed.

Lemma after_end_stable : forall kv v c l c' k pc, cstep kv v c l = Some c' ->
  nth_error (closers c) k = Some pc -> after_end pc = true ->
  exists pc', nth_error (closers c') k = Some pc' /\ after_end pc' = true.
Proof.
  intros kv v c l c' k pc H Hk Ha.
  destruct l; cstep_inv H; unfold set_closer; cbn; eauto;
    try (rewrite nth_error_app1; [eauto|apply nth_error_Some; congruence]);
    rewrite nth_error_set_nth;
    match goal with |- context [Nat.eqb ?a ?b] => destruct (Nat.eqb_spec a b); [subst|eauto] end;
    match goal with E : nth_error (closers c) ?n = Some ?x, E' : nth_error (closers c) ?n = Some ?y |- _ =>
      rewrite E in E'; inversion E'; subst; simpl in *; try discriminate end;
    try match goal with E : nth_error (closers c) ?n = Some _ |- context [nth_error (closers c) ?n] => rewrite E end; eauto.
Qed.

Lemma after_end_run : forall kv v tr c c' k pc, crun kv v c tr = Some c' ->
  nth_error (closers c) k = Some pc -> after_end pc = true ->
  exists pc', nth_error (closers c') k = Some pc' /\ after_end pc' = true.
Proof.
  induction tr as [|l tr IH]; simpl; intros c c' k pc H Hk Ha.
  - inversion H; subst; eauto.
  - destruct (cstep kv v c l) as [c1|] eqn:E; [|discriminate].
    destruct (after_end_stable _ _ _ _ _ _ _ E Hk Ha) as (pc1 & Hk1 & Ha1). eapply IH; eauto.
Qed.

(* After Close is past End: whatever any thread does from then on (the connect loop calling Collect again,
   further Close calls, the session dying, ...), no rendezvous attempt is ever in flight again and no peer
   is ever held open again. *)
Lemma close_stops_rendezvous : forall kv v max c k pc tr c', creachable kv v max c ->
  nth_error (closers c) k = Some pc -> after_end pc = true -> crun kv v c tr = Some c' ->
  col (ps c') <> C_Catching /\ live_peers (ps c') = [] /\ melted (ps c') = true.
Proof.
  intros kv v max c k pc tr c' R Hk Ha Hrun.
  destruct (after_end_run _ _ _ _ _ _ _ Hrun Hk Ha) as (pc' & Hk' & Ha').
  pose proof (crun_reachable _ _ _ _ _ _ R Hrun) as R'.
  destruct (close_after_end_facts _ _ _ _ _ _ R' Hk' Ha') as (_ & Hl & Hm & _ & Hc).
  repeat split; auto. intros E. rewrite E in Hc. discriminate.
Qed.

(* ---------------------------------------------------------------- Close returns *)

(* steps of closer k itself, of End callers, and of the collector already inside Collect *)
Definition close_helpful (k : nat) (oracle : bool) (l : clabel) : Prop :=
  match l with
  | L_P pl => helpful pl = true /\ oracle_ok oracle pl
  | L_Stream j | L_CallEnd j | L_EndRet j | L_Pconn j | L_Sess j => j = k
  | _ => False
  end.

Lemma crun_lift : forall kv v tr c s', run v (ps c) tr = Some s' ->
  crun kv v c (map L_P tr) = Some (mkCS s' (sess_dead c) (stream_closed c) (pconn_closed c) (closers c)).
Proof.
  induction tr as [|l tr IH]; simpl; intros c s' H.
  - inversion H; subst. destruct c; reflexivity.
  - destruct (step v (ps c) l) as [s1|] eqn:E; [|discriminate].
    rewrite (IH (mkCS s1 (sess_dead c) (stream_closed c) (pconn_closed c) (closers c)) s' H). reflexivity.
Qed.

Definition finishes (c : kstate) (k : nat) (oracle : bool) (n : nat) : Prop :=
  exists tr c', length tr <= n /\ Forall (close_helpful k oracle) tr /\
    crun K_pinned V1 c tr = Some c' /\ nth_error (closers c') k = Some (K_Done true).

Lemma finishes_cons : forall c k oracle n l c1, cstep K_pinned V1 c l = Some c1 -> close_helpful k oracle l ->
  finishes c1 k oracle n -> finishes c k oracle (S n).
Proof.
  intros c k oracle n l c1 H Hh (tr & c' & Hl & Hf & Hr & Hd).
  exists (l :: tr), c'. repeat split; simpl; auto; try lia. rewrite H. assumption.
Qed.

Lemma finishes_done : forall c k oracle, nth_error (closers c) k = Some (K_Done true) -> finishes c k oracle 0.
Proof. intros c k oracle Hk. exists [], c. repeat split; simpl; auto. Qed.

Lemma term_sess : forall c k oracle, nth_error (closers c) k = Some K_Sess -> finishes c k oracle 1.
Proof.
  intros c k oracle Hk. eapply finishes_cons with (l := L_Sess k); [unfold cstep; rewrite Hk; reflexivity|reflexivity|].
  apply finishes_done. cbn. erewrite nth_error_set_nth_eq; eauto.
Qed.

Lemma term_pconn : forall c k oracle, nth_error (closers c) k = Some K_Pconn -> finishes c k oracle 2.
Proof.
  intros c k oracle Hk. eapply finishes_cons with (l := L_Pconn k); [unfold cstep; rewrite Hk; reflexivity|reflexivity|].
  apply term_sess. cbn. erewrite nth_error_set_nth_eq; eauto.
Qed.

Lemma term_inend : forall max c k i oracle, creachable K_pinned V1 max c ->
  nth_error (closers c) k = Some (K_InEnd i) -> finishes c k oracle 18.
Proof.
  intros max c k i oracle R Hk.
  pose proof (creach_inv_close _ _ _ _ R _ _ Hk) as Hi. simpl in Hi.
  destruct (nth_error (ends (ps c)) i) as [e|] eqn:He; [|apply nth_error_None in He; lia].
  pose proof (creach_proj _ _ _ _ R) as Rp.
  destruct (end_terminates (end_rank (ps c) i) max (ps c) i e oracle Rp He (le_n _)) as (tr & s' & Hlen & Hhelp & Hor & Hrun & Hd).
  pose proof (end_rank_bound _ _ i Rp) as Hb.
  pose proof (crun_lift K_pinned V1 tr c s' Hrun) as Hl.
  set (c1 := mkCS s' (sess_dead c) (stream_closed c) (pconn_closed c) (closers c)) in *.
  assert (Hk1 : nth_error (closers c1) k = Some (K_InEnd i)) by exact Hk.
  assert (H1 : cstep K_pinned V1 c1 (L_EndRet k) = Some (set_closer c1 k K_Pconn)).
  { unfold cstep. rewrite Hk1. cbn [ps c1]. rewrite Hd. reflexivity. }
  assert (F : finishes c1 k oracle 3).
  { eapply finishes_cons; [exact H1|reflexivity|]. apply term_pconn. cbn. erewrite nth_error_set_nth_eq; eauto. }
  destruct F as (tr2 & c2 & Hl2 & Hf2 & Hr2 & Hd2).
  exists (map L_P tr ++ tr2), c2. repeat split.
  - rewrite app_length, map_length. lia.
  - apply Forall_app. split; [|assumption]. apply Forall_forall. intros l Hin.
    apply in_map_iff in Hin. destruct Hin as (pl & <- & Hin). simpl. split.
    + rewrite forallb_forall in Hhelp. auto.
    + rewrite Forall_forall in Hor. auto.
  - eapply crun_app; eauto.
  - assumption.
Qed.

Lemma term_callend : forall max c k oracle, creachable K_pinned V1 max c ->
  nth_error (closers c) k = Some K_CallEnd -> finishes c k oracle 19.
Proof.
  intros max c k oracle R Hk.
  assert (H : exists c1, cstep K_pinned V1 c (L_CallEnd k) = Some c1 /\ exists i, nth_error (closers c1) k = Some (K_InEnd i)).
  { unfold cstep. rewrite Hk. unfold step.
    rewrite (v1_no_panic _ _ (creach_proj _ _ _ _ R)). eexists. split; [reflexivity|].
    cbn. eexists. erewrite nth_error_set_nth_eq; eauto. }
  destruct H as (c1 & H1 & i & Hk1).
  eapply finishes_cons; [exact H1|reflexivity|]. eapply term_inend; eauto. eapply creach_step; eauto.
Qed.

Lemma term_stream : forall max c k oracle, creachable K_pinned V1 max c ->
  nth_error (closers c) k = Some K_Stream -> finishes c k oracle 20.
Proof.
  intros max c k oracle R Hk.
  assert (H1 : cstep K_pinned V1 c (L_Stream k) =
               Some (mkCS (ps c) (sess_dead c) true (pconn_closed c) (set_nth k K_CallEnd (closers c)))).
  { unfold cstep. rewrite Hk. reflexivity. }
  eapply finishes_cons; [exact H1|reflexivity|]. eapply term_callend; [eapply creach_step; eauto|].
  cbn. erewrite nth_error_set_nth_eq; eauto.
Qed.

Lemma finishes_weaken : forall c k oracle n m, n <= m -> finishes c k oracle n -> finishes c k oracle m.
Proof. intros c k oracle n m Hle (tr & c' & Hl & H). exists tr, c'. split; [lia|assumption]. Qed.

(* From every reachable state - whether or not the session has died, the stream was closed before, other
   Close calls are under way, a rendezvous is in flight - a Close call that has not returned completes within
   20 steps, all of them its own, those of End callers, or those of the collector already inside Collect. *)
Lemma close_terminates : forall max c k pc oracle, creachable K_pinned V1 max c ->
  nth_error (closers c) k = Some pc -> finishes c k oracle 20.
Proof.
  intros max c k pc oracle R Hk. destruct pc as [| |i| | |[|]].
  - eapply term_stream; eauto.
  - eapply finishes_weaken; [|eapply term_callend; eauto]. lia.
  - eapply finishes_weaken; [|eapply term_inend; eauto]. lia.
  - eapply finishes_weaken; [|eapply term_pconn; eauto]. lia.
  - eapply finishes_weaken; [|eapply term_sess; eauto]. lia.
  - eapply finishes_weaken; [|eapply finishes_done; eauto]. lia.
  - pose proof (creach_inv_close _ _ _ _ R _ _ Hk) as Hok. simpl in Hok. discriminate.
Qed.

(* ---------------------------------------------------------------- the variant that returns on a stream error *)

Definition trace_early : list clabel :=
  [L_P Col_lock; L_P Col_check;     (* connectLoop is inside Catch: a rendezvous attempt is in flight *)
   L_SessDies;                      (* the session dies *)
   L_Close; L_Stream 0].            (* the application closes the connection *)

Lemma early_leaves_collection_running : exists c, crun K_early V1 (kinit 1) trace_early = Some c /\
  nth_error (closers c) 0 = Some (K_Done false) /\ melted (ps c) = false /\ col (ps c) = C_Catching.
Proof. eexists. split; [vm_compute; reflexivity|]. repeat split. Qed.

(* non-vacuity: a state with a dead session, a rendezvous in flight and a Close that has not begun *)
Definition trace_dead_then_close : list clabel :=
  [L_P Col_lock; L_P Col_check; L_P Catch_ok; L_P Col_push; L_P Col_send; L_P Col_unlock; L_P Col_return;
   L_P Col_lock; L_P Col_check; L_SessDies; L_Close; L_Close].

Lemma ex_dead_then_close : exists c, crun K_pinned V1 (kinit 2) trace_dead_then_close = Some c /\
  creachable K_pinned V1 2 c /\ sess_dead c = true /\ col (ps c) = C_Catching /\
  nth_error (closers c) 1 = Some K_Stream /\ live_peers (ps c) = [0].
Proof.
  destruct (crun K_pinned V1 (kinit 2) trace_dead_then_close) as [c|] eqn:E; [|vm_compute in E; discriminate].
  exists c. split; [reflexivity|]. split; [eapply crun_reachable; [apply creach_init|exact E]|].
  vm_compute in E. inversion E; subst. repeat split.
Qed.
