(* BrokerKeys.v — how each label of the matching machine (Model/Broker.v) changes what the matching pool
   is made of: the triple (in heap?, NAT class, client count) of every registered poll. A poll enters the pool when
   it is registered, leaves it when a client pops it or when its waiter's timeout critical section finds it
   unclaimed, and never returns; no other step touches the triple. *)
From Coq Require Import List NArith ZArith Bool Arith Lia.
From Snow Require Import Model.Broker Proofs.BrokerProofs.
Import ListNotations.
Open Scope N_scope.

Definition key := (bool * natty * N)%type.
Definition ekey (e : entry) : key := (e_inheap e, e_nat e, e_clients e).
Definition keys (s : state) : list key := map ekey (entries s).
Definition kclear (k : key) : key := let '(_, n, c) := k in (false, n, c).

Definition key_effect (s : state) (l : label) : list key :=
  match l with
  | L_Poll _ n _ cl => keys s ++ [(true, n, cl)]
  | L_Client _ _ _ (Some p) => upd p kclear (keys s)
  | L_WTimeoutCS p => upd p kclear (keys s)      (* clearing a cleared key changes nothing *)
  | _ => keys s
  end.

Lemma map_upd {A B} (g : A -> B) (f : A -> A) (f' : B -> B) :
  (forall x, g (f x) = f' (g x)) -> forall l p, map g (upd p f l) = upd p f' (map g l).
Proof.
  intros H. induction l as [|x l IH]; intros [|p]; cbn [upd map]; try reflexivity.
  - rewrite H. reflexivity.
  - rewrite IH. reflexivity.
Qed.

Lemma upd_same {A} (f : A -> A) : forall l p, (forall x, nth_error l p = Some x -> f x = x) -> upd p f l = l.
Proof.
  induction l as [|x l IH]; intros [|p] H; cbn [upd]; try reflexivity.
  - rewrite (H x eq_refl). reflexivity.
  - rewrite IH; [reflexivity|]. intros y Hy. apply H. exact Hy.
Qed.

Lemma map_upd_same {A B} (g : A -> B) (f : A -> A) :
  (forall x, g (f x) = g x) -> forall l p, map g (upd p f l) = map g l.
Proof.
  intros H l p. rewrite (map_upd g f (fun b => b)) by exact H.
  apply upd_same. reflexivity.
Qed.

Ltac keys_same := cbn [entries with_entries]; apply map_upd_same; intros; reflexivity.

Theorem step_keys v s l s' : step v s l = Some s' -> keys s' = key_effect s l.
Proof.
  intros H. unfold keys. destruct l; cbn [step key_effect] in *.
  - (* Poll *) injection H as <-. cbn [entries]. rewrite map_app. reflexivity.
  - destruct (nth_error (entries s) p) as [e|]; [|discriminate].
    destruct (e_w e); try discriminate. destruct (e_wfired e); [discriminate|]. injection H as <-. keys_same.
  - destruct (nth_error (entries s) p) as [e|]; [|discriminate].
    destruct (e_w e); try discriminate. destruct (e_wfired e); [|discriminate]. injection H as <-. keys_same.
  - (* WTimeoutCS *)
    destruct (nth_error (entries s) p) as [e|] eqn:Hp; [|discriminate].
    destruct (e_w e); try discriminate. destruct (e_inheap e) eqn:Eh; injection H as <-; cbn [entries with_entries].
    + apply (map_upd ekey _ kclear). intros x. reflexivity.
    + rewrite map_upd_same by (intros; destruct v; reflexivity). symmetry. apply upd_same.
      intros k Hk. unfold keys in Hk. rewrite nth_error_map, Hp in Hk. injection Hk as <-. unfold ekey, kclear. rewrite Eh. reflexivity.
  - (* Client *)
    destruct (lookup (fp_of ofp) (bridges s)).
    + destruct choice as [p|].
      * destruct (nth_error (entries s) p) as [e|]; [|discriminate].
        destruct (eligible n e && is_min n (entries s) e); [|discriminate]. injection H as <-. cbn [entries].
        apply (map_upd ekey _ kclear). intros x. reflexivity.
      * destruct (pool_empty n (entries s)); [|discriminate]. injection H as <-. reflexivity.
    + destruct choice; [discriminate|]. injection H as <-. reflexivity.
  - destruct (nth_error (entries s) p) as [e|]; [|discriminate].
    destruct (e_cl e) as [c|]; [|discriminate]. destruct (c_pc c); try discriminate.
    destruct (match e_w e with W_Select | W_Late => true | _ => false end); [|discriminate]. injection H as <-. keys_same.
  - destruct (nth_error (entries s) p) as [e|]; [|discriminate].
    destruct (e_w e); try discriminate. injection H as <-. keys_same.
  - destruct (nth_error (entries s) p) as [e|]; [|discriminate].
    destruct (e_cl e) as [c|]; [|discriminate]. destruct (c_pc c); try discriminate.
    destruct (c_fired c); [discriminate|]. injection H as <-. keys_same.
  - destruct (nth_error (entries s) p) as [e|]; [|discriminate].
    destruct (e_cl e) as [c|]; [|discriminate]. destruct (c_pc c); try discriminate.
    destruct (c_fired c); [|discriminate]. injection H as <-. keys_same.
  - (* CCleanup: keeps e_inheap *)
    destruct (nth_error (entries s) p) as [e|]; [|discriminate].
    destruct (e_cl e) as [c|]; [|discriminate]. destruct (c_pc c); try discriminate. injection H as <-. keys_same.
  - destruct (lookup s0 (idmap s)) as [q|]; injection H as <-; [keys_same | reflexivity].
  - destruct v; [|discriminate]. destruct (nth_error (entries s) p) as [e|]; [|discriminate].
    destruct (e_senders e) as [|[aid a] rest]; [discriminate|].
    destruct (e_cl e) as [c|]; [|discriminate]. destruct (c_pc c); try discriminate. injection H as <-. keys_same.
  - destruct v; [discriminate|]. destruct (nth_error (entries s) p) as [e|]; [|discriminate].
    destruct (e_senders e) as [|[aid a] rest]; [discriminate|]. injection H as <-.
    cbn [entries]. apply map_upd_same. intros x. destruct (e_buf e); reflexivity.
  - destruct v; [discriminate|]. destruct (nth_error (entries s) p) as [e|]; [|discriminate].
    destruct (e_buf e); [|discriminate]. destruct (e_cl e) as [c|]; [|discriminate].
    destruct (c_pc c); try discriminate. injection H as <-. keys_same.
  - injection H as <-. reflexivity.
Qed.

(* once out of the pool, never back *)
Lemma kclear_false k : fst (fst (kclear k)) = false.
Proof. destruct k as [[h n] c]. reflexivity. Qed.

Theorem left_pool_forever v s l s' p e :
  step v s l = Some s' -> nth_error (entries s) p = Some e -> e_inheap e = false ->
  exists e', nth_error (entries s') p = Some e' /\ e_inheap e' = false.
Proof.
  intros H Hp Hh. pose proof (step_keys v s l s' H) as Hk.
  assert (Hkp : nth_error (keys s) p = Some (ekey e)) by (unfold keys; rewrite nth_error_map, Hp; reflexivity).
  assert (G : exists k, nth_error (keys s') p = Some k /\ fst (fst k) = false).
  { rewrite Hk. assert (Hup : forall q, exists k, nth_error (upd q kclear (keys s)) p = Some k /\ fst (fst k) = false).
    { intros q. destruct (Nat.eq_dec q p) as [->|Hne].
      - exists (kclear (ekey e)). split; [apply nth_upd_eq; exact Hkp | apply kclear_false].
      - exists (ekey e). split; [rewrite nth_upd_neq by exact Hne; exact Hkp | exact Hh]. }
    destruct l; cbn [key_effect]; try (exists (ekey e); split; [exact Hkp | exact Hh]); try apply Hup.
    - exists (ekey e). split; [|exact Hh]. rewrite nth_error_app1; [exact Hkp|]. apply nth_error_Some. congruence.
    - destruct choice as [q|]; [apply Hup | exists (ekey e); split; [exact Hkp | exact Hh]]. }
  destruct G as [k [Hk' Hf]]. unfold keys in Hk'. rewrite nth_error_map in Hk'.
  destruct (nth_error (entries s') p) as [e'|]; [|discriminate]. injection Hk' as <-. exists e'. split; [reflexivity | exact Hf].
Qed.
