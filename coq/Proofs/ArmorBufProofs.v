(* ArmorBufProofs.v — bounded buffering of the streaming decoder (Model/ArmorStream.v): what the decoder
   holds at any time is bounded by a constant (four tokenizer buffers, one source Read, the base64
   reader's two arrays), whatever the document. *)
From Coq Require Import List NArith ZArith Lia Bool Arith String.
From Coq Require Import ZifyN ZifyNat ZifyBool.
From Snow Require Import Lib.Wire Model.Base64 Model.HtmlEntities Model.Armor Model.ArmorStream.
From Snow Require Import Proofs.Base64Proofs Proofs.ArmorEncProofs Proofs.ArmorDecProofs Proofs.ArmorStreamProofs.
Import ListNotations.
Open Scope N_scope.

(* ------------------------------------------------------------------ Text() never triples plus: |Text()| <= 3 |data| *)
Lemma utf8_len : forall x, (List.length (utf8_encode x) <= 4)%nat.
Proof. intros x. unfold utf8_encode. repeat match goal with |- context [if ?b then _ else _] => destruct b end; cbn; lia. Qed.

(* every named reference is at least as long as what it stands for (complete sweep of the table) *)
Lemma entity_tab_short :
  forallb (fun e => Nat.leb (List.length (runes_utf8 (snd e))) (1 + List.length (fst e))) entity_tab = true.
Proof. vm_compute. reflexivity. Qed.

Lemma entity_lookup_len : forall name cps, entity_lookup name = Some cps ->
  (List.length (runes_utf8 cps) <= 1 + List.length name)%nat.
Proof.
  intros name cps H. unfold entity_lookup in H.
  destruct (find (fun e => beq (fst e) name) entity_tab) as [e|] eqn:F; [|discriminate]. injection H as <-.
  apply find_some in F as [Hin Hb].
  pose proof entity_tab_short as S. rewrite forallb_forall in S. specialize (S e Hin). apply Nat.leb_le in S.
  assert (E : List.length (fst e) = List.length name).
  { clear -Hb. revert Hb. generalize (fst e). intros a. revert name.
    induction a as [|x a IH]; intros [|y b] H; cbn in H; try discriminate; [reflexivity|].
    apply andb_true_iff in H as [_ H]. cbn [List.length]. f_equal. apply IH. exact H. }
  unfold bytes in *. lia.
Qed.

Lemma prefix_lookup_len : forall j name o k, prefix_lookup j name = Some (o, k) ->
  (List.length o <= 1 + k)%nat /\ (k <= j)%nat.
Proof.
  induction j as [|j IH]; intros name o k H; [discriminate|]. cbn [prefix_lookup] in H.
  destruct j as [|j']; [discriminate|].
  destruct (entity_lookup (firstn (S (S j')) name)) as [cps|] eqn:E.
  - injection H as <- <-. apply entity_lookup_len in E. rewrite firstn_length in E. split; lia.
  - destruct (IH name o k H). split; lia.
Qed.

Lemma span_alnum_len : forall l, List.length l = (List.length (fst (span_alnum l)) + List.length (snd (span_alnum l)))%nat.
Proof.
  induction l as [|c l IH]; [reflexivity|]. cbn [span_alnum]. destruct (is_alnum c); [|reflexivity].
  destruct (span_alnum l) as [a r]. cbn [fst snd List.length] in *. lia.
Qed.

Lemma scan_digits_len : forall hex l x k, let '(_, k', rest) := scan_digits hex l x k in
  (k' + List.length rest = k + List.length l)%nat.
Proof.
  intros hex l. induction l as [|c l IH]; intros x k; [cbn; lia|]. cbn [scan_digits].
  destruct (digit_val hex c); [|cbn [List.length]; lia].
  specialize (IH (((if hex then 16 else 10) * x + n) mod 4294967296) (S k)).
  destruct (scan_digits hex l _ (S k)) as [[x' k'] rest]. cbn [List.length]. lia.
Qed.

Lemma entity_at_len : forall s1, (List.length (fst (entity_at s1)) <= 1 + snd (entity_at s1))%nat /\
                                 (snd (entity_at s1) <= List.length s1)%nat.
Proof.
  intros s1. unfold entity_at. destruct s1 as [|c1 r]; [cbn; lia|].
  destruct (c1 =? HASH).
  - destruct r as [|c2 [|c3 r2]]; [cbn; lia|cbn; lia|].
    set (hex := (c2 =? 120) || (c2 =? 88)).
    pose proof (scan_digits_len hex (if hex then c3 :: r2 else c2 :: c3 :: r2) 0 0) as L.
    destruct (scan_digits hex (if hex then c3 :: r2 else c2 :: c3 :: r2) 0 0) as [[x k] rest].
    set (semi := match rest with c :: _ => c =? SEMIC | [] => false end).
    assert (Hs : ((if semi then 1 else 0) <= List.length rest)%nat).
    { unfold semi. destruct rest; [cbn; lia|]. destruct (n =? SEMIC); cbn; lia. }
    destruct (Nat.leb (2 + (if hex then 1 else 0) + k + (if semi then 1 else 0)) 3) eqn:E; cbn [fst snd List.length].
    + lia.
    + apply Nat.leb_gt in E. pose proof (utf8_len (fix_rune x)). destruct hex; cbn [List.length] in L; lia.
  - pose proof (span_alnum_len (c1 :: r)) as L. destruct (span_alnum (c1 :: r)) as [nm rest]. cbn [fst snd] in L.
    set (semi := match rest with c :: _ => c =? SEMIC | [] => false end).
    assert (Hs : ((if semi then 1 else 0) <= List.length rest)%nat).
    { unfold semi. destruct rest; [cbn; lia|]. destruct (n =? SEMIC); cbn; lia. }
    set (name := if semi then nm ++ [SEMIC] else nm).
    assert (Hn : (List.length name <= List.length (c1 :: r))%nat).
    { unfold name. destruct semi; [rewrite app_length; cbn [List.length] in *; lia|lia]. }
    destruct name as [|n0 name'] eqn:En; [cbn; lia|]. rewrite <- En in *.
    destruct (entity_lookup name) as [cps|] eqn:E.
    + cbn [fst snd]. apply entity_lookup_len in E. lia.
    + destruct (prefix_lookup _ name) as [[o k]|] eqn:P; [|cbn; lia].
      cbn [fst snd]. apply prefix_lookup_len in P. lia.
Qed.

Lemma unesc_len : forall l skip, (List.length (unesc skip l) + Nat.min skip (List.length l) <= List.length l)%nat.
Proof.
  induction l as [|c l IH]; intros skip; [cbn; lia|]. cbn [unesc]. destruct skip as [|k].
  - destruct (c =? AMP).
    + pose proof (entity_at_len l) as [E1 E2]. destruct (entity_at l) as [o k]. cbn [fst snd] in *.
      rewrite app_length. specialize (IH k). cbn [List.length]. lia.
    + cbn [List.length]. specialize (IH O). lia.
  - specialize (IH k). cbn [List.length]. lia.
Qed.

Lemma unescape_len : forall l, (List.length (unescape l) <= List.length l)%nat.
Proof. intros l. pose proof (unesc_len l O). unfold unescape. lia. Qed.

Lemma nul_replace_len : forall l, (List.length (nul_replace l) <= 3 * List.length l)%nat.
Proof.
  induction l as [|c l IH]; [cbn; lia|]. cbn [nul_replace]. destruct (c =? 0); [rewrite app_length|]; cbn [List.length REPL]; lia.
Qed.

Lemma text_data_len : forall k d, (List.length (text_data k d) <= 3 * List.length d)%nat.
Proof.
  intros k d. pose proof (conv_nl_len d). unfold text_data. destruct k.
  - pose proof (unescape_len (conv_nl d)). lia.
  - pose proof (unescape_len (nul_replace (conv_nl d))). pose proof (nul_replace_len (conv_nl d)). lia.
  - pose proof (nul_replace_len (conv_nl d)). lia.
Qed.

(* the words of a text are disjoint pieces of it *)
Fixpoint sumlen (ws : list bytes) : nat := match ws with [] => O | w :: r => (List.length w + sumlen r)%nat end.

Lemma sumlen_concat : forall ws, sumlen ws = List.length (List.concat ws).
Proof. induction ws as [|w ws IH]; [reflexivity|]. cbn [sumlen List.concat]. rewrite app_length, IH. reflexivity. Qed.

Lemma strip_len : forall l, (List.length (strip l) <= List.length l)%nat.
Proof. intros l. unfold strip. induction l as [|c l IH]; [cbn; lia|]. cbn [filter]. destruct (negb (isws c)); cbn [List.length]; lia. Qed.

Lemma sumlen_firstn : forall k ws, (sumlen (firstn k ws) <= sumlen ws)%nat.
Proof. induction k; intros [|w ws]; cbn [firstn sumlen]; try lia. specialize (IHk ws). lia. Qed.

Lemma words_sumlen : forall l, (sumlen (fst (cut_long (words l))) <= List.length l)%nat.
Proof.
  intros l. destruct (cut_long_sub (words l)) as [k ->].
  pose proof (sumlen_firstn k (words l)). rewrite (sumlen_concat (words l)), words_concat in H.
  pose proof (strip_len l). lia.
Qed.

(* text bytes of a run of tokens *)
Fixpoint text_bytes (ts : list tok) : nat :=
  match ts with
  | [] => O
  | TkText _ d :: r => (List.length d + text_bytes r)%nat
  | _ :: r => text_bytes r
  end.

Lemma dw_tok_words : forall a t, (sumlen (w_words (dw_tok a t)) <= 3 * text_bytes [t])%nat.
Proof.
  intros a t. destruct t; cbn [dw_tok text_bytes]; try (destruct (beq _ _)); try (destruct a); cbn [w_words sumlen]; try lia.
  pose proof (words_sumlen (text_data k data)) as W. pose proof (text_data_len k data).
  destruct (cut_long _) as [ws long]. cbn [fst w_words] in *. lia.
Qed.

Lemma sumlen_app : forall a b, sumlen (a ++ b) = (sumlen a + sumlen b)%nat.
Proof. induction a; intros; cbn [app sumlen]; [reflexivity|]. rewrite IHa. lia. Qed.

Lemma dw_toks_words : forall ts a, (sumlen (w_words (dw_toks a ts)) <= 3 * text_bytes ts)%nat.
Proof.
  induction ts as [|t ts IH]; intros a; [cbn; lia|]. cbn [dw_toks].
  pose proof (dw_tok_words a t) as W.
  assert (E : text_bytes (t :: ts) = (text_bytes [t] + text_bytes ts)%nat) by (destruct t; cbn [text_bytes]; lia).
  destruct (w_end (dw_tok a t)); [lia|]. cbn [w_words]. rewrite sumlen_app. specialize (IH (w_act (dw_tok a t))). lia.
Qed.

Lemma q_bytes_evs : forall r, q_bytes (evs_of r) = N.of_nat (sumlen (w_words r)).
Proof.
  intros r. unfold evs_of. induction (w_words r) as [|w ws IH]; cbn [map app q_bytes sumlen].
  - destruct (w_end r); reflexivity.
  - rewrite IH. lia.
Qed.

(* ------------------------------------------------------------------ the tokenizer holds less than MAXBUF bytes of one token *)
Definition tk_inv (s : tks) : Prop :=
  tcnt s < MAXBUF /\ N.of_nat (List.length (tbuf s) + List.length (pending (tmd s))) <= tcnt s.

Lemma push_len : forall l tb, List.length (push l tb) = (List.length l + List.length tb)%nat.
Proof. intros. unfold push. rewrite rev_append_rev, app_length, rev_length. reflexivity. Qed.
Lemma text_bytes_app : forall a b, text_bytes (a ++ b) = (text_bytes a + text_bytes b)%nat.
Proof. induction a as [|t a IH]; intros b; [reflexivity|]. destruct t; cbn [app text_bytes]; rewrite IH; lia. Qed.
Lemma text_bytes_flush : forall k tb, text_bytes (flush k tb) = List.length tb.
Proof.
  intros k [|c tb]; [reflexivity|]. unfold flush. cbn [text_bytes]. rewrite rev_append_rev, app_nil_r, rev_length. lia.
Qed.

Definition ok_res (r : tks * list tok) : Prop := tk_inv (fst r) /\ N.of_nat (text_bytes (snd r)) <= MAXBUF.

Ltac fin :=
  unfold ok_res, tk_inv, tk, add_toks in *;
  cbn [fst snd tmd tcnt tbuf pending text_bytes List.length app rev] in *;
  rewrite ?push_len, ?text_bytes_app, ?text_bytes_flush, ?app_length, ?rev_length in *;
  cbn [fst snd tmd tcnt tbuf pending text_bytes List.length app rev] in *;
  repeat split; unfold MAXBUF in *; lia.

Ltac ifs := repeat match goal with |- context [if ?b then _ else _] => destruct b end.

Lemma txt_on_ok : forall tb n c, n < MAXBUF -> N.of_nat (List.length tb) + 1 <= n -> ok_res (txt_on tb n c).
Proof. intros. unfold txt_on. ifs; fin. Qed.
Lemma raw_on_ok : forall tag tb n c, n < MAXBUF -> N.of_nat (List.length tb) + 1 <= n -> ok_res (raw_on tag tb n c).
Proof. intros. unfold raw_on. ifs; fin. Qed.
Lemma sdata_on_ok : forall tb n c, n < MAXBUF -> N.of_nat (List.length tb) + 1 <= n -> ok_res (sdata_on tb n c).
Proof. intros. unfold sdata_on. ifs; fin. Qed.
Lemma sesc_on_ok : forall tb n c, n < MAXBUF -> N.of_nat (List.length tb) + 1 <= n -> ok_res (sesc_on tb n c).
Proof. intros. unfold sesc_on. ifs; fin. Qed.
Lemma sdbl_on_ok : forall tb n c, n < MAXBUF -> N.of_nat (List.length tb) + 1 <= n -> ok_res (sdbl_on tb n c).
Proof. intros. unfold sdbl_on. ifs; fin. Qed.
Lemma sdblstart_on_ok : forall todo tb n c, n < MAXBUF -> N.of_nat (List.length tb) + 1 <= n -> ok_res (sdblstart_on todo tb n c).
Proof. intros. unfold sdblstart_on. destruct todo; ifs; try (apply sesc_on_ok; assumption); fin. Qed.
Lemma gt_on_ok : forall n c, n < MAXBUF -> ok_res (gt_on n c).
Proof. intros. unfold gt_on. ifs; fin. Qed.
Lemma tag_on_ok : forall n e ts nm pv c, n < MAXBUF -> ok_res (tk_tag_on n e ts nm pv c).
Proof. intros. unfold tk_tag_on, tk_tag_done. destruct (tag_step ts c); ifs; fin. Qed.
Lemma scr_fail_ok : forall cx tb n c, n < MAXBUF -> N.of_nat (List.length tb) + 1 <= n -> ok_res (scr_fail cx tb n c).
Proof. intros. destruct cx; [apply sdata_on_ok|apply sesc_on_ok|apply sdbl_on_ok]; assumption. Qed.

Lemma scr_on_ok : forall st tb n c, n < MAXBUF ->
  N.of_nat (List.length tb + List.length (pending (MScr st))) + 1 <= n -> ok_res (scr_on st tb n c).
Proof.
  intros st tb n c Hn H. unfold scr_on.
  destruct st; cbn [pending List.length] in H; ifs;
    first [ apply sdata_on_ok; [assumption|cbn [List.length]; lia]
          | apply sesc_on_ok; [assumption|cbn [List.length]; lia]
          | apply sdbl_on_ok; [assumption|cbn [List.length]; lia]
          | apply sdblstart_on_ok; [assumption|cbn [List.length]; lia]
          | fin ].
Qed.

Lemma add_toks_ok : forall k tb r, N.of_nat (List.length tb) < MAXBUF -> ok_res r -> snd r = snd r ->
  N.of_nat (text_bytes (snd r)) = 0 -> ok_res (add_toks (flush k tb) r).
Proof. intros k tb [s ts] H [R1 R2] _ Z. unfold ok_res, add_toks in *. cbn [fst snd] in *. rewrite text_bytes_app, text_bytes_flush. split; [exact R1|lia]. Qed.

Lemma tag_on_notext : forall n e ts nm pv c, text_bytes (snd (tk_tag_on n e ts nm pv c)) = O.
Proof. intros. unfold tk_tag_on, tk_tag_done. destruct (tag_step ts c); ifs; reflexivity. Qed.

Lemma exceed_ok : forall m n tb c, n < MAXBUF -> N.of_nat (List.length tb + List.length (pending m)) <= n ->
  ok_res (tk MStop 0 [],
          (if is_text_mode m then flush (kind_of m) (c :: push (pending m) tb)
           else if is_other_mode m then [TkOther] else []) ++ [TkOver]).
Proof.
  intros m n tb c H1 H2. unfold ok_res. cbn [fst snd]. split; [unfold tk_inv, tk, MAXBUF; cbn; lia|].
  rewrite text_bytes_app. cbn [text_bytes].
  destruct (is_text_mode m).
  - rewrite text_bytes_flush. cbn [List.length]. rewrite push_len. unfold MAXBUF in *. lia.
  - destruct (is_other_mode m); cbn [text_bytes]; unfold MAXBUF; lia.
Qed.

Lemma tk_step_ok : forall s c, tk_inv s -> ok_res (tk_step s c).
Proof.
  intros [m n tb] c [H1 H2]. cbn [tmd tcnt tbuf] in *. unfold tk_step. cbn [tmd tcnt tbuf].
  pose proof (exceed_ok m n tb c H1 H2) as EXC.
  destruct m; try (destruct (MAXBUF <=? n + 1) eqn:EX; [exact EXC|clear EXC; apply N.leb_gt in EX]).
  + apply txt_on_ok; [exact EX|cbn [pending List.length] in H2; lia].
  + cbn [pending List.length] in H2. ifs; try (apply txt_on_ok; [exact EX|cbn [List.length]; lia]); fin.
  + ifs; fin.
  + ifs; try (apply gt_on_ok; exact EX); fin.
  + apply gt_on_ok; exact EX.
  + ifs; fin.
  + ifs; fin.
  + apply tag_on_ok; exact EX.
  + apply raw_on_ok; [exact EX|cbn [pending List.length] in H2; lia].
  + cbn [pending List.length] in H2. ifs; [fin|]. apply raw_on_ok; [exact EX|cbn [List.length]; lia].
  + cbn [pending List.length] in H2. rewrite rev_length in H2. destruct todo as [|p0 todo].
    * ifs.
      -- apply add_toks_ok; [unfold MAXBUF in *; lia| |reflexivity|rewrite tag_on_notext; reflexivity].
         apply tag_on_ok. unfold MAXBUF in *. lia.
      -- apply raw_on_ok; [exact EX|rewrite push_len; cbn [pending List.length]; rewrite rev_length; lia].
    * ifs; [fin|]. apply raw_on_ok; [exact EX|rewrite push_len; cbn [pending List.length]; rewrite rev_length; lia].
  + fin.
  + apply scr_on_ok; [exact EX|lia].
  + cbn [pending List.length] in H2. rewrite rev_length in H2. destruct todo as [|p0 todo].
    * ifs.
      -- destruct cx.
         ++ apply add_toks_ok; [unfold MAXBUF in *; lia| |reflexivity|rewrite tag_on_notext; reflexivity].
            apply tag_on_ok. unfold MAXBUF in *. lia.
         ++ apply add_toks_ok; [unfold MAXBUF in *; lia| |reflexivity|rewrite tag_on_notext; reflexivity].
            apply tag_on_ok. unfold MAXBUF in *. lia.
         ++ unfold ok_res, tk_inv, tk. cbn [fst snd tmd tcnt tbuf pending text_bytes List.length].
            rewrite push_len. cbn [pending List.length]. rewrite rev_length. unfold MAXBUF in *. repeat split; lia.
      -- apply scr_fail_ok; [exact EX|rewrite push_len; cbn [pending List.length]; rewrite rev_length; lia].
    * ifs; [fin|]. apply scr_fail_ok; [exact EX|rewrite push_len; cbn [pending List.length]; rewrite rev_length; lia].
  + fin.
Qed.

Lemma tk_fin_ok : forall s, tk_inv s -> N.of_nat (text_bytes (tk_fin s)) <= MAXBUF.
Proof.
  intros [m n tb] [H1 H2]. cbn [tmd tcnt tbuf] in *. unfold tk_fin. cbn [tmd tbuf].
  destruct m; cbn [is_text_mode is_other_mode]; rewrite ?text_bytes_app, ?text_bytes_flush, ?push_len; cbn [text_bytes];
    unfold MAXBUF in *; lia.
Qed.

Lemma tk_init_inv : tk_inv tk_init.
Proof. unfold tk_inv, tk_init, tk, MAXBUF. cbn. lia. Qed.

(* ------------------------------------------------------------------ every input byte goes into at most one text token *)
Definition tk_acc (s : tks) : nat := (List.length (tbuf s) + List.length (pending (tmd s)))%nat.
Definition le_res (k : nat) (r : tks * list tok) : Prop := (text_bytes (snd r) + tk_acc (fst r) <= k)%nat.

Ltac fin2 :=
  unfold le_res, tk_acc, tk, add_toks in *;
  cbn [fst snd tmd tcnt tbuf pending text_bytes List.length app rev] in *;
  rewrite ?push_len, ?text_bytes_app, ?text_bytes_flush, ?app_length, ?rev_length in *;
  cbn [fst snd tmd tcnt tbuf pending text_bytes List.length app rev] in *;
  lia.

Lemma txt_on_acc : forall tb n c, le_res (List.length tb + 1) (txt_on tb n c).
Proof. intros. unfold txt_on. ifs; fin2. Qed.
Lemma raw_on_acc : forall tag tb n c, le_res (List.length tb + 1) (raw_on tag tb n c).
Proof. intros. unfold raw_on. ifs; fin2. Qed.
Lemma sdata_on_acc : forall tb n c, le_res (List.length tb + 1) (sdata_on tb n c).
Proof. intros. unfold sdata_on. ifs; fin2. Qed.
Lemma sesc_on_acc : forall tb n c, le_res (List.length tb + 1) (sesc_on tb n c).
Proof. intros. unfold sesc_on. ifs; fin2. Qed.
Lemma sdbl_on_acc : forall tb n c, le_res (List.length tb + 1) (sdbl_on tb n c).
Proof. intros. unfold sdbl_on. ifs; fin2. Qed.
Lemma sdblstart_on_acc : forall todo tb n c, le_res (List.length tb + 1) (sdblstart_on todo tb n c).
Proof. intros. unfold sdblstart_on. destruct todo; ifs; try apply sesc_on_acc; fin2. Qed.
Lemma gt_on_acc : forall n c, le_res 0 (gt_on n c).
Proof. intros. unfold gt_on. ifs; fin2. Qed.
Lemma tag_on_acc : forall n e ts nm pv c, le_res 0 (tk_tag_on n e ts nm pv c).
Proof. intros. unfold tk_tag_on, tk_tag_done. destruct (tag_step ts c); ifs; fin2. Qed.
Lemma scr_fail_acc : forall cx tb n c, le_res (List.length tb + 1) (scr_fail cx tb n c).
Proof. intros. destruct cx; [apply sdata_on_acc|apply sesc_on_acc|apply sdbl_on_acc]. Qed.
Lemma le_res_mono : forall k k' r, le_res k r -> (k <= k')%nat -> le_res k' r.
Proof. unfold le_res. intros. lia. Qed.

Lemma scr_on_acc : forall st tb n c, le_res (List.length tb + List.length (pending (MScr st)) + 1) (scr_on st tb n c).
Proof.
  intros st tb n c. unfold scr_on.
  destruct st; cbn [pending List.length]; ifs;
    first [ eapply le_res_mono; [apply sdata_on_acc|cbn [List.length]; lia]
          | eapply le_res_mono; [apply sesc_on_acc|cbn [List.length]; lia]
          | eapply le_res_mono; [apply sdbl_on_acc|cbn [List.length]; lia]
          | eapply le_res_mono; [apply sdblstart_on_acc|cbn [List.length]; lia]
          | fin2 ].
Qed.

Lemma add_toks_acc : forall k tb r, le_res 0 r -> le_res (List.length tb) (add_toks (flush k tb) r).
Proof. intros k tb [s ts] H. unfold le_res, add_toks in *. cbn [fst snd] in *. rewrite text_bytes_app, text_bytes_flush. lia. Qed.

Lemma tk_step_acc : forall s c, le_res (tk_acc s + 1) (tk_step s c).
Proof.
  intros [m n tb] c. unfold tk_acc. cbn [tmd tcnt tbuf]. unfold tk_step. cbn [tmd tcnt tbuf].
  assert (EXC : le_res (List.length tb + List.length (pending m) + 1)
                  (tk MStop 0 [], (if is_text_mode m then flush (kind_of m) (c :: push (pending m) tb)
                                   else if is_other_mode m then [TkOther] else []) ++ [TkOver])).
  { unfold le_res, tk_acc, tk. cbn [fst snd tmd tbuf pending List.length]. rewrite text_bytes_app. cbn [text_bytes].
    destruct (is_text_mode m); [rewrite text_bytes_flush; cbn [List.length]; rewrite push_len; lia|].
    destruct (is_other_mode m); cbn [text_bytes]; lia. }
  destruct m; try (destruct (MAXBUF <=? n + 1); [exact EXC|clear EXC]).
  + eapply le_res_mono; [apply txt_on_acc|lia].
  + cbn [pending List.length]. ifs; try (eapply le_res_mono; [apply txt_on_acc|cbn [List.length]; lia]); fin2.
  + ifs; fin2.
  + ifs; try (eapply le_res_mono; [apply gt_on_acc|lia]); fin2.
  + eapply le_res_mono; [apply gt_on_acc|lia].
  + ifs; fin2.
  + ifs; fin2.
  + eapply le_res_mono; [apply tag_on_acc|lia].
  + eapply le_res_mono; [apply raw_on_acc|lia].
  + cbn [pending List.length]. ifs; [fin2|]. eapply le_res_mono; [apply raw_on_acc|cbn [List.length]; lia].
  + cbn [pending List.length]. rewrite rev_length. destruct todo as [|p0 todo].
    * ifs.
      -- eapply le_res_mono; [apply add_toks_acc; apply tag_on_acc|lia].
      -- eapply le_res_mono; [apply raw_on_acc|rewrite push_len; cbn [pending List.length]; rewrite rev_length; lia].
    * ifs; [fin2|]. eapply le_res_mono; [apply raw_on_acc|rewrite push_len; cbn [pending List.length]; rewrite rev_length; lia].
  + fin2.
  + apply scr_on_acc.
  + cbn [pending List.length]. rewrite rev_length. destruct todo as [|p0 todo].
    * ifs.
      -- destruct cx.
         ++ eapply le_res_mono; [apply add_toks_acc; apply tag_on_acc|lia].
         ++ eapply le_res_mono; [apply add_toks_acc; apply tag_on_acc|lia].
         ++ unfold le_res, tk_acc, tk. cbn [fst snd tmd tcnt tbuf pending text_bytes List.length].
            rewrite push_len. cbn [pending List.length]. rewrite rev_length. lia.
      -- eapply le_res_mono; [apply scr_fail_acc|rewrite push_len; cbn [pending List.length]; rewrite rev_length; lia].
    * ifs; [fin2|]. eapply le_res_mono; [apply scr_fail_acc|rewrite push_len; cbn [pending List.length]; rewrite rev_length; lia].
  + fin2.
Qed.

Lemma tk_fin_acc : forall s, (text_bytes (tk_fin s) <= tk_acc s)%nat.
Proof.
  intros [m n tb]. unfold tk_fin, tk_acc. cbn [tmd tbuf].
  destruct m; cbn [is_text_mode is_other_mode]; rewrite ?text_bytes_app, ?text_bytes_flush, ?push_len; cbn [text_bytes]; lia.
Qed.

Lemma tk_run_bytes : forall l s, (text_bytes (tk_run s l) <= tk_acc s + List.length l)%nat.
Proof.
  induction l as [|c l IH]; intros s.
  - cbn [tk_run List.length]. pose proof (tk_fin_acc s). lia.
  - cbn [tk_run List.length]. pose proof (tk_step_acc s c) as A. destruct (tk_step s c) as [s' ts].
    unfold le_res in A. cbn [fst snd] in A. rewrite text_bytes_app. specialize (IH s'). lia.
Qed.

(* ------------------------------------------------------------------ what the decoder holds, for any tokenizer with a bounded buffer *)
Section Buffering.
  Variable T : Type.
  Variable tinit : T.
  Variable tfeed : T -> N -> T * list tok.
  Variable tfin : T -> list tok.
  (* library boundary: the tokenizer holds [theld] raw bytes of the token it is reading, never more than
     its buffer limit, and the text tokens one input byte completes carry at most that many bytes *)
  Variable theld : T -> N.
  Variable tinv : T -> Prop.
  Hypothesis tinv_held : forall t, tinv t -> theld t <= MAXBUF.
  Hypothesis tinv_init : tinv tinit.
  Hypothesis tinv_feed : forall t c, tinv t ->
    tinv (fst (tfeed t c)) /\ N.of_nat (text_bytes (snd (tfeed t c))) <= MAXBUF.
  Hypothesis tinv_fin : forall t, tinv t -> N.of_nat (text_bytes (tfin t)) <= MAXBUF.
  (* the largest Read of the source *)
  Variable B : N.

  Notation prod := (prod T).
  Notation dec := (dec T).

  Definition small (ch : bytes) : Prop := N.of_nat (List.length ch) <= B.
  Definition pinv (p : prod) : Prop :=
    tinv (p_tk p) /\ small (p_cur p) /\ Forall small (p_src p) /\ q_bytes (p_q p) <= 3 * MAXBUF.

  Lemma q_evs_bound : forall a ts, N.of_nat (text_bytes ts) <= MAXBUF -> q_bytes (evs_of (dw_toks a ts)) <= 3 * MAXBUF.
  Proof. intros a ts H. rewrite q_bytes_evs. pose proof (dw_toks_words ts a). lia. Qed.

  Lemma fill_cur_inv : forall cur t a, tinv t ->
    let '(t', a', cur', evs) := fill_cur T tfeed t a cur in
    tinv t' /\ (List.length cur' <= List.length cur)%nat /\ q_bytes evs <= 3 * MAXBUF.
  Proof.
    induction cur as [|c cur IH]; intros t a Ht.
    - cbn [fill_cur]. repeat split; [exact Ht|lia|cbn; unfold MAXBUF; lia].
    - cbn [fill_cur]. pose proof (tinv_feed t c Ht) as [F1 F2]. destruct (tfeed t c) as [t1 ts]. cbn [fst snd] in *.
      pose proof (q_evs_bound a ts F2) as Q.
      destruct (evs_of (dw_toks a ts)) as [|e evs] eqn:E.
      + specialize (IH t1 (w_act (dw_toks a ts)) F1).
        destruct (fill_cur T tfeed t1 (w_act (dw_toks a ts)) cur) as [[[t' a'] cur'] evs'].
        destruct IH as (I1 & I2 & I3). repeat split; [exact I1|cbn [List.length]; lia|exact I3].
      + repeat split; [exact F1|cbn [List.length]; lia|exact Q].
  Qed.

  Lemma fill_src_inv : forall src t a n, tinv t -> Forall small src ->
    let '(t', a', src', cur', evs, n') := fill_src T tfeed t a src n in
    tinv t' /\ small cur' /\ Forall small src' /\ q_bytes evs <= 3 * MAXBUF.
  Proof.
    induction src as [|ch src IH]; intros t a n Ht Hs.
    - cbn [fill_src]. repeat split; [exact Ht|unfold small; cbn; lia|constructor|cbn; unfold MAXBUF; lia].
    - cbn [fill_src]. inversion Hs as [|? ? Hch Hsrc]; subst.
      pose proof (fill_cur_inv ch t a Ht) as F. destruct (fill_cur T tfeed t a ch) as [[[t1 a1] cur1] ev1].
      destruct F as (F1 & F2 & F3). destruct ev1 as [|e ev1].
      + apply IH; assumption.
      + repeat split; [exact F1|unfold small in *; lia|exact Hsrc|exact F3].
  Qed.

  Lemma p_fill_inv : forall p, pinv p -> pinv (p_fill T tfeed tfin p).
  Proof.
    intros p (P1 & P2 & P3 & P4). unfold p_fill. destruct (p_q p) as [|e q] eqn:Q; [|unfold pinv; rewrite Q; repeat split; assumption].
    pose proof (fill_cur_inv (p_cur p) (p_tk p) (p_act p) P1) as F.
    destruct (fill_cur T tfeed (p_tk p) (p_act p) (p_cur p)) as [[[t1 a1] cur1] ev1]. destruct F as (F1 & F2 & F3).
    destruct ev1 as [|e1 ev1].
    - pose proof (fill_src_inv (p_src p) t1 a1 (p_consumed p) F1 P3) as G.
      destruct (fill_src T tfeed t1 a1 (p_src p) (p_consumed p)) as [[[[[t2 a2] src2] cur2] ev2] n2].
      destruct G as (G1 & G2 & G3 & G4). destruct ev2 as [|e2 ev2].
      + unfold pinv. cbn [p_tk p_cur p_src p_q]. repeat split; [exact G1|unfold small; cbn; lia|constructor|].
        apply q_evs_bound. rewrite text_bytes_app. cbn [text_bytes]. pose proof (tinv_fin t2 G1). lia.
      + unfold pinv. cbn [p_tk p_cur p_src p_q]. repeat split; assumption.
    - unfold pinv. cbn [p_tk p_cur p_src p_q]. repeat split; [exact F1|unfold small in *; lia|exact P3|exact F3].
  Qed.

  Lemma pipe_read_inv : forall k p, pinv p ->
    pinv (snd (pipe_read T tfeed tfin k p)) /\
    match fst (pipe_read T tfeed tfin k p) with PData b => (List.length b <= k)%nat | PClosed _ => True end.
  Proof.
    intros k p H. unfold pipe_read. pose proof (p_fill_inv p H) as (P1 & P2 & P3 & P4).
    destruct (p_q (p_fill T tfeed tfin p)) as [|[w|e] q] eqn:Q; cbn [fst snd].
    - split; [repeat split; try assumption; rewrite Q; exact P4|exact I].
    - split; [|apply firstn_le_length]. unfold pinv, set_q. cbn [p_tk p_cur p_src p_q]. repeat split; try assumption.
      cbn [q_bytes] in P4. destruct (skipn k w) as [|x w'] eqn:S; [lia|].
      cbn [q_bytes]. assert (List.length (x :: w') <= List.length w)%nat by (rewrite <- S, skipn_length; lia). lia.
    - split; [repeat split; try assumption; rewrite Q; exact P4|exact I].
  Qed.

  Lemma p_close_inv : forall e p, pinv p -> pinv (p_close T tfeed tfin e p).
  Proof.
    intros e p H. unfold p_close. pose proof (p_fill_inv p H) as (P1 & P2 & P3 & P4).
    destruct (p_q (p_fill T tfeed tfin p)) as [|[w|e1] q] eqn:Q.
    - unfold pinv, set_q. cbn [p_tk p_cur p_src p_q q_bytes]. repeat split; try assumption; try (unfold MAXBUF; lia).
    - unfold pinv, set_q. cbn [p_tk p_cur p_src p_q q_bytes]. repeat split; try assumption; try (unfold MAXBUF; lia).
    - repeat split; try assumption. rewrite Q. exact P4.
  Qed.

  Lemma refill_inv : forall fuel target nbuf rerr p, pinv p ->
    let '(nbuf', rerr', p') := refill T tfeed tfin fuel target nbuf rerr p in
    pinv p' /\ (List.length nbuf' <= Nat.max (List.length nbuf) target)%nat.
  Proof.
    induction fuel as [|fuel IH]; intros target nbuf rerr p H; cbn [refill]; [split; [exact H|lia]|].
    destruct (Nat.ltb (List.length nbuf) 4) eqn:L; [|split; [exact H|lia]].
    destruct rerr; [split; [exact H|lia]|].
    pose proof (pipe_read_inv (target - List.length nbuf) p H) as [R1 R2].
    destruct (pipe_read T tfeed tfin (target - List.length nbuf) p) as [[b|e] p1]; cbn [fst snd] in *.
    - specialize (IH target (nbuf ++ b) None p1 R1).
      destruct (refill T tfeed tfin fuel target (nbuf ++ b) None p1) as [[nbuf' rerr'] p'].
      destruct IH as [I1 I2]. split; [exact I1|]. rewrite app_length in I2. apply Nat.ltb_lt in L. lia.
    - split; [exact R1|lia].
  Qed.

  Definition cbound (c : cons) : Prop := (List.length (c_nbuf c) <= 1024)%nat /\ (List.length (c_out c) <= 768)%nat.
  Definition dinv (d : dec) : Prop := pinv (d_p d) /\ cbound (d_c d).

  Lemma skipn_le {A} : forall n (l : list A), (List.length (skipn n l) <= List.length l)%nat.
  Proof. intros. rewrite skipn_length. lia. Qed.

  Lemma dec_read0_inv : forall n d, dinv d -> dinv (snd (dec_read0 T tfeed tfin n d)).
  Proof.
    intros n [c p] [P [C1 C2]]. unfold dec_read0. cbn [d_c d_p] in *.
    destruct (c_out c) as [|x out] eqn:O.
    - destruct (c_err c); [split; [exact P|split; cbn [snd d_c]; [exact C1|rewrite O; cbn; lia]]|].
      pose proof (refill_inv 4 (clamp_nn n) (c_nbuf c) (c_rerr c) p P) as R.
      destruct (refill T tfeed tfin 4 (clamp_nn n) (c_nbuf c) (c_rerr c) p) as [[nbuf rerr] p']. destruct R as [R1 R2].
      pose proof (clamp_ge4 n) as CL.
      assert (Ln : (List.length nbuf <= 1024)%nat) by lia.
      destruct (Nat.ltb (List.length nbuf) 4); cbn [snd].
      + split; [exact R1|]. split; cbn [d_c c_nbuf c_out List.length]; lia.
      + destruct (div4 (List.length nbuf)) as (k & K1 & K2 & K3 & K4).
        assert (Hcl : List.length (firstn (List.length nbuf / 4 * 4) nbuf) = (4 * k)%nat) by (rewrite firstn_length; lia).
        pose proof (b64_chunk_len k _ Hcl) as Ld.
        destruct (b64_chunk (firstn (List.length nbuf / 4 * 4) nbuf)) as [data bad]. cbn [fst] in Ld.
        destruct (Nat.ltb n (List.length nbuf / 4 * 4 / 4 * 3)); cbn [snd]; (split; [exact R1|]); split; cbn [d_c c_nbuf c_out List.length];
          try (pose proof (skipn_le (List.length nbuf / 4 * 4) nbuf)); try (pose proof (skipn_le n data)); lia.
    - cbn [snd]. split; [exact P|]. split; cbn [d_c c_nbuf c_out]; [exact C1|].
      pose proof (skipn_le n (x :: out)). lia.
  Qed.

  Lemma dec_read_inv : forall n d, dinv d -> dinv (snd (dec_read T tfeed tfin n d)).
  Proof.
    intros n d H. unfold dec_read. pose proof (dec_read0_inv n d H) as I.
    destruct (dec_read0 T tfeed tfin n d) as [[b e] d1]. cbn [snd] in *. destruct e as [[|x]|]; cbn [snd]; try exact I.
    destruct I as [I1 I2]. split; [apply p_close_inv; exact I1|exact I2].
  Qed.

  (* the states a caller can bring the decoder into *)
  Inductive reach (chunks : list bytes) : dec -> Prop :=
  | reach_new : forall d, dec_new T tinit tfeed tfin chunks = NewOk T d -> reach chunks d
  | reach_read : forall d n, reach chunks d -> reach chunks (snd (dec_read T tfeed tfin n d)).

  Lemma p_init_inv : forall chunks, Forall small chunks -> pinv (p_init T tinit chunks).
  Proof. intros chunks H. unfold pinv, p_init. cbn. repeat split; [exact tinv_init|unfold small; cbn; lia|exact H|unfold MAXBUF; lia]. Qed.

  Lemma reach_inv : forall chunks d, Forall small chunks -> reach chunks d -> dinv d.
  Proof.
    intros chunks d Hs R. induction R as [d E|d n R IH].
    - unfold dec_new in E. pose proof (pipe_read_inv 1 (p_init T tinit chunks) (p_init_inv chunks Hs)) as [P _].
      destruct (pipe_read T tfeed tfin 1 (p_init T tinit chunks)) as [[b|e] p1]; cbn [snd] in P.
      + destruct b as [|v b]; [discriminate|]. destruct (v =? VERSION); [|discriminate]. injection E as <-.
        split; [exact P|]. split; cbn; lia.
      + destruct e; discriminate.
    - apply dec_read_inv. exact IH.
  Qed.

  (* everything the decoder holds: raw bytes of the token being read, the rest of the last source Read,
     the words of the current token not yet taken from the pipe, the base64 reader's two arrays *)
  Definition held (d : dec) : N :=
    theld (p_tk (d_p d)) + N.of_nat (List.length (p_cur (d_p d))) + q_bytes (p_q (d_p d)) +
    N.of_nat (List.length (c_nbuf (d_c d))) + N.of_nat (List.length (c_out (d_c d))).

  Theorem held_bound : forall chunks d, Forall small chunks -> reach chunks d ->
    held d <= 4 * MAXBUF + B + 1792.
  Proof.
    intros chunks d Hs R. destruct (reach_inv chunks d Hs R) as [(P1 & P2 & P3 & P4) [C1 C2]].
    unfold held. pose proof (tinv_held _ P1). unfold small in P2. unfold MAXBUF in *. lia.
  Qed.

  (* ... also when NewArmorDecoder fails *)
  Theorem held_bound_new : forall chunks e p, Forall small chunks -> dec_new T tinit tfeed tfin chunks = NewErr T e p ->
    theld (p_tk p) + N.of_nat (List.length (p_cur p)) + q_bytes (p_q p) <= 4 * MAXBUF + B.
  Proof.
    intros chunks e p Hs E. unfold dec_new in E.
    pose proof (pipe_read_inv 1 (p_init T tinit chunks) (p_init_inv chunks Hs)) as [P _].
    destruct (pipe_read T tfeed tfin 1 (p_init T tinit chunks)) as [[b|e1] p1]; cbn [snd] in P.
    - assert (Q : pinv p).
      { destruct b as [|v b]; [injection E as <- <-; apply p_close_inv; exact P|].
        destruct (v =? VERSION); [discriminate|]. injection E as <- <-. apply p_close_inv; exact P. }
      destruct Q as (P1 & P2 & P3 & P4). pose proof (tinv_held _ P1). unfold small in P2. unfold MAXBUF in *. lia.
    - assert (Q : pinv p) by (destruct e1; injection E as <- <-; exact P).
      destruct Q as (P1 & P2 & P3 & P4). pose proof (tinv_held _ P1). unfold small in P2. unfold MAXBUF in *. lia.
  Qed.
End Buffering.
