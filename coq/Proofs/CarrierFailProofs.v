(* CarrierFailProofs.v — a failing downstream write (Model/CarrierFail.v) keeps every invariant of the carrier
   layer, writes to no carrier but leaves (part of) the failed frame on its own, and the bytes it leaves are a prefix
   of the frame of a packet addressed to that carrier's own ClientID. *)
From Coq Require Import List NArith Bool Arith Lia.
From Snow Require Import Lib.Wire Model.Encap Model.CarrierLayer Proofs.CarrierProofs Proofs.CarrierOnceProofs Model.CarrierFail.
Import ListNotations.
Open Scope N_scope.

(* ---------- what the step is *)
Lemma fail_send_spec s i n :
  (exists k p q', nth_error (carriers s) i = Some k /\ k_state k = K_Open /\ q_lookup (k_cid k) (sendqs s) = p :: q' /\
     fail_send s i n =
       ({| carriers := kupd i kill (carriers s); recvq := recvq s; sendqs := q_set (k_cid k) q' (sendqs s);
           accepted := accepted s; delivered := delivered s; consumed := consumed s ++ [(None, k_cid k, p)] |},
        Some (match write_data p with Some w => firstn n w | None => [] end)))
  \/ fail_send s i n = (s, None).
Proof.
  unfold fail_send. destruct (nth_error (carriers s) i) as [k|] eqn:Hk; [|right; reflexivity].
  destruct (k_state k) eqn:Es; try (right; reflexivity).
  destruct (q_lookup (k_cid k) (sendqs s)) as [|p q'] eqn:Eq; [right; reflexivity|].
  left. exists k, p, q'. repeat split; try assumption; reflexivity.
Qed.

(* ---------- the invariants of the carrier layer are kept *)
Lemma fail_send_sinv s i n : SInv s -> SInv (fst (fail_send s i n)).
Proof.
  intros I. destruct (fail_send_spec s i n) as [[k [p [q' [Hk [Es [Eq ->]]]]]]| ->]; [|exact I].
  destruct I as [Iu Ip Id Iw Iq]. cbn [fst].
  assert (Hq : forall c p0, In p0 (q_lookup c (q_set (k_cid k) q' (sendqs s))) -> In (c, p0) (accepted s)).
  { intros c p0 Hin. destruct (beq c (k_cid k)) eqn:E.
    - apply beq_true_eq in E. subst c. rewrite q_lookup_set_same in Hin. apply Iq. rewrite Eq. right. exact Hin.
    - rewrite q_lookup_set_other in Hin by exact E. apply Iq. exact Hin. }
  constructor; cbn.
  - intros p0 a H. destruct (Iu p0 a H) as [j [kj [Hj [Hc [Hu Hnp]]]]].
    destruct (Nat.eq_dec i j) as [<-|Hne].
    + exists i, (kill kj). split; [apply knth_upd_eq; exact Hj|]. repeat split; try assumption.
      unfold pre_open; cbn. intros [H1|H1]; discriminate.
    + exists j, kj. split; [rewrite knth_upd_neq by exact Hne; exact Hj|]. repeat split; assumption.
  - intros j kj Hj Hpre. destruct (knth_upd_inv _ _ _ _ _ Hj) as [[<- [x [Hx ->]]]|[Hne Hj']];
      [unfold pre_open in Hpre; cbn in Hpre; destruct Hpre; discriminate | eapply Ip; eassumption].
  - intros j kj p0 Hj Hin. destruct (knth_upd_inv _ _ _ _ _ Hj) as [[<- [x [Hx ->]]]|[Hne Hj']];
      [cbn in *; eapply Id; eassumption | eapply Id; eassumption].
  - intros j kj Hj. destruct (knth_upd_inv _ _ _ _ _ Hj) as [[<- [x [Hx ->]]]|[Hne Hj']];
      [cbn; eapply Iw; eassumption | eapply Iw; eassumption].
  - exact Hq.
Qed.

Lemma fail_send_oinv s i n : SInv s -> OInv s -> OInv (fst (fail_send s i n)).
Proof.
  intros SI O. destruct (fail_send_spec s i n) as [[k [p [q' [Hk [Es [Eq ->]]]]]]| ->]; [|exact O].
  destruct O as [Ifi Ido Iow Ira]. cbn [fst].
  constructor; cbn [carriers consumed sendqs accepted recvq delivered].
  - intros c. rewrite Ifi. unfold cons_for. rewrite filter_app, map_app. cbn [filter fst snd].
    destruct (beq c (k_cid k)) eqn:E.
    + apply beq_true_eq in E. subst c. rewrite q_lookup_set_same, Eq. cbn. rewrite <- app_assoc. reflexivity.
    + rewrite q_lookup_set_other by exact E. cbn. rewrite app_nil_r. reflexivity.
  - intros j kj Hj. rewrite down_of_snoc, app_nil_r.
    destruct (knth_upd_inv _ _ _ _ _ Hj) as [[<- [x [Hx ->]]]|[Hne Hj']]; [cbn; apply Ido; exact Hx | apply Ido; exact Hj'].
  - intros j c p0 Hin. apply in_app_or in Hin. destruct Hin as [Hin|[Hin|[]]]; [|discriminate].
    destruct (Iow j c p0 Hin) as [kj [Hj [Hc Hnpj]]]. destruct (Nat.eq_dec i j) as [<-|Hne].
    + exists (kill kj). split; [apply knth_upd_eq; exact Hj|]. split; [exact Hc|]. unfold pre_open; cbn. intros [H|H]; discriminate.
    + exists kj. split; [rewrite knth_upd_neq by exact Hne; exact Hj | split; assumption].
  - intros j c p0 Hin. rewrite kupd_length. apply in_app_or in Hin. destruct Hin as [Hin|[Hin|[]]]; [apply (Ira j c p0 Hin) | discriminate].
Qed.

Lemma fstep_inv s o : SInv (f_s s) /\ OInv (f_s s) -> SInv (f_s (fstep s o)) /\ OInv (f_s (fstep s o)).
Proof.
  intros [S O]. destruct o as [o|i n]; cbn [fstep].
  - cbn [f_s]. split; [apply sstep_inv; exact S | apply sstep_oinv; assumption].
  - pose proof (fail_send_sinv (f_s s) i n S) as S'. pose proof (fail_send_oinv (f_s s) i n S O) as O'.
    destruct (fail_send (f_s s) i n) as [s' t]. cbn [f_s fst] in *. split; assumption.
Qed.

Lemma frun_app ops o : frun (ops ++ [o]) = fstep (frun ops) o.
Proof. unfold frun. rewrite fold_left_app. reflexivity. Qed.

Theorem frun_inv : forall ops, SInv (f_s (frun ops)) /\ OInv (f_s (frun ops)).
Proof.
  intros ops. induction ops as [|o ops IH] using rev_ind.
  - split; [apply sinv_init | apply oinv_init].
  - rewrite frun_app. apply fstep_inv. exact IH.
Qed.

(* ---------- the failing write reaches no carrier: every carrier's packets and whole frames are what they were,
   the carrier is dead, the packet has left its queue and is logged as lost *)
Theorem fail_send_frame s i n s' t : fail_send s i n = (s', Some t) ->
  exists k p q', nth_error (carriers s) i = Some k /\ k_state k = K_Open /\ q_lookup (k_cid k) (sendqs s) = p :: q' /\
    t = (match write_data p with Some w => firstn n w | None => [] end) /\
    consumed s' = consumed s ++ [(None, k_cid k, p)] /\
    q_lookup (k_cid k) (sendqs s') = q' /\
    (forall c, beq c (k_cid k) = false -> q_lookup c (sendqs s') = q_lookup c (sendqs s)) /\
    accepted s' = accepted s /\ recvq s' = recvq s /\ delivered s' = delivered s /\
    length (carriers s') = length (carriers s) /\
    (forall j kj, nth_error (carriers s) j = Some kj ->
       exists kj', nth_error (carriers s') j = Some kj' /\ k_down kj' = k_down kj /\ k_wire kj' = k_wire kj /\
                   k_up kj' = k_up kj /\ k_cid kj' = k_cid kj /\
                   k_state kj' = (if Nat.eqb j i then K_Dead else k_state kj)).
Proof.
  intros H. destruct (fail_send_spec s i n) as [[k [p [q' [Hk [Es [Eq E]]]]]]|E]; rewrite E in H; [|discriminate].
  injection H as <- <-. exists k, p, q'. cbn.
  split; [exact Hk|]. split; [exact Es|]. split; [exact Eq|]. split; [reflexivity|]. split; [reflexivity|].
  split; [apply q_lookup_set_same|]. split; [intros c Hc; apply q_lookup_set_other; exact Hc|].
  split; [reflexivity|]. split; [reflexivity|]. split; [reflexivity|]. split; [apply kupd_length|].
  intros j kj Hj. destruct (Nat.eqb_spec j i) as [->|Hne].
  - exists (kill kj). split; [apply knth_upd_eq; exact Hj|]. repeat split.
  - exists kj. split; [rewrite knth_upd_neq by (intro X; apply Hne; symmetry; exact X); exact Hj|]. repeat split.
Qed.

(* ---------- the tails *)
Record TInv (s : fstate) : Prop := {
  (* a tail belongs to a dead carrier that presented a ClientID, and is a prefix of the frame of a packet that WriteTo
     accepted for THAT ClientID and that is logged as lost *)
  ti_tail : forall i t, In (i, t) (f_tail s) ->
    exists k p, nth_error (carriers (f_s s)) i = Some k /\ k_state k = K_Dead /\ ~ pre_open k /\
                In (None, k_cid k, p) (consumed (f_s s)) /\ In (k_cid k, p) (accepted (f_s s)) /\
                exists n, t = (match write_data p with Some w => firstn n w | None => [] end);
  (* at most one failed write per carrier *)
  ti_once : NoDup (map fst (f_tail s))
}.

Lemma dead_stays_f s o i k : nth_error (carriers (f_s s)) i = Some k -> k_state k = K_Dead ->
  exists k', nth_error (carriers (f_s (fstep s o))) i = Some k' /\ k_state k' = K_Dead /\
             k_up k' = k_up k /\ k_down k' = k_down k /\ k_wire k' = k_wire k /\ k_cid k' = k_cid k.
Proof.
  intros Hk Hd. destruct o as [o|j n]; cbn [fstep].
  - cbn [f_s]. destruct (dead_forever (f_s s) i k o Hk Hd) as [k' [H1 [H2 [H3 [H4 H5]]]]].
    exists k'. repeat split; try assumption.
    (* the ClientID of a dead carrier is not touched either *)
    clear H2 H3 H4 H5. destruct o; cbn [sstep] in H1.
    + cbn in H1. rewrite nth_error_app1 in H1 by (apply nth_error_Some; congruence). congruence.
    + destruct (nth_error (carriers (f_s s)) i0) as [k0|] eqn:Hk0; [|congruence].
      destruct (Nat.eq_dec i0 i) as [->|Hne].
      * rewrite Hk in Hk0. injection Hk0 as <-. rewrite Hd in H1. congruence.
      * destruct (k_state k0); try congruence;
        (destruct (pump _ _) as [k2 ps]; cbn in H1; rewrite knth_upd_neq in H1 by exact Hne; congruence).
    + cbn in H1. destruct (Nat.eq_dec i0 i) as [->|Hne].
      * rewrite (knth_upd_eq kill _ _ _ Hk) in H1. injection H1 as <-. reflexivity.
      * rewrite knth_upd_neq in H1 by exact Hne. congruence.
    + destruct (length (q_lookup cid (sendqs (f_s s))) <? QUEUE_SIZE)%nat; cbn in H1; congruence.
    + destruct (nth_error (carriers (f_s s)) i0) as [k0|] eqn:Hk0; [|congruence].
      destruct (Nat.eq_dec i0 i) as [->|Hne].
      * rewrite Hk in Hk0. injection Hk0 as <-. rewrite Hd in H1. congruence.
      * destruct (k_state k0); try congruence.
        destruct (q_lookup (k_cid k0) (sendqs (f_s s))); [congruence|].
        destruct (write_data b); cbn in H1; rewrite knth_upd_neq in H1 by exact Hne; congruence.
    + destruct (recvq (f_s s)); cbn in H1; congruence.
  - destruct (fail_send (f_s s) j n) as [s' t] eqn:E. cbn [f_s].
    destruct t as [t|].
    + destruct (fail_send_frame _ _ _ _ _ E) as [k0 [p [q' [_ [_ [_ [_ [_ [_ [_ [_ [_ [_ [_ Hall]]]]]]]]]]]]]].
      destruct (Hall i k Hk) as [k' [H1 [H2 [H3 [H4 [H5 H6]]]]]]. exists k'. repeat split; try assumption.
      rewrite H6. destruct (Nat.eqb i j); [reflexivity | exact Hd].
    + destruct (fail_send_spec (f_s s) j n) as [[k0 [p [q' [_ [_ [_ E']]]]]]|E']; rewrite E' in E; [discriminate|].
      injection E as <-. exists k. repeat split; assumption.
Qed.

Lemma consumed_grows s o x : In x (consumed (f_s s)) -> In x (consumed (f_s (fstep s o))).
Proof.
  intros H. destruct o as [o|j n]; cbn [fstep].
  - cbn [f_s]. destruct o; cbn [sstep]; try exact H.
    + destruct (nth_error (carriers (f_s s)) i); [|exact H]. destruct (k_state c); try exact H; destruct (pump _ _); exact H.
    + destruct (length (q_lookup cid (sendqs (f_s s))) <? QUEUE_SIZE)%nat; exact H.
    + destruct (nth_error (carriers (f_s s)) i) as [k|]; [|exact H]. destruct (k_state k); try exact H.
      destruct (q_lookup (k_cid k) (sendqs (f_s s))); [exact H|]. destruct (write_data b); cbn; apply in_or_app; left; exact H.
    + destruct (recvq (f_s s)); exact H.
  - destruct (fail_send (f_s s) j n) as [s' t] eqn:E. cbn [f_s].
    destruct (fail_send_spec (f_s s) j n) as [[k0 [p [q' [_ [_ [_ E']]]]]]|E']; rewrite E' in E; injection E as <- _.
    + cbn. apply in_or_app. left. exact H.
    + exact H.
Qed.

Lemma accepted_grows s o x : In x (accepted (f_s s)) -> In x (accepted (f_s (fstep s o))).
Proof.
  intros H. destruct o as [o|j n]; cbn [fstep].
  - cbn [f_s]. destruct o; cbn [sstep]; try exact H.
    + destruct (nth_error (carriers (f_s s)) i); [|exact H]. destruct (k_state c); try exact H; destruct (pump _ _); exact H.
    + destruct (length (q_lookup cid (sendqs (f_s s))) <? QUEUE_SIZE)%nat; [cbn; apply in_or_app; left; exact H | exact H].
    + destruct (nth_error (carriers (f_s s)) i) as [k|]; [|exact H]. destruct (k_state k); try exact H.
      destruct (q_lookup (k_cid k) (sendqs (f_s s))); [exact H|]. destruct (write_data b); exact H.
    + destruct (recvq (f_s s)); exact H.
  - destruct (fail_send (f_s s) j n) as [s' t] eqn:E. cbn [f_s].
    destruct (fail_send_spec (f_s s) j n) as [[k0 [p [q' [_ [_ [_ E']]]]]]|E']; rewrite E' in E; injection E as <- _; exact H.
Qed.

Lemma NoDup_app_one {A} (l : list A) x : NoDup l -> ~ In x l -> NoDup (l ++ [x]).
Proof.
  induction l as [|y l IH]; intros Hn Hx; cbn.
  - constructor; [intros [] | constructor].
  - inversion Hn as [|y' l' Hy Hl]; subst. constructor.
    + intros Hin. apply in_app_or in Hin. destruct Hin as [Hin|[Hin|[]]]; [exact (Hy Hin) | apply Hx; left; symmetry; exact Hin].
    + apply IH; [exact Hl | intros Hin; apply Hx; right; exact Hin].
Qed.

Lemma fstep_tinv s o : SInv (f_s s) -> TInv s -> TInv (fstep s o).
Proof.
  intros SI [Tt To].
  assert (Old : forall i t, In (i, t) (f_tail s) ->
            exists k p, nth_error (carriers (f_s (fstep s o))) i = Some k /\ k_state k = K_Dead /\ ~ pre_open k /\
                In (None, k_cid k, p) (consumed (f_s (fstep s o))) /\ In (k_cid k, p) (accepted (f_s (fstep s o))) /\
                exists n, t = (match write_data p with Some w => firstn n w | None => [] end)).
  { intros i t Hin. destruct (Tt i t Hin) as [k [p [Hk [Hd [Hnp [Hc [Ha Hn]]]]]]].
    destruct (dead_stays_f s o i k Hk Hd) as [k' [H1 [H2 [_ [_ [_ H6]]]]]].
    exists k', p. split; [exact H1|]. split; [exact H2|].
    split; [unfold pre_open; rewrite H2; intros [X|X]; discriminate|].
    rewrite H6. split; [apply consumed_grows; exact Hc|]. split; [apply accepted_grows; exact Ha | exact Hn]. }
  destruct o as [o|j n].
  - constructor; [exact Old | exact To].
  - cbn [fstep] in *. destruct (fail_send (f_s s) j n) as [s' t] eqn:E. cbn [f_s f_tail] in *.
    destruct t as [t|]; [|constructor; [exact Old | exact To]].
    destruct (fail_send_frame _ _ _ _ _ E) as [k [p [q' [Hk [Es [Eq [Ht [Hc [_ [_ [Ha [_ [_ [_ Hall]]]]]]]]]]]]]].
    constructor; cbn [f_s f_tail].
    + intros i t0 Hin. apply in_app_or in Hin. destruct Hin as [Hin|[Hin|[]]]; [apply Old; exact Hin|].
      injection Hin as <- <-. destruct (Hall j k Hk) as [k' [H1 [_ [_ [_ [H5 H6]]]]]]. rewrite Nat.eqb_refl in H6.
      exists k', p. split; [exact H1|]. split; [exact H6|].
      split; [unfold pre_open; rewrite H6; intros [X|X]; discriminate|].
      rewrite H5, Hc, Ha. split; [apply in_or_app; right; left; reflexivity|].
      split; [apply (si_queue _ SI); rewrite Eq; left; reflexivity|]. exists n. exact Ht.
    + rewrite map_app. cbn [map fst]. apply NoDup_app_one; [exact To|].
      intros Hin. apply in_map_iff in Hin. destruct Hin as [[i t0] [Hi Hin]]. cbn in Hi. subst i.
      destruct (Tt j t0 Hin) as [k0 [_ [Hk0 [Hd0 _]]]]. rewrite Hk in Hk0. injection Hk0 as <-. rewrite Es in Hd0. discriminate.
Qed.

Theorem frun_tinv : forall ops, TInv (frun ops).
Proof.
  intros ops. induction ops as [|o ops IH] using rev_ind.
  - constructor; cbn; [intros i t [] | constructor].
  - rewrite frun_app. apply fstep_tinv; [apply (frun_inv ops) | exact IH].
Qed.

(* ---------- everything a carrier was written, as bytes: whole frames of its own packets, then at most the beginning
   of the frame of one more packet of ITS OWN ClientID (the write that failed) *)
Lemma tail_of_none i tails : ~ In i (map fst tails) -> tail_of i tails = [].
Proof.
  induction tails as [|[j t] l IH]; intros H; cbn; [reflexivity|].
  destruct (Nat.eqb_spec j i) as [->|Hne]; [exfalso; apply H; left; reflexivity|].
  apply IH. intros Hin. apply H. right. exact Hin.
Qed.

Lemma tail_of_one i tails : NoDup (map fst tails) -> forall t, In (i, t) tails -> tail_of i tails = t.
Proof.
  induction tails as [|[j t0] l IH]; intros Hn t Hin; [destruct Hin|].
  cbn in Hn. inversion Hn as [|x l' Hx Hl]; subst. unfold tail_of. cbn [filter fst].
  destruct Hin as [Hin|Hin].
  - injection Hin as -> ->. rewrite Nat.eqb_refl. cbn [map snd concat].
    fold (tail_of i l). rewrite (tail_of_none i l Hx). apply app_nil_r.
  - destruct (Nat.eqb_spec j i) as [->|Hne].
    + exfalso. apply Hx. apply in_map_iff. exists (i, t). split; [reflexivity | exact Hin].
    + fold (tail_of i l). apply IH; assumption.
Qed.

Theorem full_wire_spec : forall ops i k,
  nth_error (carriers (f_s (frun ops))) i = Some k ->
  exists (w t : bytes), wire_of (k_down k) = Some w /\ full_wire (frun ops) i k = w ++ t /\
    (t = [] \/
     (k_state k = K_Dead /\ exists p n, In (k_cid k, p) (accepted (f_s (frun ops))) /\
                                        In (None, k_cid k, p) (consumed (f_s (frun ops))) /\
                                        t = (match write_data p with Some wp => firstn n wp | None => [] end))).
Proof.
  intros ops i k Hk. destruct (frun_inv ops) as [SI _]. destruct (frun_tinv ops) as [Tt To].
  exists (k_wire k), (tail_of i (f_tail (frun ops))). split; [apply (si_wire _ SI i k Hk)|]. split; [reflexivity|].
  destruct (in_dec Nat.eq_dec i (map fst (f_tail (frun ops)))) as [Hin|Hnin].
  - right. apply in_map_iff in Hin. destruct Hin as [[j t] [Hj Hin]]. cbn in Hj. subst j.
    destruct (Tt i t Hin) as [k' [p [Hk' [Hd [_ [Hc [Ha [n Hn]]]]]]]]. rewrite Hk in Hk'. injection Hk' as <-.
    split; [exact Hd|]. exists p, n. split; [exact Ha|]. split; [exact Hc|].
    rewrite (tail_of_one i _ To t Hin). exact Hn.
  - left. apply tail_of_none. exact Hnin.
Qed.

(* ---------- the extension is conservative: without failing writes it is the carrier layer *)
Theorem frun_without_failures : forall ops, frun (map F_Op ops) = {| f_s := srun ops; f_tail := [] |}.
Proof.
  intros ops. unfold frun, srun.
  assert (G : forall s, fold_left fstep (map F_Op ops) {| f_s := s; f_tail := [] |} = {| f_s := fold_left sstep ops s; f_tail := [] |}).
  { induction ops as [|o ops IH]; intros s; cbn [map fold_left]; [reflexivity|]. cbn [fstep f_s f_tail]. apply IH. }
  apply G.
Qed.
