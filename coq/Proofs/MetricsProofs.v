(* MetricsProofs.v — proofs about the broker counter model (Model/Metrics.v). *)
From Coq Require Import List NArith ZArith Lia Bool Arith Permutation.
From Coq Require Import ZifyN ZifyNat ZifyBool.
From Snow Require Import Lib.Wire Model.Round8 Model.Metrics Proofs.Round8Proofs.
Import ListNotations.
Open Scope N_scope.

Lemma beq_eq : forall a b, beq a b = true <-> a = b.
Proof.
  induction a as [|x a IH]; destruct b as [|y b]; cbn [beq]; split; intro H; try discriminate; auto.
  - apply andb_true_iff in H. destruct H as [H1 H2]. apply N.eqb_eq in H1. apply IH in H2. subst. reflexivity.
  - inversion H; subst. apply andb_true_iff. split; [apply N.eqb_refl | apply IH; reflexivity].
Qed.
Lemma beq_refl : forall a, beq a a = true.
Proof. intro a. apply beq_eq. reflexivity. Qed.
Lemma beq_neq : forall a b, beq a b = false <-> a <> b.
Proof.
  intros a b. split; intro H.
  - intro E. apply beq_eq in E. congruence.
  - destruct (beq a b) eqn:E; [apply beq_eq in E; contradiction | reflexivity].
Qed.
Definition bytes_dec : forall a b : bytes, {a = b} + {a <> b} := list_eq_dec N.eq_dec.

Lemma mem_In : forall a l, mem a l = true <-> In a l.
Proof.
  induction l as [|x l IH]; cbn [mem In]; split; intro H; try discriminate; try contradiction.
  - apply orb_true_iff in H. destruct H as [H|H]; [left; symmetry; apply beq_eq; exact H | right; apply IH; exact H].
  - apply orb_true_iff. destruct H as [H|H]; [left; apply beq_eq; auto | right; apply IH; exact H].
Qed.

(* ---------- association lists ---------- *)
Lemma aget_aupd : forall V (d : V) f k k' m,
  aget d k (aupd d f k' m) = if beq k k' then f (aget d k m) else aget d k m.
Proof.
  intros V d f k k' m. induction m as [|[k0 v] m IH]; cbn [aupd aget].
  - destruct (beq k k'); reflexivity.
  - destruct (beq k' k0) eqn:E0; cbn [aget].
    + apply beq_eq in E0. subst k0. destruct (beq k k'); reflexivity.
    + destruct (beq k k0) eqn:E1.
      * apply beq_eq in E1. subst k0. assert (E2 : beq k k' = false).
        { apply beq_neq. intro E. subst. rewrite beq_refl in E0. discriminate. }
        rewrite E2. reflexivity.
      * exact IH.
Qed.

(* ---------- field projections of the state transformers ---------- *)
Lemma cnt_bump_prom : forall k s, cnt (bump_prom k s) = cnt s. Proof. reflexivity. Qed.
Lemma prom_bump_ev : forall e s, prom (bump_ev e s) = prom s. Proof. reflexivity. Qed.
Lemma tsets_bump_ev : forall e s, tsets (bump_ev e s) = tsets s. Proof. reflexivity. Qed.
Lemma tsets_bump_prom : forall k s, tsets (bump_prom k s) = tsets s. Proof. reflexivity. Qed.
Lemma prom_bump_prom : forall k s, prom (bump_prom k s) = aupd rc0 inc_seq k (prom s). Proof. reflexivity. Qed.
Lemma cnt_bump_ev : forall e s e', cnt (bump_ev e s) e' = cnt s e' + (if ev_eqb e' e then 1 else 0).
Proof. intros. cbn [cnt bump_ev]. destruct (ev_eqb e' e); lia. Qed.
Lemma cnt_update_country : forall a t n c s, cnt (update_country a t n c s) = cnt s.
Proof. intros. unfold update_country. destruct (mem a (tsets s (norm_type t))); [reflexivity|]. destruct (geo s); reflexivity. Qed.
Lemma prom_update_country : forall a t n c s, prom (update_country a t n c s) = prom s.
Proof. intros. unfold update_country. destruct (mem a (tsets s (norm_type t))); [reflexivity|]. destruct (geo s); reflexivity. Qed.
Lemma tsets_update_country : forall a t n c s u,
  tsets (update_country a t n c s) u =
  if u =? norm_type t then (if mem a (tsets s u) then tsets s u else tsets s u ++ [a]) else tsets s u.
Proof.
  intros. unfold update_country. destruct (u =? norm_type t) eqn:E.
  - apply N.eqb_eq in E. subst u. destruct (mem a (tsets s (norm_type t))); [reflexivity|].
    destruct (geo s); cbn [tsets]; unfold updN; rewrite N.eqb_refl; reflexivity.
  - destruct (mem a (tsets s (norm_type t))); [reflexivity|].
    destruct (geo s); cbn [tsets]; unfold updN; rewrite E; reflexivity.
Qed.

(* ---------- one op: what it does to each observable ---------- *)
Lemma count_ev_app : forall e l1 l2, count_ev e (l1 ++ l2) = count_ev e l1 + count_ev e l2.
Proof. induction l1 as [|x l1 IH]; intro l2; cbn [count_ev app]; [reflexivity | rewrite IH; lia]. Qed.
Lemma count_key_app : forall k l1 l2, count_key k (l1 ++ l2) = count_key k l1 + count_key k l2.
Proof. induction l1 as [|x l1 IH]; intro l2; cbn [count_key app]; [reflexivity | rewrite IH; lia]. Qed.

Lemma step_cnt : forall s o e,
  cnt (apply_op s o) e = if is_zero o then 0 else cnt s e + count_ev e (log_events o).
Proof.
  intros s o e. destruct o as [|a t n relay out|n|n|n| | |ok]; cbn [apply_op is_zero log_events].
  - cbn [count_ev]. lia.
  - destruct relay, out, a as [[ad c]|];
      repeat (rewrite ?cnt_bump_prom, ?cnt_update_country, ?cnt_bump_ev);
      cbn [count_ev app]; repeat match goal with |- context [ev_eqb ?x ?y] => destruct (ev_eqb x y) end; lia.
  - destruct (n =? 2);
      repeat (rewrite ?cnt_bump_prom, ?cnt_bump_ev);
      cbn [count_ev app]; repeat match goal with |- context [ev_eqb ?x ?y] => destruct (ev_eqb x y) end; lia.
  - rewrite cnt_bump_prom, cnt_bump_ev. cbn [count_ev]. destruct (ev_eqb e EvMatched); lia.
  - cbn [count_ev]. lia.
  - cbn [count_ev]. lia.
  - reflexivity.
  - cbn [count_ev set_geo cnt]. lia.
Qed.

Definition bump_all (ks : list bytes) (m : list (bytes * rc)) : list (bytes * rc) :=
  fold_left (fun m k => aupd rc0 inc_seq k m) ks m.

Lemma step_prom : forall s o, prom (apply_op s o) = bump_all (prom_events o) (prom s).
Proof.
  intros s o. destruct o as [|a t n relay out|n|n|n| | |ok]; cbn [apply_op prom_events bump_all fold_left]; try reflexivity.
  - destruct relay, out, a as [[ad c]|]; cbn [app fold_left];
      repeat (rewrite ?prom_bump_prom, ?prom_update_country, ?prom_bump_ev); reflexivity.
  - destruct (n =? 2); repeat (rewrite ?prom_bump_prom, ?prom_bump_ev); reflexivity.
Qed.

Definition set_ins (l : list bytes) (a : bytes) : list bytes := if mem a l then l else l ++ [a].

Lemma step_tsets : forall s o u,
  tsets (apply_op s o) u = if is_zero o then [] else fold_left set_ins (polled u o) (tsets s u).
Proof.
  intros s o u. destruct o as [|a t n relay out|n|n|n| | |ok]; cbn [apply_op is_zero polled fold_left]; try reflexivity.
  - destruct relay, out, a as [[ad c]|]; cbn [fold_left];
      repeat (rewrite ?tsets_bump_prom, ?tsets_update_country, ?tsets_bump_ev); try reflexivity;
      rewrite (N.eqb_sym u); destruct (norm_type t =? u); reflexivity.
  - destruct (n =? 2); reflexivity.
Qed.

(* ---------- generic facts about the folds ---------- *)
Lemma bump_all_spec : forall ks m k,
  rc_ok (aget rc0 k m) ->
  rc_ok (aget rc0 k (bump_all ks m)) /\ fst (aget rc0 k (bump_all ks m)) = fst (aget rc0 k m) + count_key k ks.
Proof.
  induction ks as [|x ks IH]; intros m k H; cbn [bump_all fold_left count_key].
  - split; [exact H | lia].
  - fold (bump_all ks (aupd rc0 inc_seq x m)).
    assert (H' : rc_ok (aget rc0 k (aupd rc0 inc_seq x m)) /\
                 fst (aget rc0 k (aupd rc0 inc_seq x m)) = fst (aget rc0 k m) + (if beq k x then 1 else 0)).
    { rewrite aget_aupd. destruct (beq k x).
      - destruct (inc_seq_ok _ H) as [H1 H2]. split; [exact H1 | rewrite H2; reflexivity].
      - split; [exact H | lia]. }
    destruct H' as [H1 H2]. destruct (IH _ k H1) as [H3 H4]. split; [exact H3 | rewrite H4, H2; lia].
Qed.

Lemma NoDup_snoc : forall (l : list bytes) a, NoDup l -> ~ In a l -> NoDup (l ++ [a]).
Proof.
  induction l as [|x l IH]; intros a ND NI; cbn [app].
  - constructor; [intros []|constructor].
  - inversion ND; subst. constructor.
    + rewrite in_app_iff. cbn [In]. intros [H|[H|[]]]; [contradiction | subst; apply NI; left; reflexivity].
    + apply IH; [assumption | intro H; apply NI; right; exact H].
Qed.

Lemma set_ins_spec : forall l a, NoDup l -> NoDup (set_ins l a) /\ (forall x, In x (set_ins l a) <-> In x l \/ x = a).
Proof.
  intros l a ND. unfold set_ins. destruct (mem a l) eqn:E.
  - apply mem_In in E. split; [exact ND|]. intro x. split; [auto | intros [H| ->]; assumption].
  - split.
    + apply NoDup_snoc; [exact ND | intro H; apply mem_In in H; congruence].
    + intro x. rewrite in_app_iff. cbn [In]. intuition.
Qed.

Lemma fold_set_ins_spec : forall xs l,
  NoDup l -> NoDup (fold_left set_ins xs l) /\ (forall x, In x (fold_left set_ins xs l) <-> In x l \/ In x xs).
Proof.
  induction xs as [|a xs IH]; intros l ND; cbn [fold_left].
  - split; [exact ND|]. intro x. cbn [In]. intuition.
  - destruct (set_ins_spec l a ND) as [ND1 M1]. destruct (IH _ ND1) as [ND2 M2]. split; [exact ND2|].
    intro x. rewrite M2, M1. cbn [In]. intuition.
Qed.

(* ---------- since_zero / exec over a history extended by one op ---------- *)
Lemma since_zero_snoc : forall ops o, since_zero (ops ++ [o]) = if is_zero o then [] else since_zero ops ++ [o].
Proof. intros. unfold since_zero. rewrite fold_left_app. reflexivity. Qed.
Lemma exec_snoc : forall ops o s, exec (ops ++ [o]) s = apply_op (exec ops s) o.
Proof. intros. unfold exec. rewrite fold_left_app. reflexivity. Qed.

(* ---------- the three invariants, for every history ---------- *)
Lemma counts_log : forall g ops e,
  cnt (exec ops (minit g)) e = count_ev e (flat_map log_events (since_zero ops)).
Proof.
  intros g ops e. induction ops as [|o ops IH] using rev_ind.
  - reflexivity.
  - rewrite exec_snoc, since_zero_snoc, step_cnt. destruct (is_zero o).
    + reflexivity.
    + rewrite flat_map_app, count_ev_app, IH. cbn [flat_map]. rewrite app_nil_r. reflexivity.
Qed.

Lemma counts_prom : forall g ops k,
  rc_ok (aget rc0 k (prom (exec ops (minit g)))) /\
  fst (aget rc0 k (prom (exec ops (minit g)))) = count_key k (flat_map prom_events ops).
Proof.
  intros g ops k. induction ops as [|o ops IH] using rev_ind.
  - split; reflexivity.
  - destruct IH as [H1 H2]. rewrite exec_snoc, step_prom.
    destruct (bump_all_spec (prom_events o) _ k H1) as [H3 H4]. split; [exact H3|].
    rewrite H4, H2, flat_map_app, count_key_app. cbn [flat_map]. rewrite app_nil_r. reflexivity.
Qed.

Lemma unique_sets : forall g ops u,
  NoDup (tsets (exec ops (minit g)) u) /\
  (forall a, In a (tsets (exec ops (minit g)) u) <-> In a (flat_map (polled u) (since_zero ops))).
Proof.
  intros g ops u. induction ops as [|o ops IH] using rev_ind.
  - split; [constructor|]. intro a. cbn. tauto.
  - destruct IH as [ND M]. rewrite exec_snoc, since_zero_snoc, step_tsets. destruct (is_zero o).
    + split; [constructor|]. intro a. cbn. tauto.
    + destruct (fold_set_ins_spec (polled u o) _ ND) as [ND' M']. split; [exact ND'|].
      intro a. rewrite M', M, flat_map_app, in_app_iff. cbn [flat_map]. rewrite app_nil_r. tauto.
Qed.

Lemma NoDup_same_length : forall (l1 l2 : list bytes), NoDup l1 -> NoDup l2 -> (forall a, In a l1 <-> In a l2) -> length l1 = length l2.
Proof.
  intros l1 l2 N1 N2 H. apply Nat.le_antisymm; apply NoDup_incl_length; auto; intros a Ha; apply H; exact Ha.
Qed.

(* ---------- the published figures ---------- *)
Lemma printed_counts : forall g ops e,
  r_ev (print (exec ops (minit g))) e = bin (count_ev e (flat_map log_events (since_zero ops))).
Proof. intros. cbn [print r_ev]. rewrite counts_log. reflexivity. Qed.

Lemma prom_counts : forall g ops k,
  prom_value (exec ops (minit g)) k = bin (count_key k (flat_map prom_events ops)).
Proof.
  intros g ops k. unfold prom_value. destruct (counts_prom g ops k) as [H1 H2]. unfold rc_ok in H1. rewrite H1, H2. reflexivity.
Qed.

Definition distinct_polled (u : N) (ops : list op) : N :=
  N.of_nat (length (nodup bytes_dec (flat_map (polled u) (since_zero ops)))).

Lemma set_len : forall g ops u, len (tsets (exec ops (minit g)) u) = distinct_polled u ops.
Proof.
  intros g ops u. unfold len, distinct_polled. f_equal. destruct (unique_sets g ops u) as [ND M].
  apply NoDup_same_length; [exact ND | apply NoDup_nodup |]. intro a. rewrite M, nodup_In. tauto.
Qed.

Lemma printed_unique : forall g ops,
  let r := print (exec ops (minit g)) in
  (forall t, r_type r t = distinct_polled t ops) /\
  r_total r = distinct_polled 4 ops + (distinct_polled 0 ops + distinct_polled 1 ops + distinct_polled 2 ops + distinct_polled 3 ops).
Proof.
  intros g ops r. subst r. cbn [print r_type r_total]. split.
  - intro t. apply set_len.
  - rewrite !set_len. reflexivity.
Qed.

(* the reports of a whole run are the [print]s of the states reached at the Print ops *)
Lemma run_ops_reports : forall ops s acc,
  snd (run_ops ops s acc) = List.rev acc ++ snd (run_ops ops s []) /\ fst (run_ops ops s acc) = exec ops s.
Proof.
  induction ops as [|o ops IH]; intros s acc.
  - cbn. rewrite app_nil_r. auto.
  - destruct o; cbn [run_ops exec fold_left apply_op]; try (apply IH).
    destruct (IH s (print s :: acc)) as [H1 H2]. destruct (IH s [print s]) as [H3 H4].
    split; [|exact H2]. rewrite H1, H3. cbn [List.rev app]. rewrite <- app_assoc. reflexivity.
Qed.

Lemma run_ops_prefix : forall pre post g,
  snd (run_ops (pre ++ Print :: post) (minit g) []) =
  snd (run_ops pre (minit g) []) ++ print (exec pre (minit g)) :: snd (run_ops post (exec pre (minit g)) []).
Proof.
  intros pre post g. generalize (minit g) as s. induction pre as [|o pre IH]; intro s.
  - cbn [app run_ops exec fold_left]. destruct (run_ops_reports post s [print s]) as [H _]. rewrite H. reflexivity.
  - destruct o; cbn [app run_ops exec fold_left apply_op]; try (apply IH).
    destruct (run_ops_reports (pre ++ Print :: post) s [print s]) as [H1 _].
    destruct (run_ops_reports pre s [print s]) as [H2 _]. rewrite H1, H2, IH. reflexivity.
Qed.
