(* ConnectProofs.v — NewWebRTCPeerWithEvents / connect (coq/Model/Connect.v). The outcome space is
   finite (7 booleans); every lemma is a complete case analysis over it. *)
From Coq Require Import List Bool.
From Snow Require Import Model.Connect.
Import ListNotations.

(* repaired code: whatever fails, the result is Ok or Err, never a panic; on Err everything that was
   acquired has been released and no staleness checker runs; on Ok the peer is open *)
Lemma connect_total_v1 : forall o,
  let '(r, c) := new_peer CV1 o in
  r <> Conn_Panic /\
  (r = Conn_Err -> all_released c = true /\ stale_checker c = false) /\
  (r = Conn_Ok -> pc c = Some false /\ dc c = Some false /\ peer_closed c = false /\ stale_checker c = true
                  /\ (o_newpc o && o_createdc o && o_offer o && o_setlocal o && o_negotiate o && o_setremote o && o_open o = true)).
Proof.
  intros [[] [] [] [] [] [] []]; vm_compute; repeat split; intros; try discriminate; auto.
Qed.

(* the broker is contacted at most once per attempt, and only after the offer was prepared *)
Lemma connect_rendezvous_once : forall v o, rv_calls (snd (new_peer v o)) <= 1 /\
  (rv_calls (snd (new_peer v o)) = 1 -> o_newpc o && o_createdc o && o_offer o && o_setlocal o = true).
Proof.
  intros [] [[] [] [] [] [] [] []]; vm_compute; split; intros; auto; discriminate.
Qed.

(* pinned code: when NewPeerConnection fails, connect panics, and the pipe of the half-built peer is left open *)
Lemma connect_v0_nil_pc : forall o, o_newpc o = false ->
  fst (new_peer CV0 o) = Conn_Panic /\ all_released (snd (new_peer CV0 o)) = false.
Proof.
  intros [[] [] [] [] [] [] []] H; try discriminate; vm_compute; split; reflexivity.
Qed.

(* ... and that is the only way the pinned connect panics *)
Lemma connect_v0_panic_iff : forall o, fst (new_peer CV0 o) = Conn_Panic <-> o_newpc o = false.
Proof.
  intros [[] [] [] [] [] [] []]; vm_compute; split; intros; auto; discriminate.
Qed.

(* every event of an attempt, whatever fails and in both code versions, can be rendered: a failure event always
   carries its error (so the listener of the client binary, which calls String() on every event, cannot panic) *)
Lemma connect_events_render : forall v o, forallb render_ok (events (snd (new_peer v o))) = true.
Proof. intros [] [[] [] [] [] [] [] []]; vm_compute; reflexivity. Qed.

(* and a failed attempt that got as far as the broker or further has told the listener so, except when it is
   SetRemoteDescription that refuses the answer (that failure is only returned to connectLoop, which logs it) *)
Definition flagged (e : cevent) : bool :=
  match e with Ev_offer true | Ev_rendezvous true | Ev_failed _ => true | _ => false end.

Lemma connect_failure_reported : forall o, fst (new_peer CV1 o) = Conn_Err ->
  existsb flagged (events (snd (new_peer CV1 o))) = true \/
  (o_newpc o && o_createdc o && o_offer o && o_setlocal o && o_negotiate o = true /\ o_setremote o = false).
Proof.
  intros [[] [] [] [] [] [] []]; vm_compute; intros H; try discriminate; auto.
Qed.
