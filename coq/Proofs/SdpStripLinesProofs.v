(* SdpStripLinesProofs.v — proofs about Model/SdpStripLines.v (C08: whole description at line
   level; the keep flag at the two call sites). *)
From Coq Require Import List NArith Bool Lia.
From Snow Require Import Lib.Wire Model.IpClass Model.SdpStrip Model.SdpStripLines.
From Snow Require Import Proofs.IpClassProofs Proofs.SdpStripProofs.
Import ListNotations.
Open Scope N_scope.

Definition keep_line (l : line) : bool := negb (bad_host_line l).

Lemma bad_host_attr_line : forall a, bad_host_line (attr_line a) = bad_host a.
Proof. intros [i c]. reflexivity. Qed.

Lemma filter_app' : forall {A} (f : A -> bool) l1 l2, filter f (l1 ++ l2) = filter f l1 ++ filter f l2.
Proof. intros A f l1 l2. induction l1 as [|x l1 IH]; cbn [filter app]; [reflexivity|]. destruct (f x); cbn [app]; rewrite IH; reflexivity. Qed.

Lemma filter_all : forall {A} (f : A -> bool) l, (forall x, In x l -> f x = true) -> filter f l = l.
Proof.
  intros A f l H. induction l as [|x l IH]; cbn [filter]; [reflexivity|].
  rewrite (H x (or_introl eq_refl)). f_equal. apply IH. intros y Hy. apply H. right. exact Hy.
Qed.

Lemma filter_flat_map : forall {A B} (p : B -> bool) (f : A -> list B) l,
  filter p (flat_map f l) = flat_map (fun x => filter p (f x)) l.
Proof. intros A B p f l. induction l as [|x l IH]; cbn [flat_map]; [reflexivity|]. rewrite filter_app', IH. reflexivity. Qed.

Lemma filter_attr_lines : forall attrs,
  filter keep_line (map attr_line attrs) = map attr_line (filter keep attrs).
Proof.
  induction attrs as [|a attrs IH]; cbn [map filter]; [reflexivity|].
  unfold keep_line at 1, keep at 1. rewrite bad_host_attr_line.
  destruct (bad_host a); cbn [negb map]; rewrite IH; reflexivity.
Qed.

Lemma filter_head_lines : forall ids, filter keep_line (map (fun i => mkLine i KHead) ids) = map (fun i => mkLine i KHead) ids.
Proof. intros ids. apply filter_all. intros x Hx. apply in_map_iff in Hx. destruct Hx as [i [E _]]. subst x. reflexivity. Qed.

Lemma filter_session_lines : forall ids, filter keep_line (map (fun i => mkLine i KSession) ids) = map (fun i => mkLine i KSession) ids.
Proof. intros ids. apply filter_all. intros x Hx. apply in_map_iff in Hx. destruct Hx as [i [E _]]. subst x. reflexivity. Qed.

Lemma marshal_media_strip : forall m, marshal_media (strip_msec m) = filter keep_line (marshal_media m).
Proof.
  intros m. unfold marshal_media, strip_msec. cbn [ms_head ms_attrs].
  rewrite filter_app', filter_head_lines, filter_attr_lines, strip_media_filter. reflexivity.
Qed.

(* the output, line for line, is the input minus exactly the local host candidate lines *)
Lemma marshal_strip : forall d, marshal (strip_sdesc d) = filter keep_line (marshal d).
Proof.
  intros d. unfold marshal, strip_sdesc. cbn [sd_session sd_media].
  rewrite filter_app', filter_session_lines, filter_flat_map. f_equal.
  induction (sd_media d) as [|m ms IH]; cbn [map flat_map]; [reflexivity|].
  rewrite marshal_media_strip, IH. reflexivity.
Qed.

Lemma lines_preserved : forall d,
  marshal (strip_sdesc d) = filter (fun l => negb (bad_host_line l)) (marshal d)
  /\ Sublist (marshal (strip_sdesc d)) (marshal d)
  /\ (forall l, In l (marshal (strip_sdesc d)) <-> In l (marshal d) /\ bad_host_line l = false).
Proof.
  intros d. rewrite marshal_strip. split; [reflexivity|]. split; [apply filter_sublist|].
  intros l. rewrite filter_In. unfold keep_line. rewrite negb_true_iff. tauto.
Qed.

Lemma no_local_line_left : forall d l, In l (marshal (strip_sdesc d)) -> bad_host_line l = false.
Proof. intros d l H. apply (proj2 (proj2 (lines_preserved d))) in H. tauto. Qed.

(* … in terms of addresses *)
Lemma bad_host_line_spec : forall l,
  bad_host_line l = true <-> exists ip, l_kind l = KAttr (Cand Host (Some ip)) /\ bad_addr ip = true.
Proof.
  intros [i k]. unfold bad_host_line. cbn [l_kind l_id]. split.
  - destruct k as [| |c]; try discriminate. intro H. apply bad_host_spec in H. cbn [a_class] in H.
    destruct H as [ip [E Hb]]. exists ip. subst c. split; [reflexivity|exact Hb].
  - intros [ip [E Hb]]. subst k. apply bad_host_spec. exists ip. split; [reflexivity|exact Hb].
Qed.

Lemma no_local_line_left_addr : forall d l ip,
  In l (marshal (strip_sdesc d)) -> l_kind l = KAttr (Cand Host (Some ip)) ->
  is_local ip = false /\ is_unspecified ip = false /\ is_loopback ip = false.
Proof.
  intros d l ip Hin Hk. pose proof (no_local_line_left d l Hin) as Hb.
  assert (Hba : bad_addr ip = false).
  { destruct (bad_addr ip) eqn:E; [|reflexivity]. exfalso.
    assert (bad_host_line l = true) by (apply bad_host_line_spec; exists ip; auto). congruence. }
  unfold bad_addr in Hba. apply orb_false_iff in Hba. destruct Hba as [Hba H3]. apply orb_false_iff in Hba. tauto.
Qed.

(* every line that is not a media-level attribute survives, and so does every attribute line that
   is not a parsed host candidate with a local address: the projections onto those are unchanged *)
Definition is_attr_line (l : line) : bool := match l_kind l with KAttr _ => true | _ => false end.

Lemma filter_filter_sub : forall {A} (p q : A -> bool) l,
  (forall x, p x = true -> q x = true) -> filter p (filter q l) = filter p l.
Proof.
  intros A p q l H. induction l as [|x l IH]; cbn [filter]; [reflexivity|].
  destruct (q x) eqn:Eq; cbn [filter].
  - rewrite IH. reflexivity.
  - destruct (p x) eqn:Ep; [rewrite (H x Ep) in Eq; discriminate|exact IH].
Qed.

Lemma non_attr_lines_identical : forall d,
  filter (fun l => negb (is_attr_line l)) (marshal (strip_sdesc d)) = filter (fun l => negb (is_attr_line l)) (marshal d).
Proof.
  intros d. rewrite marshal_strip. apply filter_filter_sub. intros [i k] H.
  unfold keep_line, bad_host_line, is_attr_line in *. cbn [l_kind] in *. destruct k; [reflexivity|reflexivity|discriminate].
Qed.

Lemma kept_lines_identical : forall d,
  filter keep_line (marshal (strip_sdesc d)) = filter keep_line (marshal d).
Proof. intros d. rewrite marshal_strip. apply filter_filter_sub. auto. Qed.

Lemma clean_lines_unchanged : forall d,
  (forall l, In l (marshal d) -> bad_host_line l = false) -> marshal (strip_sdesc d) = marshal d.
Proof. intros d H. rewrite marshal_strip. apply filter_all. intros x Hx. unfold keep_line. rewrite (H x Hx). reflexivity. Qed.

(* the attribute part is the old model *)
Lemma strip_sdesc_attrs : forall d, map ms_attrs (sd_media (strip_sdesc d)) = strip (map ms_attrs (sd_media d)).
Proof.
  intros d. unfold strip_sdesc, strip. cbn [sd_media]. rewrite !map_map. apply map_ext. reflexivity.
Qed.

Lemma strip_sdesc_rest : forall d,
  sd_session (strip_sdesc d) = sd_session d /\ map ms_head (sd_media (strip_sdesc d)) = map ms_head (sd_media d).
Proof.
  intros d. split; [reflexivity|]. unfold strip_sdesc. cbn [sd_media]. rewrite map_map. apply map_ext. reflexivity.
Qed.

(* ---------------------------------------------------------------- call sites *)

Lemma to_send_strips : forall p l, to_send false p = Lines l ->
  (forall x, In x l -> bad_host_line x = false)
  /\ exists d, p = Some d /\ l = filter (fun x => negb (bad_host_line x)) (marshal d).
Proof.
  intros p l H. unfold to_send, strip_lines in H. destruct p as [d|]; [|discriminate].
  inversion H; subst l. split.
  - intros x Hx. apply (no_local_line_left d x Hx).
  - exists d. split; [reflexivity|apply marshal_strip].
Qed.

Lemma to_send_original_only_unparsable : forall p, to_send false p = Original -> p = None.
Proof. intros [d|] H; [discriminate|reflexivity]. Qed.

Lemma to_send_keep : forall p, to_send true p = Original.
Proof. reflexivity. Qed.

Lemma client_site : forall cfg ok p s, client_offer_sent cfg ok p = Some s ->
  (cc_keep cfg = true -> s = Original)
  /\ (cc_keep cfg = false ->
        (s = Original /\ p = None)
        \/ exists d, p = Some d /\ s = Lines (filter (fun x => negb (bad_host_line x)) (marshal d))
                     /\ forall x, In x (filter (fun x => negb (bad_host_line x)) (marshal d)) -> bad_host_line x = false).
Proof.
  intros cfg ok p s H. unfold client_offer_sent, channel_keep in H. destruct ok; [|discriminate].
  cbn [option_map] in H. inversion H; subst s. clear H. split; intro Hk; rewrite Hk.
  - reflexivity.
  - destruct p as [d|].
    + right. exists d. split; [reflexivity|]. unfold to_send, strip_lines. rewrite marshal_strip. split; [reflexivity|].
      intros x Hx. apply filter_In in Hx. destruct Hx as [_ Hx]. apply negb_true_iff in Hx. exact Hx.
    + left. split; reflexivity.
Qed.

Lemma client_site_urls_irrelevant : forall cfg cfg' p,
  cc_keep cfg = cc_keep cfg' -> client_offer_sent cfg true p = client_offer_sent cfg' true p.
Proof. intros cfg cfg' p H. unfold client_offer_sent, channel_keep. rewrite H. reflexivity. Qed.

Lemma proxy_site : forall url ok keep p s, proxy_answer_sent url ok keep p = Some s ->
  (keep = true -> s = Original)
  /\ (keep = false ->
        (s = Original /\ p = None)
        \/ exists d, p = Some d /\ s = Lines (filter (fun x => negb (bad_host_line x)) (marshal d))
                     /\ forall x, In x (filter (fun x => negb (bad_host_line x)) (marshal d)) -> bad_host_line x = false).
Proof.
  intros url ok keep p s H. unfold proxy_answer_sent, signaling_keep in H. destruct ok; [|discriminate].
  cbn [option_map] in H. inversion H; subst s. clear H. split; intro Hk; subst keep.
  - reflexivity.
  - destruct p as [d|].
    + right. exists d. split; [reflexivity|]. unfold to_send, strip_lines. rewrite marshal_strip. split; [reflexivity|].
      intros x Hx. apply filter_In in Hx. destruct Hx as [_ Hx]. apply negb_true_iff in Hx. exact Hx.
    + left. split; reflexivity.
Qed.

(* an all-local description is sent WITHOUT its candidates, not with them (there is no fallback
   to the unstripped text): no line of what is sent is a local host candidate, whatever the input *)
Lemma sent_never_leaks : forall p l, to_send false p = Lines l -> Forall (fun x => bad_host_line x = false) l.
Proof. intros p l H. apply Forall_forall. apply (proj1 (to_send_strips p l H)). Qed.
