(* SdpStripLinesProofs.v — proofs about Model/SdpStripLines.v (C08: whole description at line
   level; the keep flag at the two call sites). *)
From Coq Require Import List NArith Bool Lia.
From Snow Require Import Lib.Wire Model.IpClass Model.SdpStrip Model.SdpStripLines.
From Snow Require Import Proofs.IpClassProofs Proofs.SdpStripProofs.
Import ListNotations.
Open Scope N_scope.

Definition keep_line (l : line) : bool := negb (bad_host_line l).

Lemma bad_host_attr_line : forall a, bad_host_line (attr_line a) = bad_host a.
Proof. intros [i c]. reflexivity. Qed.

Lemma filter_app' : forall {A} (f : A -> bool) l1 l2, filter f (l1 ++ l2) = filter f l1 ++ filter f l2.
Proof. intros A f l1 l2. induction l1 as [|x l1 IH]; cbn [filter app]; [reflexivity|]. destruct (f x); cbn [app]; rewrite IH; reflexivity. Qed.

Lemma filter_all : forall {A} (f : A -> bool) l, (forall x, In x l -> f x = true) -> filter f l = l.
Proof.
  intros A f l H. induction l as [|x l IH]; cbn [filter]; [reflexivity|].
  rewrite (H x (or_introl eq_refl)). f_equal. apply IH. intros y Hy. apply H. right. exact Hy.
Qed.

Lemma filter_flat_map : forall {A B} (p : B -> bool) (f : A -> list B) l,
  filter p (flat_map f l) = flat_map (fun x => filter p (f x)) l.
Proof. intros A B p f l. induction l as [|x l IH]; cbn [flat_map]; [reflexivity|]. rewrite filter_app', IH. reflexivity. Qed.

Lemma filter_attr_lines : forall attrs,
  filter keep_line (map attr_line attrs) = map attr_line (filter keep attrs).
Proof.
  induction attrs as [|a attrs IH]; cbn [map filter]; [reflexivity|].
  unfold keep_line at 1, keep at 1. rewrite bad_host_attr_line.
  destruct (bad_host a); cbn [negb map]; rewrite IH; reflexivity.
Qed.

Lemma filter_head_lines : forall ids, filter keep_line (map (fun i => mkLine i KHead) ids) = map (fun i => mkLine i KHead) ids.
Proof. intros ids. apply filter_all. intros x Hx. apply in_map_iff in Hx. destruct Hx as [i [E _]]. subst x. reflexivity. Qed.

Lemma filter_session_lines : forall ids, filter keep_line (map (fun i => mkLine i KSession) ids) = map (fun i => mkLine i KSession) ids.
Proof. intros ids. apply filter_all. intros x Hx. apply in_map_iff in Hx. destruct Hx as [i [E _]]. subst x. reflexivity. Qed.

Lemma marshal_media_strip : forall m, marshal_media (strip_msec m) = filter keep_line (marshal_media m).
Proof.
  intros m. unfold marshal_media, strip_msec. cbn [ms_head ms_attrs].
  rewrite filter_app', filter_head_lines, filter_attr_lines, strip_media_filter. reflexivity.
Qed.

(* the output, line for line, is the input minus exactly the local host candidate lines *)
Lemma marshal_strip : forall d, marshal (strip_sdesc d) = filter keep_line (marshal d).
Proof.
  intros d. unfold marshal, strip_sdesc. cbn [sd_session sd_media].
  rewrite filter_app', filter_session_lines, filter_flat_map. f_equal.
  induction (sd_media d) as [|m ms IH]; cbn [map flat_map]; [reflexivity|].
  rewrite marshal_media_strip, IH. reflexivity.
Qed.

Lemma lines_preserved : forall d,
  marshal (strip_sdesc d) = filter (fun l => negb (bad_host_line l)) (marshal d)
  /\ Sublist (marshal (strip_sdesc d)) (marshal d)
  /\ (forall l, In l (marshal (strip_sdesc d)) <-> In l (marshal d) /\ bad_host_line l = false).
Proof.
  intros d. rewrite marshal_strip. split; [reflexivity|]. split; [apply filter_sublist|].
  intros l. rewrite filter_In. unfold keep_line. rewrite negb_true_iff. tauto.
Qed.

Lemma no_local_line_left : forall d l, In l (marshal (strip_sdesc d)) -> bad_host_line l = false.
Proof. intros d l H. apply (proj2 (proj2 (lines_preserved d))) in H. tauto. Qed.

(* … in terms of addresses *)
Lemma bad_host_line_spec : forall l,
  bad_host_line l = true <-> exists ip, l_kind l = KAttr (Cand Host (Some ip)) /\ bad_addr ip = true.
Proof.
  intros [i k]. unfold bad_host_line. cbn [l_kind l_id]. split.
  - destruct k as [| |c]; try discriminate. intro H. apply bad_host_spec in H. cbn [a_class] in H.
    destruct H as [ip [E Hb]]. exists ip. subst c. split; [reflexivity|exact Hb].
  - intros [ip [E Hb]]. subst k. apply bad_host_spec. exists ip. split; [reflexivity|exact Hb].
Qed.

Lemma no_local_line_left_addr : forall d l ip,
  In l (marshal (strip_sdesc d)) -> l_kind l = KAttr (Cand Host (Some ip)) ->
  is_local ip = false /\ is_unspecified ip = false /\ is_loopback ip = false.
Proof.
  intros d l ip Hin Hk. pose proof (no_local_line_left d l Hin) as Hb.
  assert (Hba : bad_addr ip = false).
  { destruct (bad_addr ip) eqn:E; [|reflexivity]. exfalso.
    assert (bad_host_line l = true) by (apply bad_host_line_spec; exists ip; auto). congruence. }
  unfold bad_addr in Hba. apply orb_false_iff in Hba. destruct Hba as [Hba H3]. apply orb_false_iff in Hba. tauto.
Qed.

(* every line that is not a media-level attribute survives, and so does every attribute line that
   is not a parsed host candidate with a local address: the projections onto those are unchanged *)
Definition is_attr_line (l : line) : bool := match l_kind l with KAttr _ => true | _ => false end.

Lemma filter_filter_sub : forall {A} (p q : A -> bool) l,
  (forall x, p x = true -> q x = true) -> filter p (filter q l) = filter p l.
Proof.
  intros A p q l H. induction l as [|x l IH]; cbn [filter]; [reflexivity|].
  destruct (q x) eqn:Eq; cbn [filter].
  - rewrite IH. reflexivity.
  - destruct (p x) eqn:Ep; [rewrite (H x Ep) in Eq; discriminate|exact IH].
Qed.

Lemma non_attr_lines_identical : forall d,
  filter (fun l => negb (is_attr_line l)) (marshal (strip_sdesc d)) = filter (fun l => negb (is_attr_line l)) (marshal d).
Proof.
  intros d. rewrite marshal_strip. apply filter_filter_sub. intros [i k] H.
  unfold keep_line, bad_host_line, is_attr_line in *. cbn [l_kind] in *. destruct k; [reflexivity|reflexivity|discriminate].
Qed.

Lemma kept_lines_identical : forall d,
  filter keep_line (marshal (strip_sdesc d)) = filter keep_line (marshal d).
Proof. intros d. rewrite marshal_strip. apply filter_filter_sub. auto. Qed.

Lemma clean_lines_unchanged : forall d,
  (forall l, In l (marshal d) -> bad_host_line l = false) -> marshal (strip_sdesc d) = marshal d.
Proof. intros d H. rewrite marshal_strip. apply filter_all. intros x Hx. unfold keep_line. rewrite (H x Hx). reflexivity. Qed.

(* the attribute part is the old model *)
Lemma strip_sdesc_attrs : forall d, map ms_attrs (sd_media (strip_sdesc d)) = strip (map ms_attrs (sd_media d)).
Proof.
  intros d. unfold strip_sdesc, strip. cbn [sd_media]. rewrite !map_map. apply map_ext. reflexivity.
Qed.

Lemma strip_sdesc_rest : forall d,
  sd_session (strip_sdesc d) = sd_session d /\ map ms_head (sd_media (strip_sdesc d)) = map ms_head (sd_media d).
Proof.
  intros d. split; [reflexivity|]. unfold strip_sdesc. cbn [sd_media]. rewrite map_map. apply map_ext. reflexivity.
Qed.

(* ---------------------------------------------------------------- call sites *)

Definition keepf := fun x : line => negb (bad_host_line x).

Lemma filter_keepf_clean : forall l x, In x (filter keepf l) -> bad_host_line x = false.
Proof. intros l x Hx. apply filter_In in Hx. destruct Hx as [_ Hx]. apply negb_true_iff in Hx. exact Hx. Qed.

(* flag off, something freshly marshalled goes out: then Marshal succeeded, and it is the stripped text *)
Lemma to_send_strips : forall mok p l, to_send false mok p = Lines l ->
  mok = true
  /\ (forall x, In x l -> bad_host_line x = false)
  /\ exists d, p = Some d /\ l = filter (fun x => negb (bad_host_line x)) (marshal d).
Proof.
  intros mok p l H. unfold to_send, to_send_lib, strip_lines_lib, observed_marshal in H.
  destruct p as [d|]; [|discriminate]. destruct mok; [|discriminate].
  inversion H; subst l. split; [reflexivity|]. split.
  - intros x Hx. apply (no_local_line_left d x Hx).
  - exists d. split; [reflexivity|apply marshal_strip].
Qed.

(* flag off, the original text goes out: exactly when one of the two library calls failed *)
Lemma to_send_original_iff : forall mok p, to_send false mok p = Original <-> p = None \/ mok = false.
Proof.
  intros mok p. unfold to_send, to_send_lib, strip_lines_lib, observed_marshal.
  destruct p as [d|]; destruct mok; split; intros H; try reflexivity; try discriminate; auto.
  destruct H; discriminate.
Qed.

(* under "Marshal succeeded" *)
Lemma to_send_original_only_unparsable : forall p, to_send false true p = Original -> p = None.
Proof. intros p H. apply to_send_original_iff in H. destruct H; [assumption|discriminate]. Qed.

Lemma to_send_keep : forall mok p, to_send true mok p = Original.
Proof. reflexivity. Qed.

(* Marshal failed: the ORIGINAL text is handed to the broker, local host candidates included *)
Lemma to_send_marshal_failed : forall p, to_send false false p = Original.
Proof. intros p. apply to_send_original_iff. right. reflexivity. Qed.

Definition leak_witness : sdesc := mkSdesc [0] [mkMsec [1] [mkAttr 2 (Cand Host (Some [10;0;0;1]))]].

Lemma marshal_failure_leaks :
  to_send false false (Some leak_witness) = Original
  /\ (exists l, In l (marshal leak_witness) /\ bad_host_line l = true)
  /\ to_send false true (Some leak_witness) = Lines [mkLine 0 KSession; mkLine 1 KHead].
Proof.
  split; [reflexivity|]. split; [|reflexivity].
  exists (mkLine 2 (KAttr (Cand Host (Some [10;0;0;1])))). split; [right; right; left; reflexivity | reflexivity].
Qed.

(* ---- the same over the library function: what the property needs of pion/sdp *)
Section PionMarshal.
  Variable pion_marshal : sdesc -> option (list line).
  (* when Marshal succeeds it writes the lines of the structure, in order (checked on every case) *)
  Hypothesis marshal_writes : forall d l, pion_marshal d = Some l -> l = marshal d.

  Lemma to_send_lib_observed : forall keep p,
    to_send_lib pion_marshal keep p =
    to_send keep (match p with Some d => match pion_marshal (strip_sdesc d) with Some _ => true | None => false end | None => true end) p.
  Proof.
    intros keep p. unfold to_send, to_send_lib. destruct keep; [reflexivity|].
    unfold strip_lines_lib, observed_marshal. destruct p as [d|]; [|reflexivity].
    destruct (pion_marshal (strip_sdesc d)) as [l|] eqn:E; [|reflexivity].
    rewrite (marshal_writes _ _ E). reflexivity.
  Qed.

  Lemma to_send_lib_lines : forall p l, to_send_lib pion_marshal false p = Lines l ->
    (forall x, In x l -> bad_host_line x = false)
    /\ exists d, p = Some d /\ l = filter (fun x => negb (bad_host_line x)) (marshal d).
  Proof. intros p l H. rewrite to_send_lib_observed in H. apply to_send_strips in H. tauto. Qed.

  Lemma to_send_lib_original : forall p, to_send_lib pion_marshal false p = Original ->
    p = None \/ exists d, p = Some d /\ pion_marshal (strip_sdesc d) = None.
  Proof.
    intros p H. rewrite to_send_lib_observed in H. apply to_send_original_iff in H.
    destruct H as [H|H]; [left; exact H|]. destruct p as [d|]; [|discriminate].
    right. exists d. split; [reflexivity|]. destruct (pion_marshal (strip_sdesc d)); [discriminate|reflexivity].
  Qed.

  (* the library contract the first sentence of the property rests on *)
  Hypothesis marshal_total : forall d, pion_marshal d <> None.

  Lemma to_send_lib_contract : forall p,
    (to_send_lib pion_marshal false p = Original -> p = None)
    /\ (forall l, to_send_lib pion_marshal false p = Lines l ->
          (forall x, In x l -> bad_host_line x = false)
          /\ exists d, p = Some d /\ l = filter (fun x => negb (bad_host_line x)) (marshal d))
    /\ (forall d, p = Some d -> to_send_lib pion_marshal false p = Lines (filter (fun x => negb (bad_host_line x)) (marshal d))).
  Proof.
    intros p. split; [|split].
    - intros H. apply to_send_lib_original in H. destruct H as [H|[d [_ H]]]; [exact H|]. exfalso. apply (marshal_total _ H).
    - apply to_send_lib_lines.
    - intros d ->. unfold to_send_lib, strip_lines_lib. destruct (pion_marshal (strip_sdesc d)) as [l|] eqn:E.
      + rewrite (marshal_writes _ _ E), marshal_strip. reflexivity.
      + exfalso. apply (marshal_total _ E).
  Qed.
End PionMarshal.

(* a Marshal that writes the right lines whenever it succeeds, but fails once: the unstripped text goes out *)
Lemma marshal_contract_needed :
  let pm := fun d : sdesc => match sd_media d with [m] => match ms_attrs m with [] => None | _ => Some (marshal d) end | _ => Some (marshal d) end in
  (forall d l, pm d = Some l -> l = marshal d)
  /\ pm (strip_sdesc leak_witness) = None
  /\ to_send_lib pm false (Some leak_witness) = Original
  /\ exists l, In l (marshal leak_witness) /\ bad_host_line l = true.
Proof.
  cbv zeta. split; [|split; [reflexivity|split; [reflexivity|apply marshal_failure_leaks]]].
  intros d l H. destruct (sd_media d) as [|m [|m' ms]]; try (inversion H; reflexivity).
  destruct (ms_attrs m); [discriminate|inversion H; reflexivity].
Qed.

Lemma site_cases : forall mok p s, s = to_send false mok p ->
  (s = Original /\ (p = None \/ mok = false))
  \/ exists d, mok = true /\ p = Some d /\ s = Lines (filter (fun x => negb (bad_host_line x)) (marshal d))
               /\ forall x, In x (filter (fun x => negb (bad_host_line x)) (marshal d)) -> bad_host_line x = false.
Proof.
  intros mok p s ->. destruct (to_send false mok p) as [|l] eqn:E.
  - left. split; [reflexivity|]. apply to_send_original_iff. exact E.
  - right. apply to_send_strips in E. destruct E as (Hm & Hc & d & Hp & Hl). exists d. subst l.
    split; [exact Hm|]. split; [exact Hp|]. split; [reflexivity|exact Hc].
Qed.

Lemma client_site : forall cfg ok mok p s, client_offer_sent cfg ok mok p = Some s ->
  (cc_keep cfg = true -> s = Original)
  /\ (cc_keep cfg = false ->
        (s = Original /\ (p = None \/ mok = false))
        \/ exists d, mok = true /\ p = Some d /\ s = Lines (filter (fun x => negb (bad_host_line x)) (marshal d))
                     /\ forall x, In x (filter (fun x => negb (bad_host_line x)) (marshal d)) -> bad_host_line x = false).
Proof.
  intros cfg ok mok p s H. unfold client_offer_sent, channel_keep in H. destruct ok; [|discriminate].
  cbn [option_map] in H. inversion H; subst s. clear H. split; intro Hk; rewrite Hk.
  - reflexivity.
  - apply site_cases. reflexivity.
Qed.

Lemma client_site_urls_irrelevant : forall cfg cfg' mok p,
  cc_keep cfg = cc_keep cfg' -> client_offer_sent cfg true mok p = client_offer_sent cfg' true mok p.
Proof. intros cfg cfg' mok p H. unfold client_offer_sent, channel_keep. rewrite H. reflexivity. Qed.

Lemma proxy_site : forall url ok keep mok p s, proxy_answer_sent url ok keep mok p = Some s ->
  (keep = true -> s = Original)
  /\ (keep = false ->
        (s = Original /\ (p = None \/ mok = false))
        \/ exists d, mok = true /\ p = Some d /\ s = Lines (filter (fun x => negb (bad_host_line x)) (marshal d))
                     /\ forall x, In x (filter (fun x => negb (bad_host_line x)) (marshal d)) -> bad_host_line x = false).
Proof.
  intros url ok keep mok p s H. unfold proxy_answer_sent, signaling_keep in H. destruct ok; [|discriminate].
  cbn [option_map] in H. inversion H; subst s. clear H. split; intro Hk; subst keep.
  - reflexivity.
  - apply site_cases. reflexivity.
Qed.

(* an all-local description is sent WITHOUT its candidates, not with them: no line of what is freshly
   marshalled is a local host candidate, whatever the input *)
Lemma sent_never_leaks : forall mok p l, to_send false mok p = Lines l -> Forall (fun x => bad_host_line x = false) l.
Proof. intros mok p l H. apply Forall_forall. apply (proj1 (proj2 (to_send_strips mok p l H))). Qed.
