(* MessagesProofs.v — proofs about Model/JsonBoundary.v and Model/Messages.v (C12). *)
From Coq Require Import List NArith ZArith Lia Bool Arith String.
From Coq Require Import ZifyN ZifyNat ZifyBool.
From Snow Require Import Lib.Wire Model.JsonBoundary Model.Messages.
Import ListNotations.
Open Scope N_scope.
Ltac Zify.zify_post_hook ::= Z.div_mod_to_equations.

(* ------------------------------------------------------------------ byte strings *)
Lemma beq_refl : forall a, beq a a = true.
Proof. induction a as [|x a IH]; cbn [beq]; [reflexivity|]. rewrite N.eqb_refl, IH. reflexivity. Qed.

Lemma beq_eq : forall a b, beq a b = true <-> a = b.
Proof.
  induction a as [|x a IH]; intros [|y b]; cbn [beq]; split; intros H; try reflexivity; try discriminate.
  - apply andb_true_iff in H as [H1 H2]. apply N.eqb_eq in H1. apply IH in H2. subst. reflexivity.
  - injection H as -> ->. rewrite N.eqb_refl, beq_refl. reflexivity.
Qed.

Lemma beq_neq : forall a b, beq a b = false <-> a <> b.
Proof.
  intros a b. split.
  - intros H E. apply beq_eq in E. congruence.
  - intros H. destruct (beq a b) eqn:E; [apply beq_eq in E; contradiction | reflexivity].
Qed.

(* ------------------------------------------------------------------ decimal integers *)
Lemma dec_parse_aux_digit : forall d r a, d < 10 -> dec_parse_aux ((48 + d) :: r) a = dec_parse_aux r (10 * a + d).
Proof.
  intros d r a H. unfold dec_parse_aux at 1; fold dec_parse_aux.
  replace ((48 <=? 48 + d) && (48 + d <=? 57)) with true by lia.
  f_equal. lia.
Qed.

Lemma digits_parse : forall f n acc, n < 10 ^ N.of_nat f ->
  dec_parse_aux (digits_aux f n acc) 0 = dec_parse_aux acc n.
Proof.
  induction f as [|f IH]; intros n acc H.
  - cbn in H. cbn [digits_aux]. replace n with 0 by lia. reflexivity.
  - rewrite Nat2N.inj_succ, N.pow_succ_r' in H.
    cbn [digits_aux]. destruct (n / 10 =? 0) eqn:E.
    + rewrite dec_parse_aux_digit by (apply N.mod_lt; lia). f_equal.
      apply N.eqb_eq in E. pose proof (N.div_mod n 10). lia.
    + rewrite IH.
      * rewrite dec_parse_aux_digit by (apply N.mod_lt; lia). f_equal.
        pose proof (N.div_mod n 10). lia.
      * apply N.div_lt_upper_bound; lia.
Qed.

Lemma digits_head : forall f n acc, exists d r, digits_aux (S f) n acc = (48 + d) :: r /\ d < 10.
Proof.
  induction f as [|f IH]; intros n acc.
  - exists (n mod 10), acc. cbn [digits_aux]. split; [destruct (n / 10 =? 0); reflexivity | apply N.mod_lt; lia].
  - remember (S f) as g. cbn [digits_aux]. destruct (n / 10 =? 0).
    + exists (n mod 10), acc. split; [reflexivity | apply N.mod_lt; lia].
    + subst g. apply IH.
Qed.

Lemma parse_print_nat : forall n, n < 100000000000000000000 -> dec_parse (print_nat n) = Some n.
Proof.
  intros n H. unfold print_nat.
  destruct (digits_head 19 n []) as (d & r & E & Hd).
  unfold dec_parse. rewrite E. rewrite <- E.
  rewrite digits_parse; [reflexivity|]. exact H.
Qed.

Lemma print_nat_head : forall n, exists d r, print_nat n = (48 + d) :: r /\ d < 10.
Proof. intros n. apply digits_head. Qed.

Definition int64 (z : Z) : Prop := (-9223372036854775808 <= z < 9223372036854775808)%Z.

Lemma parse_print_int : forall z, int64 z -> parse_int64 (print_int z) = Some z.
Proof.
  intros z [Hlo Hhi]. unfold parse_int64.
  destruct z as [|p|p]; unfold print_int.
  - destruct (print_nat_head 0) as (d & r & E & Hd). rewrite E.
    replace (48 + d =? 45) with false by lia. replace (48 + d =? 43) with false by lia.
    rewrite <- E. rewrite parse_print_nat by lia. reflexivity.
  - destruct (print_nat_head (Npos p)) as (d & r & E & Hd). rewrite E.
    replace (48 + d =? 45) with false by lia. replace (48 + d =? 43) with false by lia.
    rewrite <- E. rewrite parse_print_nat by lia.
    replace (Z.of_N (N.pos p)) with (Z.pos p) by reflexivity.
    replace ((-9223372036854775808 <=? Z.pos p)%Z && (Z.pos p <? 9223372036854775808)%Z) with true by lia.
    reflexivity.
  - rewrite N.eqb_refl. rewrite parse_print_nat by lia.
    replace (- Z.of_N (N.pos p))%Z with (Z.neg p) by reflexivity.
    replace ((-9223372036854775808 <=? Z.neg p)%Z && (Z.neg p <? 9223372036854775808)%Z) with true by lia.
    reflexivity.
Qed.

(* ------------------------------------------------------------------ typed unmarshalling:
   the single pass of Model/JsonBoundary.v equals a declarative per-field reading *)

Definition entries (v : json) : list (bytes * json) := match v with JObj es => es | _ => [] end.
Definition is_objb (v : json) : bool := match v with JNull | JObj _ => true | _ => false end.

(* the key selects the field named nm: equal after case folding *)
Definition names_key (nm key : bytes) : bool := beq (fold_name key) (fold_name nm).

(* the values a message carries for field nm, in source order *)
Definition hits (nm : bytes) (es : list (bytes * json)) : list json :=
  map snd (filter (fun kv => names_key nm (fst kv)) es).

Definition kind_ok (t : ftype) (x : json) : bool :=
  match x with
  | JNull => true
  | JStr _ => match t with TInt => false | _ => true end
  | JNum txt => match t with
                | TInt => match parse_int64 txt with Some _ => true | None => false end
                | _ => false
                end
  | _ => false
  end.

(* last string / last integer / last string-or-null occurrence *)
Fixpoint last_str (vs : list json) (d : bytes) : bytes :=
  match vs with
  | [] => d
  | JStr s :: r => last_str r s
  | _ :: r => last_str r d
  end.
Fixpoint last_int (vs : list json) (d : Z) : Z :=
  match vs with
  | [] => d
  | JNum txt :: r => match parse_int64 txt with Some z => last_int r z | None => last_int r d end
  | _ :: r => last_int r d
  end.
Fixpoint last_ptr (vs : list json) (d : option bytes) : option bytes :=
  match vs with
  | [] => d
  | JStr s :: r => last_ptr r (Some s)
  | JNull :: r => last_ptr r None
  | _ :: r => last_ptr r d
  end.

Definition fieldval (t : ftype) (vs : list json) : fval :=
  match t with
  | TStr => VStr (last_str vs [])
  | TInt => VInt (last_int vs 0%Z)
  | TPtr => VPtr (last_ptr vs None)
  end.

(* every entry whose key names a field carries a value of that field's kind *)
Definition entry_ok (sc : schema) (kv : bytes * json) : bool :=
  forallb (fun fd => negb (names_key (fst fd) (fst kv)) || kind_ok (snd fd) (snd kv)) sc.
Definition typed_okb (sc : schema) (v : json) : bool := is_objb v && forallb (entry_ok sc) (entries v).

Definition nodup_folds (sc : schema) : Prop := NoDup (map (fun fd => fold_name (fst fd)) sc).

(* -- helpers *)
Definition upd (t : ftype) (x : fval) (v : json) : fval :=
  match assign t x v with Some y => y | None => x end.
Definition final_from (t : ftype) (x : fval) (vs : list json) : fval := fold_left (upd t) vs x.
Definition upd1 (kv : bytes * json) (fd : bytes * ftype) (x : fval) : fval :=
  if names_key (fst fd) (fst kv) then upd (snd fd) x (snd kv) else x.

Fixpoint zipw (f : bytes * ftype -> fval -> fval) (sc : schema) (st : list fval) : list fval :=
  match sc, st with
  | fd :: sc', x :: st' => f fd x :: zipw f sc' st'
  | _, _ => []
  end.

Lemma zipw_length : forall f sc st, List.length st = List.length sc -> List.length (zipw f sc st) = List.length sc.
Proof.
  induction sc as [|fd sc IH]; intros [|x st] H; cbn in *; try reflexivity; try discriminate.
  f_equal. apply IH. lia.
Qed.

Lemma zipw_ext_in : forall f g sc st, (forall fd x, In fd sc -> f fd x = g fd x) -> zipw f sc st = zipw g sc st.
Proof.
  induction sc as [|fd sc IH]; intros [|x st] H; cbn; try reflexivity.
  rewrite H by (left; reflexivity). f_equal. apply IH. intros; apply H; right; assumption.
Qed.

Lemma zipw_id : forall f sc st, List.length st = List.length sc -> (forall fd x, In fd sc -> f fd x = x) -> zipw f sc st = st.
Proof.
  induction sc as [|fd sc IH]; intros [|x st] HL H; cbn in *; try reflexivity; try discriminate.
  rewrite H by (left; reflexivity). f_equal. apply IH; [lia|]. intros; apply H; right; assumption.
Qed.

Lemma zipw_fuse : forall f g sc st, zipw f sc (zipw g sc st) = zipw (fun fd x => f fd (g fd x)) sc st.
Proof.
  induction sc as [|fd sc IH]; intros [|x st]; cbn; try reflexivity. f_equal. apply IH.
Qed.

Lemma zipw_zeros : forall f sc, zipw f sc (zeros sc) = map (fun fd => f fd (zero_of (snd fd))) sc.
Proof. induction sc as [|fd sc IH]; cbn; [reflexivity|]. f_equal. apply IH. Qed.

Lemma assign_kind : forall t x v, assign t x v = None <-> kind_ok t v = false.
Proof.
  intros t x v. destruct v as [|b|txt|s|l|l]; destruct t; cbn; try (split; congruence).
  destruct (parse_int64 txt); split; congruence.
Qed.

Lemma assign_upd : forall t x v, kind_ok t v = true -> assign t x v = Some (upd t x v).
Proof.
  intros t x v H. unfold upd. destruct (assign t x v) eqn:E; [reflexivity|].
  apply assign_kind in E. congruence.
Qed.

(* -- field selection *)
Lemma find_exact_some : forall key sc i, find_exact key sc = Some i -> exists t, nth_error sc i = Some (key, t).
Proof.
  induction sc as [|[nm t] sc IH]; intros i H; cbn in H; [discriminate|].
  destruct (beq key nm) eqn:E.
  - injection H as <-. apply beq_eq in E. subst. exists t. reflexivity.
  - destruct (find_exact key sc) as [j|]; [|discriminate]. injection H as <-.
    destruct (IH j eq_refl) as [t' Ht]. exists t'. exact Ht.
Qed.

Lemma find_folded_some : forall fk sc i, find_folded fk sc = Some i ->
  exists nm t, nth_error sc i = Some (nm, t) /\ fk = fold_name nm.
Proof.
  induction sc as [|[nm t] sc IH]; intros i H; cbn in H; [discriminate|].
  destruct (beq fk (fold_name nm)) eqn:E.
  - injection H as <-. apply beq_eq in E. exists nm, t. split; [reflexivity|assumption].
  - destruct (find_folded fk sc) as [j|]; [|discriminate]. injection H as <-.
    destruct (IH j eq_refl) as (nm' & t' & Hn & Hf). exists nm', t'. split; assumption.
Qed.

Lemma find_folded_none : forall fk sc, find_folded fk sc = None -> forall fd, In fd sc -> beq fk (fold_name (fst fd)) = false.
Proof.
  induction sc as [|[nm t] sc IH]; intros H fd Hin; [destruct Hin|].
  cbn in H. destruct (beq fk (fold_name nm)) eqn:E; [discriminate|].
  destruct (find_folded fk sc) eqn:F; [discriminate|].
  destruct Hin as [<-|Hin]; [exact E | apply IH; [reflexivity|assumption]].
Qed.

Lemma find_field_some : forall key sc i, find_field key sc = Some i ->
  exists nm t, nth_error sc i = Some (nm, t) /\ names_key nm key = true.
Proof.
  intros key sc i H. unfold find_field in H. destruct (find_exact key sc) as [j|] eqn:E.
  - injection H as <-. destruct (find_exact_some _ _ _ E) as [t Ht]. exists key, t. split; [assumption|].
    unfold names_key. apply beq_refl.
  - destruct (find_folded_some _ _ _ H) as (nm & t & Hn & Hf). exists nm, t. split; [assumption|].
    unfold names_key. rewrite Hf. apply beq_refl.
Qed.

Lemma find_field_none : forall key sc, find_field key sc = None -> forall fd, In fd sc -> names_key (fst fd) key = false.
Proof.
  intros key sc H fd Hin. unfold find_field in H. destruct (find_exact key sc); [discriminate|].
  unfold names_key. eapply find_folded_none; eassumption.
Qed.

Lemma nodup_unique : forall sc i j nm t nm' t' key, nodup_folds sc ->
  nth_error sc i = Some (nm, t) -> nth_error sc j = Some (nm', t') ->
  names_key nm key = true -> names_key nm' key = true -> j = i.
Proof.
  intros sc i j nm t nm' t' key ND Hi Hj Ki Kj. unfold nodup_folds in ND.
  unfold names_key in Ki, Kj. apply beq_eq in Ki, Kj.
  pose proof (proj1 (NoDup_nth_error _) ND) as U.
  apply U.
  - rewrite map_length. apply nth_error_Some. congruence.
  - erewrite (map_nth_error _ _ _ Hi), (map_nth_error _ _ _ Hj). cbn. congruence.
Qed.

(* -- one entry *)
Lemma entry_ok_nomatch : forall sc kv, (forall fd, In fd sc -> names_key (fst fd) (fst kv) = false) -> entry_ok sc kv = true.
Proof.
  intros sc kv H. unfold entry_ok. apply forallb_forall. intros fd Hin. rewrite (H fd Hin). reflexivity.
Qed.

Lemma entry_ok_cons : forall fd sc kv,
  entry_ok (fd :: sc) kv = (negb (names_key (fst fd) (fst kv)) || kind_ok (snd fd) (snd kv)) && entry_ok sc kv.
Proof. reflexivity. Qed.

Lemma store_zipw : forall sc st i key v nm t,
  List.length st = List.length sc -> nth_error sc i = Some (nm, t) -> names_key nm key = true ->
  (forall j nm' t', nth_error sc j = Some (nm', t') -> names_key nm' key = true -> j = i) ->
  store sc st i v = if entry_ok sc (key, v) then Some (zipw (upd1 (key, v)) sc st) else None.
Proof.
  induction sc as [|[nm0 t0] sc IH]; intros [|x st] i key v nm t HL Hn Hk U; cbn in HL; try discriminate.
  - destruct i; discriminate.
  - destruct i as [|i].
    + cbn in Hn. injection Hn as -> ->.
      assert (NM : forall fd, In fd sc -> names_key (fst fd) key = false).
      { intros [nm' t'] Hin. cbn. destruct (names_key nm' key) eqn:E; [|reflexivity].
        destruct (In_nth_error _ _ Hin) as [j Hj]. specialize (U (S j) nm' t' Hj E). discriminate. }
      cbn [store zipw]. rewrite entry_ok_cons. cbn [fst snd]. rewrite Hk. cbn [negb orb].
      rewrite entry_ok_nomatch by exact NM. rewrite andb_true_r.
      destruct (kind_ok t v) eqn:K.
      * rewrite (assign_upd _ _ _ K). unfold upd1 at 1. cbn [fst snd]. rewrite Hk.
        rewrite zipw_id; [reflexivity | lia |].
        intros fd y Hin. unfold upd1. cbn [fst]. rewrite (NM fd Hin). reflexivity.
      * apply (proj2 (assign_kind t x v)) in K. rewrite K. reflexivity.
    + cbn in Hn.
      assert (K0 : names_key nm0 key = false).
      { destruct (names_key nm0 key) eqn:E; [|reflexivity]. specialize (U O nm0 t0 eq_refl E). discriminate. }
      cbn [store zipw]. rewrite entry_ok_cons. cbn [fst snd]. rewrite K0. cbn [negb orb andb].
      rewrite (IH st i key v nm t); [| lia | assumption | assumption |].
      * destruct (entry_ok sc (key, v)); [|reflexivity]. unfold upd1 at 2. cbn [fst]. rewrite K0. reflexivity.
      * intros j nm' t' Hj Kj. specialize (U (S j) nm' t' Hj Kj). lia.
Qed.

Lemma step_spec : forall sc st kv, nodup_folds sc -> List.length st = List.length sc ->
  step sc (Some st) kv = if entry_ok sc kv then Some (zipw (upd1 kv) sc st) else None.
Proof.
  intros sc st [key v] ND HL. unfold step. cbn [fst snd].
  destruct (find_field key sc) as [i|] eqn:F.
  - destruct (find_field_some _ _ _ F) as (nm & t & Hn & Hk).
    apply (store_zipw sc st i key v nm t HL Hn Hk).
    intros j nm' t' Hj Kj. eapply nodup_unique; eassumption.
  - pose proof (find_field_none _ _ F) as NM.
    rewrite entry_ok_nomatch by exact NM.
    rewrite zipw_id; [reflexivity | assumption |].
    intros fd y Hin. unfold upd1. cbn [fst]. rewrite (NM fd Hin). reflexivity.
Qed.

(* -- all entries *)
Lemma fold_step_none : forall sc es, fold_left (step sc) es None = None.
Proof. induction es as [|kv es IH]; cbn; [reflexivity | exact IH]. Qed.

Lemma fold_spec : forall sc es st, nodup_folds sc -> List.length st = List.length sc ->
  fold_left (step sc) es (Some st) =
  if forallb (entry_ok sc) es
  then Some (zipw (fun fd x => final_from (snd fd) x (hits (fst fd) es)) sc st) else None.
Proof.
  intros sc es. induction es as [|kv es IH]; intros st ND HL.
  - cbn [fold_left forallb]. rewrite zipw_id; [reflexivity | assumption | reflexivity].
  - cbn [fold_left forallb]. rewrite step_spec by assumption.
    destruct (entry_ok sc kv); [|apply fold_step_none]. cbn [andb].
    rewrite IH; [| assumption | rewrite zipw_length; [reflexivity|assumption]].
    destruct (forallb (entry_ok sc) es); [|reflexivity].
    rewrite zipw_fuse. f_equal. apply zipw_ext_in. intros fd x _.
    unfold upd1, hits. cbn [filter]. destruct (names_key (fst fd) (fst kv)); reflexivity.
Qed.

Lemma final_str : forall vs d, final_from TStr (VStr d) vs = VStr (last_str vs d).
Proof.
  induction vs as [|v vs IH]; intros d; [reflexivity|].
  unfold final_from in *. cbn [fold_left]. destruct v; cbn [upd assign last_str]; unfold upd; cbn [assign]; apply IH.
Qed.
Lemma final_int : forall vs d, final_from TInt (VInt d) vs = VInt (last_int vs d).
Proof.
  induction vs as [|v vs IH]; intros d; [reflexivity|].
  unfold final_from in *. cbn [fold_left]. destruct v; unfold upd; cbn [assign last_int]; try apply IH.
  destruct (parse_int64 t); apply IH.
Qed.
Lemma final_ptr : forall vs d, final_from TPtr (VPtr d) vs = VPtr (last_ptr vs d).
Proof.
  induction vs as [|v vs IH]; intros d; [reflexivity|].
  unfold final_from in *. cbn [fold_left]. destruct v; unfold upd; cbn [assign last_ptr]; apply IH.
Qed.
Lemma final_zero : forall t vs, final_from t (zero_of t) vs = fieldval t vs.
Proof. intros [] vs; cbn [zero_of fieldval]; [apply final_str | apply final_int | apply final_ptr]. Qed.

(* Go's single pass over the object = the per-field reading *)
Theorem unmarshal_eq : forall sc v, nodup_folds sc ->
  unmarshal sc v =
  if typed_okb sc v then Some (map (fun fd => fieldval (snd fd) (hits (fst fd) (entries v))) sc) else None.
Proof.
  intros sc v ND. destruct v as [|b|t|s|l|es]; cbn [unmarshal typed_okb is_objb entries andb forallb]; try reflexivity.
  rewrite fold_spec; [| assumption | unfold zeros; apply map_length].
  destruct (forallb (entry_ok sc) es); [|reflexivity].
  rewrite zipw_zeros. f_equal. apply map_ext. intros fd. apply final_zero.
Qed.

(* Prop reading of typed_okb *)
Definition well_typed (sc : schema) (v : json) : Prop :=
  (v = JNull \/ exists es, v = JObj es) /\
  forall key x nm t, In (key, x) (entries v) -> In (nm, t) sc -> fold_name key = fold_name nm -> kind_ok t x = true.

Lemma typed_okb_iff : forall sc v, typed_okb sc v = true <-> well_typed sc v.
Proof.
  intros sc v. unfold typed_okb, well_typed. rewrite andb_true_iff, forallb_forall. split.
  - intros [O F]. split.
    + destruct v; try discriminate; [left; reflexivity | right; eexists; reflexivity].
    + intros key x nm t Hin Hsc Hf. specialize (F _ Hin). unfold entry_ok in F.
      rewrite forallb_forall in F. specialize (F _ Hsc). cbn [fst snd] in F.
      unfold names_key in F. rewrite Hf, beq_refl in F. exact F.
  - intros [O F]. split.
    + destruct O as [->|[es ->]]; reflexivity.
    + intros [key x] Hin. unfold entry_ok. apply forallb_forall. intros [nm t] Hsc. cbn [fst snd].
      destruct (names_key nm key) eqn:E; [|reflexivity]. cbn [negb orb].
      unfold names_key in E. apply beq_eq in E. eapply F; eassumption.
Qed.

(* boolean NoDup for the concrete schemas *)
Fixpoint nodupb (l : list bytes) : bool :=
  match l with
  | [] => true
  | x :: r => negb (existsb (beq x) r) && nodupb r
  end.
Lemma nodupb_sound : forall l, nodupb l = true -> NoDup l.
Proof.
  induction l as [|x l IH]; intros H; [constructor|].
  cbn in H. apply andb_true_iff in H as [H1 H2]. constructor; [|apply IH; assumption].
  intros Hin. apply negb_true_iff in H1.
  assert (existsb (beq x) l = true) by (apply existsb_exists; exists x; split; [assumption | apply beq_refl]).
  congruence.
Qed.
Ltac nodup_schema := unfold nodup_folds; apply nodupb_sound; vm_compute; reflexivity.

Lemma nodup_poll_req : nodup_folds poll_req_schema. Proof. nodup_schema. Qed.
Lemma nodup_poll_resp : nodup_folds poll_resp_schema. Proof. nodup_schema. Qed.
Lemma nodup_answer_req : nodup_folds answer_req_schema. Proof. nodup_schema. Qed.
Lemma nodup_answer_resp : nodup_folds answer_resp_schema. Proof. nodup_schema. Qed.
Lemma nodup_client_req : nodup_folds client_req_schema. Proof. nodup_schema. Qed.
Lemma nodup_client_resp : nodup_folds client_resp_schema. Proof. nodup_schema. Qed.

(* ------------------------------------------------------------------ the protocol's reading of a message *)
Definition fstr (v : json) (nm : string) : bytes := last_str (hits (bs nm) (entries v)) [].
Definition fint (v : json) (nm : string) : Z := last_int (hits (bs nm) (entries v)) 0%Z.
Definition fptr (v : json) (nm : string) : option bytes := last_ptr (hits (bs nm) (entries v)) None.

Definition valid_nat (n : bytes) : Prop :=
  n = [] \/ n = NAT_UNKNOWN \/ n = NAT_RESTRICTED \/ n = NAT_UNRESTRICTED.
Definition valid_natb (n : bytes) : bool :=
  beq n [] || beq n NAT_UNKNOWN || beq n NAT_RESTRICTED || beq n NAT_UNRESTRICTED.
Definition nat_default (n : bytes) : bytes := if beq n [] then NAT_UNKNOWN else n.

Lemma valid_natb_iff : forall n, valid_natb n = true <-> valid_nat n.
Proof.
  intros n. unfold valid_natb, valid_nat. rewrite !orb_true_iff, !beq_eq. tauto.
Qed.

Lemma norm_nat_eq : forall n, norm_nat n = if valid_natb n then Some (nat_default n) else None.
Proof.
  intros n. unfold norm_nat, valid_natb, nat_default. destruct (beq n []); [reflexivity|]. cbn [orb].
  destruct (beq n NAT_UNKNOWN || beq n NAT_RESTRICTED || beq n NAT_UNRESTRICTED); reflexivity.
Qed.

Definition fingerprint_valid (fp : bytes) : Prop :=
  exists b, hex_decode fp = Some b /\ (List.length b = 20%nat \/ List.length b = 32%nat).
Lemma fingerprint_ok_iff : forall fp, fingerprint_ok fp = true <-> fingerprint_valid fp.
Proof.
  intros fp. unfold fingerprint_ok, fingerprint_valid. destruct (hex_decode fp) as [b|].
  - rewrite orb_true_iff, !Nat.eqb_eq. split.
    + intros H. exists b. split; [reflexivity|assumption].
    + intros (b' & E & H). injection E as <-. assumption.
  - split; [discriminate | intros (b & E & _); discriminate].
Qed.

Lemma if_err : forall {A} (b : bool) (x : A), (if b then Ok x else Err) = Err <-> b = false.
Proof. intros A [] x; split; congruence. Qed.

(* ================= ProxyPollRequest ================= *)
Definition poll_req_of (v : json) : poll_req :=
  {| pq_sid := fstr v "Sid"; pq_type := norm_type (fstr v "Type"); pq_nat := nat_default (fstr v "NAT");
     pq_clients := fint v "Clients";
     pq_pattern := match fptr v "AcceptedRelayPattern" with Some p => p | None => [] end;
     pq_aware := match fptr v "AcceptedRelayPattern" with Some _ => true | None => false end |}.

Definition poll_req_acceptb (v : json) : bool :=
  typed_okb poll_req_schema v && major_ok (fstr v "Version") && negb (beq (fstr v "Sid") [])
  && valid_natb (fstr v "NAT").

Lemma decode_proxy_poll_eq : forall v,
  decode_proxy_poll v = if poll_req_acceptb v then Ok (poll_req_of v) else Err.
Proof.
  intros v. unfold decode_proxy_poll, poll_req_acceptb, poll_req_of, fstr, fint, fptr.
  rewrite unmarshal_eq by apply nodup_poll_req.
  destruct (typed_okb poll_req_schema v); [|reflexivity].
  cbv [map poll_req_schema fst snd fieldval]. rewrite norm_nat_eq. cbn [andb].
  destruct (major_ok _); [|reflexivity]. cbn [negb andb].
  destruct (beq (last_str (hits (bs "Sid") (entries v)) []) []); [reflexivity|]. cbn [negb andb].
  destruct (valid_natb _); reflexivity.
Qed.

Theorem reject_iff_proxy_poll : forall v,
  decode_proxy_poll v = Err <->
  ~ well_typed poll_req_schema v \/ before_dot (fstr v "Version") <> bs "1" \/ fstr v "Sid" = []
  \/ ~ valid_nat (fstr v "NAT").
Proof.
  intros v. rewrite decode_proxy_poll_eq, if_err. unfold poll_req_acceptb.
  rewrite !andb_false_iff, negb_false_iff, beq_eq. unfold major_ok.
  rewrite <- typed_okb_iff, <- valid_natb_iff, beq_neq, !not_true_iff_false. tauto.
Qed.

Theorem accept_proxy_poll : forall v r, decode_proxy_poll v = Ok r -> r = poll_req_of v.
Proof.
  intros v r. rewrite decode_proxy_poll_eq. destruct (poll_req_acceptb v); congruence.
Qed.

Theorem legacy_proxy_poll : forall v,
  decode_proxy_poll_legacy v = Err <->
  decode_proxy_poll v = Err \/ exists r, decode_proxy_poll v = Ok r /\ pq_pattern r <> [].
Proof.
  intros v. unfold decode_proxy_poll_legacy. destruct (decode_proxy_poll v) as [r|].
  - destruct (beq (pq_pattern r) []) eqn:E.
    + apply beq_eq in E. split; [discriminate|]. intros [H|(r' & H & N)]; [discriminate|]. injection H as <-. contradiction.
    + apply beq_neq in E. split; [|reflexivity]. intros _. right. exists r. split; [reflexivity|assumption].
  - split; [left|]; reflexivity.
Qed.

(* ================= ProxyPollResponse ================= *)
Lemma decode_poll_response_eq : forall v,
  decode_poll_response v =
  if typed_okb poll_resp_schema v && negb (beq (fstr v "Status") []) then
    if beq (fstr v "Status") CLIENT_MATCH then
      if beq (fstr v "Offer") [] then Err
      else Ok (fstr v "Offer", nat_default (fstr v "NAT"), fstr v "RelayURL")
    else if beq (fstr v "Status") NO_MATCH then Ok ([], nat_default (fstr v "NAT"), fstr v "RelayURL")
    else Err
  else Err.
Proof.
  intros v. unfold decode_poll_response, fstr, nat_default.
  rewrite unmarshal_eq by apply nodup_poll_resp.
  destruct (typed_okb poll_resp_schema v); [|reflexivity].
  cbv [map poll_resp_schema fst snd fieldval]. cbn [andb].
  destruct (beq (last_str (hits (bs "Status") (entries v)) []) []); reflexivity.
Qed.

Theorem reject_iff_poll_response : forall v,
  decode_poll_response v = Err <->
  ~ well_typed poll_resp_schema v \/ fstr v "Status" = []
  \/ (fstr v "Status" = CLIENT_MATCH /\ fstr v "Offer" = [])
  \/ (fstr v "Status" <> CLIENT_MATCH /\ fstr v "Status" <> NO_MATCH).
Proof.
  intros v. rewrite decode_poll_response_eq, <- typed_okb_iff.
  destruct (typed_okb poll_resp_schema v); cbn [andb]; [|split; [intros _; left; discriminate | reflexivity]].
  destruct (beq (fstr v "Status") []) eqn:S0; cbn [negb].
  { apply beq_eq in S0. split; [intros _; right; left; assumption | reflexivity]. }
  apply beq_neq in S0.
  destruct (beq (fstr v "Status") CLIENT_MATCH) eqn:S1.
  - apply beq_eq in S1. destruct (beq (fstr v "Offer") []) eqn:O.
    + apply beq_eq in O. split; [intros _; right; right; left; split; assumption | reflexivity].
    + apply beq_neq in O. split; [discriminate|]. intros [H|[H|[[_ H]|[H _]]]]; try contradiction; try congruence; exfalso; apply H; reflexivity.
  - apply beq_neq in S1. destruct (beq (fstr v "Status") NO_MATCH) eqn:S2.
    + apply beq_eq in S2. split; [discriminate|]. intros [H|[H|[[H _]|[_ H]]]]; try contradiction; try congruence; exfalso; apply H; reflexivity.
    + apply beq_neq in S2. split; [intros _; right; right; right; split; assumption | reflexivity].
Qed.

Theorem accept_poll_response : forall v r, decode_poll_response v = Ok r ->
  r = ((if beq (fstr v "Status") CLIENT_MATCH then fstr v "Offer" else []),
       nat_default (fstr v "NAT"), fstr v "RelayURL").
Proof.
  intros v r. rewrite decode_poll_response_eq.
  destruct (typed_okb poll_resp_schema v && negb (beq (fstr v "Status") [])); [|discriminate].
  destruct (beq (fstr v "Status") CLIENT_MATCH).
  - destruct (beq (fstr v "Offer") []); [discriminate|]. intros H; injection H as <-; reflexivity.
  - destruct (beq (fstr v "Status") NO_MATCH); [|discriminate]. intros H; injection H as <-; reflexivity.
Qed.

Theorem legacy_poll_response : forall v,
  decode_poll_response_legacy v = Err <->
  decode_poll_response v = Err \/ exists o n u, decode_poll_response v = Ok (o, n, u) /\ u <> [].
Proof.
  intros v. unfold decode_poll_response_legacy. destruct (decode_poll_response v) as [[[o n] u]|].
  - destruct (beq u []) eqn:E.
    + apply beq_eq in E. split; [discriminate|]. intros [H|(o' & n' & u' & H & N)]; [discriminate|]. injection H as <- <- <-. contradiction.
    + apply beq_neq in E. split; [|reflexivity]. intros _. right. exists o, n, u. split; [reflexivity|assumption].
  - split; [left|]; reflexivity.
Qed.

(* ================= ProxyAnswerRequest ================= *)
Definition answer_req_acceptb (v : json) : bool :=
  typed_okb answer_req_schema v && major_ok (fstr v "Version")
  && negb (beq (fstr v "Sid") [] || beq (fstr v "Answer") []).

Lemma decode_answer_request_eq : forall v,
  decode_answer_request v = if answer_req_acceptb v then Ok (fstr v "Answer", fstr v "Sid") else Err.
Proof.
  intros v. unfold decode_answer_request, answer_req_acceptb, fstr.
  rewrite unmarshal_eq by apply nodup_answer_req.
  destruct (typed_okb answer_req_schema v); [|reflexivity].
  cbv [map answer_req_schema fst snd fieldval]. cbn [andb].
  destruct (major_ok _); [|reflexivity]. cbn [negb andb].
  destruct (beq (last_str (hits (bs "Sid") (entries v)) []) [] || beq (last_str (hits (bs "Answer") (entries v)) []) []); reflexivity.
Qed.

Theorem reject_iff_answer_request : forall v,
  decode_answer_request v = Err <->
  ~ well_typed answer_req_schema v \/ before_dot (fstr v "Version") <> bs "1" \/ fstr v "Sid" = []
  \/ fstr v "Answer" = [].
Proof.
  intros v. rewrite decode_answer_request_eq, if_err. unfold answer_req_acceptb.
  rewrite !andb_false_iff, negb_false_iff, orb_true_iff, !beq_eq. unfold major_ok.
  rewrite <- typed_okb_iff, beq_neq, !not_true_iff_false. tauto.
Qed.

Theorem accept_answer_request : forall v r, decode_answer_request v = Ok r -> r = (fstr v "Answer", fstr v "Sid").
Proof. intros v r. rewrite decode_answer_request_eq. destruct (answer_req_acceptb v); congruence. Qed.

(* ================= ProxyAnswerResponse ================= *)
Lemma decode_answer_response_eq : forall v,
  decode_answer_response v =
  if typed_okb answer_resp_schema v && negb (beq (fstr v "Status") []) then Ok (beq (fstr v "Status") SUCCESS) else Err.
Proof.
  intros v. unfold decode_answer_response, fstr.
  rewrite unmarshal_eq by apply nodup_answer_resp.
  destruct (typed_okb answer_resp_schema v); [|reflexivity].
  cbv [map answer_resp_schema fst snd fieldval]. cbn [andb].
  destruct (beq (last_str (hits (bs "Status") (entries v)) []) []); reflexivity.
Qed.

Theorem reject_iff_answer_response : forall v,
  decode_answer_response v = Err <-> ~ well_typed answer_resp_schema v \/ fstr v "Status" = [].
Proof.
  intros v. rewrite decode_answer_response_eq, if_err.
  rewrite andb_false_iff, negb_false_iff, beq_eq, <- typed_okb_iff, not_true_iff_false. tauto.
Qed.

Theorem accept_answer_response : forall v b, decode_answer_response v = Ok b ->
  (b = true <-> fstr v "Status" = SUCCESS).
Proof.
  intros v b. rewrite decode_answer_response_eq.
  destruct (typed_okb answer_resp_schema v && negb (beq (fstr v "Status") [])); [|discriminate].
  intros H. injection H as <-. apply beq_eq.
Qed.

(* ================= ClientPollRequest ================= *)
Definition fp_default (fp : bytes) : bytes := if beq fp [] then DEFAULT_FINGERPRINT else fp.

Definition client_req_acceptb (v : json) : bool :=
  typed_okb client_req_schema v && negb (beq (fstr v "offer") [])
  && fingerprint_ok (fp_default (fstr v "fingerprint")) && valid_natb (fstr v "nat").

Lemma decode_client_poll_body_eq : forall v,
  decode_client_poll_body v =
  if client_req_acceptb v
  then Ok (fstr v "offer", nat_default (fstr v "nat"), fp_default (fstr v "fingerprint")) else Err.
Proof.
  intros v. unfold decode_client_poll_body, client_req_acceptb, fp_default, fstr.
  rewrite unmarshal_eq by apply nodup_client_req.
  destruct (typed_okb client_req_schema v); [|reflexivity].
  cbv [map client_req_schema fst snd fieldval]. rewrite norm_nat_eq. cbn [andb].
  destruct (beq (last_str (hits (bs "offer") (entries v)) []) []); [reflexivity|]. cbn [negb andb].
  destruct (fingerprint_ok _); [|reflexivity]. cbn [negb andb].
  destruct (valid_natb _); reflexivity.
Qed.

Theorem reject_iff_client_poll_body : forall v,
  decode_client_poll_body v = Err <->
  ~ well_typed client_req_schema v \/ fstr v "offer" = []
  \/ ~ fingerprint_valid (fp_default (fstr v "fingerprint")) \/ ~ valid_nat (fstr v "nat").
Proof.
  intros v. rewrite decode_client_poll_body_eq, if_err. unfold client_req_acceptb.
  rewrite !andb_false_iff, negb_false_iff, beq_eq.
  rewrite <- typed_okb_iff, <- valid_natb_iff, <- fingerprint_ok_iff, !not_true_iff_false. tauto.
Qed.

Theorem accept_client_poll_body : forall v r, decode_client_poll_body v = Ok r ->
  r = (fstr v "offer", nat_default (fstr v "nat"), fp_default (fstr v "fingerprint")).
Proof. intros v r. rewrite decode_client_poll_body_eq. destruct (client_req_acceptb v); congruence. Qed.

Lemma split_nl_some : forall l a b, split_nl l = Some (a, b) -> l = a ++ 10 :: b /\ ~ In 10 a.
Proof.
  induction l as [|c l IH]; intros a b H; cbn [split_nl] in H; [discriminate|].
  destruct (c =? 10) eqn:E.
  - apply N.eqb_eq in E. subst c. injection H as <- <-. split; [reflexivity | intros []].
  - apply N.eqb_neq in E. destruct (split_nl l) as [[a' b']|]; [|discriminate].
    injection H as <- <-. destruct (IH a' b' eq_refl) as [-> N']. split; [reflexivity|].
    intros [H|H]; [congruence|contradiction].
Qed.

Lemma split_nl_none : forall l, split_nl l = None <-> ~ In 10 l.
Proof.
  induction l as [|c l IH]; cbn [split_nl].
  - split; [intros _ [] | reflexivity].
  - destruct (c =? 10) eqn:E.
    + apply N.eqb_eq in E. subst c. split; [discriminate|]. intros H. exfalso. apply H. left. reflexivity.
    + apply N.eqb_neq in E. destruct (split_nl l) as [[a' b']|].
      * split; [discriminate|]. intros H. exfalso. destruct IH as [_ IH].
        assert (None = None :> option (bytes * bytes)) by reflexivity.
        enough (@None (bytes * bytes) = Some (a', b')) by discriminate.
        symmetry. apply IH. intros Hin. apply H. right. assumption.
      * split; [|reflexivity]. intros _ [H|H]; [congruence|]. destruct IH as [IH _]. apply (IH eq_refl H).
Qed.

(* ================= ClientPollResponse ================= *)
Lemma decode_client_response_eq : forall v,
  decode_client_response v =
  if typed_okb client_resp_schema v && negb (beq (fstr v "error") [] && beq (fstr v "answer") [])
  then Ok (fstr v "answer", fstr v "error") else Err.
Proof.
  intros v. unfold decode_client_response, fstr.
  rewrite unmarshal_eq by apply nodup_client_resp.
  destruct (typed_okb client_resp_schema v); [|reflexivity].
  cbv [map client_resp_schema fst snd fieldval]. cbn [andb].
  destruct (beq (last_str (hits (bs "error") (entries v)) []) [] && beq (last_str (hits (bs "answer") (entries v)) []) []); reflexivity.
Qed.

Theorem reject_iff_client_response : forall v,
  decode_client_response v = Err <->
  ~ well_typed client_resp_schema v \/ (fstr v "answer" = [] /\ fstr v "error" = []).
Proof.
  intros v. rewrite decode_client_response_eq, if_err.
  rewrite andb_false_iff, negb_false_iff, andb_true_iff, !beq_eq, <- typed_okb_iff, not_true_iff_false. tauto.
Qed.

Theorem accept_client_response : forall v r, decode_client_response v = Ok r -> r = (fstr v "answer", fstr v "error").
Proof.
  intros v r. rewrite decode_client_response_eq.
  destruct (typed_okb client_resp_schema v && negb (beq (fstr v "error") [] && beq (fstr v "answer") [])); congruence.
Qed.

(* ================= byte level: the library parser as a Section variable ================= *)
Section Bytes.
  Variable parse : bytes -> option json.      (* encoding/json: None = not one valid JSON text *)

  Theorem reject_iff_bytes : forall {A} (d : json -> result A) data,
    opt_decode d (parse data) = Err <-> parse data = None \/ exists v, parse data = Some v /\ d v = Err.
  Proof.
    intros A d data. unfold opt_decode. destruct (parse data) as [v|].
    - split; [intros H; right; exists v; split; [reflexivity|assumption]|].
      intros [H|(v' & H & E)]; [discriminate|]. injection H as <-. assumption.
    - split; [left|]; reflexivity.
  Qed.

  Theorem reject_iff_client_poll : forall data,
    decode_client_poll parse data = Err <->
    ~ In 10 data
    \/ exists ver body, split_nl data = Some (ver, body) /\
         (ver <> CLIENT_VERSION \/ parse body = None \/ exists v, parse body = Some v /\ decode_client_poll_body v = Err).
  Proof.
    intros data. unfold decode_client_poll. destruct (split_nl data) as [[ver body]|] eqn:S.
    - destruct (beq ver CLIENT_VERSION) eqn:E.
      + apply beq_eq in E. rewrite reject_iff_bytes. split.
        * intros H. right. exists ver, body. split; [reflexivity|]. right. assumption.
        * intros [H|(ver' & body' & H & R)].
          -- apply split_nl_none in H. congruence.
          -- injection H as <- <-. destruct R as [R|R]; [contradiction|assumption].
      + apply beq_neq in E. split; [|reflexivity]. intros _. right. exists ver, body. split; [reflexivity|]. left. assumption.
    - split; [|reflexivity]. intros _. left. apply split_nl_none. assumption.
  Qed.

  Lemma client_poll_accept : forall data r, decode_client_poll parse data = Ok r ->
    exists body v, data = CLIENT_VERSION ++ 10 :: body /\ parse body = Some v /\ decode_client_poll_body v = Ok r.
  Proof.
    intros data r. unfold decode_client_poll. destruct (split_nl data) as [[ver body]|] eqn:S; [|discriminate].
    destruct (beq ver CLIENT_VERSION) eqn:E; [|discriminate]. apply beq_eq in E. subst ver.
    unfold opt_decode. destruct (parse body) as [v|] eqn:P; [|discriminate]. intros H.
    exists body, v. split; [apply split_nl_some in S; tauto | split; assumption].
  Qed.
End Bytes.

(* ------------------------------------------------------------------ round trips (JSON-value level) *)
Ltac eval_enc :=
  repeat match goal with
  | |- context [fstr ?E ?nm] =>
      let r := eval cbv -[parse_int64 print_int] in (fstr E nm) in change (fstr E nm) with r
  | |- context [fint ?E ?nm] =>
      let r := eval cbv -[parse_int64 print_int] in (fint E nm) in change (fint E nm) with r
  | |- context [fptr ?E ?nm] =>
      let r := eval cbv -[parse_int64 print_int] in (fptr E nm) in change (fptr E nm) with r
  | |- context [typed_okb ?sc ?E] =>
      let r := eval cbv -[parse_int64 print_int] in (typed_okb sc E) in change (typed_okb sc E) with r
  end.

Lemma valid_nat_b : forall n, valid_nat n -> valid_natb n = true.
Proof. intros n H. apply valid_natb_iff. assumption. Qed.
Lemma beq_nil_false : forall s, s <> [] -> beq s [] = false.
Proof. intros s H. apply beq_neq. assumption. Qed.

Theorem roundtrip_proxy_poll : forall sid ty nat n pat,
  sid <> [] -> valid_nat nat -> int64 n ->
  decode_proxy_poll (encode_proxy_poll sid ty nat n pat) =
  Ok {| pq_sid := sid; pq_type := norm_type ty; pq_nat := nat_default nat; pq_clients := n;
        pq_pattern := pat; pq_aware := true |}.
Proof.
  intros sid ty nat n pat Hs Hn Hi.
  rewrite decode_proxy_poll_eq. unfold poll_req_acceptb, poll_req_of. eval_enc.
  rewrite (parse_print_int n Hi), (beq_nil_false sid Hs), (valid_nat_b nat Hn). reflexivity.
Qed.

Theorem roundtrip_proxy_poll_legacy : forall sid ty nat n,
  sid <> [] -> valid_nat nat -> int64 n ->
  decode_proxy_poll_legacy (encode_proxy_poll_legacy sid ty nat n) = Ok (sid, norm_type ty, nat_default nat, n).
Proof.
  intros sid ty nat n Hs Hn Hi. unfold decode_proxy_poll_legacy, encode_proxy_poll_legacy.
  rewrite (roundtrip_proxy_poll sid ty nat n [] Hs Hn Hi). reflexivity.
Qed.

Theorem roundtrip_poll_response : forall offer success nat relay reason,
  decode_poll_response (encode_poll_response offer success nat relay reason) =
  if success then (if beq offer [] then Err else Ok (offer, nat_default nat, relay))
  else if beq reason NO_MATCH then Ok ([], NAT_UNKNOWN, []) else Err.
Proof.
  intros offer success nat relay reason. rewrite decode_poll_response_eq.
  destruct success; unfold encode_poll_response; eval_enc.
  - destruct (beq offer []); reflexivity.
  - destruct (beq reason NO_MATCH) eqn:E.
    + apply beq_eq in E. subst reason. reflexivity.
    + destruct (beq reason []); [reflexivity|]. destruct (beq reason CLIENT_MATCH); reflexivity.
Qed.

(* ---- the failure reason of a poll response (decode_poll_response_reason) *)
Lemma decode_poll_response_reason_eq : forall v,
  decode_poll_response_reason v =
  if typed_okb poll_resp_schema v && negb (beq (fstr v "Status") []) then
    if beq (fstr v "Status") CLIENT_MATCH then
      if beq (fstr v "Offer") [] then PRErr
      else PROk (fstr v "Offer", nat_default (fstr v "NAT"), fstr v "RelayURL")
    else if beq (fstr v "Status") NO_MATCH then PROk ([], nat_default (fstr v "NAT"), fstr v "RelayURL")
    else PRReason (fstr v "Status") (nat_default (fstr v "NAT")) (fstr v "RelayURL")
  else PRErr.
Proof.
  intros v. unfold decode_poll_response_reason, fstr, nat_default.
  rewrite unmarshal_eq by apply nodup_poll_resp.
  destruct (typed_okb poll_resp_schema v); [|reflexivity].
  cbv [map poll_resp_schema fst snd fieldval]. cbn [andb].
  destruct (beq (last_str (hits (bs "Status") (entries v)) []) []); reflexivity.
Qed.

(* it is the decoder of the property with one error class split off *)
Theorem poll_response_reason_refines : forall v,
  decode_poll_response v = match decode_poll_response_reason v with PROk r => Ok r | _ => Err end.
Proof.
  intros v. rewrite decode_poll_response_eq, decode_poll_response_reason_eq.
  destruct (typed_okb poll_resp_schema v && negb (beq (fstr v "Status") [])); [|reflexivity].
  destruct (beq (fstr v "Status") CLIENT_MATCH); [destruct (beq (fstr v "Offer") []); reflexivity|].
  destruct (beq (fstr v "Status") NO_MATCH); reflexivity.
Qed.

(* the reason surfaced is the message's Status member, byte for byte, and only for a failure status *)
Theorem poll_response_reason_is_status : forall v s n u,
  decode_poll_response_reason v = PRReason s n u ->
  s = fstr v "Status" /\ n = nat_default (fstr v "NAT") /\ u = fstr v "RelayURL" /\
  s <> [] /\ s <> CLIENT_MATCH /\ s <> NO_MATCH.
Proof.
  intros v s n u. rewrite decode_poll_response_reason_eq.
  destruct (typed_okb poll_resp_schema v); cbn [andb]; [|discriminate].
  destruct (beq (fstr v "Status") []) eqn:S0; cbn [negb]; [discriminate|]. apply beq_neq in S0.
  destruct (beq (fstr v "Status") CLIENT_MATCH) eqn:S1; [destruct (beq (fstr v "Offer") []); discriminate|]. apply beq_neq in S1.
  destruct (beq (fstr v "Status") NO_MATCH) eqn:S2; [discriminate|]. apply beq_neq in S2.
  intros H. injection H as <- <- <-. repeat split; assumption.
Qed.

(* round trip of the failure reason: whatever the broker gave as the reason comes back as the reason *)
Theorem roundtrip_poll_response_reason : forall offer nat relay reason,
  reason <> [] -> reason <> CLIENT_MATCH -> reason <> NO_MATCH ->
  decode_poll_response_reason (encode_poll_response offer false nat relay reason) = PRReason reason NAT_UNKNOWN [].
Proof.
  intros offer nat relay reason H0 H1 H2. rewrite decode_poll_response_reason_eq.
  unfold encode_poll_response; eval_enc.
  rewrite (beq_nil_false _ H0). cbn [negb].
  destruct (beq reason CLIENT_MATCH) eqn:E1; [apply beq_eq in E1; contradiction|].
  destruct (beq reason NO_MATCH) eqn:E2; [apply beq_eq in E2; contradiction|]. reflexivity.
Qed.

Theorem roundtrip_answer_request : forall answer sid,
  answer <> [] -> sid <> [] ->
  decode_answer_request (encode_answer_request answer sid) = Ok (answer, sid).
Proof.
  intros answer sid Ha Hs. rewrite decode_answer_request_eq. unfold answer_req_acceptb. eval_enc.
  rewrite (beq_nil_false _ Ha), (beq_nil_false _ Hs). reflexivity.
Qed.

Theorem roundtrip_answer_response : forall b, decode_answer_response (encode_answer_response b) = Ok b.
Proof. intros []; reflexivity. Qed.

Lemma fp_default_idem : forall fp, fp_default (fp_default fp) = fp_default fp.
Proof.
  intros fp. unfold fp_default. destruct (beq fp []) eqn:E; [reflexivity|].
  rewrite E. reflexivity.
Qed.

Theorem roundtrip_client_poll_body : forall offer nat fp,
  offer <> [] -> valid_nat nat -> fingerprint_valid (fp_default fp) ->
  decode_client_poll_body (encode_client_poll offer nat fp) = Ok (offer, nat_default nat, fp_default fp).
Proof.
  intros offer nat fp Ho Hn Hf. rewrite decode_client_poll_body_eq. unfold client_req_acceptb, encode_client_poll.
  fold (fp_default fp). pose proof (fp_default_idem fp) as I. apply fingerprint_ok_iff in Hf.
  remember (fp_default fp) as fp'. eval_enc.
  rewrite I, Hf, (beq_nil_false _ Ho), (valid_nat_b _ Hn). reflexivity.
Qed.

Theorem roundtrip_client_response : forall answer error,
  answer <> [] \/ error <> [] ->
  decode_client_response (encode_client_response answer error) = Ok (answer, error).
Proof.
  intros answer error H. rewrite decode_client_response_eq. unfold encode_client_response, omitempty.
  destruct (beq answer []) eqn:Ea; destruct (beq error []) eqn:Ee.
  - apply beq_eq in Ea, Ee. subst. destruct H as [H|H]; contradiction H; reflexivity.
  - apply beq_eq in Ea. subst answer. unfold jstr_field. eval_enc. rewrite Ee. reflexivity.
  - apply beq_eq in Ee. subst error. unfold jstr_field. eval_enc. rewrite Ea. reflexivity.
  - unfold jstr_field. eval_enc. rewrite Ea, Ee. reflexivity.
Qed.

(* byte level: encoding/json's printer and parser as Section variables *)
Section Library.
  Variable parse : bytes -> option json.
  Variable print : json -> bytes.
  Variable printable : json -> Prop.     (* e.g. every string is valid UTF-8 *)
  Hypothesis parse_print : forall v, printable v -> parse (print v) = Some v.

  Theorem roundtrip_bytes : forall {A} (d : json -> result A) v r,
    printable v -> d v = r -> opt_decode d (parse (print v)) = r.
  Proof. intros A d v r P H. rewrite (parse_print v P). exact H. Qed.

  Theorem roundtrip_client_poll_bytes : forall offer nat fp,
    printable (encode_client_poll offer nat fp) ->
    offer <> [] -> valid_nat nat -> fingerprint_valid (fp_default fp) ->
    decode_client_poll parse (encode_client_poll_bytes print offer nat fp) = Ok (offer, nat_default nat, fp_default fp).
  Proof.
    intros offer nat fp P Ho Hn Hf. unfold decode_client_poll, encode_client_poll_bytes.
    change (split_nl (CLIENT_VERSION ++ [10] ++ print (encode_client_poll offer nat fp)))
      with (Some (CLIENT_VERSION, print (encode_client_poll offer nat fp))).
    cbv beta iota. rewrite beq_refl. apply roundtrip_bytes; [assumption|]. apply roundtrip_client_poll_body; assumption.
  Qed.
End Library.

(* ------------------------------------------------------------------ documented defaults *)
Definition absent (nm : string) (v : json) : Prop :=
  forall key x, In (key, x) (entries v) -> fold_name key <> fold_name (bs nm).

Lemma absent_hits : forall nm v, absent nm v -> hits (bs nm) (entries v) = [].
Proof.
  intros nm v H. unfold hits, absent in *. induction (entries v) as [|[key x] es IH]; [reflexivity|].
  cbn [filter fst]. destruct (names_key (bs nm) key) eqn:E.
  - unfold names_key in E. apply beq_eq in E. exfalso. apply (H key x); [left; reflexivity | exact E].
  - apply IH. intros k y Hin. apply (H k y). right. assumption.
Qed.

Theorem defaults : 
  (forall v r, decode_proxy_poll v = Ok r -> absent "NAT" v -> pq_nat r = NAT_UNKNOWN) /\
  (forall v r, decode_proxy_poll v = Ok r -> known_type (fstr v "Type") = false -> pq_type r = PROXY_UNKNOWN) /\
  (forall v r, decode_proxy_poll v = Ok r -> known_type (fstr v "Type") = true -> pq_type r = fstr v "Type") /\
  (forall v r, decode_proxy_poll v = Ok r -> absent "AcceptedRelayPattern" v -> pq_aware r = false /\ pq_pattern r = []) /\
  (forall v r p, decode_proxy_poll v = Ok r -> fptr v "AcceptedRelayPattern" = Some p -> pq_aware r = true /\ pq_pattern r = p) /\
  (forall v o n u, decode_poll_response v = Ok (o, n, u) -> absent "NAT" v -> n = NAT_UNKNOWN) /\
  (forall v o n f, decode_client_poll_body v = Ok (o, n, f) -> absent "nat" v -> n = NAT_UNKNOWN) /\
  (forall v o n f, decode_client_poll_body v = Ok (o, n, f) -> absent "fingerprint" v -> f = DEFAULT_FINGERPRINT).
Proof.
  repeat split.
  - intros v r H A. apply accept_proxy_poll in H. subst r. cbn [pq_nat poll_req_of]. unfold fstr. rewrite (absent_hits _ _ A). reflexivity.
  - intros v r H K. apply accept_proxy_poll in H. subst r. cbn [pq_type poll_req_of]. unfold norm_type. rewrite K. reflexivity.
  - intros v r H K. apply accept_proxy_poll in H. subst r. cbn [pq_type poll_req_of]. unfold norm_type. rewrite K. reflexivity.
  - apply accept_proxy_poll in H. subst r. cbn [pq_aware poll_req_of]. unfold fptr. rewrite (absent_hits _ _ H0). reflexivity.
  - apply accept_proxy_poll in H. subst r. cbn [pq_pattern poll_req_of]. unfold fptr. rewrite (absent_hits _ _ H0). reflexivity.
  - apply accept_proxy_poll in H. subst r. cbn [pq_aware poll_req_of]. rewrite H0. reflexivity.
  - apply accept_proxy_poll in H. subst r. cbn [pq_pattern poll_req_of]. rewrite H0. reflexivity.
  - intros v o n u H A. apply accept_poll_response in H. injection H as _ -> _. unfold fstr. rewrite (absent_hits _ _ A). reflexivity.
  - intros v o n f H A. apply accept_client_poll_body in H. injection H as _ -> _. unfold fstr. rewrite (absent_hits _ _ A). reflexivity.
  - intros v o n f H A. apply accept_client_poll_body in H. injection H as _ _ ->. unfold fstr. rewrite (absent_hits _ _ A). reflexivity.
Qed.
