(* BrokerExchangeProofs.v — every exchange over the code's transport ends within the header timeout; without it a silent
   broker holds the attempt for ever. *)
From Coq Require Import Arith Bool Lia.
From Snow Require Import Model.BrokerExchange.

Lemma exchange_bounded : forall T b, exists d ok, exchange_end (mkXT (Some T)) b = Some (d, ok) /\ d <= T.
Proof.
  intros T b. destruct b as [| d ok |]; simpl.
  - exists 0, false. split; [reflexivity | lia].
  - destruct (d <=? T) eqn:E.
    + exists d, ok. split; [reflexivity | apply Nat.leb_le; exact E].
    + exists T, false. split; [reflexivity | lia].
  - exists T, false. split; [reflexivity | lia].
Qed.

Lemma code_exchange_bounded : forall b, exists d ok, exchange_end code_transport b = Some (d, ok) /\ d <= 15.
Proof. intro b. exact (exchange_bounded 15 b). Qed.

Lemma code_not_in_flight_after : forall b n, 15 <= n -> in_flight code_transport b n = false.
Proof.
  intros b n H. unfold in_flight. destruct (code_exchange_bounded b) as [d [ok [E L]]]. rewrite E.
  apply Nat.ltb_ge. lia.
Qed.

Lemma code_silent_fails_at_limit : exchange_end code_transport B_Silent = Some (15, false).
Proof. reflexivity. Qed.

Lemma code_negotiate_returns : forall b, exists ok, negotiate_outcome code_transport b = Some ok.
Proof.
  intro b. unfold negotiate_outcome. destruct (code_exchange_bounded b) as [d [ok [E _]]]. rewrite E. exists ok. reflexivity.
Qed.

(* a usable answer that comes in time is not lost to the timer *)
Lemma code_answer_in_time_kept : forall d ok, d <= 15 -> exchange_end code_transport (B_Answers d ok) = Some (d, ok).
Proof. intros d ok H. simpl. apply Nat.leb_le in H. rewrite H. reflexivity. Qed.

(* refutation of the transport without the limit (e.g. the 15 s put on IdleConnTimeout instead) *)
Lemma unlimited_silent_for_ever : forall n, in_flight (mkXT None) B_Silent n = true.
Proof. intro n. reflexivity. Qed.

Lemma unlimited_silent_never_returns : negotiate_outcome (mkXT None) B_Silent = None.
Proof. reflexivity. Qed.

(* every other behaviour of the broker ends the exchange by itself: the limit matters exactly for silence *)
Lemma unlimited_others_return : forall b, b <> B_Silent -> exists ok, negotiate_outcome (mkXT None) b = Some ok.
Proof.
  intros b H. destruct b as [| d ok |]; simpl.
  - exists false. reflexivity.
  - exists ok. reflexivity.
  - contradiction.
Qed.
