(* SessDescCallersProofs.v — proofs about Model/SessDescCallers.v (C13: no caller touches the nil
   result of a failed deserialisation). *)
From Coq Require Import List NArith Bool.
From Snow Require Import Lib.Wire Model.SessDesc Model.SessDescCallers Proofs.SessDescProofs.
Import ListNotations.
Open Scope N_scope.

(* the pair the repaired deserialiser returns is coherent: (nil, err) or (ptr, nil), nothing else *)
Lemma go_pair_coherent : forall j,
  (exists d, deserialize j = Ok d /\ go_pair (deserialize j) = Some (Some d, false))
  \/ (exists e, deserialize j = Err e /\ go_pair (deserialize j) = Some (None, true)).
Proof.
  intros j. destruct (deserialize j) as [d|e|] eqn:E.
  - left. exists d. split; reflexivity.
  - right. exists e. split; reflexivity.
  - exfalso. apply (total j E).
Qed.

(* ---------------------------------------------------------------- checkNATType *)

Lemma natprobe_code_uses : forall post outer d,
  natprobe_code post outer = CRet (Some d) <-> post = true /\ exists j, outer = Some j /\ deserialize j = Ok d.
Proof.
  intros post outer d. unfold natprobe_code, natprobe. destruct post; cbn [negb].
  2:{ split; [discriminate|]. intros [H _]. discriminate. }
  destruct outer as [j|].
  2:{ split; [discriminate|]. intros [_ [j [H _]]]. discriminate. }
  destruct (go_pair_coherent j) as [[d0 [E G]]|[e [E G]]]; rewrite G; cbn [andb deref].
  - split.
    + intro H. inversion H; subst d0. split; [reflexivity|]. exists j. split; [reflexivity|exact E].
    + intros [_ [j' [Ej H]]]. inversion Ej; subst j'. rewrite E in H. inversion H. reflexivity.
  - split; [discriminate|]. intros [_ [j' [Ej H]]]. inversion Ej; subst j'. rewrite E in H. discriminate.
Qed.

Lemma natprobe_code_returns : forall post outer,
  natprobe_code post outer = CRet None <->
  post = false \/ outer = None \/ exists j e, outer = Some j /\ deserialize j = Err e.
Proof.
  intros post outer. unfold natprobe_code, natprobe. destruct post; cbn [negb].
  2:{ split; [intros _; left; reflexivity|reflexivity]. }
  destruct outer as [j|].
  2:{ split; [intros _; right; left; reflexivity|reflexivity]. }
  destruct (go_pair_coherent j) as [[d0 [E G]]|[e [E G]]]; rewrite G; cbn [andb deref].
  - split; [discriminate|]. intros [H|[H|[j' [e [Ej H]]]]]; try discriminate.
    inversion Ej; subst j'. rewrite E in H. discriminate.
  - split; [|reflexivity]. intros _. right. right. exists j, e. split; [reflexivity|exact E].
Qed.

Lemma natprobe_code_never_panics : forall post outer, natprobe_code post outer <> CPanic.
Proof.
  intros post outer. unfold natprobe_code, natprobe. destruct post; cbn [negb]; [|discriminate].
  destruct outer as [j|]; [|discriminate].
  destruct (go_pair_coherent j) as [[d0 [E G]]|[e [E G]]]; rewrite G; cbn [andb deref]; discriminate.
Qed.

(* the `return` after the failed deserialisation is what protects the dereference: without it EVERY
   answer the deserialiser rejects crashes the proxy *)
Lemma natprobe_lost_return_panics : forall j e, deserialize j = Err e -> natprobe false deserialize true (Some j) = CPanic.
Proof. intros j e H. unfold natprobe. cbn [negb]. rewrite H. reflexivity. Qed.

Lemma natprobe_lost_return_witness : natprobe false deserialize true (Some None) = CPanic.
Proof. reflexivity. Qed.

(* the pinned deserialiser took the caller down with it *)
Lemma natprobe_v0_panics : natprobe true deserialize_v0 true (Some v0_witness) = CPanic.
Proof. reflexivity. Qed.

(* ---------------------------------------------------------------- pollOffer / runSession *)

Lemma poll_offer_code_total : forall rs, exists p, poll_offer_code rs = Some p.
Proof.
  induction rs as [|r rs IH]; unfold poll_offer_code in *; cbn [poll_offer].
  - exists None. reflexivity.
  - destruct r as [| |j].
    + exists None. reflexivity.
    + exact IH.
    + destruct (go_pair_coherent j) as [[d [E G]]|[e [E G]]]; rewrite G; cbn [andb]; eauto.
Qed.

(* what pollOffer returns: the description of the first answer that is not "no match", when that
   answer carries an offer the deserialiser accepts; nil in every other case *)
Lemma poll_offer_code_spec : forall rs d,
  poll_offer_code rs = Some (Some d) <->
  exists n j rest, rs = repeat PollNoMatch n ++ PollOffer j :: rest /\ deserialize j = Ok d.
Proof.
  unfold poll_offer_code. induction rs as [|r rs IH]; intros d; cbn [poll_offer].
  - split; [discriminate|]. intros [n [j [rest [E _]]]]. destruct n; discriminate.
  - destruct r as [| |j].
    + split; [discriminate|]. intros [n [j [rest [E _]]]]. destruct n; discriminate.
    + rewrite IH. split.
      * intros [n [j [rest [E H]]]]. exists (S n), j, rest. subst rs. split; [reflexivity|exact H].
      * intros [n [j [rest [E H]]]]. destruct n as [|n]; [discriminate|]. cbn [repeat app] in E. inversion E.
        exists n, j, rest. split; [reflexivity|exact H].
    + destruct (go_pair_coherent j) as [[d0 [E G]]|[e [E G]]]; rewrite G; cbn [andb].
      * split.
        -- intro H. inversion H; subst d0. exists 0%nat, j, rs. split; [reflexivity|exact E].
        -- intros [n [j' [rest [Ers H]]]]. destruct n as [|n]; [|discriminate]. cbn [repeat app] in Ers.
           inversion Ers; subst j'. rewrite E in H. inversion H. reflexivity.
      * split; [discriminate|].
        intros [n [j' [rest [Ers H]]]]. destruct n as [|n]; [|discriminate]. cbn [repeat app] in Ers.
        inversion Ers; subst j'. rewrite E in H. discriminate.
Qed.

Lemma run_session_code_never_panics : forall rs relay_ok, run_session_code rs relay_ok <> CPanic.
Proof.
  intros rs relay_ok. unfold run_session_code, run_session.
  destruct (poll_offer_code_total rs) as [p E]. unfold poll_offer_code in E. rewrite E.
  destruct p as [d|]; [destruct relay_ok; discriminate|discriminate].
Qed.

Lemma run_session_code_uses : forall rs relay_ok d,
  run_session_code rs relay_ok = CRet (Some d) <-> relay_ok = true /\ poll_offer_code rs = Some (Some d).
Proof.
  intros rs relay_ok d. unfold run_session_code, run_session, poll_offer_code.
  destruct (poll_offer_code_total rs) as [p E]. unfold poll_offer_code in E. rewrite E.
  destruct p as [d0|]; cbn [deref].
  - destruct relay_ok; cbn [deref]; split; try discriminate.
    + intro H. inversion H. split; reflexivity.
    + intros [_ H]. inversion H. reflexivity.
    + intros [H _]. discriminate.
  - split; [discriminate|]. intros [_ H]. discriminate.
Qed.

(* both checks are needed: pollOffer's `if err != nil { return nil }` keeps the error from being
   dropped (the nil would then be caught by runSession), runSession's `if offer == nil` keeps the
   nil from reaching makePeerConnectionFromOffer *)
Lemma run_session_nil_check_needed : forall relay_ok,
  run_session true false deserialize [PollOffer None] true = CPanic
  /\ run_session true false deserialize [PollBad] true = CPanic
  /\ run_session_code [PollOffer None] relay_ok = CRet None.
Proof. intros relay_ok. repeat split; reflexivity. Qed.

Lemma poll_offer_err_check_not_the_last_line : forall relay_ok,
  run_session false true deserialize [PollOffer None] relay_ok = CRet None.
Proof. intros relay_ok. reflexivity. Qed.

(* ---------------------------------------------------------------- Negotiate / connect *)

(* Negotiate returns (nil, err) or (description, nil), never (nil, nil) and never panics *)
Lemma negotiate_code_coherent : forall r,
  (exists d, negotiate_code r = Some (Some d, false)) \/ negotiate_code r = Some (None, true).
Proof.
  intros r. unfold negotiate_code, negotiate. destruct r as [| | |j]; try (right; reflexivity).
  destruct (go_pair_coherent j) as [[d [E G]]|[e [E G]]]; rewrite G; [left; exists d; reflexivity|right; reflexivity].
Qed.

Lemma negotiate_code_spec : forall r d,
  negotiate_code r = Some (Some d, false) <-> exists j, r = RespAnswer j /\ deserialize j = Ok d.
Proof.
  intros r d. unfold negotiate_code, negotiate. destruct r as [| | |j].
  1-3: split; [discriminate|intros [j [H _]]; discriminate].
  destruct (go_pair_coherent j) as [[d0 [E G]]|[e [E G]]]; rewrite G.
  - split.
    + intro H. inversion H; subst d0. exists j. split; [reflexivity|exact E].
    + intros [j' [Ej H]]. inversion Ej; subst j'. rewrite E in H. inversion H. reflexivity.
  - split; [discriminate|]. intros [j' [Ej H]]. inversion Ej; subst j'. rewrite E in H. discriminate.
Qed.

Lemma connect_code_never_panics : forall r, connect_code r <> CPanic.
Proof.
  intros r. unfold connect_code, connect. fold (negotiate_code r).
  destruct (negotiate_code_coherent r) as [[d E]|E]; rewrite E; discriminate.
Qed.

Lemma connect_code_uses : forall r d,
  connect_code r = CRet (Some d) <-> exists j, r = RespAnswer j /\ deserialize j = Ok d.
Proof.
  intros r d. rewrite <- negotiate_code_spec. unfold connect_code, connect. fold (negotiate_code r).
  destruct (negotiate_code_coherent r) as [[d0 E]|E]; rewrite E; cbn [andb deref].
  - split; intro H; inversion H; reflexivity.
  - split; discriminate.
Qed.

Lemma connect_err_check_needed :
  connect false deserialize ExchErr = CPanic
  /\ connect false deserialize (RespAnswer None) = CPanic
  /\ connect_code (RespAnswer None) = CRet None.
Proof. repeat split; reflexivity. Qed.
