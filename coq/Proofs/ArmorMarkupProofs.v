(* ArmorMarkupProofs.v — markup added outside the pre elements; error classes. *)
From Coq Require Import List NArith ZArith Lia Bool Arith String.
From Coq Require Import ZifyN ZifyNat ZifyBool.
From Snow Require Import Lib.Wire Model.Base64 Model.Armor Proofs.Base64Proofs Proofs.ArmorEncProofs Proofs.ArmorDecProofs.
Import ListNotations.
Open Scope N_scope.

(* ---- frame: the automaton only ever pushes onto out_rev ---- *)
Definition addo (s : dst) (o : bytes) : dst :=
  {| md := md s; cnt := cnt s; active := active s; out_rev := out_rev s ++ o |}.

Lemma emit1_app : forall a c x o, emit1 a c (x ++ o) = emit1 a c x ++ o.
Proof. intros. unfold emit1. destruct (a && negb (isws c)); reflexivity. Qed.
Lemma emit_app : forall l a x o, emit a l (x ++ o) = emit a l x ++ o.
Proof. induction l as [|c l IH]; intros; [reflexivity|]. cbn [emit]. rewrite emit1_app. apply IH. Qed.

Ltac ifs := repeat match goal with |- context [if ?b then _ else _] => destruct b end.

Lemma tag_done_frame : forall s o e nm pv, tag_done (addo s o) e nm pv = addo (tag_done s e nm pv) o.
Proof.
  intros [m n a x] o e nm pv. unfold tag_done, addo, set_md, dead. cbn [md cnt active out_rev].
  ifs; reflexivity.
Qed.

Lemma tag_on_frame : forall s o n e ts nm pv c,
  tag_on (addo s o) n e ts nm pv c = addo (tag_on s n e ts nm pv c) o.
Proof.
  intros s o n e ts nm pv c. unfold tag_on. destruct (tag_step ts c).
  - destruct s. reflexivity.
  - apply tag_done_frame.
Qed.

Lemma step_frame : forall s o c, step (addo s o) c = addo (step s c) o.
Proof.
  intros [m n a x] o c. unfold step. cbn [addo md cnt active out_rev].
  destruct m; try reflexivity;
    (destruct (MAXBUF <=? n + 1);
     [ unfold dead, addo; cbn [md cnt active out_rev is_text_mode]; rewrite ?emit_app; reflexivity | ]);
    try (unfold txt_on, raw_on, gt_on, set_md, with_out, addo; cbn [md cnt active out_rev pending];
         rewrite ?emit1_app, ?emit_app; ifs; cbn [md cnt active out_rev]; rewrite ?emit1_app, ?emit_app; reflexivity).
  - (* MTag *) apply (tag_on_frame {| md := MTag isend ts name_rev prev; cnt := n; active := a; out_rev := x |}).
  - (* MRawM *) destruct todo as [|p todo].
    + destruct (isws c || (c =? SLASH) || (c =? GT)).
      * apply (tag_on_frame {| md := MRawM tag matched_rev []; cnt := n; active := a; out_rev := x |}).
      * unfold raw_on, set_md, with_out, addo; cbn [md cnt active out_rev pending].
        rewrite ?emit_app. ifs; cbn [md cnt active out_rev]; rewrite ?emit1_app; reflexivity.
    + unfold raw_on, set_md, with_out, addo; cbn [md cnt active out_rev pending].
      rewrite ?emit_app. ifs; cbn [md cnt active out_rev]; rewrite ?emit1_app; reflexivity.
Qed.

Lemma run_frame : forall l s o, run (addo s o) l = addo (run s l) o.
Proof.
  induction l as [|c l IH]; intros s o; [reflexivity|].
  rewrite !run_cons. rewrite step_frame. apply IH.
Qed.

(* ---- neutral markup ---- *)
(* [m] read from the state "just after a complete tag or comment, outside every pre element"
   returns to that state having handed nothing to the decoder *)
Definition neutral (m : bytes) : Prop := forall o, run (mk MTxt 0 false o) m = mk MTxt 0 false o.

Definition neutralb (m : bytes) : bool :=
  let s := run (mk MTxt 0 false []) m in
  match md s, out_rev s with
  | MTxt, [] => (cnt s =? 0) && negb (active s)
  | _, _ => false
  end.

Lemma neutralb_sound : forall m, neutralb m = true -> neutral m.
Proof.
  intros m H o. unfold neutralb in H.
  change (mk MTxt 0 false o) with (addo (mk MTxt 0 false []) o). rewrite run_frame.
  destruct (run (mk MTxt 0 false []) m) as [md0 n a x]. cbn [md cnt active out_rev] in H.
  destruct md0; try discriminate. destruct x; try discriminate.
  apply andb_true_iff in H as [H1 H2]. apply N.eqb_eq in H1. apply negb_true_iff in H2. subst.
  reflexivity.
Qed.

Lemma neutral_app : forall m1 m2, neutral m1 -> neutral m2 -> neutral (m1 ++ m2).
Proof. intros m1 m2 H1 H2 o. rewrite run_app, H1. apply H2. Qed.

Lemma outside_markup : forall a b m o,
  run dinit a = mk MTxt 0 false o -> neutral m ->
  armor_decode (a ++ m ++ b) = armor_decode (a ++ b).
Proof.
  intros a b m o Ha Hm. unfold armor_decode, armor_scan.
  rewrite !run_app. rewrite Ha. rewrite Hm. reflexivity.
Qed.

(* ---- error classes ---- *)
Definition tok_err (e : derr) : Prop := e = EStray \/ e = ENested \/ e = EOversize.
Definition dead_ok (s : dst) : Prop := match md s with MDead e => tok_err e | _ => True end.

Lemma tag_done_ok : forall s e nm pv, dead_ok (tag_done s e nm pv).
Proof.
  intros [m n a x] e nm pv. unfold tag_done, set_md, dead, dead_ok, tok_err. cbn [md cnt active out_rev].
  ifs; cbn [md]; auto.
Qed.

Lemma tag_on_ok : forall s n e ts nm pv c, dead_ok (tag_on s n e ts nm pv c).
Proof.
  intros s n e ts nm pv c. unfold tag_on. destruct (tag_step ts c).
  - exact I.
  - apply tag_done_ok.
Qed.

Lemma step_ok : forall s c, dead_ok s -> dead_ok (step s c).
Proof.
  intros [m n a x] c H. unfold step. cbn [md cnt active out_rev].
  destruct m; try exact H;
    (destruct (MAXBUF <=? n + 1); [unfold dead_ok, dead, tok_err; cbn [md]; auto|]);
    try (unfold txt_on, raw_on, gt_on, set_md, with_out, dead_ok; cbn [md cnt active out_rev];
         ifs; cbn [md]; exact I);
    try apply tag_on_ok.
  destruct todo as [|p todo].
  - destruct (isws c || (c =? SLASH) || (c =? GT)); [apply tag_on_ok|].
    unfold raw_on, set_md, with_out, dead_ok; cbn [md cnt active out_rev]. ifs; exact I.
  - unfold raw_on, set_md, with_out, dead_ok; cbn [md cnt active out_rev]. ifs; exact I.
Qed.

Lemma run_ok : forall l s, dead_ok s -> dead_ok (run s l).
Proof. induction l as [|c l IH]; intros s H; [exact H|]. rewrite run_cons. apply IH, step_ok, H. Qed.

Definition end_class (t : tend) : Prop :=
  t = TEnd \/ t = TErr EStray \/ t = TErr ENested \/ t = TErr EUnterminated \/ t = TErr EOversize.

Lemma scan_end_class : forall doc, end_class (snd (armor_scan doc)).
Proof.
  intros doc. unfold armor_scan, finish.
  pose proof (run_ok doc dinit I) as H. unfold dead_ok in H.
  assert (A : forall b : bool, end_class (if b then TErr EUnterminated else TEnd)).
  { intros [|]; unfold end_class; auto 10. }
  destruct (md (run dinit doc)) eqn:E; cbn [snd]; try apply A.
  unfold tok_err in H. unfold end_class.
  destruct H as [H|[H|H]]; rewrite H; auto 10.
Qed.

Lemma decode_classes : forall doc,
  let out := fst (armor_scan doc) in
  let t := snd (armor_scan doc) in
  end_class t /\
  match armor_decode doc with
  | DOk d => t = TEnd /\ exists body, out = VERSION :: body /\ b64_decode_seq body = (d, B64Clean)
  | DErr EEmpty => out = [] /\ t = TEnd
  | DErr EUnknownVersion => exists v body, out = v :: body /\ v <> VERSION
  | DErr EBadBase64 =>
      exists body, out = VERSION :: body /\
        (snd (b64_decode_seq body) = B64Corrupt \/ (snd (b64_decode_seq body) = B64Partial /\ t = TEnd))
  | DErr e =>
      t = TErr e /\
      (out = [] \/ exists body, out = VERSION :: body /\ snd (b64_decode_seq body) <> B64Corrupt)
  end.
Proof.
  intros doc. cbv zeta. split; [apply scan_end_class|].
  pose proof (scan_end_class doc) as C. unfold armor_decode.
  destruct (armor_scan doc) as [out t]. cbn [fst snd] in *. unfold decode_result.
  destruct out as [|v body].
  - destruct C as [ -> | [ -> | [ -> | [ -> | -> ] ] ] ]; auto.
  - destruct (N.eqb_spec v VERSION) as [->|Hv]; cbn [negb].
    + destruct (b64_decode_seq body) as [d ev] eqn:Eb.
      destruct ev; destruct C as [ -> | [ -> | [ -> | [ -> | -> ] ] ] ];
        first [ split; [reflexivity| exists body; split; [reflexivity|exact Eb]]
              | exists body; split; [reflexivity| rewrite Eb; cbn [snd]; auto]
              | split; [reflexivity| right; exists body; split; [reflexivity| rewrite Eb; cbn [snd]; discriminate]] ].
    + exists v, body. auto.
Qed.
