(* ArmorMarkupProofs.v — markup added outside the pre elements; error classes. *)
From Coq Require Import List NArith ZArith Lia Bool Arith String.
From Coq Require Import ZifyN ZifyNat ZifyBool.
From Snow Require Import Lib.Wire Model.Base64 Model.Armor Proofs.Base64Proofs Proofs.ArmorEncProofs Proofs.ArmorDecProofs.
Import ListNotations.
Open Scope N_scope.

(* ---- frame: the automaton only ever pushes onto out_rev ---- *)
Definition addo (s : dst) (o : list bytes) : dst :=
  {| tkz := tkz s; active := active s; out_rev := out_rev s ++ o; halt := halt s |}.

Lemma apply_frame : forall t a x o ts, apply_toks t a (x ++ o) ts = addo (apply_toks t a x ts) o.
Proof.
  intros. unfold apply_toks, addo. cbn [tkz active out_rev halt].
  rewrite !rev_append_rev, app_assoc. reflexivity.
Qed.

Lemma step_frame : forall s o c, step (addo s o) c = addo (step s c) o.
Proof.
  intros [t a x h] o c. unfold step, addo. cbn [tkz active out_rev halt].
  destruct h; [reflexivity|]. destruct (tk_step t c) as [t' ts]. apply (apply_frame t' a x o ts).
Qed.

Lemma run_frame : forall l s o, run (addo s o) l = addo (run s l) o.
Proof.
  induction l as [|c l IH]; intros s o; [reflexivity|].
  rewrite !run_cons. rewrite step_frame. apply IH.
Qed.

(* ---- neutral markup: complete tokens ---- *)
(* [m] read from the state "just after a complete tag or comment, outside every pre element"
   returns to that state having handed nothing to the decoder *)
Definition neutral (m : bytes) : Prop := forall o, run (mk MTxt 0 false o) m = mk MTxt 0 false o.

Definition dst_quiet0 (s : dst) : bool :=
  match halt s, out_rev s, tmd (tkz s), tbuf (tkz s) with
  | None, [], MTxt, [] => (tcnt (tkz s) =? 0) && negb (active s)
  | _, _, _, _ => false
  end.

Definition neutralb (m : bytes) : bool := dst_quiet0 (run (mk MTxt 0 false []) m).

Lemma neutralb_sound : forall m, neutralb m = true -> neutral m.
Proof.
  intros m H o. unfold neutralb in H.
  change (mk MTxt 0 false o) with (addo (mk MTxt 0 false []) o). rewrite run_frame.
  destruct (run (mk MTxt 0 false []) m) as [[md0 n tb] a x h]. unfold dst_quiet0 in H. cbn [tkz tmd tcnt tbuf active out_rev halt] in H.
  destruct h; try discriminate. destruct x; try discriminate. destruct md0; try discriminate. destruct tb; try discriminate.
  apply andb_true_iff in H as [H1 H2]. apply N.eqb_eq in H1. apply negb_true_iff in H2. subst.
  reflexivity.
Qed.

Lemma neutral_app : forall m1 m2, neutral m1 -> neutral m2 -> neutral (m1 ++ m2).
Proof. intros m1 m2 H1 H2 o. rewrite run_app, H1. apply H2. Qed.

Lemma outside_markup : forall a b m o,
  run dinit a = mk MTxt 0 false o -> neutral m ->
  armor_decode (a ++ m ++ b) = armor_decode (a ++ b).
Proof.
  intros a b m o Ha Hm. unfold armor_decode, armor_scan, armor_words_of.
  rewrite !run_app. rewrite Ha. rewrite Hm. reflexivity.
Qed.

(* ---- neutral markup in general: text, and markup inserted in the middle of text ----
   Outside pre, in the main loop's text state, the count and the data of the text token being read do not
   matter for anything that follows, as long as the buffer limit is not reached before that token ends. *)
Definition quiet (s : dst) : Prop := halt s = None /\ active s = false /\ md s = MTxt.

(* same future: equal, or both reading a text token outside pre *)
Definition tsim (s s' : dst) : Prop :=
  halt s = None /\ halt s' = None /\ active s = false /\ active s' = false /\ out_rev s = out_rev s' /\
  md s = md s' /\ (md s = MTxt \/ md s = MLt).

(* how many more bytes of [b] are read into a text token that is being read (lt: after a '<') *)
Definition starts_tok (c : N) : bool := is_letter c || (c =? SLASH) || (c =? BANG) || (c =? QMARK).
Fixpoint tlen (lt : bool) (b : bytes) : N :=
  match b with
  | [] => 0
  | c :: b' =>
      if lt && starts_tok c then 1
      else 1 + tlen (c =? LT) b'
  end.

Lemma apply_inactive_flush : forall t tb o, apply_toks t false o (flush KText tb) = st t false o.
Proof. exact apply_flush_inactive. Qed.

Lemma tsim_step : forall s s' c, tsim s s' -> cnt s + 1 < MAXBUF -> cnt s' + 1 < MAXBUF ->
  step s c = step s' c \/
  (tsim (step s c) (step s' c) /\ cnt (step s c) = cnt s + 1 /\ cnt (step s' c) = cnt s' + 1 /\
   md (step s c) = (if negb (c =? LT) then MTxt else MLt) /\ (md s = MLt -> starts_tok c = false)).
Proof.
  intros [[m n tb] a o h] [[m' n' tb'] a' o' h'] c (H1 & H2 & H3 & H4 & H5 & H6 & H7) Hn Hn'.
  unfold md, cnt in *. cbn [tkz tmd tcnt tbuf active out_rev halt] in *. subst h h' a a' o' m'.
  unfold step. cbn [halt tkz active out_rev]. unfold tk_step. cbn [tmd tcnt tbuf].
  replace (MAXBUF <=? n + 1) with false by (symmetry; apply N.leb_gt; exact Hn).
  replace (MAXBUF <=? n' + 1) with false by (symmetry; apply N.leb_gt; exact Hn').
  destruct H7 as [-> | ->].
  - right. unfold txt_on. destruct (c =? LT); cbn [negb];
      (split; [repeat split; cbn; auto|]); cbn; repeat split; try reflexivity; intros; discriminate.
  - unfold starts_tok.
    destruct (is_letter c); [left; rewrite !apply_flush_inactive; reflexivity|].
    destruct (c =? SLASH); [left; rewrite !apply_flush_inactive; reflexivity|].
    destruct (c =? BANG); [left; rewrite !apply_flush_inactive; reflexivity|].
    destruct (c =? QMARK); [left; rewrite !apply_flush_inactive; reflexivity|].
    right. unfold txt_on. destruct (c =? LT); cbn [negb];
      (split; [repeat split; cbn; auto|]); cbn; repeat split; reflexivity.
Qed.

Lemma dw_flush_eof_inactive : forall k tb,
  dw_toks false (flush k tb ++ [TkEOF]) = {| w_act := false; w_words := []; w_end := Some TEnd |}.
Proof. intros k [|c tb]; reflexivity. Qed.

Lemma tsim_finish : forall s s', tsim s s' -> finish s = finish s'.
Proof.
  intros [[m n tb] a o h] [[m' n' tb'] a' o' h'] (H1 & H2 & H3 & H4 & H5 & H6 & H7).
  unfold md in *. cbn [tkz tmd tcnt tbuf active out_rev halt] in *. subst h h' a a' o' m'.
  unfold finish. cbn [halt tkz active out_rev]. unfold tk_fin. cbn [tmd tbuf].
  destruct H7 as [-> | ->]; cbn [is_text_mode kind_of pending push rev_append];
    unfold apply_toks; rewrite !dw_flush_eof_inactive; reflexivity.
Qed.

Lemma tsim_run : forall b s s', tsim s s' ->
  cnt s + tlen (match md s with MLt => true | _ => false end) b < MAXBUF ->
  cnt s' + tlen (match md s with MLt => true | _ => false end) b < MAXBUF ->
  finish (run s b) = finish (run s' b).
Proof.
  induction b as [|c b IH]; intros s s' Hs Hn Hn'.
  - apply tsim_finish. exact Hs.
  - rewrite !run_cons.
    assert (Hlen : 1 <= tlen (match md s with MLt => true | _ => false end) (c :: b)).
    { cbn [tlen]. destruct (_ && _); lia. }
    destruct (tsim_step s s' c Hs ltac:(lia) ltac:(lia)) as [E | (Hs' & C1 & C2 & M & St)].
    + rewrite E. reflexivity.
    + apply IH; [exact Hs'| |].
      * rewrite C1, M. cbn [tlen] in Hn.
        destruct Hs as (_ & _ & _ & _ & _ & _ & [Hm|Hm]); rewrite Hm in *; cbn [andb] in Hn.
        -- destruct (c =? LT); cbn [negb]; lia.
        -- rewrite (St eq_refl) in Hn. destruct (c =? LT); cbn [negb]; lia.
      * rewrite C2, M. cbn [tlen] in Hn'.
        destruct Hs as (_ & _ & _ & _ & _ & _ & [Hm|Hm]); rewrite Hm in *; cbn [andb] in Hn'.
        -- destruct (c =? LT); cbn [negb]; lia.
        -- rewrite (St eq_refl) in Hn'. destruct (c =? LT); cbn [negb]; lia.
Qed.

Lemma quiet_tsim : forall s s', quiet s -> quiet s' -> out_rev s = out_rev s' -> tsim s s'.
Proof.
  intros s s' (A & B & C) (A' & B' & C') O. unfold tsim. rewrite C, C'. repeat split; auto.
Qed.

(* [m], read from text position [s] outside pre, hands nothing to the decoder and ends at a text
   position: then the rest of the document is decoded as if [m] were not there, provided the text token
   that is being read at the junction still fits the tokenizer's buffer *)
Lemma outside_any : forall a m b s s',
  run dinit a = s -> quiet s ->
  run s m = s' -> quiet s' -> out_rev s' = out_rev s ->
  cnt s + tlen false b < MAXBUF -> cnt s' + tlen false b < MAXBUF ->
  armor_decode (a ++ m ++ b) = armor_decode (a ++ b).
Proof.
  intros a m b s s' Ha Qs Hm Qs' Ho Hn Hn'. unfold armor_decode, armor_scan, armor_words_of.
  rewrite !run_app. rewrite Ha, Hm.
  assert (E : finish (run s' b) = finish (run s b)).
  { apply tsim_run.
    - apply quiet_tsim; assumption.
    - destruct Qs' as (_ & _ & ->). exact Hn'.
    - destruct Qs' as (_ & _ & ->). exact Hn. }
  rewrite E. reflexivity.
Qed.

(* decidable form: run [m] from count [n] with nothing buffered and nothing written *)
Definition neutral_atb (n : N) (m : bytes) : option N :=
  let s := run (mkb MTxt n [] false []) m in
  match halt s, out_rev s, tmd (tkz s) with
  | None, [], MTxt => if active s then None else Some (tcnt (tkz s))
  | _, _, _ => None
  end.

(* the same run from any text position with that count: same count, nothing written *)
Lemma tsim_run_state : forall m s s', tsim s s' -> cnt s = cnt s' ->
  run s m = run s' m \/ (tsim (run s m) (run s' m) /\ cnt (run s m) = cnt (run s' m)) \/
  (is_err (run s m) /\ is_err (run s' m)).
Proof.
  induction m as [|c m IH]; intros s s' Hs Hc.
  - right. left. split; [exact Hs|exact Hc].
  - rewrite !run_cons. destruct (N.lt_ge_cases (cnt s + 1) MAXBUF) as [Hlt|Hge].
    + destruct (tsim_step s s' c Hs Hlt ltac:(lia)) as [E | (Hs' & C1 & C2 & _)].
      * left. rewrite E. reflexivity.
      * apply IH; [exact Hs'|lia].
    + right. right.
      destruct s as [[md0 n tb] a o h], s' as [[md0' n' tb'] a' o' h'].
      destruct Hs as (H1 & H2 & H3 & H4 & H5 & H6 & H7). unfold md, cnt in *.
      cbn [tkz tmd tcnt tbuf active out_rev halt] in *. subst.
      split; apply run_err; (destruct H7 as [-> | ->]; [apply step_over_txt|apply step_over_lt]); lia.
Qed.

Lemma neutral_atb_sound : forall n m n', neutral_atb n m = Some n' ->
  forall s, quiet s -> cnt s = n ->
  quiet (run s m) /\ out_rev (run s m) = out_rev s /\ cnt (run s m) = n'.
Proof.
  intros n m n' H s Qs Hc. unfold neutral_atb in H.
  set (s0 := mkb MTxt n [] false []) in *.
  assert (Q0 : quiet (addo s0 (out_rev s))) by (repeat split).
  assert (T : tsim s (addo s0 (out_rev s))) by (apply quiet_tsim; [exact Qs|exact Q0|reflexivity]).
  assert (R0 : run (addo s0 (out_rev s)) m = addo (run s0 m) (out_rev s)) by apply run_frame.
  destruct (run s0 m) as [[md1 n1 tb1] a1 o1 h1] eqn:E1. cbn [tkz tmd tcnt tbuf active out_rev halt] in H.
  destruct h1; try discriminate. destruct o1; try discriminate. destruct md1; try discriminate.
  destruct a1; try discriminate. injection H as <-.
  assert (Q1 : quiet (run (addo s0 (out_rev s)) m) /\ out_rev (run (addo s0 (out_rev s)) m) = out_rev s /\
               cnt (run (addo s0 (out_rev s)) m) = n1).
  { rewrite R0. unfold addo, quiet, md, cnt. cbn. repeat split. }
  destruct (tsim_run_state m s (addo s0 (out_rev s)) T ltac:(rewrite Hc; reflexivity)) as [E | [(T' & C') | (_ & [e He])]].
  - rewrite E. exact Q1.
  - destruct Q1 as ((_ & _ & Qm) & Qo & Qc). destruct T' as (A1 & _ & A3 & _ & A5 & A6 & _).
    repeat split; try assumption; congruence.
  - exfalso. destruct Q1 as ((Qh & _) & _). congruence.
Qed.

(* the general statement in decidable form *)
Lemma outside_any_dec : forall a m b s n',
  run dinit a = s -> quiet s -> neutral_atb (cnt s) m = Some n' ->
  cnt s + tlen false b < MAXBUF -> n' + tlen false b < MAXBUF ->
  armor_decode (a ++ m ++ b) = armor_decode (a ++ b).
Proof.
  intros a m b s n' Ha Qs Hm Hn Hn'.
  destruct (neutral_atb_sound _ _ _ Hm s Qs eq_refl) as (Q' & O' & C').
  apply (outside_any a m b s (run s m) Ha Qs eq_refl Q' O'); [exact Hn|rewrite C'; exact Hn'].
Qed.

(* bare text without '<' is neutral wherever it fits *)
Lemma text_neutral : forall n t, noLT t -> n + blen t < MAXBUF -> neutral_atb n t = Some (n + blen t).
Proof.
  intros n t Ht Hn. unfold neutral_atb. rewrite run_text by assumption. reflexivity.
Qed.

(* ---- error classes ---- *)
Definition end_class (t : tend) : Prop :=
  t = TEnd \/ t = TErr EStray \/ t = TErr ENested \/ t = TErr EUnterminated \/ t = TErr EOversize \/ t = TErr ETooLong.

Lemma dw_tok_class : forall a t e, w_end (dw_tok a t) = Some e -> end_class e.
Proof.
  intros a t e H. unfold end_class. destruct t; cbn [dw_tok] in H.
  - destruct a; [|discriminate]. destruct (cut_long _) as [ws [|]]; cbn in H; [|discriminate].
    injection H as <-. auto 10.
  - destruct (beq name PRE); [|discriminate]. destruct a; [|discriminate]. injection H as <-. auto 10.
  - destruct (beq name PRE); [|discriminate]. destruct a; [discriminate|]. injection H as <-. auto 10.
  - discriminate.
  - destruct a; injection H as <-; auto 10.
  - injection H as <-. auto 10.
Qed.

Lemma dw_toks_class : forall ts a e, w_end (dw_toks a ts) = Some e -> end_class e.
Proof.
  induction ts as [|t ts IH]; intros a e H; [discriminate|].
  cbn [dw_toks] in H. destruct (w_end (dw_tok a t)) eqn:E.
  - rewrite E in H. injection H as <-. eapply dw_tok_class; exact E.
  - cbn [w_end] in H. eapply IH; exact H.
Qed.

Definition halt_ok (s : dst) : Prop := match halt s with Some e => end_class e | None => True end.

Lemma step_ok : forall s c, halt_ok s -> halt_ok (step s c).
Proof.
  intros [t a x h] c H. unfold step. cbn [halt tkz active out_rev]. destruct h; [exact H|].
  destruct (tk_step t c) as [t' ts]. unfold halt_ok, apply_toks. cbn [halt].
  destruct (w_end (dw_toks a ts)) eqn:E; [|exact I]. eapply dw_toks_class; exact E.
Qed.

Lemma run_ok : forall l s, halt_ok s -> halt_ok (run s l).
Proof. induction l as [|c l IH]; intros s H; [exact H|]. rewrite run_cons. apply IH, step_ok, H. Qed.

Lemma finish_class : forall s, halt_ok s -> end_class (snd (finish s)).
Proof.
  intros [t a x h] H. unfold finish. cbn [halt tkz active out_rev]. destruct h; [exact H|].
  cbn [snd]. unfold apply_toks. cbn [halt].
  destruct (w_end (dw_toks a (tk_fin t))) eqn:E; [eapply dw_toks_class; exact E|].
  unfold end_class. auto 10.
Qed.

Lemma scan_end_class : forall doc, end_class (snd (armor_scan doc)).
Proof.
  intros doc. unfold armor_scan, armor_words_of.
  pose proof (finish_class (run dinit doc) (run_ok doc dinit I)) as H.
  destruct (finish (run dinit doc)) as [ws e]. exact H.
Qed.

Lemma decode_classes : forall doc,
  let out := fst (armor_scan doc) in
  let t := snd (armor_scan doc) in
  end_class t /\
  match armor_decode doc with
  | DOk d => t = TEnd /\ exists body, out = VERSION :: body /\ b64_decode_seq body = (d, B64Clean)
  | DErr EEmpty => out = [] /\ t = TEnd
  | DErr EUnknownVersion => exists v body, out = v :: body /\ v <> VERSION
  | DErr EBadBase64 =>
      exists body, out = VERSION :: body /\
        (snd (b64_decode_seq body) = B64Corrupt \/ (snd (b64_decode_seq body) = B64Partial /\ t = TEnd))
  | DErr e =>
      t = TErr e /\
      (out = [] \/ exists body, out = VERSION :: body /\ snd (b64_decode_seq body) <> B64Corrupt)
  end.
Proof.
  intros doc. cbv zeta. split; [apply scan_end_class|].
  pose proof (scan_end_class doc) as C. unfold armor_decode.
  destruct (armor_scan doc) as [out t]. cbn [fst snd] in *. unfold decode_result.
  destruct out as [|v body].
  - destruct C as [ -> | [ -> | [ -> | [ -> | [ -> | -> ] ] ] ] ]; auto.
  - destruct (N.eqb_spec v VERSION) as [->|Hv]; cbn [negb].
    + destruct (b64_decode_seq body) as [d ev] eqn:Eb.
      destruct ev; destruct C as [ -> | [ -> | [ -> | [ -> | [ -> | -> ] ] ] ] ];
        first [ split; [reflexivity| exists body; split; [reflexivity|exact Eb]]
              | exists body; split; [reflexivity| rewrite Eb; cbn [snd]; auto]
              | split; [reflexivity| right; exists body; split; [reflexivity| rewrite Eb; cbn [snd]; discriminate]] ].
    + exists v, body. auto.
Qed.
