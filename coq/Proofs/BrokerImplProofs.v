(* BrokerImplProofs.v — the matching machine over the two array heaps (Model/BrokerImpl.v [istep]: AddSnowflake
   pushes, matchSnowflake pops when Len() > 0, the waiter's timeout critical section reads the element's `index`
   and removes) refines the relational machine of Model/Broker.v [step] (pop = ANY waiting entry of the eligible
   pool with the smallest client count), and is enabled whenever the relational machine is.
   The simulation relation [Rel]: for each NAT class the multiset of (poll id, client count) in the slice is the
   relational pool {entries in the heap of that class}, the slice is heap ordered with every `index` = position,
   every element that left holds -1, and every poll that left the pool is among those. *)
From Coq Require Import List NArith ZArith Bool Arith Lia Permutation.
From Snow Require Import Model.GoHeap Proofs.GoHeapProofs Model.Broker Model.BrokerImpl.
From Snow Require Import Proofs.BrokerProofs Proofs.BrokerSteps Proofs.BrokerThms Proofs.BrokerKeys Proofs.BrokerHeapProofs.
Import ListNotations.
Open Scope N_scope.

(* ------------------------------------------------------------------ *)
(* the relational pool as a list                                         *)

Definition in_class (unr : bool) (k : key) : bool :=
  let '(h, n, _) := k in h && Bool.eqb (is_unrestricted n) unr.

Fixpoint pool_from (i : nat) (unr : bool) (ks : list key) : list sf :=
  match ks with
  | [] => []
  | k :: r => (if in_class unr k then [(i, snd k)] else []) ++ pool_from (S i) unr r
  end.
Definition pool (unr : bool) (ks : list key) : list sf := pool_from 0 unr ks.

Lemma pool_from_app unr : forall a b i,
  pool_from i unr (a ++ b) = pool_from i unr a ++ pool_from (i + length a) unr b.
Proof.
  induction a as [|k a IH]; intros b i; cbn [app pool_from length].
  - rewrite Nat.add_0_r. reflexivity.
  - rewrite IH, <- app_assoc. replace (S i + length a)%nat with (i + S (length a))%nat by lia. reflexivity.
Qed.

Lemma pool_from_in unr : forall ks i q c, In (q, c) (pool_from i unr ks) ->
  (i <= q)%nat /\ exists h n, nth_error ks (q - i) = Some (h, n, c) /\ in_class unr (h, n, c) = true.
Proof.
  induction ks as [|[[h n] c0] r IH]; intros i q c H; cbn [pool_from] in H; [destruct H|].
  apply in_app_or in H. destruct H as [H|H].
  - destruct (in_class unr (h, n, c0)) eqn:E; [|destruct H]. destruct H as [H|[]]. cbn in H. injection H as <- <-.
    split; [lia|]. rewrite Nat.sub_diag. exists h, n. split; [reflexivity | exact E].
  - destruct (IH (S i) q c H) as [Hle [h' [n' [Hn He]]]]. split; [lia|]. exists h', n'.
    replace (q - i)%nat with (S (q - S i)) by lia. split; assumption.
Qed.

Lemma pool_from_intro unr : forall ks i j h n c, nth_error ks j = Some (h, n, c) -> in_class unr (h, n, c) = true ->
  In ((i + j)%nat, c) (pool_from i unr ks).
Proof.
  induction ks as [|k r IH]; intros i [|j] h n c Hn He; cbn [nth_error] in Hn; try discriminate; cbn [pool_from].
  - injection Hn as ->. rewrite He. rewrite Nat.add_0_r. left. reflexivity.
  - apply in_or_app. right. replace (i + S j)%nat with (S i + j)%nat by lia. eapply IH; eassumption.
Qed.

Lemma pool_from_clear unr : forall ks p i h n c, nth_error ks p = Some (h, n, c) -> in_class unr (h, n, c) = true ->
  Permutation (pool_from i unr ks) (((i + p)%nat, c) :: pool_from i unr (upd p kclear ks)).
Proof.
  induction ks as [|k r IH]; intros [|p] i h n c Hn He; cbn [nth_error] in Hn; try discriminate; cbn [upd pool_from].
  - injection Hn as ->. rewrite He. cbn [kclear in_class andb app snd]. rewrite Nat.add_0_r. apply Permutation_refl.
  - eapply Permutation_trans; [apply Permutation_app_head; apply (IH p (S i) h n c Hn He)|].
    replace (S i + p)%nat with (i + S p)%nat by lia. apply Permutation_sym. apply Permutation_middle.
Qed.

Lemma pool_from_clear_other unr : forall ks p i k, nth_error ks p = Some k -> in_class unr k = false ->
  pool_from i unr (upd p kclear ks) = pool_from i unr ks.
Proof.
  induction ks as [|k0 r IH]; intros [|p] i k Hn He; cbn [nth_error] in Hn; try discriminate; cbn [upd pool_from].
  - injection Hn as ->. rewrite He. destruct k as [[h n] c]. reflexivity.
  - rewrite (IH p (S i) k Hn He). reflexivity.
Qed.

Lemma in_class_other unr h n c : in_class unr (h, n, c) = true -> in_class (negb unr) (h, n, c) = false.
Proof. cbn. destruct h, (is_unrestricted n), unr; cbn; congruence. Qed.

Lemma nth_upd_clear (ks : list key) p q k : nth_error (upd p kclear ks) q = Some k ->
  (q = p /\ exists k0, nth_error ks p = Some k0 /\ k = kclear k0) \/ (q <> p /\ nth_error ks q = Some k).
Proof.
  intros H. destruct (nth_upd_inv kclear ks p q k H) as [[-> [x [Hx ->]]]|[Hne Hq]].
  - left. split; [reflexivity|]. exists x. split; [exact Hx | reflexivity].
  - right. split; [congruence | exact Hq].
Qed.

(* ------------------------------------------------------------------ *)
(* one heap against the pool of its class                                *)

Record hrel (unr : bool) (h : sheap) (ks : list key) : Prop := {
  hr_ok : sheap_ok h;
  hr_perm : Permutation (map x_el (h_arr h)) (pool unr ks);
  hr_out : forall q hh n c, nth_error ks q = Some (hh, n, c) -> hh = false -> Bool.eqb (is_unrestricted n) unr = true ->
      exists x, In x (h_out h) /\ x_id x = q
}.

Lemma hrel_empty unr : hrel unr sheap_empty [].
Proof.
  constructor.
  - apply sheap_ok_empty.
  - apply Permutation_refl.
  - intros q hh n c H. destruct q; discriminate.
Qed.

Lemma sheap_ok_push h x : sheap_ok h -> sheap_ok (mkh (xpush x (h_arr h)) (h_out h)).
Proof. intros H. exact (xstep_ok h (HPush x) H). Qed.

Lemma xpush_contents h x : sheap_ok h -> Permutation (map x_el (xpush x (h_arr h))) (x :: map x_el (h_arr h)).
Proof.
  intros [Hi _]. destruct (xpush_sim (h_arr h) (map x_el (h_arr h)) x (conj eq_refl Hi)) as [-> _].
  apply lpush_perm.
Qed.

Lemma hrel_push unr h ks n cl : hrel unr h ks -> is_unrestricted n = unr ->
  hrel unr (mkh (xpush (length ks, cl) (h_arr h)) (h_out h)) (ks ++ [(true, n, cl)]).
Proof.
  intros [Hok Hperm Hout] Hn. constructor; cbn [h_arr h_out].
  - apply sheap_ok_push. exact Hok.
  - eapply Permutation_trans; [apply xpush_contents; exact Hok|].
    unfold pool. rewrite pool_from_app. cbn [pool_from in_class snd andb]. rewrite Hn, Bool.eqb_reflx. cbn [app].
    eapply Permutation_trans; [apply perm_skip; exact Hperm|]. apply Permutation_cons_append.
  - intros q hh n0 c Hq Hh He. destruct (Nat.lt_ge_cases q (length ks)) as [Hlt|Hge].
    + rewrite nth_error_app1 in Hq by exact Hlt. eapply Hout; eassumption.
    + rewrite nth_error_app2 in Hq by exact Hge. destruct (q - length ks)%nat as [|d]; cbn in Hq.
      * injection Hq as <- _ _. discriminate.
      * destruct d; discriminate.
Qed.

Lemma hrel_push_other unr h ks n cl : hrel unr h ks -> is_unrestricted n = negb unr ->
  hrel unr h (ks ++ [(true, n, cl)]).
Proof.
  intros [Hok Hperm Hout] Hn. constructor.
  - exact Hok.
  - unfold pool. rewrite pool_from_app. cbn [pool_from in_class snd andb]. rewrite Hn.
    replace (Bool.eqb (negb unr) unr) with false by (destruct unr; reflexivity). cbn [app]. rewrite app_nil_r. exact Hperm.
  - intros q hh n0 c Hq Hh He. destruct (Nat.lt_ge_cases q (length ks)) as [Hlt|Hge].
    + rewrite nth_error_app1 in Hq by exact Hlt. eapply Hout; eassumption.
    + rewrite nth_error_app2 in Hq by exact Hge. destruct (q - length ks)%nat as [|d]; cbn in Hq.
      * injection Hq as <- _ _. discriminate.
      * destruct d; discriminate.
Qed.

(* an element with id p leaves the slice (popped or removed) and is appended to those that left *)
Lemma hrel_take unr h ks s' y : hrel unr h ks -> sheap_ok (mkh s' (h_out h ++ [y])) ->
  Permutation (map x_el (h_arr h)) (x_el y :: map x_el s') ->
  exists n c, x_el y = (x_id y, c) /\ nth_error ks (x_id y) = Some (true, n, c) /\ Bool.eqb (is_unrestricted n) unr = true /\
    hrel unr (mkh s' (h_out h ++ [y])) (upd (x_id y) kclear ks).
Proof.
  intros [Hok Hperm Hout] Hok' Hp.
  assert (Hin : In (x_el y) (pool unr ks)).
  { eapply Permutation_in; [exact Hperm|]. eapply Permutation_in; [apply Permutation_sym; exact Hp|]. left. reflexivity. }
  destruct (x_el y) as [p c] eqn:Ey. assert (Hid : x_id y = p) by (unfold x_id; rewrite Ey; reflexivity).
  destruct (pool_from_in unr ks 0 p c Hin) as [_ [hh [n [Hn He]]]]. rewrite Nat.sub_0_r in Hn.
  assert (Hh : hh = true) by (cbn in He; destruct hh; [reflexivity | discriminate]). subst hh.
  exists n, c. rewrite Hid. split; [reflexivity|]. split; [exact Hn|]. split; [cbn in He; exact He|].
  constructor; cbn [h_arr h_out].
  - exact Hok'.
  - pose proof (pool_from_clear unr ks p 0 true n c Hn He) as Hc. cbn [Nat.add] in Hc.
    apply (Permutation_cons_inv (a := (p, c))).
    eapply Permutation_trans; [apply Permutation_sym; exact Hp|].
    eapply Permutation_trans; [exact Hperm | exact Hc].
  - intros q hh n0 c0 Hq Hh He0. destruct (nth_upd_clear ks p q _ Hq) as [[-> _]|[Hne Hq']].
    + exists y. split; [apply in_or_app; right; left; reflexivity | exact Hid].
    + destruct (Hout q hh n0 c0 Hq' Hh He0) as [x [Hx Hxid]]. exists x. split; [apply in_or_app; left; exact Hx | exact Hxid].
Qed.

(* a poll of the OTHER class (or one that is not in the pool) is cleared *)
Lemma hrel_clear_other unr h ks p hh n c : hrel unr h ks -> nth_error ks p = Some (hh, n, c) ->
  Bool.eqb (is_unrestricted n) unr = false -> hrel unr h (upd p kclear ks).
Proof.
  intros [Hok Hperm Hout] Hn He. constructor.
  - exact Hok.
  - unfold pool. rewrite (pool_from_clear_other unr ks p 0 (hh, n, c) Hn); [exact Hperm|].
    cbn. rewrite He. apply andb_false_r.
  - intros q hh0 n0 c0 Hq Hh He0. destruct (nth_upd_clear ks p q _ Hq) as [[-> [k0 [Hk0 Hk]]]|[Hne Hq']].
    + rewrite Hn in Hk0. injection Hk0 as <-. cbn in Hk. injection Hk as _ <- _. congruence.
    + eapply Hout; eassumption.
Qed.

(* ------------------------------------------------------------------ *)
(* the simulation relation                                               *)

Definition Rel (st : istate) : Prop := forall unr, hrel unr (heap_sel unr st) (keys (i_s st)).

Lemma rel_init br : Rel (iinit br).
Proof. intros unr. destruct unr; apply hrel_empty. Qed.

Lemma heap_sel_set_same unr h st s' : heap_sel unr (heap_set unr h st s') = h.
Proof. destruct unr; reflexivity. Qed.
Lemma heap_sel_set_other unr h st s' : heap_sel (negb unr) (heap_set unr h st s') = heap_sel (negb unr) st.
Proof. destruct unr; reflexivity. Qed.
Lemma i_s_set unr h st s' : i_s (heap_set unr h st s') = s'.
Proof. destruct unr; reflexivity. Qed.

Lemma rel_same st s' : Rel st -> keys s' = keys (i_s st) -> Rel (mki s' (i_hu st) (i_hr st)).
Proof. intros R Hk unr. cbn [i_s]. rewrite Hk. specialize (R unr). destruct unr; exact R. Qed.

Lemma rel_set unr h st s' : hrel unr h (keys s') -> hrel (negb unr) (heap_sel (negb unr) st) (keys s') ->
  Rel (heap_set unr h st s').
Proof.
  intros H1 H2 u. rewrite i_s_set. destruct (Bool.bool_dec u unr) as [->|Hne].
  - rewrite heap_sel_set_same. exact H1.
  - assert (u = negb unr) by (destruct u, unr; try reflexivity; elim Hne; reflexivity). subst u.
    rewrite heap_sel_set_other. exact H2.
Qed.

Lemma eligible_class cn e : eligible cn e = in_class (negb (is_unrestricted cn)) (ekey e).
Proof. unfold eligible, in_class, ekey. destruct (e_inheap e), (is_unrestricted cn), (is_unrestricted (e_nat e)); reflexivity. Qed.

Lemma keys_nth s p e : nth_error (entries s) p = Some e -> nth_error (keys s) p = Some (ekey e).
Proof. intros H. unfold keys. rewrite nth_error_map, H. reflexivity. Qed.

Lemma keys_nth_inv s p k : nth_error (keys s) p = Some k -> exists e, nth_error (entries s) p = Some e /\ k = ekey e.
Proof.
  unfold keys. rewrite nth_error_map. destruct (nth_error (entries s) p) as [e|]; [|discriminate].
  intros H. injection H as <-. exists e. split; reflexivity.
Qed.

(* matchSnowflake on a non-empty heap hands out a proxy the relational machine may hand out *)
Lemma pop_is_model_choice st cn h : Rel st -> h = heap_sel (negb (is_unrestricted cn)) st -> h_arr h <> [] ->
  exists y s', xpop (h_arr h) = (s', Some y) /\
    (exists e, nth_error (entries (i_s st)) (x_id y) = Some e /\
               eligible cn e && is_min cn (entries (i_s st)) e = true) /\
    hrel (negb (is_unrestricted cn)) (mkh s' (h_out h ++ [y])) (upd (x_id y) kclear (keys (i_s st))) /\
    hrel (is_unrestricted cn) (heap_sel (is_unrestricted cn) st) (upd (x_id y) kclear (keys (i_s st))).
Proof.
  intros R -> Hne. set (unr := negb (is_unrestricted cn)) in *.
  pose proof (R unr) as Hr.
  destruct (xpop_least_loaded _ (hr_ok _ _ _ Hr) Hne) as (y & s' & Hpop & Hidx & Hperm & Hmin & Hok').
  exists y, s'. split; [exact Hpop|].
  destruct (hrel_take unr _ _ s' y Hr Hok' Hperm) as (n & c & Ey & Hn & He & Hr').
  destruct (keys_nth_inv _ _ _ Hn) as [e [Hp Hk]].
  split; [|split; [exact Hr'|]].
  - exists e. split; [exact Hp|]. apply andb_true_intro. split.
    + rewrite eligible_class. fold unr. rewrite <- Hk. cbn. exact He.
    + unfold is_min. apply forallb_forall. intros e' Hin'. destruct (eligible cn e') eqn:El; [cbn|reflexivity].
      apply N.leb_le. destruct (In_nth_error _ _ Hin') as [q Hq].
      rewrite eligible_class in El. fold unr in El.
      assert (Hinp : In ((0 + q)%nat, e_clients e') (pool unr (keys (i_s st)))).
      { unfold pool. eapply (pool_from_intro unr _ 0 q (e_inheap e') (e_nat e') (e_clients e')); [apply keys_nth; exact Hq | exact El]. }
      apply (Permutation_in _ (Permutation_sym (hr_perm _ _ _ Hr))) in Hinp.
      apply in_map_iff in Hinp. destruct Hinp as [z [Hz Hzin]].
      specialize (Hmin z Hzin). rewrite Hz, Ey in Hmin. cbn [snd] in Hmin.
      assert (e_clients e = c) by (unfold ekey in Hk; congruence). congruence.
  - replace (is_unrestricted cn) with (negb unr) by (unfold unr; apply negb_involutive).
    eapply (hrel_clear_other (negb unr) _ _ (x_id y) true n c); [apply R | exact Hn|].
    destruct (is_unrestricted n), unr; cbn in *; congruence.
Qed.

Lemma pool_empty_of_rel st cn : Rel st -> h_arr (heap_sel (negb (is_unrestricted cn)) st) = [] ->
  pool_empty cn (entries (i_s st)) = true.
Proof.
  intros R Hnil. apply pool_empty_spec. intros e Hin. destruct (eligible cn e) eqn:El; [|reflexivity]. exfalso.
  destruct (In_nth_error _ _ Hin) as [q Hq]. rewrite eligible_class in El.
  set (unr := negb (is_unrestricted cn)) in *.
  assert (Hinp : In ((0 + q)%nat, e_clients e) (pool unr (keys (i_s st)))).
  { unfold pool. eapply (pool_from_intro unr _ 0 q (e_inheap e) (e_nat e) (e_clients e)); [apply keys_nth; exact Hq | exact El]. }
  apply (Permutation_in _ (Permutation_sym (hr_perm _ _ _ (R unr)))) in Hinp. rewrite Hnil in Hinp. destruct Hinp.
Qed.

(* the waiter's view of its own Snowflake: in the slice with index = position when the poll is in the pool, among
   the elements that left (index -1) otherwise *)
Lemma find_app_l {A} (f : A -> bool) a b x : In x a -> f x = true -> exists y, find f (a ++ b) = Some y /\ In y a /\ f y = true.
Proof.
  induction a as [|z a IH]; intros Hin Hf; [destruct Hin|]. cbn [app find].
  destruct (f z) eqn:Ez.
  - exists z. repeat split; [left; reflexivity | exact Ez].
  - destruct Hin as [->|Hin]; [congruence|]. destruct (IH Hin Hf) as [y [Hy [Hya Hfy]]]. exists y. repeat split; [exact Hy | right; exact Hya | exact Hfy].
Qed.

Lemma find_app_r {A} (f : A -> bool) a b : (forall x, In x a -> f x = false) -> find f (a ++ b) = find f b.
Proof.
  induction a as [|z a IH]; intros H; [reflexivity|]. cbn [app find]. rewrite (H z (or_introl eq_refl)).
  apply IH. intros x Hx. apply H. right. exact Hx.
Qed.

Lemma find_self st p e : Rel st -> nth_error (entries (i_s st)) p = Some e ->
  let h := heap_sel (is_unrestricted (e_nat e)) st in
  if e_inheap e then
    exists x i, find_x p h = Some x /\ nth_error (h_arr h) i = Some x /\ x_idx x = Z.of_nat i /\ x_id x = p
  else exists x, find_x p h = Some x /\ x_idx x = (-1)%Z.
Proof.
  intros R Hp h. pose proof (R (is_unrestricted (e_nat e))) as Hr. fold h in Hr.
  destruct Hr as [[Hidx [Hneg _]] Hperm Hout]. unfold find_x.
  destruct (e_inheap e) eqn:Eh.
  - assert (Hinp : In ((0 + p)%nat, e_clients e) (pool (is_unrestricted (e_nat e)) (keys (i_s st)))).
    { unfold pool. eapply (pool_from_intro _ _ 0 p true (e_nat e) (e_clients e)).
      - pose proof (keys_nth _ _ _ Hp) as Hk. unfold ekey in Hk. rewrite Eh in Hk. exact Hk.
      - cbn. apply Bool.eqb_reflx. }
    apply (Permutation_in _ (Permutation_sym Hperm)) in Hinp. apply in_map_iff in Hinp. destruct Hinp as [z [Hz Hzin]].
    destruct (find_app_l (fun x => Nat.eqb (x_id x) p) (h_arr h) (h_out h) z Hzin) as [y [Hy [Hya Hfy]]].
    { unfold x_id. rewrite Hz. cbn. apply Nat.eqb_refl. }
    destruct (In_nth_error _ _ Hya) as [i Hi]. exists y, i. apply Nat.eqb_eq in Hfy.
    repeat split; [exact Hy | exact Hi | apply Hidx; exact Hi | exact Hfy].
  - rewrite find_app_r.
    + destruct (Hout p false (e_nat e) (e_clients e)) as [x [Hx Hxid]].
      * pose proof (keys_nth _ _ _ Hp) as Hk. unfold ekey in Hk. rewrite Eh in Hk. exact Hk.
      * reflexivity.
      * apply Bool.eqb_reflx.
      * destruct (find (fun x0 => Nat.eqb (x_id x0) p) (h_out h)) as [y|] eqn:Ef.
        -- apply find_some in Ef. destruct Ef as [Hy _]. exists y. split; [reflexivity | apply Hneg; exact Hy].
        -- exfalso. apply (find_none _ _ Ef) in Hx. rewrite Hxid, Nat.eqb_refl in Hx. discriminate.
    + intros x Hx. destruct (Nat.eqb (x_id x) p) eqn:Ex; [|reflexivity]. exfalso. apply Nat.eqb_eq in Ex.
      assert (Hin : In (x_el x) (pool (is_unrestricted (e_nat e)) (keys (i_s st)))).
      { eapply Permutation_in; [exact Hperm | apply in_map; exact Hx]. }
      destruct (x_el x) as [q c] eqn:Exe. unfold x_id in Ex. rewrite Exe in Ex. cbn in Ex. subst q.
      destruct (pool_from_in _ _ 0 p c Hin) as [_ [hh [n [Hn He]]]]. rewrite Nat.sub_0_r in Hn.
      pose proof (keys_nth _ _ _ Hp) as Hk. unfold ekey in Hk. rewrite Eh in Hk.
      assert (Some (hh, n, c) = Some (false, e_nat e, e_clients e)) as Hxx by (transitivity (nth_error (keys (i_s st)) p); [symmetry; exact Hn | exact Hk]).
      injection Hxx as -> _ _. discriminate.
Qed.

(* heap.Remove at the element's own index takes exactly that element out *)
Lemma xremove_at h i x : sheap_ok h -> nth_error (h_arr h) i = Some x ->
  exists y s', xremove (h_arr h) i = (s', Some y) /\ x_el y = x_el x /\
    Permutation (map x_el (h_arr h)) (x_el y :: map x_el s') /\ sheap_ok (mkh s' (h_out h ++ [y])).
Proof.
  intros [Hi [Ho Hh]] Hx.
  assert (HR : xR (h_arr h) (map x_el (h_arr h))) by (split; [reflexivity | exact Hi]).
  assert (Hlt : (i < length (map x_el (h_arr h)))%nat) by (rewrite map_length; apply nth_error_Some; congruence).
  destruct (xremove_sim _ _ i HR Hlt) as (r & y & s' & l' & Hp & Hs & He & Hxi & [Hm' Hi']).
  assert (Hxl : nth_error (map x_el (h_arr h)) i = Some (x_el x)) by (rewrite nth_error_map, Hx; reflexivity).
  destruct (lremove_spec sf sf_less sf_irrefl sf_trans sf_negtrans _ i (x_el x) Hh Hxl) as [l2 [Hp2 [Hok2 Hperm]]].
  rewrite Hp in Hp2. injection Hp2 as <- Hr.
  exists y, s'. split; [exact Hs|]. split; [congruence|]. split; [rewrite Hm', He, Hr; exact Hperm|].
  split; [exact Hi'|]. split.
  - intros e0 H0. apply in_app_or in H0. destruct H0 as [H0|[<-|[]]]; [apply Ho; exact H0 | exact Hxi].
  - cbn [h_arr]. rewrite Hm'. exact Hok2.
Qed.

(* ------------------------------------------------------------------ *)
(* every step of the implementation-level machine is a step of the relational machine *)

Definition same_request (l l' : label) : Prop :=
  match l with
  | L_Client n ofp o _ => exists ch, l' = L_Client n ofp o ch
  | _ => l' = l
  end.

Ltac plain_step H R :=
  match type of H with
  | option_map _ (step ?v ?s ?l) = Some _ =>
      let s1 := fresh "s1" in let E := fresh "E" in
      destruct (step v s l) as [s1|] eqn:E; [|discriminate]; cbn [option_map] in H; injection H as <-;
      split; [exists l; split; [exact E | first [reflexivity | eexists; reflexivity]]
             | apply rel_same; [exact R | rewrite (step_keys _ _ _ _ E); reflexivity]]
  end.

Theorem istep_refines v st l st' : Rel st -> istep v st l = Some st' ->
  (exists l', step v (i_s st) l' = Some (i_s st') /\ same_request l l') /\ Rel st'.
Proof.
  intros R H. destruct l; cbn [istep] in H; try (plain_step H R).
  - (* Poll *)
    destruct (step v (i_s st) (L_Poll s n pt cl)) as [s1|] eqn:E; [|discriminate]. injection H as <-.
    split; [exists (L_Poll s n pt cl); rewrite i_s_set; split; [exact E | reflexivity]|].
    pose proof (step_keys _ _ _ _ E) as Hk. cbn [key_effect] in Hk.
    apply rel_set; rewrite Hk.
    + replace (length (entries (i_s st))) with (length (keys (i_s st))) by (unfold keys; apply map_length).
      apply hrel_push; [apply R | reflexivity].
    + apply hrel_push_other; [apply R | symmetry; apply negb_involutive].
  - (* WTimeoutCS *)
    destruct (nth_error (entries (i_s st)) p) as [e|] eqn:Hp; [|discriminate].
    destruct (e_w e) eqn:Ew; try discriminate.
    pose proof (find_self st p e R Hp) as Hf. cbn zeta in Hf.
    destruct (e_inheap e) eqn:Eh.
    + destruct Hf as (x & i & Hfx & Hi & Hxi & Hxid). rewrite Hfx in H.
      replace (x_idx x =? -1)%Z with false in H by (symmetry; apply Z.eqb_neq; lia).
      rewrite Hxi, Nat2Z.id in H.
      pose proof (R (is_unrestricted (e_nat e))) as Hr.
      destruct (xremove_at _ i x (hr_ok _ _ _ Hr) Hi) as (y & s' & Hrm & Hey & Hperm & Hok').
      rewrite Hrm in H. injection H as <-.
      assert (Hyid : x_id y = p) by (unfold x_id in *; rewrite Hey; exact Hxid).
      assert (E : step v (i_s st) (L_WTimeoutCS p) = Some (i_s (heap_set (is_unrestricted (e_nat e))
                    (mkh s' (h_out (heap_sel (is_unrestricted (e_nat e)) st) ++ [y])) st
                    {| entries := upd p (fun e0 => set_w (W_Done PNoMatch) (set_heap_live false false e0)) (entries (i_s st));
                       idmap := remove_key (e_sid e) (idmap (i_s st)); gauge := (gauge (i_s st) - 1)%Z;
                       bridges := bridges (i_s st); br_hist := br_hist (i_s st); next_cid := next_cid (i_s st);
                       next_aid := next_aid (i_s st); done_clients := done_clients (i_s st);
                       done_answers := done_answers (i_s st); answer_log := answer_log (i_s st) |}))).
      { rewrite i_s_set. cbn [step]. rewrite Hp, Ew, Eh. reflexivity. }
      split; [exists (L_WTimeoutCS p); split; [exact E | reflexivity]|].
      pose proof (step_keys _ _ _ _ E) as Hk. rewrite i_s_set in Hk. cbn [key_effect] in Hk.
      destruct (hrel_take _ _ _ s' y Hr Hok' Hperm) as (n & c & _ & Hn & He & Hr').
      apply rel_set; rewrite Hk; rewrite Hyid in *.
      * exact Hr'.
      * eapply (hrel_clear_other _ _ _ p true n c); [apply R | exact Hn|].
        destruct (is_unrestricted n), (is_unrestricted (e_nat e)); cbn in *; congruence.
    + destruct Hf as (x & Hfx & Hxi). rewrite Hfx, Hxi in H. cbn in H. injection H as <-.
      assert (E : step v (i_s st) (L_WTimeoutCS p) =
                  Some (with_entries (upd p (set_w (match v with V0 => W_Stuck | V1 => W_Late end)) (entries (i_s st))) (i_s st))).
      { cbn [step]. rewrite Hp, Ew, Eh. reflexivity. }
      split; [exists (L_WTimeoutCS p); split; [exact E | reflexivity]|].
      apply rel_same; [exact R|]. rewrite (step_keys _ _ _ _ E). cbn [key_effect]. apply upd_same.
      intros k Hk. pose proof (keys_nth _ _ _ Hp) as Hk2.
      assert (Some k = Some (ekey e)) as Hx by (transitivity (nth_error (keys (i_s st)) p); [symmetry; exact Hk | exact Hk2]).
      injection Hx as ->. unfold ekey, kclear. rewrite Eh. reflexivity.
  - (* Client *)
    destruct (lookup (fp_of ofp) (bridges (i_s st))) as [u|] eqn:Hl.
    + destruct (h_arr (heap_sel (negb (is_unrestricted n)) st)) as [|a0 r0] eqn:Ha.
      * destruct (step v (i_s st) (L_Client n ofp o None)) as [s1|] eqn:E; [|discriminate]. cbn [option_map] in H. injection H as <-.
        split; [exists (L_Client n ofp o None); split; [exact E | exists None; reflexivity]|].
        apply rel_same; [exact R | rewrite (step_keys _ _ _ _ E); reflexivity].
      * destruct (pop_is_model_choice st n _ R eq_refl) as (y & s' & Hpop & _ & Hr1 & Hr2); [rewrite Ha; discriminate|].
        rewrite Ha in Hpop. rewrite Hpop in H.
        destruct (step v (i_s st) (L_Client n ofp o (Some (x_id y)))) as [s1|] eqn:E; [|discriminate]. injection H as <-.
        split; [exists (L_Client n ofp o (Some (x_id y))); rewrite i_s_set; split; [exact E | eexists; reflexivity]|].
        pose proof (step_keys _ _ _ _ E) as Hk. cbn [key_effect] in Hk.
        apply rel_set; rewrite Hk; [exact Hr1 | rewrite negb_involutive; exact Hr2].
    + destruct (step v (i_s st) (L_Client n ofp o None)) as [s1|] eqn:E; [|discriminate]. cbn [option_map] in H. injection H as <-.
      split; [exists (L_Client n ofp o None); split; [exact E | exists None; reflexivity]|].
      apply rel_same; [exact R | rewrite (step_keys _ _ _ _ E); reflexivity].
Qed.

(* ... and it never refuses a step the relational machine can take (for a client: with SOME choice) *)
Theorem istep_enabled v st l s' : Rel st -> step v (i_s st) l = Some s' -> exists st', istep v st l = Some st'.
Proof.
  intros R H. destruct l; cbn [istep]; try (rewrite H; eexists; reflexivity).
  - (* WTimeoutCS *)
    cbn [step] in H. destruct (nth_error (entries (i_s st)) p) as [e|] eqn:Hp; [|discriminate].
    destruct (e_w e) eqn:Ew; try discriminate.
    pose proof (find_self st p e R Hp) as Hf. cbn zeta in Hf. destruct (e_inheap e) eqn:Eh.
    + destruct Hf as (x & i & Hfx & Hi & Hxi & Hxid). rewrite Hfx.
      replace (x_idx x =? -1)%Z with false by (symmetry; apply Z.eqb_neq; lia). rewrite Hxi, Nat2Z.id.
      destruct (xremove_at _ i x (hr_ok _ _ _ (R (is_unrestricted (e_nat e)))) Hi) as (y & s1 & Hrm & _).
      rewrite Hrm. eexists. reflexivity.
    + destruct Hf as (x & Hfx & Hxi). rewrite Hfx, Hxi. cbn. eexists. reflexivity.
  - (* Client *)
    destruct (lookup (fp_of ofp) (bridges (i_s st))) as [u|] eqn:Hl.
    + destruct (h_arr (heap_sel (negb (is_unrestricted n)) st)) as [|a0 r0] eqn:Ha.
      * cbn [step]. rewrite Hl. rewrite (pool_empty_of_rel st n R Ha). cbn. eexists. reflexivity.
      * destruct (pop_is_model_choice st n _ R eq_refl) as (y & s1 & Hpop & [e [Hp Hel]] & _); [rewrite Ha; discriminate|].
        rewrite Ha in Hpop. rewrite Hpop. cbn [step]. rewrite Hl, Hp, Hel. eexists. reflexivity.
    + cbn [step] in H |- *. rewrite Hl in H |- *. destruct choice; [discriminate|]. cbn. eexists. reflexivity.
Qed.

(* runs *)
Theorem irun_refines v br : forall ls st, irun v (iinit br) ls = Some st -> reachable v br (i_s st) /\ Rel st.
Proof.
  assert (G : forall ls st0 st, reachable v br (i_s st0) -> Rel st0 -> irun v st0 ls = Some st -> reachable v br (i_s st) /\ Rel st).
  { induction ls as [|l ls IH]; intros st0 st Hr R H; cbn [irun] in H.
    - injection H as <-. split; assumption.
    - destruct (istep v st0 l) as [st1|] eqn:E; [|discriminate].
      destruct (istep_refines v st0 l st1 R E) as [[l' [Hs _]] R1].
      eapply IH; [eapply reachable_step; eassumption | exact R1 | exact H]. }
  intros ls st H. apply (G ls (iinit br) st); [exists []; reflexivity | apply rel_init | exact H].
Qed.

(* what matchSnowflake + heap.Pop deliver, stated on the implementation-level machine: a client is refused only
   if no proxy of its pool is waiting, and is otherwise given a waiting eligible proxy with the smallest client count *)
Theorem impl_client_least_loaded v br ls st n ofp o ch st' :
  irun v (iinit br) ls = Some st -> istep v st (L_Client n ofp o ch) = Some st' ->
  lookup (fp_of ofp) (bridges (i_s st)) <> None ->
  (forall e, In e (entries (i_s st)) -> eligible n e = false) /\ entries (i_s st') = entries (i_s st) /\
    done_clients (i_s st') = (next_cid (i_s st), n, fp_of ofp, o, CNoProxies) :: done_clients (i_s st)
  \/ exists p e, nth_error (entries (i_s st)) p = Some e /\ eligible n e = true /\
       (forall e', In e' (entries (i_s st)) -> eligible n e' = true -> e_clients e <= e_clients e') /\
       exists c, nth_error (entries (i_s st')) p = Some (set_cl (Some c) (set_heap_live false (e_live e) e)) /\ c_offer c = o.
Proof.
  intros Hrun H Hfp. destruct (irun_refines v br ls st Hrun) as [_ R].
  destruct (istep_refines v st _ st' R H) as [[l' [Hs [ch' ->]]] _].
  destruct ch' as [p|].
  - right. destruct (least_loaded v _ n ofp o p _ Hs) as [e [Hp [He [Hmin [c [Hc [_ [_ [Ho _]]]]]]]]].
    exists p, e. repeat split; try assumption. exists c. split; assumption.
  - left. destruct (refusal_iff v _ n ofp o None _ Hs Hfp) as [[Hall _] Hdone].
    split; [apply Hall; reflexivity|]. destruct (Hdone eq_refl) as [A B]. split; assumption.
Qed.
