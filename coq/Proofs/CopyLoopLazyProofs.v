(* CopyLoopLazyProofs.v — what copyLoop guarantees about its two copiers AT ITS RETURN when Close does not terminate the
   parked copiers atomically (Model/CopyLoop.v [cl_do_lazy]: a Close only marks the conn closed).

   In the main model [wake] ends the parked copiers in the step that closes their conn, so [returned_both_exited]
   (C01_relay_both_copiers_gone_at_return) says both copiers are gone when copyLoop returns. Go's copyLoop does not join
   its copiers: it returns after the two deferred Close calls, while a copier may still be parked in a Read or Write that
   is about to fail. For the machine without the atomic wake, for ALL scripts and ALL schedules:

   - [lazy_returned_closed]    when copyLoop has returned, it has closed both conns (each exactly once);
   - [lazy_returned_one_step]  a copier that has not yet left io.Copy by then leaves it at its very next step (its Read or
                               Write fails on the closed conn), and that step moves no byte, advances no script and
                               closes nothing: at most one more step per copier, and it is inert;
   - [lazy_returned_inert]     after the return no byte is accepted by either side and no Close is made, whatever follows. *)
From Coq Require Import List NArith Bool Arith Lia.
From Snow Require Import Lib.Wire Model.CopyLoop Proofs.CopyLoopProofs.
Import ListNotations.
Open Scope nat_scope.

(* closes made by copyLoop so far, by the stage it is at *)
Definition lazy_inv (st : cl_state) : Prop := forall s, s_closes (get_side s st) = expected_closes s (mn st).

(* a step of a copier changes no Close count and no "closed from outside" flag, and moves copyLoop at most out of its select *)
Lemma rel_frame d st :
  (forall s, s_closes (get_side s (cl_do st (Rel d))) = s_closes (get_side s st)) /\
  (mn (cl_do st (Rel d)) = mn st \/ mn (cl_do st (Rel d)) = woken (mn st)).
Proof.
  cbn [cl_do]. destruct (get_dir d st) as [|c er|] eqn:Ed; [| |split; auto].
  - unfold do_read, to_read, to_write.
    repeat match goal with
           | |- context [if ?b then _ else _] => destruct b
           | |- context [match ?x with _ => _ end] => destruct x
           end;
      (split; [intros s; destruct (bool_cases s d) as [->| ->]; autorewrite with cl; reflexivity
              | autorewrite with cl; auto]).
  - unfold do_write, to_read.
    repeat match goal with
           | |- context [if ?b then _ else _] => destruct b
           | |- context [match ?x with _ => _ end] => destruct x
           end;
      (split; [intros s; destruct (bool_cases s (negb d)) as [->| ->]; autorewrite with cl; reflexivity
              | autorewrite with cl; auto]).
Qed.

Lemma lazy_step_inv st x : lazy_inv st -> lazy_inv (cl_do_lazy st x).
Proof.
  intros Hi. destruct x as [d| | |s0]; cbn [cl_do_lazy].
  - destruct (rel_frame d st) as [Hc Hm]. intros s. rewrite Hc, Hi.
    destruct Hm as [-> | ->]; rewrite ?expected_woken; reflexivity.
  - unfold do_main_lazy. pose proof (Hi false) as H0. pose proof (Hi true) as H1. cbn [get_side] in H0, H1.
    destruct (mn st) eqn:Em; try exact Hi; cbn [expected_closes] in H0, H1; intros s; destruct s; cbn; rewrite ?H0, ?H1; reflexivity.
  - cbn [cl_do]. rewrite do_shutdown_eq. intros s. specialize (Hi s). destruct (mn st) eqn:Em; cbn; autorewrite with cl; exact Hi.
  - intros s. destruct (bool_cases s s0) as [->| ->]; autorewrite with cl; [cbn [side_ext s_closes]|]; apply Hi.
Qed.

Lemma lazy_run_inv sched : forall st, lazy_inv st -> lazy_inv (cl_run_lazy sched st).
Proof.
  induction sched as [|x l IH]; intros st Hi; [exact Hi|]. cbn [cl_run_lazy fold_left].
  change (fold_left cl_do_lazy l (cl_do_lazy st x)) with (cl_run_lazy l (cl_do_lazy st x)). apply IH, lazy_step_inv, Hi.
Qed.

Lemma lazy_init_inv r0 w0 r1 w1 : lazy_inv (cl_init r0 w0 r1 w1).
Proof. intros s. destruct s; reflexivity. Qed.

(* at the return copyLoop has closed both conns, each exactly once *)
Theorem lazy_returned_closed r0 w0 r1 w1 sched :
  let st := cl_run_lazy sched (cl_init r0 w0 r1 w1) in
  mn st = Returned -> forall s, s_closes (get_side s st) = 1 /\ closed (get_side s st) = true.
Proof.
  intros st Hm s. pose proof (lazy_run_inv sched _ (lazy_init_inv r0 w0 r1 w1) s) as H. fold st in H. rewrite Hm in H.
  cbn in H. split; [exact H|]. unfold closed. rewrite H. apply closedb_S.
Qed.

(* a step of copier d after the return (both conns closed): the copier has left io.Copy, and nothing else changed *)
Lemma closed_rel_step d st :
  (forall s, closed (get_side s st) = true) -> mn st = Returned ->
  get_dir d (cl_do_lazy st (Rel d)) = Exited /\
  (forall s, get_side s (cl_do_lazy st (Rel d)) = get_side s st) /\
  get_dir (negb d) (cl_do_lazy st (Rel d)) = get_dir (negb d) st /\
  mn (cl_do_lazy st (Rel d)) = Returned.
Proof.
  intros Hc Hm. cbn [cl_do_lazy cl_do]. destruct (get_dir d st) as [|c er|] eqn:Ed.
  - unfold do_read. rewrite (Hc d). autorewrite with cl. rewrite Hm. repeat split; intros; autorewrite with cl; auto.
  - unfold do_write. rewrite (Hc (negb d)). autorewrite with cl. rewrite Hm. repeat split; intros; autorewrite with cl; auto.
  - repeat split; auto.
Qed.

(* what the code guarantees about a copier that is still inside io.Copy when copyLoop returns: its next step (the Read or
   Write it is parked in fails, the conn being closed) takes it out of io.Copy, and that step moves no byte, advances no
   script, closes nothing and leaves the other copier alone *)
Theorem lazy_returned_one_step r0 w0 r1 w1 sched :
  let st := cl_run_lazy sched (cl_init r0 w0 r1 w1) in
  mn st = Returned -> forall d,
    get_dir d (cl_do_lazy st (Rel d)) = Exited /\
    (forall s, get_side s (cl_do_lazy st (Rel d)) = get_side s st) /\
    get_dir (negb d) (cl_do_lazy st (Rel d)) = get_dir (negb d) st /\
    mn (cl_do_lazy st (Rel d)) = Returned.
Proof.
  intros st Hm d. apply closed_rel_step; [|exact Hm].
  intros s. apply (lazy_returned_closed r0 w0 r1 w1 sched Hm s).
Qed.

(* ... and a copier need not be gone at the return: the weaker statement is all that holds of this machine *)
Lemma lazy_copier_may_outlive_return :
  let st := cl_run_lazy [Shutdown; RelMain; RelMain] (cl_init [] [] [] []) in
  mn st = Returned /\ get_dir false st = AtRead /\ get_dir true st = AtRead.
Proof. vm_compute. repeat split. Qed.

(* after the return nothing moves, whatever follows: no byte accepted or handed out, no script advanced, no Close *)
Definition after_return (st : cl_state) : Prop := mn st = Returned /\ forall s, closed (get_side s st) = true.

Lemma closed_side_view x y : side_view x = side_view y -> closed x = true -> s_ext y = s_ext x \/ s_ext y = true -> closed y = true.
Proof.
  unfold side_view, closed. intros H Hc He. injection H as _ _ _ _ Hcl. rewrite <- Hcl.
  destruct He as [-> | ->]; [exact Hc | apply closedb_ext].
Qed.

Lemma after_return_step st x :
  after_return st -> after_return (cl_do_lazy st x) /\ forall s, side_view (get_side s (cl_do_lazy st x)) = side_view (get_side s st).
Proof.
  intros [Hm Hc]. destruct x as [d| | |s0].
  - destruct (closed_rel_step d st Hc Hm) as (_ & Hs & _ & Hm').
    split; [split; [exact Hm'|intros s; rewrite Hs; apply Hc] | intros s; rewrite Hs; reflexivity].
  - cbn [cl_do_lazy]. unfold do_main_lazy. rewrite Hm. split; [split; assumption | reflexivity].
  - cbn [cl_do_lazy cl_do]. rewrite do_shutdown_eq. rewrite Hm.
    split; [split; [autorewrite with cl; reflexivity | intros s; autorewrite with cl; apply Hc] | intros s; autorewrite with cl; reflexivity].
  - cbn [cl_do_lazy]. split; [split|].
    + autorewrite with cl. exact Hm.
    + intros s. destruct (bool_cases s s0) as [->| ->]; autorewrite with cl; [|apply Hc]. unfold closed. cbn [side_ext s_ext s_closes]. apply closedb_ext.
    + intros s. destruct (bool_cases s s0) as [->| ->]; autorewrite with cl; reflexivity.
Qed.

Lemma after_return_run more : forall st, after_return st ->
  after_return (cl_run_lazy more st) /\ forall s, side_view (get_side s (cl_run_lazy more st)) = side_view (get_side s st).
Proof.
  induction more as [|x l IH]; intros st Ha; [split; [exact Ha | reflexivity]|]. cbn [cl_run_lazy fold_left].
  change (fold_left cl_do_lazy l (cl_do_lazy st x)) with (cl_run_lazy l (cl_do_lazy st x)).
  destruct (after_return_step st x Ha) as [Ha' Hv]. destruct (IH _ Ha') as [Ha'' Hv'].
  split; [exact Ha''|]. intros s. rewrite Hv', Hv. reflexivity.
Qed.

Lemma cl_run_lazy_app a b st : cl_run_lazy (a ++ b) st = cl_run_lazy b (cl_run_lazy a st).
Proof. apply fold_left_app. Qed.

Theorem lazy_returned_inert r0 w0 r1 w1 sched more :
  let st := cl_run_lazy sched (cl_init r0 w0 r1 w1) in
  mn st = Returned ->
  mn (cl_run_lazy (sched ++ more) (cl_init r0 w0 r1 w1)) = Returned /\
  forall s, side_view (get_side s (cl_run_lazy (sched ++ more) (cl_init r0 w0 r1 w1))) = side_view (get_side s st).
Proof.
  intros st Hm. rewrite cl_run_lazy_app. fold st.
  assert (Ha : after_return st) by (split; [exact Hm | intros s; apply (lazy_returned_closed r0 w0 r1 w1 sched Hm s)]).
  destruct (after_return_run more st Ha) as [[Hm' _] Hv]. split; assumption.
Qed.
