(* BrokerJournalProofs.v — the journal writer behind the broker sees every accepted poll (Model/BrokerJournal.v). *)
From Coq Require Import List ZArith NArith Lia Bool Arith.
From Snow Require Import Lib.Wire Model.Metrics Model.Journal Model.BrokerJournal Proofs.JournalProofs.
Import ListNotations.
Open Scope Z_scope.

Section BrokerJournalProofs.
  Variable hash : Type.
  Variable mask : bytes -> hash.
  Variable heqb : hash -> hash -> bool.
  Hypothesis heqb_spec : forall a b, heqb a b = true <-> a = b.

  Notation brun := (brun hash mask heqb).
  Notation bapply := (bapply hash mask heqb).
  Notation jrun := (jrun bytes hash mask heqb).
  Notation chunk_ok := (chunk_ok bytes hash mask heqb).
  Notation masks := (masks bytes hash mask).
  Notation sk_of := (sk_of hash heqb).

  Lemma in_sk_of : forall hs x, In x (sk_of hs) <-> In x hs.
  Proof. intros hs x. destruct (sk_of_spec hash heqb heqb_spec hs) as [_ M]. apply M. Qed.

  (* the two components evolve independently: the metrics state is [exec] of the metrics ops, the writer state is
     [jrun] of the Adds of the accepted polls (and the explicit flushes) — the writer never looks at the metrics *)
  Lemma brun_split_gen : forall ops s,
    b_m (brun ops s) = exec (flat_map mop_of ops) (b_m s) /\
    b_w (brun ops s) = jrun (flat_map jop_of ops) (b_w s).
  Proof.
    induction ops as [|o ops IH]; intro s; cbn [BrokerJournal.brun fold_left flat_map].
    - split; reflexivity.
    - destruct (IH (bapply s o)) as [H1 H2]. unfold BrokerJournal.brun in H1, H2. rewrite H1, H2.
      unfold exec, Journal.jrun. rewrite !fold_left_app. destruct o as [now o|now]; cbn [BrokerJournal.bapply b_m b_w mop_of jop_of fold_left].
      + split; [reflexivity|]. destruct (recorded o); reflexivity.
      + split; reflexivity.
  Qed.

  Lemma brun_split : forall g t0 k ops,
    b_m (brun ops (binit hash g t0 k)) = exec (flat_map mop_of ops) (minit g) /\
    b_w (brun ops (binit hash g t0 k)) = jrun (flat_map jop_of ops) (new_writer t0 k).
  Proof. intros. apply (brun_split_gen ops (binit hash g t0 k)). Qed.

  (* clock readings of the whole history do not go backwards *)
  Fixpoint bmono (t : Z) (ops : list bop) : Prop :=
    match ops with [] => True | o :: r => t <= bop_time o /\ bmono (bop_time o) r end.

  Lemma mono_weaken : forall ops t t', t <= t' -> mono bytes t' ops -> mono bytes t ops.
  Proof. destruct ops as [|o r]; intros t t' H M; cbn [mono] in *; [exact I | destruct M; split; [lia | assumption]]. Qed.

  Lemma bmono_mono : forall ops t, bmono t ops -> mono bytes t (flat_map jop_of ops).
  Proof.
    induction ops as [|o ops IH]; intros t H; cbn [flat_map bmono] in *; [exact I|].
    destruct H as [H1 H2]. specialize (IH _ H2).
    destruct o as [now o|now]; cbn [jop_of bop_time app] in *.
    - destruct (recorded o); cbn [app mono op_time].
      + split; [exact H1 | exact IH].
      + eapply mono_weaken; eauto.
    - cbn [mono op_time]. split; [exact H1 | exact IH].
  Qed.

  Lemma events_accepted : forall ops, flat_map (op_events bytes) (flat_map jop_of ops) = flat_map accepted ops.
  Proof.
    induction ops as [|o ops IH]; cbn [flat_map]; [reflexivity|]. rewrite flat_map_app, IH. f_equal.
    destruct o as [now o|now]; cbn [jop_of accepted]; [destruct (recorded o)|]; reflexivity.
  Qed.

  (* every accepted poll, in order, is in exactly one emitted chunk or in the open sketch; chunk i holds exactly the
     masked addresses of the polls of segment i, all of which happened inside the chunk's interval *)
  Lemma every_poll_recorded : forall g t0 k ops,
    bmono t0 ops ->
    let s := brun ops (binit hash g t0 k) in
    b_m s = exec (flat_map mop_of ops) (minit g) /\
    exists (segs : list (list (Z * bytes))) (open : list (Z * bytes)),
      concat segs ++ open = flat_map accepted ops /\
      Forall2 chunk_ok (w_out (b_w s)) segs /\
      w_cur (b_w s) = sk_of (masks open) /\
      Forall (fun e => w_last (b_w s) <= fst e) open /\
      tiled hash t0 (w_out (b_w s)) (w_last (b_w s)).
  Proof.
    intros g t0 k ops HM s. destruct (brun_split g t0 k ops) as [H1 H2]. split; [exact H1|].
    subst s. rewrite H2. rewrite <- events_accepted. apply partition. apply bmono_mono. exact HM.
  Qed.

  Lemma Forall2_in_r : forall (A B : Type) (R : A -> B -> Prop) l1 l2 y, Forall2 R l1 l2 -> In y l2 -> exists x, In x l1 /\ R x y.
  Proof.
    induction 1 as [|a b l1 l2 HR HF IH]; intro HI; [destruct HI|]. destruct HI as [->|HI].
    - exists a. split; [left; reflexivity | exact HR].
    - destruct (IH HI) as [x [Hx HRx]]. exists x. split; [right; exact Hx | exact HRx].
  Qed.

  (* pointwise: the address of an accepted poll at instant [now] is in a chunk whose interval contains [now], or in
     the still-open sketch started no later than [now] — whatever the metrics state was (no hypothesis on it) *)
  Lemma poll_in_current_chunk : forall g t0 k ops now o ad,
    bmono t0 ops -> In (At now o) ops -> recorded o = Some ad ->
    let w := b_w (brun ops (binit hash g t0 k)) in
    (exists c, In c (w_out w) /\ c_start c <= now <= c_end c /\ In (mask ad) (c_sk c)) \/
    (w_last w <= now /\ In (mask ad) (w_cur w)).
  Proof.
    intros g t0 k ops now o ad HM HI HR w.
    destruct (every_poll_recorded g t0 k ops HM) as [_ [segs [open [E [F2 [HC [HO _]]]]]]]. fold w in F2, HC, HO.
    assert (HA : In (now, ad) (flat_map accepted ops)).
    { apply in_flat_map. exists (At now o). split; [exact HI|]. cbn [accepted]. rewrite HR. left; reflexivity. }
    rewrite <- E in HA. apply in_app_or in HA. destruct HA as [HA|HA].
    - left. apply in_concat in HA. destruct HA as [seg [Hseg Hin]].
      destruct (Forall2_in_r _ _ _ _ _ _ F2 Hseg) as [c [Hc [Hsk [_ Hall]]]]. exists c. split; [exact Hc|].
      rewrite Forall_forall in Hall. specialize (Hall _ Hin). cbn [fst] in Hall. split; [exact Hall|].
      rewrite Hsk. rewrite in_sk_of. unfold JournalProofs.masks.
      apply in_map_iff. exists (now, ad). split; [reflexivity | exact Hin].
    - right. rewrite Forall_forall in HO. specialize (HO _ HA). cbn [fst] in HO. split; [exact HO|].
      rewrite HC. rewrite in_sk_of. unfold JournalProofs.masks.
      apply in_map_iff. exists (now, ad). split; [reflexivity | exact HA].
  Qed.

  (* the window count of the journal a broker history produced: the number of distinct masked addresses of the
     accepted polls of the segments whose chunk lies inside the window *)
  Lemma Forall2_in_l : forall (A B : Type) (R : A -> B -> Prop) l1 l2 x, Forall2 R l1 l2 -> In x l1 -> exists y, In (x, y) (combine l1 l2) /\ R x y.
  Proof.
    induction 1 as [|a b l1 l2 HR HF IH]; intro HI; [destruct HI|]. cbn [combine]. destruct HI as [->|HI].
    - exists b. split; [left; reflexivity | exact HR].
    - destruct (IH HI) as [y [Hy HRy]]. exists y. split; [right; exact Hy | exact HRy].
  Qed.

  Lemma Forall2_combine : forall (A B : Type) (R : A -> B -> Prop) l1 l2 x y, Forall2 R l1 l2 -> In (x, y) (combine l1 l2) -> R x y.
  Proof.
    induction 1 as [|a b l1 l2 HR HF IH]; cbn [combine]; intro HI; [destruct HI|]. destruct HI as [HI|HI].
    - inversion HI; subst. exact HR.
    - exact (IH HI).
  Qed.

  Lemma window_counts_polls : forall g t0 k ops from to,
    bmono t0 ops ->
    let w := b_w (brun ops (binit hash g t0 k)) in
    exists (segs : list (list (Z * bytes))) (open : list (Z * bytes)) (l : list hash),
      concat segs ++ open = flat_map accepted ops /\
      Forall2 chunk_ok (w_out w) segs /\
      NoDup l /\
      fst (count hash heqb from to (w_out w)) = N.of_nat (length l) /\
      (forall x, In x l <-> exists c seg e, In (c, seg) (combine (w_out w) segs) /\
                                             from <= c_start c /\ c_end c <= to /\ In e seg /\ x = mask (snd e)).
  Proof.
    intros g t0 k ops from to HM w.
    destruct (every_poll_recorded g t0 k ops HM) as [_ [segs [open [E [F2 _]]]]]. fold w in F2.
    destruct (window hash heqb heqb_spec from to (w_out w)) as [l [ND [HL [HN _]]]].
    exists segs, open, l. split; [exact E|]. split; [exact F2|]. split; [exact ND|]. split; [exact HN|].
    intro x. rewrite HL. split.
    - intros [c [Hc [Ha [Hb Hx]]]]. destruct (Forall2_in_l _ _ _ _ _ _ F2 Hc) as [seg [Hcs [Hsk _]]].
      rewrite Hsk in Hx. rewrite in_sk_of in Hx. unfold JournalProofs.masks in Hx.
      apply in_map_iff in Hx. destruct Hx as [e [He1 He2]]. exists c, seg, e. repeat split; auto.
    - intros [c [seg [e [Hcs [Ha [Hb [He Hx]]]]]]]. exists c. split; [eapply in_combine_l; exact Hcs|].
      split; [exact Ha|]. split; [exact Hb|]. destruct (Forall2_combine _ _ _ _ _ _ _ F2 Hcs) as [Hsk _].
      rewrite Hsk. rewrite in_sk_of. unfold JournalProofs.masks. apply in_map_iff.
      exists e. split; [symmetry; exact Hx | exact He].
  Qed.

  (* ---------- the broker with a journal sink that may fail ---------- *)
  Notation bfrun := (bfrun hash mask heqb).
  Notation bfapply := (bfapply hash mask heqb).
  Notation fjrun := (fjrun bytes hash mask heqb).

  Lemma bfrun_split_gen : forall ops s,
    bf_m (bfrun ops s) = exec (flat_map mop_of ops) (bf_m s) /\
    bf_w (bfrun ops s) = fjrun (flat_map jop_of ops) (bf_w s).
  Proof.
    induction ops as [|o ops IH]; intro s; cbn [BrokerJournal.bfrun fold_left flat_map].
    - split; reflexivity.
    - destruct (IH (bfapply s o)) as [H1 H2]. unfold BrokerJournal.bfrun in H1, H2. rewrite H1, H2.
      unfold exec, Journal.fjrun. rewrite !fold_left_app.
      destruct o as [now o|now]; cbn [BrokerJournal.bfapply bf_m bf_w mop_of jop_of fold_left].
      + split; [reflexivity|]. destruct (recorded o); reflexivity.
      + split; reflexivity.
  Qed.

  (* whatever writes fail: the metrics are untouched by the journal, every chunk that can be read back holds only
     addresses of accepted polls whose instants lie inside the chunk's recording span, the open sketch holds polls
     no older than the last write taken for successful, and nothing is lost while no line of the file was damaged *)
  Lemma failed_writes_broker : forall g t0 k plan ops,
    bmono t0 ops ->
    let s := bfrun ops (bfinit hash g t0 k plan) in
    let polls := flat_map accepted ops in
    bf_m s = exec (flat_map mop_of ops) (minit g) /\
    (forall c, In (Some c) (file_of (bf_w s)) ->
       exists seg, c_sk c = sk_of (masks seg) /\ c_start c <= c_end c /\
                   Forall (fun e => c_start c <= fst e <= c_end c) seg /\ incl seg polls) /\
    (exists open, f_cur (bf_w s) = sk_of (masks open) /\ Forall (fun e => f_last (bf_w s) <= fst e) open /\ incl open polls /\
       (readable (f_lines (bf_w s)) = true ->
        forall e, In e polls -> In e open \/
          exists c seg, In (Some c) (f_lines (bf_w s)) /\ c_sk c = sk_of (masks seg) /\ In e seg /\
                        c_start c <= fst e <= c_end c)).
  Proof.
    intros g t0 k plan ops HM s polls.
    destruct (bfrun_split_gen ops (bfinit hash g t0 k plan)) as [H1 H2]. fold s in H1, H2. cbn [bfinit bf_m bf_w] in H1, H2.
    split; [exact H1|]. rewrite H2. unfold polls. rewrite <- events_accepted.
    apply (failed_writes bytes hash mask heqb t0 k plan (flat_map jop_of ops)). apply bmono_mono. exact HM.
  Qed.
End BrokerJournalProofs.
