(* ServerAcceptProofs.v — proofs about Model/ServerAccept.v (the accept loop as an interleaving
   machine): for every schedule, every connection of session i carries the address looked up for
   the ClientID of session i; never another session's. *)
From Coq Require Import List NArith Bool Arith Lia.
From Snow Require Import Lib.Wire Model.ClientIdRing Model.ClientAddr Model.ServerCarrier Model.ServerAccept
                         Proofs.ClientIdProofs.
Import ListNotations.
Open Scope nat_scope.

(* ------------------------------------------------------------------ lists *)

Lemma nth_error_supd : forall l k x k',
  nth_error (supd l k x) k' =
  if Nat.eqb k' k then match nth_error l k with Some _ => Some x | None => None end else nth_error l k'.
Proof.
  induction l as [| h t IH]; intros k x k'.
  - destruct k, k'; cbn; try reflexivity. destruct (Nat.eqb k' k); reflexivity.
  - destruct k as [| k]; destruct k' as [| k']; cbn [supd nth_error Nat.eqb]; try reflexivity.
    apply IH.
Qed.

Lemma supd_length : forall l k x, length (supd l k x) = length l.
Proof.
  induction l as [| h t IH]; intros k x; [reflexivity |].
  destruct k; cbn [supd length]; [reflexivity | rewrite IH; reflexivity].
Qed.

Lemma map_cid_supd : forall l k x s, nth_error l k = Some s -> s_cid x = s_cid s ->
  map s_cid (supd l k x) = map s_cid l.
Proof.
  induction l as [| h t IH]; intros k x s H E; [reflexivity |].
  destruct k as [| k]; cbn [supd map nth_error] in *.
  - inversion H; subst. rewrite E. reflexivity.
  - f_equal. eapply IH; eauto.
Qed.

Lemma nth_error_snoc_inv : forall A (l : list A) x i y,
  nth_error (l ++ [x]) i = Some y -> nth_error l i = Some y \/ (i = length l /\ y = x).
Proof.
  intros A l x i y H. destruct (Nat.lt_ge_cases i (length l)) as [L | L].
  - left. rewrite nth_error_app1 in H by exact L. exact H.
  - right. rewrite nth_error_app2 in H by exact L.
    destruct (i - length l) as [| d] eqn:D.
    + cbn in H. inversion H. split; [lia | reflexivity].
    + cbn in H. destruct d; discriminate.
Qed.

Lemma nth_error_app_some : forall A (l l' : list A) i y, nth_error l i = Some y -> nth_error (l ++ l') i = Some y.
Proof.
  intros A l l' i y H. rewrite nth_error_app1; [exact H |]. apply nth_error_Some. rewrite H. discriminate.
Qed.

(* ------------------------------------------------------------------ schedules *)

Lemma accepted_app : forall a b, accepted (a ++ b) = accepted a ++ accepted b.
Proof.
  induction a as [| [c p | c | i | i] a IH]; intros b; cbn [app accepted]; try apply IH.
  - reflexivity.
  - rewrite IH. reflexivity.
Qed.

Lemma carriers_of_app : forall a b, carriers_of (a ++ b) = carriers_of a ++ carriers_of b.
Proof.
  induction a as [| [c p | c | i | i] a IH]; intros b; cbn [app carriers_of]; try apply IH.
  - reflexivity.
  - rewrite IH. reflexivity.
Qed.

Lemma carriers_of_none : forall l, forallb no_carrier l = true -> carriers_of l = [].
Proof.
  induction l as [| [c p | c | i | i] l IH]; intro H; cbn [forallb no_carrier carriers_of andb] in *;
    try discriminate; try (apply IH; exact H). reflexivity.
Qed.

Lemma carriers_of_in : forall l c p, In (Carrier c p) (carriers_of l) -> In (LCarrier c p) l.
Proof.
  induction l as [| [c0 p0 | c0 | i | i] l IH]; intros c p H; cbn [carriers_of In] in *;
    try (right; apply IH; exact H).
  - destruct H.
  - destruct H as [E | H]; [inversion E; subst; left; reflexivity | right; apply IH; exact H].
Qed.

Lemma afinal_app : forall sh st a b, afinal sh st (a ++ b) = afinal sh (afinal sh st a) b.
Proof. intros. unfold afinal. apply fold_left_app. Qed.

Lemma afinal_snoc : forall sh st a l, afinal sh st (a ++ [l]) = astep sh (afinal sh st a) l.
Proof. intros. rewrite afinal_app. reflexivity. Qed.

Lemma aconns_app : forall sh a st b, aconns sh st (a ++ b) = aconns sh st a ++ aconns sh (afinal sh st a) b.
Proof.
  intros sh a. induction a as [| l a IH]; intros st b; [reflexivity |].
  cbn [app aconns]. change (afinal sh st (l :: a)) with (afinal sh (astep sh st l) a).
  destruct (aout st l); rewrite IH; reflexivity.
Qed.

(* ------------------------------------------------------------------ state invariants *)

Lemma ring_step : forall sh st l,
  a_ring (astep sh st l) = match l with LCarrier c p => carrier_step (a_ring st) c p | _ => a_ring st end.
Proof.
  intros sh st [c p | c | i | i]; cbn [astep]; try reflexivity.
  - destruct sh; reflexivity.
  - destruct (nth_error (a_sess st) i); reflexivity.
Qed.

Lemma ring_final : forall sh evs st,
  a_ring (afinal sh st evs) = fold_left ev_step (carriers_of evs) (a_ring st).
Proof.
  intros sh evs. induction evs as [| l evs IH]; intro st; [reflexivity |].
  change (afinal sh st (l :: evs)) with (afinal sh (astep sh st l) evs). rewrite IH, ring_step.
  destruct l; reflexivity.
Qed.

Lemma ring_final_init : forall sh cap evs,
  a_ring (afinal sh (ainit cap) evs) = state_after cap (carriers_of evs).
Proof. intros. rewrite ring_final. reflexivity. Qed.

Lemma sess_start_cid : forall sh st s, s_cid (sess_start sh st s) = s_cid s.
Proof. intros sh st s. unfold sess_start. destruct (s_local s); reflexivity. Qed.

Lemma cids_step : forall sh st l,
  map s_cid (a_sess (astep sh st l)) = map s_cid (a_sess st) ++ accepted [l].
Proof.
  intros sh st [c p | c | i | i]; cbn [astep accepted].
  - rewrite app_nil_r. reflexivity.
  - destruct sh; cbn [a_sess]; rewrite map_app; reflexivity.
  - rewrite app_nil_r. destruct (nth_error (a_sess st) i) as [s |] eqn:E; [| reflexivity].
    cbn [a_sess]. eapply map_cid_supd; [exact E | apply sess_start_cid].
  - rewrite app_nil_r. reflexivity.
Qed.

Lemma cids_final : forall sh evs st,
  map s_cid (a_sess (afinal sh st evs)) = map s_cid (a_sess st) ++ accepted evs.
Proof.
  intros sh evs. induction evs as [| l evs IH]; intro st; [cbn; rewrite app_nil_r; reflexivity |].
  change (afinal sh st (l :: evs)) with (afinal sh (astep sh st l) evs). rewrite IH, cids_step.
  rewrite <- app_assoc. change (l :: evs) with ([l] ++ evs). rewrite accepted_app. reflexivity.
Qed.

Lemma cids_final_init : forall sh cap evs, map s_cid (a_sess (afinal sh (ainit cap) evs)) = accepted evs.
Proof. intros. rewrite cids_final. reflexivity. Qed.

Lemma sess_cid_accepted : forall sh cap evs i s,
  nth_error (a_sess (afinal sh (ainit cap) evs)) i = Some s -> nth_error (accepted evs) i = Some (s_cid s).
Proof.
  intros sh cap evs i s H. rewrite <- (cids_final_init sh cap evs). apply map_nth_error. exact H.
Qed.

(* once the goroutine of a session has its address, no step changes it *)
Lemma local_stable_step : forall sh st l i s a,
  nth_error (a_sess st) i = Some s -> s_local s = Some a ->
  exists s', nth_error (a_sess (astep sh st l)) i = Some s' /\ s_local s' = Some a.
Proof.
  intros sh st [c p | c | j | j] i s a H L; cbn [astep].
  - exists s. split; assumption.
  - exists s. split; [| exact L]. destruct sh; cbn [a_sess]; apply nth_error_app_some; exact H.
  - destruct (nth_error (a_sess st) j) as [sj |] eqn:E; [| exists s; split; assumption].
    cbn [a_sess]. rewrite nth_error_supd. destruct (Nat.eqb i j) eqn:Eij.
    + apply Nat.eqb_eq in Eij. subst j. rewrite E. rewrite H in E. inversion E; subst sj.
      exists (sess_start sh st s). split; [reflexivity |]. unfold sess_start. rewrite L. exact L.
    + exists s. split; assumption.
  - exists s. split; assumption.
Qed.

Lemma local_stable : forall sh evs st i s a,
  nth_error (a_sess st) i = Some s -> s_local s = Some a ->
  exists s', nth_error (a_sess (afinal sh st evs)) i = Some s' /\ s_local s' = Some a.
Proof.
  intros sh evs. induction evs as [| l evs IH]; intros st i s a H L.
  - exists s. split; assumption.
  - change (afinal sh st (l :: evs)) with (afinal sh (astep sh st l) evs).
    destruct (local_stable_step sh st l i s a H L) as (s' & H' & L'). eapply IH; eauto.
Qed.

(* a connection is handed out by an LStream step of a session whose goroutine has its address *)
Lemma aconns_in : forall sh evs st i a,
  In (i, a) (aconns sh st evs) ->
  exists pre post s, evs = pre ++ LStream i :: post /\
    nth_error (a_sess (afinal sh st pre)) i = Some s /\ s_local s = Some a.
Proof.
  intros sh evs. induction evs as [| l evs IH]; intros st i a H; [destruct H |].
  cbn [aconns] in H.
  assert (Rest: In (i, a) (aconns sh (astep sh st l) evs) ->
                exists pre post s, l :: evs = pre ++ LStream i :: post /\
                  nth_error (a_sess (afinal sh st pre)) i = Some s /\ s_local s = Some a).
  { intro H'. destruct (IH _ _ _ H') as (pre & post & s & E & N & L).
    exists (l :: pre), post, s. split; [rewrite E; reflexivity |]. split; [exact N | exact L]. }
  destruct (aout st l) as [c |] eqn:O; [| apply Rest; exact H].
  destruct H as [E | H]; [| apply Rest; exact H].
  subst c. destruct l as [c p | c | j | j]; cbn [aout] in O; try discriminate.
  destruct (nth_error (a_sess st) j) as [s |] eqn:N; [| discriminate].
  destruct (s_local s) as [a' |] eqn:L; [| discriminate]. inversion O; subst j a'.
  exists [], evs, s. split; [reflexivity |]. split; [exact N | exact L].
Qed.

(* ... and its address is what the session's goroutine holds at the end of the schedule *)
Lemma aconns_final : forall sh evs st i a,
  In (i, a) (aconns sh st evs) ->
  exists s, nth_error (a_sess (afinal sh st evs)) i = Some s /\ s_local s = Some a.
Proof.
  intros sh evs st i a H. destruct (aconns_in sh evs st i a H) as (pre & post & s & E & N & L).
  subst evs. rewrite afinal_app. eapply local_stable; eauto.
Qed.

(* every connection of one session carries the same address, under every shape *)
Theorem sched_fixed : forall sh cap evs i a b,
  In (i, a) (sched_conns sh cap evs) -> In (i, b) (sched_conns sh cap evs) -> a = b.
Proof.
  intros sh cap evs i a b Ha Hb. unfold sched_conns in *.
  destruct (aconns_final _ _ _ _ _ Ha) as (s & N & L).
  destruct (aconns_final _ _ _ _ _ Hb) as (s' & N' & L').
  rewrite N in N'. inversion N'; subst s'. rewrite L in L'. inversion L'. reflexivity.
Qed.

(* ------------------------------------------------------------------ provenance, pinned shape *)

Definition prov_goroutine (cap : nat) (evs : list alabel) (i : nat) (cid : N) (a : addr) : Prop :=
  exists pre post, evs = pre ++ LStart i :: post /\ nth_error (accepted pre) i = Some cid /\
                   a = accept (state_after cap (carriers_of pre)) cid.

Lemma prov_goroutine_snoc : forall cap evs l i cid a,
  prov_goroutine cap evs i cid a -> prov_goroutine cap (evs ++ [l]) i cid a.
Proof.
  intros cap evs l i cid a (pre & post & E & N & A). exists pre, (post ++ [l]).
  split; [rewrite E, <- app_assoc; reflexivity |]. split; assumption.
Qed.

Lemma local_prov_goroutine : forall cap evs i s a,
  nth_error (a_sess (afinal InGoroutine (ainit cap) evs)) i = Some s -> s_local s = Some a ->
  prov_goroutine cap evs i (s_cid s) a.
Proof.
  intros cap evs. induction evs as [| l evs IH] using rev_ind; intros i s a N L.
  - destruct i; discriminate.
  - rewrite afinal_snoc in N. set (st := afinal InGoroutine (ainit cap) evs) in *.
    destruct l as [c p | c | j | j]; cbn [astep a_sess] in N.
    + apply prov_goroutine_snoc. apply IH; assumption.
    + apply nth_error_snoc_inv in N. destruct N as [N | [_ E]].
      * apply prov_goroutine_snoc. apply IH; assumption.
      * subst s. discriminate.
    + destruct (nth_error (a_sess st) j) as [sj |] eqn:Ej; [| apply prov_goroutine_snoc; apply IH; assumption].
      cbn [a_sess] in N. rewrite nth_error_supd in N. destruct (Nat.eqb i j) eqn:Eij.
      * apply Nat.eqb_eq in Eij. subst j. rewrite Ej in N. inversion N; subst s. clear N.
        unfold sess_start in L |- *. destruct (s_local sj) as [a0 |] eqn:L0.
        -- apply prov_goroutine_snoc. apply IH; [exact Ej | exact L].
        -- cbn [s_local s_cid] in *. inversion L; subst a. exists evs, [].
           split; [reflexivity |]. split.
           ++ eapply sess_cid_accepted. exact Ej.
           ++ unfold st. rewrite ring_final_init. reflexivity.
      * apply prov_goroutine_snoc. apply IH; assumption.
    + apply prov_goroutine_snoc. apply IH; assumption.
Qed.

(* pinned shape, all schedules: a connection of session i carries the address looked up for the
   ClientID of session i in the map as it was when the goroutine of session i started *)
Theorem sched_attribution : forall cap evs i a,
  In (i, a) (sched_conns InGoroutine cap evs) ->
  exists pre post cid, evs = pre ++ LStart i :: post /\ nth_error (accepted pre) i = Some cid /\
    nth_error (accepted evs) i = Some cid /\
    a = accept (state_after cap (carriers_of pre)) cid /\
    a = spec_attr cap (carriers_rev (carriers_of pre)) cid.
Proof.
  intros cap evs i a H. destruct (aconns_final _ _ _ _ _ H) as (s & N & L).
  destruct (local_prov_goroutine cap evs i s a N L) as (pre & post & E & Na & A).
  exists pre, post, (s_cid s). split; [exact E |]. split; [exact Na |].
  split; [eapply sess_cid_accepted; exact N |]. split; [exact A |]. rewrite A. apply attribution_spec.
Qed.

Theorem sched_never_foreign : forall cap evs i a,
  In (i, a) (sched_conns InGoroutine cap evs) ->
  exists cid, nth_error (accepted evs) i = Some cid /\
    (a = AStr [] \/ exists p, In (LCarrier cid p) evs /\ a = AStr (sanitise p)).
Proof.
  intros cap evs i a H. destruct (sched_attribution cap evs i a H) as (pre & post & cid & E & _ & N & A & _).
  exists cid. split; [exact N |].
  destruct (never_foreign cap (carriers_of pre) cid) as [Z | (p & I & Z)].
  - left. rewrite A. exact Z.
  - right. exists p. split; [| rewrite A; exact Z]. apply carriers_of_in in I. rewrite E. apply in_or_app. left. exact I.
Qed.

(* ------------------------------------------------------------------ provenance, lookup in the loop, by value *)

Definition prov_accept (cap : nat) (evs : list alabel) (i : nat) (cid : N) (a : addr) : Prop :=
  exists pre post, evs = pre ++ LAccept cid :: post /\ length (accepted pre) = i /\
                   a = accept (state_after cap (carriers_of pre)) cid.

Lemma prov_accept_snoc : forall cap evs l i cid a,
  prov_accept cap evs i cid a -> prov_accept cap (evs ++ [l]) i cid a.
Proof.
  intros cap evs l i cid a (pre & post & E & N & A). exists pre, (post ++ [l]).
  split; [rewrite E, <- app_assoc; reflexivity |]. split; assumption.
Qed.

Lemma bound_prov_accept : forall cap evs i s,
  nth_error (a_sess (afinal AtAcceptOwn (ainit cap) evs)) i = Some s ->
  (exists a, s_bound s = Some a /\ prov_accept cap evs i (s_cid s) a) /\
  (forall a, s_local s = Some a -> s_bound s = Some a).
Proof.
  intros cap evs. induction evs as [| l evs IH] using rev_ind; intros i s N.
  - destruct i; discriminate.
  - rewrite afinal_snoc in N. set (st := afinal AtAcceptOwn (ainit cap) evs) in *.
    assert (Keep: forall s, nth_error (a_sess st) i = Some s ->
                  (exists a, s_bound s = Some a /\ prov_accept cap (evs ++ [l]) i (s_cid s) a) /\
                  (forall a, s_local s = Some a -> s_bound s = Some a)).
    { clear s N. intros s N0. destruct (IH i s N0) as ((a & B & P) & Lo). split; [| exact Lo].
      exists a. split; [exact B | apply prov_accept_snoc; exact P]. }
    destruct l as [c p | c | j | j]; cbn [astep a_sess] in N.
    + apply Keep. exact N.
    + apply nth_error_snoc_inv in N. destruct N as [N | [Ei E]]; [apply Keep; exact N |].
      subst s. cbn [s_bound s_cid s_local]. split; [| discriminate].
      eexists. split; [reflexivity |]. exists evs, []. split; [reflexivity |]. split.
      * rewrite Ei. rewrite <- (cids_final_init AtAcceptOwn cap evs). rewrite map_length. reflexivity.
      * unfold st. rewrite ring_final_init. reflexivity.
    + destruct (nth_error (a_sess st) j) as [sj |] eqn:Ej; [| apply Keep; exact N].
      cbn [a_sess] in N. rewrite nth_error_supd in N. destruct (Nat.eqb i j) eqn:Eij; [| apply Keep; exact N].
      apply Nat.eqb_eq in Eij. subst j. rewrite Ej in N. inversion N; subst s. clear N.
      destruct (Keep _ Ej) as ((a & B & P) & Lo). unfold sess_start. destruct (s_local sj) eqn:L0.
      * split; [exists a; split; assumption | intros a' X; apply Lo; rewrite <- L0; exact X].
      * cbn [s_bound s_cid s_local]. split; [exists a; split; assumption | intros a' X; exact X].
    + apply Keep. exact N.
Qed.

Theorem sched_attribution_own : forall cap evs i a,
  In (i, a) (sched_conns AtAcceptOwn cap evs) ->
  exists pre post cid, evs = pre ++ LAccept cid :: post /\ length (accepted pre) = i /\
    a = accept (state_after cap (carriers_of pre)) cid /\
    a = spec_attr cap (carriers_rev (carriers_of pre)) cid.
Proof.
  intros cap evs i a H. destruct (aconns_final _ _ _ _ _ H) as (s & N & L).
  destruct (bound_prov_accept cap evs i s N) as ((a' & B & (pre & post & E & Len & A)) & Lo).
  apply Lo in L. rewrite L in B. injection B as B'. rewrite <- B' in A.
  exists pre, post, (s_cid s). split; [exact E |]. split; [exact Len |]. split; [exact A |].
  rewrite A. apply attribution_spec.
Qed.

Theorem sched_never_foreign_own : forall cap evs i a,
  In (i, a) (sched_conns AtAcceptOwn cap evs) ->
  exists cid, nth_error (accepted evs) i = Some cid /\
    (a = AStr [] \/ exists p, In (LCarrier cid p) evs /\ a = AStr (sanitise p)).
Proof.
  intros cap evs i a H. destruct (sched_attribution_own cap evs i a H) as (pre & post & cid & E & Len & A & _).
  exists cid. split.
  - rewrite E, accepted_app. cbn [accepted]. rewrite nth_error_app2 by lia. rewrite Len, Nat.sub_diag. reflexivity.
  - destruct (never_foreign cap (carriers_of pre) cid) as [Z | (p & I & Z)].
    + left. rewrite A. exact Z.
    + right. exists p. split; [| rewrite A; exact Z]. apply carriers_of_in in I. rewrite E. apply in_or_app. left. exact I.
Qed.

(* ------------------------------------------------------------------ bursts: the order of the goroutines does not matter *)

(* pinned shape: in a schedule pre ++ burst whose part `burst` contains no carrier (any accepts, starts
   in any order, streams), every connection of a session accepted in `burst` carries the address its
   ClientID had in the map at the end of pre *)
Theorem sched_burst_order_irrelevant : forall cap pre burst i a,
  forallb no_carrier burst = true -> length (accepted pre) <= i ->
  In (i, a) (sched_conns InGoroutine cap (pre ++ burst)) ->
  exists cid, nth_error (accepted (pre ++ burst)) i = Some cid /\
    a = accept (state_after cap (carriers_of pre)) cid /\
    a = spec_attr cap (carriers_rev (carriers_of pre)) cid.
Proof.
  intros cap pre burst i a NC Le H.
  destruct (sched_attribution cap _ i a H) as (pre' & post' & cid & E & Na & N & A & _).
  exists cid. split; [exact N |].
  assert (C: carriers_of pre' = carriers_of pre).
  { apply app_eq_app in E. destruct E as (l & [[E1 E2] | [E1 E2]]).
    - (* pre' is a prefix of pre: then session i is not yet accepted in pre' *)
      exfalso. assert (X: i < length (accepted pre')) by (apply nth_error_Some; rewrite Na; discriminate).
      rewrite E1, accepted_app, app_length in Le. lia.
    - rewrite E1, carriers_of_app. rewrite (carriers_of_none l); [apply app_nil_r |].
      rewrite E2 in NC. rewrite forallb_app in NC. apply andb_true_iff in NC. apply NC. }
  rewrite C in A. split; [exact A |]. rewrite A. apply attribution_spec.
Qed.

(* ------------------------------------------------------------------ the sequential histories are schedules *)

Lemma expand_refines : forall evs r shv sess asess,
  map s_local asess = map (@Some addr) sess ->
  conns accept r sess evs = aconns InGoroutine (mkast r shv asess) (expand (length sess) evs).
Proof.
  induction evs as [| [cid p | cid | k] evs IH]; intros r shv sess asess M.
  - reflexivity.
  - cbn [conns expand aconns aout astep a_ring a_shared a_sess]. apply IH. exact M.
  - assert (Len: length asess = length sess).
    { rewrite <- (map_length s_local asess), M, map_length. reflexivity. }
    cbn [conns expand]. cbn [aconns aout]. cbn [astep a_ring a_shared a_sess].
    (* LStart (length sess) on the freshly appended session *)
    cbn [aconns aout]. cbn [astep a_ring a_shared a_sess].
    assert (N1: nth_error (asess ++ [mksess cid None None]) (length sess) = Some (mksess cid None None)).
    { rewrite nth_error_app2 by lia. rewrite Len, Nat.sub_diag. reflexivity. }
    rewrite N1. cbn [a_sess a_ring a_shared].
    assert (U: supd (asess ++ [mksess cid None None]) (length sess)
                 (sess_start InGoroutine (mkast r shv (asess ++ [mksess cid None None])) (mksess cid None None))
               = asess ++ [mksess cid None (Some (accept r cid))]).
    { unfold sess_start. cbn [s_local s_cid s_bound a_ring]. rewrite <- Len. clear.
      induction asess as [| h t IHt]; [reflexivity |]. cbn [app length supd]. rewrite IHt. reflexivity. }
    rewrite U. cbn [aconns aout a_sess].
    assert (N2: nth_error (asess ++ [mksess cid None (Some (accept r cid))]) (length sess)
                = Some (mksess cid None (Some (accept r cid)))).
    { rewrite nth_error_app2 by lia. rewrite Len, Nat.sub_diag. reflexivity. }
    rewrite N2. cbn [s_local astep]. f_equal.
    replace (S (length sess)) with (length (sess ++ [accept r cid])) by (rewrite app_length; cbn; lia).
    apply IH. rewrite !map_app, M. reflexivity.
  - cbn [conns expand aconns aout a_sess].
    assert (N: nth_error asess k = match nth_error sess k with
                                    | Some a => nth_error asess k | None => None end).
    { destruct (nth_error sess k) eqn:E; [reflexivity |]. apply nth_error_None.
      rewrite <- (map_length s_local asess), M, map_length. apply nth_error_None. exact E. }
    destruct (nth_error sess k) as [a |] eqn:E.
    + assert (X: nth_error (map s_local asess) k = Some (Some a)) by (rewrite M; apply map_nth_error; exact E).
      rewrite nth_error_map in X. destruct (nth_error asess k) as [s |]; [| discriminate].
      cbn [option_map] in X. inversion X as [Y]. rewrite Y. cbn [astep]. f_equal. apply IH. exact M.
    + rewrite N. cbn [astep]. apply IH. exact M.
Qed.

Theorem seq_is_schedule : forall cap evs, run_conns cap evs = sched_conns InGoroutine cap (expand 0 evs).
Proof. intros cap evs. unfold run_conns, sched_conns, ainit. apply (expand_refines evs _ ANil [] []). reflexivity. Qed.

(* ------------------------------------------------------------------ what the burst runner prints comes from the machine *)

Lemma burst_project_in : forall base items outs a,
  In a (burst_project base items outs) -> exists i, In (i, a) outs.
Proof.
  intros base items outs a H. unfold burst_project in H. apply in_flat_map in H.
  destruct H as (jx & _ & H). apply in_map_iff in H. destruct H as ([i a'] & E & H). cbn in E. subst a'.
  apply filter_In in H. exists i. apply H.
Qed.

Theorem brun_sound : forall sh toks st n a,
  In a (brun sh st n toks) -> exists i, In (i, a) (aconns sh st (btoks_labels n toks)).
Proof.
  intros sh toks. induction toks as [| t toks IH]; intros st n a H; [destruct H |].
  cbn [brun btoks_labels] in *. rewrite aconns_app. apply in_app_or in H. destruct H as [H | H].
  - assert (X: exists i, In (i, a) (aconns sh st (btok_labels n t))).
    { destruct t as [e | items].
      - apply in_map_iff in H. destruct H as ([i a'] & E & H). cbn in E. subst a'. exists i. exact H.
      - eapply burst_project_in. exact H. }
    destruct X as (i & X). exists i. apply in_or_app. left. exact X.
  - destruct (IH _ _ _ H) as (i & X). exists i. apply in_or_app. right. exact X.
Qed.

(* ------------------------------------------------------------------ the shared-variable shape *)

Definition ip4 (a b c d : N) : param := Parsed (repeat 0%N 10 ++ [255; 255; a; b; c; d]%N).

(* two sessions of different clients accepted back to back, the first goroutine scheduled after the
   second accept: the first client's connection carries the second client's address *)
Definition shared_witness : list alabel :=
  [LCarrier 1%N (ip4 1 2 3 4); LCarrier 2%N (ip4 5 6 7 8); LAccept 1%N; LAccept 2%N; LStart 0; LStream 0; LStart 1; LStream 1].

Theorem shared_variable_refuted :
  exists cap evs i a cid,
    In (i, a) (sched_conns AtAcceptShared cap evs) /\ nth_error (accepted evs) i = Some cid /\
    a <> AStr [] /\ (forall p, In (LCarrier cid p) evs -> a <> AStr (sanitise p)) /\
    (exists cid' p', cid' <> cid /\ In (LCarrier cid' p') evs /\ a = AStr (sanitise p')).
Proof.
  exists 2, shared_witness, 0, (AStr (sanitise (ip4 5 6 7 8))), 1%N.
  split; [vm_compute; left; reflexivity |]. split; [reflexivity |].
  split; [vm_compute; discriminate |]. split.
  - intros p H. unfold shared_witness in H. cbn [In] in H.
    destruct H as [E | [E | [E | [E | [E | [E | [E | [E | []]]]]]]]]; try discriminate.
    inversion E; subst p. vm_compute. discriminate.
  - exists 2%N, (ip4 5 6 7 8). split; [discriminate |]. split; [right; left; reflexivity | reflexivity].
Qed.

(* the same schedule under the two shapes of the code: each session its own address *)
Lemma shared_witness_good :
  sched_conns InGoroutine 2 shared_witness = [(0, AStr (sanitise (ip4 1 2 3 4))); (1, AStr (sanitise (ip4 5 6 7 8)))] /\
  sched_conns AtAcceptOwn 2 shared_witness = [(0, AStr (sanitise (ip4 1 2 3 4))); (1, AStr (sanitise (ip4 5 6 7 8)))] /\
  sched_conns AtAcceptShared 2 shared_witness = [(0, AStr (sanitise (ip4 5 6 7 8))); (1, AStr (sanitise (ip4 5 6 7 8)))].
Proof. split; [| split]; vm_compute; reflexivity. Qed.
