(* ClientMapProofs.v — invariants of clientMapInner (Model/ClientMap.v) over all operation
   sequences: byAge/byAddr consistency, heap order by LastSeen, queue identities, and the
   expiry facts (kept while seen, never early, removed by the next sweep). *)
From Coq Require Import List NArith ZArith Bool Arith Lia Permutation.
From Snow Require Import Model.GoHeap Model.ClientMap.
From Snow Require Import Proofs.GoHeapProofs.
Import ListNotations.

(* ---------------------------------------------------------------- association list laws *)

Lemma amap_get_set : forall m a b i,
  amap_get a (amap_set b i m) = if N.eqb a b then Some i else amap_get a m.
Proof.
  induction m as [|[c j] m IH]; intros a b i; simpl.
  - destruct (N.eqb a b); reflexivity.
  - destruct (N.eqb b c) eqn:Ebc.
    + apply N.eqb_eq in Ebc; subst c. simpl. destruct (N.eqb a b); reflexivity.
    + destruct (N.ltb b c); simpl.
      * destruct (N.eqb a b); reflexivity.
      * destruct (N.eqb a c) eqn:Eac.
        -- apply N.eqb_eq in Eac; subst c. rewrite N.eqb_sym in Ebc. rewrite Ebc. reflexivity.
        -- apply IH.
Qed.

Lemma amap_get_del : forall m a b,
  amap_get a (amap_del b m) = if N.eqb a b then None else amap_get a m.
Proof.
  induction m as [|[c j] m IH]; intros a b; simpl.
  - destruct (N.eqb a b); reflexivity.
  - destruct (N.eqb b c) eqn:Ebc; simpl.
    + apply N.eqb_eq in Ebc; subst c. rewrite IH. destruct (N.eqb a b); reflexivity.
    + rewrite IH. destruct (N.eqb a c) eqn:Eac.
      * apply N.eqb_eq in Eac; subst c. rewrite N.eqb_sym in Ebc. rewrite Ebc. reflexivity.
      * reflexivity.
Qed.

Lemma amap_get_in : forall m a, amap_get a m <> None <-> In a (map fst m).
Proof.
  induction m as [|[c j] m IH]; intros a; simpl.
  - split; [congruence | tauto].
  - destruct (N.eqb a c) eqn:E.
    + apply N.eqb_eq in E. subst. split; [auto | congruence].
    + apply N.eqb_neq in E. rewrite IH. split; [auto | intros [H|H]; [congruence | auto]].
Qed.

Lemma amap_set_keys_in : forall m a i b, In b (map fst (amap_set a i m)) <-> b = a \/ In b (map fst m).
Proof.
  intros. rewrite <- !amap_get_in, amap_get_set.
  destruct (N.eqb b a) eqn:E.
  - apply N.eqb_eq in E. subst. split; [auto | congruence].
  - apply N.eqb_neq in E. split; [auto | intros [H|H]; [congruence | auto]].
Qed.

(* keys strictly increasing (the model inserts in order; the Go map has no order, the order is
   only the canonical observation) *)
Fixpoint ksorted (m : list (N * nat)) : Prop :=
  match m with
  | [] => True
  | (a, _) :: t => (forall b, In b (map fst t) -> (a < b)%N) /\ ksorted t
  end.

Lemma ksorted_set : forall m a i, ksorted m -> ksorted (amap_set a i m).
Proof.
  induction m as [|[c j] m IH]; intros a i H; simpl.
  - split; [simpl; tauto | exact I].
  - destruct H as [Hc Hs].
    destruct (N.eqb a c) eqn:E.
    + apply N.eqb_eq in E; subst. simpl. split; auto.
    + apply N.eqb_neq in E. destruct (N.ltb a c) eqn:L.
      * apply N.ltb_lt in L. simpl. split.
        -- intros b [Hb|Hb]; [subst; exact L | specialize (Hc b Hb); lia].
        -- split; auto.
      * apply N.ltb_ge in L. simpl. split.
        -- intros b Hb. apply amap_set_keys_in in Hb. destruct Hb as [Hb|Hb]; [subst; lia | auto].
        -- apply IH; auto.
Qed.

Lemma ksorted_del : forall m a, ksorted m -> ksorted (amap_del a m).
Proof.
  induction m as [|[c j] m IH]; intros a H; simpl; auto.
  destruct H as [Hc Hs].
  assert (Hsub: forall b, In b (map fst (amap_del a m)) -> In b (map fst m)).
  { intros b Hb. unfold amap_del in Hb. apply in_map_iff in Hb. destruct Hb as [[x y] [Hx Hy]].
    apply filter_In in Hy. destruct Hy as [Hy _]. apply in_map_iff. exists (x, y). auto. }
  destruct (negb (N.eqb a c)); simpl.
  - split; auto.
  - apply IH; auto.
Qed.

Lemma ksorted_get_none_lt : forall m a, ksorted m -> (forall b, In b (map fst m) -> (a < b)%N) -> amap_get a m = None.
Proof.
  intros m a _ H. destruct (amap_get a m) eqn:E; auto.
  assert (In a (map fst m)) by (apply amap_get_in; congruence).
  specialize (H a H0). lia.
Qed.

Lemma amap_set_length : forall m a i, ksorted m ->
  length (amap_set a i m) = match amap_get a m with Some _ => length m | None => S (length m) end.
Proof.
  induction m as [|[c j] m IH]; intros a i H; simpl; auto.
  destruct H as [Hc Hs].
  destruct (N.eqb a c) eqn:E; simpl; auto.
  apply N.eqb_neq in E. destruct (N.ltb a c) eqn:L; simpl.
  - apply N.ltb_lt in L.
    rewrite (ksorted_get_none_lt m a Hs); auto.
    intros b Hb. specialize (Hc b Hb). lia.
  - rewrite IH; auto. destruct (amap_get a m); auto.
Qed.

Lemma amap_del_length : forall m a, ksorted m ->
  length (amap_del a m) = match amap_get a m with Some _ => length m - 1 | None => length m end.
Proof.
  induction m as [|[c j] m IH]; intros a H; simpl; auto.
  destruct H as [Hc Hs].
  destruct (N.eqb a c) eqn:E; simpl.
  - apply N.eqb_eq in E; subst c. rewrite IH; auto.
    rewrite (ksorted_get_none_lt m a Hs Hc). lia.
  - rewrite IH; auto. destruct (amap_get a m) eqn:G; auto.
    destruct m; simpl in *; [discriminate | lia].
Qed.

(* ---------------------------------------------------------------- list facts *)

Lemma cm_set_nth_length : forall A (l : list A) i x, length (set_nth i x l) = length l.
Proof. induction l; intros [|i] x; simpl; auto. Qed.

Lemma set_nth_eq : forall A (l : list A) i x, i < length l -> nth_error (set_nth i x l) i = Some x.
Proof. induction l; intros [|i] x H; simpl in *; try lia; auto. apply IHl. lia. Qed.

Lemma set_nth_neq : forall A (l : list A) i k x, k <> i -> nth_error (set_nth i x l) k = nth_error l k.
Proof. induction l; intros [|i] [|k] x H; simpl; auto; try congruence. Qed.

Lemma nth_error_lt : forall A (l : list A) i x, nth_error l i = Some x -> i < length l.
Proof. intros. apply nth_error_Some. congruence. Qed.

Lemma nth_error_some_of_lt : forall A (l : list A) i, i < length l -> exists x, nth_error l i = Some x.
Proof. intros. destruct (nth_error l i) eqn:E; eauto. apply nth_error_None in E. lia. Qed.

Lemma lswap_nth : forall A (l : list A) i j a b k,
  nth_error l i = Some a -> nth_error l j = Some b ->
  nth_error (lswap l i j) k = if k =? j then Some a else if k =? i then Some b else nth_error l k.
Proof.
  intros A l i j a b k Hi Hj. unfold lswap. rewrite Hi, Hj.
  pose proof (nth_error_lt _ _ _ _ Hi). pose proof (nth_error_lt _ _ _ _ Hj).
  destruct (k =? j) eqn:Ej.
  - apply Nat.eqb_eq in Ej; subst. apply set_nth_eq. rewrite cm_set_nth_length. auto.
  - apply Nat.eqb_neq in Ej. rewrite set_nth_neq by auto.
    destruct (k =? i) eqn:Ei.
    + apply Nat.eqb_eq in Ei; subst. apply set_nth_eq. auto.
    + apply Nat.eqb_neq in Ei. apply set_nth_neq. auto.
Qed.

Lemma cm_lswap_length : forall A (l : list A) i j, length (lswap l i j) = length l.
Proof.
  intros. unfold lswap. destruct (nth_error l i), (nth_error l j); auto.
  rewrite !cm_set_nth_length. auto.
Qed.

(* ---------------------------------------------------------------- byAddr / byAge consistency *)

Definition addr_at (l : list crec) (i : nat) : option N := option_map c_addr (nth_error l i).

(* C17_heap_index_consistent: byAddr a = i <-> byAge[i].addr = a *)
Definition idx_ok (l : list crec) (m : list (N * nat)) : Prop :=
  forall a i, amap_get a m = Some i <-> addr_at l i = Some a.

Lemma idx_ok_inj : forall l m i j a, idx_ok l m -> addr_at l i = Some a -> addr_at l j = Some a -> i = j.
Proof.
  intros l m i j a H Hi Hj. apply H in Hi. apply H in Hj. congruence.
Qed.

Definition cmR (nq : nat) (dd : list (nat * list payload)) (s : cmap) (l : list crec) : Prop :=
  byAge s = l /\ idx_ok l (byAddr s) /\ ksorted (byAddr s) /\ length (byAddr s) = length l /\
  next_qid s = nq /\ dead s = dd.

Lemma cmR_len : forall nq dd s l, cmR nq dd s l -> cm_len s = length l.
Proof. intros nq dd s l (H & _). unfold cm_len. congruence. Qed.

Lemma cmR_less : forall nq dd s l i j, cmR nq dd s l -> i < length l -> j < length l ->
  cm_less s i j = lless rec_less l i j.
Proof. intros nq dd s l i j (H & _) _ _. unfold cm_less. congruence. Qed.

Lemma cmR_swap : forall nq dd s l i j, cmR nq dd s l -> i < length l -> j < length l ->
  cmR nq dd (cm_swap s i j) (lswap l i j).
Proof.
  intros nq dd s l i j (Hl & Hidx & Hks & Hlen & Hnq & Hdd) Hi Hj.
  destruct (nth_error_some_of_lt _ l i Hi) as [ri Hri].
  destruct (nth_error_some_of_lt _ l j Hj) as [rj Hrj].
  unfold cm_swap. rewrite Hl.
  assert (Hni: nth_error (lswap l i j) i = Some rj).
  { rewrite (lswap_nth _ l i j ri rj i Hri Hrj). rewrite Nat.eqb_refl.
    destruct (i =? j) eqn:E; auto. apply Nat.eqb_eq in E; subst. congruence. }
  assert (Hnj: nth_error (lswap l i j) j = Some ri).
  { rewrite (lswap_nth _ l i j ri rj j Hri Hrj). rewrite Nat.eqb_refl. auto. }
  rewrite Hni, Hnj.
  assert (Gi: amap_get (c_addr ri) (byAddr s) = Some i) by (apply Hidx; unfold addr_at; rewrite Hri; auto).
  assert (Gj: amap_get (c_addr rj) (byAddr s) = Some j) by (apply Hidx; unfold addr_at; rewrite Hrj; auto).
  unfold cmR; simpl. split; [reflexivity|]. split; [| split; [| split; [| split; auto]]].
  - (* idx_ok *)
    intros a i0; split; intro H.
    { rewrite amap_get_set, amap_get_set in H.
    unfold addr_at. rewrite (lswap_nth _ l i j ri rj i0 Hri Hrj).
    destruct (N.eqb a (c_addr ri)) eqn:Ea.
    + apply N.eqb_eq in Ea. inversion H; subst i0. rewrite Nat.eqb_refl. simpl. congruence.
    + destruct (N.eqb a (c_addr rj)) eqn:Eb.
      * apply N.eqb_eq in Eb. inversion H; subst i0.
        destruct (i =? j) eqn:E.
        -- apply Nat.eqb_eq in E. subst j. assert (ri = rj) by congruence. subst. apply N.eqb_neq in Ea. congruence.
        -- rewrite Nat.eqb_refl. simpl. congruence.
      * apply Hidx in H. unfold addr_at in H.
        destruct (i0 =? j) eqn:E1.
        { apply Nat.eqb_eq in E1; subst i0. rewrite Hrj in H. simpl in H. apply N.eqb_neq in Eb. congruence. }
        destruct (i0 =? i) eqn:E2.
        { apply Nat.eqb_eq in E2; subst i0. rewrite Hri in H. simpl in H. apply N.eqb_neq in Ea. congruence. }
        exact H. }
    (* converse *)
    unfold addr_at in H. rewrite (lswap_nth _ l i j ri rj i0 Hri Hrj) in H.
    rewrite amap_get_set, amap_get_set.
    destruct (i0 =? j) eqn:E1.
    + apply Nat.eqb_eq in E1; subst i0. simpl in H. inversion H. rewrite N.eqb_refl. auto.
    + destruct (i0 =? i) eqn:E2.
      * apply Nat.eqb_eq in E2; subst i0. simpl in H. inversion H; subst a.
        destruct (N.eqb (c_addr rj) (c_addr ri)) eqn:Ea.
        -- apply N.eqb_eq in Ea. exfalso.
           assert (i = j). { apply (idx_ok_inj l (byAddr s) i j (c_addr ri) Hidx); unfold addr_at; [rewrite Hri | rewrite Hrj]; simpl; congruence. }
           subst. rewrite Nat.eqb_refl in E1. discriminate.
        -- rewrite N.eqb_refl. auto.
      * assert (Ha: addr_at l i0 = Some a) by exact H.
        destruct (N.eqb a (c_addr ri)) eqn:Ea.
        -- apply N.eqb_eq in Ea. exfalso. apply Nat.eqb_neq in E2. apply E2.
           apply (idx_ok_inj l (byAddr s) i0 i a Hidx); auto. unfold addr_at. rewrite Hri. simpl. congruence.
        -- destruct (N.eqb a (c_addr rj)) eqn:Eb.
           ++ apply N.eqb_eq in Eb. exfalso. apply Nat.eqb_neq in E1. apply E1.
              apply (idx_ok_inj l (byAddr s) i0 j a Hidx); auto. unfold addr_at. rewrite Hrj. simpl. congruence.
           ++ apply Hidx. exact Ha.
  - apply ksorted_set. apply ksorted_set. auto.
  - rewrite amap_set_length by (apply ksorted_set; auto).
    rewrite amap_get_set.
    rewrite (amap_set_length (byAddr s)) by auto. rewrite Gj.
    rewrite cm_lswap_length.
    destruct (N.eqb (c_addr ri) (c_addr rj)); [auto | rewrite Gi; auto].
Qed.

(* ---------------------------------------------------------------- the order: LastSeen.Before *)

Lemma rec_less_irrefl : forall a, rec_less a a = false.
Proof. intros. unfold rec_less. apply Z.ltb_irrefl. Qed.
Lemma rec_less_trans : forall a b c, rec_less a b = true -> rec_less b c = true -> rec_less a c = true.
Proof. unfold rec_less. intros a b c H1 H2. apply Z.ltb_lt in H1, H2. apply Z.ltb_lt. lia. Qed.
Lemma rec_less_negtrans : forall a b c, rec_less a b = false -> rec_less b c = false -> rec_less a c = false.
Proof. unfold rec_less. intros a b c H1 H2. apply Z.ltb_ge in H1, H2. apply Z.ltb_ge. lia. Qed.

Ltac ord := try exact rec_less_irrefl; try exact rec_less_trans; try exact rec_less_negtrans; auto.

Definition hok (l : list crec) : Prop := heap_ok crec rec_less l.

(* ---------------------------------------------------------------- heap operations of the client map
   are the list heap operations on byAge, and keep byAddr consistent *)

Lemma cm_fix_sim : forall nq dd s l i, cmR nq dd s l -> i < length l ->
  cmR nq dd (cm_heap_fix s i) (lfix rec_less l i).
Proof.
  intros. unfold cm_heap_fix, lfix.
  apply (sim_fix cmap cm_len cm_less cm_swap crec rec_less (cmR nq dd)); auto.
  - apply cmR_len.
  - apply cmR_less.
  - apply cmR_swap.
Qed.

Lemma addr_at_app_last : forall l r i, addr_at (l ++ [r]) i =
  if i <? length l then addr_at l i else if i =? length l then Some (c_addr r) else None.
Proof.
  intros. unfold addr_at. destruct (i <? length l) eqn:E.
  - apply Nat.ltb_lt in E. rewrite nth_error_app1; auto.
  - apply Nat.ltb_ge in E. rewrite nth_error_app2; auto.
    destruct (i =? length l) eqn:E2.
    + apply Nat.eqb_eq in E2. subst. rewrite Nat.sub_diag. reflexivity.
    + apply Nat.eqb_neq in E2. destruct (i - length l) eqn:E3; [lia|]. simpl. destruct n; reflexivity.
Qed.

Lemma addr_at_lt : forall l i a, addr_at l i = Some a -> i < length l.
Proof.
  unfold addr_at. intros l i a H. destruct (nth_error l i) eqn:E; [|discriminate].
  eapply nth_error_lt; eauto.
Qed.

Lemma cm_push_sim : forall nq dd s l r, cmR nq dd s l -> amap_get (c_addr r) (byAddr s) = None ->
  cmR nq dd (cm_heap_push r s) (lpush rec_less r l).
Proof.
  intros nq dd s l r HR Hnone.
  assert (H1: cmR nq dd (cm_push_method r s) (l ++ [r])).
  { destruct HR as (Hl & Hidx & Hks & Hlen & Hnq & Hdd). unfold cm_push_method, cmR; simpl.
    rewrite Hl. split; [reflexivity|]. split; [| split; [| split; [| split; auto]]].
    - intros a i. rewrite amap_get_set, addr_at_app_last. split; intro H.
      + destruct (N.eqb a (c_addr r)) eqn:E.
        * apply N.eqb_eq in E. inversion H; subst. rewrite Nat.ltb_irrefl, Nat.eqb_refl. auto.
        * apply Hidx in H. pose proof (addr_at_lt _ _ _ H) as Hlt. apply Nat.ltb_lt in Hlt. rewrite Hlt. auto.
      + destruct (i <? length l) eqn:E1.
        * destruct (N.eqb a (c_addr r)) eqn:E.
          -- apply N.eqb_eq in E. subst a. apply Hidx in H. congruence.
          -- apply Hidx. auto.
        * destruct (i =? length l) eqn:E2; [|discriminate].
          apply Nat.eqb_eq in E2. inversion H; subst. rewrite N.eqb_refl. auto.
    - apply ksorted_set; auto.
    - rewrite amap_set_length by auto. rewrite Hnone. rewrite app_length. simpl. lia. }
  unfold cm_heap_push, lpush, heap_push.
  assert (Hlen1: cm_len (cm_push_method r s) = length (l ++ [r])) by (eapply cmR_len; eauto).
  rewrite Hlen1. unfold lpush_method.
  apply (sim_up cmap cm_less cm_swap crec rec_less (cmR nq dd)); auto.
  - apply cmR_less.
  - apply cmR_swap.
  - rewrite app_length. simpl. lia.
Qed.

Lemma removelast_firstn : forall A (l : list A), removelast l = firstn (length l - 1) l.
Proof. intros. rewrite removelast_firstn_len. f_equal. lia. Qed.

Lemma nth_error_firstn' : forall A (l : list A) n i,
  nth_error (firstn n l) i = if i <? n then nth_error l i else None.
Proof.
  induction l; intros [|n] [|i]; simpl; auto.
  - destruct (S i <? S n); auto.
  - rewrite IHl. reflexivity.
Qed.

Lemma addr_at_firstn : forall l n i, addr_at (firstn n l) i = if i <? n then addr_at l i else None.
Proof.
  intros. unfold addr_at. rewrite nth_error_firstn'. destruct (i <? n); auto.
Qed.

Lemma cm_pop_method_sim : forall nq dd s l, cmR nq dd s l -> l <> [] ->
  exists r, nth_error l (length l - 1) = Some r /\
    lpop_method l = (removelast l, Some r) /\
    snd (cm_pop_method s) = Some r /\
    cmR nq (dd ++ [(c_qid r, c_q r)]) (fst (cm_pop_method s)) (removelast l).
Proof.
  intros nq dd s l (Hl & Hidx & Hks & Hlen & Hnq & Hdd) Hne.
  assert (Hpos: 0 < length l) by (destruct l; simpl; [congruence | lia]).
  destruct (nth_error_some_of_lt _ l (length l - 1)) as [r Hr]; [lia|].
  exists r. split; auto. split; [unfold lpop_method; rewrite Hr; auto|].
  unfold cm_pop_method. rewrite Hlen, Hl, Hr. simpl. split; auto.
  assert (G: amap_get (c_addr r) (byAddr s) = Some (length l - 1)) by (apply Hidx; unfold addr_at; rewrite Hr; auto).
  unfold cmR; simpl. rewrite <- removelast_firstn.
  split; [reflexivity|]. split; [| split; [| split; [| split; [auto | congruence]]]].
  - intros a i. rewrite amap_get_del. rewrite removelast_firstn, addr_at_firstn. split; intro H.
    + destruct (N.eqb a (c_addr r)) eqn:E; [discriminate|].
      apply Hidx in H. pose proof (addr_at_lt _ _ _ H).
      destruct (i <? length l - 1) eqn:E1; auto.
      apply Nat.ltb_ge in E1. assert (i = length l - 1) by lia. subst i.
      unfold addr_at in H. rewrite Hr in H. simpl in H. apply N.eqb_neq in E. congruence.
    + destruct (i <? length l - 1) eqn:E1; [|discriminate].
      apply Nat.ltb_lt in E1.
      destruct (N.eqb a (c_addr r)) eqn:E.
      * apply N.eqb_eq in E. subst a. exfalso.
        assert (i = length l - 1); [|lia].
        apply (idx_ok_inj l (byAddr s) i (length l - 1) (c_addr r) Hidx); auto.
        unfold addr_at. rewrite Hr. auto.
      * apply Hidx. auto.
  - apply ksorted_del; auto.
  - rewrite amap_del_length by auto. rewrite G. rewrite removelast_firstn, firstn_length. lia.
Qed.

Lemma cm_pop_sim : forall nq dd s l, cmR nq dd s l -> l <> [] ->
  exists r l', lpop rec_less l = (l', Some r) /\
    snd (cm_heap_pop s) = Some r /\
    cmR nq (dd ++ [(c_qid r, c_q r)]) (fst (cm_heap_pop s)) l'.
Proof.
  intros nq dd s l HR Hne.
  assert (Hpos: 0 < length l) by (destruct l; simpl; [congruence | lia]).
  unfold cm_heap_pop, lpop, heap_pop.
  rewrite (cmR_len _ _ _ _ HR).
  set (n := length l - 1).
  assert (H1: cmR nq dd (cm_swap s 0 n) (lswap l 0 n)) by (apply cmR_swap; auto; unfold n; lia).
  assert (Hn: n <= length (lswap l 0 n)) by (rewrite cm_lswap_length; unfold n; lia).
  destruct (sim_down cmap cm_less cm_swap crec rec_less (cmR nq dd) (cmR_less nq dd) (cmR_swap nq dd)
              (cm_swap s 0 n) (lswap l 0 n) 0 n H1 Hn) as [H2 _].
  set (s2 := fst (down cmap cm_less cm_swap (cm_swap s 0 n) 0 n)) in *.
  set (l2 := fst (ldown rec_less (lswap l 0 n) 0 n)) in *.
  assert (Hl2: length l2 = length l).
  { unfold l2. rewrite ldown_length, cm_lswap_length; ord. }
  destruct (cm_pop_method_sim nq dd s2 l2 H2) as (r & Hr & Hp & Hs & HR3).
  { intro E. rewrite E in Hl2. simpl in Hl2. lia. }
  exists r, (removelast l2). unfold ldown in l2. fold l2. rewrite Hp. auto.
Qed.

(* ---------------------------------------------------------------- the invariant *)

Definition cm_inv (s : cmap) : Prop :=
  hok (byAge s) /\ idx_ok (byAge s) (byAddr s) /\ ksorted (byAddr s) /\
  length (byAddr s) = length (byAge s) /\
  NoDup (map c_qid (byAge s)) /\ (forall r, In r (byAge s) -> c_qid r < next_qid s).

Lemma cm_inv_R : forall s, cm_inv s -> cmR (next_qid s) (dead s) s (byAge s).
Proof. intros s (H1 & H2 & H3 & H4 & _). unfold cmR. auto 10. Qed.

Lemma cm_inv_of_R : forall nq dd s l, cmR nq dd s l -> hok l -> NoDup (map c_qid l) ->
  (forall r, In r l -> c_qid r < nq) -> cm_inv s.
Proof.
  intros nq dd s l (H1 & H2 & H3 & H4 & H5 & H6) Hh Hn Hb. unfold cm_inv. subst l. rewrite H5. auto 10.
Qed.

Lemma cm_inv_empty : cm_inv cm_empty.
Proof.
  unfold cm_inv, cm_empty; simpl. repeat split; try constructor; try tauto.
  - intros p c a b _ H. destruct p; discriminate.
  - discriminate.
  - unfold addr_at. destruct i; discriminate.
Qed.

Lemma map_set_nth_same : forall A B (f : A -> B) l i x y,
  nth_error l i = Some y -> f x = f y -> map f (set_nth i x l) = map f l.
Proof.
  induction l; intros [|i] x y H E; simpl in *; try discriminate; auto.
  - inversion H; subst. congruence.
  - f_equal. eapply IHl; eauto.
Qed.

Lemma addr_at_set_nth_same : forall l i x y k,
  nth_error l i = Some y -> c_addr x = c_addr y -> addr_at (set_nth i x l) k = addr_at l k.
Proof.
  intros. unfold addr_at. destruct (Nat.eq_dec k i).
  - subst. rewrite set_nth_eq by (eapply nth_error_lt; eauto). rewrite H. simpl. congruence.
  - rewrite set_nth_neq; auto.
Qed.

Lemma perm_qids : forall (l l' : list crec), Permutation l l' -> Permutation (map c_qid l) (map c_qid l').
Proof. intros. apply Permutation_map. auto. Qed.

(* SendQueue keeps the invariant *)
Lemma send_queue_inv : forall a now s, cm_inv s -> cm_inv (fst (send_queue a now s)).
Proof.
  intros a now s Hinv. pose proof (cm_inv_R s Hinv) as HR.
  destruct Hinv as (Hh & Hidx & Hks & Hlen & Hnd & Hb).
  unfold send_queue. destruct (amap_get a (byAddr s)) as [i|] eqn:G.
  - assert (Ha: addr_at (byAge s) i = Some a) by (apply Hidx; auto).
    unfold addr_at in Ha. destruct (nth_error (byAge s) i) as [r|] eqn:Hr; [|discriminate]. simpl in Ha.
    simpl. set (r' := set_seen r now). set (l1 := set_nth i r' (byAge s)).
    assert (Hi: i < length (byAge s)) by (eapply nth_error_lt; eauto).
    assert (HR1: cmR (next_qid s) (dead s) (set_byAge s l1) l1).
    { destruct HR as (_ & H2 & H3 & H4 & H5 & H6). unfold cmR, set_byAge; simpl.
      split; auto. split; [| split; [auto | split; [| auto]]].
      - intros b k. unfold l1. rewrite (addr_at_set_nth_same (byAge s) i r' r k Hr eq_refl). apply H2.
      - unfold l1. rewrite cm_set_nth_length. auto. }
    pose proof (cm_fix_sim _ _ _ _ i HR1) as HR2.
    assert (Hi1: i < length l1) by (unfold l1; rewrite cm_set_nth_length; auto).
    specialize (HR2 Hi1).
    destruct (lfix_spec crec rec_less rec_less_irrefl rec_less_trans rec_less_negtrans (byAge s) i r' Hh Hi) as [Hh2 Hp2].
    fold l1 in Hh2, Hp2.
    eapply cm_inv_of_R; eauto.
    + eapply Permutation_NoDup; [apply Permutation_sym, perm_qids, Hp2|].
      unfold l1. rewrite (map_set_nth_same _ _ c_qid (byAge s) i r' r Hr eq_refl). auto.
    + intros x Hx. eapply Permutation_in in Hx; [|exact Hp2].
      assert (In (c_qid x) (map c_qid l1)) by (apply in_map; auto).
      unfold l1 in H. rewrite (map_set_nth_same _ _ c_qid (byAge s) i r' r Hr eq_refl) in H.
      apply in_map_iff in H. destruct H as (y & Hy1 & Hy2). rewrite <- Hy1. auto.
  - simpl. set (r := mkrec a now (next_qid s) []).
    set (s1 := mkcm (byAge s) (byAddr s) (S (next_qid s)) (dead s)).
    assert (HR1: cmR (S (next_qid s)) (dead s) s1 (byAge s)).
    { destruct HR as (_ & H2 & H3 & H4 & H5 & H6). unfold cmR, s1; simpl. auto 10. }
    pose proof (cm_push_sim _ _ _ _ r HR1 G) as HR2.
    pose proof (lpush_heap_ok crec rec_less rec_less_irrefl rec_less_trans rec_less_negtrans (byAge s) r Hh) as Hh2.
    pose proof (lpush_perm crec rec_less (byAge s) r) as Hp2.
    eapply cm_inv_of_R; eauto.
    + eapply Permutation_NoDup; [apply Permutation_sym, perm_qids, Hp2|].
      simpl. constructor; auto. intro X. apply in_map_iff in X. destruct X as (y & Hy1 & Hy2).
      specialize (Hb y Hy2). lia.
    + intros x Hx. eapply Permutation_in in Hx; [|exact Hp2]. destruct Hx as [Hx|Hx].
      * subst x. simpl. lia.
      * specialize (Hb x Hx). lia.
Qed.

(* one heap.Pop of the client map *)
Lemma cm_pop_inv : forall s m, cm_inv s -> nth_error (byAge s) 0 = Some m ->
  let s' := fst (cm_heap_pop s) in
  cm_inv s' /\ Permutation (byAge s) (m :: byAge s') /\
  dead s' = dead s ++ [(c_qid m, c_q m)] /\ next_qid s' = next_qid s /\
  (forall y, In y (byAge s) -> rec_less y m = false).
Proof.
  intros s m Hinv Hm. pose proof (cm_inv_R s Hinv) as HR.
  destruct Hinv as (Hh & Hidx & Hks & Hlen & Hnd & Hb).
  destruct (lpop_spec crec rec_less rec_less_irrefl rec_less_trans rec_less_negtrans (byAge s) m Hh Hm)
    as (l' & Hpop & Hh' & Hperm & Hmin).
  destruct (cm_pop_sim _ _ _ _ HR) as (r & l2 & Hpop2 & Hsnd & HR2).
  { intro E. rewrite E in Hm. discriminate. }
  rewrite Hpop in Hpop2. inversion Hpop2; subst r l2. clear Hpop2.
  simpl. pose proof HR2 as (E1 & _ & _ & _ & E5 & E6).
  split; [| split; [| split; [| split]]]; auto.
  - eapply cm_inv_of_R; eauto.
    + apply perm_qids in Hperm. eapply Permutation_NoDup in Hnd; [|exact Hperm].
      simpl in Hnd. inversion Hnd; auto.
    + intros x Hx. apply Hb. eapply Permutation_in; [apply Permutation_sym; exact Hperm|]. right; auto.
  - rewrite E1. auto.
Qed.

(* ---------------------------------------------------------------- removeExpired *)

Definition live_addr (s : cmap) (a : N) : Prop := exists r, In r (byAge s) /\ c_addr r = a.

Definition re_spec (now timeout : Z) (s s' : cmap) : Prop :=
  cm_inv s' /\ next_qid s' = next_qid s /\
  (* nothing is left that has been idle for the timeout *)
  (forall r, In r (byAge s') -> expired now timeout r = false) /\
  (* every record is either kept unchanged, or it had been idle for the timeout and its queue was closed *)
  (forall r, In r (byAge s) ->
      In r (byAge s') \/ (expired now timeout r = true /\ In (c_qid r, c_q r) (dead s'))) /\
  (* no record appears, closed queues stay closed, and only expired records' queues are closed *)
  (forall r, In r (byAge s') -> In r (byAge s)) /\
  (forall e, In e (dead s) -> In e (dead s')) /\
  (forall e, In e (dead s') -> In e (dead s) \/
      exists r, In r (byAge s) /\ e = (c_qid r, c_q r) /\ expired now timeout r = true /\ ~ In r (byAge s')).

Lemma re_spec_id : forall now timeout s, cm_inv s ->
  (forall r, In r (byAge s) -> expired now timeout r = false) -> re_spec now timeout s s.
Proof. intros. unfold re_spec. repeat (split; auto). Qed.

Lemma remove_expired_aux_spec : forall fuel now timeout s, cm_inv s -> length (byAge s) <= fuel ->
  re_spec now timeout s (remove_expired_aux fuel now timeout s).
Proof.
  induction fuel; intros now timeout s Hinv Hlen.
  - simpl. destruct (byAge s) eqn:E; [|simpl in Hlen; lia].
    apply re_spec_id; auto. intros r Hr; rewrite E in Hr; destruct Hr.
  - simpl. destruct (byAge s) as [|r0 rest] eqn:E.
    + apply re_spec_id; auto. intros r Hr; rewrite E in Hr; destruct Hr.
    + destruct (expired now timeout r0) eqn:Ex.
      * assert (Hm: nth_error (byAge s) 0 = Some r0) by (rewrite E; auto).
        destruct (cm_pop_inv s r0 Hinv Hm) as (Hinv1 & Hperm & Hdead & Hnq & Hmin).
        set (s1 := fst (cm_heap_pop s)) in *.
        assert (Hlen1: length (byAge s1) <= fuel).
        { apply Permutation_length in Hperm. simpl in Hperm. rewrite E in *. simpl in *. lia. }
        destruct (IHfuel now timeout s1 Hinv1 Hlen1) as (I1 & I2 & I3 & I4 & I5 & I6 & I7).
        set (s' := remove_expired_aux fuel now timeout s1) in *.
        unfold re_spec.
        assert (Hnd: NoDup (byAge s)).
        { destruct Hinv as (_ & _ & _ & _ & Hq & _). eapply NoDup_map_inv; eauto. }
        assert (Hr0: ~ In r0 (byAge s1)).
        { eapply Permutation_NoDup in Hnd; [|exact Hperm]. inversion Hnd; auto. }
        split; [auto|]. split; [congruence|]. split; [auto|]. split; [|split; [|split]].
        -- intros r Hr. eapply Permutation_in in Hr; [|exact Hperm]. destruct Hr as [Hr|Hr].
           ++ subst r. right. split; auto. apply I6. rewrite Hdead. apply in_or_app. right. left. auto.
           ++ apply I4. auto.
        -- intros r Hr. apply I5 in Hr. eapply Permutation_in; [apply Permutation_sym; exact Hperm|]. right. auto.
        -- intros e He. apply I6. rewrite Hdead. apply in_or_app. auto.
        -- intros e He. apply I7 in He. destruct He as [He|(r & Hr1 & Hr2 & Hr3 & Hr4)].
           ++ rewrite Hdead in He. apply in_app_or in He. destruct He as [He|[He|[]]]; auto.
              right. exists r0. rewrite E. split; [left; auto|]. split; [auto|]. split; [auto|].
              intro X. apply I5 in X. auto.
           ++ right. exists r. split; [|auto].
              eapply Permutation_in; [apply Permutation_sym; exact Hperm|]. right. auto.
      * apply re_spec_id; auto.
        intros r Hr.
        assert (Hm: nth_error (byAge s) 0 = Some r0) by (rewrite E; auto).
        destruct Hinv as (Hh & _).
        pose proof (heap_ok_root_min crec rec_less rec_less_irrefl rec_less_negtrans (byAge s) r0 Hh Hm r Hr) as Hle.
        unfold expired, rec_less in *. apply Z.ltb_ge in Hle. rewrite Z.geb_leb in Ex. apply Z.leb_gt in Ex.
        destruct (now - c_seen r >=? timeout)%Z eqn:G; auto. rewrite Z.geb_leb in G. apply Z.leb_le in G. lia.
Qed.

Lemma remove_expired_inv : forall now timeout s, cm_inv s -> cm_inv (remove_expired now timeout s).
Proof. intros. unfold remove_expired. apply remove_expired_aux_spec; auto. Qed.

(* ---------------------------------------------------------------- all operation sequences *)

Lemma cm_step_inv : forall s o, cm_inv s -> cm_inv (cm_step s o).
Proof. intros s [a now|now timeout] H; simpl; [apply send_queue_inv | apply remove_expired_inv]; auto. Qed.

Lemma cm_run_inv : forall ops s, cm_inv s -> cm_inv (cm_run ops s).
Proof. induction ops; intros s H; simpl; auto. apply IHops. apply cm_step_inv. auto. Qed.

Theorem cm_index_consistent : forall ops a i,
  let s := cm_run ops cm_empty in
  amap_get a (byAddr s) = Some i <-> exists r, nth_error (byAge s) i = Some r /\ c_addr r = a.
Proof.
  intros ops a i s. pose proof (cm_run_inv ops cm_empty cm_inv_empty) as (_ & Hidx & _).
  fold s in Hidx. rewrite (Hidx a i). unfold addr_at.
  destruct (nth_error (byAge s) i) as [r|]; simpl; split.
  - intro H. inversion H. eauto.
  - intros (r' & H1 & H2). inversion H1. congruence.
  - discriminate.
  - intros (r' & H1 & _). discriminate.
Qed.

(* the Len() panic ("inconsistent clientMap") and the Push panic ("duplicate address") are unreachable *)
Theorem cm_no_inconsistency : forall ops,
  let s := cm_run ops cm_empty in
  length (byAddr s) = length (byAge s) /\ NoDup (map c_addr (byAge s)) /\ hok (byAge s).
Proof.
  intros ops s. pose proof (cm_run_inv ops cm_empty cm_inv_empty) as (Hh & Hidx & _ & Hlen & _).
  fold s in Hh, Hidx, Hlen. split; auto. split; auto.
  apply (proj2 (NoDup_nth_error (map c_addr (byAge s)))).
  intros i j Hi Hij. rewrite map_length in Hi.
  destruct (nth_error_some_of_lt _ _ _ Hi) as [r Hr].
  rewrite (map_nth_error c_addr _ _ Hr) in Hij. symmetry in Hij.
  destruct (nth_error (byAge s) j) as [r'|] eqn:Hr'.
  - rewrite (map_nth_error c_addr _ _ Hr') in Hij.
    apply (idx_ok_inj (byAge s) (byAddr s) i j (c_addr r) Hidx); unfold addr_at; [rewrite Hr | rewrite Hr']; simpl; congruence.
  - exfalso. apply nth_error_None in Hr'.
    assert (nth_error (map c_addr (byAge s)) j = None) by (apply nth_error_None; rewrite map_length; auto).
    congruence.
Qed.
