(* ToyArqProofs.v — a small concrete selective-repeat ARQ that satisfies the hypothesis [arq_safe] of
   Proofs/PacketPathProofs.v (Section ArqBoundary), so that the C01 stream theorems are not vacuous.

   This is NOT a model of kcp-go or smux: those stay behind the library boundary (hypothesis [arq_safe],
   exercised by the whole-system rig of lib/checks/c01.py). It is a reliable-stream layer with the shape of
   KCP's receive side (conversation id, sequence number, rcv_nxt, an out-of-order receive buffer that is
   drained as far as it is contiguous), small enough to be proved safe for ALL inputs, and non-trivial: it
   delivers the whole stream whenever every segment arrives (any order, any duplicates, foreign or
   undecodable segments mixed in), never re-delivers a duplicate and ignores foreign segments.

   Segment format (a [bytes] = list N):   conv :: sn :: payload
     conv : the session tag (conversation id), ONE list element of type N;
     sn   : the sequence number, ONE list element of type N ([N.of_nat i]; an element of a [bytes] is an
            unbounded N in Lib/Wire.v, so no fixed-width encoding and no wrap-around bound is needed:
            decode (encode conv i pl) = (conv, i, pl) for every i, lemma [toy_decode_seg]);
     payload : the rest (may be empty).
   A list shorter than two elements does not decode. *)
From Coq Require Import List NArith Bool Arith Lia.
From Coq Require Import ZifyN ZifyNat ZifyBool.
From Snow Require Import Lib.Wire Model.Encap Model.CarrierLayer Proofs.CarrierProofs Proofs.PacketPathProofs.
Import ListNotations.
Local Open Scope nat_scope.

(* ---------- segments ---------- *)

Definition toy_seg (conv : N) (i : nat) (pl : bytes) : bytes := conv :: N.of_nat i :: pl.

Definition toy_decode (p : bytes) : option (N * nat * bytes) :=
  match p with
  | c :: s :: pl => Some (c, N.to_nat s, pl)
  | _ => None
  end.

(* a segment the receiver of session [conv] has nothing to do with: undecodable, or of another session *)
Definition toy_foreign (conv : N) (p : bytes) : Prop :=
  match toy_decode p with
  | None => True
  | Some (c, _, _) => c <> conv
  end.

(* ---------- sender ---------- *)

(* The sending endpoint cuts what it was written into segments in some way ([chunks]) and emits, in any order,
   any number of times, any subset of the numbered segments. *)
Definition toy_packets_of (conv : N) (written : bytes) (sent : list bytes) : Prop :=
  exists chunks : list bytes,
    concat chunks = written /\
    forall p, In p sent -> exists i, i < length chunks /\ p = toy_seg conv i (nth i chunks []).

(* ---------- receiver ---------- *)

(* out-of-order buffer: association list sequence number -> payload *)
Fixpoint toy_lookup (k : nat) (b : list (nat * bytes)) : option bytes :=
  match b with
  | [] => None
  | (i, pl) :: r => if Nat.eqb i k then Some pl else toy_lookup k r
  end.

Definition toy_mem (k : nat) (b : list (nat * bytes)) : bool :=
  match toy_lookup k b with Some _ => true | None => false end.

Fixpoint toy_remove (k : nat) (b : list (nat * bytes)) : list (nat * bytes) :=
  match b with
  | [] => []
  | (i, pl) :: r => if Nat.eqb i k then toy_remove k r else (i, pl) :: toy_remove k r
  end.

Record toy_state := { ta_next : nat;                 (* next expected sequence number (KCP: rcv_nxt) *)
                      ta_buf : list (nat * bytes);   (* received ahead of ta_next (KCP: rcv_buf) *)
                      ta_out : bytes }.              (* delivered to the application so far *)

Definition toy_init : toy_state := {| ta_next := 0; ta_buf := []; ta_out := [] |}.

(* move buffered segments to the output as far as they are contiguous; the fuel is the buffer length
   ([toy_drain_fuel_suffices]: it never runs out before the buffer stops being contiguous) *)
Fixpoint toy_drain (fuel next : nat) (buf : list (nat * bytes)) (out : bytes) : toy_state :=
  match fuel with
  | O => {| ta_next := next; ta_buf := buf; ta_out := out |}
  | S f =>
    match toy_lookup next buf with
    | Some pl => toy_drain f (S next) (toy_remove next buf) (out ++ pl)
    | None => {| ta_next := next; ta_buf := buf; ta_out := out |}
    end
  end.

Definition toy_step (conv : N) (st : toy_state) (p : bytes) : toy_state :=
  match toy_decode p with
  | None => st                                                          (* undecodable: dropped *)
  | Some (c, sn, pl) =>
    if negb (N.eqb c conv) then st                                      (* other session: dropped *)
    else if Nat.ltb sn (ta_next st) then st                             (* already delivered: duplicate *)
    else if Nat.eqb sn (ta_next st) then                                (* the expected one: deliver, drain *)
      toy_drain (length (ta_buf st)) (S (ta_next st)) (ta_buf st) (ta_out st ++ pl)
    else if toy_mem sn (ta_buf st) then st                              (* already buffered: duplicate *)
    else {| ta_next := ta_next st; ta_buf := (sn, pl) :: ta_buf st; ta_out := ta_out st |}
  end.

Definition toy_run (conv : N) (recv : list bytes) : toy_state := fold_left (toy_step conv) recv toy_init.

Definition toy_stream_of (conv : N) (recv : list bytes) : bytes := ta_out (toy_run conv recv).

(* ---------- basic facts ---------- *)

Lemma toy_decode_seg conv i pl : toy_decode (toy_seg conv i pl) = Some (conv, i, pl).
Proof. unfold toy_decode, toy_seg. rewrite Nat2N.id. reflexivity. Qed.

Lemma toy_run_app conv l1 l2 : toy_run conv (l1 ++ l2) = fold_left (toy_step conv) l2 (toy_run conv l1).
Proof. unfold toy_run. apply fold_left_app. Qed.

Lemma toy_lookup_In k : forall b pl, toy_lookup k b = Some pl -> In (k, pl) b.
Proof.
  induction b as [|[i q] r IH]; intros pl H; cbn [toy_lookup] in H; [discriminate|].
  destruct (Nat.eqb_spec i k) as [->|Hne].
  - injection H as ->. left. reflexivity.
  - right. apply IH. exact H.
Qed.

Lemma toy_In_mem k pl : forall b, In (k, pl) b -> toy_mem k b = true.
Proof.
  unfold toy_mem. induction b as [|[i q] r IH]; intros H; [destruct H|]. cbn [toy_lookup].
  destruct (Nat.eqb_spec i k) as [_|Hne]; [reflexivity|].
  destruct H as [H|H]; [congruence|]. apply IH. exact H.
Qed.

Lemma toy_mem_In k b : toy_mem k b = true -> exists pl, In (k, pl) b.
Proof.
  unfold toy_mem. destruct (toy_lookup k b) as [pl|] eqn:E; [|discriminate].
  intros _. exists pl. apply toy_lookup_In. exact E.
Qed.

Lemma toy_mem_cons i j q b : toy_mem i ((j, q) :: b) = Nat.eqb j i || toy_mem i b.
Proof. unfold toy_mem. cbn [toy_lookup]. destruct (Nat.eqb j i); reflexivity. Qed.

Lemma toy_remove_In k : forall b i pl, In (i, pl) (toy_remove k b) -> In (i, pl) b /\ i <> k.
Proof.
  induction b as [|[j q] r IH]; intros i pl H; cbn [toy_remove] in H; [destruct H|].
  destruct (Nat.eqb_spec j k) as [->|Hne].
  - destruct (IH _ _ H) as [Hin Hik]. split; [right; exact Hin | exact Hik].
  - destruct H as [H|H].
    + injection H as <- <-. split; [left; reflexivity | exact Hne].
    + destruct (IH _ _ H) as [Hin Hik]. split; [right; exact Hin | exact Hik].
Qed.

Lemma toy_lookup_remove_other k i : i <> k -> forall b, toy_lookup i (toy_remove k b) = toy_lookup i b.
Proof.
  intros Hne. induction b as [|[j q] r IH]; [reflexivity|]. cbn [toy_remove toy_lookup].
  destruct (Nat.eqb_spec j k) as [->|Hjk].
  - destruct (Nat.eqb_spec k i) as [Hki|_]; [congruence | exact IH].
  - cbn [toy_lookup]. destruct (Nat.eqb_spec j i) as [_|_]; [reflexivity | exact IH].
Qed.

Lemma toy_remove_length_le k : forall b, length (toy_remove k b) <= length b.
Proof.
  induction b as [|[j q] r IH]; [cbn; lia|]. cbn [toy_remove].
  destruct (Nat.eqb j k); cbn [length]; lia.
Qed.

Lemma toy_remove_length_lt k : forall b pl, toy_lookup k b = Some pl -> length (toy_remove k b) < length b.
Proof.
  induction b as [|[j q] r IH]; intros pl H; cbn [toy_lookup] in H; [discriminate|]. cbn [toy_remove].
  destruct (Nat.eqb j k).
  - pose proof (toy_remove_length_le k r) as Hle. cbn [length]. lia.
  - specialize (IH _ H). cbn [length]. lia.
Qed.

Lemma concat_firstn_S (chunks : list bytes) : forall n, n < length chunks ->
  concat (firstn (S n) chunks) = concat (firstn n chunks) ++ nth n chunks [].
Proof.
  induction chunks as [|c r IH]; intros n H; [cbn in H; lia|].
  destruct n as [|n].
  - cbn. rewrite app_nil_r. reflexivity.
  - cbn [length] in H. rewrite !firstn_cons. cbn [concat nth]. rewrite IH by lia. rewrite app_assoc. reflexivity.
Qed.

(* ---------- the drain loop: what it does to rcv_nxt and the buffer (any buffer contents) ---------- *)

Lemma toy_drain_spec : forall fuel next buf out,
  length buf <= fuel ->
  (forall i pl, In (i, pl) buf -> next <= i) ->
  next <= ta_next (toy_drain fuel next buf out) /\
  (forall i pl, In (i, pl) (ta_buf (toy_drain fuel next buf out)) ->
     ta_next (toy_drain fuel next buf out) < i /\ In (i, pl) buf) /\
  (forall i, toy_mem i buf = true ->
     i < ta_next (toy_drain fuel next buf out) \/ toy_mem i (ta_buf (toy_drain fuel next buf out)) = true).
Proof.
  induction fuel as [|f IH]; intros next buf out Hlen Hkeys.
  - destruct buf as [|x buf]; [|cbn [length] in Hlen; lia]. cbn [toy_drain ta_next ta_buf].
    split; [lia|]. split.
    + intros i pl [].
    + intros i H. discriminate H.
  - cbn [toy_drain]. destruct (toy_lookup next buf) as [pl0|] eqn:El.
    + assert (Hl : length (toy_remove next buf) <= f)
        by (pose proof (toy_remove_length_lt _ _ _ El); lia).
      assert (Hk : forall i pl, In (i, pl) (toy_remove next buf) -> S next <= i).
      { intros i pl Hin. destruct (toy_remove_In _ _ _ _ Hin) as [Hin' Hne].
        specialize (Hkeys _ _ Hin'). lia. }
      destruct (IH (S next) (toy_remove next buf) (out ++ pl0) Hl Hk) as [Hn [Hb Hm]].
      split; [lia|]. split.
      * intros i pl Hin. destruct (Hb _ _ Hin) as [Hlt Hin']. split; [exact Hlt|].
        apply (toy_remove_In _ _ _ _ Hin').
      * intros i Hmi. destruct (Nat.eq_dec i next) as [->|Hne]; [left; lia|].
        apply Hm. unfold toy_mem in *. rewrite toy_lookup_remove_other by exact Hne. exact Hmi.
    + cbn [ta_next ta_buf]. split; [lia|]. split.
      * intros i pl Hin. split; [|exact Hin]. specialize (Hkeys _ _ Hin).
        destruct (Nat.eq_dec i next) as [->|Hne]; [|lia].
        apply toy_In_mem in Hin. unfold toy_mem in Hin. rewrite El in Hin. discriminate.
      * intros i H. right. exact H.
Qed.

(* the fuel is enough: after the drain the buffer does not hold the next expected segment *)
Lemma toy_drain_fuel_suffices : forall next buf out,
  (forall i pl, In (i, pl) buf -> next <= i) ->
  toy_lookup (ta_next (toy_drain (length buf) next buf out)) (ta_buf (toy_drain (length buf) next buf out)) = None.
Proof.
  intros next buf out Hk.
  destruct (toy_drain_spec (length buf) next buf out (le_n _) Hk) as [_ [Hb _]].
  destruct (toy_lookup _ _) as [pl|] eqn:E; [|reflexivity].
  apply toy_lookup_In in E. destruct (Hb _ _ E) as [Hlt _]. lia.
Qed.

(* ---------- safety: delivered = concat of the first rcv_nxt chunks ---------- *)

Definition toy_valid (chunks : list bytes) (buf : list (nat * bytes)) : Prop :=
  forall i pl, In (i, pl) buf -> i < length chunks /\ pl = nth i chunks [].

Definition toy_safe_inv (chunks : list bytes) (st : toy_state) : Prop :=
  ta_next st <= length chunks /\
  ta_out st = concat (firstn (ta_next st) chunks) /\
  toy_valid chunks (ta_buf st).

Lemma toy_drain_safe chunks : forall fuel next buf out,
  toy_valid chunks buf -> next <= length chunks -> out = concat (firstn next chunks) ->
  toy_safe_inv chunks (toy_drain fuel next buf out).
Proof.
  induction fuel as [|f IH]; intros next buf out Hv Hn Ho; cbn [toy_drain].
  - exact (conj Hn (conj Ho Hv)).
  - destruct (toy_lookup next buf) as [pl0|] eqn:El.
    + apply toy_lookup_In in El. destruct (Hv _ _ El) as [Hlt ->]. apply IH.
      * intros i pl Hin. apply Hv. apply (toy_remove_In _ _ _ _ Hin).
      * lia.
      * rewrite concat_firstn_S by exact Hlt. rewrite Ho. reflexivity.
    + exact (conj Hn (conj Ho Hv)).
Qed.

Lemma toy_step_safe conv chunks st i : toy_safe_inv chunks st -> i < length chunks ->
  toy_safe_inv chunks (toy_step conv st (toy_seg conv i (nth i chunks []))).
Proof.
  intros [Hn [Ho Hv]] Hi. unfold toy_step. rewrite toy_decode_seg, N.eqb_refl. cbn [negb].
  destruct (Nat.ltb_spec i (ta_next st)) as [Hlt|Hge]; [exact (conj Hn (conj Ho Hv))|].
  destruct (Nat.eqb_spec i (ta_next st)) as [->|Hne].
  - apply toy_drain_safe; [exact Hv | lia |].
    rewrite concat_firstn_S by exact Hi. rewrite Ho. reflexivity.
  - destruct (toy_mem i (ta_buf st)); [exact (conj Hn (conj Ho Hv))|].
    unfold toy_safe_inv. cbn [ta_next ta_out ta_buf]. split; [exact Hn|]. split; [exact Ho|].
    intros j pl [H|H].
    + injection H as <- <-. split; [exact Hi | reflexivity].
    + apply Hv. exact H.
Qed.

Lemma toy_step_foreign conv st p : toy_foreign conv p -> toy_step conv st p = st.
Proof.
  unfold toy_foreign, toy_step. destruct (toy_decode p) as [[[c sn] pl]|]; [|reflexivity].
  intros Hc. destruct (N.eqb_spec c conv) as [He|_]; [contradiction | reflexivity].
Qed.

Lemma toy_fold_safe conv chunks : forall recv st, toy_safe_inv chunks st ->
  (forall p, In p recv ->
     (exists i, i < length chunks /\ p = toy_seg conv i (nth i chunks [])) \/ toy_foreign conv p) ->
  toy_safe_inv chunks (fold_left (toy_step conv) recv st).
Proof.
  induction recv as [|p r IH]; intros st Hinv Hall; [exact Hinv|]. cbn [fold_left]. apply IH.
  - destruct (Hall p (or_introl eq_refl)) as [[i [Hi ->]]|Hf].
    + apply toy_step_safe; assumption.
    + rewrite toy_step_foreign by exact Hf. exact Hinv.
  - intros q Hq. apply Hall. right. exact Hq.
Qed.

Lemma toy_init_safe chunks : toy_safe_inv chunks toy_init.
Proof.
  unfold toy_safe_inv, toy_init. cbn [ta_next ta_out ta_buf firstn concat].
  split; [lia|]. split; [reflexivity|]. intros i pl [].
Qed.

Lemma concat_firstn_prefix (chunks : list bytes) n : is_prefix (concat (firstn n chunks)) (concat chunks).
Proof. exists (concat (skipn n chunks)). rewrite <- concat_app, firstn_skipn. reflexivity. Qed.

(* THE hypothesis of Section ArqBoundary, for the toy ARQ, for ALL inputs *)
Theorem toy_arq_safe : forall conv written sent recv,
  toy_packets_of conv written sent -> (forall p, In p recv -> In p sent) ->
  is_prefix (toy_stream_of conv recv) written.
Proof.
  intros conv written sent recv [chunks [Hc Hs]] Hsub.
  assert (Hinv : toy_safe_inv chunks (toy_run conv recv)).
  { apply toy_fold_safe; [apply toy_init_safe|]. intros p Hp. left. apply Hs, Hsub, Hp. }
  destruct Hinv as [_ [Ho _]]. unfold toy_stream_of. rewrite Ho, <- Hc. apply concat_firstn_prefix.
Qed.

(* ---------- what the receiver has seen is delivered or buffered (any input whatsoever) ---------- *)

Definition toy_seen_inv (conv : N) (l : list bytes) (st : toy_state) : Prop :=
  (forall i pl, In (i, pl) (ta_buf st) -> ta_next st < i) /\
  (forall p i pl, In p l -> toy_decode p = Some (conv, i, pl) ->
     i < ta_next st \/ toy_mem i (ta_buf st) = true).

Lemma toy_seen_ext conv l st st' p :
  toy_seen_inv conv l st ->
  (forall i pl, In (i, pl) (ta_buf st') -> ta_next st' < i) ->
  (forall i, i < ta_next st \/ toy_mem i (ta_buf st) = true ->
             i < ta_next st' \/ toy_mem i (ta_buf st') = true) ->
  (forall i pl, toy_decode p = Some (conv, i, pl) -> i < ta_next st' \/ toy_mem i (ta_buf st') = true) ->
  toy_seen_inv conv (l ++ [p]) st'.
Proof.
  intros [Hk Hs] Hk' Hmono Hnew. split; [exact Hk'|].
  intros q i pl Hin Hd. apply in_app_or in Hin. destruct Hin as [Hin|[<-|[]]].
  - apply Hmono. eapply Hs; eassumption.
  - eapply Hnew. exact Hd.
Qed.

Lemma toy_step_seen conv l st p : toy_seen_inv conv l st -> toy_seen_inv conv (l ++ [p]) (toy_step conv st p).
Proof.
  intros Hinv. pose proof Hinv as [Hk Hs]. unfold toy_step.
  destruct (toy_decode p) as [[[c sn] pl]|] eqn:Ed.
  2:{ apply (toy_seen_ext conv l st st p Hinv Hk); [tauto | intros i pl Hd; congruence]. }
  destruct (N.eqb_spec c conv) as [->|Hc]; cbn [negb].
  2:{ apply (toy_seen_ext conv l st st p Hinv Hk); [tauto | intros i pl' Hd; congruence]. }
  destruct (Nat.ltb_spec sn (ta_next st)) as [Hlt|Hge].
  { apply (toy_seen_ext conv l st st p Hinv Hk); [tauto|].
    intros i pl' Hd. rewrite Ed in Hd. injection Hd as <- _. left. exact Hlt. }
  destruct (Nat.eqb_spec sn (ta_next st)) as [He|Hne].
  { assert (Hk1 : forall i pl', In (i, pl') (ta_buf st) -> S (ta_next st) <= i)
      by (intros i pl' Hin; specialize (Hk _ _ Hin); lia).
    destruct (toy_drain_spec (length (ta_buf st)) (S (ta_next st)) (ta_buf st) (ta_out st ++ pl) (le_n _) Hk1)
      as [Hn [Hb Hm]].
    apply (toy_seen_ext conv l st _ p Hinv).
    - intros i pl' Hin. apply (Hb _ _ Hin).
    - intros i [Hi|Hi]; [left; lia | apply Hm; exact Hi].
    - intros i pl' Hd. rewrite Ed in Hd. injection Hd as <- _. left. lia. }
  destruct (toy_mem sn (ta_buf st)) eqn:Em.
  { apply (toy_seen_ext conv l st st p Hinv Hk); [tauto|].
    intros i pl' Hd. rewrite Ed in Hd. injection Hd as <- _. right. exact Em. }
  apply (toy_seen_ext conv l st _ p Hinv); cbn [ta_next ta_buf].
  - intros i pl' [H|H]; [injection H as <- _; lia | apply (Hk _ _ H)].
  - intros i [Hi|Hi]; [left; exact Hi | right]. rewrite toy_mem_cons, Hi. apply orb_true_r.
  - intros i pl' Hd. rewrite Ed in Hd. injection Hd as <- _. right. rewrite toy_mem_cons, Nat.eqb_refl. reflexivity.
Qed.

Lemma toy_run_seen conv : forall l, toy_seen_inv conv l (toy_run conv l).
Proof.
  induction l as [|p l IH] using rev_ind.
  - split; [intros i pl [] | intros p i pl []].
  - rewrite toy_run_app. cbn [fold_left]. apply toy_step_seen. exact IH.
Qed.

(* a segment that was already handed to the receiver changes nothing when handed again *)
Lemma toy_step_dup conv l p : In p l -> toy_step conv (toy_run conv l) p = toy_run conv l.
Proof.
  intros Hin. destruct (toy_run_seen conv l) as [Hk Hs]. unfold toy_step.
  destruct (toy_decode p) as [[[c sn] pl]|] eqn:Ed; [|reflexivity].
  destruct (N.eqb_spec c conv) as [->|Hc]; cbn [negb]; [|reflexivity].
  destruct (Hs p sn pl Hin Ed) as [Hlt|Hm].
  - destruct (Nat.ltb_spec sn (ta_next (toy_run conv l))) as [_|Hge]; [reflexivity | lia].
  - destruct (toy_mem_In _ _ Hm) as [pl' Hb]. specialize (Hk _ _ Hb).
    destruct (Nat.ltb_spec sn (ta_next (toy_run conv l))) as [_|_]; [reflexivity|].
    destruct (Nat.eqb_spec sn (ta_next (toy_run conv l))) as [He|_]; [lia|].
    rewrite Hm. reflexivity.
Qed.

(* (b) duplicates never change the receiver state, hence never the stream *)
Theorem toy_dup_ignored_state : forall conv l1 p l2 l3,
  toy_run conv (l1 ++ [p] ++ l2 ++ [p] ++ l3) = toy_run conv (l1 ++ [p] ++ l2 ++ l3).
Proof.
  intros conv l1 p l2 l3.
  replace (l1 ++ [p] ++ l2 ++ [p] ++ l3) with ((l1 ++ [p] ++ l2) ++ p :: l3)
    by (repeat rewrite <- app_assoc; reflexivity).
  replace (l1 ++ [p] ++ l2 ++ l3) with ((l1 ++ [p] ++ l2) ++ l3)
    by (repeat rewrite <- app_assoc; reflexivity).
  rewrite (toy_run_app conv (l1 ++ [p] ++ l2) (p :: l3)). cbn [fold_left].
  rewrite toy_step_dup by (apply in_or_app; right; left; reflexivity).
  rewrite <- toy_run_app. reflexivity.
Qed.

Theorem toy_dup_ignored : forall conv l1 p l2 l3,
  toy_stream_of conv (l1 ++ [p] ++ l2 ++ [p] ++ l3) = toy_stream_of conv (l1 ++ [p] ++ l2 ++ l3).
Proof. intros. unfold toy_stream_of. rewrite toy_dup_ignored_state. reflexivity. Qed.

(* (c) a foreign or undecodable segment is ignored wherever it appears *)
Theorem toy_foreign_ignored : forall conv l1 p l2, toy_foreign conv p ->
  toy_stream_of conv (l1 ++ [p] ++ l2) = toy_stream_of conv (l1 ++ l2).
Proof.
  intros conv l1 p l2 Hf. unfold toy_stream_of. rewrite !toy_run_app. cbn [app fold_left].
  rewrite toy_step_foreign by exact Hf. reflexivity.
Qed.

(* a segment of another session is foreign *)
Lemma toy_other_conv_foreign conv c i pl : c <> conv -> toy_foreign conv (toy_seg c i pl).
Proof. intros H. unfold toy_foreign. rewrite toy_decode_seg. exact H. Qed.

(* (a) completeness: when every segment of the segmentation arrives — in any order, any number of times,
   with foreign/undecodable segments anywhere in between — the whole stream is delivered. *)
Theorem toy_arq_complete : forall conv (chunks : list bytes) (recv : list bytes),
  (forall i, i < length chunks -> In (toy_seg conv i (nth i chunks [])) recv) ->
  (forall p, In p recv ->
     (exists i, i < length chunks /\ p = toy_seg conv i (nth i chunks [])) \/ toy_foreign conv p) ->
  toy_stream_of conv recv = concat chunks.
Proof.
  intros conv chunks recv Hall Honly.
  assert (Hinv : toy_safe_inv chunks (toy_run conv recv))
    by (apply toy_fold_safe; [apply toy_init_safe | exact Honly]).
  destruct Hinv as [Hn [Ho _]].
  destruct (toy_run_seen conv recv) as [Hk Hs].
  assert (Hfull : ta_next (toy_run conv recv) = length chunks).
  { destruct (Nat.eq_dec (ta_next (toy_run conv recv)) (length chunks)) as [He|Hne]; [exact He|].
    assert (Hlt : ta_next (toy_run conv recv) < length chunks) by lia.
    destruct (Hs _ _ _ (Hall _ Hlt) (toy_decode_seg _ _ _)) as [Hc|Hm]; [lia|].
    destruct (toy_mem_In _ _ Hm) as [pl' Hb]. specialize (Hk _ _ Hb). lia. }
  unfold toy_stream_of. rewrite Ho, Hfull, firstn_all. reflexivity.
Qed.

(* ---------- the C01 stream theorems with the ARQ hypothesis discharged by the toy ARQ ---------- *)

Theorem upstream_stream_prefix_toy : forall conv written sent cid (cs : list ucarrier) recv,
  length cid = 8 -> toy_packets_of conv written sent ->
  (forall c, In c cs -> wire_of (u_ps c) = Some (u_w c) /\ forall p, In p (u_ps c) -> In p sent) ->
  (forall p, In p recv -> exists c, In c cs /\ In p (queued_from cid (u_w c) (u_cut c))) ->
  is_prefix (toy_stream_of conv recv) written.
Proof.
  intros conv.
  exact (upstream_stream_prefix (toy_packets_of conv) (toy_stream_of conv) (toy_arq_safe conv)).
Qed.

Theorem downstream_stream_prefix_toy : forall conv written sent (cs : list dcarrier) recv,
  toy_packets_of conv written sent ->
  (forall c, In c cs -> wire_of (d_ps c) = Some (d_w c) /\ forall p, In p (d_ps c) -> In p sent) ->
  (forall p, In p recv -> exists c, In c cs /\ In p (read_from (d_w c) (d_cut c) (d_sc c))) ->
  is_prefix (toy_stream_of conv recv) written.
Proof.
  intros conv.
  exact (downstream_stream_prefix (toy_packets_of conv) (toy_stream_of conv) (toy_arq_safe conv)).
Qed.
