(* CarrierMultiProofs.v — a session carried over ANY number of carriers (sequential, overlapping, cut anywhere):
   what the server queues for the session is the in-order union of the complete packets decoded from each
   carrier's own byte stream.

   [sent_on i ops]   the bytes the peer sent on carrier i in the schedule [ops] (syntactic: the concatenation of
                     the S_Recv i pieces after the carrier exists);
   [offered ops]     ghost log, in time order, of every packet a read loop handed to QueueIncoming:
                     (carrier, ClientID presented by that carrier, packet).

   - carrier_up_decoded : the packets carrier i queued are EXACTLY the packets decoded (by the one-carrier read
     loop of PacketPathProofs: token, ClientID, chunks) from a prefix of [sent_on i ops] — the whole of it while
     the carrier is alive; the prefix it had read when it was closed otherwise;
   - offered_per_carrier : the log restricted to carrier i is that carrier's decoded packet sequence, in order;
   - queue_is_subsequence_of_offered : what KCP has read or can still read is an in-order subsequence of the
     log (QueueIncoming drops when the bounded queue is full), and the whole log when it never filled up;
   - so the packets under ClientID c are an order-preserving merge of the per-carrier decoded sequences of the
     carriers that presented c: no packet from another session, none invented, none reordered within a carrier. *)
From Coq Require Import List NArith Bool Arith Lia.
From Snow Require Import Lib.Wire Model.Encap Proofs.EncapSweep Proofs.EncapProofs Model.CarrierLayer
  Proofs.CarrierProofs Proofs.CarrierOnceProofs Proofs.CarrierFragProofs.
Import ListNotations.
Open Scope N_scope.

(* ---------- the upstream view of a carrier: pump never looks at the downstream fields ---------- *)

Definition strip (k : carrier) : carrier :=
  {| k_state := k_state k; k_cid := k_cid k; k_buf := k_buf k; k_up := k_up k; k_down := []; k_wire := [] |}.

Lemma pump_strip : forall fuel k, pump fuel (strip k) = (strip (fst (pump fuel k)), snd (pump fuel k)).
Proof.
  induction fuel as [|f IH]; intros k; [reflexivity|].
  rewrite (pump_S f k), (pump_S f (strip k)). cbn [strip k_state k_buf k_cid k_up k_down k_wire].
  destruct (k_state k) eqn:Es.
  - destruct (length (k_buf k) <? 8)%nat; [cbn [fst snd]; unfold strip; rewrite ?Es; reflexivity|].
    destruct (beq (firstn 8 (k_buf k)) TOKEN); [|reflexivity].
    match goal with |- pump f ?A = (_ (fst (pump f ?B)), _) => change A with (strip B) end. apply IH.
  - destruct (length (k_buf k) <? 8)%nat; [cbn [fst snd]; unfold strip; rewrite ?Es; reflexivity|].
    match goal with |- pump f ?A = (_ (fst (pump f ?B)), _) => change A with (strip B) end. apply IH.
  - destruct (parse_one (k_buf k)) as [isd d rest| | |] eqn:Ep; try (cbn [fst snd]; unfold strip; rewrite ?Es; reflexivity).
    match goal with |- context [pump f ?B] =>
      match B with context [k_down k] =>
        match goal with |- context [pump f ?A] =>
          match A with context [k_down k] => fail 1 | _ => change A with (strip B) end end end end.
    match goal with |- context [pump f (strip ?B)] => rewrite (IH B); destruct (pump f B) as [k2 ps2] end.
    reflexivity.
  - cbn [fst snd]. unfold strip. rewrite ?Es. reflexivity.
Qed.

Lemma feed_strip k b : feed (strip k) b = (strip (fst (feed k b)), snd (feed k b)).
Proof.
  unfold feed. cbn [strip k_state]. destruct (k_state k) eqn:Es; try reflexivity;
  (assert (Hm : more (strip k) b = strip (more k b)) by reflexivity; rewrite Hm;
   assert (Hn : need (strip (more k b)) = need (more k b)) by reflexivity; rewrite Hn; apply pump_strip).
Qed.

Lemma strip_kill k : strip (kill k) = kill (strip k).
Proof. reflexivity. Qed.

Lemma strip_idem k : strip (strip k) = strip k.
Proof. reflexivity. Qed.

(* ---------- the bytes sent on carrier i ---------- *)

Definition sent_step (i : nat) (acc : nat * bytes) (o : sop) : nat * bytes :=
  match o with
  | S_New => (S (fst acc), snd acc)
  | S_Recv j b => if (Nat.eqb j i && Nat.ltb i (fst acc))%bool then (fst acc, snd acc ++ b) else acc
  | _ => acc
  end.
Definition sent_acc (i : nat) (ops : list sop) : nat * bytes := fold_left (sent_step i) ops (0%nat, []).
Definition sent_on (i : nat) (ops : list sop) : bytes := snd (sent_acc i ops).

Lemma sent_acc_snoc i ops o : sent_acc i (ops ++ [o]) = sent_step i (sent_acc i ops) o.
Proof. unfold sent_acc. rewrite fold_left_app. reflexivity. Qed.

Lemma sstep_ncarriers s o : length (carriers (sstep s o)) =
  match o with S_New => S (length (carriers s)) | _ => length (carriers s) end.
Proof.
  destruct o; cbn [sstep].
  - cbn. rewrite app_length. cbn. lia.
  - destruct (nth_error (carriers s) i) as [k|]; [|reflexivity].
    destruct (k_state k); try reflexivity; (destruct (pump _ _) as [k' ps]; cbn; apply kupd_length).
  - cbn. apply kupd_length.
  - destruct (length (q_lookup cid (sendqs s)) <? QUEUE_SIZE)%nat; reflexivity.
  - destruct (nth_error (carriers s) i) as [k|]; [|reflexivity].
    destruct (k_state k); try reflexivity. destruct (q_lookup (k_cid k) (sendqs s)); [reflexivity|].
    destruct (write_data b); cbn; apply kupd_length.
  - destruct (recvq s); reflexivity.
Qed.

Lemma sent_acc_count i : forall ops, fst (sent_acc i ops) = length (carriers (srun ops)).
Proof.
  induction ops as [|o ops IH] using rev_ind; [reflexivity|].
  rewrite sent_acc_snoc, srun_app, sstep_ncarriers. unfold sent_step.
  destruct o; try exact IH.
  - cbn [fst]. rewrite IH. reflexivity.
  - destruct (Nat.eqb i0 i && Nat.ltb i (fst (sent_acc i ops)))%bool; exact IH.
Qed.

(* ---------- one carrier's packets = the packets decoded from (a prefix of) its own bytes ---------- *)

(* carrier k (at index i) is explained by the bytes [sent] sent on it: it queued, under the ClientID it presented,
   exactly what the one-carrier read loop decodes from the first n of them; n is all of them — and the upstream view
   IS that read loop's state — as long as the carrier is alive *)
Definition explained (k : carrier) (sent : bytes) : Prop :=
  exists n, (n <= length sent)%nat /\
    k_up k = k_up (fst (feed new_carrier (firstn n sent))) /\
    k_cid k = k_cid (fst (feed new_carrier (firstn n sent))) /\
    (k_state k <> K_Dead -> n = length sent /\ strip k = strip (fst (feed new_carrier sent))).

Lemma feed_up k b : k_up (fst (feed k b)) = k_up k ++ snd (feed k b).
Proof.
  unfold feed. destruct (k_state k) eqn:Es; try (cbn [fst snd]; rewrite app_nil_r; reflexivity);
  (destruct (pump_spec (S (need (more k b))) (more k b)) as [k' [ps [Hp Hok]]]; rewrite Hp; cbn [fst snd];
   apply (po_up _ _ _ Hok)).
Qed.

Lemma feed_dead k b : k_state k = K_Dead -> feed k b = (k, []).
Proof. intros H. unfold feed. rewrite H. reflexivity. Qed.

Lemma feed_new_up s : k_up (fst (feed new_carrier s)) = snd (feed new_carrier s).
Proof. rewrite feed_up. reflexivity. Qed.

Lemma feed_strip_eq k k0 b : strip k = strip k0 ->
  strip (fst (feed k b)) = strip (fst (feed k0 b)) /\ snd (feed k b) = snd (feed k0 b).
Proof.
  intros H. pose proof (feed_strip k b) as A. pose proof (feed_strip k0 b) as B. rewrite H in A. rewrite A in B.
  split; [exact (f_equal fst B) | exact (f_equal snd B)].
Qed.

Lemma strip_fields k k0 : strip k = strip k0 ->
  k_state k = k_state k0 /\ k_cid k = k_cid k0 /\ k_buf k = k_buf k0 /\ k_up k = k_up k0.
Proof. unfold strip. intros H. injection H as -> -> -> ->. repeat split. Qed.

Lemma explained_new : explained new_carrier [].
Proof. exists 0%nat. split; [cbn; lia|]. cbn [firstn]. repeat split. Qed.

Lemma explained_feed k sent b : k_state k <> K_Dead -> explained k sent -> explained (fst (feed k b)) (sent ++ b).
Proof.
  intros Hal [n [Hn [Hup [Hcid Halive]]]]. destruct (Halive Hal) as [-> Hst].
  set (k0 := fst (feed new_carrier sent)) in *.
  assert (Hfa : fst (feed new_carrier (sent ++ b)) = fst (feed k0 b)).
  { rewrite (feed_app new_carrier sent b) by discriminate. unfold k0.
    destruct (feed new_carrier sent) as [k1 ps1]. cbn [fst]. destruct (feed k1 b) as [k2 ps2]. reflexivity. }
  destruct (feed_strip_eq k k0 b Hst) as [Hs2 _].
  destruct (strip_fields _ _ Hs2) as [_ [Hc [_ Hu]]].
  exists (length (sent ++ b)). split; [lia|]. rewrite firstn_all, Hfa.
  split; [exact Hu|]. split; [exact Hc|]. intros _. split; [reflexivity | exact Hs2].
Qed.

Lemma explained_dead_more k sent b : k_state k = K_Dead -> explained k sent -> explained k (sent ++ b).
Proof.
  intros Hd [n [Hn [Hup [Hcid _]]]]. exists n. rewrite firstn_app. replace (n - length sent)%nat with 0%nat by lia.
  cbn [firstn]. rewrite app_nil_r, app_length. split; [lia|]. split; [exact Hup|]. split; [exact Hcid|]. congruence.
Qed.

Lemma explained_kill k sent : explained k sent -> explained (kill k) sent.
Proof.
  intros [n [Hn [Hup [Hcid _]]]]. exists n. split; [exact Hn|]. split; [exact Hup|]. split; [exact Hcid|].
  cbn. congruence.
Qed.

Lemma explained_same_up k k' sent : strip k' = strip k -> explained k sent -> explained k' sent.
Proof.
  intros Hs [n [Hn [Hup [Hcid Hal]]]]. destruct (strip_fields _ _ Hs) as [Hst [Hc [_ Hu]]].
  exists n. split; [exact Hn|]. rewrite Hu, Hc. split; [exact Hup|]. split; [exact Hcid|].
  rewrite Hst, Hs. exact Hal.
Qed.

(* ---------- every carrier of every reachable state is explained by what was sent on it ---------- *)

Lemma sent_on_snoc i ops o : sent_on i (ops ++ [o]) =
  match o with
  | S_Recv j b => if (Nat.eqb j i && Nat.ltb i (length (carriers (srun ops))))%bool then sent_on i ops ++ b else sent_on i ops
  | _ => sent_on i ops
  end.
Proof.
  unfold sent_on. rewrite sent_acc_snoc. unfold sent_step. destruct o; try reflexivity.
  rewrite sent_acc_count. destruct (Nat.eqb i0 i && Nat.ltb i (length (carriers (srun ops))))%bool; reflexivity.
Qed.

Lemma sent_on_fresh i ops : (length (carriers (srun ops)) <= i)%nat -> sent_on i ops = [].
Proof.
  induction ops as [|o ops IH] using rev_ind; intros H; [reflexivity|].
  rewrite srun_app, sstep_ncarriers in H. rewrite sent_on_snoc.
  destruct o; try (apply IH; lia).
  destruct (Nat.ltb_spec i (length (carriers (srun ops)))) as [Hlt|Hge]; [lia|].
  rewrite andb_false_r. apply IH. lia.
Qed.

Theorem carriers_explained : forall ops i k,
  nth_error (carriers (srun ops)) i = Some k -> explained k (sent_on i ops).
Proof.
  induction ops as [|o ops IH] using rev_ind; intros i k Hk.
  { destruct i; discriminate. }
  rewrite srun_app in Hk. rewrite sent_on_snoc. set (s := srun ops) in *.
  destruct o; cbn [sstep] in Hk.
  - (* new *) cbn [carriers] in Hk. destruct (nth_app_new _ _ _ _ Hk) as [Ho|[-> ->]]; [apply IH; exact Ho|].
    rewrite sent_on_fresh by (fold s; lia). apply explained_new.
  - (* recv *) destruct (nth_error (carriers s) i0) as [k0|] eqn:Hk0.
    2:{ assert (Hb : (Nat.eqb i0 i && Nat.ltb i (length (carriers s)))%bool = false).
        { destruct (Nat.eqb_spec i0 i) as [->|_]; [|reflexivity]. cbn.
          apply Nat.ltb_ge. apply nth_error_None. exact Hk0. }
        rewrite Hb. apply IH. exact Hk. }
    assert (Hlt0 : (i0 < length (carriers s))%nat) by (apply nth_error_Some; congruence).
    destruct (Nat.eq_dec i0 i) as [->|Hne].
    + rewrite Nat.eqb_refl. cbn [andb]. destruct (Nat.ltb_spec i (length (carriers s))) as [_|Hc]; [|lia].
      pose proof (IH i k0 Hk0) as He.
      destruct (k_state k0) eqn:Es;
        try (rewrite (recv_is_feed k0 b) in Hk by congruence;
             destruct (feed k0 b) as [k' ps] eqn:Hf; cbn [carriers] in Hk;
             rewrite (knth_upd_eq _ _ _ _ Hk0) in Hk; injection Hk as <-;
             replace k' with (fst (feed k0 b)) by (rewrite Hf; reflexivity);
             apply explained_feed; [congruence | exact He]).
      rewrite Hk0 in Hk. injection Hk as <-. apply explained_dead_more; assumption.
    + assert (Hb : (Nat.eqb i0 i && Nat.ltb i (length (carriers s)))%bool = false).
      { destruct (Nat.eqb_spec i0 i) as [E|_]; [congruence | reflexivity]. }
      rewrite Hb. apply IH.
      destruct (k_state k0); try exact Hk;
        (destruct (pump _ _) as [k' ps]; cbn [carriers] in Hk; rewrite knth_upd_neq in Hk by exact Hne; exact Hk).
  - (* close *) cbn [carriers] in Hk. destruct (knth_upd_inv _ _ _ _ _ Hk) as [[<- [x [Hx ->]]]|[Hne Hk']].
    + apply explained_kill. apply IH. exact Hx.
    + apply IH. exact Hk'.
  - (* writeto *) apply IH. destruct (length (q_lookup cid (sendqs s)) <? QUEUE_SIZE)%nat; exact Hk.
  - (* send *) destruct (nth_error (carriers s) i0) as [k0|] eqn:Hk0; [|apply IH; exact Hk].
    destruct (k_state k0) eqn:Es; try (apply IH; exact Hk).
    destruct (q_lookup (k_cid k0) (sendqs s)) as [|p q']; [apply IH; exact Hk|].
    destruct (write_data p) as [w|]; cbn [carriers] in Hk;
      (destruct (knth_upd_inv _ _ _ _ _ Hk) as [[<- [x [Hx ->]]]|[Hne Hk']]; [|apply IH; exact Hk']).
    + eapply explained_same_up; [|apply IH; exact Hx]. rewrite Hk0 in Hx. injection Hx as <-.
      unfold strip. cbn. rewrite Es. reflexivity.
    + apply explained_kill. apply IH. exact Hx.
  - (* readfrom *) apply IH. destruct (recvq s); exact Hk.
Qed.

(* the one-carrier read loop of PacketPathProofs ([queued_from], [upstream_cut]) is [feed new_carrier] *)
Lemma feed_new_is_pump s : feed new_carrier s = pump (S (S (S (length s)))) (with_buf s new_carrier).
Proof.
  rewrite feed_alive by discriminate. apply pump_fuel; unfold need, more, with_buf; cbn; lia.
Qed.

(* Theorem (one carrier among many): the packets carrier i queued are exactly those decoded from a prefix of the
   bytes sent on it, and while it is alive from all of them. *)
Theorem carrier_up_decoded : forall ops i k,
  nth_error (carriers (srun ops)) i = Some k ->
  exists n, (n <= length (sent_on i ops))%nat /\
    (k_state k <> K_Dead -> n = length (sent_on i ops)) /\
    let s := firstn n (sent_on i ops) in
    k_up k = snd (pump (S (S (S (length s)))) (with_buf s new_carrier)) /\
    k_cid k = k_cid (fst (pump (S (S (S (length s)))) (with_buf s new_carrier))).
Proof.
  intros ops i k Hk. destruct (carriers_explained ops i k Hk) as [n [Hn [Hup [Hcid Hal]]]].
  exists n. split; [exact Hn|]. split; [intros H; apply (Hal H)|]. cbn zeta.
  rewrite <- feed_new_is_pump. rewrite <- feed_new_up. split; assumption.
Qed.

(* ---------- the log of everything offered to QueueIncoming ---------- *)

Definition offer_of (s : sstate) (o : sop) : list (nat * bytes * bytes) :=
  match o with
  | S_Recv i b =>
      match nth_error (carriers s) i with
      | Some k => map (fun p => (i, k_cid (fst (feed k b)), p)) (snd (feed k b))
      | None => []
      end
  | _ => []
  end.

Definition ostep (acc : sstate * list (nat * bytes * bytes)) (o : sop) : sstate * list (nat * bytes * bytes) :=
  (sstep (fst acc) o, snd acc ++ offer_of (fst acc) o).
Definition orun (ops : list sop) := fold_left ostep ops (sinit, []).
Definition offered (ops : list sop) : list (nat * bytes * bytes) := snd (orun ops).

Lemma orun_snoc ops o : orun (ops ++ [o]) = ostep (orun ops) o.
Proof. unfold orun. rewrite fold_left_app. reflexivity. Qed.

Lemma orun_fst : forall ops, fst (orun ops) = srun ops.
Proof.
  induction ops as [|o ops IH] using rev_ind; [reflexivity|].
  rewrite orun_snoc, srun_app. unfold ostep. cbn [fst]. rewrite IH. reflexivity.
Qed.

Lemma offered_snoc ops o : offered (ops ++ [o]) = offered ops ++ offer_of (srun ops) o.
Proof. unfold offered. rewrite orun_snoc. unfold ostep. cbn [snd]. rewrite orun_fst. reflexivity. Qed.

Definition from_carrier (i : nat) (x : nat * bytes * bytes) : bool := Nat.eqb (fst (fst x)) i.
Definition pkts_of (l : list (nat * bytes * bytes)) : list bytes := map snd l.

Lemma filter_map_const_true {A} (f : A -> nat * bytes * bytes) i l :
  (forall x, from_carrier i (f x) = true) -> filter (from_carrier i) (map f l) = map f l.
Proof. intros H. induction l as [|x l IH]; cbn; [reflexivity|]. rewrite H, IH. reflexivity. Qed.
Lemma filter_map_const_false {A} (f : A -> nat * bytes * bytes) i l :
  (forall x, from_carrier i (f x) = false) -> filter (from_carrier i) (map f l) = [].
Proof. intros H. induction l as [|x l IH]; cbn; [reflexivity|]. rewrite H, IH. reflexivity. Qed.

(* the S_Recv step in terms of feed *)
Lemma sstep_recv_feed s i b k : nth_error (carriers s) i = Some k ->
  sstep s (S_Recv i b) =
  {| carriers := kupd i (fun _ => fst (feed k b)) (carriers s);
     recvq := enqueue_all (k_cid (fst (feed k b))) (snd (feed k b)) (recvq s);
     sendqs := sendqs s; accepted := accepted s; delivered := delivered s; consumed := consumed s |}.
Proof.
  intros Hk. cbn [sstep]. rewrite Hk. destruct (k_state k) eqn:Es;
    try (rewrite (recv_is_feed k b) by congruence; destruct (feed k b) as [k' ps]; reflexivity).
  rewrite (feed_dead k b Es). cbn [fst snd enqueue_all].
  destruct s as [cs rq sq ac dl cn]. cbn. f_equal.
  clear - Hk. revert i Hk. induction cs as [|x cs IH]; intros [|i] H; cbn in *; try discriminate.
  - injection H as ->. reflexivity.
  - f_equal. apply IH. exact H.
Qed.

(* every log entry names an existing carrier *)
Lemma offered_index_range : forall ops j c p, In (j, c, p) (offered ops) -> (j < length (carriers (srun ops)))%nat.
Proof.
  induction ops as [|o ops IH] using rev_ind; [intros j c p []|].
  intros j c p Hin. rewrite offered_snoc in Hin. rewrite srun_app, sstep_ncarriers.
  apply in_app_or in Hin. destruct Hin as [Hin|Hin].
  - specialize (IH j c p Hin). destruct o; lia.
  - destruct o; try destruct Hin. cbn [offer_of] in Hin.
    destruct (nth_error (carriers (srun ops)) i) as [k0|] eqn:Hk0; [|destruct Hin].
    apply in_map_iff in Hin. destruct Hin as [p' [E _]]. injection E as <- _ _.
    apply nth_error_Some. congruence.
Qed.

(* Theorem: the log restricted to carrier i is, in order, the packets that carrier queued. *)
Theorem offered_per_carrier : forall ops i k,
  nth_error (carriers (srun ops)) i = Some k ->
  pkts_of (filter (from_carrier i) (offered ops)) = k_up k.
Proof.
  induction ops as [|o ops IH] using rev_ind; intros i k Hk.
  { destruct i; discriminate. }
  rewrite offered_snoc. unfold pkts_of. rewrite filter_app, map_app. fold (pkts_of (filter (from_carrier i) (offered ops))).
  rewrite srun_app in Hk. set (s := srun ops) in *.
  destruct o.
  - (* new *) cbn [offer_of filter map]. rewrite app_nil_r. cbn [sstep carriers] in Hk.
    destruct (nth_app_new _ _ _ _ Hk) as [Ho|[-> ->]]; [apply IH; exact Ho|].
    cbn [new_carrier k_up].
    assert (G : forall l, (forall j c p, In (j, c, p) l -> (j < length (carriers s))%nat) ->
                pkts_of (filter (from_carrier (length (carriers s))) l) = []).
    { induction l as [|[[j c] p] l IHl]; intros H; [reflexivity|]. cbn [filter]. unfold from_carrier at 1. cbn [fst].
      destruct (Nat.eqb_spec j (length (carriers s))) as [E|_].
      - specialize (H j c p (or_introl eq_refl)). lia.
      - apply IHl. intros j' c' p' Hin. apply (H j' c' p'). right. exact Hin. }
    apply G. apply offered_index_range.
  - (* recv *) cbn [offer_of]. destruct (nth_error (carriers s) i0) as [k0|] eqn:Hk0.
    2:{ cbn [filter map]. rewrite app_nil_r. apply IH. cbn [sstep] in Hk. rewrite Hk0 in Hk. exact Hk. }
    rewrite (sstep_recv_feed s i0 b k0 Hk0) in Hk. cbn [carriers] in Hk.
    destruct (knth_upd_inv _ _ _ _ _ Hk) as [[<- [x [Hx ->]]]|[Hne Hk']].
    + rewrite filter_map_const_true by (intros x0; unfold from_carrier; cbn [fst]; apply Nat.eqb_refl).
      rewrite map_map. cbn [snd]. rewrite map_id. rewrite (IH i0 k0 Hk0). symmetry. apply feed_up.
    + rewrite filter_map_const_false by (intros x0; unfold from_carrier; cbn [fst]; apply Nat.eqb_neq; exact Hne).
      cbn [map]. rewrite app_nil_r. apply IH. exact Hk'.
  - (* close *) cbn [offer_of filter map]. rewrite app_nil_r. cbn [sstep carriers] in Hk.
    destruct (knth_upd_inv _ _ _ _ _ Hk) as [[<- [x [Hx ->]]]|[Hne Hk']]; [cbn [kill k_up]; apply IH; exact Hx | apply IH; exact Hk'].
  - (* writeto *) cbn [offer_of filter map]. rewrite app_nil_r. apply IH. cbn [sstep] in Hk.
    destruct (length (q_lookup cid (sendqs s)) <? QUEUE_SIZE)%nat; exact Hk.
  - (* send *) cbn [offer_of filter map]. rewrite app_nil_r. cbn [sstep] in Hk.
    destruct (nth_error (carriers s) i0) as [k0|] eqn:Hk0; [|apply IH; exact Hk].
    destruct (k_state k0) eqn:Es; try (apply IH; exact Hk).
    destruct (q_lookup (k_cid k0) (sendqs s)) as [|p q']; [apply IH; exact Hk|].
    destruct (write_data p) as [w|]; cbn [carriers] in Hk;
      (destruct (knth_upd_inv _ _ _ _ _ Hk) as [[<- [x [Hx ->]]]|[Hne Hk']]; [|apply IH; exact Hk']);
      cbn [kill k_up]; apply IH; exact Hx.
  - (* readfrom *) cbn [offer_of filter map]. rewrite app_nil_r. apply IH. cbn [sstep] in Hk. destruct (recvq s); exact Hk.
Qed.

(* ---------- what KCP reads is an in-order subsequence of the log ---------- *)

Inductive subseq {A} : list A -> list A -> Prop :=
| sub_nil : subseq [] []
| sub_take x a b : subseq a b -> subseq (x :: a) (x :: b)
| sub_skip x a b : subseq a b -> subseq a (x :: b).

Lemma subseq_refl {A} (l : list A) : subseq l l.
Proof. induction l; constructor; assumption. Qed.
Lemma subseq_nil_l {A} (l : list A) : subseq [] l.
Proof. induction l; constructor; assumption. Qed.
Lemma subseq_app {A} (a b c d : list A) : subseq a b -> subseq c d -> subseq (a ++ c) (b ++ d).
Proof. intros H. induction H; intros Hc; cbn [app]; try constructor; auto. Qed.
Lemma subseq_in {A} (a b : list A) x : subseq a b -> In x a -> In x b.
Proof. intros H. induction H; cbn; intros Hin; [destruct Hin | destruct Hin; [left|right]; auto | right; auto]. Qed.
Lemma subseq_length {A} (a b : list A) : subseq a b -> (length a <= length b)%nat.
Proof. intros H. induction H; cbn; lia. Qed.
Lemma subseq_filter {A} (f : A -> bool) (a b : list A) : subseq a b -> subseq (filter f a) (filter f b).
Proof.
  intros H. induction H; cbn [filter]; [constructor| |].
  - destruct (f x); [constructor|]; assumption.
  - destruct (f x); [constructor|]; assumption.
Qed.
Lemma subseq_map {A B} (f : A -> B) (a b : list A) : subseq a b -> subseq (map f a) (map f b).
Proof. intros H. induction H; cbn [map]; constructor; assumption. Qed.

Definition tag_of (x : nat * bytes * bytes) : bytes * bytes := (snd x, snd (fst x)).

Lemma enqueue_all_subseq cid : forall ps q, exists ps',
  subseq ps' ps /\ enqueue_all cid ps q = q ++ map (fun p => (p, cid)) ps'.
Proof.
  induction ps as [|p ps IH]; intros q; cbn [enqueue_all].
  - exists []. split; [constructor | rewrite app_nil_r; reflexivity].
  - destruct (length q <? QUEUE_SIZE)%nat.
    + destruct (IH (q ++ [(p, cid)])) as [ps' [Hs He]]. exists (p :: ps'). split; [constructor; exact Hs|].
      rewrite He, <- app_assoc. reflexivity.
    + destruct (IH q) as [ps' [Hs He]]. exists ps'. split; [constructor; exact Hs | exact He].
Qed.

Lemma enqueue_all_room cid : forall ps q, (length q + length ps <= QUEUE_SIZE)%nat ->
  enqueue_all cid ps q = q ++ map (fun p => (p, cid)) ps.
Proof.
  induction ps as [|p ps IH]; intros q H; cbn [enqueue_all map]; [rewrite app_nil_r; reflexivity|].
  cbn [length] in H. destruct (Nat.ltb_spec (length q) QUEUE_SIZE) as [_|Hc]; [|lia].
  rewrite IH by (rewrite app_length; cbn; lia). rewrite <- app_assoc. reflexivity.
Qed.

Definition surfaced (s : sstate) : list (bytes * bytes) := delivered s ++ recvq s.

Theorem queue_is_subsequence_of_offered : forall ops,
  subseq (surfaced (srun ops)) (map tag_of (offered ops)).
Proof.
  induction ops as [|o ops IH] using rev_ind; [constructor|].
  rewrite offered_snoc, srun_app, map_app. set (s := srun ops) in *. unfold surfaced in *.
  destruct o.
  - cbn. rewrite app_nil_r. exact IH.
  - cbn [offer_of]. destruct (nth_error (carriers s) i) as [k|] eqn:Hk.
    2:{ cbn [sstep]. rewrite Hk. cbn [map]. rewrite app_nil_r. exact IH. }
    rewrite (sstep_recv_feed s i b k Hk). cbn [delivered recvq].
    destruct (enqueue_all_subseq (k_cid (fst (feed k b))) (snd (feed k b)) (recvq s)) as [ps' [Hs He]].
    rewrite He, app_assoc. apply subseq_app; [exact IH|].
    rewrite map_map. unfold tag_of. cbn [fst snd].
    apply (subseq_map (fun p => (p, k_cid (fst (feed k b))))). exact Hs.
  - cbn. rewrite app_nil_r. exact IH.
  - cbn [offer_of map]. rewrite app_nil_r. cbn [sstep].
    destruct (length (q_lookup cid (sendqs s)) <? QUEUE_SIZE)%nat; exact IH.
  - cbn [offer_of map]. rewrite app_nil_r. cbn [sstep].
    destruct (nth_error (carriers s) i) as [k|]; [|exact IH].
    destruct (k_state k); try exact IH. destruct (q_lookup (k_cid k) (sendqs s)); [exact IH|].
    destruct (write_data b); exact IH.
  - cbn [offer_of map]. rewrite app_nil_r. cbn [sstep].
    destruct (recvq s) as [|x q'] eqn:Er; [rewrite Er; exact IH|]. cbn [delivered recvq].
    rewrite <- app_assoc. exact IH.
Qed.

(* when the bounded receive queue never filled up (at most queueSize packets offered in total is a simple
   sufficient condition) nothing was dropped: KCP sees the whole log, in order *)
Theorem queue_is_offered_when_room : forall ops,
  (length (offered ops) <= QUEUE_SIZE)%nat -> surfaced (srun ops) = map tag_of (offered ops).
Proof.
  induction ops as [|o ops IH] using rev_ind; [reflexivity|].
  rewrite offered_snoc, srun_app, map_app, app_length. set (s := srun ops) in *. unfold surfaced in *.
  intros Hlen. specialize (IH ltac:(lia)).
  destruct o.
  - cbn. rewrite app_nil_r. exact IH.
  - cbn [offer_of] in *. destruct (nth_error (carriers s) i) as [k|] eqn:Hk.
    2:{ cbn [sstep]. rewrite Hk. cbn [map]. rewrite app_nil_r. exact IH. }
    rewrite (sstep_recv_feed s i b k Hk). cbn [delivered recvq].
    rewrite map_length in Hlen.
    assert (Hq : (length (recvq s) <= length (offered ops))%nat).
    { pose proof (f_equal (@length _) IH) as L. rewrite app_length, map_length in L. lia. }
    rewrite enqueue_all_room by lia. rewrite app_assoc, IH. f_equal.
    rewrite map_map. reflexivity.
  - cbn. rewrite app_nil_r. exact IH.
  - cbn [offer_of map]. rewrite app_nil_r. cbn [sstep].
    destruct (length (q_lookup cid (sendqs s)) <? QUEUE_SIZE)%nat; exact IH.
  - cbn [offer_of map]. rewrite app_nil_r. cbn [sstep].
    destruct (nth_error (carriers s) i) as [k|]; [|exact IH].
    destruct (k_state k); try exact IH. destruct (q_lookup (k_cid k) (sendqs s)); [exact IH|].
    destruct (write_data b); exact IH.
  - cbn [offer_of map]. rewrite app_nil_r. cbn [sstep].
    destruct (recvq s) as [|x q'] eqn:Er; [rewrite Er; exact IH|]. cbn [delivered recvq].
    rewrite <- app_assoc. exact IH.
Qed.

(* every log entry carries the ClientID its carrier presented, and that carrier presented token and ClientID *)
Theorem offered_tagged_by_presented_id : forall ops i c p,
  In (i, c, p) (offered ops) ->
  exists k, nth_error (carriers (srun ops)) i = Some k /\ k_cid k = c /\ ~ pre_open k /\ In p (k_up k).
Proof.
  induction ops as [|o ops IH] using rev_ind; intros i c p Hin; [destruct Hin|].
  rewrite offered_snoc in Hin. rewrite srun_app. set (s := srun ops) in *.
  apply in_app_or in Hin. destruct Hin as [Hin|Hin].
  - destruct (IH i c p Hin) as [k [Hk [Hc [Hnp Hu]]]].
    assert (Hkill : exists k', nth_error (kupd i kill (carriers s)) i = Some k' /\ k_cid k' = c /\ ~ pre_open k' /\ In p (k_up k')).
    { exists (kill k). split; [apply knth_upd_eq; exact Hk|]. repeat split; try assumption.
      unfold pre_open; cbn. intros [H|H]; discriminate. }
    destruct o; [cbn [sstep] | | cbn [sstep] ..].
    + exists k. cbn [carriers]. rewrite nth_error_app1 by (apply nth_error_Some; congruence). repeat split; assumption.
    + destruct (nth_error (carriers s) i0) as [k0|] eqn:Hk0; [|cbn [sstep]; rewrite Hk0; exists k; repeat split; assumption].
      rewrite (sstep_recv_feed s i0 b k0 Hk0). cbn [carriers].
      destruct (Nat.eq_dec i0 i) as [->|Hne].
      * rewrite Hk in Hk0. injection Hk0 as <-. exists (fst (feed k b)).
        split; [apply knth_upd_eq with (x := k); exact Hk|].
        assert (Hnp' : ~ pre_open (fst (feed k b)) /\ k_cid (fst (feed k b)) = k_cid k).
        { unfold feed. destruct (k_state k) eqn:Es; try (exfalso; apply Hnp; unfold pre_open; tauto).
          - destruct (pump_spec (S (need (more k b))) (more k b)) as [k' [ps [Hp Hok]]]. rewrite Hp. cbn [fst]. split.
            + intros Hpre. destruct (po_pre _ _ _ Hok Hpre) as [_ [H|H]]; cbn in H; congruence.
            + apply (po_cid _ _ _ Hok). left. exact Es.
          - cbn [fst]. split; [exact Hnp | reflexivity]. }
        destruct Hnp' as [A B]. split; [congruence|]. split; [exact A|].
        rewrite feed_up. apply in_or_app. left. exact Hu.
      * exists k. split; [rewrite knth_upd_neq by exact Hne; exact Hk|]. repeat split; assumption.
    + cbn [carriers]. destruct (Nat.eq_dec i0 i) as [->|Hne]; [exact Hkill|].
      exists k. split; [rewrite knth_upd_neq by exact Hne; exact Hk|]. repeat split; assumption.
    + destruct (length (q_lookup cid (sendqs s)) <? QUEUE_SIZE)%nat; exists k; repeat split; assumption.
    + destruct (nth_error (carriers s) i0) as [k0|] eqn:Hk0; [|exists k; repeat split; assumption].
      destruct (k_state k0) eqn:Es; try (exists k; repeat split; assumption).
      destruct (q_lookup (k_cid k0) (sendqs s)) as [|p0 q']; [exists k; repeat split; assumption|].
      destruct (write_data p0) as [w|]; cbn [carriers].
      * destruct (Nat.eq_dec i0 i) as [->|Hne].
        -- rewrite Hk in Hk0. injection Hk0 as <-. eexists. split; [apply knth_upd_eq; exact Hk|]. cbn.
           repeat split; try assumption. unfold pre_open; cbn. intros [H|H]; discriminate.
        -- exists k. split; [rewrite knth_upd_neq by exact Hne; exact Hk|]. repeat split; assumption.
      * destruct (Nat.eq_dec i0 i) as [->|Hne]; [exact Hkill|].
        exists k. split; [rewrite knth_upd_neq by exact Hne; exact Hk|]. repeat split; assumption.
    + destruct (recvq s); exists k; repeat split; assumption.
  - destruct o; try destruct Hin. cbn [offer_of] in Hin.
    destruct (nth_error (carriers s) i0) as [k0|] eqn:Hk0; [|destruct Hin].
    apply in_map_iff in Hin. destruct Hin as [p' [E Hp']]. injection E as <- <- <-.
    rewrite (sstep_recv_feed s i0 b k0 Hk0). cbn [carriers].
    exists (fst (feed k0 b)). split; [apply knth_upd_eq with (x := k0); exact Hk0|]. split; [reflexivity|].
    split.
    + unfold feed in *. destruct (k_state k0) eqn:Es; try (cbn [snd] in Hp'; destruct Hp');
        (destruct (pump_spec (S (need (more k0 b))) (more k0 b)) as [k' [ps [Hp Hok]]]; rewrite Hp in *; cbn [fst snd] in *;
         intros Hpre; destruct (po_pre _ _ _ Hok Hpre) as [Hnil _]; subst ps; destruct Hp').
    + rewrite feed_up. apply in_or_app. right. exact Hp'.
Qed.
