(* PeersRetryProofs.v — "a failed attempt to obtain a peer is reported and retried later" over the Peers
   interleaving machine (coq/Model/Peers.v).  A failed attempt = the in-flight Catch returning an error
   (label Catch_err; Collect then returns R_Fail to connectLoop, which logs it and comes round again).
   Proved here: the failure changes nothing but the collector's program counter; the collector gets back
   to idle with the lock free; from idle a new attempt is enabled whenever the collection has not been
   ended and the pool is below its maximum - which it always is right after a failure; and no number of
   failures leaves any trace in the state (nothing latches, no capacity is used up). *)
From Coq Require Import List Arith Bool Lia.
From Snow Require Import Model.Peers Proofs.PeersProofs.
Import ListNotations.

(* ---------------------------------------------------------------- the failing step itself *)

Lemma catch_err_effect : forall v s s', step v s Catch_err = Some s' ->
  col s = C_Catching /\ s' = set_col s (C_Unlock R_Fail).
Proof. intros v s s' H. step_inv H. split; reflexivity. Qed.

(* ---------------------------------------------------------------- room after a failure *)

Definition failing (c : col_pc) : bool :=
  match c with C_Unlock R_Fail | C_Done R_Fail => true | _ => false end.

(* while Collect is on its way out with the error, the pool is strictly below its maximum: the slot the
   attempt had reserved is free again *)
Definition inv_failroom (s : state) : Prop := failing (col s) = true -> length (active s) < cap s.

Lemma inv_failroom_step : forall v s l s', inv_bound s -> inv_failroom s -> step v s l = Some s' -> inv_failroom s'.
Proof.
  intros v s l s' Hb Hf H. unfold inv_failroom, inv_bound in *.
  destruct l; step_inv H; cbn in *; intros Hc; try discriminate; try (apply Hf; assumption);
    try (rewrite Heqc in *; cbn in *; try discriminate; try lia; apply Hf; assumption).
  - (* Catch_err: the slot reserved for the attempt is free again *) lia.
  - (* End_closepeers *) specialize (Hf Hc). lia.
Qed.

Lemma reach_failroom : forall v max s, reachable v max s -> inv_failroom s.
Proof.
  intros v max s R. induction R.
  - unfold inv_failroom. cbn. discriminate.
  - eapply inv_failroom_step; eauto. eapply reach_bound; eauto.
Qed.

(* ---------------------------------------------------------------- back to idle, lock free *)

Lemma failure_returns_idle : forall v max s, reachable v max s -> panicked s = false -> col s = C_Unlock R_Fail ->
  exists s', run v s [Col_unlock; Col_return] = Some s' /\ s' = set_col (set_lock s None) C_Idle /\
             lock s = Some T_Col.
Proof.
  intros v max s R Hp Hc. pose proof (reach_lock _ _ _ R) as [Hl _].
  rewrite Hc in Hl. specialize (Hl eq_refl).
  eexists. split; [|split; [reflexivity|exact Hl]].
  cbn [run]. unfold step at 1. rewrite Hp, Hc.
  unfold step. cbn. rewrite Hp. reflexivity.
Qed.

(* ---------------------------------------------------------------- a new attempt is enabled *)

Lemma idle_unmelted_lock_free : forall v max s, reachable v max s -> melted s = false -> col s = C_Idle ->
  lock s = None.
Proof.
  intros v max s R Hm Hc.
  pose proof (reach_lock2 _ _ _ R) as [L1 L2]. pose proof (reach_end _ _ _ R) as (_ & _ & E3 & _).
  destruct (lock s) as [[|j]|] eqn:El; [| |reflexivity].
  - specialize (L1 eq_refl). rewrite Hc in L1. discriminate.
  - destruct (L2 j eq_refl) as (e & He & Hcr).
    assert (melted s = true) by (apply (E3 j e He); destruct e; cbn in *; congruence). congruence.
Qed.

(* From EVERY reachable state in which the collection has not been ended (melt open) and the collector is
   between two calls of Collect: Collect gets the lock at once, and its check starts a rendezvous attempt
   exactly when fewer than Max peers are held - whatever happened before (any number of failed attempts:
   the statement quantifies over all reachable states). *)
Lemma retry_enabled : forall v max s, reachable v max s -> panicked s = false -> melted s = false -> col s = C_Idle ->
  exists s1 s2, step v s Col_lock = Some s1 /\ step v s1 Col_check = Some s2 /\
    (length (filter (live s) (active s)) < max -> col s2 = C_Catching) /\
    (max <= length (filter (live s) (active s)) -> col s2 = C_Unlock R_AtCap).
Proof.
  intros v max s R Hp Hm Hc.
  pose proof (idle_unmelted_lock_free _ _ _ R Hm Hc) as Hl. pose proof (reach_cap _ _ _ R) as Hcap.
  unfold step. rewrite Hp, Hc, Hl. eexists.
  destruct (max <=? length (filter (live s) (active s))) eqn:E; eexists; (split; [reflexivity|]);
    cbn; rewrite Hp, Hm, Hcap; change (live (set_col (set_lock s (Some T_Col)) C_Locked)) with (live s); rewrite E.
  - split; [reflexivity|]. apply Nat.leb_le in E. split; intros; [lia|reflexivity].
  - split; [reflexivity|]. apply Nat.leb_gt in E. split; intros; [reflexivity|lia].
Qed.

Lemma filter_length_le : forall A (f : A -> bool) l, length (filter f l) <= length l.
Proof. induction l; simpl; [lia|]. destruct (f a); simpl; lia. Qed.

(* Right after a failed attempt there is always room: unless the collection is ended meanwhile, the next
   four steps of the collector (unlock, return to connectLoop, Collect again, check) put a new rendezvous
   attempt in flight. *)
Lemma retry_after_failure : forall v max s, reachable v max s -> panicked s = false -> melted s = false ->
  col s = C_Unlock R_Fail ->
  exists s', run v s [Col_unlock; Col_return; Col_lock; Col_check] = Some s' /\ col s' = C_Catching /\
             next_peer s' = next_peer s /\ chan s' = chan s /\ closedf s' = closedf s /\
             active s' = filter (live s) (active s).
Proof.
  intros v max s R Hp Hm Hc.
  pose proof (reach_failroom _ _ _ R) as Hr. unfold inv_failroom in Hr. rewrite Hc in Hr. specialize (Hr eq_refl).
  pose proof (filter_length_le _ (live s) (active s)) as Hle.
  cbn [run]. unfold step. rewrite Hp, Hc. cbn. rewrite Hp. cbn. rewrite Hp. cbn. rewrite Hp, Hm.
  assert (E : (cap s <=? length (filter (live (set_col (set_lock (set_col (set_col (set_lock s None) (C_Done R_Fail)) C_Idle) (Some T_Col)) C_Locked))
                                        (active s))) = false).
  { apply Nat.leb_gt. change (length (filter (live s) (active s)) < cap s). lia. }
  cbn in E. cbn. rewrite E. eexists. split; [reflexivity|]. cbn. repeat split; reflexivity.
Qed.

(* ---------------------------------------------------------------- failures leave no trace *)

Definition collect_fail : list label := [Col_lock; Col_check; Catch_err; Col_unlock; Col_return].

Fixpoint times (k : nat) (tr : list label) : list label :=
  match k with O => [] | S k' => tr ++ times k' tr end.

(* Count()'s purge is the only thing a failed Collect does to the state *)
Definition purged (s : state) : state := set_active s (filter (live s) (active s)).

Definition can_attempt (s : state) : Prop :=
  col s = C_Idle /\ lock s = None /\ melted s = false /\ panicked s = false /\
  length (filter (live s) (active s)) < cap s.

Lemma filter_idem : forall A (f : A -> bool) l, filter f (filter f l) = filter f l.
Proof.
  induction l as [|a l IH]; simpl; [reflexivity|]. destruct (f a) eqn:E; simpl; [rewrite E, IH|]; auto.
Qed.

Lemma purged_idem : forall s, purged (purged s) = purged s.
Proof.
  intros s. unfold purged, set_active. cbn.
  change (live (mk (cap s) (chan s) (chan_closed s) (filter (live s) (active s)) (closedf s) (melted s) (lock s)
                   (col s) (pops s) (ends s) (once s) (next_peer s) (panicked s))) with (live s).
  rewrite filter_idem. reflexivity.
Qed.

Lemma can_attempt_purged : forall s, can_attempt s -> can_attempt (purged s).
Proof.
  intros s (H1 & H2 & H3 & H4 & H5). unfold can_attempt, purged, set_active. cbn.
  change (live (mk (cap s) (chan s) (chan_closed s) (filter (live s) (active s)) (closedf s) (melted s) (lock s)
                   (col s) (pops s) (ends s) (once s) (next_peer s) (panicked s))) with (live s).
  rewrite filter_idem. auto.
Qed.

Lemma one_failure : forall v s, can_attempt s -> run v s collect_fail = Some (purged s).
Proof.
  intros v s (H1 & H2 & H3 & H4 & H5).
  destruct s as [cp ch cc ac cf me lk co po en on np pa]. cbn in H1, H2, H3, H4, H5. subst.
  unfold collect_fail, purged, set_active. cbn [run].
  unfold step at 1. cbn.
  apply Nat.leb_gt in H5. unfold live in *. cbn in *. rewrite H5. cbn. reflexivity.
Qed.

(* k failed attempts in a row, k >= 1, leave exactly the state one purge leaves - for every k: nothing
   counts failures, nothing is used up - and the next attempt can start *)
Lemma failures_leave_no_trace : forall v k s, can_attempt s ->
  run v s (times (S k) collect_fail) = Some (purged s) /\ can_attempt (purged s).
Proof.
  intros v k. induction k as [|k IH]; intros s Hs.
  - cbn [times]. rewrite app_nil_r. split; [apply one_failure; exact Hs | apply can_attempt_purged; exact Hs].
  - change (times (S (S k)) collect_fail) with (collect_fail ++ times (S k) collect_fail).
    assert (Hrun : forall tr1 tr2 s0 s1, run v s0 tr1 = Some s1 -> run v s0 (tr1 ++ tr2) = run v s1 tr2).
    { induction tr1 as [|l tr1 IH1]; intros tr2 s0 s1 H; cbn in *.
      - inversion H; subst. reflexivity.
      - destruct (step v s0 l); [|discriminate]. apply IH1. exact H. }
    rewrite (Hrun _ _ _ _ (one_failure v s Hs)).
    destruct (IH (purged s) (can_attempt_purged s Hs)) as [E C]. rewrite purged_idem in E, C. split; assumption.
Qed.

(* a reachable state in which the premises of the lemmas hold: Max 2, one peer held, the second attempt failing *)
Definition trace_one_held_then_failing : list label := collect_ok ++ [Col_lock; Col_check; Catch_err].

Lemma ex_failing_reachable : exists s, reachable V1 2 s /\ col s = C_Unlock R_Fail /\ melted s = false /\
  panicked s = false /\ length (live_peers s) = 1.
Proof.
  destruct (run V1 (init 2) trace_one_held_then_failing) as [s|] eqn:E; [|vm_compute in E; discriminate].
  exists s. split; [eapply run_reachable; [apply reach_init|exact E]|].
  vm_compute in E. inversion E; subst. repeat split; reflexivity.
Qed.

Lemma ex_can_attempt : can_attempt (init 1) /\ exists s, run V1 (init 2) collect_ok = Some s /\ can_attempt s.
Proof.
  split; [unfold can_attempt; cbn; repeat split; lia|].
  eexists. split; [vm_compute; reflexivity|]. unfold can_attempt. cbn. repeat split; lia.
Qed.
