(* C07Proofs.v — instantiation of the generic results on the GENERATED safelog patterns
   (Gen/SafelogPatterns.v, rewritten from the Go source by every run of the check) and the
   refutations for the pinned algorithm on the frozen pinned patterns (Model/SafelogPinned.v). *)
From Coq Require Import List NArith Bool Arith Lia.
From Coq Require String.
From Snow Require Import Lib.Wire Model.Regex Model.RegexIncl Model.Scrub Model.SafelogPinned Gen.SafelogPatterns.
From Snow Require Import Proofs.RegexProofs Proofs.MatcherProofs Proofs.ScrubProofs.
Import ListNotations.
Open Scope nat_scope.

(* ---------------------------------------------------------------- the generated pattern *)

Definition the_full : re := match full_patterns with [f] => f | _ => Emp end.
Definition pat_L : re := match the_full with Seq l (Seq (Grp 1 _) _) => l | _ => Emp end.
Definition pat_A : re := match the_full with Seq _ (Seq (Grp 1 a) _) => a | _ => Emp end.
Definition pat_R : re := match the_full with Seq _ (Seq (Grp 1 _) r) => r | _ => Emp end.

(* the safelog package compiles exactly one full pattern, of the shape  L (group 1: A) R *)
Lemma full_shape : full_patterns = [Seq pat_L (Seq (Grp 1 pat_A) pat_R)].
Proof. vm_compute. reflexivity. Qed.

Lemma c_sfL : star_free pat_L = true. Proof. vm_compute. reflexivity. Qed.
Lemma c_sfA : star_free pat_A = true. Proof. vm_compute. reflexivity. Qed.
Lemma c_sfR : star_free pat_R = true. Proof. vm_compute. reflexivity. Qed.
Lemma c_lenL : maxlen pat_L <= 1. Proof. apply Nat.leb_le. vm_compute. reflexivity. Qed.
Lemma c_nullA : nullable pat_A = false. Proof. vm_compute. reflexivity. Qed.
Lemma c_afA : anchor_free pat_A = true. Proof. vm_compute. reflexivity. Qed.
Lemma c_gR : has_grp 1 pat_R = false. Proof. vm_compute. reflexivity. Qed.
Lemma c_bolL : nb pat_L = true. Proof. vm_compute. reflexivity. Qed.
Lemma c_eolR : ne pat_R = true. Proof. vm_compute. reflexivity. Qed.
Lemma c_nlA : sym_free NL pat_A = true. Proof. vm_compute. reflexivity. Qed.

(* the three inclusions, by reflection through the derivative-based checker *)
Lemma c_inclL : RegexIncl.incl delim_spec pat_L = true. Proof. vm_compute. reflexivity. Qed.
Lemma c_inclR : RegexIncl.incl delim_spec pat_R = true. Proof. vm_compute. reflexivity. Qed.
Lemma c_inclA : RegexIncl.incl addr_spec pat_A = true. Proof. vm_compute. reflexivity. Qed.
Lemma c_inclAddr : RegexIncl.incl addr_spec address_pattern = true. Proof. vm_compute. reflexivity. Qed.
Lemma c_minlen : minlen addr_spec = 2. Proof. vm_compute. reflexivity. Qed.

Lemma delim_matches : forall r, RegexIncl.incl delim_spec r = true ->
  forall d, is_delim d = true -> matches r [d].
Proof.
  intros r Hi d Hd. apply (incl_sound _ _ Hi). constructor. exact Hd.
Qed.

Lemma spec_included : forall w, matches addr_spec w -> matches pat_A w.
Proof. apply incl_sound. exact c_inclA. Qed.

Lemma spec_included_address_pattern : forall w, matches addr_spec w -> matches address_pattern w.
Proof. apply incl_sound. exact c_inclAddr. Qed.

Lemma scrub_is_scrub1 : forall t, scrub full_patterns t = scrub1 the_full t.
Proof. intros t. unfold scrub, the_full. rewrite full_shape. reflexivity. Qed.

Lemma the_full_eq : the_full = Seq pat_L (Seq (Grp 1 pat_A) pat_R).
Proof. unfold the_full. rewrite full_shape. reflexivity. Qed.

(* the spans of the text that Scrub replaces by the placeholder *)
Definition replaced_spans (t : bytes) : list (nat * nat) := spans (S (length t)) the_full t 0.

Lemma scrub_render : forall t, scrub full_patterns t = render t 0 (replaced_spans t).
Proof.
  intros t. rewrite scrub_is_scrub1. unfold replaced_spans. rewrite the_full_eq. apply scrub1_render.
Qed.

Lemma hides_all : forall pre w post,
  matches addr_spec w -> left_ok pre -> right_ok post ->
  exists a b, In (a, b) (replaced_spans (pre ++ w ++ post)) /\
              a < length pre + length w /\ length pre < b.
Proof.
  intros pre w post Hw Hl Hr. unfold replaced_spans. rewrite the_full_eq.
  apply (scrub1_hides pat_L pat_A pat_R c_sfL c_sfA c_sfR c_lenL c_nullA c_afA c_gR c_bolL c_eolR
           (delim_matches _ c_inclL) (delim_matches _ c_inclR)); auto.
  - apply spec_included; auto.
  - pose proof (matches_minlen _ _ Hw) as H. rewrite c_minlen in H. exact H.
Qed.

(* ---------------------------------------------------------------- deciding membership *)

Lemma matchb_sound : forall r w, anchor_free r = true -> matchb r w = true -> matches r w.
Proof.
  intros r w Haf H. unfold matchb in H.
  destruct (bt r w 0 [] _) as [res|] eqn:E; [|discriminate].
  apply bt_sound in E. destruct E as (s1 & p1 & c1 & Hm & Hk).
  destruct s1; [|discriminate].
  destruct (ms_matches _ _ _ _ _ _ _ Hm Haf) as (w' & Ew & _ & Mw).
  rewrite app_nil_r in Ew; subst; auto.
Qed.

Definition derivs (w : bytes) (r : re) : re := fold_left (fun r c => deriv c r) w r.

Lemma derivs_correct : forall w r, matches r w <-> nullable (derivs w r) = true.
Proof.
  induction w as [|c w IH]; intros r; simpl.
  - symmetry; apply nullable_correct.
  - rewrite <- IH. symmetry; apply deriv_correct.
Qed.

Lemma replaced_spans_wf : forall t, wf_spans 0 (length t) (replaced_spans t).
Proof.
  intros t. unfold replaced_spans. rewrite the_full_eq.
  apply (spans_wf pat_L pat_A pat_R c_sfL c_lenL c_nullA c_afA c_gR (S (length t)) t 0).
Qed.

(* writer and scrubber together: whatever the splitting into writes, the sink receives, for every
   complete line of the stream and in order, that line with its replaced spans substituted, and every
   delimited address occurrence in every line is hit by one of these spans *)
Lemma end_to_end : forall ws outs pend,
  run_writes (write (scrub full_patterns)) [] ws = (outs, pend) ->
  exists lines,
    outs = map (fun l => render l 0 (replaced_spans l)) lines /\
    Forall is_line lines /\ concat lines ++ pend = concat ws /\ no_nl pend /\
    forall l pre w post, In l lines -> l = pre ++ w ++ post ->
      matches addr_spec w -> left_ok pre -> right_ok post ->
      exists a b, In (a, b) (replaced_spans l) /\ a < length pre + length w /\ length pre < b.
Proof.
  intros ws outs pend H.
  destruct (write_complete_lines (scrub full_patterns) ws outs pend H) as (lines & Ho & Hl & Hc & Hp).
  exists lines. repeat split; auto.
  - rewrite Ho. apply map_ext. intros l; apply scrub_render.
  - intros l pre w post _ El Hw Hlo Hro. subst l. apply hides_all; auto.
Qed.

Lemma scrub_fuel_irrelevant : forall t f, length t < f -> scrub full_patterns t = scrub_loop f the_full t.
Proof.
  intros t f Hf. rewrite scrub_is_scrub1. unfold scrub1. rewrite the_full_eq.
  apply (scrub_loop_fuel pat_L pat_A pat_R c_sfL c_lenL c_nullA c_afA c_gR); lia.
Qed.

(* ---------------------------------------------------------------- lines keep their newline *)

Lemma scrub_keeps_newline : forall l, is_line l -> exists body', scrub full_patterns l = body' ++ [NL].
Proof.
  intros l (body & El & _). subst l. rewrite scrub_is_scrub1, the_full_eq.
  apply (scrub1_keeps_nl pat_L pat_A pat_R c_sfL c_lenL c_nullA c_afA c_gR c_nlA).
Qed.

(* ---------------------------------------------------------------- the pinned algorithm *)

Import String.

Definition sc0 : bytes -> bytes := scrub_v0 pinned_address_pattern pinned_full_patterns.
Definition sc : bytes -> bytes := scrub full_patterns.
Notation "'B' x" := (bs x%string) (at level 9, only parsing).

Lemma addr_spec_anchor_free : anchor_free addr_spec = true. Proof. vm_compute. reflexivity. Qed.

Lemma spec_word : forall w, matchb addr_spec w = true -> matches addr_spec w.
Proof. intros; apply matchb_sound; auto; exact addr_spec_anchor_free. Qed.

(* the second of two addresses separated by one delimiter survives, with its context *)
Lemma v0_adjacent :
  exists pre w post out_pre,
    matches addr_spec w /\ left_ok pre /\ right_ok post /\
    sc0 (pre ++ w ++ post) = out_pre ++ w ++ post.
Proof.
  exists (B"1.2.3.4 "), (B"5.6.7.8"), [10%N], (B"[scrubbed] ").
  split; [apply spec_word; vm_compute; reflexivity|].
  split; [right; exists (B"1.2.3.4"), 32%N; split; reflexivity|].
  split; [right; exists 10%N, []; split; reflexivity|].
  vm_compute. reflexivity.
Qed.

(* an accepted spelling outside the pinned pattern is not touched at all *)
Lemma v0_seven_groups :
  exists w post,
    matches addr_spec w /\ right_ok post /\ sc0 (w ++ post) = w ++ post.
Proof.
  exists (B"::a:b:c:d:e:f:abcd"), [10%N].
  split; [apply spec_word; vm_compute; reflexivity|].
  split; [right; exists 10%N, []; split; reflexivity|].
  vm_compute. reflexivity.
Qed.

Lemma v0_spec_not_included : exists w, matches addr_spec w /\ ~ matches pinned_address_pattern w.
Proof.
  exists (B"[::1:2:3:4:5:6:7]").
  split; [apply spec_word; vm_compute; reflexivity|].
  intros H. apply derivs_correct in H. vm_compute in H. discriminate.
Qed.

(* two lines in one Write: the address at the start of the second line survives *)
Lemma v0_multiline :
  exists w, matches addr_spec w /\
    fst (run_writes (write_v0 sc0) [] [B"1.2.3.4" ++ [10%N] ++ w ++ [10%N]]) = [B"[scrubbed]" ++ [10%N] ++ w ++ [10%N]].
Proof.
  exists (B"5.6.7.8").
  split; [apply spec_word; vm_compute; reflexivity|].
  vm_compute. reflexivity.
Qed.

(* the same byte stream, split differently into Write calls, gives a different output *)
Lemma v0_split_dependent :
  exists ws1 ws2, List.concat ws1 = List.concat ws2 /\
    List.concat (fst (run_writes (write_v0 sc0) [] ws1)) <> List.concat (fst (run_writes (write_v0 sc0) [] ws2)).
Proof.
  exists [B"1.2.3.4" ++ [10%N] ++ B"5.6.7.8" ++ [10%N]], [B"1.2.3.4" ++ [10%N]; B"5.6.7.8" ++ [10%N]].
  split; [reflexivity|]. vm_compute. discriminate.
Qed.

(* the repaired algorithm on the same inputs *)
Lemma fixed_examples :
  sc (B"1.2.3.4 5.6.7.8" ++ [10%N]) = B"[scrubbed] [scrubbed]" ++ [10%N] /\
  sc (B"::a:b:c:d:e:f:abcd" ++ [10%N]) = B"[scrubbed]" ++ [10%N] /\
  sc (B"[1:2:3:4:5:6:abcd::]:80 y" ++ [10%N]) = B"[scrubbed] y" ++ [10%N] /\
  List.concat (fst (run_writes (write sc) [] [B"1.2.3.4" ++ [10%N] ++ B"5.6.7.8" ++ [10%N]])) =
    B"[scrubbed]" ++ [10%N] ++ B"[scrubbed]" ++ [10%N].
Proof. vm_compute. repeat split; reflexivity. Qed.
