(* ProxyRelayProofs.v — C06, proxy side, end to end (Model/ProxyRelay.v): the host the websocket dialer connects
   to is the host runSession checked; TLS is used unless non-TLS relays were allowed; one SnowflakeProxy over
   its life time decides every relay URL by its configuration and that URL alone. *)
From Coq Require Import List NArith Bool Arith Lia.
From Snow Require Import Lib.Wire Model.NameMatcher Model.RelayCheck Model.ProxyRelay Proofs.NameMatcherProofs.
Import ListNotations.
Open Scope N_scope.

(* What is assumed of net/url (a library boundary, checked on every generated URL by the harness: driver op
   urlparse2): if a string parses, and the string printed from that parse with the client_ip query set parses
   again, the second parse has the scheme and the host name of the first.  Nothing is assumed of strings that
   do not parse, nor is it assumed that the printed string parses. *)
Definition redial_preserves (lib : urllib) : Prop :=
  forall raw ip sch h sch' h',
    ul_parse lib raw = Parsed sch h -> ul_parse lib (ul_redial lib raw ip) = Parsed sch' h' -> sch' = sch /\ h' = h.

Lemma ws_dial_inv lib s tls h :
  ws_dial lib s = DialTo tls h ->
  exists sch, ul_parse lib s = Parsed sch h /\ (tls = true -> sch = WSS) /\ (tls = false -> sch = WS).
Proof.
  unfold ws_dial. destruct (ul_parse lib s) as [|sch host]; [discriminate|].
  destruct (beq sch WSS) eqn:E1.
  - intros H; injection H as <- <-. exists sch. apply beq_eq in E1.
    split; [reflexivity|]. split; [intros _; exact E1|discriminate].
  - destruct (beq sch WS) eqn:E2; [|discriminate]. intros H; injection H as <- <-. exists sch.
    apply beq_eq in E2. split; [reflexivity|]. split; [discriminate|intros _; exact E2].
Qed.

Lemma handler_dial lib c r ip t :
  datachannel_handler lib c r ip = SDial t ->
  t = ul_redial lib (if beq r [] then pc_relay_url c else r) ip
  /\ exists sch h, ul_parse lib (if beq r [] then pc_relay_url c else r) = Parsed sch h.
Proof.
  unfold datachannel_handler. destruct (ul_parse lib (if beq r [] then pc_relay_url c else r)) as [|sch h];
    [discriminate|]. intros H; injection H as <-. split; [reflexivity|]. exists sch, h. reflexivity.
Qed.

(* THE DIALLED HOST IS THE CHECKED HOST.  When a session with a non-empty broker-supplied relay URL reaches the
   websocket dialer, whatever the dialer connects to is: the host name runSession extracted from that URL and
   found to be a member of the proxy's pattern; over TLS, unless non-TLS relays were explicitly allowed. *)
Theorem session_dials_checked_host lib c raw ip t tls h :
  redial_preserves lib -> raw <> [] ->
  run_session lib c raw ip = SDial t -> ws_dial lib t = DialTo tls h ->
  exists sch, ul_parse lib raw = Parsed sch h
    /\ is_member (new_matcher (pc_pattern c)) h = true
    /\ (tls = true \/ pc_allow_non_tls c = true)
    /\ (tls = true <-> sch = WSS).
Proof.
  intros RP Hne Hrun Hdial. unfold run_session in Hrun.
  destruct (proxy_relay_decision (check_cfg c) raw (ul_parse lib raw)) eqn:D; [discriminate| |].
  - apply proxy_dial_broker_iff in D. destruct D as [_ [sch [host [P [M S]]]]].
    apply handler_dial in Hrun. destruct Hrun as [-> _].
    assert (beq raw [] = false) as B by (apply beq_neq; exact Hne). rewrite B in Hdial.
    apply ws_dial_inv in Hdial. destruct Hdial as [sch' [P' [Ht Hf]]].
    destruct (RP _ _ _ _ _ _ P P') as [-> ->].
    exists sch. split; [exact P|]. split; [exact M|]. cbn [check_cfg allow_non_tls] in S. split.
    + destruct tls; [left; reflexivity|]. right. destruct S as [S|S]; [exact S|].
      specialize (Hf eq_refl). rewrite S in Hf. discriminate.
    + split; [exact Ht|]. intros ->. destruct tls; [reflexivity|]. specialize (Hf eq_refl). discriminate.
  - apply proxy_dial_configured_iff in D. destruct D as [E _]. contradiction.
Qed.

(* the same for any string the session hands to the dialer, whether or not the dialer accepts it: the string is
   printed from the parse of the very URL that was checked *)
Theorem session_dial_string lib c raw ip t :
  run_session lib c raw ip = SDial t ->
  (raw <> [] /\ t = ul_redial lib raw ip
   /\ exists sch h, ul_parse lib raw = Parsed sch h /\ is_member (new_matcher (pc_pattern c)) h = true
                    /\ (pc_allow_non_tls c = true \/ sch = WSS))
  \/ (raw = [] /\ t = ul_redial lib (pc_relay_url c) ip).
Proof.
  unfold run_session. destruct (proxy_relay_decision (check_cfg c) raw (ul_parse lib raw)) eqn:D; [discriminate| |];
    intros H; apply handler_dial in H; destruct H as [-> _].
  - apply proxy_dial_broker_iff in D. destruct D as [Hne [sch [host [P [M S]]]]]. left.
    assert (beq raw [] = false) as B by (apply beq_neq; exact Hne). rewrite B.
    split; [exact Hne|]. split; [reflexivity|]. exists sch, host. repeat split; assumption.
  - apply proxy_dial_configured_iff in D. destruct D as [-> _]. right. split; reflexivity.
Qed.

(* an empty relay URL makes the proxy dial the operator's own relay URL and nothing the broker chose *)
Theorem session_empty_dials_configured lib c ip t :
  run_session lib c [] ip = SDial t -> t = ul_redial lib (pc_relay_url c) ip.
Proof. intros H. apply session_dial_string in H. destruct H as [[N _]|[_ H]]; [contradiction|exact H]. Qed.

(* refusal is exactly the verdict of the relay URL test (Model/RelayCheck.v) on Go's parse of the URL *)
Theorem session_refused_iff lib c raw ip :
  run_session lib c raw ip = SRefused <-> proxy_relay_decision (check_cfg c) raw (ul_parse lib raw) = Refuse.
Proof.
  unfold run_session. destruct (proxy_relay_decision (check_cfg c) raw (ul_parse lib raw)) eqn:D.
  - split; reflexivity.
  - split; [|discriminate]. unfold datachannel_handler.
    destruct (ul_parse lib (if beq raw [] then pc_relay_url c else raw)); discriminate.
  - split; [|discriminate]. unfold datachannel_handler.
    destruct (ul_parse lib (if beq raw [] then pc_relay_url c else raw)); discriminate.
Qed.

(* the decision reads the pattern, the flag and (for an empty URL) the relay URL of the configuration: two
   configurations that agree on these decide every URL alike — BrokerURL, NATProbeURL, STUNURL, ProxyType and,
   for a non-empty URL, RelayURL are not consulted *)
Theorem session_reads_only_check_fields lib c1 c2 raw ip :
  pc_pattern c1 = pc_pattern c2 -> pc_allow_non_tls c1 = pc_allow_non_tls c2 ->
  (raw = [] -> pc_relay_url c1 = pc_relay_url c2) ->
  run_session lib c1 raw ip = run_session lib c2 raw ip.
Proof.
  intros E1 E2 E3. unfold run_session, check_cfg, datachannel_handler. rewrite E1, E2.
  destruct (beq raw []) eqn:B; [|reflexivity]. apply beq_eq in B. rewrite (E3 B). reflexivity.
Qed.

(* ---------------------------------------------------------------- one proxy over its life time *)

(* INVARIANT: no step writes the configuration *)
Lemma pstep_conf lib s ev : ps_conf (fst (pstep lib s ev)) = ps_conf s.
Proof. destruct ev; reflexivity. Qed.

Lemma pstep_reply lib s ev : snd (pstep lib s ev) = preply_of lib (ps_conf s) ev.
Proof. destruct ev; reflexivity. Qed.

Lemma prun_conf lib : forall evs s, ps_conf (fst (prun lib s evs)) = ps_conf s.
Proof.
  induction evs as [|ev r IH]; intros s; [reflexivity|]. cbn [prun].
  destruct (pstep lib s ev) as [s1 o] eqn:E. specialize (IH s1). destruct (prun lib s1 r) as [s2 os].
  cbn [fst] in *. rewrite IH. change s1 with (fst (s1, o)). rewrite <- E. apply pstep_conf.
Qed.

Lemma prun_replies lib : forall evs s, snd (prun lib s evs) = map (preply_of lib (ps_conf s)) evs.
Proof.
  induction evs as [|ev r IH]; intros s; [reflexivity|]. cbn [prun map].
  destruct (pstep lib s ev) as [s1 o] eqn:E. specialize (IH s1). destruct (prun lib s1 r) as [s2 os].
  cbn [snd] in *. rewrite IH. f_equal.
  - change o with (snd (s1, o)). rewrite <- E. apply pstep_reply.
  - change s1 with (fst (s1, o)). rewrite <- E, pstep_conf. reflexivity.
Qed.

(* HISTORY INDEPENDENCE over the machine: from any state (any NAT type, any number of earlier sessions, any dials
   made so far) and after any history, the outcome of a session is [run_session] of the configuration and of
   that session's relay URL *)
Theorem prun_outcome_at lib s pre raw ip post :
  nth_error (snd (prun lib s (pre ++ P_Session raw ip :: post))) (length pre)
  = Some (Some (run_session lib (ps_conf s) raw ip)).
Proof.
  rewrite prun_replies, map_app. rewrite nth_error_app2 by (rewrite map_length; apply Nat.le_refl).
  rewrite map_length, Nat.sub_diag. reflexivity.
Qed.

Theorem prun_state_irrelevant lib s1 s2 evs :
  ps_conf s1 = ps_conf s2 -> snd (prun lib s1 evs) = snd (prun lib s2 evs).
Proof. intros E. rewrite !prun_replies, E. reflexivity. Qed.

(* every string the proxy ever hands to the dialer *)
Definition dial_ok (lib : urllib) (c : proxy_conf) (t : bytes) : Prop :=
  (exists ip, t = ul_redial lib (pc_relay_url c) ip)
  \/ (forall tls h, ws_dial lib t = DialTo tls h ->
        is_member (new_matcher (pc_pattern c)) h = true /\ (tls = true \/ pc_allow_non_tls c = true)).

Lemma pstep_dials lib s ev t :
  redial_preserves lib ->
  In t (ps_dials (fst (pstep lib s ev))) -> In t (ps_dials s) \/ dial_ok lib (ps_conf s) t.
Proof.
  intros RP. destruct ev as [raw ip|r]; cbn [pstep fst ps_dials]; [|left; assumption].
  destruct (run_session lib (ps_conf s) raw ip) as [| |t0] eqn:R; try (left; assumption).
  intros [<-|H]; [|left; exact H]. right.
  destruct (session_dial_string _ _ _ _ _ R) as [[Hne _]|[_ ->]].
  - right. intros tls h Hd. destruct (session_dials_checked_host _ _ _ _ _ _ _ RP Hne R Hd) as [sch [_ [M [T _]]]].
    split; assumption.
  - left. exists ip. reflexivity.
Qed.

(* "A proxy never opens a relay connection to a broker-supplied URL whose hostname fails its own pattern, or
   whose scheme is not wss unless non-TLS relays were explicitly allowed" — over the whole life of the proxy *)
Theorem prun_dials_sound lib : redial_preserves lib ->
  forall evs s t, In t (ps_dials (fst (prun lib s evs))) -> In t (ps_dials s) \/ dial_ok lib (ps_conf s) t.
Proof.
  intros RP. induction evs as [|ev r IH]; intros s t H; [left; exact H|].
  cbn [prun] in H. destruct (pstep lib s ev) as [s1 o] eqn:E. specialize (IH s1 t).
  destruct (prun lib s1 r) as [s2 os]. cbn [fst] in *. destruct (IH H) as [H1|H1].
  - apply (pstep_dials lib s ev t RP). rewrite E. exact H1.
  - right. replace (ps_conf s) with (ps_conf s1); [exact H1|].
    change s1 with (fst (s1, o)). rewrite <- E. apply pstep_conf.
Qed.

Corollary proxy_life_dials_sound lib c evs t :
  redial_preserves lib -> In t (ps_dials (fst (prun lib (pinit c) evs))) -> dial_ok lib c t.
Proof. intros RP H. destruct (prun_dials_sound lib RP evs (pinit c) t H) as [[]|H1]. exact H1. Qed.

(* the run of the machine projects onto the history-free reading (Model/RelayCheck.v proxy_run) *)
Lemma proxy_run_app' : forall pre post cfg, proxy_run cfg (pre ++ post) = proxy_run cfg pre ++ proxy_run cfg post.
Proof. induction pre as [|[raw pu] r IH]; intros post cfg; cbn; [reflexivity|]. rewrite IH. reflexivity. Qed.

Lemma preply_abs lib c ev :
  abs_outcome ev (preply_of lib c ev) = proxy_run (check_cfg c) (abs_offer lib ev).
Proof.
  destruct ev as [raw ip|r]; [|reflexivity]. cbn [preply_of abs_offer proxy_run abs_outcome].
  unfold run_session. destruct (proxy_relay_decision (check_cfg c) raw (ul_parse lib raw)) eqn:D; [reflexivity| |].
  - apply proxy_dial_broker_iff in D. destruct D as [Hne _].
    assert (beq raw [] = false) as B by (apply beq_neq; exact Hne).
    unfold datachannel_handler. rewrite B. destruct (ul_parse lib raw); reflexivity.
  - apply proxy_dial_configured_iff in D. destruct D as [-> _].
    unfold datachannel_handler. cbn [beq]. destruct (ul_parse lib (pc_relay_url c)); reflexivity.
Qed.

Fixpoint zip_abs (evs : list pevent) (os : list (option session_outcome)) : list relay_decision :=
  match evs, os with
  | ev :: r, o :: os' => abs_outcome ev o ++ zip_abs r os'
  | _, _ => []
  end.

Theorem prun_projects_to_proxy_run lib : forall evs s,
  zip_abs evs (snd (prun lib s evs)) = proxy_run (check_cfg (ps_conf s)) (flat_map (abs_offer lib) evs).
Proof.
  intros evs s. rewrite prun_replies. generalize (ps_conf s). clear s. intros c.
  induction evs as [|ev r IH]; [reflexivity|]. cbn [map zip_abs flat_map].
  rewrite proxy_run_app', preply_abs, IH. reflexivity.
Qed.

(* ---------------------------------------------------------------- the executable library instance (table_lib) *)

(* a decidable sufficient condition for the contract: every entry that parses keeps scheme and host in the entry
   of its printed string (used for the non-vacuity examples; the harness checks the same on Go's own answers) *)
Definition table_roundtrip_ok (t : list (bytes * parsed_url)) : bool :=
  forallb (fun kv : bytes * parsed_url =>
             match snd kv, tbl_lookup (redial_token (fst kv) []) t with
             | Parsed sch h, Parsed sch' h' => beq sch' sch && beq h' h
             | _, _ => true
             end) t.

Lemma tbl_lookup_in : forall t k s h, tbl_lookup k t = Parsed s h -> In (k, Parsed s h) t.
Proof.
  induction t as [|[k' v] r IH]; intros k s h H; cbn [tbl_lookup] in H; [discriminate|].
  destruct (beq k k') eqn:E.
  - apply beq_eq in E. subst. left. reflexivity.
  - right. apply IH. exact H.
Qed.

Lemma table_lib_preserves t : table_roundtrip_ok t = true -> redial_preserves (table_lib t).
Proof.
  intros OK raw ip sch h sch' h' H1 H2. cbn [table_lib ul_parse ul_redial] in *.
  unfold table_roundtrip_ok in OK. rewrite forallb_forall in OK.
  specialize (OK _ (tbl_lookup_in _ _ _ _ H1)). cbn [fst snd] in OK.
  unfold redial_token in *. rewrite H2 in OK. apply andb_prop in OK. destruct OK as [A B].
  apply beq_eq in A. apply beq_eq in B. split; assumption.
Qed.
