(* NameMatcherProofs.v — proofs about Model/NameMatcher.v and Model/RelayCheck.v (property C06). *)
From Coq Require Import List NArith Bool Arith Lia.
From Snow Require Import Lib.Wire Model.NameMatcher Model.RelayCheck.
Import ListNotations.
Open Scope N_scope.

(* ------------------------------------------------------------------ strings *)

Lemma beq_eq : forall a b : bytes, beq a b = true <-> a = b.
Proof.
  induction a as [|x a IH]; destruct b as [|y b]; cbn [beq]; split; intro H;
    try reflexivity; try discriminate.
  - apply andb_true_iff in H. destruct H as [Hxy Hab].
    apply N.eqb_eq in Hxy. apply IH in Hab. subst. reflexivity.
  - inversion H; subst. apply andb_true_iff. split.
    + apply N.eqb_refl.
    + apply IH. reflexivity.
Qed.

Lemma beq_refl : forall a : bytes, beq a a = true.
Proof. intro a. apply beq_eq. reflexivity. Qed.

Lemma beq_neq : forall a b : bytes, beq a b = false <-> a <> b.
Proof.
  intros a b. split.
  - intros H E. apply beq_eq in E. rewrite E in H. discriminate.
  - intro H. destruct (beq a b) eqn:E; [|reflexivity]. apply beq_eq in E. contradiction.
Qed.

(* strings.HasSuffix(s, x)  <->  s ends with x *)
Lemma has_suffix_spec : forall s x : bytes, has_suffix s x = true <-> exists p, s = p ++ x.
Proof.
  intros s x. unfold has_suffix. split.
  - intro H. apply andb_true_iff in H. destruct H as [_ H]. apply beq_eq in H.
    exists (firstn (length s - length x) s).
    rewrite <- H at 2. symmetry. apply firstn_skipn.
  - intros [p ->]. apply andb_true_iff. split.
    + apply Nat.leb_le. rewrite app_length. lia.
    + apply beq_eq. rewrite app_length.
      replace (length p + length x - length x)%nat with (length p) by lia.
      rewrite skipn_app, skipn_all, Nat.sub_diag. reflexivity.
Qed.

(* strings.HasPrefix(s, p)  <->  s starts with p *)
Lemma has_prefix_spec : forall s p : bytes, has_prefix s p = true <-> exists r, s = p ++ r.
Proof.
  intros s p. unfold has_prefix. split.
  - intro H. apply andb_true_iff in H. destruct H as [_ H]. apply beq_eq in H.
    exists (skipn (length p) s). rewrite <- H at 1. symmetry. apply firstn_skipn.
  - intros [r ->]. apply andb_true_iff. split.
    + apply Nat.leb_le. rewrite app_length. lia.
    + apply beq_eq. rewrite firstn_app, firstn_all, Nat.sub_diag. cbn [firstn]. apply app_nil_r.
Qed.

Lemma has_suffix_nil : forall s, has_suffix s [] = true.
Proof. intro s. apply has_suffix_spec. exists s. symmetry. apply app_nil_r. Qed.

Lemma has_suffix_refl : forall s, has_suffix s s = true.
Proof. intro s. apply has_suffix_spec. exists []. reflexivity. Qed.

Lemma has_suffix_trans : forall s x y, has_suffix s x = true -> has_suffix x y = true -> has_suffix s y = true.
Proof.
  intros s x y H1 H2. apply has_suffix_spec in H1. apply has_suffix_spec in H2.
  destruct H1 as [p ->]. destruct H2 as [q ->]. apply has_suffix_spec.
  exists (p ++ q). apply app_assoc.
Qed.

Lemma trim_suffix_app : forall s x, trim_suffix (s ++ x) x = s.
Proof.
  intros s x. unfold trim_suffix.
  replace (has_suffix (s ++ x) x) with true
    by (symmetry; apply has_suffix_spec; exists s; reflexivity).
  rewrite app_length. replace (length s + length x - length x)%nat with (length s) by lia.
  rewrite firstn_app, firstn_all, Nat.sub_diag. cbn [firstn]. apply app_nil_r.
Qed.

Lemma trim_prefix_app : forall p r, trim_prefix (p ++ r) p = r.
Proof.
  intros p r. unfold trim_prefix.
  replace (has_prefix (p ++ r) p) with true
    by (symmetry; apply has_prefix_spec; exists r; reflexivity).
  rewrite skipn_app, skipn_all, Nat.sub_diag. reflexivity.
Qed.

Lemma trim_prefix_none : forall s p, has_prefix s p = false -> trim_prefix s p = s.
Proof. intros s p H. unfold trim_prefix. rewrite H. reflexivity. Qed.

Lemma trim_suffix_none : forall s x, has_suffix s x = false -> trim_suffix s x = s.
Proof. intros s x H. unfold trim_suffix. rewrite H. reflexivity. Qed.

(* ------------------------------------------------------------------ IsMember *)

Lemma is_member_exact : forall x s, is_member (mk_matcher true x) s = true <-> s = x.
Proof. intros x s. unfold is_member. cbn [m_exact m_suffix]. apply beq_eq. Qed.

Lemma is_member_suffix : forall x s, is_member (mk_matcher false x) s = true <-> exists p, s = p ++ x.
Proof. intros x s. unfold is_member. cbn [m_exact m_suffix]. apply has_suffix_spec. Qed.

Lemma is_member_own_suffix : forall m, is_member m (m_suffix m) = true.
Proof.
  intros [e x]. unfold is_member. cbn [m_exact m_suffix]. destruct e.
  - apply beq_refl.
  - apply has_suffix_refl.
Qed.

(* ------------------------------------------------------------------ IsSupersetOf *)

(* soundness, as in the property statement, for ALL matchers and ALL byte strings *)
Lemma superset_sound : forall a b s,
  is_superset_of a b = true -> is_member b s = true -> is_member a s = true.
Proof.
  intros [ea xa] [eb xb] s. unfold is_superset_of, is_member. cbn [m_exact m_suffix].
  destruct ea.
  - intros H Hb. apply andb_true_iff in H. destruct H as [Heb Hx]. subst eb.
    apply beq_eq in Hx. subst xb. exact Hb.
  - intros H Hb. destruct eb.
    + apply beq_eq in Hb. subst s. exact H.
    + eapply has_suffix_trans; eassumption.
Qed.

(* completeness: the judgement is exactly set inclusion *)
Lemma superset_complete : forall a b,
  (forall s, is_member b s = true -> is_member a s = true) -> is_superset_of a b = true.
Proof.
  intros [ea xa] [eb xb] H. unfold is_superset_of. cbn [m_exact m_suffix].
  pose proof (H xb (is_member_own_suffix (mk_matcher eb xb))) as H0.
  destruct ea.
  - apply is_member_exact in H0. subst xb. destruct eb.
    + cbn [andb]. apply beq_refl.
    + (* a suffix matcher accepts 0 :: xa as well, an exact matcher does not *)
      exfalso.
      assert (Hm : is_member (mk_matcher false xa) (0 :: xa) = true).
      { apply is_member_suffix. exists [0]. reflexivity. }
      apply H in Hm. apply is_member_exact in Hm.
      apply (f_equal (@length N)) in Hm. cbn [length] in Hm. lia.
  - unfold is_member in H0. cbn [m_exact m_suffix] in H0. exact H0.
Qed.

Lemma superset_iff_inclusion : forall a b,
  is_superset_of a b = true <-> (forall s, is_member b s = true -> is_member a s = true).
Proof.
  intros a b. split.
  - intros H s. apply superset_sound. exact H.
  - apply superset_complete.
Qed.

Lemma superset_refl : forall a, is_superset_of a a = true.
Proof. intro a. apply superset_complete. auto. Qed.

Lemma superset_trans : forall a b c,
  is_superset_of a b = true -> is_superset_of b c = true -> is_superset_of a c = true.
Proof.
  intros a b c H1 H2. apply superset_complete. intros s Hs.
  eapply superset_sound; [exact H1|]. eapply superset_sound; [exact H2|]. exact Hs.
Qed.

(* ------------------------------------------------------------------ NewNameMatcher *)

Lemma has_prefix_caret_cons : forall c r, has_prefix (c :: r) [CARET] = (c =? CARET).
Proof.
  intros c r. unfold has_prefix. cbn [length firstn beq Nat.leb].
  rewrite andb_true_r. reflexivity.
Qed.

(* "^x$"  ->  exact x  (for every x, also x = "", x containing ^ or $) *)
Lemma new_matcher_anchored : forall x, new_matcher (CARET :: x ++ [DOLLAR]) = mk_matcher true x.
Proof.
  intro x. unfold new_matcher.
  change (CARET :: x ++ [DOLLAR]) with ((CARET :: x) ++ [DOLLAR]).
  rewrite trim_suffix_app. cbn zeta.
  rewrite has_prefix_caret_cons, N.eqb_refl.
  change (CARET :: x) with ([CARET] ++ x). rewrite trim_prefix_app. reflexivity.
Qed.

Definition starts_with_caret (x : bytes) : bool :=
  match x with c :: _ => c =? CARET | [] => false end.

Lemma has_prefix_caret : forall x, has_prefix x [CARET] = starts_with_caret x.
Proof.
  intros [|c r].
  - reflexivity.
  - apply has_prefix_caret_cons.
Qed.

(* "x$" with x not starting with ^  ->  suffix x *)
Lemma new_matcher_suffix : forall x, starts_with_caret x = false ->
  new_matcher (x ++ [DOLLAR]) = mk_matcher false x.
Proof.
  intros x Hx. unfold new_matcher. rewrite trim_suffix_app. cbn zeta.
  rewrite has_prefix_caret, Hx. rewrite trim_prefix_none by (rewrite has_prefix_caret; exact Hx).
  reflexivity.
Qed.

Definition rule_accepts (rule s : bytes) : bool := is_member (new_matcher rule) s.

Lemma superset_sound_rules : forall ra rb s : bytes,
  is_superset_of (new_matcher ra) (new_matcher rb) = true ->
  rule_accepts rb s = true -> rule_accepts ra s = true.
Proof. intros ra rb s. unfold rule_accepts. apply superset_sound. Qed.

Lemma rule_anchored_accepts : forall x s, rule_accepts (CARET :: x ++ [DOLLAR]) s = true <-> s = x.
Proof. intros x s. unfold rule_accepts. rewrite new_matcher_anchored. apply is_member_exact. Qed.

Lemma rule_suffix_accepts : forall x s, starts_with_caret x = false ->
  (rule_accepts (x ++ [DOLLAR]) s = true <-> exists p, s = p ++ x).
Proof. intros x s Hx. unfold rule_accepts. rewrite new_matcher_suffix by exact Hx. apply is_member_suffix. Qed.

Lemma is_valid_rule_spec : forall r, is_valid_rule r = true <-> exists x, r = x ++ [DOLLAR].
Proof. intro r. unfold is_valid_rule. apply has_suffix_spec. Qed.

(* ------------------------------------------------------------------ broker decision *)

Lemma broker_accepts_unfold : forall cfg pat,
  broker_accepts_poll cfg pat =
  is_superset_of (new_matcher (effective_pattern cfg pat)) (new_matcher (allowed_pattern cfg)).
Proof. intros cfg [p|]; reflexivity. Qed.

Lemma broker_accepts_iff_inclusion : forall cfg pat,
  broker_accepts_poll cfg pat = true <->
  (forall host, rule_accepts (allowed_pattern cfg) host = true ->
                rule_accepts (effective_pattern cfg pat) host = true).
Proof. intros cfg pat. rewrite broker_accepts_unfold. apply superset_iff_inclusion. Qed.

Lemma broker_rejects : forall cfg pat,
  is_superset_of (new_matcher (effective_pattern cfg pat)) (new_matcher (allowed_pattern cfg)) = false ->
  broker_accepts_poll cfg pat = false.
Proof. intros cfg pat H. rewrite broker_accepts_unfold. exact H. Qed.

Lemma broker_legacy_presumed : forall cfg,
  broker_accepts_poll cfg None = broker_accepts_poll cfg (Some (presumed_pattern cfg)).
Proof. intro cfg. reflexivity. Qed.

Lemma check_ignores_pattern_when_unsupported : forall cfg p q,
  check_proxy_relay_pattern cfg p true = check_proxy_relay_pattern cfg q true.
Proof. intros. reflexivity. Qed.

(* ------------------------------------------------------------------ proxy decision *)

Lemma proxy_dial_broker_iff : forall cfg raw pu,
  proxy_relay_decision cfg raw pu = DialBrokerURL <->
  raw <> [] /\ exists scheme host, pu = Parsed scheme host
     /\ is_member (new_matcher (relay_pattern cfg)) host = true
     /\ (allow_non_tls cfg = true \/ scheme = WSS).
Proof.
  intros cfg raw pu. unfold proxy_relay_decision. destruct pu as [|scheme host].
  - split; [discriminate|]. intros [_ [s [h [E _]]]]. discriminate.
  - destruct (beq raw []) eqn:Eraw; cbn [negb andb].
    + apply beq_eq in Eraw. subst raw. split; [discriminate|]. intros [H _]. contradiction.
    + apply beq_neq in Eraw.
      destruct (is_member (new_matcher (relay_pattern cfg)) host) eqn:Emem; cbn [negb orb].
      * destruct (allow_non_tls cfg) eqn:Eallow; cbn [negb andb].
        -- split; [|reflexivity]. intros _. split; [exact Eraw|].
           exists scheme, host. split; [reflexivity|]. split; [exact Emem|]. left. reflexivity.
        -- destruct (beq scheme WSS) eqn:Ews; cbn [negb].
           ++ apply beq_eq in Ews. split; [|reflexivity]. intros _. split; [exact Eraw|].
              exists scheme, host. split; [reflexivity|]. split; [exact Emem|]. right. exact Ews.
           ++ apply beq_neq in Ews. split; [discriminate|].
              intros [_ [s [h [E [_ [Hc|Hc]]]]]]; [discriminate|].
              inversion E; subst. contradiction.
      * split; [discriminate|]. intros [_ [s [h [E [Hm _]]]]].
        inversion E; subst. rewrite Emem in Hm. discriminate.
Qed.

Lemma proxy_dial_configured_iff : forall cfg raw pu,
  proxy_relay_decision cfg raw pu = DialConfigured <-> raw = [] /\ pu <> ParseError.
Proof.
  intros cfg raw pu. unfold proxy_relay_decision. destruct pu as [|scheme host].
  - split; [discriminate|]. intros [_ H]. contradiction.
  - destruct (beq raw []) eqn:Eraw; cbn [negb andb].
    + apply beq_eq in Eraw. split; [|reflexivity]. intros _. split; [exact Eraw|discriminate].
    + apply beq_neq in Eraw.
      destruct (negb (is_member (new_matcher (relay_pattern cfg)) host)
                || negb (allow_non_tls cfg) && negb (beq scheme WSS));
        (split; [discriminate|]); intros [H _]; contradiction.
Qed.

Lemma proxy_parse_error_refused : forall cfg raw, proxy_relay_decision cfg raw ParseError = Refuse.
Proof. reflexivity. Qed.

(* an honest broker is never refused: a poll the broker accepted + a bridge host inside the
   allowed pattern + wss  =>  the proxy proceeds *)
Lemma honest_broker_not_refused : forall bcfg pcfg raw host,
  broker_accepts_poll bcfg (Some (relay_pattern pcfg)) = true ->
  rule_accepts (allowed_pattern bcfg) host = true ->
  proxy_relay_decision pcfg raw (Parsed WSS host) <> Refuse.
Proof.
  intros bcfg pcfg raw host Hacc Hhost.
  pose proof (proj1 (broker_accepts_iff_inclusion bcfg (Some (relay_pattern pcfg))) Hacc host Hhost) as Hm.
  cbn [effective_pattern] in Hm. unfold rule_accepts in Hm.
  unfold proxy_relay_decision. rewrite Hm. rewrite beq_refl. cbn [negb orb andb].
  rewrite andb_false_r. destruct (negb (beq raw [])); discriminate.
Qed.
