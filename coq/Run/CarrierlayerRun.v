(* CarrierlayerRun.v — adapter for Model/CarrierLayer.v and Model/CarrierTimed.v.
   carrierlayer run <ops>    ops: n | r<i>:x<hex> | c<i> | w:x<cid>:x<hex> | s<i> | f
   -> up=<x<cid>:x<pkt>,...> k<i>=<state>:x<cid>:x<wire> ... log=<<i>|-:x<cid>:x<pkt>,...> q=<x<cid>:x<pkt>,...>
      (log = the ghost [consumed]: every packet taken off an outgoing queue, in order, with the carrier it was written
       to; q = what is still queued, per ClientID in queue order: log restricted to a ClientID followed by q restricted
       to it is what WriteTo accepted for it, C05_downstream_exactly_once_in_order)
   carrierlayer frun <ops>   the same with failing downstream writes: F<i>:<n> (see below)
   carrierlayer trun <timeout> <ops>   the timed model; ops: n | r<i>:x<hex>:<now> | c<i> | w:x<cid>:x<hex>:<now> |
                                       s<i>:<now> | f | v<now> | V<now> (both: the sweeper runs at <now>)
   -> up=... acc=<x<cid>:<conv>:<packets input>:<live>,...> k<i>=... log=<<i>|-:<key>:<queue id>:x<pkt>,...>
      lost=<<queue id>:x<pkt>,...> (left in closed queues)
      (acc = the KCP listener's view of everything read or readable: one element per accepted connection) *)
From Coq Require Import List NArith ZArith Bool Arith String.
From Snow Require Import Lib.Wire Model.Encap Model.CarrierLayer Model.GoHeap Model.ClientMap Model.CarrierTimed Model.CarrierFail.
Import ListNotations.
Open Scope N_scope.

Definition opt_bind {A B} (o : option A) (f : A -> option B) : option B :=
  match o with Some x => f x | None => None end.

Definition sop_parse (t : bytes) : option sop :=
  match t with
  | [110] => Some S_New                                   (* n *)
  | 110 :: 58 :: _ => Some S_New                          (* n:x<raw query> : the query string does not matter to the carrier layer *)
  | [102] => Some S_ReadFrom                              (* f *)
  | 114 :: r =>                                           (* r<i>:x.. *)
      match split_on COLON r with
      | [i; b] => opt_bind (dec_parse_nat i) (fun i' => opt_bind (payload_parse b) (fun b' => Some (S_Recv i' b')))
      | _ => None
      end
  | 99 :: r => opt_bind (dec_parse_nat r) (fun i => Some (S_Close i))     (* c<i> *)
  | 115 :: r => opt_bind (dec_parse_nat r) (fun i => Some (S_Send i))     (* s<i> *)
  | 119 :: r =>                                           (* w:x<cid>:x<p> *)
      match split_on COLON r with
      | [_; c; p] => opt_bind (payload_parse c) (fun c' => opt_bind (payload_parse p) (fun p' => Some (S_WriteTo c' p')))
      | _ => None
      end
  | _ => None
  end.

Definition kstate_print (k : kstate) : bytes :=
  match k with K_Token => bs "token" | K_ClientID => bs "cid" | K_Open => bs "open" | K_Dead => bs "dead" end.

Fixpoint carriers_print (i : nat) (ks : list carrier) : list bytes :=
  match ks with
  | [] => []
  | k :: ks' =>
      (bs "k" ++ dec_print (N.of_nat i) ++ bs "=" ++ kstate_print (k_state k) ++ bs ":x" ++ hex_encode (k_cid k)
         ++ bs ":x" ++ hex_encode (k_wire k)) :: carriers_print (S i) ks'
  end.

Definition up_print (l : list (bytes * bytes)) : bytes :=
  bs "up=" ++ list_print (map (fun '(p, c) => bs "x" ++ hex_encode c ++ bs ":x" ++ hex_encode p) l).

Definition owner_print (o : option nat) : bytes :=
  match o with Some i => dec_print (N.of_nat i) | None => bs "-" end.

Definition log_print (l : list (option nat * bytes * bytes)) : bytes :=
  bs "log=" ++ list_print (map (fun '(o, c, p) => owner_print o ++ bs ":x" ++ hex_encode c ++ bs ":x" ++ hex_encode p) l).

Definition queued_print (l : list (bytes * list bytes)) : bytes :=
  bs "q=" ++ list_print (flat_map (fun '(c, q) => map (fun p => bs "x" ++ hex_encode c ++ bs ":x" ++ hex_encode p) q) l).

(* ---- failing downstream writes (Model/CarrierFail.v)
   carrierlayer frun <ops>   ops as for run, and F<i>:<n> = carrier i's write loop takes the next packet of its ClientID,
                             n bytes of its frame reach the connection, the Write fails
   -> as for run; k<i>'s bytes are ALL the bytes written on the carrier's connection ([full_wire]) *)
Definition fop_parse (t : bytes) : option fop :=
  match t with
  | 70 :: r =>                                            (* F<i>:<n> *)
      match split_on COLON r with
      | [i; n] => opt_bind (dec_parse_nat i) (fun i' => opt_bind (dec_parse_nat n) (fun n' => Some (F_SendFail i' n')))
      | _ => None
      end
  | _ => option_map F_Op (sop_parse t)
  end.

Fixpoint fcarriers_print (s : fstate) (i : nat) (ks : list carrier) : list bytes :=
  match ks with
  | [] => []
  | k :: ks' =>
      (bs "k" ++ dec_print (N.of_nat i) ++ bs "=" ++ kstate_print (k_state k) ++ bs ":x" ++ hex_encode (k_cid k)
         ++ bs ":x" ++ hex_encode (full_wire s i k)) :: fcarriers_print s (S i) ks'
  end.

(* ---- timed *)
Definition top_parse (t : bytes) : option top :=
  match t with
  | [110] => Some T_New
  | 110 :: 58 :: _ => Some T_New
  | [102] => Some T_ReadFrom
  | 114 :: r =>                                           (* r<i>:x..:<now> *)
      match split_on COLON r with
      | [i; b; t] => opt_bind (dec_parse_nat i) (fun i' => opt_bind (payload_parse b) (fun b' =>
                     opt_bind (zdec_parse t) (fun t' => Some (T_Recv i' b' t'))))
      | _ => None
      end
  | 99 :: r => opt_bind (dec_parse_nat r) (fun i => Some (T_Close i))
  | 115 :: r =>                                           (* s<i>:<now> *)
      match split_on COLON r with
      | [i; t] => opt_bind (dec_parse_nat i) (fun i' => opt_bind (zdec_parse t) (fun t' => Some (T_Send i' t')))
      | _ => None
      end
  | 119 :: r =>                                           (* w:x<cid>:x<p>:<now> *)
      match split_on COLON r with
      | [_; c; p; t] => opt_bind (payload_parse c) (fun c' => opt_bind (payload_parse p) (fun p' =>
                        opt_bind (zdec_parse t) (fun t' => Some (T_WriteTo c' p' t'))))
      | _ => None
      end
  | 118 :: r => opt_bind (zdec_parse r) (fun t => Some (T_Sweep t))      (* v<now> *)
  | 86 :: r => opt_bind (zdec_parse r) (fun t => Some (T_Sweep t))       (* V<now> *)
  | _ => None
  end.

Definition acc_print (l : list lsess) : bytes :=
  bs "acc=" ++ list_print (map (fun s => bs "x" ++ hex_encode (l_key s) ++ bs ":" ++ dec_print (l_conv s) ++ bs ":"
                                           ++ dec_print (N.of_nat (List.length (l_in s))) ++ bs ":" ++ bool_print (l_live s)) l).

Definition tlog_print (l : list (option nat * N * nat * bytes)) : bytes :=
  bs "log=" ++ list_print (map (fun '(o, a, q, p) => owner_print o ++ bs ":" ++ dec_print a ++ bs ":" ++ dec_print (N.of_nat q)
                                                       ++ bs ":x" ++ hex_encode p) l).

Definition lost_print (d : list (nat * list payload)) : bytes :=
  bs "lost=" ++ list_print (flat_map (fun '(q, l) => map (fun p => dec_print (N.of_nat q) ++ bs ":x" ++ hex_encode p) l) d).

Definition run (args : list bytes) : bytes :=
  match args with
  | [op; ops] =>
      if beq op (bs "frun") then
        match list_parse fop_parse ops with
        | Some l =>
            let fs := frun l in
            let s := f_s fs in
            join [SP]
              ([up_print (delivered s ++ recvq s)] ++ fcarriers_print fs 0 (carriers s)
               ++ [log_print (consumed s); queued_print (sendqs s)])
        | None => ERR_BADCASE
        end
      else if beq op (bs "run") then
        match list_parse sop_parse ops with
        | Some l =>
            let s := srun l in
            join [SP]
              ([up_print (delivered s ++ recvq s)] ++ carriers_print 0 (carriers s)
               ++ [log_print (consumed s); queued_print (sendqs s)])
        | None => ERR_BADCASE
        end
      else ERR_BADCASE
  | [op; tmo; ops] =>
      if beq op (bs "trun") then
        match zdec_parse tmo, list_parse top_parse ops with
        | Some t, Some l =>
            let s := trun t l in
            join [SP]
              ([up_print (tdelivered s ++ trecvq s); acc_print (listener_view (tdelivered s ++ trecvq s))]
               ++ carriers_print 0 (tcar s) ++ [tlog_print (tcons s); lost_print (dead (tcm s))])
        | _, _ => ERR_BADCASE
        end
      else ERR_BADCASE
  | _ => ERR_BADCASE
  end.
