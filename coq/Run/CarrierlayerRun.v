(* CarrierlayerRun.v — adapter for Model/CarrierLayer.v.
   carrierlayer run <ops>    ops: n | r<i>:x<hex> | c<i> | w:x<cid>:x<hex> | s<i> | f
   -> up=<x<cid>:x<pkt>,...> rq=<n> k<i>=<state>:x<cid>:x<wire> ... *)
From Coq Require Import List NArith Bool Arith String.
From Snow Require Import Lib.Wire Model.Encap Model.CarrierLayer.
Import ListNotations.
Open Scope N_scope.

Definition opt_bind {A B} (o : option A) (f : A -> option B) : option B :=
  match o with Some x => f x | None => None end.

Definition sop_parse (t : bytes) : option sop :=
  match t with
  | [110] => Some S_New                                   (* n *)
  | 110 :: 58 :: _ => Some S_New                          (* n:x<raw query> : the query string does not matter to the carrier layer *)
  | [102] => Some S_ReadFrom                              (* f *)
  | 114 :: r =>                                           (* r<i>:x.. *)
      match split_on COLON r with
      | [i; b] => opt_bind (dec_parse_nat i) (fun i' => opt_bind (payload_parse b) (fun b' => Some (S_Recv i' b')))
      | _ => None
      end
  | 99 :: r => opt_bind (dec_parse_nat r) (fun i => Some (S_Close i))     (* c<i> *)
  | 115 :: r => opt_bind (dec_parse_nat r) (fun i => Some (S_Send i))     (* s<i> *)
  | 119 :: r =>                                           (* w:x<cid>:x<p> *)
      match split_on COLON r with
      | [_; c; p] => opt_bind (payload_parse c) (fun c' => opt_bind (payload_parse p) (fun p' => Some (S_WriteTo c' p')))
      | _ => None
      end
  | _ => None
  end.

Definition kstate_print (k : kstate) : bytes :=
  match k with K_Token => bs "token" | K_ClientID => bs "cid" | K_Open => bs "open" | K_Dead => bs "dead" end.

Fixpoint carriers_print (i : nat) (ks : list carrier) : list bytes :=
  match ks with
  | [] => []
  | k :: ks' =>
      (bs "k" ++ dec_print (N.of_nat i) ++ bs "=" ++ kstate_print (k_state k) ++ bs ":x" ++ hex_encode (k_cid k)
         ++ bs ":x" ++ hex_encode (k_wire k)) :: carriers_print (S i) ks'
  end.

Definition run (args : list bytes) : bytes :=
  match args with
  | [op; ops] =>
      if beq op (bs "run") then
        match list_parse sop_parse ops with
        | Some l =>
            let s := srun l in
            join [SP]
              ([bs "up=" ++ list_print (map (fun '(p, c) => bs "x" ++ hex_encode c ++ bs ":x" ++ hex_encode p) (delivered s ++ recvq s))]
               ++ carriers_print 0 (carriers s))
        | None => ERR_BADCASE
        end
      else ERR_BADCASE
  | _ => ERR_BADCASE
  end.
