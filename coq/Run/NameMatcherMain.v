(* NameMatcherMain.v — line-protocol adapter (harness glue, executable) for Model/ProxyMain.v: the proxy binary's
   main() from its command line to the decisions of its sessions.  Dispatched from Run/NameMatcherRun.v.

     mainrun <relay> <pattern> <allow01> <other flags> <offer,offer,...|->
         relay:   n = -relay not given, else the flag's value as an offer token
         pattern: n = -allowed-relay-hostname-pattern not given, else the flag's value (payload)
         allow01: -allow-non-tls-relay
         other flags: the rest of the command line (payload; main()'s wiring of the relay URL test does not read it;
                  -broker and -stun are always given by the harness and parse)
         offer:   <raw>;E | <raw>;P;<scheme>;<host>   (Go's url.Parse of the relay URL the stub broker supplies)
     result: fatal                                      main() ends in log.Fatal before the first poll
             pattern=x<pattern announced in the polls> res=<refuse|proceed>,...   one per offer: proxy_main_run *)
From Coq Require Import List NArith Bool Arith String.
From Snow Require Import Lib.Wire Model.NameMatcher Model.RelayCheck Model.ProxyRelay Model.ProxyMain.
Import ListNotations.
Open Scope N_scope.

Definition main_offer_parse (it : bytes) : option (bytes * parsed_url) :=
  match split_on SEMI it with
  | [raw; e] => if beq e (bs "E") then option_map (fun r => (r, ParseError)) (payload_parse raw) else None
  | [raw; p; sch; host] =>
      if beq p (bs "P") then
        match payload_parse raw, payload_parse sch, payload_parse host with
        | Some r, Some s, Some h => Some (r, Parsed s h)
        | _, _, _ => None
        end
      else None
  | _ => None
  end.

Definition STUB_BROKER : bytes := bs "http://stub.invalid/".
Definition STUB_STUN : bytes := bs "stun:stun.invalid:3478".

Definition main_outcome_print (o : option session_outcome) : bytes :=
  match o with
  | None => bs "-"
  | Some SRefused => bs "refuse"
  | Some SFatal => bs "fatal-session"
  | Some (SDial _) => bs "proceed"
  end.

Definition run_mainrun (relay pat allow extras offers : bytes) : bytes :=
  let relay_o := if beq relay (bs "n") then Some None else option_map Some (main_offer_parse relay) in
  let pat_o := if beq pat (bs "n") then Some None else option_map Some (payload_parse pat) in
  let offers_o := if beq offers (bs "-") then Some [] else list_parse main_offer_parse offers in
  match relay_o, pat_o, bool_parse allow, payload_parse extras, offers_o with
  | Some rl, Some p, Some al, Some _, Some os =>
      (* the broker's strings first: a broker-supplied string equal to a configured one has the same parse *)
      let tbl := os ++ (match rl with Some e => [e] | None => [] end)
                    ++ [(DEFAULT_RELAY_URL, Parsed (bs "wss") (bs "snowflake.bamsoftware.com"));
                        (STUB_BROKER, Parsed (bs "http") (bs "stub.invalid")); (STUB_STUN, Parsed (bs "stun") [])] in
      let lib := table_lib tbl in
      let f := mk_proxy_flags (option_map fst rl) p al (Some STUB_BROKER) (Some STUB_STUN) 0 false None false false None None in
      match proxy_main_run lib f (map (fun x => P_Session (fst x) []) os) with
      | None => bs "fatal"
      | Some (st, outs) =>
          bs "pattern=x" ++ hex_encode (pc_pattern (ps_conf st)) ++ bs " res=" ++ list_print (map main_outcome_print outs)
      end
  | _, _, _, _, _ => ERR_BADCASE
  end.
