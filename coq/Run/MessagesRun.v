(* MessagesRun.v — line-protocol adapter for the Messages model (harness glue, executable).

   Canonical one-token serialisation of a JSON value (same in the Go driver):
     n | t | f | d<hex of literal>; | s<hex>; | [ v* ] | { (k<hex>; v)* }
   "!" stands for "not one valid JSON text" (Go's parser refused the bytes).

   case lines
     <dop> x<bytes> <jv>                 dop in dppr dppr0 dpr dpr0 dar dars dcps dprr (dprr/rprr: the poll response with
                                         the failure reason visible: ok ... | reason x<status> x<nat> x<relay> | err)
     dcpr x<bytes> <x<body>|-> <jv>      body = bytes after the first newline ("-": none)
     eppr|rppr   x<sid> x<type> x<nat> <clients> x<pattern>
     eppr0|rppr0 x<sid> x<type> x<nat> <clients>
     epr|rpr     x<offer> <0|1> x<nat> x<relay> x<reason>
     epr0|rpr0   x<offer> <0|1> x<nat>
     ear|rar     x<answer> x<sid>
     ears|rars   <0|1>
     ecpr|rcpr   x<offer> x<nat> x<fingerprint>
     ecps|rcps   x<answer> x<error>
     vsplit x<s>                         strings.Split(s, ".")          -> comma list of x<piece>
     nsplit x<data>                      bytes.SplitN(data, "\n", 2)    -> comma list of x<piece>
   results: decoders/round trips "ok <fields>" | "err"; encoders the canonical value.
   The d* ops execute the decoders of Model/MessagesPanic.v (every partial operation of the Go code an
   explicit step; proved equal to the decoders of Model/Messages.v): a step that panics prints
   "!panic <why>", which no answer of the implementation other than a panic can equal. *)
From Coq Require Import List NArith ZArith Bool Arith String.
From Snow Require Import Lib.Wire Model.JsonBoundary Model.Messages Model.MessagesPanic.
Import ListNotations.
Open Scope N_scope.

(* ---- canonical value printer *)
Definition hx (tag : N) (b : bytes) : bytes := tag :: hex_encode b ++ [SEMI].

Fixpoint jprint (v : json) : bytes :=
  match v with
  | JNull => bs "n"
  | JBool true => bs "t"
  | JBool false => bs "f"
  | JNum t => hx 100 t
  | JStr s => hx 115 s
  | JArr l => 91 :: (fix go (l : list json) := match l with [] => [] | x :: r => jprint x ++ go r end) l ++ [93]
  | JObj l => 123 :: (fix go (l : list (bytes * json)) :=
                        match l with [] => [] | (k, x) :: r => hx 107 k ++ jprint x ++ go r end) l ++ [125]
  end.

(* encoder results are compared as a set of fields: top-level entries sorted by key *)
Fixpoint blt (a b : bytes) : bool :=
  match a, b with
  | _, [] => false
  | [], _ :: _ => true
  | x :: a', y :: b' => if x <? y then true else if y <? x then false else blt a' b'
  end.
Fixpoint insert_ent (e : bytes * json) (l : list (bytes * json)) : list (bytes * json) :=
  match l with
  | [] => [e]
  | h :: t => if blt (fst e) (fst h) then e :: l else h :: insert_ent e t
  end.
Definition sort_top (v : json) : json :=
  match v with
  | JObj l => JObj (fold_right insert_ent [] l)
  | _ => v
  end.
Definition jprint_sorted (v : json) : bytes := jprint (sort_top v).

(* ---- canonical value parser (fuel = token length) *)
Fixpoint take_hex (l acc : bytes) : option (bytes * bytes) :=
  match l with
  | [] => None
  | c :: r => if c =? SEMI then match hex_decode (List.rev acc) with Some b => Some (b, r) | None => None end
              else take_hex r (c :: acc)
  end.

Definition wrap {A} (mk : A -> json) (o : option (A * bytes)) : option (json * bytes) :=
  match o with Some (xs, r') => Some (mk xs, r') | None => None end.

Fixpoint pval (fuel : nat) (l : bytes) : option (json * bytes) :=
  match fuel with
  | O => None
  | S f =>
      match l with
      | [] => None
      | c :: r =>
          if c =? 110 then Some (JNull, r)
          else if c =? 116 then Some (JBool true, r)
          else if c =? 102 then Some (JBool false, r)
          else if c =? 100 then wrap JNum (take_hex r [])
          else if c =? 115 then wrap JStr (take_hex r [])
          else if c =? 91 then
            wrap JArr
            ((fix parr (g : nat) (l : bytes) : option (list json * bytes) :=
               match g with
               | O => None
               | S g' => match l with
                         | [] => None
                         | c :: r => if c =? 93 then Some ([], r)
                                     else match pval f l with
                                          | Some (x, r1) => match parr g' r1 with
                                                            | Some (xs, r2) => Some (x :: xs, r2)
                                                            | None => None end
                                          | None => None end
                         end
               end) (S (List.length r)) r)
          else if c =? 123 then
            wrap JObj
            ((fix pobj (g : nat) (l : bytes) : option (list (bytes * json) * bytes) :=
               match g with
               | O => None
               | S g' => match l with
                         | [] => None
                         | c :: r => if c =? 125 then Some ([], r)
                                     else if c =? 107 then
                                       match take_hex r [] with
                                       | Some (k, r0) =>
                                           match pval f r0 with
                                           | Some (x, r1) => match pobj g' r1 with
                                                             | Some (xs, r2) => Some ((k, x) :: xs, r2)
                                                             | None => None end
                                           | None => None end
                                       | None => None end
                                     else None
                         end
               end) (S (List.length r)) r)
          else None
      end
  end.

(* token -> parse result of the library: Some None = "!" (invalid JSON) *)
Definition jv_parse (t : bytes) : option (option json) :=
  if beq t (bs "!") then Some None
  else match pval (S (List.length t)) t with
       | Some (v, []) => Some (Some v)
       | _ => None
       end.

Definition X (b : bytes) : bytes := 120 :: hex_encode b.

Definition out {A} (p : A -> bytes) (r : result A) : bytes :=
  match r with Ok a => bs "ok " ++ p a | Err => bs "err" end.

Definition out_g {A} (p : A -> bytes) (r : dres A) : bytes :=
  match r with
  | DVal r => out p r
  | DPanic WIndex => bs "!panic index"
  | DPanic WNilDeref => bs "!panic nil-deref"
  | DPanic WShape => bs "!panic shape"
  end.

Definition p_poll_req (r : poll_req) : bytes :=
  X (pq_sid r) ++ [SP] ++ X (pq_type r) ++ [SP] ++ X (pq_nat r) ++ [SP] ++ zdec_print (pq_clients r)
    ++ [SP] ++ X (pq_pattern r) ++ [SP] ++ bool_print (pq_aware r).
Definition p_poll_req0 (r : bytes * bytes * bytes * Z) : bytes :=
  let '(sid, ty, nat, n) := r in X sid ++ [SP] ++ X ty ++ [SP] ++ X nat ++ [SP] ++ zdec_print n.
Definition p3 (r : bytes * bytes * bytes) : bytes :=
  let '(a, b, c) := r in X a ++ [SP] ++ X b ++ [SP] ++ X c.
Definition p2 (r : bytes * bytes) : bytes := let '(a, b) := r in X a ++ [SP] ++ X b.

Definition out_r (r : presult) : bytes :=
  match r with
  | PROk x => bs "ok " ++ p3 x
  | PRReason st n u => bs "reason " ++ X st ++ [SP] ++ X n ++ [SP] ++ X u
  | PRErr => bs "err"
  end.

Definition opt2 {A B} (a : option A) (b : option B) : option (A * B) :=
  match a, b with Some x, Some y => Some (x, y) | _, _ => None end.

Definition run (args : list bytes) : bytes :=
  match args with
  | [op; d; j] =>
      match payload_parse d, jv_parse j with
      | Some _, Some o =>
          if beq op (bs "dppr") then out_g p_poll_req (opt_decode_g decode_proxy_poll_code o)
          else if beq op (bs "dppr0") then out_g p_poll_req0 (opt_decode_g decode_proxy_poll_legacy_code o)
          else if beq op (bs "dpr") then out_g p3 (opt_decode_g decode_poll_response_g o)
          else if beq op (bs "dprr") then out_r (match o with Some v => decode_poll_response_reason v | None => PRErr end)
          else if beq op (bs "dpr0") then out_g p2 (opt_decode_g decode_poll_response_legacy_g o)
          else if beq op (bs "dar") then out_g p2 (opt_decode_g decode_answer_request_code o)
          else if beq op (bs "dars") then out_g bool_print (opt_decode_g decode_answer_response_g o)
          else if beq op (bs "dcps") then out_g p2 (opt_decode_g decode_client_response_g o)
          else ERR_BADCASE
      | _, _ =>
          match payload_parse d, payload_parse j with
          | Some a, Some b =>
              if beq op (bs "ear") then jprint_sorted (encode_answer_request a b)
              else if beq op (bs "rar") then out p2 (decode_answer_request (encode_answer_request a b))
              else if beq op (bs "ecps") then jprint_sorted (encode_client_response a b)
              else if beq op (bs "rcps") then out p2 (decode_client_response (encode_client_response a b))
              else ERR_BADCASE
          | _, _ => ERR_BADCASE
          end
      end
  | [op; a] =>
      if beq op (bs "vsplit") then
        match payload_parse a with Some s => list_print (map X (split_dot s)) | None => ERR_BADCASE end
      else if beq op (bs "nsplit") then
        match payload_parse a with Some d => list_print (map X (splitn_nl d)) | None => ERR_BADCASE end
      else
      match bool_parse a with
      | Some b => if beq op (bs "ears") then jprint_sorted (encode_answer_response b)
                  else if beq op (bs "rars") then out bool_print (decode_answer_response (encode_answer_response b))
                  else ERR_BADCASE
      | None => ERR_BADCASE
      end
  | [op; a; b; c] =>
      if beq op (bs "dcpr") then
        match payload_parse a, jv_parse c with
        | Some data, Some o =>
            (* the body the glue parsed must be the body the model splits off *)
            let body_ok := match split_nl data with
                           | None => beq b (bs "-")
                           | Some (_, body) => match payload_parse b with Some b' => beq b' body | None => false end
                           end in
            if body_ok then out_g p3 (decode_client_poll_code (fun _ => o) data) else ERR_BADCASE
        | _, _ => ERR_BADCASE
        end
      else if beq op (bs "epr0") || beq op (bs "rpr0") then
        match payload_parse a, bool_parse b, payload_parse c with
        | Some offer, Some ok, Some nat =>
            if beq op (bs "epr0") then jprint_sorted (encode_poll_response_legacy offer ok nat)
            else out p2 (decode_poll_response_legacy (encode_poll_response_legacy offer ok nat))
        | _, _, _ => ERR_BADCASE
        end
      else
        match payload_parse a, payload_parse b, payload_parse c with
        | Some offer, Some nat, Some fp =>
            if beq op (bs "ecpr") then X CLIENT_VERSION ++ [SP] ++ jprint_sorted (encode_client_poll offer nat fp)
            else if beq op (bs "rcpr") then
              (* bytes level with an ideal library: parse (print v) = Some v *)
              out p3 (match split_nl (encode_client_poll_bytes (fun _ => []) offer nat fp) with
                      | Some (ver, _) => if beq ver CLIENT_VERSION
                                         then decode_client_poll_body (encode_client_poll offer nat fp) else Err
                      | None => Err end)
            else ERR_BADCASE
        | _, _, _ => ERR_BADCASE
        end
  | [op; a; b; c; d] =>
      match payload_parse a, payload_parse b, opt2 (payload_parse c) (zdec_parse d) with
      | Some sid, Some ty, Some (nat, n) =>
          if beq op (bs "eppr0") then jprint_sorted (encode_proxy_poll_legacy sid ty nat n)
          else if beq op (bs "rppr0") then out p_poll_req0 (decode_proxy_poll_legacy (encode_proxy_poll_legacy sid ty nat n))
          else ERR_BADCASE
      | _, _, _ => ERR_BADCASE
      end
  | [op; a; b; c; d; e] =>
      if beq op (bs "eppr") || beq op (bs "rppr") then
        match payload_parse a, payload_parse b, opt2 (payload_parse c) (zdec_parse d), payload_parse e with
        | Some sid, Some ty, Some (nat, n), Some pat =>
            if beq op (bs "eppr") then jprint_sorted (encode_proxy_poll sid ty nat n pat)
            else out p_poll_req (decode_proxy_poll (encode_proxy_poll sid ty nat n pat))
        | _, _, _, _ => ERR_BADCASE
        end
      else
        match payload_parse a, bool_parse b, opt2 (payload_parse c) (payload_parse d), payload_parse e with
        | Some offer, Some ok, Some (nat, relay), Some reason =>
            if beq op (bs "epr") then jprint_sorted (encode_poll_response offer ok nat relay reason)
            else if beq op (bs "rpr") then out p3 (decode_poll_response (encode_poll_response offer ok nat relay reason))
            else if beq op (bs "eprr") then jprint_sorted (encode_poll_response offer ok nat relay reason)
            else if beq op (bs "rprr") then out_r (decode_poll_response_reason (encode_poll_response offer ok nat relay reason))
            else ERR_BADCASE
        | _, _, _, _ => ERR_BADCASE
        end
  | _ => ERR_BADCASE
  end.
