(* ConnectRun.v — line-protocol adapter for the Connect model (harness glue, executable).
   Case line:  connect conn  <ice-kind> <rendezvous-kind>    (model CV1 = repaired code)
               connect conn0 <ice-kind> <rendezvous-kind>    (model CV0 = pinned code)
   The kinds name concrete ICE configurations / scripted broker behaviours of the Go driver;
   the table below says which library call fails for each (pion's and the broker channel's
   behaviour, validated by the correspondence itself). *)
From Coq Require Import List NArith Bool Arith String.
From Snow Require Import Lib.Wire Model.Connect.
Import ListNotations.
Open Scope N_scope.

(* does api.NewPeerConnection accept the ICE configuration? *)
Definition ice_ok (k : bytes) : option bool :=
  if beq k (bs "none") then Some true            (* no ICE servers *)
  else if beq k (bs "stun") then Some true       (* stun:127.0.0.1:3478 *)
  else if beq k (bs "empty") then Some false     (* URL "" (client default -ice "") *)
  else if beq k (bs "garbage") then Some false   (* URL "foo" *)
  else if beq k (bs "stunnohost") then Some false
  else if beq k (bs "http") then Some false
  else if beq k (bs "turnnocred") then Some false
  else if beq k (bs "mixed") then Some false     (* one valid, one "" *)
  else None.

(* (negotiate ok, set remote ok, opens) *)
Definition rv_outcome (k : bytes) : option (bool * bool * bool) :=
  if beq k (bs "good") then Some (true, true, true)
  else if beq k (bs "noopen") then Some (true, true, false)
  else if beq k (bs "garbagesdp") then Some (true, false, false)
  else if beq k (bs "wrongtype") then Some (true, false, false)
  else if beq k (bs "neterr") || beq k (bs "badjson") || beq k (bs "brokererr") || beq k (bs "emptyanswer")
          || beq k (bs "badanswer") || beq k (bs "typenum") || beq k (bs "unknowntype")
       then Some (false, false, false)
  else None.

Definition event_print (e : cevent) : bytes :=
  match e with
  | Ev_offer f => bs "offer" ++ (if f then bs "!" else [])
  | Ev_rendezvous f => bs "rendezvous" ++ (if f then bs "!" else [])
  | Ev_connected => bs "connected"
  | Ev_failed true => bs "failed"
  | Ev_failed false => bs "failed?nil"
  end.

Definition result_print (r : cresult * cstate) : bytes :=
  let '(res, c) := r in
  (* the driver closes a peer it was given *)
  let c' := match res with Conn_Ok => peer_close c | _ => c end in
  bs "res=" ++ (match res with Conn_Ok => bs "ok" | Conn_Err => bs "err" | Conn_Panic => bs "panic" end)
  ++ bs " events=" ++ list_print (map event_print (events c))
  ++ bs " rv=" ++ dec_print (N.of_nat (rv_calls c))
  ++ bs " leak=" ++ bool_print (negb (res_released (pc c') && res_released (dc c')))
  (* the driver's listener renders every event as the client binary's logger does: term = that panicked *)
  ++ bs " term=" ++ bool_print (negb (forallb render_ok (events c))).

Definition run (args : list bytes) : bytes :=
  match args with
  | [op; ice; rv] =>
      match ice_ok ice, rv_outcome rv with
      | Some i, Some (n, sr, op') =>
          let o := mkO i true true true n sr op' in
          if beq op (bs "conn") then result_print (new_peer CV1 o)
          else if beq op (bs "conn0") then result_print (new_peer CV0 o)
          else ERR_BADCASE
      | _, _ => ERR_BADCASE
      end
  | _ => ERR_BADCASE
  end.
