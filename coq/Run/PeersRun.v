(* PeersRun.v — line-protocol adapter for the Peers model (harness glue, executable).
   Case line:  peers run  <max> <watchdog-ms> <op,op,...>     (model V1 = repaired code)
               peers run0 <max> <watchdog-ms> <op,op,...>     (model V0 = pinned code)
   ops: c+ c- (Collect, Catch returns a peer / an error at once)   cb (Collect, Catch parked at a gate)
        g+ g- (let the parked Catch return a peer / an error)      cw (report on the collector)
        p (Pop)  pw (report on the oldest unreported Pop)          e (End)  ew (same for End)
        n (Count)                                                  x<k> (peer k closes: a whole Close call)
        xb<k> (a Close of peer k begins and is parked inside its teardown)   xe<k> (that Close call returns)
        s<k> (peer k has been quiet for longer than SnowflakeTimeout)       r<k> (peer k receives a message)
   The script runs on the composed machine of Model/PeerLife.v (the code's order FlagFirst), whose Peers component is
   the machine of Model/Peers.v: x<k> = LL_CloseBegin k; LL_CloseEnd k.
   Result: one token per op, then closed flags of all peers, melt flag, blocked threads.
           !racy      the outcome depends on the Go scheduler (not compared)
           !fuel      a run to quiescence ran out of fuel: the adapter never takes a state in which some thread
                      can still move for a settled one
           !disabled  the adapter asked for a step of the machine that was not enabled
   The watchdog value is used by the Go driver only. *)
From Coq Require Import List NArith Bool Arith String.
From Snow Require Import Lib.Wire Model.Peers Model.PeerLife.
Import ListNotations.
Open Scope N_scope.

Record ist := mkI {
  lst : lstate;          (* the composed machine; st = its Peers component *)
  plist : list nat;      (* poppers started and not yet reported, oldest first *)
  elist : list nat;      (* enders started and not yet reported, oldest first *)
  colm : bool;           (* the parked Catch was released with a peer after End had begun *)
  racy : bool;           (* the script reached a situation whose outcome depends on scheduling *)
  dead : bool;           (* a call panicked *)
  nofuel : bool;         (* a settle stopped because its fuel ran out, not because everything was blocked *)
  disabled : bool        (* the adapter asked the machine for a step that is not enabled *)
}.

Definition st (a : ist) : state := lp (lst a).

Definition fuel_of (s : state) : nat :=
  (100 + 4 * List.length (chan s) + 16 * (List.length (pops s) + List.length (ends s)))%nat.

(* nothing can move: every thread has returned or is blocked (an in-flight Catch stays in flight) *)
Definition settled (v : version) (s : lstate) : bool :=
  match lsettle_once v FlagFirst s with None => true | Some _ => false end.

Definition nat_print (n : nat) : bytes := dec_print (N.of_nat n).

Definition cres_print (m : bool) (r : cres) : bytes :=
  match r with
  | R_Ok p => if m then bs "m" else bs "ok:" ++ nat_print p
  | R_Melted => bs "refused"
  | R_AtCap => bs "refused"
  | R_Fail => bs "fail"
  | R_Aborted => if m then bs "m" else bs "aborted"
  end.

Definition with_st (a : ist) (s : lstate) : ist :=
  mkI s (plist a) (elist a) (colm a) (racy a) (panicked (lp s)) (nofuel a) (disabled a).
Definition mark_racy (a : ist) : ist :=
  mkI (lst a) (plist a) (elist a) (colm a) true (dead a) (nofuel a) (disabled a).
Definition set_colm (a : ist) (m : bool) : ist :=
  mkI (lst a) (plist a) (elist a) m (racy a) (dead a) (nofuel a) (disabled a).
Definition set_plist (a : ist) (l : list nat) : ist :=
  mkI (lst a) l (elist a) (colm a) (racy a) (dead a) (nofuel a) (disabled a).
Definition set_elist (a : ist) (l : list nat) : ist :=
  mkI (lst a) (plist a) l (colm a) (racy a) (dead a) (nofuel a) (disabled a).

(* run to quiescence; running out of fuel first is recorded, never passed off as quiescence *)
Definition a_settle (v : version) (a : ist) : ist :=
  let s' := lsettle v FlagFirst (fuel_of (st a)) (lst a) in
  mkI s' (plist a) (elist a) (colm a) (racy a) (panicked (lp s')) (nofuel a || negb (settled v s')) (disabled a).

(* one step the script calls for; a step that is not enabled is recorded, never skipped silently *)
Definition a_lstep (v : version) (a : ist) (l : llabel) : ist :=
  match lstep v FlagFirst (lst a) l with
  | Some s' => with_st a s'
  | None => mkI (lst a) (plist a) (elist a) (colm a) (racy a) (dead a) (nofuel a) true
  end.
Definition a_step (v : version) (a : ist) (l : label) : ist := a_lstep v a (LL_P l).

Definition exists_peer (s : state) (k : nat) : bool := (k <? next_peer s)%nat.
(* a Close call of peer k is inside its teardown *)
Definition closing (a : ist) (k : nat) : bool := begun (lst a) k && negb (torn (lst a) k).

(* report on the collector; a returned call is forgotten *)
Definition col_report (v : version) (a : ist) : ist * bytes :=
  let s := st a in
  match col s with
  | C_Idle => (a, bs "nocall")
  | C_Done r => (set_colm (a_step v a Col_return) false, cres_print (colm a) r)
  | C_Catching => (a, bs "catching")
  | _ => (a, bs "blocked")
  end.

Definition pop_pending (s : state) (i : nat) : bool :=
  match nth_error (pops s) i with Some (P_Ret _) => false | Some _ => true | None => false end.
Definition end_pending (s : state) (i : nat) : bool :=
  match nth_error (ends s) i with Some E_Done => false | Some _ => true | None => false end.

Definition pop_result (s : state) (i : nat) : option bytes :=
  match nth_error (pops s) i with
  | Some (P_Ret None) => Some (bs "none")
  | Some (P_Ret (Some p)) => Some (bs "some:" ++ nat_print p)
  | _ => None
  end.
Definition end_result (s : state) (i : nat) : option bytes :=
  match nth_error (ends s) i with
  | Some E_Done => Some (bs "ret")
  | _ => None
  end.

Definition is_catching (s : state) : bool := match col s with C_Catching => true | _ => false end.
Definition is_idle (s : state) : bool := match col s with C_Idle => true | _ => false end.
Definition is_sending (s : state) : bool := match col s with C_Sending _ => true | _ => false end.

Definition op_exec (v : version) (a : ist) (op : bytes) : option (ist * bytes) :=
  let s := st a in
  if dead a then Some (a, bs "dead") else
  if beq op (bs "c+") || beq op (bs "c-") || beq op (bs "cb") then
    if negb (is_idle s) then Some (a, bs "skip") else
    match lstep v FlagFirst (lst a) (LL_P Col_lock) with
    | None => Some (mark_racy a, bs "skip")       (* the lock is held by an End: who gets it next is the scheduler's choice *)
    | Some s1 =>
        let a2 := a_settle v (with_st a s1) in
        let a3 := if beq op (bs "cb") then a2
                  else if is_catching (st a2)
                       then a_settle v (a_step v a2 (if beq op (bs "c+") then Catch_ok else Catch_err))
                       else a2 in
        Some (col_report v a3)
    end
  else if beq op (bs "g+") || beq op (bs "g-") then
    if negb (is_catching s) then Some (a, bs "skip") else
    let ok := beq op (bs "g+") in
    let a1 := if ok && melted s && existsb (pop_pending s) (plist a) then mark_racy a else a in
    let a2 := a_settle v (a_step v a1 (if ok then Catch_ok else Catch_err)) in
    Some (col_report v (set_colm a2 (ok && melted s)))
  else if beq op (bs "cw") then Some (col_report v a)
  else if beq op (bs "p") then
    let a1 := if existsb (pop_pending s) (plist a) || (melted s && is_sending s) then mark_racy a else a in
    let i := List.length (pops s) in
    let a2 := a_settle v (a_step v a1 Pop_call) in
    match pop_result (st a2) i with
    | Some r => Some (a2, r)
    | None => Some (set_plist a2 (plist a2 ++ [i]), bs "blocked")
    end
  else if beq op (bs "pw") then
    match plist a with
    | [] => Some (a, bs "nocall")
    | i :: rest =>
        match pop_result s i with
        | Some r => Some (set_plist a rest, r)
        | None => Some (a, bs "blocked")
        end
    end
  else if beq op (bs "e") then
    let i := List.length (ends s) in
    let a2 := a_settle v (a_step v a End_call) in
    if panicked (st a2) then Some (a2, bs "panic") else
    match end_result (st a2) i with
    | Some r => Some (a2, r)
    | None => Some (set_elist a2 (elist a2 ++ [i]), bs "blocked")
    end
  else if beq op (bs "ew") then
    match elist a with
    | [] => Some (a, bs "nocall")
    | i :: rest =>
        match end_result s i with
        | Some r => Some (set_elist a rest, r)
        | None => Some (a, bs "blocked")
        end
    end
  else if beq op (bs "n") then
    Some (a, bs "n=" ++ nat_print (List.length (filter (live s) (active s))))
  else match op with
  | 120 :: 98 :: k =>                                (* xb<k>: Close begins, parked inside the teardown *)
      match dec_parse_nat k with
      | Some k =>
          if negb (exists_peer s k) then Some (a, bs "-")
          else if begun (lst a) k then Some (a, bs "skip")      (* sync.Once: no second teardown *)
          else Some (a_settle v (a_lstep v a (LL_CloseBegin k)), bs "xb")
      | None => None
      end
  | 120 :: 101 :: k =>                               (* xe<k>: that Close call returns *)
      match dec_parse_nat k with
      | Some k =>
          if negb (exists_peer s k) then Some (a, bs "-")
          else if closing a k then Some (a_settle v (a_lstep v a (LL_CloseEnd k)), bs "xe")
          else Some (a, bs "skip")
      | None => None
      end
  | 120 :: k =>                                      (* x<k>: a whole Close call *)
      match dec_parse_nat k with
      | Some k =>
          if negb (exists_peer s k) then Some (a, bs "-")     (* no such peer: the driver answers "-" as well *)
          else if closing a k then Some (a, bs "skip")        (* once.Do would wait for the teardown in progress *)
          else if begun (lst a) k then Some (a, bs "x")       (* closed before: nothing happens *)
          else Some (a_settle v (a_lstep v (a_lstep v a (LL_CloseBegin k)) (LL_CloseEnd k)), bs "x")
      | None => None
      end
  | 115 :: k =>                                      (* s<k>: quiet for longer than SnowflakeTimeout *)
      match dec_parse_nat k with
      | Some k => if exists_peer s k then Some (a_lstep v a (LL_Quiet k), bs "s") else Some (a, bs "-")
      | None => None
      end
  | 114 :: k =>                                      (* r<k>: a message arrives *)
      match dec_parse_nat k with
      | Some k => if exists_peer s k then Some (a_lstep v a (LL_Recv k), bs "r") else Some (a, bs "-")
      | None => None
      end
  | _ => None
  end.

Fixpoint ops_exec (v : version) (a : ist) (ops : list bytes) : option (ist * list bytes) :=
  match ops with
  | [] => Some (a, [])
  | op :: ops' =>
      match op_exec v a op with
      | Some (a', r) =>
          match ops_exec v a' ops' with
          | Some (a'', rs) => Some (a'', r :: rs)
          | None => None
          end
      | None => None
      end
  end.

Definition closed_print (s : state) : bytes :=
  match next_peer s with
  | O => bs "-"
  | _ => map (fun p => if closedf s p then 49 else 48) (seq 0 (next_peer s))
  end.

Definition count_true (l : list bool) : nat := List.length (filter (fun b => b) l).

Definition summary (a : ist) : bytes :=
  let s := st a in
  if dead a then bs " dead" else
  bs " closed=" ++ closed_print s ++ bs " melt=" ++ bool_print (melted s) ++ bs " pend=" ++
  nat_print (match col s with C_Idle | C_Done _ => 0%nat | _ => 1%nat end) ++ bs "/" ++
  nat_print (count_true (map (pop_pending s) (plist a))) ++ bs "/" ++
  nat_print (count_true (map (end_pending s) (elist a))).

Definition run_script (v : version) (max : nat) (ops : list bytes) : bytes :=
  match ops_exec v (mkI (linit max) [] [] false false false false false) ops with
  | Some (a, rs) =>
      if nofuel a then bs "!fuel"
      else if disabled a then bs "!disabled"
      else if negb (dead a) && negb (settled v (lst a)) then bs "!fuel"
      else if racy a then bs "!racy" else list_print rs ++ summary a
  | None => ERR_BADCASE
  end.

Definition run (args : list bytes) : bytes :=
  match args with
  | [op; m; w; sc] =>
      match dec_parse_nat m, dec_parse w with
      | Some max, Some _ =>
          let ops := if beq sc (bs "-") then [] else split_on COMMA sc in
          if beq op (bs "run") then run_script V1 max ops
          else if beq op (bs "run0") then run_script V0 max ops
          else ERR_BADCASE
      | _, _ => ERR_BADCASE
      end
  | _ => ERR_BADCASE
  end.
