(* CopyloopRun.v — adapter for Model/CopyLoop.v (the proxy's relay step copyLoop).
   copyloop run <reads0> <writes0> <reads1> <writes1> <schedule>
     reads   comma list ("-" = empty) of  d:<payload> (data) | e:<payload> (data together with EOF) | f:<payload> (data
             together with an error); an empty payload is "x"
     writes  comma list of  o (accepts everything) | s<n> (accepts at most n bytes, no error) | t<n> (accepts at most n
             bytes and returns an error); an exhausted write script accepts everything
     schedule  string over 0 1 (release direction 0 / 1: direction d copies from side d to side 1-d), m (release
             copyLoop's pending Close), s (close the shutdown channel), a b (somebody else closes side 0 / 1); "-" = empty
   -> w0=<bytes> w1=<bytes> r0=<n> r1=<n> c0=<n> c1=<n> p=<d0><d1><m> ret=<0|1> late=<n>,<n>
     w<s> bytes side s accepted (x<hex> up to 48 bytes, else n<len>.<first 8>.<last 8>.<adler32>), r<s> number of bytes
     side s handed out, c<s> Close calls on side s, p = what each direction is parked at (r/w/-) and where copyLoop is
     (w select, 1 Close(c1), 2 Close(c2), r returned), late = bytes accepted by each side after the return. *)
From Coq Require Import List NArith Bool Arith String.
From Snow Require Import Lib.Wire Model.CopyLoop.
Import ListNotations.
Open Scope N_scope.

Definition ritem_parse (t : bytes) : option cl_ritem :=
  match t with
  | 100 :: 58 :: p => option_map (fun b => mk_ritem b CNone) (payload_parse p)
  | 101 :: 58 :: p => option_map (fun b => mk_ritem b CEof) (payload_parse p)
  | 102 :: 58 :: p => option_map (fun b => mk_ritem b CErr) (payload_parse p)
  | _ => None
  end.

Definition witem_parse (t : bytes) : option cl_witem :=
  match t with
  | [111] => Some w_ok
  | 115 :: n => option_map (fun k => mk_witem (Some k) false) (dec_parse_nat n)
  | 116 :: n => option_map (fun k => mk_witem (Some k) true) (dec_parse_nat n)
  | _ => None
  end.

Definition step_parse (c : N) : option cl_step :=
  if c =? 48 then Some (Rel false) else if c =? 49 then Some (Rel true)
  else if c =? 109 then Some RelMain else if c =? 115 then Some Shutdown
  else if c =? 97 then Some (ExtClose false) else if c =? 98 then Some (ExtClose true) else None.

Definition sched_parse (t : bytes) : option (list cl_step) :=
  if beq t (bs "-") then Some [] else map_opt step_parse t.

Definition adler (l : bytes) : N :=
  let '(a, b) := fold_left (fun '(a, b) x => let a' := (a + x) mod 65521 in (a', (b + a') mod 65521)) l (1, 0) in
  b * 65536 + a.

Definition last8 (l : bytes) : bytes := skipn (List.length l - 8)%nat l.

Definition form (l : bytes) : bytes :=
  if (List.length l <=? 48)%nat then bs "x" ++ hex_encode l
  else bs "n" ++ dec_print (N.of_nat (List.length l)) ++ bs "." ++ hex_encode (firstn 8 l) ++ bs "." ++ hex_encode (last8 l)
       ++ bs "." ++ dec_print (adler l).

Definition nat_print (n : nat) : bytes := dec_print (N.of_nat n).

Definition dstate_print (d : cl_dstate) : bytes :=
  match d with AtRead => bs "r" | AtWrite _ _ => bs "w" | Exited => bs "-" end.
Definition mstate_print (m : cl_mstate) : bytes :=
  match m with Waiting => bs "w" | Closing1 => bs "1" | Closing2 => bs "2" | Returned => bs "r" end.

Definition state_print (st : cl_state) : bytes :=
  join [SP]
    [ bs "w0=" ++ form (s_in (side0 st)); bs "w1=" ++ form (s_in (side1 st));
      bs "r0=" ++ nat_print (List.length (s_out (side0 st))); bs "r1=" ++ nat_print (List.length (s_out (side1 st)));
      bs "c0=" ++ nat_print (s_closes (side0 st)); bs "c1=" ++ nat_print (s_closes (side1 st));
      bs "p=" ++ dstate_print (dir0 st) ++ dstate_print (dir1 st) ++ mstate_print (mn st);
      bs "ret=" ++ bool_print (match mn st with Returned => true | _ => false end);
      bs "late=" ++ nat_print (fst (late st)) ++ bs "," ++ nat_print (snd (late st)) ].

Definition run (args : list bytes) : bytes :=
  match args with
  | [op; r0; w0; r1; w1; sched] =>
      if beq op (bs "run") then
        match list_parse ritem_parse r0, list_parse witem_parse w0,
              list_parse ritem_parse r1, list_parse witem_parse w1, sched_parse sched with
        | Some r0', Some w0', Some r1', Some w1', Some sc => state_print (cl_run sc (cl_init r0' w0' r1' w1'))
        | _, _, _, _, _ => ERR_BADCASE
        end
      else ERR_BADCASE
  | _ => ERR_BADCASE
  end.
