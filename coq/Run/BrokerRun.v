(* BrokerRun.v — line-protocol adapter for Model/Broker.v, Model/BrokerHeap.v (harness glue, executable).
   broker run <v0|v1> <bridges> <labels>   -> observation line, or "!disabled <i>"
                                              (start: the built-in default bridge only, as NewBrokerContext leaves it;
                                               <bridges> other than "-" is installed first: InstallBridgeListProfile;
                                               label I:<f>=<u>;<f>=<u> installs a list in the middle of a run;
                                               a client label with fingerprint "-" names no bridge)
   broker irun <v0|v1> <bridges> <labels>  -> the same through Model/BrokerImpl.v istep (the two array heaps instead of the
                                              relational pool; the choice written in a client label is ignored and
                                              computed by heap.Pop), plus heapU=<len> heapR=<len>
   broker heap <ops>                       -> Model/BrokerHeap.v xstep on an empty SnowflakeHeap, one segment per op:
                                              <returned id|->/<slice: id:clients:index ...>/<left the heap: id:index ...>
   broker heapz <ops>                      -> the same with SIGNED client counts of Go's int range (written in decimal, "-8");
                                              the model runs on emb c = c + 2^63 (Model/BrokerHeap.v) and prints unemb
   broker bload <lines>                    -> Model/BrokerBridgeList.v load: "ok <f>=<u>;..." (map order of the model; the
                                              glue sorts) or "err". <lines>: ";"-separated ("-" = empty file), a line is
                                              x (not a JSON object) | e (the empty object) | "."-separated members
                                              <key><value>: key n=displayName a=webSocketAddress f=fingerprint (hex of 20
                                              bytes) g=fingerprint (any other string) u=unknown member;
                                              value s<tag> (string) | z (null) | o (other JSON type)
   label J:<lines> in run/irun             -> LoadBridgeInfo of a FILE in the middle of a run: L_Install (load lines) when
                                              the load succeeds, no step at all when it fails (the old list stays) *)
From Coq Require Import List NArith ZArith Bool Arith String.
From Snow Require Import Lib.Wire Model.Broker Model.BrokerHeap Model.BrokerImpl Model.BrokerBridgeList.
Import ListNotations.
Open Scope N_scope.

Definition nat_parse (t : bytes) : option natty :=
  if beq t (bs "u") then Some NatUnrestricted
  else if beq t (bs "r") then Some NatRestricted
  else if beq t (bs "k") then Some NatUnknown else None.
Definition nat_print (n : natty) : bytes :=
  match n with NatUnrestricted => bs "u" | NatRestricted => bs "r" | NatUnknown => bs "k" end.

Definition opt_bind {A B} (o : option A) (f : A -> option B) : option B :=
  match o with Some x => f x | None => None end.

Definition bridge_parse (t : bytes) : option (fpr * url) :=
  match split_on 61 t with  (* '=' *)
  | [a; b] => opt_bind (dec_parse a) (fun f => opt_bind (dec_parse b) (fun u => Some (f, u)))
  | _ => None
  end.

Definition member_parse (t : bytes) : option (jkey * jv) :=
  match t with
  | k :: v :: rest =>
      opt_bind (if k =? 110 then Some KName else if k =? 97 then Some KAddr else if k =? 102 then Some (KFp true)
                else if k =? 103 then Some (KFp false) else if k =? 117 then Some KUnknown else None) (fun key =>
      if v =? 115 then opt_bind (dec_parse rest) (fun s => Some (key, JStr s))
      else match rest with
           | [] => if v =? 122 then Some (key, JNull) else if v =? 111 then Some (key, JOther) else None
           | _ => None
           end)
  | _ => None
  end.
Definition jline_parse (t : bytes) : option jline :=
  if beq t (bs "x") then Some None
  else if beq t (bs "e") then Some (Some [])
  else option_map Some (map_opt member_parse (split_on DOT t)).
Definition jlines_parse (t : bytes) : option (list jline) :=
  if beq t (bs "-") then Some [] else map_opt jline_parse (split_on SEMI t).

Definition label_parse (t : bytes) : option label :=
  match split_on COLON t with
  | [k; a] =>
      if beq k (bs "I") then
        option_map L_Install (if beq a (bs "-") then Some [] else map_opt bridge_parse (split_on SEMI a))
      else
      opt_bind (dec_parse_nat a) (fun p =>
        if beq k (bs "FW") then Some (L_FireW p)
        else if beq k (bs "WT") then Some (L_WTake p)
        else if beq k (bs "WC") then Some (L_WTimeoutCS p)
        else if beq k (bs "RO") then Some (L_RvOffer p)
        else if beq k (bs "RF") then Some (L_RvForward p)
        else if beq k (bs "FC") then Some (L_FireC p)
        else if beq k (bs "CT") then Some (L_CTake p)
        else if beq k (bs "CC") then Some (L_CCleanup p)
        else if beq k (bs "RA") then Some (L_RvAnswer p)
        else if beq k (bs "AP") then Some (L_AnswerPut p)
        else if beq k (bs "TA") then Some (L_CTakeAnswer p)
        else None)
  | [k; a; b] =>
      if beq k (bs "A") then
        opt_bind (dec_parse a) (fun sd => opt_bind (dec_parse b) (fun an => Some (L_Answer sd an)))
      else None
  | [k; a; b; c; d] =>
      if beq k (bs "P") then
        opt_bind (dec_parse a) (fun sd => opt_bind (nat_parse b) (fun n =>
        opt_bind (dec_parse c) (fun pt => opt_bind (dec_parse d) (fun cl => Some (L_Poll sd n pt cl)))))
      else if beq k (bs "C") then
        opt_bind (nat_parse a) (fun n =>
        opt_bind (if beq b (bs "-") then Some None else option_map Some (dec_parse b)) (fun ofp =>
        opt_bind (dec_parse c) (fun o =>
        if beq d (bs "-") then Some (L_Client n ofp o None)
        else opt_bind (dec_parse_nat d) (fun p => Some (L_Client n ofp o (Some p))))))
      else None
  | _ => None
  end.

(* a label token stands for one label, or (J) for the outcome of loading a bridge-list file: one L_Install or nothing *)
Definition labels_parse (t : bytes) : option (list label) :=
  match split_on COLON t with
  | [k; a] =>
      if beq k (bs "J") then
        option_map (fun ls => match load ls with Some m => [L_Install m] | None => [] end) (jlines_parse a)
      else option_map (fun l => [l]) (label_parse t)
  | _ => option_map (fun l => [l]) (label_parse t)
  end.
Definition all_labels_parse (ls : bytes) : option (list label) :=
  option_map (@List.concat label) (list_parse labels_parse ls).

Definition presp_print (r : presp) : bytes :=
  match r with
  | PNoMatch => bs "nomatch"
  | PError => bs "error"
  | PMatch m => bs "match:" ++ dec_print (m_offer m) ++ [COLON] ++ nat_print (m_nat m) ++ [COLON] ++ dec_print (m_url m)
  end.
Definition cresp_print (r : cresp) : bytes :=
  match r with
  | CAnswer a => bs "answer:" ++ dec_print a
  | CNoProxies => bs "noproxies" | CTimedOut => bs "timeout" | CBadFingerprint => bs "badfp"
  end.

Fixpoint entries_print (i : nat) (es : list entry) : list bytes :=
  match es with
  | [] => []
  | e :: es' =>
      (bs "P" ++ dec_print (N.of_nat i) ++ bs "=" ++
        match e_w e with W_Done r => presp_print r | _ => bs "pending" end)
      :: (match e_cl e with
          | Some c => [bs "C" ++ dec_print (N.of_nat (c_id c)) ++ bs "=" ++
                       match c_pc c with C_Done r => cresp_print r | _ => bs "pending" end]
          | None => []
          end)
      ++ map (fun '(aid, _) => bs "A" ++ dec_print (N.of_nat aid) ++ bs "=pending") (e_senders e)
      ++ entries_print (S i) es'
  end.

Definition obs_print (s : state) : bytes :=
  join [SP]
    (entries_print 0 (entries s)
     ++ map (fun '(cid, _, _, _, r) => bs "C" ++ dec_print (N.of_nat cid) ++ bs "=" ++ cresp_print r) (done_clients s)
     ++ map (fun '(aid, _, _, ok) => bs "A" ++ dec_print (N.of_nat aid) ++ bs "=" ++ (if ok : bool then bs "ok" else bs "fail")) (done_answers s)
     ++ [bs "avail=" ++ dec_print (N.of_nat (List.length (idmap s)));
         bs "heap=" ++ dec_print (N.of_nat (count_inheap s));
         bs "gauge=" ++ zdec_print (gauge s);
         bs "q=" ++ bool_print (quiescent s)]).

(* ---- SnowflakeHeap scripts: u:<id>:<clients>:<ptype> push | o pop | r:<i> remove | f:<i>:<clients> fix ---- *)
Definition hop_parse (t : bytes) : option hop :=
  match split_on COLON t with
  | [k] => if beq k (bs "o") then Some HPop else None
  | [k; a] => if beq k (bs "r") then opt_bind (dec_parse_nat a) (fun i => Some (HRemove i)) else None
  | [k; a; b] =>
      if beq k (bs "f") then opt_bind (dec_parse_nat a) (fun i => opt_bind (dec_parse b) (fun c => Some (HFix i c)))
      else None
  | [k; a; b; _] =>
      if beq k (bs "u") then opt_bind (dec_parse_nat a) (fun i => opt_bind (dec_parse b) (fun c => Some (HPush (i, c))))
      else None
  | _ => None
  end.

Definition zload_parse (t : bytes) : option N :=
  opt_bind (zdec_parse t) (fun z => if int64_range z then Some (emb z) else None).
Definition zhop_parse (t : bytes) : option hop :=
  match split_on COLON t with
  | [k; a; b] =>
      if beq k (bs "f") then opt_bind (dec_parse_nat a) (fun i => opt_bind (zload_parse b) (fun c => Some (HFix i c)))
      else None
  | [k; a; b; _] =>
      if beq k (bs "u") then opt_bind (dec_parse_nat a) (fun i => opt_bind (zload_parse b) (fun c => Some (HPush (i, c))))
      else None
  | _ => hop_parse t
  end.

Definition dash_if_empty (l : list bytes) : bytes := match l with [] => bs "-" | _ => join [DOT] l end.

Definition sheap_print (pl : N -> bytes) (ret : option sfx) (h : sheap) : bytes :=
  (match ret with Some x => dec_print (N.of_nat (x_id x)) | None => bs "-" end)
  ++ bs "/" ++ dash_if_empty (map (fun x => dec_print (N.of_nat (x_id x)) ++ [COLON] ++ pl (snd (x_el x))
                                          ++ [COLON] ++ zdec_print (x_idx x)) (h_arr h))
  ++ bs "/" ++ dash_if_empty (map (fun x => dec_print (N.of_nat (x_id x)) ++ [COLON] ++ zdec_print (x_idx x)) (h_out h)).

Fixpoint heap_script (pl : N -> bytes) (ops : list hop) (h : sheap) : list bytes :=
  match ops with
  | [] => []
  | o :: r => let '(h', ret) := xstep h o in sheap_print pl ret h' :: heap_script pl r h'
  end.

Definition bmap_print (m : list (fpr * url)) : bytes :=
  match m with
  | [] => bs "ok -"
  | _ => bs "ok " ++ join [SEMI] (map (fun '(f, u) => dec_print f ++ bs "=" ++ dec_print u) m)
  end.

Definition run (args : list bytes) : bytes :=
  match args with
  | [op; ops] =>
      if beq op (bs "heap") then
        match list_parse hop_parse ops with
        | Some hs => join [SP] (heap_script dec_print hs sheap_empty)
        | None => ERR_BADCASE
        end
      else if beq op (bs "heapz") then
        match list_parse zhop_parse ops with
        | Some hs => join [SP] (heap_script (fun n => zdec_print (unemb n)) hs sheap_empty)
        | None => ERR_BADCASE
        end
      else if beq op (bs "bload") then
        match jlines_parse ops with
        | Some ls => match load ls with Some m => bmap_print m | None => bs "err" end
        | None => ERR_BADCASE
        end
      else ERR_BADCASE
  | [op; v; br; ls] =>
      if beq op (bs "run") then
        match (if beq v (bs "v0") then Some V0 else if beq v (bs "v1") then Some V1 else None),
              (if beq br (bs "-") then Some [] else option_map (fun b => [L_Install b]) (list_parse bridge_parse br)),
              all_labels_parse ls with
        | Some ver, Some inst, Some labels =>
            match run_idx ver (init builtin_bridges) (inst ++ labels) 0 with
            | inl s => obs_print s
            | inr i => bs "!disabled " ++ dec_print (N.of_nat (i - List.length inst))
            end
        | _, _, _ => ERR_BADCASE
        end
      else if beq op (bs "irun") then
        match (if beq v (bs "v0") then Some V0 else if beq v (bs "v1") then Some V1 else None),
              (if beq br (bs "-") then Some [] else option_map (fun b => [L_Install b]) (list_parse bridge_parse br)),
              all_labels_parse ls with
        | Some ver, Some inst, Some labels =>
            match irun_idx ver (iinit builtin_bridges) (inst ++ labels) 0 with
            | inl st => obs_print (i_s st) ++ bs " heapU=" ++ dec_print (N.of_nat (List.length (h_arr (i_hu st))))
                                           ++ bs " heapR=" ++ dec_print (N.of_nat (List.length (h_arr (i_hr st))))
            | inr i => bs "!disabled " ++ dec_print (N.of_nat (i - List.length inst))
            end
        | _, _, _ => ERR_BADCASE
        end
      else ERR_BADCASE
  | _ => ERR_BADCASE
  end.
