(* SessdescRun.v — line-protocol adapter for Model/SessDesc.v (harness glue, executable).

   JSON value token = comma list of atoms in prefix order:
     n | t | f | d<hex of number text> | s<hex of string bytes> | a<k> (k values follow)
     | o<k> (k pairs follow: key atom s<hex>, then the value)
   `invalid` = the text is not JSON.

   ops:  deser  <value|invalid> <ignored: x<hex of the text>>   -> result of [deserialize]
         deser0 <value|invalid> <ignored>                       -> result of [deserialize_v0]
         rt     <typename> x<hex sdp>                           -> deserialize (Some (serialize d))
         ser    <typename> x<hex sdp>                           -> value token of serialize d
   result: ok <typename> x<hex sdp> | err | !panic

   callers (Model/SessDescCallers.v); <v> = value token or `invalid`, as above:
         natprobe   <p | e | o<v>> <ignored>                 -> ret | !panic      (p: Post failed, e: DecodeAnswerRequest failed)
         polloffer  <script> <ignored>                        -> nil | ok <typename> x<hex> | !panic
         runsession <script> <relay_ok> <ignored>             -> ret | !panic
              script = `;`-list of b (bad response) | n (no match) | o<v> (client match with this Offer string)
         negotiate  <x | b | r | a<v>> <ignored>              -> err | ok <typename> x<hex> | !panic
         connect    <x | b | r | a<v>> <ignored>              -> ret | !panic
              x: Exchange failed, b: DecodeClientPollResponse failed, r: resp.Error != "", a<v>: resp.Answer *)
From Coq Require Import List NArith Bool Arith String.
From Snow Require Import Lib.Wire Model.SessDesc Model.SessDescCallers.
Import ListNotations.
Open Scope N_scope.

Fixpoint jparse (fuel : nat) (ts : list bytes) : option (json * list bytes) :=
  match fuel with
  | O => None
  | S f =>
      match ts with
      | [] => None
      | t :: r =>
          match t with
          | [110] => Some (JNull, r)
          | [116] => Some (JBool true, r)
          | [102] => Some (JBool false, r)
          | 100 :: h => match hex_decode h with Some b => Some (JNum b, r) | None => None end
          | 115 :: h => match hex_decode h with Some b => Some (JStr b, r) | None => None end
          | 97 :: k =>
              match dec_parse_nat k with
              | Some k =>
                  match (fix many (k : nat) (ts : list bytes) : option (list json * list bytes) :=
                           match k with
                           | O => Some ([], ts)
                           | S k' => match jparse f ts with
                                     | Some (v, r1) => match many k' r1 with
                                                       | Some (vs, r2) => Some (v :: vs, r2)
                                                       | None => None
                                                       end
                                     | None => None
                                     end
                           end) k r with
                  | Some (vs, r') => Some (JArr vs, r')
                  | None => None
                  end
              | None => None
              end
          | 111 :: k =>
              match dec_parse_nat k with
              | Some k =>
                  match (fix many (k : nat) (ts : list bytes) : option (list (bytes * json) * list bytes) :=
                           match k with
                           | O => Some ([], ts)
                           | S k' =>
                               match ts with
                               | (115 :: kh) :: r0 =>
                                   match hex_decode kh, jparse f r0 with
                                   | Some key, Some (v, r1) => match many k' r1 with
                                                               | Some (vs, r2) => Some ((key, v) :: vs, r2)
                                                               | None => None
                                                               end
                                   | _, _ => None
                                   end
                               | _ => None
                               end
                           end) k r with
                  | Some (vs, r') => Some (JObj vs, r')
                  | None => None
                  end
              | None => None
              end
          | _ => None
          end
      end
  end.

(* Some None = "invalid"; Some (Some v) = a value; None = bad case line *)
Definition value_parse (tok : bytes) : option (option json) :=
  if beq tok (bs "invalid") then Some None
  else
    let ts := split_on COMMA tok in
    match jparse (S (List.length ts)) ts with
    | Some (v, []) => Some (Some v)
    | _ => None
    end.

Fixpoint jprint_atoms (fuel : nat) (v : json) : list bytes :=
  match fuel with
  | O => []
  | S f =>
      match v with
      | JNull => [bs "n"]
      | JBool true => [bs "t"]
      | JBool false => [bs "f"]
      | JNum b => [100 :: hex_encode b]
      | JStr b => [115 :: hex_encode b]
      | JArr l => (97 :: dec_print (N.of_nat (List.length l))) :: flat_map (jprint_atoms f) l
      | JObj m => (111 :: dec_print (N.of_nat (List.length m)))
                    :: flat_map (fun kv => (115 :: hex_encode (fst kv)) :: jprint_atoms f (snd kv)) m
      end
  end.
Definition value_print (v : json) : bytes := join [COMMA] (jprint_atoms 1000 v).

Definition sdptype_parse (t : bytes) : option sdptype :=
  if beq t (bs "offer") then Some TOffer
  else if beq t (bs "pranswer") then Some TPranswer
  else if beq t (bs "answer") then Some TAnswer
  else if beq t (bs "rollback") then Some TRollback
  else if beq t (bs "other") then Some TOther
  else None.

Definition sdptype_print (t : sdptype) : bytes :=
  match t with
  | TOffer => bs "offer" | TPranswer => bs "pranswer" | TAnswer => bs "answer"
  | TRollback => bs "rollback" | TOther => bs "other"
  end.

Definition outcome_print (o : outcome) : bytes :=
  match o with
  | Ok d => bs "ok " ++ sdptype_print (d_type d) ++ bs " x" ++ hex_encode (d_sdp d)
  | Err _ => bs "err"
  | Panic => bs "!panic"
  end.

(* ---------------------------------------------------------------- callers *)

Definition outer_parse (t : bytes) : option (bool * option (option json)) :=
  match t with
  | [112] => Some (false, None)
  | [101] => Some (true, None)
  | 111 :: v => option_map (fun j => (true, Some j)) (value_parse v)
  | _ => None
  end.

Definition presp_parse (t : bytes) : option presp :=
  match t with
  | [98] => Some PollBad
  | [110] => Some PollNoMatch
  | 111 :: v => option_map PollOffer (value_parse v)
  | _ => None
  end.

Definition script_parse (t : bytes) : option (list presp) :=
  if beq t (bs "-") then Some [] else map_opt presp_parse (split_on SEMI t).

Definition cresp_parse (t : bytes) : option cresp :=
  match t with
  | [120] => Some ExchErr
  | [98] => Some RespBad
  | [114] => Some RespError
  | 97 :: v => option_map RespAnswer (value_parse v)
  | _ => None
  end.

Definition cout_print (c : cout) : bytes :=
  match c with CRet _ => bs "ret" | CPanic => bs "!panic" end.

Definition desc_print (d : desc) : bytes := bs "ok " ++ sdptype_print (d_type d) ++ bs " x" ++ hex_encode (d_sdp d).

Definition run (args : list bytes) : bytes :=
  match args with
  | [op; a; b] =>
      if beq op (bs "deser") then
        match value_parse a with Some j => outcome_print (deserialize j) | None => ERR_BADCASE end
      else if beq op (bs "deser0") then
        match value_parse a with Some j => outcome_print (deserialize_v0 j) | None => ERR_BADCASE end
      else if beq op (bs "rt") then
        match sdptype_parse a, payload_parse b with
        | Some t, Some s => outcome_print (deserialize (Some (serialize (mkDesc t s))))
        | _, _ => ERR_BADCASE
        end
      else if beq op (bs "ser") then
        match sdptype_parse a, payload_parse b with
        | Some t, Some s => value_print (serialize (mkDesc t s))
        | _, _ => ERR_BADCASE
        end
      else if beq op (bs "natprobe") then
        match outer_parse a with
        | Some (post_ok, outer) => cout_print (natprobe_code post_ok outer)
        | None => ERR_BADCASE
        end
      else if beq op (bs "polloffer") then
        match script_parse a with
        | Some rs => match poll_offer_code rs with
                     | None => bs "!panic"
                     | Some None => bs "nil"
                     | Some (Some d) => desc_print d
                     end
        | None => ERR_BADCASE
        end
      else if beq op (bs "negotiate") then
        match cresp_parse a with
        | Some r => match negotiate_code r with
                    | None => bs "!panic"
                    | Some (Some d, false) => desc_print d
                    | Some (None, false) => bs "!nilnil"
                    | Some (_, true) => bs "err"
                    end
        | None => ERR_BADCASE
        end
      else if beq op (bs "connect") then
        match cresp_parse a with
        | Some r => cout_print (connect_code r)
        | None => ERR_BADCASE
        end
      else ERR_BADCASE
  | [op; a; b; _] =>
      if beq op (bs "runsession") then
        match script_parse a, bool_parse b with
        | Some rs, Some relay_ok => cout_print (run_session_code rs relay_ok)
        | _, _ => ERR_BADCASE
        end
      else ERR_BADCASE
  | _ => ERR_BADCASE
  end.
