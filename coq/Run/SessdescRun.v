(* SessdescRun.v — line-protocol adapter for Model/SessDesc.v (harness glue, executable).

   JSON value token = comma list of atoms in prefix order:
     n | t | f | d<hex of number text> | s<hex of string bytes> | a<k> (k values follow)
     | o<k> (k pairs follow: key atom s<hex>, then the value)
   `invalid` = the text is not JSON.

   ops:  deser  <value|invalid> <ignored: x<hex of the text>>   -> result of [deserialize]
         deser0 <value|invalid> <ignored>                       -> result of [deserialize_v0]
         rt     <typename> x<hex sdp>                           -> deserialize (Some (serialize d))
         ser    <typename> x<hex sdp>                           -> value token of serialize d
   result: ok <typename> x<hex sdp> | err | !panic *)
From Coq Require Import List NArith Bool Arith String.
From Snow Require Import Lib.Wire Model.SessDesc.
Import ListNotations.
Open Scope N_scope.

Fixpoint jparse (fuel : nat) (ts : list bytes) : option (json * list bytes) :=
  match fuel with
  | O => None
  | S f =>
      match ts with
      | [] => None
      | t :: r =>
          match t with
          | [110] => Some (JNull, r)
          | [116] => Some (JBool true, r)
          | [102] => Some (JBool false, r)
          | 100 :: h => match hex_decode h with Some b => Some (JNum b, r) | None => None end
          | 115 :: h => match hex_decode h with Some b => Some (JStr b, r) | None => None end
          | 97 :: k =>
              match dec_parse_nat k with
              | Some k =>
                  match (fix many (k : nat) (ts : list bytes) : option (list json * list bytes) :=
                           match k with
                           | O => Some ([], ts)
                           | S k' => match jparse f ts with
                                     | Some (v, r1) => match many k' r1 with
                                                       | Some (vs, r2) => Some (v :: vs, r2)
                                                       | None => None
                                                       end
                                     | None => None
                                     end
                           end) k r with
                  | Some (vs, r') => Some (JArr vs, r')
                  | None => None
                  end
              | None => None
              end
          | 111 :: k =>
              match dec_parse_nat k with
              | Some k =>
                  match (fix many (k : nat) (ts : list bytes) : option (list (bytes * json) * list bytes) :=
                           match k with
                           | O => Some ([], ts)
                           | S k' =>
                               match ts with
                               | (115 :: kh) :: r0 =>
                                   match hex_decode kh, jparse f r0 with
                                   | Some key, Some (v, r1) => match many k' r1 with
                                                               | Some (vs, r2) => Some ((key, v) :: vs, r2)
                                                               | None => None
                                                               end
                                   | _, _ => None
                                   end
                               | _ => None
                               end
                           end) k r with
                  | Some (vs, r') => Some (JObj vs, r')
                  | None => None
                  end
              | None => None
              end
          | _ => None
          end
      end
  end.

(* Some None = "invalid"; Some (Some v) = a value; None = bad case line *)
Definition value_parse (tok : bytes) : option (option json) :=
  if beq tok (bs "invalid") then Some None
  else
    let ts := split_on COMMA tok in
    match jparse (S (List.length ts)) ts with
    | Some (v, []) => Some (Some v)
    | _ => None
    end.

Fixpoint jprint_atoms (fuel : nat) (v : json) : list bytes :=
  match fuel with
  | O => []
  | S f =>
      match v with
      | JNull => [bs "n"]
      | JBool true => [bs "t"]
      | JBool false => [bs "f"]
      | JNum b => [100 :: hex_encode b]
      | JStr b => [115 :: hex_encode b]
      | JArr l => (97 :: dec_print (N.of_nat (List.length l))) :: flat_map (jprint_atoms f) l
      | JObj m => (111 :: dec_print (N.of_nat (List.length m)))
                    :: flat_map (fun kv => (115 :: hex_encode (fst kv)) :: jprint_atoms f (snd kv)) m
      end
  end.
Definition value_print (v : json) : bytes := join [COMMA] (jprint_atoms 1000 v).

Definition sdptype_parse (t : bytes) : option sdptype :=
  if beq t (bs "offer") then Some TOffer
  else if beq t (bs "pranswer") then Some TPranswer
  else if beq t (bs "answer") then Some TAnswer
  else if beq t (bs "rollback") then Some TRollback
  else if beq t (bs "other") then Some TOther
  else None.

Definition sdptype_print (t : sdptype) : bytes :=
  match t with
  | TOffer => bs "offer" | TPranswer => bs "pranswer" | TAnswer => bs "answer"
  | TRollback => bs "rollback" | TOther => bs "other"
  end.

Definition outcome_print (o : outcome) : bytes :=
  match o with
  | Ok d => bs "ok " ++ sdptype_print (d_type d) ++ bs " x" ++ hex_encode (d_sdp d)
  | Err _ => bs "err"
  | Panic => bs "!panic"
  end.

Definition run (args : list bytes) : bytes :=
  match args with
  | [op; a; b] =>
      if beq op (bs "deser") then
        match value_parse a with Some j => outcome_print (deserialize j) | None => ERR_BADCASE end
      else if beq op (bs "deser0") then
        match value_parse a with Some j => outcome_print (deserialize_v0 j) | None => ERR_BADCASE end
      else if beq op (bs "rt") then
        match sdptype_parse a, payload_parse b with
        | Some t, Some s => outcome_print (deserialize (Some (serialize (mkDesc t s))))
        | _, _ => ERR_BADCASE
        end
      else if beq op (bs "ser") then
        match sdptype_parse a, payload_parse b with
        | Some t, Some s => value_print (serialize (mkDesc t s))
        | _, _ => ERR_BADCASE
        end
      else ERR_BADCASE
  | _ => ERR_BADCASE
  end.
