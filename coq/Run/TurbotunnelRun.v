(* TurbotunnelRun.v — line-protocol adapter for GoHeap / ClientMap / QueueConn / Redial
   (harness glue, executable).

   turbotunnel heap <ops>            container/heap on an int slice (Less = <)
        p<z> push | o pop | r<i> remove | f<i>:<z> h[i]=z;Fix(i) | a<z> raw append | n Init
   turbotunnel cm <timeout> <ops>    clientMapInner with explicit clock
        s<addr>@<now> SendQueue | e<now> removeExpired(now, timeout)
   turbotunnel qc <cap> <ops>        QueuePacketConn (no expiry: black-box clock)
        i<addr>:<payload> QueueIncoming | r<n> ReadFrom(buf[n]) | w<addr>:<payload> WriteTo
        o<addr> OutgoingQueue+recv | c Close
   turbotunnel qx <cap> <timeout> <ops>   QueuePacketConn model with explicit clock (model only)
        as qc plus w<addr>:<payload>@<now>, o<addr>@<now>, h<k> held recv, e<now> sweep *)
From Coq Require Import List NArith ZArith Bool Arith String.
From Snow Require Import Lib.Wire Model.GoHeap Model.ClientMap Model.QueueConn.
Import ListNotations.
Open Scope N_scope.

Definition AT : N := 64.
Definition EQ : N := 61.
Definition SLASH : N := 47.
Definition GT : N := 62.

Definition nat_print (n : nat) : bytes := dec_print (N.of_nat n).
Definition or_e (b : bytes) : bytes := match b with [] => bs "e" | _ => b end.

(* ---------------------------------------------------------------- heap *)
Inductive hop := HPush (z : Z) | HPop | HRemove (i : nat) | HFix (i : nat) (z : Z) | HAppend (z : Z) | HInit.

Definition hop_parse (t : bytes) : option hop :=
  match t with
  | 112 :: r => option_map HPush (zdec_parse r)                       (* p *)
  | [111] => Some HPop                                                 (* o *)
  | 114 :: r => option_map HRemove (dec_parse_nat r)                   (* r *)
  | 102 :: r => match split_on COLON r with                            (* f *)
                | [a; b] => match dec_parse_nat a, zdec_parse b with
                            | Some i, Some z => Some (HFix i z)
                            | _, _ => None
                            end
                | _ => None
                end
  | 97 :: r => option_map HAppend (zdec_parse r)                       (* a *)
  | [110] => Some HInit                                                (* n *)
  | _ => None
  end.

Definition zlist_print (l : list Z) : bytes := or_e (join [SEMI] (map zdec_print l)).

Definition hstep (l : list Z) (o : hop) : list Z * bytes :=
  match o with
  | HPush z => let l' := lpush Z.ltb z l in (l', zlist_print l')
  | HPop => match lpop Z.ltb l with
            | (l', Some v) => (l', zdec_print v ++ [GT] ++ zlist_print l')
            | (l', None) => (l', bs "!")
            end
  | HRemove i => match lremove Z.ltb l i with
                 | (l', Some v) => (l', zdec_print v ++ [GT] ++ zlist_print l')
                 | (l', None) => (l', bs "!")
                 end
  | HFix i z => let l' := lfix Z.ltb (set_nth i z l) i in (l', zlist_print l')
  | HAppend z => let l' := l ++ [z] in (l', zlist_print l')
  | HInit => let l' := linit Z.ltb l in (l', zlist_print l')
  end.

Fixpoint hrun (ops : list hop) (l : list Z) : list bytes :=
  match ops with
  | [] => []
  | o :: ops' => let '(l', r) := hstep l o in r :: hrun ops' l'
  end.

(* ---------------------------------------------------------------- client map *)
Definition addr_now_parse (r : bytes) : option (N * Z) :=
  match split_on AT r with
  | [a; b] => match dec_parse a, zdec_parse b with
              | Some a, Some z => Some (a, z)
              | _, _ => None
              end
  | _ => None
  end.

Inductive cmtok := TSend (a : N) (now : Z) | TExpire (now : Z).

Definition cmtok_parse (t : bytes) : option cmtok :=
  match t with
  | 115 :: r => option_map (fun p => TSend (fst p) (snd p)) (addr_now_parse r)   (* s *)
  | 101 :: r => option_map TExpire (zdec_parse r)                                (* e *)
  | _ => None
  end.

Definition rec_print (r : crec) : bytes :=
  dec_print (c_addr r) ++ [DOT] ++ zdec_print (c_seen r) ++ [DOT] ++ nat_print (c_qid r).

Fixpoint ins_nat (x : nat) (l : list nat) : list nat :=
  match l with
  | [] => [x]
  | y :: t => if Nat.leb x y then x :: l else y :: ins_nat x t
  end.
Definition sort_nat (l : list nat) : list nat := fold_right ins_nat [] l.

Definition cm_print (s : cmap) : bytes :=
  or_e (join [SEMI] (map rec_print (byAge s))) ++ [SLASH] ++
  or_e (join [SEMI] (map (fun e => dec_print (fst e) ++ [EQ] ++ nat_print (snd e)) (byAddr s))) ++ [SLASH] ++
  or_e (join [SEMI] (map nat_print (sort_nat (map fst (dead s))))).

Fixpoint cmrun (timeout : Z) (ops : list cmtok) (s : cmap) : list bytes :=
  match ops with
  | [] => []
  | TSend a now :: ops' =>
      let '(s', k) := send_queue a now s in
      (113 :: nat_print k ++ [SLASH] ++ cm_print s') :: cmrun timeout ops' s'
  | TExpire now :: ops' =>
      let s' := remove_expired now timeout s in
      cm_print s' :: cmrun timeout ops' s'
  end.

(* ---------------------------------------------------------------- queue conn *)
Definition addr_payload_parse (r : bytes) : option (N * payload) :=
  match split_on COLON r with
  | [a; p] => match dec_parse a, payload_parse p with
              | Some a, Some p => Some (a, p)
              | _, _ => None
              end
  | _ => None
  end.

(* <addr>:<payload>[@<now>] *)
Definition apn_parse (r : bytes) : option (N * payload * Z) :=
  match split_on AT r with
  | [ap] => option_map (fun x => (x, 0%Z)) (addr_payload_parse ap)
  | [ap; n] => match addr_payload_parse ap, zdec_parse n with
               | Some x, Some z => Some (x, z)
               | _, _ => None
               end
  | _ => None
  end.

Definition an_parse (r : bytes) : option (N * Z) :=
  match split_on AT r with
  | [a] => option_map (fun x => (x, 0%Z)) (dec_parse a)
  | [a; n] => match dec_parse a, zdec_parse n with
              | Some x, Some z => Some (x, z)
              | _, _ => None
              end
  | _ => None
  end.

Definition qop_parse (t : bytes) : option qop :=
  match t with
  | 105 :: r => option_map (fun x => QIncoming (snd x) (fst x)) (addr_payload_parse r)      (* i *)
  | 114 :: r => option_map QRead (dec_parse_nat r)                                           (* r *)
  | 119 :: r => option_map (fun x => QWrite (snd (fst x)) (fst (fst x)) (snd x)) (apn_parse r) (* w *)
  | 111 :: r => option_map (fun x => QOutRecv (fst x) (snd x)) (an_parse r)                  (* o *)
  | 104 :: r => option_map QHeldRecv (dec_parse_nat r)                                       (* h *)
  | 101 :: r => option_map QSweep (zdec_parse r)                                             (* e *)
  | [99] => Some QClose                                                                      (* c *)
  | _ => None
  end.

Definition hexp (p : payload) : bytes := 120 :: hex_encode p.

Definition qout_print (o : qout) : bytes :=
  match o with
  | ONone => bs "-"
  | OIncoming _ => bs "-"
  | ORead p a => hexp p ++ [AT] ++ dec_print a
  | OWouldBlock => bs "B"
  | OErrClosed => bs "E"
  | OWrote n _ _ => 110 :: nat_print n
  | ORecv _ (RcvPkt p) => hexp p
  | ORecv _ RcvEmpty => bs "B"
  | ORecv _ RcvClosed => bs "C"
  | OCloseOk => bs "ok"
  end.

Definition run (args : list bytes) : bytes :=
  match args with
  | [op; a] =>
      if beq op (bs "heap") then
        match list_parse hop_parse a with
        | Some ops => list_print (hrun ops [])
        | None => ERR_BADCASE
        end
      else ERR_BADCASE
  | [op; a; b] =>
      if beq op (bs "cm") then
        match zdec_parse a, list_parse cmtok_parse b with
        | Some timeout, Some ops => list_print (cmrun timeout ops cm_empty)
        | _, _ => ERR_BADCASE
        end
      else if beq op (bs "qc") then
        match dec_parse_nat a, list_parse qop_parse b with
        | Some cap, Some ops => list_print (map qout_print (snd (qrun cap 1%Z ops qc_empty)))
        | _, _ => ERR_BADCASE
        end
      else ERR_BADCASE
  | [op; a; b; c] =>
      if beq op (bs "qx") then
        match dec_parse_nat a, zdec_parse b, list_parse qop_parse c with
        | Some cap, Some timeout, Some ops => list_print (map qout_print (snd (qrun cap timeout ops qc_empty)))
        | _, _, _ => ERR_BADCASE
        end
      else ERR_BADCASE
  | _ => ERR_BADCASE
  end.
